/-
  C02 — the flattener's bookkeeping, part B: what `takePending`, `declare`,
  `flatTag`, `flatAttrs` do to the tag state.
-/
import Genshi.Lemmas.XmlFlatA
namespace Genshi.Xml
open Genshi Genshi.Xml.Reader

theorem normUri_of_ne {u : Str} (h : u ≠ noneUri) : normUri u = u := by simp [normUri, h]

theorem normUri_falsy {u : Str} (h : falsyUri u = true) : normUri u = [] := by
  unfold falsyUri at h
  unfold normUri
  by_cases hu : u = noneUri
  · simp [hu]
  · simp only [hu, if_false]
    simpa [hu] using h

theorem falsy_of_normUri_nil {u : Str} (h : normUri u = []) : falsyUri u = true := by
  unfold normUri at h
  unfold falsyUri
  by_cases hu : u = noneUri
  · simp [hu]
  · simp only [hu, if_false] at h
    simp [h]

/-! ### `takePending` -/

structure PendingOK (pending : List (Str × Str)) : Prop where
  nodup : (pending.map Prod.fst).Nodup
  legal : ∀ d ∈ pending, nsDeclOK d.1 d.2 = true

theorem nsDeclOK_legalB {p u : Str} (h : nsDeclOK p u = true) (a : Bool) : legalB (p, u, a) := by
  unfold nsDeclOK at h
  unfold legalB
  by_cases hp : p.isEmpty = true
  · simp only [hp, if_true] at h
    have : p = [] := by simpa using hp
    subst this
    exact h
  · rw [if_neg hp] at h
    simp only [Bool.and_eq_true, decide_eq_true_eq] at h
    simp only
    rw [normUri_of_ne h.2]
    exact h.1

/-- a declaration that is actually taken does not concern the `xml` prefix: the
    only legal one repeats the permanent binding and is skipped -/
theorem nsDeclOK_ne_xml {p u : Str} (h : nsDeclOK p u = true) {bs : List Binding} (hx : XmlBound bs)
    (hne : uriOf bs p ≠ some u) : p ≠ xmlPrefix := by
  intro e
  subst e
  unfold nsDeclOK at h
  have hp : xmlPrefix.isEmpty = false := by decide
  simp only [hp, Bool.false_eq_true, if_false, Bool.and_eq_true, decide_eq_true_eq] at h
  have hl := h.1
  unfold declLegal at hl
  simp only [hp, Bool.false_eq_true, if_false, Bool.not_eq_true', Bool.or_eq_false_iff] at hl
  have hd := hl.1.2
  simp only [ne_eq, eq_iff_iff, true_iff, Decidable.not_not, decide_eq_false_iff_not] at hd
  apply hne
  rw [hd]
  exact hx

theorem takePending_counter (t : TagSt) (pending : List (Str × Str)) :
    (takePending t pending).counter = t.counter := by
  induction pending generalizing t with
  | nil => rfl
  | cons d ds ih =>
    obtain ⟨p, u⟩ := d
    unfold takePending
    split <;> simp [ih]

theorem takePending_inv (base : List Binding) (pending : List (Str × Str)) :
    ∀ (t : TagSt), TagInv base t → PendingOK pending →
      (∀ p ∈ pending.map Prod.fst, p ∉ t.declared.map Prod.fst) →
      TagInv base (takePending t pending) := by
  induction pending with
  | nil => intro t h _ _; exact h
  | cons d ds ih =>
    intro t h hp hdis
    obtain ⟨p, u⟩ := d
    have hds : PendingOK ds := ⟨(List.nodup_cons.mp hp.nodup).2, fun d hd => hp.legal d (by simp [hd])⟩
    have hpnot : p ∉ ds.map Prod.fst := (List.nodup_cons.mp hp.nodup).1
    unfold takePending
    split
    · rename_i hc
      apply ih _ _ hds
      · intro q hq
        simp only [List.map_append, List.map_cons, List.map_nil, List.mem_append, List.mem_singleton, not_or]
        refine ⟨hdis q (by simp [hq]), ?_⟩
        intro e; subst e; exact hpnot hq
      · exact h.push p u false t.counter (hdis p (by simp)) (nsDeclOK_legalB (hp.legal (p, u) (by simp)) false)
          (nsDeclOK_ne_xml (hp.legal (p, u) (by simp)) h.xml hc.1)
    · exact ih t h hds (fun q hq => hdis q (by simp [hq]))

/-- prefixes that are not requested keep their binding -/
theorem takePending_other (pending : List (Str × Str)) (q : Str) (hq : q ∉ pending.map Prod.fst) :
    ∀ (t : TagSt), uriOf (takePending t pending).bindings q = uriOf t.bindings q ∧
      autoOf (takePending t pending).bindings q = autoOf t.bindings q := by
  induction pending with
  | nil => intro t; exact ⟨rfl, rfl⟩
  | cons d ds ih =>
    intro t
    obtain ⟨p, u⟩ := d
    simp only [List.map_cons, List.mem_cons, not_or] at hq
    unfold takePending
    split
    · have := ih hq.2 { t with bindings := (p, u, false) :: t.bindings, declared := t.declared ++ [(p, u)] }
      rw [this.1, this.2, uriOf_cons, autoOf_cons]
      have : p ≠ q := fun e => hq.1 e.symm
      simp [this]
    · exact ih hq.2 t

/-- a requested falsy default namespace is in force afterwards -/
theorem takePending_default_falsy (pending : List (Str × Str)) (hnd : (pending.map Prod.fst).Nodup)
    (u : Str) (hu : falsyUri u = true) (hm : ([], u) ∈ pending) :
    ∀ (t : TagSt), uriOf (takePending t pending).bindings [] = some u := by
  induction pending with
  | nil => simp at hm
  | cons d ds ih =>
    intro t
    obtain ⟨p, v⟩ := d
    have hnd' := List.nodup_cons.mp hnd
    rcases List.mem_cons.mp hm with e | hm'
    · cases e
      -- this entry is the default one; the rest does not touch the default
      have hrest : ([] : Str) ∉ ds.map Prod.fst := hnd'.1
      unfold takePending
      split
      · rw [(takePending_other ds [] hrest _).1, uriOf_cons]; simp
      · rename_i hc
        rw [(takePending_other ds [] hrest _).1]
        simp only [List.isEmpty_nil, not_true_eq_false, hu, true_or, false_or, and_true, ne_eq,
          Decidable.not_not] at hc
        exact hc
    · have hp : p ≠ [] := by
        intro e; subst e
        exact hnd'.1 (List.mem_map.mpr ⟨([], u), hm', rfl⟩)
      unfold takePending
      split
      · exact ih hnd'.2 hm' _
      · exact ih hnd'.2 hm' _

theorem lookup_none_not_mem {pending : List (Str × Str)} {p : Str} (h : List.lookup p pending = none) :
    p ∉ pending.map Prod.fst := by
  induction pending with
  | nil => simp
  | cons d ds ih =>
    obtain ⟨k, v⟩ := d
    simp only [List.lookup] at h
    by_cases hk : p = k
    · subst hk; simp at h
    · have e : (p == k) = false := by simpa using hk
      simp only [e] at h
      simp only [List.map_cons, List.mem_cons, not_or]
      exact ⟨hk, ih h⟩

theorem lookup_some_mem {pending : List (Str × Str)} {p u : Str} (h : List.lookup p pending = some u) :
    (p, u) ∈ pending := by
  induction pending with
  | nil => simp at h
  | cons d ds ih =>
    obtain ⟨k, v⟩ := d
    simp only [List.lookup] at h
    by_cases hk : p = k
    · subst hk; simp at h; subst h; simp
    · have e : (p == k) = false := by simpa using hk
      simp only [e] at h
      exact List.mem_cons_of_mem _ (ih h)

/-- when the checker's `d'` is false, the default namespace after the requested
    declarations is not an explicit non-empty one -/
theorem takePending_jprop (pending : List (Str × Str)) (hp : PendingOK pending) (t : TagSt)
    (d : Bool) (hj : d = false → JProp t.bindings)
    (hd' : ((List.lookup [] pending).map (fun u => !falsyUri u)).getD d = false) :
    JProp (takePending t pending).bindings := by
  cases hl : List.lookup [] pending with
  | none =>
    rw [hl] at hd'
    simp only [Option.map_none, Option.getD_none] at hd'
    have := takePending_other pending [] (lookup_none_not_mem hl) t
    intro ⟨v, h1, h2, h3⟩
    rw [this.1] at h1; rw [this.2] at h3
    exact hj hd' ⟨v, h1, h2, h3⟩
  | some u =>
    rw [hl] at hd'
    simp only [Option.map_some, Option.getD_some, Bool.not_eq_false'] at hd'
    exact JProp.of_falsy (takePending_default_falsy pending hp.nodup u hd' (lookup_some_mem hl) t) hd'

end Genshi.Xml

namespace Genshi.Xml
open Genshi Genshi.Xml.Reader

/-! ### `declare` -/

theorem declare_given_nil (pref : List (Str × Str)) (t : TagSt) (uri : Str)
    (hn : ([] : Str) ∉ t.declared.map Prod.fst) :
    declare pref t uri (some []) =
      ([], { bindings := ([], uri, true) :: t.bindings, declared := t.declared ++ [([], uri)],
             counter := t.counter }) := by
  have : (t.declared.map Prod.fst).contains ([] : Str) = false := by simpa using hn
  simp only [declare, this, Bool.false_eq_true, if_false]

theorem declare_fresh (pref : List (Str × Str)) (t : TagSt) (uri : Str) (pfx : Option Str)
    (hp : pfx = none ∨ ∃ p, pfx = some p ∧ p ∈ t.declared.map Prod.fst) :
    declare pref t uri pfx =
      ((freshPrefix pref t.bindings uri t.counter).1,
       { bindings := ((freshPrefix pref t.bindings uri t.counter).1, uri, true) :: t.bindings,
         declared := t.declared ++ [((freshPrefix pref t.bindings uri t.counter).1, uri)],
         counter := (freshPrefix pref t.bindings uri t.counter).2 }) := by
  unfold declare
  rcases hp with rfl | ⟨p, rfl, hp⟩
  · simp
  · have : (t.declared.map Prod.fst).contains p = true := by simpa using hp
    simp only [this, if_true]

theorem legalB_of_declLegal {p u : Str} {a : Bool} (hu : u ≠ noneUri) (h : declLegal p u = true) :
    legalB (p, u, a) := by
  unfold legalB; simp only; rw [normUri_of_ne hu]; exact h

theorem declLegal_ne_xml {p u : Str} (hp : p ≠ []) (h : declLegal p u = true) (hu : u ≠ xmlNs) :
    p ≠ xmlPrefix := by
  intro e
  unfold declLegal at h
  have he : p.isEmpty = false := by simpa using hp
  simp [he, e, hu] at h
  exact absurd h.1 (by decide)

/-- the fresh-prefix branch of `declare`, on a namespace XML can declare -/
theorem declare_fresh_inv (pref : List (Str × Str)) (hpref : prefOK pref = true)
    (base : List Binding) (t : TagSt) (h : TagInv base t) (uri : Str) (pfx : Option Str)
    (hp : pfx = none ∨ ∃ p, pfx = some p ∧ p ∈ t.declared.map Prod.fst)
    (h1 : uri ≠ []) (h2 : uri ≠ xmlNs) (h3 : uri ≠ xmlnsNs) (h4 : uri ≠ noneUri) :
    TagInv base (declare pref t uri pfx).2 ∧
    (declare pref t uri pfx).1 ≠ [] ∧
    uriOf t.bindings (declare pref t uri pfx).1 = none ∧
    (declare pref t uri pfx).2.bindings = ((declare pref t uri pfx).1, uri, true) :: t.bindings := by
  rw [declare_fresh pref t uri pfx hp]
  obtain ⟨f1, f2, f3⟩ := freshPrefix_spec pref hpref t.bindings uri t.counter h1 h2 h3
  refine ⟨?_, f1, f2, rfl⟩
  apply h.push _ uri true _ _ (legalB_of_declLegal h4 f3) (declLegal_ne_xml f1 f3 h2)
  intro hm
  exact h.declared_bound hm f2

/-! ### the tag name -/

def TagRes (bs : List Binding) (name : Str) (tag : QName) : Prop :=
  if tag.ns = [] then name = tag.loc ∧ ∃ u, uriOf bs [] = some u ∧ falsyUri u = true
  else ∃ p, name = qualify p tag.loc ∧ uriOf bs p = some tag.ns

theorem TagRes.ext {bs bs' : List Binding} {name : Str} {tag : QName} (h : TagRes bs name tag)
    (he : Ext bs bs') : TagRes bs' name tag := by
  unfold TagRes at *
  by_cases hn : tag.ns = []
  · simp only [hn, if_true] at h ⊢
    obtain ⟨h1, u, h2, h3⟩ := h
    exact ⟨h1, u, by rw [he.default.1]; exact h2, h3⟩
  · simp only [hn, if_false] at h ⊢
    obtain ⟨p, h1, h2⟩ := h
    exact ⟨p, h1, he.uriOf h2⟩

theorem nsOK_ne {ns : Str} (h : nsOK ns = true) : ns ≠ noneUri ∧ ns ≠ xmlnsNs := by
  unfold nsOK at h
  simpa using h

theorem ne_xmlNs_of_findPrefix_none {bs : List Binding} (hx : XmlBound bs) {ns : Str} {fa : Bool}
    (h : findPrefix bs ns fa = none) : ns ≠ xmlNs := by
  intro e
  subst e
  have := findPrefix_complete bs xmlNs fa xmlPrefix xmlPrefix_ne_nil hx
  rw [h] at this
  cases this

theorem declLegal_nil {u : Str} (h1 : u ≠ xmlNs) (h2 : u ≠ xmlnsNs) : declLegal [] u = true := by
  unfold declLegal; simp [h1, h2]

theorem flatTag_spec (pref : List (Str × Str)) (hpref : prefOK pref = true)
    (base : List Binding) (t : TagSt) (h : TagInv base t) (tag : QName) (htag : tagOK tag = true)
    (hj : tag.ns = [] → JProp t.bindings)
    (hexp : ([] : Str) ∈ t.declared.map Prod.fst → autoOf t.bindings [] = false) :
    TagInv base (flatTag pref t tag).2 ∧
    TagRes (flatTag pref t tag).2.bindings (flatTag pref t tag).1 tag ∧
    (JProp t.bindings → JProp (flatTag pref t tag).2.bindings) := by
  have htag' : locOK tag.loc = true ∧ nsOK tag.ns = true := by
    unfold tagOK at htag; simpa using htag
  obtain ⟨hns1, hns2⟩ := nsOK_ne htag'.2
  unfold flatTag
  by_cases hn : tag.ns = []
  · have hne : tag.ns.isEmpty = true := by simp [hn]
    simp only [hne, if_true]
    cases hu : uriOf t.bindings [] with
    | none => exact absurd hu (uriOf_nil_ne_none _)
    | some u =>
      simp only
      by_cases hc : ¬ falsyUri u = true ∧ autoOf t.bindings [] = true
      · rw [if_pos hc]
        have hnd : ([] : Str) ∉ t.declared.map Prod.fst := by
          intro hm; rw [hexp hm] at hc; exact absurd hc.2 (by simp)
        rw [declare_given_nil pref t [] hnd]
        refine ⟨?_, ?_, fun hj' => hj'.cons_auto⟩
        · exact h.push [] [] true t.counter hnd (by unfold legalB; decide) (by decide)
        · unfold TagRes; rw [if_pos hn]
          exact ⟨rfl, [], by rw [uriOf_cons]; simp, by decide⟩
      · rw [if_neg hc]
        refine ⟨h, ?_, fun hj' => hj'⟩
        unfold TagRes; rw [if_pos hn]
        refine ⟨rfl, u, hu, ?_⟩
        cases hf : falsyUri u with
        | true => rfl
        | false =>
          exfalso
          apply hj hn
          refine ⟨u, hu, hf, ?_⟩
          cases ha : autoOf t.bindings [] with
          | false => rfl
          | true => exact absurd ⟨by simp [hf], ha⟩ hc
  · have hne : tag.ns.isEmpty = false := by simpa using hn
    simp only [hne, Bool.false_eq_true, if_false]
    cases hf : findPrefix t.bindings tag.ns false with
    | some p =>
      simp only
      refine ⟨h, ?_, fun hj' => hj'⟩
      unfold TagRes; rw [if_neg hn]
      exact ⟨p, rfl, (findPrefix_sound _ _ _ _ hf).1⟩
    | none =>
      simp only
      have hx := ne_xmlNs_of_findPrefix_none h.xml hf
      by_cases hnd : ([] : Str) ∈ t.declared.map Prod.fst
      · obtain ⟨i1, i2, i3, i4⟩ := declare_fresh_inv pref hpref base t h tag.ns (some [])
          (Or.inr ⟨[], rfl, hnd⟩) hn hx hns2 hns1
        refine ⟨i1, ?_, fun hj' => by rw [i4]; exact hj'.cons_auto⟩
        unfold TagRes; rw [if_neg hn]
        exact ⟨_, rfl, by rw [i4, uriOf_cons]; simp⟩
      · rw [declare_given_nil pref t tag.ns hnd]
        refine ⟨?_, ?_, fun hj' => hj'.cons_auto⟩
        · exact h.push [] tag.ns true t.counter hnd
            (legalB_of_declLegal hns1 (declLegal_nil hx hns2)) (by decide)
        · unfold TagRes; rw [if_neg hn]
          exact ⟨[], rfl, by rw [uriOf_cons]; simp⟩

end Genshi.Xml

namespace Genshi.Xml
open Genshi Genshi.Xml.Reader

/-- a default namespace requested on this very tag is an explicit one -/
theorem takePending_explicit (pending : List (Str × Str)) :
    ∀ (t : TagSt), (([] : Str) ∈ t.declared.map Prod.fst → autoOf t.bindings [] = false) →
      (([] : Str) ∈ (takePending t pending).declared.map Prod.fst →
        autoOf (takePending t pending).bindings [] = false) := by
  induction pending with
  | nil => intro t h; exact h
  | cons d ds ih =>
    intro t h
    obtain ⟨p, u⟩ := d
    unfold takePending
    split
    · apply ih
      intro hm
      simp only [List.map_append, List.map_cons, List.map_nil, List.mem_append, List.mem_singleton] at hm
      rw [autoOf_cons]
      by_cases hp : p = []
      · simp [hp]
      · simp only [hp, if_false]
        rcases hm with hm | hm
        · exact h hm
        · exact absurd hm.symm hp
    · exact ih t h

/-! ### the attributes -/

def AttrRes (bs : List Binding) (o : Str × Str) (a : QName × Str) : Prop :=
  o.2 = a.2 ∧
  if a.1.ns = [] then o.1 = a.1.loc
  else ∃ p, p ≠ [] ∧ o.1 = p ++ ':' :: a.1.loc ∧ uriOf bs p = some a.1.ns

theorem AttrRes.ext {bs bs' : List Binding} {o : Str × Str} {a : QName × Str} (h : AttrRes bs o a)
    (he : Ext bs bs') : AttrRes bs' o a := by
  unfold AttrRes at *
  refine ⟨h.1, ?_⟩
  by_cases hn : a.1.ns = []
  · rw [if_pos hn]; have := h.2; rwa [if_pos hn] at this
  · rw [if_neg hn]; have := h.2; rw [if_neg hn] at this
    obtain ⟨p, h1, h2, h3⟩ := this
    exact ⟨p, h1, h2, he.uriOf h3⟩

theorem forall₂_ext {bs bs' : List Binding} (he : Ext bs bs') :
    ∀ {out : List (Str × Str)} {attrs : AttrList},
      List.Forall₂ (AttrRes bs) out attrs → List.Forall₂ (AttrRes bs') out attrs := by
  intro out attrs h
  induction h with
  | nil => exact .nil
  | cons h1 _ ih => exact .cons (h1.ext he) ih

theorem attrOK_parts {a : QName × Str} (h : attrOK a = true) :
    locOK a.1.loc = true ∧ nsOK a.1.ns = true ∧ ¬ (a.1.ns = [] ∧ a.1.loc = xmlnsName) ∧ a.2 ≠ noneUri := by
  unfold attrOK at h
  simp only [Bool.and_eq_true, Bool.not_eq_true', Bool.and_eq_false_iff, decide_eq_true_eq,
    decide_eq_false_iff_not, ne_eq] at h
  refine ⟨h.1.1.1, h.1.1.2, ?_, h.2⟩
  intro ⟨h1, h2⟩
  rcases h.1.2 with h3 | h3
  · simp [h1] at h3
  · exact h3 h2

theorem flatAttrs_spec (pref : List (Str × Str)) (hpref : prefOK pref = true) (base : List Binding)
    (attrs : AttrList) :
    ∀ (t : TagSt), TagInv base t → (∀ a ∈ attrs, attrOK a = true) →
      TagInv base (flatAttrs pref t attrs).2 ∧
      Ext t.bindings (flatAttrs pref t attrs).2.bindings ∧
      List.Forall₂ (AttrRes (flatAttrs pref t attrs).2.bindings) (flatAttrs pref t attrs).1 attrs := by
  induction attrs with
  | nil => intro t h _; exact ⟨h, Ext.refl _, .nil⟩
  | cons av rest ih =>
    intro t h hok
    obtain ⟨a, v⟩ := av
    have hrest : ∀ x ∈ rest, attrOK x = true := fun x hx => hok x (by simp [hx])
    obtain ⟨_, hns, _, _⟩ := attrOK_parts (hok (a, v) (by simp))
    obtain ⟨hns1, hns2⟩ := nsOK_ne hns
    unfold flatAttrs
    by_cases hn : a.ns = []
    · have hne : a.ns.isEmpty = true := by simp [hn]
      simp only [hne, if_true]
      obtain ⟨i1, i2, i3⟩ := ih t h hrest
      refine ⟨i1, i2, .cons ?_ i3⟩
      unfold AttrRes; exact ⟨rfl, by rw [if_pos hn]⟩
    · have hne : a.ns.isEmpty = false := by simpa using hn
      simp only [hne, Bool.false_eq_true, if_false]
      cases hf : findPrefix t.bindings a.ns true with
      | some p =>
        simp only
        obtain ⟨i1, i2, i3⟩ := ih t h hrest
        refine ⟨i1, i2, .cons ?_ i3⟩
        have hs := findPrefix_sound _ _ _ _ hf
        have : AttrRes t.bindings (p ++ ':' :: a.loc, v) (a, v) := by
          unfold AttrRes; exact ⟨rfl, by rw [if_neg hn]; exact ⟨p, hs.2 rfl, rfl, hs.1⟩⟩
        exact this.ext i2
      | none =>
        simp only
        have hx := ne_xmlNs_of_findPrefix_none h.xml hf
        obtain ⟨j1, j2, j3, j4⟩ := declare_fresh_inv pref hpref base t h a.ns none (Or.inl rfl) hn hx hns2 hns1
        obtain ⟨i1, i2, i3⟩ := ih (declare pref t a.ns none).2 j1 hrest
        have hext : Ext t.bindings (declare pref t a.ns none).2.bindings := by
          rw [j4]; exact Ext.push _ _ _ (Ext.refl _) j3
        refine ⟨i1, hext.trans i2, .cons ?_ i3⟩
        have : AttrRes (declare pref t a.ns none).2.bindings
            ((declare pref t a.ns none).1 ++ ':' :: a.loc, v) (a, v) := by
          unfold AttrRes
          refine ⟨rfl, ?_⟩
          rw [if_neg hn]
          exact ⟨_, j2, rfl, by rw [j4, uriOf_cons]; simp⟩
        exact this.ext i2

end Genshi.Xml

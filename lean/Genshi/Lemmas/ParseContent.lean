/-
  C07 — nothing is lost, duplicated or reordered by the layer: the character data and the
  START / COMMENT / PI events of the delivered stream are exactly those of the callbacks.
-/
import Genshi.Lemmas.ParseHtml
import Genshi.Lemmas.ParseXml
namespace Genshi.Parse
open Genshi

def isEnd : Event → Bool
  | .end_ _ => true
  | _ => false

/-- the events that are neither character data nor an END (for HTML: START, COMMENT, PI) -/
def mainEvents (s : Stream) : Stream := s.filter fun e => !isText e && !isEnd e

/-- the character data a callback contributes -/
def cbText : HtmlCb → Str
  | .data s => s
  | .charref n => match charrefText n with
    | .ok t => t
    | .error _ => []
  | .entityref n => entityrefText n
  | _ => []

/-- the START / COMMENT / PI a callback contributes -/
def cbMain (env : Env) : HtmlCb → Stream
  | .starttag tag attrs => match fixAttrs env attrs with
    | .ok f => [.start (mkQName tag) f]
    | .error _ => []
  | .startendtag tag attrs => match fixAttrs env attrs with
    | .ok f => [.start (mkQName tag) f]
    | .error _ => []
  | .comment s => [.comment s]
  | .pi s => [piEvent s]
  | _ => []

def itemText : Item HtmlCb → Str
  | .cb c => cbText c
  | .raise _ => []

def itemMain (env : Env) : Item HtmlCb → Stream
  | .cb c => cbMain env c
  | .raise _ => []

theorem textOf_append : ∀ (a b : Stream), textOf (a ++ b) = textOf a ++ textOf b
  | [], b => by simp [textOf]
  | e :: a, b => by cases e <;> simp [textOf, textOf_append a b]

theorem mainEvents_append (a b : Stream) : mainEvents (a ++ b) = mainEvents a ++ mainEvents b := by
  simp [mainEvents]

theorem mainEvents_cons_end (q : QName) (es : Stream) : mainEvents (.end_ q :: es) = mainEvents es := by
  simp [mainEvents, isText, isEnd]

theorem textOf_ends (f : Str → Event) (hf : ∀ t, ∃ q, f t = .end_ q) : ∀ (l : List Str), textOf (l.map f) = []
  | [] => rfl
  | t :: l => by obtain ⟨q, hq⟩ := hf t; simp [hq, textOf, textOf_ends f hf l]

theorem mainEvents_ends (f : Str → Event) (hf : ∀ t, ∃ q, f t = .end_ q) : ∀ (l : List Str), mainEvents (l.map f) = []
  | [] => rfl
  | t :: l => by
      obtain ⟨q, hq⟩ := hf t
      rw [List.map_cons, hq, mainEvents_cons_end]
      exact mainEvents_ends f hf l

theorem popTo_ends (env : Env) (tag : Str) : ∀ (o : List Str),
    textOf (popTo env tag o).2 = [] ∧ mainEvents (popTo env tag o).2 = []
  | [] => by simp [popTo, textOf, mainEvents]
  | t :: o => by
      simp only [popTo]
      split
      · simp [textOf, mainEvents, isEnd]
      · obtain ⟨h1, h2⟩ := popTo_ends env tag o
        rw [mainEvents_cons_end]
        exact ⟨by simp [textOf, h1], h2⟩

theorem handleEndtag_ends (env : Env) (o : List Str) (tag : Str) :
    textOf (handleEndtag env o tag).2 = [] ∧ mainEvents (handleEndtag env o tag).2 = [] := by
  unfold handleEndtag
  split
  · simp [textOf, mainEvents]
  · exact popTo_ends env tag o

theorem handleStarttag_content (env : Env) (o o' : List Str) (tag : Str) (attrs : List (Str × Option Str))
    (evs : Stream) (h : handleStarttag env o tag attrs = .ok (o', evs)) :
    textOf evs = [] ∧ mainEvents evs = cbMain env (.starttag tag attrs) := by
  unfold handleStarttag at h
  cases hf : fixAttrs env attrs with
  | error e => simp [hf] at h
  | ok fixed =>
    simp only [hf] at h
    split at h <;>
    · simp only [Except.ok.injEq, Prod.mk.injEq] at h
      obtain ⟨rfl, rfl⟩ := h
      simp [textOf, mainEvents, cbMain, hf, isText, isEnd]

theorem htmlStep_content (env : Env) (o o' : List Str) (c : HtmlCb) (evs : Stream)
    (h : htmlStep env o c = .ok (o', evs)) :
    textOf evs = cbText c ∧ mainEvents evs = cbMain env c := by
  cases c with
  | starttag tag attrs =>
    have := handleStarttag_content env o o' tag attrs evs h
    exact ⟨by rw [this.1]; rfl, this.2⟩
  | endtag tag =>
    simp only [htmlStep, Except.ok.injEq] at h
    have := handleEndtag_ends env o tag
    rw [h] at this
    exact ⟨by rw [this.1]; rfl, by rw [this.2]; rfl⟩
  | startendtag tag attrs =>
    simp only [htmlStep] at h
    cases hs : handleStarttag env o tag attrs with
    | error e => simp [hs] at h
    | ok r =>
      obtain ⟨o1, e1⟩ := r
      simp only [hs, Except.ok.injEq, Prod.mk.injEq] at h
      obtain ⟨rfl, rfl⟩ := h
      have h1 := handleStarttag_content env o o1 tag attrs e1 hs
      have h2 := handleEndtag_ends env o1 tag
      rw [textOf_append, mainEvents_append, h1.1, h1.2, h2.1, h2.2]
      simp [cbText, cbMain]
  | data s =>
    simp only [htmlStep, Except.ok.injEq, Prod.mk.injEq] at h
    obtain ⟨rfl, rfl⟩ := h; simp [textOf, mainEvents, cbText, cbMain]
  | comment s =>
    simp only [htmlStep, Except.ok.injEq, Prod.mk.injEq] at h
    obtain ⟨rfl, rfl⟩ := h; simp [textOf, mainEvents, cbText, cbMain, isText, isEnd]
  | pi s =>
    simp only [htmlStep, Except.ok.injEq, Prod.mk.injEq] at h
    obtain ⟨rfl, rfl⟩ := h
    obtain ⟨t, d, hpi⟩ := piEvent_isPi s
    simp [textOf, mainEvents, cbText, cbMain, hpi, isText, isEnd]
  | charref name =>
    simp only [htmlStep] at h
    cases hc : charrefText name with
    | error e => simp [hc] at h
    | ok t =>
      simp only [hc, Except.ok.injEq, Prod.mk.injEq] at h
      obtain ⟨rfl, rfl⟩ := h; simp [textOf, mainEvents, cbText, cbMain, hc]
  | entityref name =>
    simp only [htmlStep, Except.ok.injEq, Prod.mk.injEq] at h
    obtain ⟨rfl, rfl⟩ := h; simp [textOf, mainEvents, cbText, cbMain]
  | decl s =>
    simp only [htmlStep, Except.ok.injEq, Prod.mk.injEq] at h
    obtain ⟨rfl, rfl⟩ := h; simp [textOf, mainEvents, cbText, cbMain]

theorem eager_html_content (env : Env) : ∀ (items : List (Item HtmlCb)) (o : List Str),
    (eager (htmlLayer env) o items).2 = none →
    textOf (eager (htmlLayer env) o items).1 = items.flatMap itemText ∧
    mainEvents (eager (htmlLayer env) o items).1 = items.flatMap (itemMain env)
  | [], o, _ => by
      simp only [eager, htmlLayer, closers, List.flatMap_nil]
      exact ⟨textOf_ends _ (fun t => ⟨_, rfl⟩) o, mainEvents_ends _ (fun t => ⟨_, rfl⟩) o⟩
  | .raise e :: rest, o, h => by simp [eager] at h
  | .cb c :: rest, o, h => by
      simp only [eager] at h ⊢
      cases hs : (htmlLayer env).step o c with
      | error e => simp [hs] at h
      | ok r =>
        obtain ⟨o', evs⟩ := r
        simp only [hs] at h ⊢
        obtain ⟨i1, i2⟩ := eager_html_content env rest o' h
        obtain ⟨s1, s2⟩ := htmlStep_content env o o' c evs hs
        simp only [List.flatMap_cons, itemText, itemMain]
        rw [textOf_append, mainEvents_append, i1, i2, s1, s2]
        exact ⟨rfl, rfl⟩

theorem mainEvents_coalesce (s : Stream) : mainEvents (coalesce s) = mainEvents s := by
  have h := filter_nontext_coalesceGo s none
  have e : ∀ l : Stream, mainEvents l = (l.filter fun e => !isText e).filter fun e => !isEnd e := by
    intro l; simp [mainEvents, List.filter_filter, Bool.and_comm]
  rw [e, e, coalesce, h]

theorem textOf_coalesce (s : Stream) : textOf (coalesce s) = textOf s := by
  have := textOf_coalesceGo s none
  simpa [coalesce] using this

/-! XML: the stream is the coalesced concatenation of what each handler call enqueues -/

def xItemEvents : Item XmlCb → Stream
  | .cb c => evOf c
  | .raise _ => []

theorem eager_xml_events : ∀ (items : List (Item XmlCb)), firstFailure items = none →
    eager xmlLayer () items = (items.flatMap xItemEvents, none)
  | [], _ => rfl
  | .raise e :: rest, h => by simp [firstFailure] at h
  | .cb c :: rest, h => by
      cases c with
      | default_ s l c =>
        simp only [firstFailure] at h
        cases ho : handleOther s l c with
        | error e => simp [ho] at h
        | ok evs =>
          simp only [ho] at h
          have ih := eager_xml_events rest h
          simp only [xmlLayer] at ih
          simp only [eager, xmlLayer, xmlStep, ho, List.flatMap_cons, xItemEvents, evOf, ih]
      | _ =>
        simp only [firstFailure] at h
        have ih := eager_xml_events rest h
        simp only [xmlLayer] at ih
        simp only [eager, xmlLayer, xmlStep, List.flatMap_cons, xItemEvents, evOf, ih]

end Genshi.Parse

/-
  C12 — `select()` inside a match-template body: the one-pass machine `selM` of the C12 model
  (Model/Match.lean) yields what `Path.select` of the C05/C17 path model yields for the six body paths
  (`Sel.paths`), on every stream of START/END/TEXT events that never closes more than it opened.
  With C05 `select_eq_xp_step` / `select_eq_xp_union` the selection is the XPath node set.
-/
import Genshi.Lemmas.MatchNest
import Genshi.Model.MatchReal
namespace Genshi.Match
open Genshi Genshi.Path

theorem chooses_single' (st : Step) : chooseStrategy [st] = some .single := by
  have : strategyOrder = [.single, .simple, .generic] := by decide
  simp [chooseStrategy, this, Strategy.supports, singleSupports]

/-- the matchers `Path(p).select` works with for a body path: one SingleStepStrategy per location path -/
def Sel.ms (s : Sel) : List Matcher := s.paths.map fun p => .single p false

/-- their states at nesting depth `d` (no predicates: the counters stay empty) -/
def Sel.sts (s : Sel) (d : Int) : List MState := s.paths.map fun _ => .s ⟨[], d⟩

theorem sel_pathTest (s : Sel) : pathTest s.paths false = (s.ms, s.sts 0) := by
  cases s <;> simp [pathTest, Sel.paths, Sel.ms, Sel.sts, chooses_single', mkMatcher, sSteps, childStep]

/-- one call of the closure on a START/END/TEXT event at depth `d`: the new depth, and whether the
    event is selected (and then as itself) -/
theorem sel_step (s : Sel) (d : Nat) (e : Event) (he : isSET e = true) (hd : isEnd e = true → 0 < d) :
    ∃ v, multiStep s.ms [] [] (s.sts d) e =
        (s.sts (if isStart e then ((d + 1 : Nat) : Int) else if isEnd e then ((d - 1 : Nat) : Int) else (d : Int)), v) ∧
      (isEnd e = true → v = .none) ∧
      (isEnd e = false → ((v == Val.bool true) = true ∨ (v.truthy = true ∧ itemOf v e = .ev e)) ∧
          (decide (d = s.depth) && s.nodeTest e) = true ∨
        (v == Val.bool true) = false ∧ v.truthy = false ∧ (decide (d = s.depth) && s.nodeTest e) = false) ∧
      (isStart e = true → v.truthy = true → v = .bool true) := by
  cases e with
  | end_ t =>
    have hd' := hd rfl
    have hc : ((d : Int) - 1) = ((d - 1 : Nat) : Int) := by omega
    cases s <;>
      simp [Sel.ms, Sel.sts, Sel.paths, multiStep, Matcher.step, sStep, Event.isEnd, isStart, isEnd, Val.isNone, hc, childStep]
  | start t a =>
    by_cases h0 : d = 0
    · subst h0
      cases s <;>
        simp [Sel.ms, Sel.sts, Sel.paths, multiStep, Matcher.step, sStep, sPreds, Event.isEnd, Event.isNsOrCdata, Event.isStart,
          isStart, isEnd, Val.isNone, childStep, Sel.depth, Sel.nodeTest, NodeTest.matches, NodeTest.apply, Val.truthy, itemOf]
    · by_cases h1 : d = 1
      · subst h1
        cases s <;>
          simp [Sel.ms, Sel.sts, Sel.paths, multiStep, Matcher.step, sStep, sPreds, Event.isEnd, Event.isNsOrCdata, Event.isStart,
            isStart, isEnd, Val.isNone, childStep, Sel.depth, Sel.nodeTest, NodeTest.matches, NodeTest.apply, Val.truthy, itemOf]
        all_goals (try (split <;> simp_all [Val.truthy]))
      · have hi0 : ((d : Int) != 0) = true := by simp; omega
        have hi1 : ((d : Int) != 1) = true := by simp; omega
        have hj0 : ¬ ((d : Int) = 0) := by omega
        have hj1 : ¬ ((d : Int) = 1) := by omega
        cases s <;>
          simp [Sel.ms, Sel.sts, Sel.paths, multiStep, Matcher.step, sStep, sPreds, Event.isEnd, Event.isNsOrCdata, Event.isStart,
            isStart, isEnd, Val.isNone, childStep, Sel.depth, Sel.nodeTest, NodeTest.matches, NodeTest.apply, Val.truthy, itemOf,
            hi0, hi1, hj0, hj1, h0, h1]
  | text x sf =>
    by_cases h0 : d = 0
    · subst h0
      cases s <;>
        simp [Sel.ms, Sel.sts, Sel.paths, multiStep, Matcher.step, sStep, sPreds, Event.isEnd, Event.isNsOrCdata, Event.isStart,
          isStart, isEnd, Val.isNone, childStep, Sel.depth, Sel.nodeTest, NodeTest.matches, NodeTest.apply, Val.truthy, itemOf]
    · by_cases h1 : d = 1
      · subst h1
        cases s <;>
          simp [Sel.ms, Sel.sts, Sel.paths, multiStep, Matcher.step, sStep, sPreds, Event.isEnd, Event.isNsOrCdata, Event.isStart,
            isStart, isEnd, Val.isNone, childStep, Sel.depth, Sel.nodeTest, NodeTest.matches, NodeTest.apply, Val.truthy, itemOf]
      · have hi0 : ((d : Int) != 0) = true := by simp; omega
        have hi1 : ((d : Int) != 1) = true := by simp; omega
        have hj0 : ¬ ((d : Int) = 0) := by omega
        have hj1 : ¬ ((d : Int) = 1) := by omega
        cases s <;>
          simp [Sel.ms, Sel.sts, Sel.paths, multiStep, Matcher.step, sStep, sPreds, Event.isEnd, Event.isNsOrCdata, Event.isStart,
            isStart, isEnd, Val.isNone, childStep, Sel.depth, Sel.nodeTest, NodeTest.matches, NodeTest.apply, Val.truthy, itemOf,
            hi0, hi1, hj0, hj1, h0, h1]
  | _ => simp [isSET] at he

theorem selectGo_cons (ms : List Matcher) (sts : List MState) (depth : Nat) (e : Event) (es : List Event) :
    selectGo ms [] [] sts depth (e :: es) =
      (if depth > 0 then
        Path.Item.ev e :: selectGo ms [] [] (multiStep ms [] [] sts e).1
          (if e.isStart then depth + 1 else if e.isEnd then depth - 1 else depth) es
      else if (multiStep ms [] [] sts e).2 == Val.bool true then
        Path.Item.ev e :: selectGo ms [] [] (multiStep ms [] [] sts e).1 (if e.isStart then 1 else 0) es
      else if (multiStep ms [] [] sts e).2.truthy then
        itemOf (multiStep ms [] [] sts e).2 e :: selectGo ms [] [] (multiStep ms [] [] sts e).1 0 es
      else selectGo ms [] [] (multiStep ms [] [] sts e).1 0 es) := by
  rw [selectGo]

theorem isStart_eq' (e : Event) : e.isStart = isStart e := by cases e <;> rfl
theorem isEnd_eq' (e : Event) : e.isEnd = isEnd e := by cases e <;> rfl

/-- **The select machine of the C12 model is `Path.select` of the path model.** -/
theorem selM_eq_selectGo (s : Sel) : ∀ (es : List Event) (d c k : Nat), (∀ e ∈ es, isSET e = true) → lvl d es = some k →
    (selM s d c es).map Path.Item.ev = selectGo s.ms [] [] (s.sts d) c es := by
  intro es
  induction es with
  | nil => intro d c k _ _; cases c <;> simp [selM, selectGo]
  | cons e es ih =>
    intro d c k hset hl
    have he := hset e List.mem_cons_self
    have hset' : ∀ x ∈ es, isSET x = true := fun x hx => hset x (List.mem_cons_of_mem _ hx)
    have hd : isEnd e = true → 0 < d := by
      intro hE
      have hS : isStart e = false := by cases e <;> simp_all [isStart, isEnd]
      cases d with
      | zero => simp [lvl, hS, hE] at hl
      | succ d' => omega
    obtain ⟨v, hms, hvE, hvM, hvS⟩ := sel_step s d e he hd
    rw [selectGo_cons, hms]
    simp only [isStart_eq', isEnd_eq']
    by_cases hS : isStart e = true
    · have hE : isEnd e = false := by cases e <;> simp_all [isStart, isEnd]
      have hl' : lvl (d + 1) es = some k := by simpa [lvl, hS] using hl
      simp only [hS, if_true] at hms ⊢
      cases c with
      | succ c =>
        simp only [selM, hS, if_true, List.map_cons, Nat.succ_pos, gt_iff_lt, Nat.zero_lt_succ]
        rw [ih (d + 1) (c + 2) k hset' hl']
      | zero =>
        simp only [selM, hS, if_true, gt_iff_lt, Nat.lt_irrefl, if_false]
        rcases hvM hE with ⟨hv, hm⟩ | ⟨hv1, hv2, hm⟩
        · have hvt : (v == Val.bool true) = true := by
            rcases hv with hv | hv
            · exact hv
            · rw [hvS hS hv.1]; rfl
          have hm' : d = s.depth ∧ s.nodeTest e = true := by simpa using hm
          rw [if_pos hm', if_pos hvt, List.map_cons, ih (d + 1) 1 k hset' hl']
        · have hm' : ¬ (d = s.depth ∧ s.nodeTest e = true) := by simpa using hm
          simp only [hv1, hv2, Bool.false_eq_true, if_false, hm']
          exact ih (d + 1) 0 k hset' hl'
    · have hS' : isStart e = false := by simpa using hS
      by_cases hE : isEnd e = true
      · have hdpos := hd hE
        obtain ⟨d', rfl⟩ : ∃ d', d = d' + 1 := ⟨d - 1, by omega⟩
        have hl' : lvl d' es = some k := by simpa [lvl, hS', hE] using hl
        have hv := hvE hE
        subst hv
        simp only [hS', hE, Bool.false_eq_true, if_false, if_true] at hms ⊢
        cases c with
        | succ c =>
          simp only [selM, hS', hE, Bool.false_eq_true, if_false, if_true, List.map_cons, gt_iff_lt, Nat.zero_lt_succ,
            Nat.add_sub_cancel]
          rw [ih d' c k hset' hl']
        | zero =>
          simp only [selM, hS', hE, Bool.false_eq_true, if_false, if_true, gt_iff_lt, Nat.lt_irrefl, Nat.add_sub_cancel]
          have : (Val.none == Val.bool true) = false := rfl
          simp only [this, Val.truthy, Bool.false_eq_true, if_false]
          exact ih d' 0 k hset' hl'
      · have hE' : isEnd e = false := by simpa using hE
        have hl' : lvl d es = some k := by simpa [lvl, hS', hE'] using hl
        simp only [hS', hE', Bool.false_eq_true, if_false] at hms ⊢
        cases c with
        | succ c =>
          simp only [selM, hS', hE', Bool.false_eq_true, if_false, List.map_cons, gt_iff_lt, Nat.zero_lt_succ, if_true]
          rw [ih d (c + 1) k hset' hl']
        | zero =>
          simp only [selM, hS', hE', Bool.false_eq_true, if_false, gt_iff_lt, Nat.lt_irrefl]
          rcases hvM hE' with ⟨hv, hm⟩ | ⟨hv1, hv2, hm⟩
          · have hm' : d = s.depth ∧ s.nodeTest e = true := by simpa using hm
            rw [if_pos hm', List.map_cons, ih d 0 k hset' hl']
            rcases hv with hv | hv
            · rw [if_pos hv]
            · by_cases hvt : (v == Val.bool true) = true
              · rw [if_pos hvt]
              · rw [if_neg hvt, if_pos hv.1, hv.2]
          · have hm' : ¬ (d = s.depth ∧ s.nodeTest e = true) := by simpa using hm
            simp only [hv1, hv2, Bool.false_eq_true, if_false, hm']
            exact ih d 0 k hset' hl'

/-- `select(p)` of the C12 model = `Path(p).select(content)` of the path model, for the six body paths,
    on every START/END/TEXT stream that closes no more than it opened (in particular on the content
    `START · … · END` of a matched element) -/
theorem select_eq_path_select (s : Sel) (es : List Event) (k : Nat) (hset : ∀ e ∈ es, isSET e = true)
    (hl : lvl 0 es = some k) :
    (select s es).map Path.Item.ev = Path.select s.paths [] [] es := by
  unfold select Path.select
  rw [sel_pathTest]
  exact selM_eq_selectGo s es 0 0 k hset hl

end Genshi.Match

/-
  C14 (wave 4) — facts about the generated shape table (`Genshi/Gen/ExecShape.lean`), each a finite
  check re-run whenever the table changes, and the selection lemmas that carry them to every reach
  path of the reachability model.
-/
import Genshi.Lemmas.Exec
import Genshi.Model.ExecShape
namespace Genshi.Exec
open Genshi.Gen.Exec Genshi.Gen.ExecShape

/-- what a probe under a switched-off flag must look like: no template object with a code block
    at any depth, the block did not run, a template syntax error was raised, and nothing in the
    object graph holds a compiled suite -/
def ShapeRow.offOk (r : ShapeRow) : Bool :=
  r.execFree && !r.ran && decide (r.err = .syntax) && !r.deepSuite

/-- what a probe under a switched-on flag looks like (the probe is meaningful: the shape does
    execute its block, and the skeleton finds it) — old-style text templates have no code blocks -/
def ShapeRow.onOk (r : ShapeRow) : Bool :=
  if r.cls = .oldtext then r.execFree && !r.ran && decide (r.err = .syntax) && !r.deepSuite
  else r.execExists && r.ran && decide (r.err = .none) && r.deepSuite

theorem shapeRows_off_check : shapeRows.all (fun r => r.flag || r.offOk) = true := by
  decide +kernel

theorem shapeRows_on_check : shapeRows.all (fun r => !r.flag || r.onOk) = true := by
  decide +kernel

theorem shapeRows_suite_check : shapeRows.all (fun r => r.execExists == r.deepSuite) = true := by
  decide +kernel

/-- every way of the vocabulary -/
def everyWay : List Way :=
  [.ctor .str false, .ctor .str true, .ctor .bytes false, .ctor .bytes true, .ctor .file false,
   .ctor .file true, .ctor .stream false, .ctor .stream true, .load false, .load true, .instantiate,
   .incl .same false, .incl .same true, .incl .xml false, .incl .xml true, .incl .text false,
   .incl .text true, .inclDyn .same, .inclDyn .xml, .inclDyn .text, .inclDeep false, .inclDeep true,
   .inclFallback false, .inclFallback true, .inclOwn, .pluginFile, .pluginString, .pickled,
   .pickledHost, .pickledLoader]

def Way.ofCode (n : Nat) : Option Way := everyWay.find? fun v => v.code == n

theorem Way.ofCode_code (w : Way) : Way.ofCode w.code = some w := by
  cases w with
  | ctor s own => cases s <;> cases own <;> rfl
  | load d => cases d <;> rfl
  | incl p ar => cases p <;> cases ar <;> rfl
  | inclDyn p => cases p <;> rfl
  | inclDeep ar => cases ar <;> rfl
  | inclFallback ar => cases ar <;> rfl
  | _ => rfl

/-- the numbering of the ways is injective -/
theorem Way.code_inj (a b : Way) (h : a.code = b.code) : a = b := by
  have ha := Way.ofCode_code a
  rw [h, Way.ofCode_code b] at ha
  exact (Option.some.inj ha).symm

theorem findRow_mem (c : Cls) (w : Way) (b : Bool) (k : Nat) (row : ShapeRow)
    (h : findRow c w b k = some row) : row ∈ shapeRows ∧ row.flag = b ∧ row.cls = c ∧ row.way = w ∧ row.shape = k := by
  unfold findRow at h
  have hm := List.mem_of_find?_eq_some h
  have hp := List.find?_some h
  simp only [ShapeRow.keyIs, Bool.and_eq_true, decide_eq_true_eq, beq_iff_eq] at hp
  obtain ⟨⟨⟨h1, h2⟩, h3⟩, h4⟩ := hp
  exact ⟨hm, h3, h1, Way.code_inj _ _ h2, h4⟩

theorem findRow_off (c : Cls) (w : Way) (k : Nat) (row : ShapeRow)
    (h : findRow c w false k = some row) : row.offOk = true := by
  obtain ⟨hm, hf, _⟩ := findRow_mem c w false k row h
  have := List.all_eq_true.mp shapeRows_off_check row hm
  simpa [hf] using this

/-- under a disabled root the flag that selects the root's probe is off -/
theorem rootShapeFlag_disabled (cfg : Config) (r : Root) (b : Bool) (hd : r.disabled cfg)
    (h : rootShapeFlag cfg r = some b) : b = false := by
  cases r with
  | direct c s own =>
      have ht : cfg.tmpl = .off := by
        cases own with
        | true => exact hd
        | false => exact hd.1
      simp [rootShapeFlag, ht] at h
      exact h
  | load c d =>
      have hl : cfg.loader = .off := hd
      simp [rootShapeFlag, hl] at h
      exact h
  | pluginFile p =>
      have hp : parseOpt cfg.opt = .deny := documented_off_denied_lem _ hd
      simp [rootShapeFlag, hp] at h
      exact h
  | pluginString p =>
      have hp : parseOpt cfg.opt = .deny := documented_off_denied_lem _ hd
      simp [rootShapeFlag, hp] at h
      exact h

/-- every probe that describes a template reachable from a disabled root was made with the flag
    off — at the root because every flag given is off, below it because the loader held by every
    reached template has its flag off (`node_safe`, induction over include depth) -/
theorem reachRow_disabled_offOk (cfg : Config) (r : Reach) (k : Nat) (row : ShapeRow)
    (hd : r.rootOf.disabled cfg) (h : reachRow cfg r k = some row) : row.offOk = true := by
  cases r with
  | root r0 =>
      simp only [reachRow] at h
      cases hn : rootNode cfg r0 with
      | none => simp [hn] at h
      | some n =>
          cases hb : rootShapeFlag cfg r0 with
          | none => simp [hn, hb] at h
          | some b =>
              simp only [hn, hb] at h
              have : b = false := rootShapeFlag_disabled cfg r0 b hd hb
              subst this
              exact findRow_off _ _ _ _ h
  | incl parent p =>
      simp only [reachRow] at h
      cases hm : node cfg parent with
      | none => simp [hm] at h
      | some m =>
          simp only [hm, Option.bind_some] at h
          cases hs : step m p with
          | none => simp [hs] at h
          | some n =>
              simp only [hs, Option.bind_some] at h
              have hsafe : Safe m := node_safe cfg parent m hd hm
              rw [hsafe.2] at h
              exact findRow_off _ _ _ _ h

end Genshi.Exec

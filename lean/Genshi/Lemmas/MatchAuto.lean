/-
  The automaton model (`feed`, Genshi/Model/MatchLazy.lean): a `_match(start, end)` generator
  reads and writes only the slots of its window — stated as commutation with `splice`
  (exchange the slots outside the window for anything).
-/
import Genshi.Lemmas.MatchIns
import Genshi.Lemmas.MatchSync
import Genshi.Lemmas.MatchPipe
import Genshi.Model.MatchLazy
namespace Genshi.Match
open Genshi
variable {σ : Type}

/-- slot `j` from `x` where `w j`, from `y` elsewhere (lists of equal length) -/
def splice (w : Nat → Bool) : List (MT σ) → List (MT σ) → List (MT σ)
  | [], _ => []
  | x :: xs, [] => x :: xs
  | x :: xs, y :: ys => (if w 0 then x else y) :: splice (fun p => w (p + 1)) xs ys

theorem splice_length (w : Nat → Bool) : ∀ (x y : List (MT σ)), (splice w x y).length = x.length := by
  intro x
  induction x generalizing w with
  | nil => intro y; rfl
  | cons a xs ih => intro y; cases y <;> simp [splice, ih]

theorem splice_get (w : Nat → Bool) : ∀ (x y : List (MT σ)) (j : Nat), y.length = x.length →
    (splice w x y)[j]? = if w j then x[j]? else y[j]? := by
  intro x
  induction x generalizing w with
  | nil => intro y j h; simp at h; subst h; simp [splice]
  | cons a xs ih =>
    intro y j h
    cases y with
    | nil => simp at h
    | cons b ys =>
      cases j with
      | zero => simp only [splice, List.getElem?_cons_zero]; split <;> rfl
      | succ j =>
        simp only [splice, List.getElem?_cons_succ]
        exact ih (fun p => w (p + 1)) ys j (by simpa using h)

theorem list_ext_get {a b : List (MT σ)} (h : ∀ j : Nat, a[j]? = b[j]?) : a = b := List.ext_getElem? h

theorem splice_self (w : Nat → Bool) (x : List (MT σ)) : splice w x x = x := by
  apply list_ext_get; intro j; rw [splice_get w x x j rfl]; split <;> rfl

/-- the automaton's well-formedness: the slot of an open match lies in the window of its generator -/
def WF : Nat → Option Nat → Auto → Prop
  | _, _, .idle => True
  | s, en, .buf idx pe _ _ _ inner _ =>
    inWindow s en idx = true ∧ idx ≤ pe ∧ pe ≤ idx + 1 ∧ WF s (some pe) inner
  | s, en, .lzy idx pe _ inner _ bodyA _ =>
    inWindow s en idx = true ∧ idx ≤ pe ∧ pe ≤ idx + 1 ∧ WF s (some pe) inner ∧ WF (idx + 1) en bodyA

/-- a stage that neither reads nor writes the slots outside `w` -/
def Frames (w : Nat → Bool) (g : List (MT σ) → Fed σ) : Prop :=
  ∀ m y A' m' o, y.length = m.length → g m = some (A', m', o) →
    m'.length = m.length ∧ g (splice w m y) = some (A', splice w m' y, o)

theorem Frames.outside {w : Nat → Bool} {g : List (MT σ) → Fed σ} (hg : Frames w g)
    {m : List (MT σ)} {A' : Auto} {m' : List (MT σ)} {o : List Event} (h : g m = some (A', m', o)) :
    ∀ j, w j = false → m'[j]? = m[j]? := by
  intro j hj
  obtain ⟨hl, h2⟩ := hg m m A' m' o rfl h
  rw [splice_self, h] at h2
  simp only [Option.some.injEq, Prod.mk.injEq, true_and, and_true] at h2
  have := congrArg (fun l : List (MT σ) => l[j]?) h2
  rw [splice_get w m' m j hl.symm] at this
  simp only [hj, Bool.false_eq_true, ↓reduceIte] at this
  exact this

/-- a stage confined to a smaller window is confined to a bigger one -/
theorem Frames.widen {w2 w : Nat → Bool} {g : List (MT σ) → Fed σ} (hg : Frames w2 g)
    (hsub : ∀ j, w2 j = true → w j = true) : Frames w g := by
  intro m y A' m' o hy h
  obtain ⟨hl, _⟩ := hg m y A' m' o hy h
  refine ⟨hl, ?_⟩
  have hout := hg.outside h
  have hy2 : (splice w m y).length = m.length := splice_length w m y
  have e1 : splice w m y = splice w2 m (splice w m y) := by
    apply list_ext_get; intro j
    rw [splice_get w2 m _ j hy2, splice_get w m y j hy]
    by_cases h2 : w2 j = true
    · simp [h2, hsub j h2]
    · simp [h2]
  rw [e1]
  obtain ⟨_, h3⟩ := hg m (splice w m y) A' m' o hy2 h
  rw [h3]
  congr 2
  congr 1
  apply list_ext_get; intro j
  rw [splice_get w2 m' _ j (by rw [hy2, hl]), splice_get w m y j hy, splice_get w m' y j (by rw [hy, hl])]
  by_cases h2 : w2 j = true
  · simp [h2, hsub j h2]
  · simp only [h2, Bool.false_eq_true, ↓reduceIte]
    have := hout j (by simpa using h2)
    by_cases hw : w j = true
    · simp [hw, this]
    · simp [hw]

theorem foldFeed_frames {w : Nat → Bool} {step : Auto → Event → List (MT σ) → Fed σ}
    (hs : ∀ a e, Frames w (step a e)) : ∀ (es : List Event) (a : Auto), Frames w (foldFeed step a es) := by
  intro es
  induction es with
  | nil =>
    intro a m y A' m' o _ h
    simp only [foldFeed, Option.some.injEq, Prod.mk.injEq] at h ⊢
    obtain ⟨rfl, rfl, rfl⟩ := h
    exact ⟨rfl, rfl, rfl, rfl⟩
  | cons e es ih =>
    intro a m y A' m' o hy h
    simp only [foldFeed] at h ⊢
    cases h1 : step a e m with
    | none => simp [h1] at h
    | some q1 =>
      obtain ⟨a1, m1, o1⟩ := q1
      simp only [h1] at h
      cases h2 : foldFeed step a1 es m1 with
      | none => simp [h2] at h
      | some q2 =>
        obtain ⟨a2, m2, o2⟩ := q2
        simp only [h2, Option.some.injEq, Prod.mk.injEq] at h
        obtain ⟨rfl, rfl, rfl⟩ := h
        obtain ⟨l1, e1⟩ := hs a e m y a1 m1 o1 hy h1
        obtain ⟨l2, e2⟩ := ih a1 m1 y a2 m2 o2 (by rw [hy, l1]) h2
        exact ⟨by rw [l2, l1], by rw [e1]; simp only; rw [e2]⟩

/-! the list operations on spliced lists -/

theorem scanP_splice (e : Event) : ∀ (m y : List (MT σ)) (w : Nat → Bool), y.length = m.length →
    scanP w e (splice w m y) = (splice w (scanP w e m).1 y, (scanP w e m).2) := by
  intro m
  induction m with
  | nil => intro y w h; simp [splice, scanP]
  | cons t ts ih =>
    intro y w h
    cases y with
    | nil => simp at h
    | cons b ys =>
      have hl : ys.length = ts.length := by simpa using h
      simp only [splice]
      unfold scanP
      by_cases hw : w 0 = true
      · simp only [hw, ↓reduceIte]
        by_cases hf : (t.test e false).2 = true
        · simp [hf, splice, hw]
        · simp only [hf, Bool.false_eq_true, ↓reduceIte]
          rw [ih ys (fun p => w (p + 1)) hl]
          simp [splice, hw]
      · simp only [hw, Bool.false_eq_true, ↓reduceIte]
        rw [ih ys (fun p => w (p + 1)) hl]
        simp [splice, hw]

theorem mapW_splice (g : MT σ → MT σ) : ∀ (m y : List (MT σ)) (w2 w : Nat → Bool), y.length = m.length →
    (∀ j, w2 j = true → w j = true) → mapW w2 g (splice w m y) = splice w (mapW w2 g m) y := by
  intro m
  induction m with
  | nil => intro y w2 w h _; simp [splice, mapW]
  | cons t ts ih =>
    intro y w2 w h hsub
    cases y with
    | nil => simp at h
    | cons b ys =>
      have hl : ys.length = ts.length := by simpa using h
      simp only [splice, mapW]
      rw [ih ys (fun p => w2 (p + 1)) (fun p => w (p + 1)) hl (fun j hj => hsub (j + 1) hj)]
      congr 1
      by_cases h2 : w2 0 = true
      · simp [h2, hsub 0 h2]
      · simp [h2]

theorem retireAt_splice : ∀ (m y : List (MT σ)) (w : Nat → Bool) (idx : Nat), y.length = m.length →
    w idx = true → retireAt idx (splice w m y) = splice w (retireAt idx m) y := by
  intro m
  induction m with
  | nil => intro y w idx h _; cases idx <;> simp [splice, retireAt]
  | cons t ts ih =>
    intro y w idx h hw
    cases y with
    | nil => simp at h
    | cons b ys =>
      have hl : ys.length = ts.length := by simpa using h
      cases idx with
      | zero => simp [splice, retireAt, hw]
      | succ idx =>
        simp only [splice, retireAt]
        rw [ih ys (fun p => w (p + 1)) idx hl hw]

end Genshi.Match

namespace Genshi.Match
open Genshi
variable {σ : Type}

/-- the window of a generator as a predicate on slots -/
def win (s : Nat) (en : Option Nat) : Nat → Bool := fun j => inWindow s en j

theorem win_zero_add (s : Nat) (en : Option Nat) : (fun p => inWindow s en (0 + p)) = win s en := by
  funext p; simp [win]

theorem scan_splice (e : Event) (s : Nat) (en : Option Nat) (m y : List (MT σ)) (h : y.length = m.length) :
    scan e s en 0 (splice (win s en) m y) = (splice (win s en) (scan e s en 0 m).1 y, (scan e s en 0 m).2) := by
  rw [scan_eq_scanP, scan_eq_scanP, win_zero_add, scanP_splice e m y (win s en) h]

theorem scanEnd_splice (e : Event) (s : Nat) (en : Option Nat) (m y : List (MT σ)) (h : y.length = m.length) :
    scanEnd e s en 0 (splice (win s en) m y) = splice (win s en) (scanEnd e s en 0 m) y := by
  rw [scanEnd_eq_mapW, scanEnd_eq_mapW, win_zero_add]
  exact mapW_splice _ m y (win s en) (win s en) h (fun _ hj => hj)

theorem updRange_splice (e : Event) (s : Nat) (en : Option Nat) (idx : Nat) (m y : List (MT σ))
    (h : y.length = m.length) (hidx : inWindow s en idx = true) :
    updRange e s (idx + 1) 0 (splice (win s en) m y) = splice (win s en) (updRange e s (idx + 1) 0 m) y := by
  rw [updRange_eq_mapW, updRange_eq_mapW]
  apply mapW_splice _ m y _ (win s en) h
  intro j hj
  simp only [Nat.zero_add, Bool.and_eq_true, decide_eq_true_eq] at hj
  have := (inWindow_iff s en idx).mp hidx
  simp only [win]
  rw [inWindow_iff]
  exact ⟨hj.1, fun n hn => by have := this.2 n hn; omega⟩

theorem fired_splice (t : MT σ) (s : Nat) (en : Option Nat) (idx : Nat) (m y : List (MT σ))
    (h : y.length = m.length) (hidx : inWindow s en idx = true) :
    fired t idx (splice (win s en) m y) = splice (win s en) (fired t idx m) y := by
  unfold fired; split
  · exact retireAt_splice m y (win s en) idx h hidx
  · rfl

theorem fired_length (t : MT σ) (idx : Nat) (m : List (MT σ)) : (fired t idx m).length = m.length := by
  unfold fired; split
  · exact retireAt_length idx m
  · rfl

theorem win_sub_inner {s : Nat} {en : Option Nat} {idx pe : Nat} (hidx : inWindow s en idx = true) (hpe : pe ≤ idx + 1) :
    ∀ j, win s (some pe) j = true → win s en j = true := by
  intro j hj
  simp only [win] at *
  rw [inWindow_iff] at *
  have := hidx.2
  exact ⟨hj.1, fun n hn => by have h1 := hj.2 pe rfl; have h2 := hidx.2 n hn; omega⟩

theorem win_sub_body {s : Nat} {en : Option Nat} {idx : Nat} (hidx : inWindow s en idx = true) :
    ∀ j, win (idx + 1) en j = true → win s en j = true := by
  intro j hj
  simp only [win] at *
  rw [inWindow_iff] at *
  exact ⟨by omega, hj.2⟩

theorem feed_WF : ∀ (F s : Nat) (en : Option Nat) (A : Auto) (ev : Event) (m : List (MT σ)) (A' : Auto)
    (m' : List (MT σ)) (o : List Event), WF s en A → feed F s en A ev m = some (A', m', o) → WF s en A' := by
  intro F
  induction F with
  | zero => intro s en A ev m A' m' o _ h; simp [feed] at h
  | succ f ih =>
    have hfold : ∀ (s : Nat) (en : Option Nat) (es : List Event) (a : Auto) (m : List (MT σ)) (a' : Auto)
        (m' : List (MT σ)) (o : List Event), WF s en a → foldFeed (feed f s en) a es m = some (a', m', o) → WF s en a' := by
      intro s en es
      induction es with
      | nil => intro a m a' m' o hw h; simp [foldFeed] at h; rw [← h.1]; exact hw
      | cons e es ih2 =>
        intro a m a' m' o hw h
        simp only [foldFeed] at h
        cases h1 : feed f s en a e m with
        | none => rw [h1] at h; simp at h
        | some q1 =>
          obtain ⟨a1, m1, o1⟩ := q1
          rw [h1] at h; simp only at h
          cases h2 : foldFeed (feed f s en) a1 es m1 with
          | none => rw [h2] at h; simp at h
          | some q2 =>
            obtain ⟨a2, m2, o2⟩ := q2
            rw [h2] at h; simp only [Option.some.injEq, Prod.mk.injEq] at h
            rw [← h.1]
            exact ih2 a1 m1 a2 m2 o2 (ih s en a e m a1 m1 o1 hw h1) h2
    intro s en A ev m A' m' o hwf h
    cases A with
    | idle =>
      simp only [feed] at h
      by_cases hS : isStart ev = true
      · simp only [hS, ↓reduceIte] at h
        generalize hsc : scan ev s en 0 m = sc at h
        obtain ⟨m1, hit⟩ := sc
        cases hit with
        | none => simp only [Option.some.injEq, Prod.mk.injEq] at h; rw [← h.1]; trivial
        | some idx =>
          simp only at h
          obtain ⟨hwi, _, _⟩ := scan_first ev s en m idx (by rw [hsc])
          cases ht : m1[idx]? with
          | none => simp [ht] at h
          | some t =>
            simp only [ht] at h
            have hpe := preEnd_le t idx
            by_cases hb : t.buffered = true
            · simp only [hb, ↓reduceIte, Option.some.injEq, Prod.mk.injEq] at h
              rw [← h.1]
              exact ⟨hwi, hpe.1, hpe.2, trivial⟩
            · simp only [hb, Bool.false_eq_true, ↓reduceIte] at h
              cases h1 : foldFeed (feed f (idx + 1) en) Auto.idle (splitBody t.body).1 (fired t idx m1) with
              | none => rw [h1] at h; simp at h
              | some q1 =>
                obtain ⟨b1, m3, o1⟩ := q1
                rw [h1] at h; simp only at h
                have hb1 := hfold (idx + 1) en _ Auto.idle _ _ _ _ (by trivial) h1
                cases hsel : (splitBody t.body).2.1 with
                | none =>
                  simp only [hsel, Option.some.injEq, Prod.mk.injEq] at h
                  rw [← h.1]
                  exact ⟨hwi, hpe.1, hpe.2, trivial, hb1⟩
                | some sl =>
                  simp only [hsel] at h
                  cases h2 : foldFeed (feed f (idx + 1) en) b1 (selStep sl 0 0 ev).2.toList m3 with
                  | none => rw [h2] at h; simp at h
                  | some q2 =>
                    obtain ⟨b2, m4, o2⟩ := q2
                    rw [h2] at h; simp only [Option.some.injEq, Prod.mk.injEq] at h
                    rw [← h.1]
                    exact ⟨hwi, hpe.1, hpe.2, trivial, hfold (idx + 1) en _ _ _ _ _ _ hb1 h2⟩
      · simp only [hS, Bool.false_eq_true, ↓reduceIte] at h
        by_cases hE : isEnd ev = true
        · simp only [hE, ↓reduceIte, Option.some.injEq, Prod.mk.injEq] at h; rw [← h.1]; trivial
        · simp only [hE, Bool.false_eq_true, ↓reduceIte, Option.some.injEq, Prod.mk.injEq] at h; rw [← h.1]; trivial
    | buf idx pe e body d inner acc =>
      obtain ⟨hwi, hp1, hp2, hwin⟩ := hwf
      simp only [feed] at h
      by_cases hd : stripDepth d ev = 0
      · simp only [hd, ↓reduceIte] at h
        cases h1 : foldFeed (feed f (idx + 1) en) Auto.idle (instantiate body (e :: acc ++ [ev])) m with
        | none => rw [h1] at h; simp at h
        | some q1 =>
          obtain ⟨b1, m1, o1⟩ := q1
          rw [h1] at h; simp only [Option.some.injEq, Prod.mk.injEq] at h
          rw [← h.1]; trivial
      · simp only [hd, ↓reduceIte] at h
        cases h1 : feed f s (some pe) inner ev m with
        | none => rw [h1] at h; simp at h
        | some q1 =>
          obtain ⟨i1, m1, o1⟩ := q1
          rw [h1] at h; simp only [Option.some.injEq, Prod.mk.injEq] at h
          rw [← h.1]
          exact ⟨hwi, hp1, hp2, ih s (some pe) inner ev m i1 m1 o1 hwin h1⟩
    | lzy idx pe d inner sel bodyA post =>
      obtain ⟨hwi, hp1, hp2, hwin, hwb⟩ := hwf
      simp only [feed] at h
      by_cases hd : stripDepth d ev = 0
      · simp only [hd, ↓reduceIte] at h
        cases h1 : foldFeed (feed f (idx + 1) en) bodyA (selFeed sel [ev]).2 m with
        | none => rw [h1] at h; simp at h
        | some q1 =>
          obtain ⟨b1, m1, o1⟩ := q1
          rw [h1] at h; simp only at h
          cases h2 : foldFeed (feed f (idx + 1) en) b1 (postEvents post) m1 with
          | none => rw [h2] at h; simp at h
          | some q2 =>
            obtain ⟨b2, m2, o2⟩ := q2
            rw [h2] at h; simp only [Option.some.injEq, Prod.mk.injEq] at h
            rw [← h.1]; trivial
      · simp only [hd, ↓reduceIte] at h
        cases h1 : feed f s (some pe) inner ev m with
        | none => rw [h1] at h; simp at h
        | some q1 =>
          obtain ⟨i1, m1, o1⟩ := q1
          rw [h1] at h; simp only at h
          cases h2 : foldFeed (feed f (idx + 1) en) bodyA (selFeed sel o1).2 m1 with
          | none => rw [h2] at h; simp at h
          | some q2 =>
            obtain ⟨b1, m2, o2⟩ := q2
            rw [h2] at h; simp only [Option.some.injEq, Prod.mk.injEq] at h
            rw [← h.1]
            exact ⟨hwi, hp1, hp2, ih s (some pe) inner ev m i1 m1 o1 hwin h1, hfold (idx + 1) en _ _ _ _ _ _ hwb h2⟩

end Genshi.Match

namespace Genshi.Match
open Genshi
variable {σ : Type}

theorem splice_get_in {w : Nat → Bool} {m y : List (MT σ)} {j : Nat} (h : y.length = m.length) (hw : w j = true) :
    (splice w m y)[j]? = m[j]? := by
  rw [splice_get w m y j h]; simp [hw]

/-- **Window footprint.**  A `_match(start, end)` generator in a well-formed state reads and writes
    only the slots of its window: exchanging the other slots of the template list for anything
    changes neither its new state, nor what it yields, nor what it does to its own slots. -/
theorem feed_frames : ∀ (F s : Nat) (en : Option Nat) (A : Auto) (ev : Event), WF s en A →
    Frames (σ := σ) (win s en) (feed F s en A ev) := by
  intro F
  induction F with
  | zero => intro s en A ev _ m y A' m' o _ h; simp [feed] at h
  | succ f ih =>
    -- the body matcher and the content matcher of a frame, as stages confined to the outer window
    have hbody : ∀ (s : Nat) (en : Option Nat) (idx : Nat) (es : List Event) (a : Auto),
        inWindow s en idx = true → WF (idx + 1) en a →
        (∀ (a0 : Auto) (e0 : Event) (m0 : List (MT σ)) (a1 : Auto) (m1 : List (MT σ)) (o1 : List Event),
          WF (idx + 1) en a0 → feed f (idx + 1) en a0 e0 m0 = some (a1, m1, o1) → WF (idx + 1) en a1) →
        Frames (σ := σ) (win s en) (foldFeed (feed f (idx + 1) en) a es) := by
      intro s en idx es a hwi hwa hpres
      apply Frames.widen (w2 := win (idx + 1) en) _ (win_sub_body hwi)
      -- foldFeed keeps the automaton well formed, so every step frames
      clear hwi
      induction es generalizing a with
      | nil =>
        intro m y A' m' o _ h
        simp only [foldFeed, Option.some.injEq, Prod.mk.injEq] at h ⊢
        obtain ⟨rfl, rfl, rfl⟩ := h
        exact ⟨rfl, rfl, rfl, rfl⟩
      | cons e es ih2 =>
        intro m y A' m' o hy h
        simp only [foldFeed] at h ⊢
        cases h1 : feed f (idx + 1) en a e m with
        | none => rw [h1] at h; simp at h
        | some q1 =>
          obtain ⟨a1, m1, o1⟩ := q1
          rw [h1] at h; simp only at h
          cases h2 : foldFeed (feed f (idx + 1) en) a1 es m1 with
          | none => rw [h2] at h; simp at h
          | some q2 =>
            obtain ⟨a2, m2, o2⟩ := q2
            rw [h2] at h; simp only [Option.some.injEq, Prod.mk.injEq] at h
            obtain ⟨rfl, rfl, rfl⟩ := h
            obtain ⟨l1, e1⟩ := ih (idx + 1) en a e hwa m y a1 m1 o1 hy h1
            obtain ⟨l2, e2⟩ := ih2 a1 (hpres a e m a1 m1 o1 hwa h1) m1 y a2 m2 o2 (by rw [hy, l1]) h2
            exact ⟨by rw [l2, l1], by rw [e1]; simp only; rw [e2]⟩
    have hpres : ∀ (s : Nat) (en : Option Nat) (a0 : Auto) (e0 : Event) (m0 : List (MT σ)) (a1 : Auto)
        (m1 : List (MT σ)) (o1 : List Event), WF s en a0 → feed f s en a0 e0 m0 = some (a1, m1, o1) → WF s en a1 :=
      fun s en a0 e0 m0 a1 m1 o1 => feed_WF f s en a0 e0 m0 a1 m1 o1
    intro s en A ev hwf m y A' m' o hy h
    cases A with
    | idle =>
      simp only [feed] at h ⊢
      by_cases hS : isStart ev = true
      · simp only [hS, ↓reduceIte] at h ⊢
        rw [scan_splice ev s en m y hy]
        generalize hsc : scan ev s en 0 m = sc at h
        obtain ⟨m1, hit⟩ := sc
        have hl1 : m1.length = m.length := by have := scan_length ev s en 0 m; rw [hsc] at this; exact this
        cases hit with
        | none =>
          simp only [Option.some.injEq, Prod.mk.injEq] at h ⊢
          obtain ⟨rfl, rfl, rfl⟩ := h
          exact ⟨hl1, rfl, rfl, rfl⟩
        | some idx =>
          simp only at h ⊢
          obtain ⟨hwi, _, _⟩ := scan_first ev s en m idx (by rw [hsc])
          rw [splice_get_in (by rw [hy, hl1]) (show win s en idx = true from hwi)]
          cases ht : m1[idx]? with
          | none => rw [ht] at h; simp at h
          | some t =>
            rw [ht] at h; simp only at h ⊢
            have hpe := preEnd_le t idx
            rw [fired_splice t s en idx m1 y (by rw [hy, hl1]) hwi]
            have hlf := fired_length t idx m1
            by_cases hb : t.buffered = true
            · simp only [hb, ↓reduceIte, Option.some.injEq, Prod.mk.injEq] at h ⊢
              obtain ⟨rfl, rfl, rfl⟩ := h
              exact ⟨by rw [hlf, hl1], rfl, rfl, rfl⟩
            · simp only [hb, Bool.false_eq_true, ↓reduceIte] at h ⊢
              cases h1 : foldFeed (feed f (idx + 1) en) Auto.idle (splitBody t.body).1 (fired t idx m1) with
              | none => rw [h1] at h; simp at h
              | some q1 =>
                obtain ⟨b1, m3, o1⟩ := q1
                rw [h1] at h; simp only at h
                obtain ⟨l3, e3⟩ := hbody s en idx _ Auto.idle hwi (by trivial) (hpres (idx + 1) en)
                  (fired t idx m1) y b1 m3 o1 (by rw [hy, hlf, hl1]) h1
                rw [e3]; simp only
                have hb1 : WF (idx + 1) en b1 := by
                  have : ∀ (es : List Event) (a : Auto) (mm : List (MT σ)) (a' : Auto) (mm' : List (MT σ)) (oo : List Event),
                      WF (idx + 1) en a → foldFeed (feed f (idx + 1) en) a es mm = some (a', mm', oo) → WF (idx + 1) en a' := by
                    intro es
                    induction es with
                    | nil => intro a mm a' mm' oo hw hh; simp [foldFeed] at hh; rw [← hh.1]; exact hw
                    | cons e0 es ih3 =>
                      intro a mm a' mm' oo hw hh
                      simp only [foldFeed] at hh
                      cases g1 : feed f (idx + 1) en a e0 mm with
                      | none => rw [g1] at hh; simp at hh
                      | some r1 =>
                        obtain ⟨x1, x2, x3⟩ := r1
                        rw [g1] at hh; simp only at hh
                        cases g2 : foldFeed (feed f (idx + 1) en) x1 es x2 with
                        | none => rw [g2] at hh; simp at hh
                        | some r2 =>
                          obtain ⟨z1, z2, z3⟩ := r2
                          rw [g2] at hh; simp only [Option.some.injEq, Prod.mk.injEq] at hh
                          rw [← hh.1]
                          exact ih3 x1 x2 z1 z2 z3 (hpres _ _ _ _ _ _ _ _ hw g1) g2
                  exact this _ _ _ _ _ _ (by trivial) h1
                cases hsel : (splitBody t.body).2.1 with
                | none =>
                  simp only [hsel, Option.some.injEq, Prod.mk.injEq] at h ⊢
                  obtain ⟨rfl, rfl, rfl⟩ := h
                  exact ⟨by rw [l3, hlf, hl1], rfl, rfl, rfl⟩
                | some sl =>
                  simp only [hsel] at h ⊢
                  cases h2 : foldFeed (feed f (idx + 1) en) b1 (selStep sl 0 0 ev).2.toList m3 with
                  | none => rw [h2] at h; simp at h
                  | some q2 =>
                    obtain ⟨b2, m4, o2⟩ := q2
                    rw [h2] at h; simp only [Option.some.injEq, Prod.mk.injEq] at h
                    obtain ⟨rfl, rfl, rfl⟩ := h
                    obtain ⟨l4, e4⟩ := hbody s en idx _ b1 hwi hb1 (hpres (idx + 1) en)
                      m3 y b2 m4 o2 (by rw [hy, l3, hlf, hl1]) h2
                    rw [e4]
                    exact ⟨by rw [l4, l3, hlf, hl1], rfl⟩
      · simp only [hS, Bool.false_eq_true, ↓reduceIte] at h ⊢
        by_cases hE : isEnd ev = true
        · simp only [hE, ↓reduceIte, Option.some.injEq, Prod.mk.injEq] at h ⊢
          obtain ⟨rfl, rfl, rfl⟩ := h
          rw [scanEnd_splice ev s en m y hy]
          exact ⟨scanEnd_length ev s en 0 m, rfl, rfl, rfl⟩
        · simp only [hE, Bool.false_eq_true, ↓reduceIte, Option.some.injEq, Prod.mk.injEq] at h ⊢
          obtain ⟨rfl, rfl, rfl⟩ := h
          exact ⟨rfl, rfl, rfl, rfl⟩
    | buf idx pe e body d inner acc =>
      obtain ⟨hwi, hp1, hp2, hwin⟩ := hwf
      simp only [feed] at h ⊢
      by_cases hd : stripDepth d ev = 0
      · simp only [hd, ↓reduceIte] at h ⊢
        cases h1 : foldFeed (feed f (idx + 1) en) Auto.idle (instantiate body (e :: acc ++ [ev])) m with
        | none => rw [h1] at h; simp at h
        | some q1 =>
          obtain ⟨b1, m1, o1⟩ := q1
          rw [h1] at h; simp only [Option.some.injEq, Prod.mk.injEq] at h
          obtain ⟨rfl, rfl, rfl⟩ := h
          obtain ⟨l1, e1⟩ := hbody s en idx _ Auto.idle hwi (by trivial) (hpres (idx + 1) en) m y b1 m1 o1 hy h1
          rw [e1]; simp only
          rw [updRange_splice ev s en idx m1 y (by rw [hy, l1]) hwi]
          exact ⟨by rw [updRange_length, l1], rfl⟩
      · simp only [hd, ↓reduceIte] at h ⊢
        cases h1 : feed f s (some pe) inner ev m with
        | none => rw [h1] at h; simp at h
        | some q1 =>
          obtain ⟨i1, m1, o1⟩ := q1
          rw [h1] at h; simp only [Option.some.injEq, Prod.mk.injEq] at h
          obtain ⟨rfl, rfl, rfl⟩ := h
          have hin : Frames (σ := σ) (win s en) (feed f s (some pe) inner ev) :=
            Frames.widen (ih s (some pe) inner ev hwin) (win_sub_inner hwi hp2)
          obtain ⟨l1, e1⟩ := hin m y i1 m1 o1 hy h1
          rw [e1]
          exact ⟨l1, rfl⟩
    | lzy idx pe d inner sel bodyA post =>
      obtain ⟨hwi, hp1, hp2, hwin, hwb⟩ := hwf
      simp only [feed] at h ⊢
      by_cases hd : stripDepth d ev = 0
      · simp only [hd, ↓reduceIte] at h ⊢
        cases h1 : foldFeed (feed f (idx + 1) en) bodyA (selFeed sel [ev]).2 m with
        | none => rw [h1] at h; simp at h
        | some q1 =>
          obtain ⟨b1, m1, o1⟩ := q1
          rw [h1] at h; simp only at h
          cases h2 : foldFeed (feed f (idx + 1) en) b1 (postEvents post) m1 with
          | none => rw [h2] at h; simp at h
          | some q2 =>
            obtain ⟨b2, m2, o2⟩ := q2
            rw [h2] at h; simp only [Option.some.injEq, Prod.mk.injEq] at h
            obtain ⟨rfl, rfl, rfl⟩ := h
            obtain ⟨l1, e1⟩ := hbody s en idx _ bodyA hwi hwb (hpres (idx + 1) en) m y b1 m1 o1 hy h1
            have hb1 : WF (idx + 1) en b1 := by
              have : ∀ (es : List Event) (a : Auto) (mm : List (MT σ)) (a' : Auto) (mm' : List (MT σ)) (oo : List Event),
                  WF (idx + 1) en a → foldFeed (feed f (idx + 1) en) a es mm = some (a', mm', oo) → WF (idx + 1) en a' := by
                intro es
                induction es with
                | nil => intro a mm a' mm' oo hw hh; simp [foldFeed] at hh; rw [← hh.1]; exact hw
                | cons e0 es ih3 =>
                  intro a mm a' mm' oo hw hh
                  simp only [foldFeed] at hh
                  cases g1 : feed f (idx + 1) en a e0 mm with
                  | none => rw [g1] at hh; simp at hh
                  | some r1 =>
                    obtain ⟨x1, x2, x3⟩ := r1
                    rw [g1] at hh; simp only at hh
                    cases g2 : foldFeed (feed f (idx + 1) en) x1 es x2 with
                    | none => rw [g2] at hh; simp at hh
                    | some r2 =>
                      obtain ⟨z1, z2, z3⟩ := r2
                      rw [g2] at hh; simp only [Option.some.injEq, Prod.mk.injEq] at hh
                      rw [← hh.1]
                      exact ih3 x1 x2 z1 z2 z3 (hpres _ _ _ _ _ _ _ _ hw g1) g2
              exact this _ _ _ _ _ _ hwb h1
            obtain ⟨l2, e2⟩ := hbody s en idx _ b1 hwi hb1 (hpres (idx + 1) en) m1 y b2 m2 o2 (by rw [hy, l1]) h2
            rw [e1]; simp only
            rw [e2]; simp only
            rw [updRange_splice ev s en idx m2 y (by rw [hy, l2, l1]) hwi]
            exact ⟨by rw [updRange_length, l2, l1], rfl⟩
      · simp only [hd, ↓reduceIte] at h ⊢
        cases h1 : feed f s (some pe) inner ev m with
        | none => rw [h1] at h; simp at h
        | some q1 =>
          obtain ⟨i1, m1, o1⟩ := q1
          rw [h1] at h; simp only at h
          cases h2 : foldFeed (feed f (idx + 1) en) bodyA (selFeed sel o1).2 m1 with
          | none => rw [h2] at h; simp at h
          | some q2 =>
            obtain ⟨b1, m2, o2⟩ := q2
            rw [h2] at h; simp only [Option.some.injEq, Prod.mk.injEq] at h
            obtain ⟨rfl, rfl, rfl⟩ := h
            have hin : Frames (σ := σ) (win s en) (feed f s (some pe) inner ev) :=
              Frames.widen (ih s (some pe) inner ev hwin) (win_sub_inner hwi hp2)
            obtain ⟨l1, e1⟩ := hin m y i1 m1 o1 hy h1
            obtain ⟨l2, e2⟩ := hbody s en idx _ bodyA hwi hwb (hpres (idx + 1) en) m1 y b1 m2 o2 (by rw [hy, l1]) h2
            rw [e1]; simp only
            rw [e2]
            exact ⟨by rw [l2, l1], rfl⟩

end Genshi.Match

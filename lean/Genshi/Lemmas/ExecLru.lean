/-
  C14 — the bounded-cache include-graph model (`Genshi/Model/ExecLru.lean`): whatever the
  bound, whatever was evicted and parsed again, a loader whose flag is off never holds or
  returns a template with a code block, and nothing it renders moves the sentinel.
-/
import Genshi.Model.ExecLru
import Genshi.Lemmas.ExecGraph
namespace Genshi.Exec
open Genshi.Gen.Exec

/-- the flag is off and every template *in* the cache (not only the visible ones) is free of
    code blocks: stable under every replacement policy that only drops entries -/
def MClean (fs : FS) (st : St) : Prop :=
  st.flag = false ∧ ∀ p ∈ st.cache, noCode p.2.items = true ∧
    ∃ f, fs.lookup p.1.1 = some f ∧ p.2.items = f.items

theorem lookup_mem {α β : Type} [BEq α] [LawfulBEq α] {l : List (α × β)} {k : α} {v : β}
    (h : l.lookup k = some v) : (k, v) ∈ l := by
  induction l with
  | nil => simp [List.lookup] at h
  | cons p r ih =>
    obtain ⟨k', v'⟩ := p
    simp only [List.lookup] at h
    cases hk : (k == k') with
    | true =>
      rw [hk] at h
      simp only [Option.some.injEq] at h
      have : k = k' := by simpa using hk
      subst this; subst h; simp
    | false =>
      rw [hk] at h
      exact List.mem_cons_of_mem _ (ih h)

theorem MClean.toStClean {fs : FS} {st : St} (h : MClean fs st) : StClean st :=
  ⟨h.1, fun _ _ hl => (h.2 _ (lookup_mem hl)).1⟩

theorem mclean_touch {fs : FS} {st : St} (h : MClean fs st) (k : Nat × Bool) (t : Tmpl)
    (ht : noCode t.items = true ∧ ∃ f, fs.lookup k.1 = some f ∧ t.items = f.items) :
    MClean fs { st with cache := lruTouch k t st.cache } := by
  refine ⟨h.1, ?_⟩
  intro p hp
  simp only [lruTouch, List.mem_cons, List.mem_filter] at hp
  rcases hp with rfl | ⟨hp, _⟩
  · exact ht
  · exact h.2 p hp

theorem mclean_store {fs : FS} {st : St} (h : MClean fs st) (cap : Nat) (k : Nat × Bool) (t : Tmpl)
    (ht : noCode t.items = true ∧ ∃ f, fs.lookup k.1 = some f ∧ t.items = f.items) :
    MClean fs { st with cache := lruStore cap k t st.cache } := by
  refine ⟨h.1, ?_⟩
  intro p hp
  have hp' := List.mem_of_mem_take hp
  simp only [List.mem_cons, List.mem_filter] at hp'
  rcases hp' with rfl | ⟨hp', _⟩
  · exact ht
  · exact h.2 p hp'

/-- `loadB` keeps the invariant, returns a code-free template and touches neither the sentinel
    nor the flags — for every bound -/
theorem loadB_clean (cap : Nat) (fs : FS) (st st' : St) (name : Nat) (c : Cls) (abs : Bool) (t : Tmpl)
    (hc : MClean fs st) (h : loadB cap fs st name c abs = .ok (st', t)) :
    MClean fs st' ∧ noCode t.items = true ∧ (∃ f, fs.lookup name = some f ∧ t.items = f.items) ∧
      st'.sentinel = st.sentinel ∧ st'.out = st.out ∧ st'.autoReload = st.autoReload := by
  unfold loadB at h
  cases hl : st.cache.lookup (name, abs) with
  | some t0 =>
      rw [hl] at h
      simp only [Except.ok.injEq, Prod.mk.injEq] at h
      obtain ⟨rfl, rfl⟩ := h
      have ht := hc.2 _ (lookup_mem hl)
      exact ⟨mclean_touch hc _ _ ht, ht.1, ht.2, rfl, rfl, rfl⟩
  | none =>
      rw [hl] at h
      cases hf : fs.lookup name with
      | none => rw [hf] at h; cases h
      | some f =>
          rw [hf] at h
          simp only at h
          cases hp : parseFile c st.flag name f with
          | error e => rw [hp] at h; cases h
          | ok t1 =>
              rw [hp] at h
              simp only [Except.ok.injEq, Prod.mk.injEq] at h
              obtain ⟨rfl, rfl⟩ := h
              have hflag : st.flag = false := hc.1
              obtain ⟨hi, _, _⟩ := parse_items c st.flag name f _ hp
              rw [hflag] at hp
              have ht := parse_off_clean c name f _ hp
              have hboth : noCode t1.items = true ∧ ∃ f', fs.lookup ((name, abs) : Nat × Bool).1 = some f' ∧
                  t1.items = f'.items := ⟨ht, f, hf, hi⟩
              exact ⟨mclean_store hc cap _ _ hboth, ht, ⟨f, rfl, hi⟩, rfl, rfl, rfl⟩

/-- **a later load rejects code**: with the flag off and the invariant (which every history
    leaves behind, `runHistoryB_clean`), loading a file that contains a code block — whether it
    was never loaded, or loaded, evicted and asked for again, under any bound — fails; asked for
    in the language it is written in, with the syntax error of that file -/
theorem loadB_code_fails (cap : Nat) (fs : FS) (st : St) (name : Nat) (c : Cls) (abs : Bool) (f : File)
    (hc : MClean fs st) (hf : fs.lookup name = some f) (hcode : noCode f.items = false) :
    ∃ e, loadB cap fs st name c abs = .error e ∧ (f.syn = c → e = .syntax name) := by
  cases h : loadB cap fs st name c abs with
  | error e =>
      refine ⟨e, rfl, ?_⟩
      intro hsyn
      unfold loadB at h
      cases hl : st.cache.lookup (name, abs) with
      | some t0 => rw [hl] at h; cases h
      | none =>
          rw [hl, hf] at h
          simp only at h
          have hflag : st.flag = false := hc.1
          unfold parseFile at h
          simp only [hsyn, ne_eq, not_true_eq_false, if_false, hcode, Bool.false_eq_true, hflag] at h
          cases c <;> simp at h <;> exact h.symm
  | ok pr =>
      exfalso
      obtain ⟨st', t⟩ := pr
      obtain ⟨_, ht, ⟨f', hf', hi⟩, _⟩ := loadB_clean cap fs st st' name c abs t hc h
      rw [hf] at hf'
      cases hf'
      rw [hi, hcode] at ht
      cases ht

/-- what a clean run leaves behind: still clean, sentinel untouched -/
def KeepsB (fs : FS) (s0 : List Nat) (ar : Bool) (r : Res) : Prop :=
  MClean fs r.1 ∧ r.1.sentinel = s0 ∧ r.1.autoReload = ar

theorem preloadB_clean (cap : Nat) (fuel : Nat) (fs : FS) :
    ∀ (stack : List Nat) (t : Tmpl) (st : St), MClean fs st →
      KeepsB fs st.sentinel st.autoReload (preloadB cap fuel fs stack t st) := by
  induction fuel with
  | zero => intro stack t st hc; exact ⟨hc, rfl, rfl⟩
  | succ fuel ih =>
      intro stack t st hc
      unfold preloadB
      apply foldl_inv (KeepsB fs st.sentinel st.autoReload)
      · exact ⟨hc, rfl, rfl⟩
      · intro acc it _ hacc
        obtain ⟨sa, ea⟩ := acc
        cases ea with
        | some e => exact hacc
        | none =>
            obtain ⟨hca, hsa, hara⟩ := hacc
            simp only at hca hsa hara
            cases it with
            | text i => exact ⟨hca, hsa, hara⟩
            | expr i => exact ⟨hca, hsa, hara⟩
            | code i m => exact ⟨hca, hsa, hara⟩
            | incl n p dyn =>
                cases dyn with
                | true => exact ⟨hca, hsa, hara⟩
                | false =>
                    simp only
                    cases hl : loadB cap fs sa n (childCls t.cls p) t.absHrefs with
                    | error e => exact ⟨hca, hsa, hara⟩
                    | ok pr =>
                        obtain ⟨st', t'⟩ := pr
                        obtain ⟨hc', _, _, hs', _, har'⟩ := loadB_clean cap fs sa st' n _ _ t' hca hl
                        simp only
                        by_cases hk : stack.contains t'.name = true
                        · rw [if_pos hk]; exact ⟨hc', hs'.trans hsa, har'.trans hara⟩
                        · rw [if_neg hk]
                          have := ih (t'.name :: stack) t' st' hc'
                          exact ⟨this.1, this.2.1.trans (hs'.trans hsa), this.2.2.trans (har'.trans hara)⟩

/-- **no code runs, whatever the cache bound**: generating a code-free template object through a
    loader whose flag is off leaves the sentinel as it was — for every bound (0 and 1 included),
    every file system (cyclic include graphs included), fuel, reload mode, host class and
    inlining stack; templates evicted on the way are parsed again under the same flag -/
theorem genB_clean (cap : Nat) (fuel : Nat) (pf : Nat) (fs : FS) :
    ∀ (prep : Bool) (host : Cls) (stack : List Nat) (t : Tmpl) (st : St), MClean fs st →
      noCode t.items = true → KeepsB fs st.sentinel st.autoReload (genB cap fuel pf fs prep host stack t st) := by
  induction fuel with
  | zero => intro prep host stack t st hc _; exact ⟨hc, rfl, rfl⟩
  | succ fuel ih =>
      intro prep host stack t st hc ht
      unfold genB
      apply foldl_inv (KeepsB fs st.sentinel st.autoReload)
      · by_cases hp : (prep && !st.autoReload) = true
        · rw [if_pos hp]; exact preloadB_clean cap pf fs stack t st hc
        · rw [if_neg hp]; exact ⟨hc, rfl, rfl⟩
      · intro acc it hit hacc
        obtain ⟨sa, ea⟩ := acc
        cases ea with
        | some e => exact hacc
        | none =>
            obtain ⟨hca, hsa, hara⟩ := hacc
            simp only at hca hsa hara
            cases it with
            | text i => exact ⟨⟨hca.1, hca.2⟩, hsa, hara⟩
            | expr i => exact ⟨⟨hca.1, hca.2⟩, hsa, hara⟩
            | code i m =>
                have := noCode_mem ht hit
                simp [Item.isCode] at this
            | incl n p dyn =>
                simp only
                by_cases hin : (!sa.autoReload && !dyn && !stack.contains n) = true
                · rw [if_pos hin]
                  cases hl : loadB cap fs sa n (childCls t.cls p) t.absHrefs with
                  | error e => exact ⟨hca, hsa, hara⟩
                  | ok pr =>
                      obtain ⟨st', t'⟩ := pr
                      obtain ⟨hc', ht', _, hs', _, har'⟩ := loadB_clean cap fs sa st' n _ _ t' hca hl
                      have := ih false host (n :: stack) t' st' hc' ht'
                      exact ⟨this.1, this.2.1.trans (hs'.trans hsa), this.2.2.trans (har'.trans hara)⟩
                · rw [if_neg hin]
                  cases hl : loadB cap fs sa n (inclCls t.cls p host) t.absHrefs with
                  | error e => exact ⟨hca, hsa, hara⟩
                  | ok pr =>
                      obtain ⟨st', t'⟩ := pr
                      obtain ⟨hc', ht', _, hs', _, har'⟩ := loadB_clean cap fs sa st' n _ _ t' hca hl
                      have := ih true t'.cls [t'.name] t' st' hc' ht'
                      exact ⟨this.1, this.2.1.trans (hs'.trans hsa), this.2.2.trans (har'.trans hara)⟩

theorem histStepB_clean (cap fuel pf : Nat) (fs : FS) (st : St) (name : Nat) (c : Cls) (hc : MClean fs st) :
    MClean fs (histStepB cap fuel pf fs st name c).1 ∧
      (histStepB cap fuel pf fs st name c).1.sentinel = st.sentinel := by
  unfold histStepB
  cases hl : loadB cap fs st name c with
  | error e => exact ⟨hc, rfl⟩
  | ok pr =>
      obtain ⟨st', t⟩ := pr
      obtain ⟨hc', ht, _, hs', _, _⟩ := loadB_clean cap fs st st' name _ _ t hc hl
      have hc'' : MClean fs { st' with out := [] } := ⟨hc'.1, hc'.2⟩
      have := genB_clean cap fuel pf fs true t.cls [name] t { st' with out := [] } hc'' ht
      exact ⟨⟨this.1.1, this.1.2⟩, this.2.1.trans hs'⟩

theorem runHistoryB_clean (cap fuel pf : Nat) (fs : FS) (hist : List (Nat × Cls)) :
    ∀ st, MClean fs st → MClean fs (runHistoryB cap fuel pf fs st hist).1 ∧
      (runHistoryB cap fuel pf fs st hist).1.sentinel = st.sentinel := by
  induction hist with
  | nil => intro st hc; exact ⟨hc, rfl⟩
  | cons p ns ih =>
      intro st hc
      obtain ⟨n, c⟩ := p
      simp only [runHistoryB]
      have h1 := histStepB_clean cap fuel pf fs st n c hc
      have h2 := ih _ h1.1
      exact ⟨h2.1, h2.2.trans h1.2⟩

end Genshi.Exec

/-
  C19 — `yield_parts` (the `%(name)s` splitter of `MessageBuffer.translate`) on strings built
  from clean text and parameter references.
-/
import Genshi.Lemmas.I18nRun
import Genshi.Lemmas.Escape
namespace Genshi.I18n
open Genshi Genshi.Str

/-- a piece of a text segment of a message -/
inductive Piece where
  | text (s : Str)
  | expr (name : Str) (id : Nat) (cm : List CodeMsg)

def paramStr (n : Str) : Str := '%' :: '(' :: n ++ [')', 's']

def Piece.str : Piece → Str
  | .text s => escBrackets s
  | .expr n _ _ => paramStr n

def segStr : List Piece → Str
  | [] => []
  | p :: ps => p.str ++ segStr ps

/-- text the message format can carry: no backslash, no percent sign (brackets are escaped by
    `append` and unescaped by `yield_parts`) -/
def cleanTextB (s : Str) : Bool := s.all fun c => c != '\\' && c != '%'

/-- a parameter name `\w+` -/
def wordName (n : Str) : Bool := !n.isEmpty && n.all isWord

/-- the events of a segment: adjacent text merged, empty text dropped -/
def segEventsGo (cur : Str) : List Piece → List TEvent
  | [] => if cur.isEmpty then [] else [.text cur]
  | .text s :: ps => segEventsGo (cur ++ s) ps
  | .expr _ i cm :: ps => (if cur.isEmpty then [] else [.text cur]) ++ (.expr i cm :: segEventsGo [] ps)

def segEvents (ps : List Piece) : List TEvent := segEventsGo [] ps

/-! ### str.replace without an occurrence -/

theorem replaceGo_no_occ (p : Char) (ps new : Str) : ∀ s : Str, (∀ c ∈ s, c ≠ p) →
    replaceGo (p :: ps) new 0 s = s
  | [], _ => by simp [replaceGo]
  | c :: cs, h => by
      have hc : c ≠ p := h c (by simp)
      have : (p :: ps).isPrefixOf (c :: cs) = false := by
        simp [List.isPrefixOf]; intro h'; exact absurd h'.symm hc
      simp only [replaceGo, this, Bool.false_eq_true, ↓reduceIte, List.cons.injEq, true_and]
      exact replaceGo_no_occ p ps new cs (fun c' hc' => h c' (by simp [hc']))

theorem replace_no_occ (p : Char) (ps new s : Str) (h : ∀ c ∈ s, c ≠ p) : Str.replace (p :: ps) new s = s := by
  simp [Str.replace, replaceGo_no_occ p ps new s h]

/-- what `escBrackets` does to one character -/
def escChar (c : Char) : Str := if c = '[' then ['\\', '['] else if c = ']' then ['\\', ']'] else [c]

theorem escBrackets_flatMap (s : Str) : escBrackets s = s.flatMap escChar := by
  unfold escBrackets
  rw [Genshi.Escape.replace_single, Genshi.Escape.replace_single, List.flatMap_assoc]
  congr 1; funext c
  by_cases h1 : c = '['
  · subst h1; simp [escChar]
  · by_cases h2 : c = ']'
    · subst h2; simp [escChar]
    · simp [escChar, h1, h2]

theorem escBrackets_append (a b : Str) : escBrackets (a ++ b) = escBrackets a ++ escBrackets b := by
  simp [escBrackets_flatMap]

theorem escBrackets_nil : escBrackets [] = [] := by simp [escBrackets_flatMap]

theorem escBrackets_isEmpty (s : Str) : (escBrackets s).isEmpty = s.isEmpty := by
  cases s with
  | nil => simp [escBrackets_nil]
  | cons c cs =>
    rw [escBrackets_flatMap]
    simp only [List.flatMap_cons, escChar]
    split
    · simp
    · split <;> simp

theorem escBrackets_mem (s : Str) (c : Char) (h : c ∈ escBrackets s) : c ∈ s ∨ c = '\\' := by
  rw [escBrackets_flatMap] at h
  simp only [List.mem_flatMap] at h
  obtain ⟨x, hx, hc⟩ := h
  simp only [escChar] at hc
  split at hc
  · rename_i h1; subst h1
    simp only [List.mem_cons, List.not_mem_nil, or_false] at hc
    rcases hc with rfl | rfl
    · exact Or.inr rfl
    · exact Or.inl hx
  · split at hc
    · rename_i h2; subst h2
      simp only [List.mem_cons, List.not_mem_nil, or_false] at hc
      rcases hc with rfl | rfl
      · exact Or.inr rfl
      · exact Or.inl hx
    · simp only [List.mem_singleton] at hc; subst hc; exact Or.inl hx

/-- the first pass of `unescBrackets` over an escaped string -/
def escClose (c : Char) : Str := if c = ']' then ['\\', ']'] else [c]

theorem unesc_pass1 : ∀ (s : Str), (∀ c ∈ s, c ≠ '\\') →
    replaceGo ['\\', '['] ['['] 0 (s.flatMap escChar) = s.flatMap escClose
  | [], _ => by simp [replaceGo]
  | c :: cs, h => by
      have hc : c ≠ '\\' := h c (by simp)
      have ih := unesc_pass1 cs (fun x hx => h x (by simp [hx]))
      simp only [List.flatMap_cons]
      by_cases h1 : c = '['
      · subst h1
        simp only [escChar, ↓reduceIte, escClose, List.cons_append, List.nil_append]
        have : (['\\', '['] : Str).isPrefixOf ('\\' :: '[' :: List.flatMap escChar cs) = true := by
          simp [List.isPrefixOf]
        simp only [replaceGo, this, ↓reduceIte, List.length_cons, List.length_nil, Nat.reduceAdd, Nat.add_one_sub_one,
          List.cons_append, List.nil_append]
        rw [ih]
        simp
      · by_cases h2 : c = ']'
        · subst h2
          simp only [escChar, escClose, ↓reduceIte, List.cons_append, List.nil_append]
          have hp1 : (['\\', '['] : Str).isPrefixOf ('\\' :: ']' :: List.flatMap escChar cs) = false := by
            simp [List.isPrefixOf]
          have hp2 : (['\\', '['] : Str).isPrefixOf (']' :: List.flatMap escChar cs) = false := by
            simp [List.isPrefixOf]
          have hne : (']' : Char) ≠ '[' := by decide
          simp only [hne, ↓reduceIte, List.cons_append, List.nil_append, replaceGo, hp1, hp2, Bool.false_eq_true]
          rw [ih]
        · have hp : (['\\', '['] : Str).isPrefixOf (c :: List.flatMap escChar cs) = false := by
            simp [List.isPrefixOf]; intro hh; exact absurd hh.symm hc
          simp only [escChar, escClose, h1, h2, ↓reduceIte, List.cons_append, List.nil_append, replaceGo, hp,
            Bool.false_eq_true]
          rw [ih]

theorem unesc_pass2 : ∀ (s : Str), (∀ c ∈ s, c ≠ '\\') →
    replaceGo ['\\', ']'] [']'] 0 (s.flatMap escClose) = s
  | [], _ => by simp [replaceGo]
  | c :: cs, h => by
      have hc : c ≠ '\\' := h c (by simp)
      have ih := unesc_pass2 cs (fun x hx => h x (by simp [hx]))
      simp only [List.flatMap_cons]
      by_cases h2 : c = ']'
      · subst h2
        simp only [escClose, ↓reduceIte, List.cons_append, List.nil_append]
        have : (['\\', ']'] : Str).isPrefixOf ('\\' :: ']' :: List.flatMap escClose cs) = true := by
          simp [List.isPrefixOf]
        simp only [replaceGo, this, ↓reduceIte, List.length_cons, List.length_nil, Nat.reduceAdd, Nat.add_one_sub_one,
          List.cons_append, List.nil_append]
        rw [ih]
      · have hp : (['\\', ']'] : Str).isPrefixOf (c :: List.flatMap escClose cs) = false := by
          simp [List.isPrefixOf]; intro hh; exact absurd hh.symm hc
        simp only [escClose, h2, ↓reduceIte, List.cons_append, List.nil_append, replaceGo, hp, Bool.false_eq_true]
        rw [ih]

/-- **unescape ∘ escape** on text without backslash -/
theorem unesc_esc (s : Str) (h : ∀ c ∈ s, c ≠ '\\') : unescBrackets (escBrackets s) = s := by
  unfold unescBrackets
  rw [escBrackets_flatMap]
  simp only [Str.replace, List.isEmpty_cons, Bool.false_eq_true, ↓reduceIte]
  rw [unesc_pass1 s h, unesc_pass2 s h]

theorem cleanTextB_noBackslash (s : Str) (h : cleanTextB s = true) : ∀ c ∈ s, c ≠ '\\' := by
  intro c hc
  simp only [cleanTextB, List.all_eq_true, Bool.and_eq_true, bne_iff_ne, ne_eq] at h
  exact (h c hc).1

theorem cleanTextB_noPercent (s : Str) (h : cleanTextB s = true) : ∀ c ∈ s, c ≠ '%' := by
  intro c hc
  simp only [cleanTextB, List.all_eq_true, Bool.and_eq_true, bne_iff_ne, ne_eq] at h
  exact (h c hc).2

theorem esc_noPercent (s : Str) (h : cleanTextB s = true) : ∀ c ∈ escBrackets s, c ≠ '%' := by
  intro c hc
  rcases escBrackets_mem s c hc with h1 | h1
  · exact cleanTextB_noPercent s h c h1
  · subst h1; decide

/-! ### the splitter -/

theorem isWord_rparen : isWord ')' = false := by decide +kernel

theorem readWord_word : ∀ (n tail acc : Str) (k : Nat), n.all isWord = true →
    readWord (n ++ tail) acc k = readWord tail (n.reverse ++ acc) (k + n.length)
  | [], tail, acc, k, _ => by simp
  | c :: cs, tail, acc, k, h => by
      simp only [List.all_cons, Bool.and_eq_true] at h
      simp only [List.cons_append, readWord, h.1, ↓reduceIte]
      rw [readWord_word cs tail (c :: acc) (k + 1) h.2]
      simp [Nat.add_assoc, Nat.add_comm 1]

theorem readParam_paramStr (n rest : Str) (h : wordName n = true) :
    readParam (paramStr n ++ rest) = some (n, n.length + 4) := by
  simp only [wordName, Bool.and_eq_true, Bool.not_eq_true'] at h
  simp only [paramStr, List.cons_append, readParam, List.append_assoc]
  rw [readWord_word n _ [] 2 h.2]
  have hne : (n.reverse ++ ([] : Str)).isEmpty = false := by
    cases n with
    | nil => simp at h
    | cons c cs => simp
  simp only [List.cons_append, List.nil_append, readWord, isWord_rparen, Bool.false_eq_true, ↓reduceIte, hne]
  simp
  omega

theorem splitGo_skip (cur : Str) : ∀ (xs rest : Str), splitGo xs.length cur (xs ++ rest) = splitGo 0 cur rest
  | [], rest => by simp
  | x :: xs, rest => by
      simp only [List.length_cons, List.cons_append]
      rw [splitGo.eq_def]
      simp only
      exact splitGo_skip cur xs rest

theorem readParam_clean (c : Char) (cs : Str) (h : c ≠ '%') : readParam (c :: cs) = none := by
  unfold readParam
  split
  · rename_i heq; simp at heq; exact absurd heq.1 h
  · rfl

theorem splitGo_clean : ∀ (s cur rest : Str), (∀ c ∈ s, c ≠ '%') →
    splitGo 0 cur (s ++ rest) = splitGo 0 (s.reverse ++ cur) rest
  | [], cur, rest, _ => by simp
  | c :: cs, cur, rest, h => by
      simp only [List.cons_append]
      rw [splitGo.eq_def]
      simp only [readParam_clean c _ (h c (by simp))]
      have := splitGo_clean cs (c :: cur) rest (fun x hx => h x (by simp [hx]))
      simpa using this

theorem splitGo_param (n rest cur : Str) (h : wordName n = true) :
    splitGo 0 cur (paramStr n ++ rest) = .inl cur.reverse :: .inr n :: splitGo 0 [] rest := by
  have hp := readParam_paramStr n rest h
  have hshape : paramStr n ++ rest = '%' :: (('(' :: n ++ [')', 's']) ++ rest) := by simp [paramStr]
  rw [hshape, splitGo.eq_def]
  simp only
  rw [← hshape, hp]
  simp only [Nat.add_sub_cancel, List.cons.injEq, true_and]
  have hlen : ('(' :: n ++ [')', 's']).length = n.length + 3 := by simp
  have := splitGo_skip [] ('(' :: n ++ [')', 's']) rest
  rw [hlen] at this
  simpa using this

/-- what the splitter makes of a segment: `cur` is the text read so far, reversed -/
def splitSpec (cur : Str) : List Piece → List (Str ⊕ Str)
  | [] => [.inl cur.reverse]
  | .text s :: ps => splitSpec ((escBrackets s).reverse ++ cur) ps
  | .expr n _ _ :: ps => .inl cur.reverse :: .inr n :: splitSpec [] ps

/-- the pieces are clean text and well-formed parameter references -/
def Piece.ok : Piece → Bool
  | .text s => cleanTextB s
  | .expr n _ _ => wordName n

theorem splitGo_segStr : ∀ (ps : List Piece) (cur : Str), ps.all Piece.ok = true →
    splitGo 0 cur (segStr ps) = splitSpec cur ps
  | [], cur, _ => by simp [segStr, splitGo, splitSpec]
  | .text s :: ps, cur, h => by
      simp only [List.all_cons, Bool.and_eq_true, Piece.ok] at h
      simp only [segStr, Piece.str, splitSpec]
      rw [splitGo_clean (escBrackets s) cur _ (esc_noPercent s h.1)]
      exact splitGo_segStr ps _ h.2
  | .expr n i cm :: ps, cur, h => by
      simp only [List.all_cons, Bool.and_eq_true, Piece.ok] at h
      simp only [segStr, Piece.str, splitSpec]
      rw [splitGo_param n _ cur h.1, splitGo_segStr ps [] h.2]

/-! ### yield_parts -/

def ypStep (vs : List (Str × TEvent)) (acc : List TEvent) (p : Str ⊕ Str) : Except Err (List TEvent) :=
  match p with
  | .inl t => pure (if t.isEmpty then acc else acc ++ [.text (unescBrackets t)])
  | .inr n =>
    match lookupValue vs n with
    | some e => pure (acc ++ [e])
    | none => .error .keyError

theorem yieldParts_eq (vs : List (Str × TEvent)) (s : Str) :
    yieldParts vs s = (splitParams s).foldlM (ypStep vs) [] := rfl

/-- every parameter of the pieces is bound to its expression -/
def Piece.bound (vs : List (Str × TEvent)) : Piece → Prop
  | .text _ => True
  | .expr n i cm => lookupValue vs n = some (.expr i cm)

theorem foldl_splitSpec (vs : List (Str × TEvent)) : ∀ (ps : List Piece) (raw : Str) (acc : List TEvent),
    ps.all Piece.ok = true → (∀ p ∈ ps, p.bound vs) → cleanTextB raw = true →
    (splitSpec (escBrackets raw).reverse ps).foldlM (ypStep vs) acc = .ok (acc ++ segEventsGo raw ps)
  | [], raw, acc, _, _, hc => by
      simp only [splitSpec, List.foldlM, ypStep, bind, Except.bind, pure, Except.pure, segEventsGo, List.reverse_reverse,
        escBrackets_isEmpty, unesc_esc raw (cleanTextB_noBackslash raw hc)]
      by_cases h : raw.isEmpty = true
      · simp [h]
      · simp [h]
  | .text s :: ps, raw, acc, h, hb, hc => by
      simp only [List.all_cons, Bool.and_eq_true, Piece.ok] at h
      simp only [splitSpec, segEventsGo]
      have := foldl_splitSpec vs ps (raw ++ s) acc h.2 (fun p hp => hb p (by simp [hp]))
        (by simp only [cleanTextB, List.all_append, Bool.and_eq_true] at hc h ⊢; exact ⟨hc, h.1⟩)
      rw [escBrackets_append, List.reverse_append] at this
      exact this
  | .expr n i cm :: ps, raw, acc, h, hb, hc => by
      simp only [List.all_cons, Bool.and_eq_true, Piece.ok] at h
      have hv : lookupValue vs n = some (.expr i cm) := hb (.expr n i cm) (by simp)
      simp only [splitSpec, List.foldlM, ypStep, bind, Except.bind, pure, Except.pure, hv, segEventsGo,
        List.reverse_reverse, escBrackets_isEmpty, unesc_esc raw (cleanTextB_noBackslash raw hc)]
      have := foldl_splitSpec vs ps [] ((if raw.isEmpty = true then acc else acc ++ [.text raw]) ++ [.expr i cm])
        h.2 (fun p hp => hb p (by simp [hp])) rfl
      rw [escBrackets_nil] at this
      simp only [List.reverse_nil] at this
      rw [this]
      by_cases he : raw.isEmpty = true
      · simp [he]
      · simp [he, List.append_assoc]

/-- **yield_parts on a segment**: clean text comes back as (merged) TEXT events, every
    parameter reference as the expression bound to it -/
theorem yieldParts_segStr (vs : List (Str × TEvent)) (ps : List Piece) (h : ps.all Piece.ok = true)
    (hb : ∀ p ∈ ps, p.bound vs) : yieldParts vs (segStr ps) = .ok (segEvents ps) := by
  rw [yieldParts_eq]
  unfold splitParams
  rw [splitGo_segStr ps [] h]
  have := foldl_splitSpec vs ps [] [] h hb rfl
  rw [escBrackets_nil] at this
  simpa [segEvents] using this

end Genshi.I18n

/-
  C19 — `yield_parts` (the `%(name)s` splitter of `MessageBuffer.translate`) on strings built
  from clean text and parameter references.
-/
import Genshi.Lemmas.I18nRun
namespace Genshi.I18n
open Genshi Genshi.Str

/-- a piece of a text segment of a message -/
inductive Piece where
  | text (s : Str)
  | expr (name : Str) (id : Nat) (cm : List CodeMsg)

def paramStr (n : Str) : Str := '%' :: '(' :: n ++ [')', 's']

def Piece.str : Piece → Str
  | .text s => s
  | .expr n _ _ => paramStr n

def segStr : List Piece → Str
  | [] => []
  | p :: ps => p.str ++ segStr ps

/-- text the message format does not touch: no bracket, no backslash, no percent sign -/
def cleanText (s : Str) : Bool := s.all fun c => c != '[' && c != ']' && c != '\\' && c != '%'

/-- a parameter name `\w+` -/
def wordName (n : Str) : Bool := !n.isEmpty && n.all isWord

/-- the events of a segment: adjacent text merged, empty text dropped -/
def segEventsGo (cur : Str) : List Piece → List TEvent
  | [] => if cur.isEmpty then [] else [.text cur]
  | .text s :: ps => segEventsGo (cur ++ s) ps
  | .expr _ i cm :: ps => (if cur.isEmpty then [] else [.text cur]) ++ (.expr i cm :: segEventsGo [] ps)

def segEvents (ps : List Piece) : List TEvent := segEventsGo [] ps

/-! ### str.replace without an occurrence -/

theorem replaceGo_no_occ (p : Char) (ps new : Str) : ∀ s : Str, (∀ c ∈ s, c ≠ p) →
    replaceGo (p :: ps) new 0 s = s
  | [], _ => by simp [replaceGo]
  | c :: cs, h => by
      have hc : c ≠ p := h c (by simp)
      have : (p :: ps).isPrefixOf (c :: cs) = false := by
        simp [List.isPrefixOf]; intro h'; exact absurd h'.symm hc
      simp only [replaceGo, this, Bool.false_eq_true, ↓reduceIte, List.cons.injEq, true_and]
      exact replaceGo_no_occ p ps new cs (fun c' hc' => h c' (by simp [hc']))

theorem replace_no_occ (p : Char) (ps new s : Str) (h : ∀ c ∈ s, c ≠ p) : Str.replace (p :: ps) new s = s := by
  simp [Str.replace, replaceGo_no_occ p ps new s h]

theorem unescBrackets_clean (s : Str) (h : cleanText s = true) : unescBrackets s = s := by
  have hb : ∀ c ∈ s, c ≠ '\\' := by
    intro c hc
    simp only [cleanText, List.all_eq_true, Bool.and_eq_true, bne_iff_ne, ne_eq] at h
    exact (h c hc).1.2
  unfold unescBrackets
  rw [replace_no_occ '\\' ['['] ['['] s hb, replace_no_occ '\\' [']'] [']'] s hb]

theorem escBrackets_clean (s : Str) (h : cleanText s = true) : escBrackets s = s := by
  have h1 : ∀ c ∈ s, c ≠ '[' := by
    intro c hc
    simp only [cleanText, List.all_eq_true, Bool.and_eq_true, bne_iff_ne, ne_eq] at h
    exact (h c hc).1.1.1
  have h2 : ∀ c ∈ s, c ≠ ']' := by
    intro c hc
    simp only [cleanText, List.all_eq_true, Bool.and_eq_true, bne_iff_ne, ne_eq] at h
    exact (h c hc).1.1.2
  unfold escBrackets
  rw [replace_no_occ '[' [] _ s h1, replace_no_occ ']' [] _ s h2]

/-! ### the splitter -/

theorem isWord_rparen : isWord ')' = false := by decide +kernel

theorem readWord_word : ∀ (n tail acc : Str) (k : Nat), n.all isWord = true →
    readWord (n ++ tail) acc k = readWord tail (n.reverse ++ acc) (k + n.length)
  | [], tail, acc, k, _ => by simp
  | c :: cs, tail, acc, k, h => by
      simp only [List.all_cons, Bool.and_eq_true] at h
      simp only [List.cons_append, readWord, h.1, ↓reduceIte]
      rw [readWord_word cs tail (c :: acc) (k + 1) h.2]
      simp [Nat.add_assoc, Nat.add_comm 1]

theorem readParam_paramStr (n rest : Str) (h : wordName n = true) :
    readParam (paramStr n ++ rest) = some (n, n.length + 4) := by
  simp only [wordName, Bool.and_eq_true, Bool.not_eq_true'] at h
  simp only [paramStr, List.cons_append, readParam, List.append_assoc]
  rw [readWord_word n _ [] 2 h.2]
  have hne : (n.reverse ++ ([] : Str)).isEmpty = false := by
    cases n with
    | nil => simp at h
    | cons c cs => simp
  simp only [List.cons_append, List.nil_append, readWord, isWord_rparen, Bool.false_eq_true, ↓reduceIte, hne]
  simp
  omega

theorem splitGo_skip (cur : Str) : ∀ (xs rest : Str), splitGo xs.length cur (xs ++ rest) = splitGo 0 cur rest
  | [], rest => by simp
  | x :: xs, rest => by
      simp only [List.length_cons, List.cons_append]
      rw [splitGo.eq_def]
      simp only
      exact splitGo_skip cur xs rest

theorem readParam_clean (c : Char) (cs : Str) (h : c ≠ '%') : readParam (c :: cs) = none := by
  unfold readParam
  split
  · rename_i heq; simp at heq; exact absurd heq.1 h
  · rfl

theorem splitGo_clean : ∀ (s cur rest : Str), cleanText s = true →
    splitGo 0 cur (s ++ rest) = splitGo 0 (s.reverse ++ cur) rest
  | [], cur, rest, _ => by simp
  | c :: cs, cur, rest, h => by
      simp only [cleanText, List.all_cons, Bool.and_eq_true, bne_iff_ne, ne_eq] at h
      simp only [List.cons_append]
      rw [splitGo.eq_def]
      simp only [readParam_clean c _ h.1.2]
      have := splitGo_clean cs (c :: cur) rest (by simpa [cleanText] using h.2)
      simpa using this

theorem splitGo_param (n rest cur : Str) (h : wordName n = true) :
    splitGo 0 cur (paramStr n ++ rest) = .inl cur.reverse :: .inr n :: splitGo 0 [] rest := by
  have hp := readParam_paramStr n rest h
  have hshape : paramStr n ++ rest = '%' :: (('(' :: n ++ [')', 's']) ++ rest) := by simp [paramStr]
  rw [hshape, splitGo.eq_def]
  simp only
  rw [← hshape, hp]
  simp only [Nat.add_sub_cancel, List.cons.injEq, true_and]
  have hlen : ('(' :: n ++ [')', 's']).length = n.length + 3 := by simp
  have := splitGo_skip [] ('(' :: n ++ [')', 's']) rest
  rw [hlen] at this
  simpa using this

/-- what the splitter makes of a segment: `cur` is the text read so far, reversed -/
def splitSpec (cur : Str) : List Piece → List (Str ⊕ Str)
  | [] => [.inl cur.reverse]
  | .text s :: ps => splitSpec (s.reverse ++ cur) ps
  | .expr n _ _ :: ps => .inl cur.reverse :: .inr n :: splitSpec [] ps

/-- the pieces are clean text and well-formed parameter references -/
def Piece.ok : Piece → Bool
  | .text s => cleanText s
  | .expr n _ _ => wordName n

theorem splitGo_segStr : ∀ (ps : List Piece) (cur : Str), ps.all Piece.ok = true →
    splitGo 0 cur (segStr ps) = splitSpec cur ps
  | [], cur, _ => by simp [segStr, splitGo, splitSpec]
  | .text s :: ps, cur, h => by
      simp only [List.all_cons, Bool.and_eq_true, Piece.ok] at h
      simp only [segStr, Piece.str, splitSpec]
      rw [splitGo_clean s cur _ h.1]
      exact splitGo_segStr ps _ h.2
  | .expr n i cm :: ps, cur, h => by
      simp only [List.all_cons, Bool.and_eq_true, Piece.ok] at h
      simp only [segStr, Piece.str, splitSpec]
      rw [splitGo_param n _ cur h.1, splitGo_segStr ps [] h.2]

/-! ### yield_parts -/

def ypStep (vs : List (Str × TEvent)) (acc : List TEvent) (p : Str ⊕ Str) : Except Err (List TEvent) :=
  match p with
  | .inl t => pure (if t.isEmpty then acc else acc ++ [.text (unescBrackets t)])
  | .inr n =>
    match lookupValue vs n with
    | some e => pure (acc ++ [e])
    | none => .error .keyError

theorem yieldParts_eq (vs : List (Str × TEvent)) (s : Str) :
    yieldParts vs s = (splitParams s).foldlM (ypStep vs) [] := rfl

/-- every parameter of the pieces is bound to its expression -/
def Piece.bound (vs : List (Str × TEvent)) : Piece → Prop
  | .text _ => True
  | .expr n i cm => lookupValue vs n = some (.expr i cm)

theorem foldl_splitSpec (vs : List (Str × TEvent)) : ∀ (ps : List Piece) (cur : Str) (acc : List TEvent),
    ps.all Piece.ok = true → (∀ p ∈ ps, p.bound vs) → cleanText cur = true →
    (splitSpec cur ps).foldlM (ypStep vs) acc = .ok (acc ++ segEventsGo cur.reverse ps)
  | [], cur, acc, _, _, hc => by
      have hc' : cleanText cur.reverse = true := by simpa [cleanText] using hc
      simp only [splitSpec, List.foldlM, ypStep, bind, Except.bind, pure, Except.pure, segEventsGo]
      by_cases h : cur.reverse.isEmpty = true
      · simp [h]
      · simp [h, unescBrackets_clean _ hc']
  | .text s :: ps, cur, acc, h, hb, hc => by
      simp only [List.all_cons, Bool.and_eq_true, Piece.ok] at h
      simp only [splitSpec, segEventsGo]
      have := foldl_splitSpec vs ps (s.reverse ++ cur) acc h.2 (fun p hp => hb p (by simp [hp]))
        (by simp only [cleanText, List.all_append, List.all_reverse, Bool.and_eq_true] at hc h ⊢; exact ⟨h.1, hc⟩)
      simpa using this
  | .expr n i cm :: ps, cur, acc, h, hb, hc => by
      simp only [List.all_cons, Bool.and_eq_true, Piece.ok] at h
      have hc' : cleanText cur.reverse = true := by simpa [cleanText] using hc
      have hv : lookupValue vs n = some (.expr i cm) := hb (.expr n i cm) (by simp)
      simp only [splitSpec, List.foldlM, ypStep, bind, Except.bind, pure, Except.pure, hv, segEventsGo]
      have := foldl_splitSpec vs ps [] ((if cur.reverse.isEmpty = true then acc else acc ++ [.text (unescBrackets cur.reverse)]) ++ [.expr i cm])
        h.2 (fun p hp => hb p (by simp [hp])) rfl
      rw [this]
      by_cases he : cur.reverse.isEmpty = true
      · simp [he]
      · simp [he, unescBrackets_clean _ hc', List.append_assoc]

/-- **yield_parts on a segment**: clean text comes back as (merged) TEXT events, every
    parameter reference as the expression bound to it -/
theorem yieldParts_segStr (vs : List (Str × TEvent)) (ps : List Piece) (h : ps.all Piece.ok = true)
    (hb : ∀ p ∈ ps, p.bound vs) : yieldParts vs (segStr ps) = .ok (segEvents ps) := by
  rw [yieldParts_eq]
  unfold splitParams
  rw [splitGo_segStr ps [] h]
  have := foldl_splitSpec vs ps [] [] h hb rfl
  simpa [segEvents] using this

end Genshi.I18n

/-
  C03 + C13 — the rewritten tree is again a supported tree, so `parse_gen` applies to it: the
  source genshi compiles has exactly the abstract syntax of the rewritten tree.
-/
import Genshi.Lemmas.PyGenOk
import Genshi.Lemmas.PyEval
namespace Genshi.Py
open Genshi.Gen

theorem wf_strConst (s : Str) : WF (strConst s) := by
  simp only [strConst, WF, ConstOK]
  rfl

theorem wf_lookupName (id : Str) : WF (lookupNameCall id) := by
  simp only [lookupNameCall, WF, WFL]
  exact ⟨by decide, rfl, ⟨by decide, wf_strConst id, trivial⟩, rfl, trivial, rfl⟩

theorem isExpr_xf (L : List (List Str)) (e : PyExpr) (h : isExpr e = true) : isExpr (xf L e) = true := by
  cases e <;> first
    | (simp [isExpr] at h; done)
    | (simp only [xf]; first | rfl | (split <;> rfl))

theorem isIntConst_xf (L : List (List Str)) (e : PyExpr) : isIntConst (xf L e) = isIntConst e := by
  cases e <;> simp only [xf] <;> first | rfl | (split <;> rfl)

theorem isSlice_xf (L : List (List Str)) (e : PyExpr) : isSlice (xf L e) = isSlice e := by
  cases e <;> simp only [xf] <;> first | rfl | (split <;> rfl)

theorem exprO_xfO (L : List (List Str)) (o : Option PyExpr) (h : exprO o = true) : exprO (xfO L o) = true := by
  cases o with
  | none => rfl
  | some e => exact isExpr_xf L e h

theorem all_xfL (p : PyExpr → Bool) (hp : ∀ L e, p e = true → p (xf L e) = true) (L : List (List Str))
    (es : List PyExpr) (h : es.all p = true) : (xfL L es).all p = true := by
  induction es with
  | nil => rfl
  | cons e r ih =>
    simp only [List.all_cons, Bool.and_eq_true] at h
    simp [xfL, hp L e h.1, ih h.2]

theorem isElt_xf (L : List (List Str)) (e : PyExpr) (h : isElt e = true) : isElt (xf L e) = true := by
  cases e <;> first
    | (simp [isElt, isExpr] at h; done)
    | (simp only [xf]; first | rfl | (split <;> rfl))

theorem isElt_of_isExpr {e : PyExpr} (h : isExpr e = true) : isElt e = true := by
  cases e <;> first | rfl | simp [isExpr] at h

theorem isKw_xf (L : List (List Str)) (e : PyExpr) (h : isKw e = true) : isKw (xf L e) = true := by
  cases e <;> first | (simp [isKw] at h; done) | rfl

theorem isDItem_xf (L : List (List Str)) (e : PyExpr) (h : isDItem e = true) : isDItem (xf L e) = true := by
  cases e with
  | dictItem k v => cases k <;> first | (simp [isDItem] at h; done) | rfl
  | _ => simp [isDItem] at h

theorem isCmp_xf (L : List (List Str)) (e : PyExpr) (h : isCmp e = true) : isCmp (xf L e) = true := by
  cases e <;> first | (simp [isCmp] at h; done) | rfl

theorem isPlainParam_xf (L : List (List Str)) (e : PyExpr) (h : isPlainParam e = true) : isPlainParam (xf L e) = true := by
  cases e with
  | param n ann d => cases ann <;> first | (simp [isPlainParam] at h; done) | rfl
  | _ => simp [isPlainParam] at h

theorem isVarParam_xfO (L : List (List Str)) (o : Option PyExpr) (h : ∀ v, o = some v → isVarParam v = true) :
    ∀ v, xfO L o = some v → isVarParam v = true := by
  intro v hv
  cases o with
  | none => simp [xfO] at hv
  | some p =>
    simp only [xfO, Option.some.injEq] at hv
    subst hv
    have := h p rfl
    cases p with
    | param n ann d =>
      cases ann <;> cases d <;> first | (simp [isVarParam] at this; done) | rfl
    | _ => simp [isVarParam] at this

theorem length_xfL (L : List (List Str)) (es : List PyExpr) : (xfL L es).length = es.length := by
  induction es with
  | nil => rfl
  | cons e r ih => simp [xfL, ih]

theorem xfL_ne_nil (L : List (List Str)) (es : List PyExpr) (h : es ≠ []) : xfL L es ≠ [] := by
  cases es with
  | nil => exact absurd rfl h
  | cons e r => simp [xfL]

mutual
theorem wf_xf : ∀ (e : PyExpr) (L : List (List Str)), WF e → WF (xf L e)
  | .name id, L, h => by
      simp only [xf]
      split
      · exact h
      · exact wf_lookupName id
  | .const c, _, h => by simpa only [xf] using h
  | .boolOp op vs, L, h => by
      simp only [WF] at h
      simp only [xf, WF]
      exact ⟨h.1, by rw [length_xfL]; exact h.2.1, wf_xfL vs L h.2.2.1, all_xfL isExpr isExpr_xf L vs h.2.2.2⟩
  | .binOp l op r, L, h => by
      simp only [WF] at h
      simp only [xf, WF]
      exact ⟨h.1, wf_xf l L h.2.1, wf_xf r L h.2.2.1, isExpr_xf L l h.2.2.2.1, isExpr_xf L r h.2.2.2.2⟩
  | .unaryOp op e, L, h => by
      simp only [WF] at h
      simp only [xf, WF]
      exact ⟨h.1, wf_xf e L h.2.1, isExpr_xf L e h.2.2⟩
  | .lambda po ar va ko ka body, L, h => by
      simp only [WF] at h
      obtain ⟨h1, h2, h3, h4, h5, h6, h7, h8, h9, h10, h11, h12⟩ := h
      simp only [xf, WF]
      exact ⟨wf_xfL po L h1, wf_xfL ar L h2, wf_xfO va L h3, wf_xfL ko L h4, wf_xfO ka L h5, wf_xf body _ h6,
        isExpr_xf _ body h7, all_xfL _ isPlainParam_xf L po h8, all_xfL _ isPlainParam_xf L ar h9,
        all_xfL _ isPlainParam_xf L ko h10, isVarParam_xfO L va h11, isVarParam_xfO L ka h12⟩
  | .ifExp t b o, L, h => by
      simp only [WF] at h
      simp only [xf, WF]
      exact ⟨wf_xf t L h.1, wf_xf b L h.2.1, wf_xf o L h.2.2.1, isExpr_xf L t h.2.2.2.1, isExpr_xf L b h.2.2.2.2.1,
        isExpr_xf L o h.2.2.2.2.2⟩
  | .dict items, L, h => by
      simp only [WF] at h
      simp only [xf, WF]
      exact ⟨wf_xfL items L h.1, all_xfL _ isDItem_xf L items h.2⟩
  | .listComp elt gens, L, h => by
      simp only [WF] at h
      simp only [xf, WF]
      obtain ⟨g1, g2, g3⟩ := wf_xfGens gens L (L ++ [compNames gens]) h.2.2.1 h.2.2.2.2 h.2.2.2.1
      exact ⟨wf_xf elt _ h.1, isExpr_xf _ elt h.2.1, g1, g2, g3⟩
  | .genExp elt gens, L, h => by
      simp only [WF] at h
      simp only [xf, WF]
      obtain ⟨g1, g2, g3⟩ := wf_xfGens gens L (L ++ [compNames gens]) h.2.2.1 h.2.2.2.2 h.2.2.2.1
      exact ⟨wf_xf elt _ h.1, isExpr_xf _ elt h.2.1, g1, g2, g3⟩
  | .yield_ v, L, h => by
      simp only [WF] at h
      simp only [xf, WF]
      exact ⟨wf_xfO v L h.1, exprO_xfO L v h.2⟩
  | .compare l rest, L, h => by
      simp only [WF] at h
      simp only [xf, WF]
      exact ⟨wf_xf l L h.1, isExpr_xf L l h.2.1, wf_xfL rest L h.2.2.1, xfL_ne_nil L rest h.2.2.2.1,
        all_xfL _ isCmp_xf L rest h.2.2.2.2⟩
  | .call f args kws, L, h => by
      simp only [WF] at h
      simp only [xf, WF]
      exact ⟨wf_xf f L h.1, isExpr_xf L f h.2.1, wf_xfL args L h.2.2.1, all_xfL _ isElt_xf L args h.2.2.2.1,
        wf_xfL kws L h.2.2.2.2.1, all_xfL _ isKw_xf L kws h.2.2.2.2.2⟩
  | .attribute v a, L, h => by
      simp only [WF] at h
      simp only [xf, lookupAttrCall, WF, WFL]
      have he := isExpr_xf L v h.2.1
      exact ⟨by decide, rfl, ⟨wf_xf v L h.1, wf_strConst a, trivial⟩, by
        simp only [List.all_cons, List.all_nil, Bool.and_true, Bool.and_eq_true]
        exact ⟨by cases hx : xf L v <;> simp_all [isElt, isExpr], rfl⟩, trivial, rfl⟩
  | .subscript v s, L, h => by
      simp only [WF] at h
      simp only [xf]
      split
      · simp only [WF]
        refine ⟨wf_xf v L h.1, isExpr_xf L v h.2.1, wf_xf s L h.2.2.1, ?_⟩
        rcases h.2.2.2 with hs | hs
        · exact Or.inl (isExpr_xf L s hs)
        · exact Or.inr (by rw [isSlice_xf]; exact hs)
      · rename_i hk
        have hse : isExpr s = true := by
          rcases h.2.2.2 with hs | hs
          · exact hs
          · cases s <;> simp_all [isSlice, isSliceKey]
        simp only [lookupItemCall, WF, WFL]
        have he := isExpr_xf L v h.2.1
        have hes := isExpr_xf L s hse
        refine ⟨by decide, rfl, ⟨wf_xf v L h.1, ⟨⟨wf_xf s L h.2.2.1, trivial⟩, ?_⟩, trivial⟩, ?_, trivial, rfl⟩
        · simp only [List.all_cons, List.all_nil, Bool.and_true]
          cases hx : xf L s <;> simp_all [isElt, isExpr]
        · simp only [List.all_cons, List.all_nil, Bool.and_true, Bool.and_eq_true]
          exact ⟨by cases hx : xf L v <;> simp_all [isElt, isExpr], rfl⟩
  | .slice l u st, L, h => by
      simp only [WF] at h
      simp only [xf, WF]
      exact ⟨wf_xfO l L h.1, wf_xfO u L h.2.1, wf_xfO st L h.2.2.1, exprO_xfO L l h.2.2.2.1, exprO_xfO L u h.2.2.2.2.1,
        exprO_xfO L st h.2.2.2.2.2⟩
  | .starred e, L, h => by
      simp only [WF] at h
      simp only [xf, WF]
      exact ⟨wf_xf e L h.1, isExpr_xf L e h.2⟩
  | .list elts, L, h => by
      simp only [WF] at h
      simp only [xf, WF]
      exact ⟨wf_xfL elts L h.1, all_xfL _ isElt_xf L elts h.2⟩
  | .tuple elts, L, h => by
      simp only [WF] at h
      simp only [xf, WF]
      exact ⟨wf_xfL elts L h.1, all_xfL _ isElt_xf L elts h.2⟩
  | .unsupported _, _, h => by simp [WF] at h
  | .keyword n v, L, h => by
      simp only [WF] at h
      simp only [xf, WF]
      exact ⟨h.1, wf_xf v L h.2.1, isExpr_xf L v h.2.2⟩
  | .comp t it ifs a, L, h => by
      simp only [WF] at h
      simp only [xf, WF]
      obtain ⟨t1, t2⟩ := wf_xfTarget t L h.1 h.2.1
      exact ⟨t1, t2, wf_xf it L h.2.2.1, isExpr_xf L it h.2.2.2.1, wf_xfL ifs L h.2.2.2.2.1,
        all_xfL _ isExpr_xf L ifs h.2.2.2.2.2⟩
  | .param n ann d, L, h => by
      simp only [WF] at h
      simp only [xf, WF]
      exact ⟨h.1, h.2.1, wf_xfO d L h.2.2.1, h.2.2.2.1, exprO_xfO L d h.2.2.2.2⟩
  | .dictItem k v, L, h => by
      simp only [WF] at h
      simp only [xf, WF]
      exact ⟨wf_xfO k L h.1, exprO_xfO L k h.2.1, wf_xf v L h.2.2.1, isExpr_xf L v h.2.2.2⟩
  | .cmpRhs op e, L, h => by
      simp only [WF] at h
      simp only [xf, WF]
      exact ⟨h.1, wf_xf e L h.2.1, isExpr_xf L e h.2.2⟩
theorem wf_xfL : ∀ (es : List PyExpr) (L : List (List Str)), WFL es → WFL (xfL L es)
  | [], _, _ => by simp [xfL, WFL]
  | e :: es, L, h => by
      simp only [WFL] at h
      simp only [xfL, WFL]
      exact ⟨wf_xf e L h.1, wf_xfL es L h.2⟩
theorem wf_xfO : ∀ (o : Option PyExpr) (L : List (List Str)), WFO o → WFO (xfO L o)
  | none, _, _ => by simp [xfO, WFO]
  | some e, L, h => by
      simp only [WFO] at h
      simp only [xfO, WFO]
      exact wf_xf e L h
theorem wf_xfGens : ∀ (gens : List PyExpr) (L0 L1 : List (List Str)), WFL gens → gens.all isComp = true → gens ≠ [] →
    WFL (xfGens L0 L1 gens) ∧ xfGens L0 L1 gens ≠ [] ∧ (xfGens L0 L1 gens).all isComp = true
  | [], _, _, _, _, hne => absurd rfl hne
  | c :: rest, L0, L1, h, hall, _ => by
      simp only [WFL] at h
      simp only [List.all_cons, Bool.and_eq_true] at hall
      match c, h, hall with
      | .comp t it ifs a, h, hall =>
      have hc := h.1
      simp only [WF] at hc
      obtain ⟨t1, t2⟩ := wf_xfTarget t L1 hc.1 hc.2.1
      have hrest : WFL (xfGens L1 L1 rest) ∧ (xfGens L1 L1 rest).all isComp = true := by
        cases rest with
        | nil => simp [xfGens, WFL]
        | cons c2 r2 =>
          obtain ⟨a1, _, a3⟩ := wf_xfGens (c2 :: r2) L1 L1 h.2 hall.2 (by simp)
          exact ⟨a1, a3⟩
      simp only [xfGens, WFL, WF]
      refine ⟨⟨⟨t1, t2, wf_xf it L0 hc.2.2.1, isExpr_xf L0 it hc.2.2.2.1, wf_xfL ifs L1 hc.2.2.2.2.1,
        all_xfL _ isExpr_xf L1 ifs hc.2.2.2.2.2⟩, hrest.1⟩, by simp, ?_⟩
      simp [isComp, hrest.2]
theorem wf_xfTarget : ∀ (t : PyExpr) (L : List (List Str)), WF t → isExpr t = true →
    WF (xfTarget L t) ∧ isExpr (xfTarget L t) = true
  | .name id, _, h, _ => by simp only [xfTarget]; exact ⟨h, rfl⟩
  | .tuple elts, L, h, _ => by
      simp only [WF] at h
      obtain ⟨a, b⟩ := wf_xfTargetL elts L h.1 h.2
      simp only [xfTarget, WF]
      exact ⟨⟨a, b⟩, rfl⟩
  | .list elts, L, h, _ => by
      simp only [WF] at h
      obtain ⟨a, b⟩ := wf_xfTargetL elts L h.1 h.2
      simp only [xfTarget, WF]
      exact ⟨⟨a, b⟩, rfl⟩
  | .attribute v a, L, h, _ => by
      simp only [WF] at h
      simp only [xfTarget, WF]
      exact ⟨⟨wf_xf v L h.1, isExpr_xf L v h.2.1, h.2.2.1, by rw [isIntConst_xf]; exact h.2.2.2⟩, rfl⟩
  | .subscript v s, L, h, _ => by
      simp only [WF] at h
      simp only [xfTarget, WF]
      refine ⟨⟨wf_xf v L h.1, isExpr_xf L v h.2.1, wf_xf s L h.2.2.1, ?_⟩, rfl⟩
      rcases h.2.2.2 with hs | hs
      · exact Or.inl (isExpr_xf L s hs)
      · exact Or.inr (by rw [isSlice_xf]; exact hs)
  | .starred _, _, _, he => by simp [isExpr] at he
  | .const c, _, h, he => by simpa [xfTarget] using ⟨h, he⟩
  | .boolOp a b, _, h, he => by simpa [xfTarget] using ⟨h, he⟩
  | .binOp a b c, _, h, he => by simpa [xfTarget] using ⟨h, he⟩
  | .unaryOp a b, _, h, he => by simpa [xfTarget] using ⟨h, he⟩
  | .lambda a b c d e f, _, h, he => by simpa [xfTarget] using ⟨h, he⟩
  | .ifExp a b c, _, h, he => by simpa [xfTarget] using ⟨h, he⟩
  | .dict a, _, h, he => by simpa [xfTarget] using ⟨h, he⟩
  | .listComp a b, _, h, he => by simpa [xfTarget] using ⟨h, he⟩
  | .genExp a b, _, h, he => by simpa [xfTarget] using ⟨h, he⟩
  | .yield_ a, _, h, he => by simpa [xfTarget] using ⟨h, he⟩
  | .compare a b, _, h, he => by simpa [xfTarget] using ⟨h, he⟩
  | .call a b c, _, h, he => by simpa [xfTarget] using ⟨h, he⟩
  | .slice a b c, _, _, he => by simp [isExpr] at he
  | .unsupported a, _, _, he => by simp [isExpr] at he
  | .keyword a b, _, _, he => by simp [isExpr] at he
  | .comp a b c d, _, _, he => by simp [isExpr] at he
  | .param a b c, _, _, he => by simp [isExpr] at he
  | .dictItem a b, _, _, he => by simp [isExpr] at he
  | .cmpRhs a b, _, _, he => by simp [isExpr] at he
theorem wf_xfTargetL : ∀ (ts : List PyExpr) (L : List (List Str)), WFL ts → ts.all isElt = true →
    WFL (xfTargetL L ts) ∧ (xfTargetL L ts).all isElt = true
  | [], _, _, _ => by simp [xfTargetL, WFL]
  | t :: ts, L, h, hall => by
      simp only [WFL] at h
      simp only [List.all_cons, Bool.and_eq_true] at hall
      obtain ⟨a, b⟩ := wf_xfTargetL ts L h.2 hall.2
      simp only [xfTargetL, WFL, List.all_cons, Bool.and_eq_true]
      cases t with
      | starred y =>
        have hy := h.1
        simp only [WF] at hy
        obtain ⟨y1, y2⟩ := wf_xfTarget y L hy.1 hy.2
        simp only [xfTarget, WF]
        exact ⟨⟨⟨y1, y2⟩, a⟩, rfl, b⟩
      | _ =>
        all_goals first
          | (simp [isElt, isExpr] at hall; done)
          | (obtain ⟨y1, y2⟩ := wf_xfTarget _ L h.1 (by simpa [isElt] using hall.1)
             exact ⟨⟨y1, a⟩, isElt_of_isExpr y2, b⟩)
end

theorem supported_xform (e : PyExpr) (h : Supported e) : Supported (xform e) :=
  ⟨wf_xf e _ h.1, isExpr_xf _ e h.2⟩

end Genshi.Py

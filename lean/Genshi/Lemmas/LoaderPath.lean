/-
  C15 — lemmas about the loader over string-level path names (`Genshi/Model/LoaderPath.lean`):
  shapes of the results, what a load leaves alone (`Effect`), the walk over the search path
  against its specification, and the invariant "the cache is a bounded map of distinct keys".
-/
import Genshi.Model.LoaderPath
import Genshi.Lemmas.LruAbs
import Genshi.Lemmas.Loader
namespace Genshi.LoaderP
open Genshi.Lru
open Genshi.Loader (File Fault Err)

/-- the three ways `instantiate` ends -/
theorem instantiate_cases (cfg : Cfg) (s : LState) (r : Req) (key : Key) (isabs : Bool)
    (fp name : Str) (f : File) (u : Utd) :
    let t : Tmpl := ⟨s.nextObj, fp, if isabs then fp else name, f.content, r.cls, r.enc⟩
    let s1 : LState := { s with nextObj := s.nextObj + 1, parsed := s.nextObj :: s.parsed }
    let s2 : LState := if cfg.hasCallback then { s1 with cbLog := s.nextObj :: s1.cbLog } else s1
    (f.bad = true ∧ instantiate cfg s r key isabs fp name f u = (s, .err .syntaxError)) ∨
    (f.bad = false ∧ cfg.hasCallback = true ∧ r.cbRaise = true ∧
      instantiate cfg s r key isabs fp name f u = (s2, .err .callback)) ∨
    (f.bad = false ∧ (cfg.hasCallback && r.cbRaise) = false ∧
      instantiate cfg s r key isabs fp name f u =
        ({ s2 with cache := (astep s2.cache (.set key t)).1, utd := utdSet s2.utd key u }, .ok t)) := by
  intro t s1 s2
  unfold instantiate
  by_cases hb : f.bad = true
  · left; simp [hb]
  · have hb' : f.bad = false := by simpa using hb
    by_cases hc : (cfg.hasCallback && r.cbRaise) = true
    · right; left
      simp only [Bool.and_eq_true] at hc
      refine ⟨hb', hc.1, hc.2, ?_⟩
      simp [hb', hc.1, hc.2, s2, s1]
    · right; right
      have hc' : (cfg.hasCallback && r.cbRaise) = false := by simpa using hc
      refine ⟨hb', hc', ?_⟩
      simp only [hb', Bool.false_eq_true, ↓reduceIte, hc']
      rfl

theorem search_cases (cfg : Cfg) (fs : FS) (s : LState) (r : Req) (key : Key) (isabs : Bool)
    (entries : List Entry) :
    search cfg fs s r key isabs entries = (s, .err .notFound) ∨
    search cfg fs s r key isabs entries = (s, .err .loadFunc) ∨
    ∃ e ∈ entries, ∃ fp name f u, probe fs r.fault e key = .found fp name f u ∧
      search cfg fs s r key isabs entries = instantiate cfg s r key isabs fp name f u := by
  induction entries with
  | nil => left; rfl
  | cons e rest ih =>
    unfold search
    cases hp : probe fs r.fault e key with
    | skip =>
      simp only
      rcases ih with h | h | ⟨e', he', fp, name, f, u, hp', h⟩
      · left; exact h
      · right; left; exact h
      · right; right; exact ⟨e', List.mem_cons_of_mem _ he', fp, name, f, u, hp', h⟩
    | raise => right; left; rfl
    | found fp name f u => right; right; exact ⟨e, by simp, fp, name, f, u, hp, rfl⟩

/-- the state after the cache lookup: a hit is a use -/
def touched (s : LState) (key : Key) : LState :=
  match alookup key s.cache.items with
  | some _ => { s with cache := (astep s.cache (.get key)).1 }
  | none => s

theorem loadBody_cases (cfg : Cfg) (fs : FS) (s : LState) (r : Req) (key : Key) :
    (∃ t, alookup key s.cache.items = some t ∧
        (cfg.autoReload = false ∨ stillCurrent fs s key = true) ∧
        loadBody cfg fs s r key = (touched s key, .ok t)) ∨
    ((alookup key s.cache.items = none ∨ (cfg.autoReload = true ∧ stillCurrent fs s key = false)) ∧
      ((searchPath cfg r key = none ∧ loadBody cfg fs s r key = (touched s key, .err .noSearchPath)) ∨
       ∃ entries isabs, searchPath cfg r key = some (entries, isabs) ∧
         loadBody cfg fs s r key = search cfg fs (touched s key) r key isabs entries)) := by
  have hsc : ∀ c, stillCurrent fs { s with cache := c } key = stillCurrent fs s key := fun _ => rfl
  unfold loadBody touched
  cases hl : alookup key s.cache.items with
  | none =>
    right
    refine ⟨Or.inl rfl, ?_⟩
    cases hsp : searchPath cfg r key with
    | none => left; simp
    | some p => right; exact ⟨p.1, p.2, rfl, by simp⟩
  | some t =>
    by_cases har : cfg.autoReload = true
    · by_cases hcur : stillCurrent fs s key = true
      · left; refine ⟨t, rfl, Or.inr hcur, ?_⟩
        simp [har, hsc, hcur]
      · have hcur' : stillCurrent fs s key = false := by simpa using hcur
        right
        refine ⟨Or.inr ⟨har, hcur'⟩, ?_⟩
        cases hsp : searchPath cfg r key with
        | none => left; simp [har, hsc, hcur']
        | some p => right; exact ⟨p.1, p.2, rfl, by simp [har, hsc, hcur']⟩
    · have har' : cfg.autoReload = false := by simpa using har
      left; refine ⟨t, rfl, Or.inl har', ?_⟩
      simp [har']

theorem touched_fields (s : LState) (key : Key) :
    (touched s key).utd = s.utd ∧ (touched s key).nextObj = s.nextObj ∧
    (touched s key).cbLog = s.cbLog ∧ (touched s key).parsed = s.parsed ∧
    (touched s key).lock = s.lock := by
  unfold touched; split <;> simp

/-- summary of one `loadBody`: the possible effects, by outcome -/
structure Effect (cfg : Cfg) (s s' : LState) (key : Key) (res : Res) : Prop where
  lock : s'.lock = s.lock
  counters :
    (s'.nextObj = s.nextObj ∧ s'.parsed = s.parsed ∧ s'.cbLog = s.cbLog) ∨
    (s'.nextObj = s.nextObj + 1 ∧ s'.parsed = s.nextObj :: s.parsed ∧
      s'.cbLog = if cfg.hasCallback then s.nextObj :: s.cbLog else s.cbLog)
  failed : ∀ e, res = .err e → s'.cache = (touched s key).cache ∧ s'.utd = s.utd
  ok : ∀ t, res = .ok t →
    (alookup key s.cache.items = some t ∧ s'.cache = (touched s key).cache ∧ s'.utd = s.utd ∧
      s'.nextObj = s.nextObj) ∨
    (t.obj = s.nextObj ∧ s'.nextObj = s.nextObj + 1 ∧
      s'.cache = (astep (touched s key).cache (.set key t)).1 ∧ ∃ u, s'.utd = utdSet s.utd key u)

theorem instantiate_effect (cfg : Cfg) (s0 s : LState) (r : Req) (key : Key) (isabs : Bool)
    (fp name : Str) (f : File) (u : Utd) (hs : s = touched s0 key) :
    Effect cfg s0 (instantiate cfg s r key isabs fp name f u).1 key
      (instantiate cfg s r key isabs fp name f u).2 := by
  obtain ⟨hu, hn, hc, hp, hl⟩ := touched_fields s0 key
  rw [← hs] at hu hn hc hp hl
  rcases instantiate_cases cfg s r key isabs fp name f u with ⟨_, h⟩ | ⟨_, hcb, _, h⟩ | ⟨_, _, h⟩
  · rw [h]
    exact ⟨hl, Or.inl ⟨hn, hp, hc⟩, fun _ _ => ⟨by rw [hs], hu⟩, fun t ht => by simp at ht⟩
  · rw [h]
    refine ⟨by simp [hcb, hl], Or.inr ⟨by simp [hcb, hn], by simp [hcb, hn, hp], by simp [hcb, hn, hc]⟩,
      fun _ _ => ⟨by simp [hcb, hs], by simp [hcb, hu]⟩, fun t ht => by simp at ht⟩
  · rw [h]
    refine ⟨?_, Or.inr ⟨?_, ?_, ?_⟩, fun e he => by simp at he, ?_⟩
    · cases cfg.hasCallback <;> simp [hl]
    · cases cfg.hasCallback <;> simp [hn]
    · cases cfg.hasCallback <;> simp [hn, hp]
    · cases cfg.hasCallback <;> simp [hn, hc]
    · intro t ht
      simp only [Res.ok.injEq] at ht
      right
      subst ht
      refine ⟨hn, ?_, ?_, u, ?_⟩
      · cases cfg.hasCallback <;> simp [hn]
      · cases cfg.hasCallback <;> simp [hs]
      · cases cfg.hasCallback <;> simp [hu]

theorem search_effect (cfg : Cfg) (fs : FS) (s0 s : LState) (r : Req) (key : Key) (isabs : Bool)
    (entries : List Entry) (hs : s = touched s0 key) :
    Effect cfg s0 (search cfg fs s r key isabs entries).1 key (search cfg fs s r key isabs entries).2 := by
  obtain ⟨hu, hn, hc, hp, hl⟩ := touched_fields s0 key
  rw [← hs] at hu hn hc hp hl
  rcases search_cases cfg fs s r key isabs entries with h | h | ⟨_, _, fp, name, f, u, _, h⟩
  · rw [h]
    exact ⟨hl, Or.inl ⟨hn, hp, hc⟩, fun _ _ => ⟨by rw [hs], hu⟩, fun t ht => by simp at ht⟩
  · rw [h]
    exact ⟨hl, Or.inl ⟨hn, hp, hc⟩, fun _ _ => ⟨by rw [hs], hu⟩, fun t ht => by simp at ht⟩
  · rw [h]; exact instantiate_effect cfg s0 s r key isabs fp name f u hs

theorem loadBody_effect (cfg : Cfg) (fs : FS) (s : LState) (r : Req) (key : Key) :
    Effect cfg s (loadBody cfg fs s r key).1 key (loadBody cfg fs s r key).2 := by
  obtain ⟨hu, hn, hc, hp, hl⟩ := touched_fields s key
  rcases loadBody_cases cfg fs s r key with ⟨t, hlook, _, h⟩ | ⟨_, ⟨_, h⟩ | ⟨entries, isabs, _, h⟩⟩
  · rw [h]
    refine ⟨hl, Or.inl ⟨hn, hp, hc⟩, fun e he => by simp at he, ?_⟩
    intro t' ht'
    simp only [Res.ok.injEq] at ht'
    subst ht'
    exact Or.inl ⟨hlook, rfl, hu, hn⟩
  · rw [h]
    exact ⟨hl, Or.inl ⟨hn, hp, hc⟩, fun _ _ => ⟨rfl, hu⟩, fun t ht => by simp at ht⟩
  · rw [h]; exact search_effect cfg fs s (touched s key) r key isabs entries rfl

/-- the same for `load`, which brackets the body with acquire / release -/
theorem load_effect (cfg : Cfg) (fs : FS) (s : LState) (r : Req) :
    Effect cfg s (load cfg fs s r).1 (resolve cfg.path.isEmpty r) (load cfg fs s r).2 := by
  let key := resolve cfg.path.isEmpty r
  have he := loadBody_effect cfg fs { s with lock := s.lock + 1 } r key
  have ht : touched { s with lock := s.lock + 1 } key = { touched s key with lock := s.lock + 1 } := by
    cases hh : alookup key s.cache.items <;> simp [touched, hh]
  obtain ⟨el, ec, ef, eo⟩ := he
  have h1 : (load cfg fs s r).1 =
      { (loadBody cfg fs { s with lock := s.lock + 1 } r key).1 with
        lock := (loadBody cfg fs { s with lock := s.lock + 1 } r key).1.lock - 1 } := rfl
  have h2 : (load cfg fs s r).2 = (loadBody cfg fs { s with lock := s.lock + 1 } r key).2 := rfl
  rw [h1, h2]
  refine ⟨?_, ?_, ?_, ?_⟩
  · simp [el]
  · simpa using ec
  · intro e he; have := ef e he; rw [ht] at this; simpa using this
  · intro t htt; have := eo t htt; rw [ht] at this; simpa using this

/-! ### the walk over the search path against its specification -/

theorem search_firstF (cfg : Cfg) (fs : FS) (s : LState) (r : Req) (key : Key) (isabs : Bool)
    (entries : List Entry) :
    match firstOnPathF fs r.fault key entries with
    | .nothing => search cfg fs s r key isabs entries = (s, .err .notFound)
    | .raised => search cfg fs s r key isabs entries = (s, .err .loadFunc)
    | .file fp name f => ∃ checks : Bool, search cfg fs s r key isabs entries =
        instantiate cfg s r key isabs fp name f (if checks then .mtime fp f.mtime else .never) := by
  induction entries with
  | nil => simp [firstOnPathF, search]
  | cons e rest ih =>
    unfold firstOnPathF search probe
    cases hs : serve r.fault e key with
    | skip => simpa using ih
    | raise => simp
    | «at» fp name checks =>
      simp only
      cases hf : fs (normpath fp) with
      | none => simpa using ih
      | some f => exact ⟨checks, rfl⟩

theorem load_by_firstF (cfg : Cfg) (fs : FS) (s : LState) (r : Req)
    (hno : alookup (resolve cfg.path.isEmpty r) s.cache.items = none ∨
      (cfg.autoReload = true ∧ stillCurrent fs s (resolve cfg.path.isEmpty r) = false)) :
    let key := resolve cfg.path.isEmpty r
    let res := (load cfg fs s r).2
    (searchPath cfg r key = none ∧ res = .err .noSearchPath) ∨
    ∃ entries isabs, searchPath cfg r key = some (entries, isabs) ∧
      match firstOnPathF fs r.fault key entries with
      | .nothing => res = .err .notFound
      | .raised => res = .err .loadFunc
      | .file fp name f =>
        (f.bad = true ∧ res = .err .syntaxError) ∨
        (f.bad = false ∧ cfg.hasCallback = true ∧ r.cbRaise = true ∧ res = .err .callback) ∨
        (f.bad = false ∧ res = .ok ⟨s.nextObj, fp, if isabs then fp else name, f.content, r.cls, r.enc⟩) := by
  intro key res
  let s0 : LState := { s with lock := s.lock + 1 }
  have h2 : res = (loadBody cfg fs s0 r key).2 := rfl
  have hn0 : (touched s0 key).nextObj = s.nextObj := (touched_fields s0 key).2.1
  rcases loadBody_cases cfg fs s0 r key with ⟨t', hl, hc, _⟩ | ⟨_, ⟨hsp, hb⟩ | ⟨entries, isabs, hsp, hb⟩⟩
  · exfalso
    rcases hno with hno | ⟨har, hcur⟩
    · have : alookup key s0.cache.items = none := hno
      rw [this] at hl; cases hl
    · rcases hc with hc | hc
      · rw [har] at hc; cases hc
      · have : stillCurrent fs s0 key = false := hcur
        rw [this] at hc; cases hc
  · left; rw [hb] at h2; exact ⟨hsp, h2⟩
  · right
    refine ⟨entries, isabs, hsp, ?_⟩
    have hsf := search_firstF cfg fs (touched s0 key) r key isabs entries
    rw [hb] at h2
    cases hfp : firstOnPathF fs r.fault key entries with
    | nothing => rw [hfp] at hsf; simp only at hsf ⊢; rw [hsf] at h2; exact h2
    | raised => rw [hfp] at hsf; simp only at hsf ⊢; rw [hsf] at h2; exact h2
    | file fp name f =>
      rw [hfp] at hsf
      simp only at hsf ⊢
      obtain ⟨u, hsf⟩ := hsf
      rw [hsf] at h2
      rcases instantiate_cases cfg (touched s0 key) r key isabs fp name f _ with ⟨hbad, hi⟩ | ⟨hbad, hcb, hr, hi⟩ | ⟨hbad, _, hi⟩
      · rw [hi] at h2; exact Or.inl ⟨hbad, h2⟩
      · rw [hi] at h2; exact Or.inr (Or.inl ⟨hbad, hcb, hr, h2⟩)
      · rw [hi] at h2
        refine Or.inr (Or.inr ⟨hbad, ?_⟩)
        rw [h2, hn0]

/-! ### the cache stays a bounded map of distinct keys -/

theorem touched_awf {s : LState} (key : Key) (h : AWf s.cache) : AWf (touched s key).cache := by
  unfold touched
  cases hl : alookup key s.cache.items with
  | none => exact h
  | some v => exact (astep_awf h (.get key)).1

theorem load_awf (cfg : Cfg) (fs : FS) (s : LState) (r : Req) (h : AWf s.cache) :
    AWf (load cfg fs s r).1.cache := by
  have he := load_effect cfg fs s r
  have ht := touched_awf (resolve cfg.path.isEmpty r) h
  cases hres : (load cfg fs s r).2 with
  | err e => rw [(he.failed e hres).1]; exact ht
  | ok t =>
    rcases he.ok t hres with ⟨_, hc, _, _⟩ | ⟨_, _, hc, _⟩
    · rw [hc]; exact ht
    · rw [hc]; exact (astep_awf ht (.set _ t)).1

theorem hstep_awf (cfg : Cfg) (w : World) (op : HOp) (h : AWf w.ls.cache) :
    AWf (hstep cfg w op).1.ls.cache := by
  cases op with
  | write p c b => exact h
  | touch p =>
    simp only [hstep]
    cases w.fs p with
    | none => exact h
    | some f => exact h
  | delete p => exact h
  | load r => exact load_awf cfg w.fs w.ls r h

theorem hrun_awf (cfg : Cfg) (w : World) (ops : List HOp) (h : AWf w.ls.cache) :
    AWf (hrun cfg w ops).1.ls.cache := by
  induction ops generalizing w with
  | nil => exact h
  | cons op ops ih => exact ih (hstep cfg w op).1 (hstep_awf cfg w op h)

/-! ### a load touches the entry of its own key only -/

theorem alookup_take {K V : Type} [DecidableEq K] {l : List (K × V)} {k : K} {v : V} (n : Nat)
    (h : alookup k (l.take n) = some v) : alookup k l = some v := by
  induction l generalizing n with
  | nil => simp [alookup] at h
  | cons p r ih =>
    cases n with
    | zero => simp [alookup] at h
    | succ n =>
      obtain ⟨k', v'⟩ := p
      simp only [List.take_succ_cons, alookup] at h ⊢
      by_cases hk : k' = k
      · simpa [hk] using h
      · simp only [hk, ↓reduceIte] at h ⊢
        exact ih n h

theorem alookup_touched_ne (s : LState) {key k : Key} (hk : k ≠ key) :
    alookup k (touched s key).cache.items = alookup k s.cache.items := by
  unfold touched
  cases hl : alookup key s.cache.items with
  | none => rfl
  | some v =>
    simp only [astep, hl]
    have : key ≠ k := fun e => hk e.symm
    simp only [alookup, this, ↓reduceIte]
    exact Genshi.Loader.alookup_aerase_ne hk

theorem alookup_set_ne {a : ALru Key Tmpl} {key k : Key} {t v : Tmpl} (hk : k ≠ key)
    (h : alookup k (astep a (.set key t)).1.items = some v) : alookup k a.items = some v := by
  simp only [astep] at h
  have h1 := alookup_take _ h
  have : key ≠ k := fun e => hk e.symm
  simp only [alookup, this, ↓reduceIte] at h1
  rwa [Genshi.Loader.alookup_aerase_ne hk] at h1

theorem load_other_key (cfg : Cfg) (fs : FS) (s : LState) (r : Req) (k : Key) (t : Tmpl)
    (hk : k ≠ resolve cfg.path.isEmpty r)
    (h : alookup k (load cfg fs s r).1.cache.items = some t) : alookup k s.cache.items = some t := by
  have he := load_effect cfg fs s r
  cases hres : (load cfg fs s r).2 with
  | err e =>
    rw [(he.failed e hres).1, alookup_touched_ne s hk] at h; exact h
  | ok t' =>
    rcases he.ok t' hres with ⟨_, hc, _, _⟩ | ⟨_, _, hc, _⟩
    · rw [hc, alookup_touched_ne s hk] at h; exact h
    · rw [hc] at h
      have := alookup_set_ne hk h
      rwa [alookup_touched_ne s hk] at this

/-! ### a file rewritten in place while it is read -/

/-- a parse stores the up-to-date value the item delivered: `None`, or the time the file had -/
theorem load_parsed_utd (cfg : Cfg) (fs : FS) (s : LState) (r : Req) (t : Tmpl)
    (hno : alookup (resolve cfg.path.isEmpty r) s.cache.items = none ∨
      (cfg.autoReload = true ∧ stillCurrent fs s (resolve cfg.path.isEmpty r) = false))
    (hres : (load cfg fs s r).2 = .ok t) :
    ∃ entries isabs fp name f, searchPath cfg r (resolve cfg.path.isEmpty r) = some (entries, isabs) ∧
      firstOnPathF fs r.fault (resolve cfg.path.isEmpty r) entries = .file fp name f ∧
      t.content = f.content ∧
      ((load cfg fs s r).1.utd (resolve cfg.path.isEmpty r) = some .never ∨
       (load cfg fs s r).1.utd (resolve cfg.path.isEmpty r) = some (.mtime fp f.mtime)) := by
  let key := resolve cfg.path.isEmpty r
  let s0 : LState := { s with lock := s.lock + 1 }
  have h1 : (load cfg fs s r).1.utd = (loadBody cfg fs s0 r key).1.utd := rfl
  have h2 : (load cfg fs s r).2 = (loadBody cfg fs s0 r key).2 := rfl
  rw [h2] at hres
  rcases loadBody_cases cfg fs s0 r key with ⟨t', hl, hc, _⟩ | ⟨_, ⟨hsp, hb⟩ | ⟨entries, isabs, hsp, hb⟩⟩
  · exfalso
    rcases hno with hno | ⟨har, hcur⟩
    · have : alookup key s0.cache.items = none := hno
      rw [this] at hl; cases hl
    · rcases hc with hc | hc
      · rw [har] at hc; cases hc
      · have : stillCurrent fs s0 key = false := hcur
        rw [this] at hc; cases hc
  · rw [hb] at hres; cases hres
  · have hsf := search_firstF cfg fs (touched s0 key) r key isabs entries
    rw [hb] at hres
    cases hfp : firstOnPathF fs r.fault key entries with
    | nothing => rw [hfp] at hsf; simp only at hsf; rw [hsf] at hres; cases hres
    | raised => rw [hfp] at hsf; simp only at hsf; rw [hsf] at hres; cases hres
    | file fp name f =>
      rw [hfp] at hsf
      simp only at hsf
      obtain ⟨checks, hsf⟩ := hsf
      rw [hsf] at hres
      rw [h1, hb, hsf]
      rcases instantiate_cases cfg (touched s0 key) r key isabs fp name f
          (if checks then .mtime fp f.mtime else .never) with ⟨_, hi⟩ | ⟨_, _, _, hi⟩ | ⟨_, _, hi⟩
      · rw [hi] at hres; cases hres
      · rw [hi] at hres; cases hres
      · rw [hi] at hres ⊢
        simp only [Res.ok.injEq] at hres
        refine ⟨entries, isabs, fp, name, f, hsp, hfp, by rw [← hres], ?_⟩
        cases checks with
        | false => left; simp [utdSet, key]
        | true => right; simp [utdSet, key]

/-- changing the content (not the time) of the file found first does not change the walk -/
theorem firstOnPathF_doctored (fs : FS) (fault : Fault) (key : Key) (entries : List Entry)
    (fp name : Str) (f f' : File) (h : firstOnPathF fs fault key entries = .file fp name f) :
    fs (normpath fp) = some f ∧
    firstOnPathF (fsSet fs (normpath fp) (some f')) fault key entries = .file fp name f' := by
  induction entries with
  | nil => simp [firstOnPathF] at h
  | cons e rest ih =>
    unfold firstOnPathF at h ⊢
    cases hs : serve fault e key with
    | skip => rw [hs] at h; simp only at h ⊢; exact ih h
    | raise => rw [hs] at h; simp at h
    | «at» fp' name' checks =>
      rw [hs] at h
      simp only at h ⊢
      cases hf : fs (normpath fp') with
      | none =>
        rw [hf] at h
        simp only at h
        obtain ⟨hfs, hrest⟩ := ih h
        have hne : normpath fp' ≠ normpath fp := by
          intro e; rw [e, hfs] at hf; cases hf
        refine ⟨hfs, ?_⟩
        simp only [fsSet, hne, ↓reduceIte, hf]
        exact hrest
      | some f0 =>
        rw [hf] at h
        simp only [Found.file.injEq] at h
        obtain ⟨rfl, rfl, rfl⟩ := h
        exact ⟨hf, by simp [fsSet]⟩

/-- … nor any up-to-date check -/
theorem stillCurrent_doctored (fs : FS) (s : LState) (key : Key) (p : Str) (f : File) (c : Nat) (b : Bool)
    (hf : fs p = some f) :
    stillCurrent (fsSet fs p (some ⟨c, b, f.mtime⟩)) s key = stillCurrent fs s key := by
  unfold stillCurrent
  cases s.utd key with
  | none => rfl
  | some u =>
    cases u with
    | never => rfl
    | mtime fp m =>
      simp only
      by_cases hp : normpath fp = p
      · simp [fsSet, hp, hf]
      · simp [fsSet, hp]

/-- what `wouldOpen = some p` says -/
theorem wouldOpen_some {cfg : Cfg} {fs : FS} {s : LState} {r : Req} {p : Str}
    (h : wouldOpen cfg fs s r = some p) :
    (alookup (resolve cfg.path.isEmpty r) s.cache.items = none ∨
      (cfg.autoReload = true ∧ stillCurrent fs s (resolve cfg.path.isEmpty r) = false)) ∧
    ∃ entries isabs fp name f, searchPath cfg r (resolve cfg.path.isEmpty r) = some (entries, isabs) ∧
      firstOnPathF fs r.fault (resolve cfg.path.isEmpty r) entries = .file fp name f ∧ p = normpath fp := by
  unfold wouldOpen at h
  simp only at h
  split at h
  · cases h
  · rename_i hserved
    refine ⟨?_, ?_⟩
    · cases hl : alookup (resolve cfg.path.isEmpty r) s.cache.items with
      | none => left; rfl
      | some v =>
        right
        simp only [hl, Option.isSome_some, Bool.true_and, Bool.or_eq_true, Bool.not_eq_true', not_or,
          Bool.not_eq_false, Bool.not_eq_true] at hserved
        exact ⟨hserved.1, hserved.2⟩
    · cases hsp : searchPath cfg r (resolve cfg.path.isEmpty r) with
      | none => simp [hsp] at h
      | some pr =>
        obtain ⟨entries, isabs⟩ := pr
        simp only [hsp] at h
        cases hfp : firstOnPathF fs r.fault (resolve cfg.path.isEmpty r) entries with
        | nothing => simp [hfp] at h
        | raised => simp [hfp] at h
        | file fp name f =>
          simp only [hfp, Option.some.injEq] at h
          exact ⟨entries, isabs, fp, name, f, rfl, hfp, h.symm⟩

/-- **content new / time old is noticed**: a load during which the file it opens is rewritten in
    place parses the new content, and with automatic reloading the entry it stores is not
    current afterwards — the next load of the key walks the search path again -/
theorem inplace_noticed (cfg : Cfg) (w : World) (r : Req) (c : Nat) (b : Bool) (p : Str) (f : File)
    (t : Tmpl) (hopen : wouldOpen cfg w.fs w.ls r = some p) (hf : w.fs p = some f)
    (hfresh : f.mtime < w.clock)
    (hres : (hstepW cfg w (.loadRewrite r c b)).2 = some (.ok t)) :
    t.content = c ∧ (hstepW cfg w (.loadRewrite r c b)).1.fs p = some ⟨c, b, w.clock⟩ ∧
    stillCurrent (hstepW cfg w (.loadRewrite r c b)).1.fs (hstepW cfg w (.loadRewrite r c b)).1.ls
      (resolve cfg.path.isEmpty r) = false := by
  obtain ⟨hno, entries, isabs, fp, name, f0, hsp, hfp, hp⟩ := wouldOpen_some hopen
  let fsD : FS := fsSet w.fs p (some ⟨c, b, f.mtime⟩)
  have hstep : hstepW cfg w (.loadRewrite r c b) =
      ({ fs := fsSet w.fs p (some ⟨c, b, w.clock⟩), clock := w.clock + 1, ls := (load cfg fsD w.ls r).1 },
        some (load cfg fsD w.ls r).2) := by
    simp only [hstepW, hopen, hf]
    rfl
  rw [hstep] at hres ⊢
  simp only [Option.some.injEq] at hres
  obtain ⟨hfs0, hfpD⟩ := firstOnPathF_doctored w.fs r.fault _ entries fp name f0 ⟨c, b, f.mtime⟩ hfp
  rw [← hp] at hfs0 hfpD
  have hff : f0 = f := by rw [hf] at hfs0; exact (Option.some.inj hfs0).symm
  have hnoD : alookup (resolve cfg.path.isEmpty r) w.ls.cache.items = none ∨
      (cfg.autoReload = true ∧ stillCurrent fsD w.ls (resolve cfg.path.isEmpty r) = false) := by
    rcases hno with h | ⟨h1, h2⟩
    · exact Or.inl h
    · exact Or.inr ⟨h1, by rw [stillCurrent_doctored w.fs w.ls _ p f c b hf]; exact h2⟩
  obtain ⟨entries', isabs', fp', name', f', hsp', hfp', hcont, hutd⟩ := load_parsed_utd cfg fsD w.ls r t hnoD hres
  rw [hsp] at hsp'
  simp only [Option.some.injEq, Prod.mk.injEq] at hsp'
  obtain ⟨rfl, rfl⟩ := hsp'
  rw [hfpD] at hfp'
  simp only [Found.file.injEq] at hfp'
  obtain ⟨rfl, rfl, rfl⟩ := hfp'
  refine ⟨hcont, by simp [fsSet], ?_⟩
  unfold stillCurrent
  rcases hutd with hu | hu
  · simp only [hu]
  · simp only [hu, ← hp, fsSet, ↓reduceIte]
    have : w.clock ≠ f.mtime := by omega
    simpa using this

end Genshi.LoaderP

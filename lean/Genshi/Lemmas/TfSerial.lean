/-
  C20 — well-nestedness of the serializer-internal filters of `genshi/output.py`
  (EmptyTagFilter, WhitespaceFilter, NamespaceFlattener, DocTypeInserter), stated over
  the shared `Event` vocabulary of `Model/Core.lean`.

  The filters work on the event type `XEv ν` of `Model/Output.lean`, which has the
  extra kind EMPTY.  `expandQ` / `expandF` map such events back to `Event`s (an EMPTY
  becomes START followed by END), so that `balance` / `WellNested` apply.
-/
import Genshi.Lemmas.Core
import Genshi.Lemmas.OutputTree
import Genshi.Lemmas.OutputTreeNs
namespace Genshi.Tf.Serial
open Genshi Genshi.Output

/-! ### 1. adapters into the shared vocabulary -/

/-- an event before the NamespaceFlattener as shared events: EMPTY is START + END -/
def expandQ : QEv → List Event
  | .start t a => [.start t a]
  | .empty t a => [.start t a, .end_ t]
  | .end_ t => [.end_ t]
  | .text s f => [.text s f]
  | .comment s => [.comment s]
  | .pi t d => [.pi t d]
  | .doctype n p s => [.doctype n p s]
  | .xmlDecl v e s => [.xmlDecl v e s]
  | .startNs p u => [.startNs p u]
  | .endNs p => [.endNs p]
  | .startCdata => [.startCdata]
  | .endCdata => [.endCdata]

def toStreamQ (es : List QEv) : Stream := es.flatMap expandQ

/-- a flattened (prefixed) name as a `QName` without namespace -/
def qn (n : Str) : QName := ⟨[], n⟩

def qnAttrs (a : FAttrs) : AttrList := a.map fun p => (qn p.1, p.2)

/-- an event after the NamespaceFlattener as shared events -/
def expandF : FEv → List Event
  | .start t a => [.start (qn t) (qnAttrs a)]
  | .empty t a => [.start (qn t) (qnAttrs a), .end_ (qn t)]
  | .end_ t => [.end_ (qn t)]
  | .text s f => [.text s f]
  | .comment s => [.comment s]
  | .pi t d => [.pi t d]
  | .doctype n p s => [.doctype n p s]
  | .xmlDecl v e s => [.xmlDecl v e s]
  | .startNs p u => [.startNs p u]
  | .endNs p => [.endNs p]
  | .startCdata => [.startCdata]
  | .endCdata => [.endCdata]

def toStreamF (es : List FEv) : Stream := es.flatMap expandF

@[simp] theorem toStreamQ_nil : toStreamQ [] = [] := rfl
@[simp] theorem toStreamQ_cons (e : QEv) (es : List QEv) :
    toStreamQ (e :: es) = expandQ e ++ toStreamQ es := by simp [toStreamQ]
@[simp] theorem toStreamQ_append (a b : List QEv) :
    toStreamQ (a ++ b) = toStreamQ a ++ toStreamQ b := by simp [toStreamQ]
@[simp] theorem toStreamF_nil : toStreamF [] = [] := rfl
@[simp] theorem toStreamF_cons (e : FEv) (es : List FEv) :
    toStreamF (e :: es) = expandF e ++ toStreamF es := by simp [toStreamF]
@[simp] theorem toStreamF_append (a b : List FEv) :
    toStreamF (a ++ b) = toStreamF a ++ toStreamF b := by simp [toStreamF]

/-- the adapter is a left inverse of `ofEvent` -/
theorem toStreamQ_ofEvent (s : Stream) : toStreamQ (s.map ofEvent) = s := by
  induction s with
  | nil => rfl
  | cons e es ih => cases e <;> simp [ofEvent, expandQ, ih]

/-- `ofEvent` of an event that is neither START nor END expands to that event -/
theorem expandQ_ofEvent (e : Event) : expandQ (ofEvent e) = [e] := by
  cases e <;> rfl

/-! small facts about `balance` -/

theorem balance_start (st : List QName) (t : QName) (a : AttrList) (es : Stream) :
    balance st (.start t a :: es) = balance (t :: st) es := by
  cases st <;> simp [balance]

theorem balance_end_same (st : List QName) (t : QName) (es : Stream) :
    balance (t :: st) (.end_ t :: es) = balance st es := by
  simp [balance]

/-- an EMPTY (START immediately followed by its END) does not affect nesting -/
theorem balance_empty (st : List QName) (t : QName) (a : AttrList) (es : Stream) :
    balance st (.start t a :: .end_ t :: es) = balance st es := by
  rw [balance_start, balance_end_same]

section
variable (st : List QName) (es : Stream)
@[simp] theorem balance_text (x : Str) (f : Bool) : balance st (.text x f :: es) = balance st es :=
  balance_skip _ rfl st es
@[simp] theorem balance_comment (x : Str) : balance st (.comment x :: es) = balance st es :=
  balance_skip _ rfl st es
@[simp] theorem balance_pi (x y : Str) : balance st (.pi x y :: es) = balance st es :=
  balance_skip _ rfl st es
@[simp] theorem balance_doctype (x : Str) (y z : Option Str) :
    balance st (.doctype x y z :: es) = balance st es := balance_skip _ rfl st es
@[simp] theorem balance_xmlDecl (x : Str) (y : Option Str) (z : Int) :
    balance st (.xmlDecl x y z :: es) = balance st es := balance_skip _ rfl st es
@[simp] theorem balance_startNs (x y : Str) : balance st (.startNs x y :: es) = balance st es :=
  balance_skip _ rfl st es
@[simp] theorem balance_endNs (x : Str) : balance st (.endNs x :: es) = balance st es :=
  balance_skip _ rfl st es
@[simp] theorem balance_startCdata : balance st (.startCdata :: es) = balance st es :=
  balance_skip _ rfl st es
@[simp] theorem balance_endCdata : balance st (.endCdata :: es) = balance st es :=
  balance_skip _ rfl st es
end

/-! ### 2. EmptyTagFilter -/

/-- the stack the input is read on: the held-back START is already open there -/
def pendStack (p : Option (QName × AttrList)) (st : List QName) : List QName :=
  match p with
  | some (t, _) => t :: st
  | none => st

/-- does the filter end with a START held back (which it then drops)? -/
def endsPending : Option (QName × AttrList) → Stream → Bool
  | p, [] => p.isSome
  | _, .start t a :: es => endsPending (some (t, a)) es
  | _, _ :: es => endsPending none es

/-- `r` without its innermost element iff `b` -/
def dropTop (b : Bool) (r : List QName) : List QName :=
  match b with
  | true => r.tail
  | false => r

theorem emptyTag_some_other (t : QName) (a : AttrList) (e : Event) (es : Stream)
    (h : e.isStartEnd = false) :
    emptyTag (some (t, a)) (e :: es) = .start t a :: ofEvent e :: emptyTag none es := by
  cases e <;> simp_all [Event.isStartEnd, emptyTag]

theorem endsPending_other (p : Option (QName × AttrList)) (e : Event) (es : Stream)
    (h : e.isStartEnd = false) : endsPending p (e :: es) = endsPending none es := by
  cases e <;> simp_all [Event.isStartEnd, endsPending]

/-- EmptyTagFilter, every input and every state: if the input balances to `r`, the expansion of
    the output balances to `r` as well — minus the innermost open element when the stream ends
    in a START (the real filter never yields that event). -/
theorem emptytag_balance : ∀ (s : Stream) (p : Option (QName × AttrList)) (st r : List QName),
    balance (pendStack p st) s = some r →
    balance st (toStreamQ (emptyTag p s)) = some (dropTop (endsPending p s) r) := by
  intro s
  induction s with
  | nil =>
    intro p st r h
    cases p with
    | none => simpa [pendStack, balance, emptyTag, endsPending, dropTop] using h
    | some ta =>
      obtain ⟨t, a⟩ := ta
      simp only [pendStack, balance, Option.some.injEq] at h
      subst h
      simp [emptyTag, endsPending, balance, dropTop]
  | cons e es ih =>
    intro p st r h
    cases p with
    | none =>
      simp only [pendStack] at h
      cases e with
      | start t a =>
        rw [balance_start] at h
        have := ih (some (t, a)) st r h
        simp only [emptyTag, endsPending]
        exact this
      | end_ t =>
        cases st with
        | nil => simp [balance] at h
        | cons t' st' =>
          simp only [balance] at h
          by_cases ht : t = t'
          · subst ht
            simp only [↓reduceIte] at h
            have := ih none st' r h
            simp only [emptyTag, endsPending, ofEvent, toStreamQ_cons, expandQ, List.singleton_append]
            rw [balance_end_same]
            exact this
          · simp [ht] at h
      | _ =>
        rw [balance_skip _ rfl] at h
        have := ih none st r h
        rw [emptyTag_none_nonstart _ _ rfl, endsPending_other _ _ _ rfl, toStreamQ_cons,
          expandQ_ofEvent, List.singleton_append, balance_skip _ rfl]
        exact this
    | some ta =>
      obtain ⟨t, a⟩ := ta
      simp only [pendStack] at h
      cases e with
      | start t' a' =>
        rw [balance_start] at h
        have := ih (some (t', a')) (t :: st) r h
        simp only [emptyTag, endsPending, toStreamQ_cons, expandQ, List.singleton_append]
        rw [balance_start]
        exact this
      | end_ t' =>
        simp only [balance] at h
        by_cases ht : t' = t
        · subst ht
          simp only [↓reduceIte] at h
          have := ih none st r h
          simp only [emptyTag, endsPending, toStreamQ_cons, expandQ, List.cons_append, List.nil_append]
          rw [balance_empty]
          exact this
        · simp [ht] at h
      | _ =>
        rw [balance_skip _ rfl] at h
        have := ih none (t :: st) r h
        rw [emptyTag_some_other _ _ _ _ rfl, endsPending_other _ _ _ rfl, toStreamQ_cons, toStreamQ_cons,
          expandQ_ofEvent]
        simp only [expandQ, List.singleton_append]
        rw [balance_start, balance_skip _ rfl]
        exact this

/-- the generalisation used for the induction, in the suggested form -/
theorem emptytag_closes (s : Stream) (st : List QName) (p : Option (QName × AttrList))
    (h : balance (pendStack p st) s = some []) :
    balance st (toStreamQ (emptyTag p s)) = some [] := by
  have := emptytag_balance s p st [] h
  cases hb : endsPending p s <;> simpa [hb, dropTop] using this

/-- EmptyTagFilter preserves well-nestedness, for EVERY well-nested stream -/
theorem emptytag_wellnested : ∀ s : Stream, WellNested s → WellNested (toStreamQ (emptyTag none s)) := by
  intro s h
  exact emptytag_closes s [] none h

/-- on a well-nested input the expansion of the output has the same balance as the input -/
theorem emptytag_balance_eq (s : Stream) (h : WellNested s) :
    balance [] (toStreamQ (emptyTag none s)) = balance [] s := by
  rw [emptytag_wellnested s h, h]

/-- on a forest: the same from the owners' `emptyTag_flattenList` -/
theorem emptytag_forest_wellnested (ns : List Node) (h : okList ns = true) :
    WellNested (toStreamQ (forestQ ns)) := by
  rw [← emptyTag_flattenList ns h]
  exact emptytag_wellnested _ (wellNested_flattenList ns h)

/-! ### 3. DocTypeInserter -/

/-- DocTypeInserter only inserts a DOCTYPE event: the balance is unchanged on every stack -/
theorem doctype_inserter_balance (d : Str × Option Str × Option Str) (es : List FEv) (st : List QName) :
    balance st (toStreamF (docTypeInsert d es)) = balance st (toStreamF es) := by
  cases es with
  | nil => simp [docTypeInsert, expandF]
  | cons e rest =>
    cases e <;> simp [docTypeInsert, expandF]

theorem doctype_inserter_wellnested (d : Str × Option Str × Option Str) (es : List FEv) :
    WellNested (toStreamF es) → WellNested (toStreamF (docTypeInsert d es)) := by
  unfold WellNested
  rw [doctype_inserter_balance]
  exact id

theorem doctype_inserter_wellnested_iff (d : Str × Option Str × Option Str) (es : List FEv) :
    WellNested (toStreamF (docTypeInsert d es)) ↔ WellNested (toStreamF es) := by
  unfold WellNested
  rw [doctype_inserter_balance]

/-! ### 4. WhitespaceFilter -/

/-- a flush emits at most one event, a TEXT: nesting is not affected (no hypothesis on the state) -/
theorem wsFlush_balance (norm : Bool → Str → Str) (st : WsSt) (st0 : List QName) (rest : Stream) :
    balance st0 (toStreamQ (wsFlushG norm st) ++ rest) = balance st0 rest := by
  unfold wsFlushG
  by_cases h : st.textbuf.isEmpty = true
  · simp [h]
  · simp [h, expandQ]

/-- every event of a flush is a TEXT -/
theorem wsFlush_text (norm : Bool → Str → Str) (st : WsSt) :
    ∀ e ∈ wsFlushG norm st, ∃ s f, e = .text s f := by
  unfold wsFlushG
  by_cases h : st.textbuf.isEmpty = true
  · simp [h]
  · intro e he
    simp only [h, Bool.false_eq_true, ↓reduceIte, List.mem_singleton] at he
    exact ⟨_, _, he⟩

/-- WhitespaceFilter, every normalisation / configuration / state / input / stack: the output has
    the balance of the input (only TEXT events are merged, rewritten or dropped) -/
theorem whitespace_filter_balance (norm : Bool → Str → Str) (cfg : WsCfg) :
    ∀ (es : List QEv) (st : WsSt) (st0 : List QName),
      balance st0 (toStreamQ (wsFilterG norm cfg st es)) = balance st0 (toStreamQ es) := by
  intro es
  induction es with
  | nil =>
    intro st st0
    have := wsFlush_balance norm st st0 []
    simpa [wsFilterG] using this
  | cons e rest ih =>
    intro st st0
    have other : ∀ ev : QEv, (∀ s f, ev ≠ .text s f) →
        balance st0 (toStreamQ (wsFlushG norm st ++ ev ::
          wsFilterG norm cfg (wsUpdate cfg { st with textbuf := [] } ev) rest)) =
        balance st0 (toStreamQ (ev :: rest)) := by
      intro ev _
      simp only [toStreamQ_append, toStreamQ_cons]
      rw [wsFlush_balance, balance_append, balance_append]
      congr 1
      funext st'
      exact ih _ st'
    cases e with
    | text s f =>
      simp only [wsFilterG, toStreamQ_cons, expandQ, List.singleton_append]
      rw [balance_skip _ rfl, ih]
    | start t a => simpa only [wsFilterG] using other _ (by intro s f h; cases h)
    | empty t a => simpa only [wsFilterG] using other _ (by intro s f h; cases h)
    | end_ t => simpa only [wsFilterG] using other _ (by intro s f h; cases h)
    | comment s => simpa only [wsFilterG] using other _ (by intro s f h; cases h)
    | pi t d => simpa only [wsFilterG] using other _ (by intro s f h; cases h)
    | doctype n p q => simpa only [wsFilterG] using other _ (by intro s f h; cases h)
    | xmlDecl v e q => simpa only [wsFilterG] using other _ (by intro s f h; cases h)
    | startNs p u => simpa only [wsFilterG] using other _ (by intro s f h; cases h)
    | endNs p => simpa only [wsFilterG] using other _ (by intro s f h; cases h)
    | startCdata => simpa only [wsFilterG] using other _ (by intro s f h; cases h)
    | endCdata => simpa only [wsFilterG] using other _ (by intro s f h; cases h)

theorem whitespace_filter_wellnested (norm : Bool → Str → Str) (cfg : WsCfg) (st : WsSt) (es : List QEv) :
    WellNested (toStreamQ (wsFilterG norm cfg st es)) ↔ WellNested (toStreamQ es) := by
  unfold WellNested
  rw [whitespace_filter_balance]

/-- the real filter (`norm = stdNorm`) from its initial state -/
theorem wsFilter_wellnested (cfg : WsCfg) (es : List QEv) (h : WellNested (toStreamQ es)) :
    WellNested (toStreamQ (wsFilter cfg {} es)) :=
  (whitespace_filter_wellnested stdNorm cfg {} es).2 h

/-- is the event something else than TEXT? -/
def notText : QEv → Bool
  | .text _ _ => false
  | _ => true

/-- the START / END / EMPTY skeleton — indeed everything but TEXT — is passed on unchanged and in
    order -/
theorem whitespace_filter_skeleton (norm : Bool → Str → Str) (cfg : WsCfg) :
    ∀ (es : List QEv) (st : WsSt),
      (wsFilterG norm cfg st es).filter notText = es.filter notText := by
  have flush : ∀ st : WsSt, (wsFlushG norm st).filter notText = [] := by
    intro st
    rw [List.filter_eq_nil_iff]
    intro e he
    obtain ⟨s, f, rfl⟩ := wsFlush_text norm st e he
    simp [notText]
  intro es
  induction es with
  | nil => intro st; simpa [wsFilterG] using flush st
  | cons e rest ih =>
    intro st
    cases e with
    | text s f =>
      simp only [wsFilterG]
      rw [List.filter_cons_of_neg (by simp [notText]), ih]
    | _ =>
      simp only [wsFilterG, List.filter_append, flush, List.nil_append]
      rw [List.filter_cons_of_pos rfl, List.filter_cons_of_pos rfl, ih]

/-! ### 5. NamespaceFlattener (partial)

  The full statement

      ∀ (c : Bool) (st : FlatSt) (es : List QEv) (out : List FEv),
        WellNested (toStreamQ es) → flatten c st es = some out → WellNested (toStreamF out)

  is not proved here for C08/C09's lite model `Output.flatten` (it answers `none` outside its domain);
  for C02's total model of the same filter (`Genshi.Xml.flatRun`) the statement IS proved, full strength,
  in `Lemmas/TfSerialNs.lean` (`ns_flattener_wellnested`: the filter keeps the open elements on a stack,
  so the name written for an END is the name written for its START).    What is proved: on the domain of the
  owners' theorems `filtered_forest` (flattenings of forests without namespaces) and
  `filtered_forestU` (forests all of whose elements are in one namespace `u`, no namespace
  events) the output of the whole filter chain (EmptyTagFilter, NamespaceFlattener; no
  whitespace filter, no doctype option) expands to a well-nested stream.  Missing: input streams
  that are not flattenings of such forests (several namespaces, prefixed names, explicit
  START_NS/END_NS events and their placement), and the `cache = true` flattener.
-/

theorem leafF_balance (e : Event) (st : List QName) (rest : Stream) :
    balance st (toStreamF (leafF e).toList ++ rest) = balance st rest := by
  cases e <;> simp [leafF, expandF]

mutual
  theorem treeF_balance : ∀ (n : Node) (st : List QName) (rest : Stream),
      balance st (toStreamF (treeF n) ++ rest) = balance st rest
    | .elem t a ks, st, rest => by
        cases ks with
        | nil => simp [treeF, expandF, balance_empty]
        | cons k ks' =>
          simp only [treeF, List.isEmpty_cons, Bool.false_eq_true, ↓reduceIte, toStreamF_cons,
            toStreamF_append, expandF, List.cons_append, List.append_assoc,
            toStreamF_nil, List.append_nil, List.nil_append]
          rw [balance_start, forestF_balance (k :: ks') (qn t.loc :: st) _, balance_end_same]
    | .leaf e, st, rest => by
        simp only [treeF]
        exact leafF_balance e st rest
  theorem forestF_balance : ∀ (ns : List Node) (st : List QName) (rest : Stream),
      balance st (toStreamF (forestF ns) ++ rest) = balance st rest
    | [], st, rest => by simp [forestF]
    | n :: ns, st, rest => by
        simp only [forestF, toStreamF_append, List.append_assoc]
        rw [treeF_balance n st _, forestF_balance ns st rest]
end

mutual
  theorem treeFu_balance (u : Str) : ∀ (n : Node) (sc : Bool) (st : List QName) (rest : Stream),
      balance st (toStreamF (treeFu u sc n) ++ rest) = balance st rest
    | .elem t a ks, sc, st, rest => by
        cases ks with
        | nil => simp [treeFu, expandF, balance_empty]
        | cons k ks' =>
          simp only [treeFu, List.isEmpty_cons, Bool.false_eq_true, ↓reduceIte, toStreamF_cons,
            toStreamF_append, expandF, List.cons_append, List.append_assoc,
            toStreamF_nil, List.append_nil, List.nil_append]
          rw [balance_start, forestFu_balance u (k :: ks') true (qn t.loc :: st) _, balance_end_same]
    | .leaf e, sc, st, rest => by
        simp only [treeFu]
        exact leafF_balance e st rest
  theorem forestFu_balance (u : Str) : ∀ (ns : List Node) (sc : Bool) (st : List QName) (rest : Stream),
      balance st (toStreamF (forestFu u sc ns) ++ rest) = balance st rest
    | [], sc, st, rest => by simp [forestFu]
    | n :: ns, sc, st, rest => by
        simp only [forestFu, toStreamF_append, List.append_assoc]
        rw [treeFu_balance u n sc st _, forestFu_balance u ns sc st rest]
end

/-- the explicit output forest of `filtered_forest` is well nested (no hypothesis needed) -/
theorem forestF_wellnested (ns : List Node) : WellNested (toStreamF (forestF ns)) := by
  have := forestF_balance ns [] []
  simpa [WellNested, balance] using this

theorem forestFu_wellnested (u : Str) (sc : Bool) (ns : List Node) :
    WellNested (toStreamF (forestFu u sc ns)) := by
  have := forestFu_balance u ns sc [] []
  simpa [WellNested, balance] using this

/-- NamespaceFlattener (behind EmptyTagFilter) on the flattening of a namespace-free forest: the
    filter chain delivers a stream, and its expansion is well nested -/
theorem ns_flattener_wellnested_partial (m : Method) (dropd : Bool) (ns : List Node)
    (hok : okList ns = true) (hns : forestNsFree ns = true) :
    ∃ out, filtered m { strip := false, cache := false, doctype := none, dropXmlDecl := dropd }
        (flattenList ns) = some out ∧ WellNested (toStreamF out) :=
  ⟨forestF ns, filtered_forest m false dropd ns hok hns, forestF_wellnested ns⟩

/-- the same on a forest all of whose elements are in one namespace `u` -/
theorem ns_flattener_wellnested_partialU (m : Method) (dropd : Bool) (u : Str) (hu : u ≠ xmlNs)
    (ns : List Node) (hok : okList ns = true) (hns : forestUniformNs u ns = true) :
    ∃ out, filtered m { strip := false, cache := false, doctype := none, dropXmlDecl := dropd }
        (flattenList ns) = some out ∧ WellNested (toStreamF out) :=
  ⟨forestFu u false ns, filtered_forestU m dropd u hu ns hok hns, forestFu_wellnested u false ns⟩

/-- with a doctype option the DocTypeInserter runs behind the flattener: still well nested -/
theorem ns_flattener_doctype_wellnested_partial (d : Str × Option Str × Option Str) (ns : List Node) :
    WellNested (toStreamF (docTypeInsert d (forestF ns))) :=
  doctype_inserter_wellnested d _ (forestF_wellnested ns)

/-! ### 6. non-vacuity -/

section Examples

private def tA : QName := ⟨[], ['a']⟩
private def tB : QName := ⟨[], ['b']⟩
private def tC : QName := ⟨['u'], ['c']⟩

/-- `<a>x<b/><c><b>y</b></c></a>`: nested elements, one of them childless -/
private def sample : Stream :=
  [.start tA [], .text ['x'] false, .start tB [(tA, ['v'])], .end_ tB,
   .start tC [], .start tB [], .text ['y'] false, .end_ tB, .end_ tC, .end_ tA]

example : WellNested sample := by decide

/-- EmptyTagFilter makes an EMPTY out of `<b></b>` and keeps the nested rest -/
example : emptyTag none sample =
    [.start tA [], .text ['x'] false, .empty tB [(tA, ['v'])],
     .start tC [], .start tB [], .text ['y'] false, .end_ tB, .end_ tC, .end_ tA] := by decide

example : WellNested (toStreamQ (emptyTag none sample)) := by decide
example : WellNested (toStreamQ (emptyTag none sample)) := emptytag_wellnested _ (by decide)

/-- the hypothesis matters: an unclosed START is dropped, the model does not invent an END -/
example : toStreamQ (emptyTag none [.start tA [], .start tB []]) = [.start tA []] := by decide

/-- the quirk: the END closing a held-back START is not compared -/
example : ¬ WellNested [.start tA [], .end_ tB] ∧
    WellNested (toStreamQ (emptyTag none [.start tA [], .end_ tB])) := by decide

private def sampleF : List FEv :=
  [.xmlDecl ['1'] none (-1), .start ['a'] [], .start ['b'] [], .empty ['c'] [], .end_ ['b'], .end_ ['a']]

private def dt : Str × Option Str × Option Str := (['h'], none, none)

example : WellNested (toStreamF sampleF) := by decide
example : docTypeInsert dt sampleF =
    [.xmlDecl ['1'] none (-1), .doctype ['h'] none none, .start ['a'] [], .start ['b'] [],
     .empty ['c'] [], .end_ ['b'], .end_ ['a']] := by decide
example : WellNested (toStreamF (docTypeInsert dt sampleF)) := by decide
example : WellNested (toStreamF (docTypeInsert dt sampleF)) :=
  doctype_inserter_wellnested dt sampleF (by decide)

/-- input of the whitespace filter: two adjacent TEXT events inside nested elements -/
private def sampleQ : List QEv :=
  [.start tA [], .text ['x', ' '] true, .text ['\n', '\n'] true, .start tB [], .empty tC [], .end_ tB,
   .text ['z'] true, .end_ tA]

private def cfg0 : WsCfg := ⟨[], [], true⟩

example : WellNested (toStreamQ sampleQ) := by decide
/-- the merging filter (no normalisation) joins the two TEXT events and keeps the skeleton -/
example : wsFilterG (fun _ s => s) cfg0 {} sampleQ =
    [.start tA [], .text ['x', ' ', '\n', '\n'] true, .start tB [], .empty tC [], .end_ tB,
     .text ['z'] true, .end_ tA] := by decide
example : WellNested (toStreamQ (wsFilterG (fun _ s => s) cfg0 {} sampleQ)) := by decide
example : WellNested (toStreamQ (wsFilter cfg0 {} sampleQ)) :=
  wsFilter_wellnested cfg0 sampleQ (by decide)

/-- `<a k="v"><b/>t<b><a/></b></a>` as a forest -/
private def sampleForest : List Node :=
  [.elem tA [(⟨[], ['k']⟩, ['v'])]
    [.elem tB [] [], .leaf (.text ['t'] false), .elem tB [] [.elem tA [] []]]]

example : okList sampleForest = true ∧ forestNsFree sampleForest = true := by decide
example : forestF sampleForest =
    [.start ['a'] [(['k'], ['v'])], .empty ['b'] [], .text ['t'] false, .start ['b'] [],
     .empty ['a'] [], .end_ ['b'], .end_ ['a']] := by decide
example : WellNested (toStreamF (forestF sampleForest)) := by decide
example : ∃ out, filtered .xml { strip := false, cache := false, doctype := none, dropXmlDecl := true }
    (flattenList sampleForest) = some out ∧ WellNested (toStreamF out) :=
  ns_flattener_wellnested_partial .xml true sampleForest (by decide) (by decide)

private def tUa : QName := ⟨['u'], ['a']⟩
private def tUb : QName := ⟨['u'], ['b']⟩
private def sampleForestU : List Node :=
  [.elem tUa [] [.elem tUb [] [], .elem tUb [] [.leaf (.text ['t'] false)]]]

example : okList sampleForestU = true ∧ forestUniformNs ['u'] sampleForestU = true := by decide
example : forestFu ['u'] false sampleForestU =
    [.start ['a'] [(xmlns, ['u'])], .empty ['b'] [], .start ['b'] [], .text ['t'] false,
     .end_ ['b'], .end_ ['a']] := by decide
example : WellNested (toStreamF (forestFu ['u'] false sampleForestU)) := by decide
example : ∃ out, filtered .xhtml { strip := false, cache := false, doctype := none, dropXmlDecl := true }
    (flattenList sampleForestU) = some out ∧ WellNested (toStreamF out) :=
  ns_flattener_wellnested_partialU .xhtml true ['u'] (by decide) sampleForestU (by decide) (by decide)

end Examples

end Genshi.Tf.Serial

/-
  C02 — `EmptyTagFilter` does not change what a well-nested stream denotes.
-/
import Genshi.Model.XmlSpec
import Genshi.Lemmas.Core
namespace Genshi.Xml
open Genshi

/-- what a stream denotes -/
def canonS (s : Stream) : List REv := s.flatMap canonEv

theorem canonX_cons (x : XEv) (xs : List XEv) : canonX (x :: xs) = canonXEv x ++ canonX xs := by
  simp [canonX]

theorem emptyTagGo_canon : ∀ (s : Stream) (prev : Option (QName × AttrList)) (stk : List QName),
    balance (match prev with | some (t, _) => t :: stk | none => stk) s = some [] →
    canonX (emptyTagGo prev s) =
      (match prev with | some (t, a) => [REv.start t a] | none => []) ++ canonS s := by
  intro s
  induction s with
  | nil =>
    intro prev stk h
    cases prev with
    | none => simp [emptyTagGo, canonX, canonS]
    | some ta => obtain ⟨t, a⟩ := ta; simp [balance] at h
  | cons e es ih =>
    intro prev stk h
    cases prev with
    | none =>
      cases e with
      | start t a =>
        simp only [emptyTagGo]
        have := ih (some (t, a)) stk (by simpa [balance] using h)
        rw [this]; simp [canonS, canonEv]
      | end_ t =>
        simp only [emptyTagGo, canonX_cons]
        cases stk with
        | nil => simp [balance] at h
        | cons t' stk' =>
          simp only [balance] at h
          by_cases ht : t = t'
          · simp only [ht, if_true] at h
            have := ih none stk' h
            simp only [List.nil_append] at this
            rw [this]; simp [canonS, canonXEv]
          · simp [ht] at h
      | text s f =>
        simp only [emptyTagGo, canonX_cons]
        have := ih none stk (by simpa [balance] using h)
        simp only [List.nil_append] at this
        rw [this]; simp [canonS, canonXEv]
      | comment s =>
        simp only [emptyTagGo, canonX_cons]
        have := ih none stk (by simpa [balance] using h)
        simp only [List.nil_append] at this
        rw [this]; simp [canonS, canonXEv]
      | pi tg d =>
        simp only [emptyTagGo, canonX_cons]
        have := ih none stk (by simpa [balance] using h)
        simp only [List.nil_append] at this
        rw [this]; simp [canonS, canonXEv]
      | doctype n p s =>
        simp only [emptyTagGo, canonX_cons]
        have := ih none stk (by simpa [balance] using h)
        simp only [List.nil_append] at this
        rw [this]; simp [canonS, canonXEv]
      | xmlDecl v e s =>
        simp only [emptyTagGo, canonX_cons]
        have := ih none stk (by simpa [balance] using h)
        simp only [List.nil_append] at this
        rw [this]; simp [canonS, canonXEv]
      | startNs p u =>
        simp only [emptyTagGo, canonX_cons]
        have := ih none stk (by simpa [balance] using h)
        simp only [List.nil_append] at this
        rw [this]; simp [canonS, canonXEv]
      | endNs p =>
        simp only [emptyTagGo, canonX_cons]
        have := ih none stk (by simpa [balance] using h)
        simp only [List.nil_append] at this
        rw [this]; simp [canonS, canonXEv]
      | startCdata =>
        simp only [emptyTagGo, canonX_cons]
        have := ih none stk (by simpa [balance] using h)
        simp only [List.nil_append] at this
        rw [this]; simp [canonS, canonXEv]
      | endCdata =>
        simp only [emptyTagGo, canonX_cons]
        have := ih none stk (by simpa [balance] using h)
        simp only [List.nil_append] at this
        rw [this]; simp [canonS, canonXEv]
    | some ta =>
      obtain ⟨t, a⟩ := ta
      simp only at h
      cases e with
      | start t' a' =>
        simp only [emptyTagGo, canonX_cons]
        have := ih (some (t', a')) (t :: stk) (by simpa [balance] using h)
        rw [this]; simp [canonS, canonXEv, canonEv]
      | end_ t' =>
        simp only [emptyTagGo, canonX_cons]
        simp only [balance] at h
        by_cases ht : t' = t
        · simp only [ht, if_true] at h
          have := ih none stk h
          simp only [List.nil_append] at this
          rw [this]; simp [canonS, canonXEv, canonEv, ht]
        · simp [ht] at h
      | text s f =>
        simp only [emptyTagGo, canonX_cons]
        have := ih none (t :: stk) (by simpa [balance] using h)
        simp only [List.nil_append] at this
        rw [this]; simp [canonS, canonXEv, canonEv]
      | comment s =>
        simp only [emptyTagGo, canonX_cons]
        have := ih none (t :: stk) (by simpa [balance] using h)
        simp only [List.nil_append] at this
        rw [this]; simp [canonS, canonXEv, canonEv]
      | pi tg d =>
        simp only [emptyTagGo, canonX_cons]
        have := ih none (t :: stk) (by simpa [balance] using h)
        simp only [List.nil_append] at this
        rw [this]; simp [canonS, canonXEv, canonEv]
      | doctype n p s =>
        simp only [emptyTagGo, canonX_cons]
        have := ih none (t :: stk) (by simpa [balance] using h)
        simp only [List.nil_append] at this
        rw [this]; simp [canonS, canonXEv, canonEv]
      | xmlDecl v e s =>
        simp only [emptyTagGo, canonX_cons]
        have := ih none (t :: stk) (by simpa [balance] using h)
        simp only [List.nil_append] at this
        rw [this]; simp [canonS, canonXEv, canonEv]
      | startNs p u =>
        simp only [emptyTagGo, canonX_cons]
        have := ih none (t :: stk) (by simpa [balance] using h)
        simp only [List.nil_append] at this
        rw [this]; simp [canonS, canonXEv, canonEv]
      | endNs p =>
        simp only [emptyTagGo, canonX_cons]
        have := ih none (t :: stk) (by simpa [balance] using h)
        simp only [List.nil_append] at this
        rw [this]; simp [canonS, canonXEv, canonEv]
      | startCdata =>
        simp only [emptyTagGo, canonX_cons]
        have := ih none (t :: stk) (by simpa [balance] using h)
        simp only [List.nil_append] at this
        rw [this]; simp [canonS, canonXEv, canonEv]
      | endCdata =>
        simp only [emptyTagGo, canonX_cons]
        have := ih none (t :: stk) (by simpa [balance] using h)
        simp only [List.nil_append] at this
        rw [this]; simp [canonS, canonXEv, canonEv]

/-- on a well-nested stream the filter only changes how empty elements are written -/
theorem canonX_emptyTag (s : Stream) (h : WellNested s) : canonX (emptyTag s) = canonS s := by
  have := emptyTagGo_canon s none [] h
  simpa [emptyTag] using this

end Genshi.Xml

/-
  Helper lemmas for C08: the round trips over forests whose elements are all in
  one namespace (XHTML): the `xmlns` declaration the flattener adds on outermost
  elements is invisible under html and an ordinary attribute for the XML tokenizer.
-/
import Genshi.Lemmas.OutputTreeNs
import Genshi.Lemmas.ReaderTree
namespace Genshi.Reader
open Genshi Genshi.Output

/-- html drops the namespace declaration -/
theorem htmlAttrToks_decl (u : Str) (s : Bool) (a : FAttrs) :
    htmlAttrToks (declAttr u s ++ a) = htmlAttrToks a := by
  unfold declAttr
  by_cases hd : (u.isEmpty || s) = true
  · simp [hd]
  · simp only [hd, Bool.false_eq_true, ↓reduceIte, List.singleton_append, htmlAttrToks, List.flatMap_cons]
    have h1 : htmlAttrTok ((xmlns, u) :: a) (xmlns, u) = [] := by
      have hb : inTable (booleanAttrs .html) xmlns = false := by decide
      have hc : (xmlns.any (· == ':')) = false := by decide
      simp [htmlAttrTok, hb, hc]
    have h2 : ∀ p, htmlAttrTok ((xmlns, u) :: a) p = htmlAttrTok a p := by
      intro p
      have hl : hasAttr ((xmlns, u) :: a) lang = hasAttr a lang := by
        have : (xmlns == lang) = false := by decide
        simp [hasAttr, this]
      simp [htmlAttrTok, hl]
    rw [h1]
    have h3 : htmlAttrTok ((xmlns, u) :: a) = htmlAttrTok a := funext h2
    simp [h3]

mutual
  /-- html pieces of a tree in one namespace: as for a namespace-free tree (the declaration is dropped) -/
  theorem pieces_treeU (u : Str) : ∀ (s : Bool) (n : Node), (treeFu u s n).flatMap evPieces = treePieces n
    | s, .elem t a ks => by
        cases ks with
        | nil =>
          simp only [treeFu, List.isEmpty_nil, ↓reduceIte, List.flatMap_cons, List.flatMap_nil, List.append_nil,
            evPieces, treePieces, htmlAttrToks_decl]
          split <;> simp
        | cons k ks' =>
          simp only [treeFu, List.isEmpty_cons, Bool.false_eq_true, ↓reduceIte, List.flatMap_cons, List.flatMap_append,
            List.flatMap_nil, List.append_nil, evPieces, treePieces, pieces_forestU u true (k :: ks'), htmlAttrToks_decl]
          simp
    | s, .leaf e => by cases e <;> simp [treeFu, leafF, treePieces, evPieces]
  theorem pieces_forestU (u : Str) : ∀ (s : Bool) (ns : List Node), (forestFu u s ns).flatMap evPieces = forestPieces ns
    | s, [] => by simp [forestFu, forestPieces]
    | s, n :: ns => by
        simp [forestFu, forestPieces, List.flatMap_append, pieces_treeU u s n, pieces_forestU u s ns]
end

theorem nameOk_xmlns : NameOk xmlns := by decide

theorem declAttr_names (u : Str) (s : Bool) : ∀ p ∈ declAttr u s, NameOk p.1 := by
  intro p hp
  unfold declAttr at hp
  split at hp
  · simp at hp
  · simp at hp; subst hp; exact nameOk_xmlns

theorem rawKids_okU (u : Str) (s : Bool) (ks : List Node) (h : rawKidsOk ks = true) :
    HtmlOkAll true (forestFu u s ks) ∧ rawEnd true (forestFu u s ks) = true := by
  induction ks with
  | nil => simp [forestFu, HtmlOkAll, rawEnd]
  | cons k ks' ih =>
    cases k with
    | elem t a kk => simp [rawKidsOk] at h
    | leaf e =>
      cases e with
      | text x f =>
        simp only [rawKidsOk, Bool.and_eq_true, Bool.not_eq_true'] at h
        obtain ⟨⟨hf, hs⟩, hr⟩ := h
        have ih' := ih hr
        subst hf
        simp only [forestFu, treeFu, leafF, Option.toList_some, List.singleton_append, HtmlOkAll, HtmlOk, rawAfter,
          true_and, rawEnd, List.foldl_cons]
        exact ⟨⟨fun _ => hs, ih'.1⟩, ih'.2⟩
      | _ => simp [rawKidsOk] at h

mutual
  theorem htmlOk_treeU (u : Str) : ∀ (s : Bool) (n : Node), htmlTreeOk n = true →
      HtmlOkAll false (treeFu u s n) ∧ rawEnd false (treeFu u s n) = false
    | s, .elem t a ks, h => by
        simp only [htmlTreeOk, Bool.and_eq_true] at h
        obtain ⟨⟨ht, ha⟩, hk⟩ := h
        have hT := nameOk_of_B ht
        have hA : ∀ p ∈ declAttr u s ++ fAttrs a, NameOk p.1 := by
          intro p hp
          rcases List.mem_append.mp hp with h1 | h1
          · exact declAttr_names u s p h1
          · exact nameOk_of_B (List.all_eq_true.mp ha p h1)
        cases ks with
        | nil =>
          simp only [treeFu, List.isEmpty_nil, ↓reduceIte]
          exact ⟨⟨⟨rfl, hT, hA⟩, trivial⟩, rfl⟩
        | cons k ks' =>
          simp only [treeFu, List.isEmpty_cons, Bool.false_eq_true, ↓reduceIte]
          rw [show XEv.start t.loc (declAttr u s ++ fAttrs a) :: (forestFu u true (k :: ks') ++ [XEv.end_ t.loc]) =
                [XEv.start t.loc (declAttr u s ++ fAttrs a)] ++ (forestFu u true (k :: ks') ++ [XEv.end_ t.loc]) by rfl]
          by_cases hr : rawTextElems.contains t.loc = true
          · simp only [hr, ↓reduceIte] at hk
            have hkids := rawKids_okU u true (k :: ks') hk
            refine ⟨?_, ?_⟩
            · have hre : rawEnd false [XEv.start t.loc (declAttr u s ++ fAttrs a)] = true := by
                show rawTextElems.contains t.loc = true; exact hr
              rw [htmlOkAll_append, htmlOkAll_append, hre]
              exact ⟨⟨⟨rfl, hT, hA⟩, trivial⟩, hkids.1, ⟨hT, trivial⟩⟩
            · simp [rawEnd_append, rawEnd, rawAfter]
          · simp only [hr, Bool.false_eq_true, ↓reduceIte] at hk
            have hkids := htmlOk_forestU u true (k :: ks') hk
            have hr' : rawTextElems.contains t.loc = false := by simpa using hr
            refine ⟨?_, ?_⟩
            · have hre : rawEnd false [XEv.start t.loc (declAttr u s ++ fAttrs a)] = false := by
                show rawTextElems.contains t.loc = false; exact hr'
              rw [htmlOkAll_append, htmlOkAll_append, hre]
              exact ⟨⟨⟨rfl, hT, hA⟩, trivial⟩, hkids.1, ⟨hT, trivial⟩⟩
            · simp [rawEnd_append, rawEnd, rawAfter]
    | s, .leaf e, h => by
        cases e <;> simp [htmlTreeOk] at h <;>
          simp [treeFu, leafF, HtmlOkAll, HtmlOk, rawAfter, rawEnd, h]
  theorem htmlOk_forestU (u : Str) : ∀ (s : Bool) (ns : List Node), htmlForestOk ns = true →
      HtmlOkAll false (forestFu u s ns) ∧ rawEnd false (forestFu u s ns) = false
    | s, [], _ => by simp [forestFu, HtmlOkAll, rawEnd]
    | s, n :: ns, h => by
        simp only [htmlForestOk, Bool.and_eq_true] at h
        have h1 := htmlOk_treeU u s n h.1
        have h2 := htmlOk_forestU u s ns h.2
        simp only [forestFu]
        refine ⟨?_, ?_⟩
        · rw [htmlOkAll_append]; exact ⟨h1.1, by rw [h1.2]; exact h2.1⟩
        · rw [rawEnd_append, h1.2, h2.2]
end

/-! ### xhtml -/

/-- the XML tokenizer sees the declaration as an ordinary attribute in front of the others -/
theorem xhtmlAttrToks_decl (u : Str) (s : Bool) (a : FAttrs) :
    xhtmlAttrToks (declAttr u s ++ a) = (declAttr u s).map (fun p => (p.1, some p.2)) ++ xhtmlAttrToks a := by
  unfold declAttr
  by_cases hd : (u.isEmpty || s) = true
  · simp [hd]
  · simp only [hd, Bool.false_eq_true, ↓reduceIte, List.singleton_append, xhtmlAttrToks, List.flatMap_cons,
      List.map_cons, List.map_nil]
    have hb : inTable (booleanAttrs .xhtml) xmlns = false := by decide
    have h1 : xhtmlAttrTok ((xmlns, u) :: a) (xmlns, u) = [(xmlns, some u)] := by
      have hl : (xmlns == xmlLang) = false := by decide
      have hs : (xmlns == xmlSpace) = false := by decide
      simp [xhtmlAttrTok, hb, hl, hs]
    have h2 : xhtmlAttrTok ((xmlns, u) :: a) = xhtmlAttrTok a := by
      funext p
      have hl : hasAttr ((xmlns, u) :: a) lang = hasAttr a lang := by
        have : (xmlns == lang) = false := by decide
        simp [hasAttr, this]
      simp [xhtmlAttrTok, hl]
    rw [h1, h2]; simp

mutual
  /-- xhtml pieces of a tree in namespace `u`: outermost elements carry `xmlns="u"` -/
  def treePiecesXU (u : Str) (s : Bool) : Node → List Piece
    | .elem t a ks =>
        let at_ := (declAttr u s).map (fun p => (p.1, some p.2)) ++ xhtmlAttrToks (fAttrs a)
        if ks.isEmpty then
          (if inTable (emptyElems .xhtml) t.loc then [.tok (.start t.loc at_ true)]
           else [.tok (.start t.loc at_ false), .tok (.end_ t.loc)])
        else .tok (.start t.loc at_ false) :: (forestPiecesXU u true ks ++ [.tok (.end_ t.loc)])
    | .leaf (.text x _) => [.chars x]
    | .leaf (.comment x) => [.tok (.comment x)]
    | .leaf _ => []
  def forestPiecesXU (u : Str) (s : Bool) : List Node → List Piece
    | [] => []
    | n :: ns => treePiecesXU u s n ++ forestPiecesXU u s ns
end

mutual
  theorem piecesX_treeU (u : Str) : ∀ (s : Bool) (n : Node), (treeFu u s n).flatMap evPiecesX = treePiecesXU u s n
    | s, .elem t a ks => by
        cases ks with
        | nil =>
          simp only [treeFu, List.isEmpty_nil, ↓reduceIte, List.flatMap_cons, List.flatMap_nil, List.append_nil,
            evPiecesX, treePiecesXU, xhtmlAttrToks_decl]
        | cons k ks' =>
          simp only [treeFu, List.isEmpty_cons, Bool.false_eq_true, ↓reduceIte, List.flatMap_cons, List.flatMap_append,
            List.flatMap_nil, List.append_nil, evPiecesX, treePiecesXU, piecesX_forestU u true (k :: ks'),
            xhtmlAttrToks_decl]
          simp
    | s, .leaf e => by cases e <;> simp [treeFu, leafF, treePiecesXU, evPiecesX]
  theorem piecesX_forestU (u : Str) : ∀ (s : Bool) (ns : List Node),
      (forestFu u s ns).flatMap evPiecesX = forestPiecesXU u s ns
    | s, [] => by simp [forestFu, forestPiecesXU]
    | s, n :: ns => by
        simp [forestFu, forestPiecesXU, List.flatMap_append, piecesX_treeU u s n, piecesX_forestU u s ns]
end

theorem declAttr_ok (u : Str) (s : Bool) (hu : attrValOkB u = true) : XAttrsOk (declAttr u s) := by
  intro p hp
  unfold declAttr at hp
  split at hp
  · simp at hp
  · simp at hp; subst hp; exact ⟨nameOk_xmlns, fun _ => hu⟩

mutual
  theorem xhtmlOk_treeU (o : Opts) (u : Str) (hu : attrValOkB u = true) : ∀ (s : Bool) (n : Node),
      xhtmlTreeOk n = true → ∀ ev ∈ treeFu u s n, XhtmlOk o ev
    | s, .elem t a ks, h => by
        simp only [xhtmlTreeOk, Bool.and_eq_true] at h
        obtain ⟨⟨ht, ha⟩, hk⟩ := h
        have hT := nameOk_of_B ht
        have hA : XAttrsOk (declAttr u s ++ fAttrs a) := by
          intro p hp
          rcases List.mem_append.mp hp with h1 | h1
          · exact declAttr_ok u s hu p h1
          · have := List.all_eq_true.mp ha p h1
            simp only [Bool.and_eq_true] at this
            exact ⟨nameOk_of_B this.1, fun _ => this.2⟩
        intro ev hev
        cases ks with
        | nil =>
          simp only [treeFu, List.isEmpty_nil, ↓reduceIte, List.mem_singleton] at hev
          subst hev; exact ⟨hT, hA⟩
        | cons k ks' =>
          simp only [treeFu, List.isEmpty_cons, Bool.false_eq_true, ↓reduceIte, List.mem_cons, List.mem_append,
            List.mem_singleton, List.not_mem_nil, or_false] at hev
          rcases hev with h1 | h1 | h1
          · subst h1; exact ⟨hT, hA⟩
          · exact xhtmlOk_forestU o u hu true (k :: ks') hk ev h1
          · subst h1; exact hT
    | s, .leaf e, h => by
        intro ev hev
        cases e <;> simp [xhtmlTreeOk] at h <;> simp [treeFu, leafF] at hev <;> subst hev <;>
          simp [XhtmlOk, h]
  theorem xhtmlOk_forestU (o : Opts) (u : Str) (hu : attrValOkB u = true) : ∀ (s : Bool) (ns : List Node),
      xhtmlForestOk ns = true → ∀ ev ∈ forestFu u s ns, XhtmlOk o ev
    | s, [], _ => by simp [forestFu]
    | s, n :: ns, h => by
        simp only [xhtmlForestOk, Bool.and_eq_true] at h
        intro ev hev
        simp only [forestFu, List.mem_append] at hev
        rcases hev with h1 | h1
        · exact xhtmlOk_treeU o u hu s n h.1 ev h1
        · exact xhtmlOk_forestU o u hu s ns h.2 ev h1
end

end Genshi.Reader

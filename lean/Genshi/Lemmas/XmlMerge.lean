/-
  C02 — adjacent character data: merging TEXT events changes neither the text
  the serializer writes nor (up to the same merging) what the stream denotes.
-/
import Genshi.Lemmas.XmlTxtB
import Genshi.Lemmas.XmlEmptyTag
namespace Genshi.Xml
open Genshi Genshi.Escape Genshi.Xml.Reader

/-! ### equations of the merging functions -/

def isTextF : FEv → Bool
  | .other (.text _ false) => true
  | _ => false

def accF (acc : Option Str) : List FEv := match acc with | none => [] | some t => flushF t

theorem mergeFGo_text (acc : Option Str) (s : Str) (es : List FEv) :
    mergeFGo acc (.other (.text s false) :: es) = mergeFGo (some (acc.getD [] ++ s)) es := by
  cases acc <;> simp [mergeFGo]

theorem mergeFGo_other (acc : Option Str) (e : FEv) (es : List FEv) (h : isTextF e = false) :
    mergeFGo acc (e :: es) = accF acc ++ e :: mergeFGo none es := by
  cases acc with
  | none =>
    cases e with
    | other ev => cases ev with
      | text s f => cases f <;> simp_all [isTextF, mergeFGo, accF]
      | _ => simp [mergeFGo, accF]
    | _ => simp [mergeFGo, accF]
  | some t =>
    cases e with
    | other ev => cases ev with
      | text s f => cases f <;> simp_all [isTextF, mergeFGo, accF]
      | _ => simp [mergeFGo, accF]
    | _ => simp [mergeFGo, accF]

theorem mergeFGo_nil (acc : Option Str) : mergeFGo acc [] = accF acc := by
  cases acc <;> rfl

inductive XKind where | text | ns | other

def kindX : XEv → XKind
  | .ev (.text _ false) => .text
  | .ev (.startNs _ _) => .ns
  | .ev (.endNs _) => .ns
  | _ => .other

def accX (acc : Option Str) : List XEv := match acc with | none => [] | some t => flushX t

theorem mergeXGo_text (acc : Option Str) (s : Str) (es : List XEv) :
    mergeXGo acc (.ev (.text s false) :: es) = mergeXGo (some (acc.getD [] ++ s)) es := by
  cases acc <;> simp [mergeXGo]

theorem mergeXGo_startNs (acc : Option Str) (p u : Str) (es : List XEv) :
    mergeXGo acc (.ev (.startNs p u) :: es) = .ev (.startNs p u) :: mergeXGo acc es := by
  cases acc <;> simp [mergeXGo]

theorem mergeXGo_endNs (acc : Option Str) (p : Str) (es : List XEv) :
    mergeXGo acc (.ev (.endNs p) :: es) = .ev (.endNs p) :: mergeXGo acc es := by
  cases acc <;> simp [mergeXGo]

theorem mergeXGo_nil (acc : Option Str) : mergeXGo acc [] = accX acc := by
  cases acc <;> rfl

theorem mergeXGo_other (acc : Option Str) (e : XEv) (es : List XEv)
    (h : match kindX e with | .other => True | _ => False) :
    mergeXGo acc (e :: es) = accX acc ++ e :: mergeXGo none es := by
  cases acc with
  | none =>
    cases e with
    | empty t a => simp [mergeXGo, accX]
    | ev ev => cases ev with
      | text s f => cases f <;> simp_all [kindX, mergeXGo, accX]
      | startNs p u => simp [kindX] at h
      | endNs p => simp [kindX] at h
      | _ => simp [mergeXGo, accX]
  | some t =>
    cases e with
    | empty t a => simp [mergeXGo, accX]
    | ev ev => cases ev with
      | text s f => cases f <;> simp_all [kindX, mergeXGo, accX]
      | startNs p u => simp [kindX] at h
      | endNs p => simp [kindX] at h
      | _ => simp [mergeXGo, accX]

/-! ### the flattener commutes with merging -/

theorem flatStep_text (pref : List (Str × Str)) (st : FSt) (s : Str) (f : Bool) :
    flatStep pref st (.ev (.text s f)) = (st, [.other (.text s f)]) := rfl

theorem flatRun_accX (pref : List (Str × Str)) (st : FSt) (acc : Option Str) (rest : List XEv) :
    flatRun pref st (accX acc ++ rest) = accF acc ++ flatRun pref st rest := by
  cases acc with
  | none => rfl
  | some t =>
    simp only [accX, accF, flushX, flushF]
    by_cases h : t.isEmpty = true
    · simp [h]
    · simp only [h, Bool.false_eq_true, if_false, List.cons_append, List.nil_append]
      rw [flatRun_cons, flatStep_text]
      rfl

/-- the one output event of an event that is neither character data nor a namespace event -/
theorem flatStep_other_out (pref : List (Str × Str)) (st : FSt) (e : XEv)
    (h : match kindX e with | .other => True | _ => False) :
    ∃ f, (flatStep pref st e).2 = [f] ∧ isTextF f = false := by
  cases e with
  | empty t a => exact ⟨_, rfl, rfl⟩
  | ev ev =>
    cases ev with
    | start t a => exact ⟨_, rfl, rfl⟩
    | end_ t =>
      simp only [flatStep]
      cases st.elems with
      | nil => exact ⟨_, rfl, rfl⟩
      | cons x xs => obtain ⟨n, k⟩ := x; exact ⟨_, rfl, rfl⟩
    | text s f => cases f with
      | false => simp [kindX] at h
      | true => exact ⟨_, rfl, rfl⟩
    | startNs p u => simp [kindX] at h
    | endNs p => simp [kindX] at h
    | _ => exact ⟨_, rfl, rfl⟩

theorem flatRun_mergeX (pref : List (Str × Str)) :
    ∀ (xs : List XEv) (st : FSt) (acc : Option Str),
      flatRun pref st (mergeXGo acc xs) = mergeFGo acc (flatRun pref st xs) := by
  intro xs
  induction xs with
  | nil =>
    intro st acc
    rw [mergeXGo_nil]
    have := flatRun_accX pref st acc []
    simpa [flatRun, mergeFGo_nil] using this
  | cons x xs ih =>
    intro st acc
    cases hk : kindX x with
    | text =>
      obtain ⟨s, rfl⟩ : ∃ s, x = .ev (.text s false) := by
        cases x with
        | empty t a => simp [kindX] at hk
        | ev ev => cases ev with
          | text s f => cases f with
            | false => exact ⟨s, rfl⟩
            | true => simp [kindX] at hk
          | _ => simp [kindX] at hk
      rw [mergeXGo_text, flatRun_cons, flatStep_text, ih]
      simp only [List.cons_append, List.nil_append]
      rw [mergeFGo_text]
    | ns =>
      cases x with
      | empty t a => simp [kindX] at hk
      | ev ev => cases ev with
        | startNs p u =>
          rw [mergeXGo_startNs, flatRun_cons, flatRun_cons]
          simp only [flatStep, List.nil_append]
          exact ih _ acc
        | endNs p =>
          rw [mergeXGo_endNs, flatRun_cons, flatRun_cons]
          simp only [flatStep, List.nil_append]
          exact ih _ acc
        | text s f => cases f <;> simp [kindX] at hk
        | _ => simp [kindX] at hk
    | other =>
      have hx : match kindX x with | .other => True | _ => False := by rw [hk]; trivial
      rw [mergeXGo_other acc x xs hx, flatRun_accX, flatRun_cons, flatRun_cons, ih]
      obtain ⟨f, hf, hnt⟩ := flatStep_other_out pref st x hx
      rw [hf]
      simp only [List.cons_append, List.nil_append]
      rw [mergeFGo_other acc f _ hnt]

theorem flatten_mergeX (pref : List (Str × Str)) (xs : List XEv) :
    flatten pref (mergeX xs) = mergeF (flatten pref xs) := flatRun_mergeX pref xs FSt.init none

end Genshi.Xml

namespace Genshi.Xml
open Genshi Genshi.Escape Genshi.Xml.Reader

theorem kind_text_inv {x : XEv} (hk : kindX x = .text) : ∃ s, x = .ev (.text s false) := by
  cases x with
  | empty t a => simp [kindX] at hk
  | ev ev => cases ev with
    | text s f => cases f with
      | false => exact ⟨s, rfl⟩
      | true => simp [kindX] at hk
    | _ => simp [kindX] at hk

theorem kind_ns_inv {x : XEv} (hk : kindX x = .ns) : (∃ p u, x = .ev (.startNs p u)) ∨ ∃ p, x = .ev (.endNs p) := by
  cases x with
  | empty t a => simp [kindX] at hk
  | ev ev => cases ev with
    | startNs p u => exact Or.inl ⟨p, u, rfl⟩
    | endNs p => exact Or.inr ⟨p, rfl⟩
    | text s f => cases f <;> simp [kindX] at hk
    | _ => simp [kindX] at hk

/-! ### what the merged stream denotes -/

def isTextR : REv → Bool
  | .text _ => true
  | _ => false

def accR (acc : Option Str) : List REv := match acc with | none => [] | some t => flushR t

theorem mergeRGo_text (acc : Option Str) (s : Str) (es : List REv) :
    mergeRGo acc (.text s :: es) = mergeRGo (some (acc.getD [] ++ s)) es := by
  cases acc <;> simp [mergeRGo]

theorem mergeRGo_other (acc : Option Str) (e : REv) (es : List REv) (h : isTextR e = false) :
    mergeRGo acc (e :: es) = accR acc ++ e :: mergeRGo none es := by
  cases acc <;> cases e <;> simp_all [isTextR, mergeRGo, accR]

theorem mergeRGo_nil (acc : Option Str) : mergeRGo acc [] = accR acc := by cases acc <;> rfl

theorem canonX_accX (acc : Option Str) (rest : List XEv) : canonX (accX acc ++ rest) = accR acc ++ canonX rest := by
  cases acc with
  | none => rfl
  | some t =>
    simp only [accX, accR, flushX, flushR]
    by_cases h : t.isEmpty = true <;> simp [h, canonX, canonXEv, canonEv]

theorem canonX_mergeX : ∀ (xs : List XEv) (acc : Option Str), xs.all noSafeText = true →
    canonX (mergeXGo acc xs) = mergeRGo acc (canonX xs) := by
  intro xs
  induction xs with
  | nil => intro acc _; rw [mergeXGo_nil]; simpa [canonX, mergeRGo_nil] using canonX_accX acc []
  | cons x xs ih =>
    intro acc hall
    simp only [List.all_cons, Bool.and_eq_true] at hall
    have ih := fun a => ih a hall.2
    have hsafe := hall.1
    cases hk : kindX x with
    | text =>
      obtain ⟨s, rfl⟩ := kind_text_inv hk
      rw [mergeXGo_text, ih, canonX_cons]
      simp only [canonXEv, canonEv, List.cons_append, List.nil_append]
      rw [mergeRGo_text]
    | ns =>
      rcases kind_ns_inv hk with ⟨p, u, rfl⟩ | ⟨p, rfl⟩
      · rw [mergeXGo_startNs, canonX_cons, canonX_cons, ih]; rfl
      · rw [mergeXGo_endNs, canonX_cons, canonX_cons, ih]; rfl
    | other =>
      have hx : match kindX x with | .other => True | _ => False := by rw [hk]; trivial
      rw [mergeXGo_other acc x xs hx, canonX_accX, canonX_cons, canonX_cons, ih]
      cases x with
      | empty t a =>
        simp only [canonXEv, List.cons_append, List.nil_append]
        rw [mergeRGo_other acc _ _ rfl, mergeRGo_other none _ _ rfl]; rfl
      | ev ev =>
        cases ev with
        | text s f => cases f with
          | false => simp [kindX] at hk
          | true => simp [noSafeText] at hsafe
        | startNs p u => simp [kindX] at hk
        | endNs p => simp [kindX] at hk
        | start t a => simp only [canonXEv, canonEv, List.cons_append, List.nil_append]; rw [mergeRGo_other acc _ _ rfl]
        | end_ t => simp only [canonXEv, canonEv, List.cons_append, List.nil_append]; rw [mergeRGo_other acc _ _ rfl]
        | comment s => simp only [canonXEv, canonEv, List.cons_append, List.nil_append]; rw [mergeRGo_other acc _ _ rfl]
        | pi t d => simp only [canonXEv, canonEv, List.cons_append, List.nil_append]; rw [mergeRGo_other acc _ _ rfl]
        | doctype n p s => simp only [canonXEv, canonEv, List.cons_append, List.nil_append]; rw [mergeRGo_other acc _ _ rfl]
        | xmlDecl v e s => simp only [canonXEv, canonEv, List.cons_append, List.nil_append]; rw [mergeRGo_other acc _ _ rfl]
        | startCdata => simp only [canonXEv, canonEv, List.cons_append, List.nil_append]; rw [mergeRGo_other acc _ _ rfl]
        | endCdata => simp only [canonXEv, canonEv, List.cons_append, List.nil_append]; rw [mergeRGo_other acc _ _ rfl]

end Genshi.Xml

namespace Genshi.Xml
open Genshi Genshi.Escape Genshi.Xml.Reader

/-! ### the merged stream is still a document -/

theorem ckStep_text {ck ck' : CkSt} {s : Str} {f : Bool} (h : ckStep ck (.ev (.text s f)) = some ck') :
    ck' = ck ∧ ck.stack.isEmpty = false := by
  simp only [ckStep] at h
  split at h
  · cases h
  · rename_i hs
    simp only [Option.some.injEq] at h
    exact ⟨h.symm, by simpa using hs⟩

theorem docGo_accX (ck : CkSt) (acc : Option Str) (rest : List XEv) (h : acc.isSome = true → ck.stack.isEmpty = false) :
    docGo ck (accX acc ++ rest) = docGo ck rest := by
  cases acc with
  | none => rfl
  | some t =>
    simp only [accX, flushX]
    by_cases he : t.isEmpty = true
    · simp [he]
    · simp only [he, Bool.false_eq_true, if_false, List.cons_append, List.nil_append, docGo, ckStep, h rfl]

theorem ckStep_ns_stack {ck ck' : CkSt} {x : XEv} (hk : kindX x = .ns) (h : ckStep ck x = some ck') :
    ck'.stack = ck.stack := by
  rcases kind_ns_inv hk with ⟨p, u, rfl⟩ | ⟨p, rfl⟩
  · exact ckStep_stack_ns h
  · exact ckStep_stack_endNs h

theorem docGo_mergeX : ∀ (xs : List XEv) (ck : CkSt) (acc : Option Str),
    (acc.isSome = true → ck.stack.isEmpty = false) → docGo ck xs = true → docGo ck (mergeXGo acc xs) = true := by
  intro xs
  induction xs with
  | nil =>
    intro ck acc hacc h
    rw [mergeXGo_nil]
    have := docGo_accX ck acc [] hacc
    simp only [List.append_nil] at this
    rw [this]; exact h
  | cons x xs ih =>
    intro ck acc hacc h
    simp only [docGo] at h
    cases hck : ckStep ck x with
    | none => rw [hck] at h; cases h
    | some ck' =>
      rw [hck] at h
      simp only at h
      cases hk : kindX x with
      | text =>
        obtain ⟨s, rfl⟩ := kind_text_inv hk
        obtain ⟨rfl, hs⟩ := ckStep_text hck
        rw [mergeXGo_text]
        exact ih ck' _ (fun _ => hs) h
      | ns =>
        have hst := ckStep_ns_stack hk hck
        rcases kind_ns_inv hk with ⟨p, u, rfl⟩ | ⟨p, rfl⟩
        · rw [mergeXGo_startNs]
          simp only [docGo, hck]
          exact ih ck' acc (by rw [hst]; exact hacc) h
        · rw [mergeXGo_endNs]
          simp only [docGo, hck]
          exact ih ck' acc (by rw [hst]; exact hacc) h
      | other =>
        have hx : match kindX x with | .other => True | _ => False := by rw [hk]; trivial
        rw [mergeXGo_other acc x xs hx, docGo_accX ck acc _ hacc]
        simp only [docGo, hck]
        exact ih ck' none (fun e => by cases e) h

theorem docOK_mergeX (xs : List XEv) (h : docOK xs = true) : docOK (mergeX xs) = true := by
  unfold docOK at h
  split at h
  · rename_i v e s rest
    have := docGo_mergeX rest CkSt.init none (fun e => by cases e) h
    have e1 : mergeX (.ev (.xmlDecl v e s) :: rest) = .ev (.xmlDecl v e s) :: mergeXGo none rest := by
      simp [mergeX, mergeXGo]
    rw [e1]
    exact this
  · rename_i hne
    have := docGo_mergeX xs CkSt.init none (fun e => by cases e) h
    unfold docOK mergeX
    split
    · rename_i v e s rest heq
      -- the merged stream starts with a declaration only if the stream did
      cases xs with
      | nil => simp [mergeXGo] at heq
      | cons x xs' =>
        cases hk : kindX x with
        | text =>
          obtain ⟨t, rfl⟩ := kind_text_inv hk
          -- a document cannot start with character data
          simp [docGo, ckStep, CkSt.init] at h
        | ns =>
          rcases kind_ns_inv hk with ⟨p, u, rfl⟩ | ⟨p, rfl⟩
          · rw [mergeXGo_startNs] at heq; cases heq
          · rw [mergeXGo_endNs] at heq; cases heq
        | other =>
          have hx : match kindX x with | .other => True | _ => False := by rw [hk]; trivial
          rw [mergeXGo_other none x xs' hx] at heq
          simp only [accX, List.nil_append, List.cons.injEq] at heq
          exact absurd heq.1.symm (by intro e; exact hne _ _ _ _ (by rw [← e]))
    · exact this

/-! ### the skeleton commutes with merging -/

theorem skeleton_accX (acc : Option Str) (rest : List XEv) : skeleton (accX acc ++ rest) = accF acc ++ skeleton rest := by
  cases acc with
  | none => rfl
  | some t =>
    simp only [accX, accF, flushX, flushF]
    by_cases h : t.isEmpty = true <;> simp [h, skeleton]

theorem skeleton_cons_other (x : XEv) (xs : List XEv) (h : match kindX x with | .other => True | _ => False) :
    ∃ f, skeleton (x :: xs) = f :: skeleton xs ∧ isTextF f = false := by
  cases x with
  | empty t a => exact ⟨_, rfl, rfl⟩
  | ev ev =>
    cases ev with
    | text s f => cases f with
      | false => simp [kindX] at h
      | true => exact ⟨_, rfl, rfl⟩
    | startNs p u => simp [kindX] at h
    | endNs p => simp [kindX] at h
    | _ => exact ⟨_, rfl, rfl⟩

theorem skeleton_mergeX : ∀ (xs : List XEv) (acc : Option Str),
    skeleton (mergeXGo acc xs) = mergeFGo acc (skeleton xs) := by
  intro xs
  induction xs with
  | nil => intro acc; rw [mergeXGo_nil]; simpa [skeleton, mergeFGo_nil] using skeleton_accX acc []
  | cons x xs ih =>
    intro acc
    cases hk : kindX x with
    | text =>
      obtain ⟨s, rfl⟩ := kind_text_inv hk
      rw [mergeXGo_text, ih]
      simp only [skeleton]
      rw [mergeFGo_text]
    | ns =>
      rcases kind_ns_inv hk with ⟨p, u, rfl⟩ | ⟨p, rfl⟩
      · rw [mergeXGo_startNs]; simp only [skeleton]; exact ih acc
      · rw [mergeXGo_endNs]; simp only [skeleton]; exact ih acc
    | other =>
      have hx : match kindX x with | .other => True | _ => False := by rw [hk]; trivial
      obtain ⟨f, hf, hnt⟩ := skeleton_cons_other x xs hx
      obtain ⟨f', hf', _⟩ := skeleton_cons_other x (mergeXGo none xs) hx
      have hff : f' = f := by
        cases x with
        | empty t a => simp [skeleton] at hf hf'; rw [← hf, ← hf']
        | ev ev => cases ev <;> simp_all [skeleton]
      rw [mergeXGo_other acc x xs hx, skeleton_accX, hf', hff, ih, hf, mergeFGo_other acc f _ hnt]

theorem evTxt_mergeX (rep : Char → Bool) : ∀ (xs : List XEv) (acc : Option Str),
    xs.all (evTxt rep) = true → (mergeXGo acc xs).all (evTxt rep) = true := by
  intro xs
  induction xs with
  | nil =>
    intro acc _
    rw [mergeXGo_nil]
    cases acc with
    | none => rfl
    | some t => simp only [accX, flushX]; split <;> simp [evTxt]
  | cons x xs ih =>
    intro acc h
    simp only [List.all_cons, Bool.and_eq_true] at h
    cases hk : kindX x with
    | text => obtain ⟨s, rfl⟩ := kind_text_inv hk; rw [mergeXGo_text]; exact ih _ h.2
    | ns =>
      rcases kind_ns_inv hk with ⟨p, u, rfl⟩ | ⟨p, rfl⟩
      · rw [mergeXGo_startNs]; simp only [List.all_cons, Bool.and_eq_true]; exact ⟨h.1, ih _ h.2⟩
      · rw [mergeXGo_endNs]; simp only [List.all_cons, Bool.and_eq_true]; exact ⟨h.1, ih _ h.2⟩
    | other =>
      have hx : match kindX x with | .other => True | _ => False := by rw [hk]; trivial
      rw [mergeXGo_other acc x xs hx]
      simp only [List.all_append, List.all_cons, Bool.and_eq_true]
      refine ⟨?_, h.1, ih _ h.2⟩
      cases acc with
      | none => rfl
      | some t => simp only [accX, flushX]; split <;> simp [evTxt]

end Genshi.Xml

namespace Genshi.Xml
open Genshi Genshi.Escape Genshi.Xml.Reader

/-! ### the serializer writes adjacent character data as one run -/

def textOut (st : SerSt) (t : Str) : Str := if st.inCdata then t else escapePy false t

def accOut (st : SerSt) (acc : Option Str) : Str := match acc with | none => [] | some t => textOut st t

theorem serStep_text (st : SerSt) (t : Str) : serStep st (.other (.text t false)) = some (st, textOut st t) := by
  simp only [serStep, textOut]
  by_cases h : st.inCdata = true <;> simp [h]

theorem escapePy_append' (a b : Str) : escapePy false (a ++ b) = escapePy false a ++ escapePy false b := by
  simp [escapePy_eq_spec, escapeSpec]

theorem textOut_append (st : SerSt) (a b : Str) : textOut st (a ++ b) = textOut st a ++ textOut st b := by
  unfold textOut
  by_cases h : st.inCdata = true <;> simp [h, escapePy_append']

theorem textOut_nil (st : SerSt) : textOut st [] = [] := by
  unfold textOut
  by_cases h : st.inCdata = true <;> simp [h, escapePy_eq_spec, escapeSpec]

theorem serRun_accF (st : SerSt) (acc : Option Str) (rest : List FEv) :
    serRun st (accF acc ++ rest) = (serRun st rest).map (accOut st acc ++ ·) := by
  cases acc with
  | none => simp [accF, accOut]
  | some t =>
    simp only [accF, accOut, flushF]
    by_cases h : t.isEmpty = true
    · have : t = [] := by simpa using h
      subst this
      simp [textOut_nil]
    · simp only [h, Bool.false_eq_true, if_false, List.cons_append, List.nil_append]
      rw [serRun_cons, serStep_text]

theorem serRun_mergeF : ∀ (fs : List FEv) (st : SerSt) (acc : Option Str),
    serRun st (mergeFGo acc fs) = (serRun st fs).map (accOut st acc ++ ·) := by
  intro fs
  induction fs with
  | nil =>
    intro st acc
    rw [mergeFGo_nil]
    have := serRun_accF st acc []
    simpa [serRun] using this
  | cons e es ih =>
    intro st acc
    by_cases ht : isTextF e = true
    · obtain ⟨s, rfl⟩ : ∃ s, e = .other (.text s false) := by
        cases e with
        | other ev => cases ev with
          | text s f => cases f with
            | false => exact ⟨s, rfl⟩
            | true => simp [isTextF] at ht
          | _ => simp [isTextF] at ht
        | _ => simp [isTextF] at ht
      rw [mergeFGo_text, ih, serRun_cons, serStep_text]
      simp only [accOut, textOut_append]
      cases serRun st es with
      | none => rfl
      | some o => cases acc <;> simp [accOut, textOut_nil]
    · have hf : isTextF e = false := by simpa using ht
      rw [mergeFGo_other acc e es hf, serRun_accF, serRun_cons, serRun_cons]
      cases serStep st e with
      | none => rfl
      | some r =>
        obtain ⟨st', o⟩ := r
        simp only
        rw [ih st' none]
        cases serRun st' es <;> simp [accOut]

theorem serRun_mergeF' (fs : List FEv) (st : SerSt) : serRun st (mergeF fs) = serRun st fs := by
  have := serRun_mergeF fs st none
  simp only [accOut, List.nil_append] at this
  unfold mergeF
  rw [this]
  cases serRun st fs <;> rfl

/-! ### representability is not affected by merging -/

theorem repMarkupGo_accF (rep : Char → Bool) (c : Bool) (acc : Option Str) (rest : List FEv)
    (ha : c = true → (acc.getD []).all rep = true) (h : repMarkupGo rep c rest = true) :
    repMarkupGo rep c (accF acc ++ rest) = true := by
  cases acc with
  | none => exact h
  | some t =>
    simp only [accF, flushF]
    by_cases he : t.isEmpty = true
    · simp [he, h]
    · simp only [he, Bool.false_eq_true, if_false, List.cons_append, List.nil_append, repMarkupGo, Bool.or_false,
        Bool.and_eq_true, Bool.or_eq_true, Bool.not_eq_true']
      refine ⟨?_, h⟩
      cases c with
      | false => left; rfl
      | true => right; exact ha rfl

theorem repMarkupGo_mergeF (rep : Char → Bool) : ∀ (fs : List FEv) (c : Bool) (acc : Option Str),
    (c = true → (acc.getD []).all rep = true) → repMarkupGo rep c fs = true →
    repMarkupGo rep c (mergeFGo acc fs) = true := by
  intro fs
  induction fs with
  | nil => intro c acc ha h; rw [mergeFGo_nil]; simpa using repMarkupGo_accF rep c acc [] ha h
  | cons e es ih =>
    intro c acc ha h
    rw [repMarkupGo_cons, Bool.and_eq_true] at h
    by_cases ht : isTextF e = true
    · obtain ⟨s, rfl⟩ : ∃ s, e = .other (.text s false) := by
        cases e with
        | other ev => cases ev with
          | text s f => cases f with
            | false => exact ⟨s, rfl⟩
            | true => simp [isTextF] at ht
          | _ => simp [isTextF] at ht
        | _ => simp [isTextF] at ht
      rw [mergeFGo_text]
      apply ih c _ _ h.2
      intro hc
      have h1 := h.1
      simp only [repMarkupGo, Bool.or_false, Bool.and_true, Bool.or_eq_true, Bool.not_eq_true', hc] at h1
      simp only [Option.getD_some, List.all_append, Bool.and_eq_true]
      refine ⟨ha hc, ?_⟩
      rcases h1 with h1 | h1
      · cases h1
      · exact h1
    · have hf : isTextF e = false := by simpa using ht
      rw [mergeFGo_other acc e es hf]
      apply repMarkupGo_accF rep c acc _ ha
      rw [repMarkupGo_cons, Bool.and_eq_true]
      exact ⟨h.1, ih _ none (fun _ => rfl) h.2⟩

end Genshi.Xml

namespace Genshi.Xml
open Genshi Genshi.Escape Genshi.Xml.Reader

/-- the round trip for a list of events after `EmptyTagFilter` (character data not adjacent) -/
theorem roundtrip_xev (pref : List (Str × Str)) (hpref : prefOK pref = true) (rep : Char → Bool)
    (hr : AsciiRep rep) (xs : List XEv) (hd : docOK xs = true) (ht : inputTextOK rep pref xs = true) :
    ∃ out, serRun SerSt.init (flatten pref xs) = some out ∧
      Reader.read (encodeText rep out) = some (canonX xs) := by
  obtain ⟨hb, hm⟩ := textOK_of_input rep hr pref xs ht
  obtain ⟨o1, h1, _⟩ := tokenize_doc (fun _ => true) (fun _ _ => rfl) _ hb
  rw [serRunEnc_all] at h1
  obtain ⟨o2, h2, h3⟩ := tokenize_doc rep hr _ hb
  have := encodeText_serRun rep hr _ SerSt.init o1 hm h1
  rw [h2] at this
  cases this
  refine ⟨o1, h1, ?_⟩
  unfold Reader.read
  rw [h3]
  simp only [Option.bind_some]
  rw [resolve_tokOf]
  exact resolve_flatten pref hpref xs hd

/-- … and with adjacent (or empty) character data: the reader reports it merged -/
theorem roundtrip_xev_merged (pref : List (Str × Str)) (hpref : prefOK pref = true) (rep : Char → Bool)
    (hr : AsciiRep rep) (xs : List XEv) (hd : docOK xs = true) (ht : inputTextOKm rep pref xs = true) :
    ∃ out, serRun SerSt.init (flatten pref xs) = some out ∧
      Reader.read (encodeText rep out) = some (mergeR (canonX xs)) := by
  unfold inputTextOKm at ht
  simp only [Bool.and_eq_true] at ht
  obtain ⟨⟨⟨⟨hp, hev⟩, hns⟩, hdt⟩, hrm⟩ := ht
  have ht' : inputTextOK rep pref (mergeX xs) = true := by
    unfold inputTextOK
    simp only [Bool.and_eq_true]
    refine ⟨⟨⟨hp, evTxt_mergeX rep xs none hev⟩, ?_⟩, ?_⟩
    · unfold mergeX; rw [skeleton_mergeX]; exact hdt
    · unfold mergeX repMarkup; rw [skeleton_mergeX]
      exact repMarkupGo_mergeF rep _ false none (fun e => by cases e) hrm
  obtain ⟨out, h1, h2⟩ := roundtrip_xev pref hpref rep hr (mergeX xs) (docOK_mergeX xs hd) ht'
  rw [flatten_mergeX, serRun_mergeF'] at h1
  refine ⟨out, h1, ?_⟩
  rw [h2]
  unfold mergeX mergeR
  rw [canonX_mergeX xs none hns]

end Genshi.Xml

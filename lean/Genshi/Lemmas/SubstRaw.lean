/-
  C01 — raw-text elements: the reader in raw-text mode over what the html serializer writes there,
  and re-reading a stream WITH raw-text elements (`reread_rawtext_nostrip`).
-/
import Genshi.Lemmas.SubstTmpl
import Genshi.Model.SubstRaw
namespace Genshi.Subst
open Genshi.Escape Genshi.Str

/-! ### strings without `</` -/

theorem noEtago_lt_slash (b r : List Char) : noEtago (b ++ '<' :: '/' :: r) = false := by
  induction b with
  | nil => simp [noEtago]
  | cons x b ih => simp [noEtago, ih]

theorem noEtago_prefix (x y : List Char) (h : noEtago (x ++ y) = true) : noEtago x = true := by
  induction x with
  | nil => rfl
  | cons c cs ih =>
    simp only [List.cons_append, noEtago, Bool.and_eq_true, Bool.not_eq_true'] at h ⊢
    refine ⟨?_, ih h.2⟩
    cases cs with
    | nil => simp
    | cons d ds => simpa using h.1

/-! ### the reader inside a raw-text element -/

/-- inside a raw-text element whose content so far is `c` -/
def RawInv (st : RS) (c : List Char) : Prop :=
  st.buf = c ∧ (st.mode = .raw ∨ (st.mode = .rawLt ∧ ∃ b, c = b ++ ['<']))

theorem run_raw_chars (m : Method) (s : List Char) :
    ∀ (st : RS) (c : List Char), RawInv st c → noEtago (c ++ s) = true →
      ∃ st', run m st s = some st' ∧ RawInv st' (c ++ s) ∧ st'.out = st.out := by
  induction s with
  | nil => intro st c h _; exact ⟨st, rfl, by simpa using h, rfl⟩
  | cons x xs ih =>
    intro st c ⟨hb, hmode⟩ hne
    have hne' : noEtago ((c ++ [x]) ++ xs) = true := by simpa using hne
    rw [run_cons]
    rcases hmode with hm | ⟨hm, b, hcb⟩
    · by_cases hx : x = '<'
      · subst hx
        have hst : step m st '<' = some { st with mode := .rawLt, buf := st.buf ++ ['<'] } := by
          simp [step, hm]
        obtain ⟨st', h1, h2, h3⟩ := ih { st with mode := .rawLt, buf := st.buf ++ ['<'] } (c ++ ['<'])
          ⟨by simp [hb], Or.inr ⟨rfl, c, rfl⟩⟩ hne'
        refine ⟨st', ?_, by simpa using h2, h3⟩
        rw [hst]; exact h1
      · have hst : step m st x = some { st with mode := .raw, buf := st.buf ++ [x] } := by
          simp only [step, hm, hx, ↓reduceIte]
        obtain ⟨st', h1, h2, h3⟩ := ih { st with mode := .raw, buf := st.buf ++ [x] } (c ++ [x])
          ⟨by simp [hb], Or.inl rfl⟩ hne'
        refine ⟨st', ?_, by simpa using h2, h3⟩
        rw [hst]; exact h1
    · have hxs : x ≠ '/' := by
        intro e
        subst e
        rw [hcb] at hne
        have := noEtago_lt_slash b xs
        simp [this] at hne
      by_cases hx : x = '<'
      · subst hx
        have hst : step m st '<' = some { st with mode := .rawLt, buf := st.buf ++ ['<'] } := by
          cases st
          simp_all [step]
        obtain ⟨st', h1, h2, h3⟩ := ih { st with mode := .rawLt, buf := st.buf ++ ['<'] } (c ++ ['<'])
          ⟨by simp [hb], Or.inr ⟨rfl, c, rfl⟩⟩ hne'
        refine ⟨st', ?_, by simpa using h2, h3⟩
        rw [hst]; exact h1
      · have hst : step m st x = some { st with mode := .raw, buf := st.buf ++ [x] } := by
          simp [step, hm, hx, hxs]
        obtain ⟨st', h1, h2, h3⟩ := ih { st with mode := .raw, buf := st.buf ++ [x] } (c ++ [x])
          ⟨by simp [hb], Or.inl rfl⟩ hne'
        refine ⟨st', ?_, by simpa using h2, h3⟩
        rw [hst]; exact h1

theorem flushRaw_eq (c : List Char) : flushRaw c = flushData c := rfl

/-- the end tag that closes a raw-text element -/
theorem run_close_raw (m : Method) (st : RS) (c : List Char) (t : Name) (ht : IsName t) (h : RawInv st c) :
    ∃ st', run m st ('<' :: '/' :: (t ++ ['>'])) = some st' ∧ st'.mode = .text ∧ st'.buf = [] ∧
      st'.out = st.out ++ flushData c ++ [.end_ t] := by
  obtain ⟨hb, hmode⟩ := h
  have h1 : ∃ s1 : RS, step m st '<' = some s1 ∧ s1.mode = .rawLt ∧ s1.buf = c ++ ['<'] ∧ s1.out = st.out := by
    rcases hmode with hm | ⟨hm, _, _⟩
    · refine ⟨{ st with mode := .rawLt, buf := st.buf ++ ['<'] }, ?_, rfl, by simp [hb], rfl⟩
      simp [step, hm]
    · refine ⟨{ st with mode := .rawLt, buf := st.buf ++ ['<'] }, ?_, rfl, by simp [hb], rfl⟩
      cases st
      simp_all [step]
  obtain ⟨s1, hs1, hm1, hb1, ho1⟩ := h1
  rw [run_cons, hs1]
  simp only [Option.bind_some]
  have h2 : step m s1 '/' = some { s1 with mode := .closeName, buf := [], out := s1.out ++ flushRaw s1.buf.dropLast } := by
    simp [step, hm1]
  rw [run_cons, h2]
  simp only [Option.bind_some]
  rw [run_append, run_closeName_chars m t ht.2 _ rfl]
  simp only [Option.bind_some, List.nil_append]
  rw [run_cons, step_closeName_gt m _ rfl (by exact ht.1)]
  refine ⟨_, rfl, rfl, rfl, ?_⟩
  simp [hb1, ho1, flushRaw_eq]

/-! ### tokens after `EmptyTagFilter`, raw-text elements allowed -/

/-- the token streams the reader follows; `none`: outside a raw-text element, `some c`: inside one whose
    content so far is `c` -/
def ToksOkR (m : Method) : Option (List Char) → List Tok → Prop
  | none, [] => True
  | some _, [] => False
  | none, .text s f :: r => (f = true → SafeOk s) ∧ ToksOkR m none r
  | none, .open t a :: r =>
      isNameB t = true ∧ attrsOkB m a = true ∧ openOk m t = true ∧
        ToksOkR m (if isRawElem m t then some [] else none) r
  | none, .empty t a :: r => isNameB t = true ∧ attrsOkB m a = true ∧ ToksOkR m none r
  | none, .close t :: r => isNameB t = true ∧ ToksOkR m none r
  | some c, .text s _ :: r => noEtago (c ++ s) = true ∧ ToksOkR m (some (c ++ s)) r
  | some _, .close t :: r => isNameB t = true ∧ ToksOkR m none r
  | some _, .open _ _ :: _ => False
  | some _, .empty _ _ :: _ => False

/-- table facts: only html has raw-text elements, and none of them is a void element -/
theorem isRawElem_html (m : Method) (t : Name) (h : isRawElem m t = true) : m = .html := by
  cases m <;> simp_all [isRawElem, noescapeElems]

theorem raw_not_void : ((noescapeElems .html).all fun t => !(voidElems .html).contains t) = true := by decide

theorem raw_nonvoid (t : Name) (h : isRawElem .html t = true) : (voidElems .html).contains t = false := by
  have := List.all_eq_true.mp raw_not_void t (by simpa [isRawElem] using h)
  simpa using this

theorem emitOpen_raw (m : Method) (t : Name) (a : List (Name × List Char)) (h : attrsOkB m a = true) :
    emitOpen m t a = ('<' :: (t ++ attrsRaw (a.map fun p => (p.1, escapePy true p.2)))) ++ ['>'] := by
  simp [emitOpen, emitAttrs_plain m a h]

theorem startEvents_open (m : Method) (t : Name) (a : List (Name × List Char)) (h : openOk m t = true) :
    startEvents m t a = [.start t a] := by
  apply startEvents_nonvoid
  intro hm
  simpa [openOk, hm] using h

theorem escaped_no_lt (s : List Char) : ∀ c ∈ escapePy false s, c ≠ '<' := by
  intro c hc
  simp only [escapePy_eq_spec] at hc
  exact (escapeSpec_chars false s c hc).1

theorem run_toksR (m : Method) : ∀ (toks : List Tok) (st : RS),
    (∀ pp : List QChar, st.mode = .text → st.buf = escapeMixed pp → ToksOkR m none toks →
      ∃ st', run m st (serToks m false toks) = some st' ∧ st'.mode = .text ∧
        st'.out ++ flushText st'.buf = st.out ++ coalesceRGo m false (pp.map (·.2)) (toks.flatMap tokEvents)) ∧
    (∀ c : List Char, RawInv st c → ToksOkR m (some c) toks →
      ∃ st', run m st (serToks m true toks) = some st' ∧ st'.mode = .text ∧
        st'.out ++ flushText st'.buf = st.out ++ coalesceRGo m true c (toks.flatMap tokEvents)) := by
  intro toks
  induction toks with
  | nil =>
    intro st
    refine ⟨?_, ?_⟩
    · intro pp hm hb _
      exact ⟨st, rfl, hm, by simp [hb, coalesceRGo, flushText_mixed]⟩
    · intro c _ h; exact absurd h (by simp [ToksOkR])
  | cons tok toks ih =>
    intro st
    refine ⟨?_, ?_⟩
    · intro pp hm hb hok
      cases tok with
      | text s f =>
        obtain ⟨hsafe, hok'⟩ := hok
        cases f with
        | false =>
          have hr := run_text_chars m (escapePy false s) (escaped_no_lt s) st hm
          obtain ⟨st', h1, h2, h3⟩ := (ih { st with buf := st.buf ++ escapePy false s }).1
            (pp ++ s.map fun c => (false, c)) hm
            (by simp [hb, escapePy_false_mixed, escapeMixed_append]) hok'
          refine ⟨st', ?_, h2, ?_⟩
          · simp only [serToks, emitText, Bool.false_eq_true, ↓reduceIte]
            rw [run_append, hr]; exact h1
          · rw [h3]
            simp [tokEvents, coalesceRGo, textValue, List.map_map, Function.comp_def]
        | true =>
          obtain ⟨ps, rfl⟩ := hsafe rfl
          have hr := run_text_chars m (escapeMixed ps) (safeOk_no_lt _ ⟨ps, rfl⟩) st hm
          obtain ⟨st', h1, h2, h3⟩ := (ih { st with buf := st.buf ++ escapeMixed ps }).1
            (pp ++ ps) hm (by simp [hb, escapeMixed_append]) hok'
          refine ⟨st', ?_, h2, ?_⟩
          · simp only [serToks]
            rw [run_append, hr]; exact h1
          · rw [h3]
            simp [tokEvents, coalesceRGo, textValue, unescape_escapeMixed]
      | close t =>
        obtain ⟨hn, hok'⟩ := hok
        obtain ⟨s1, hr1, hm1, hb1, ho1⟩ := run_close m st t ((isNameB_iff t).mp hn) hm
        obtain ⟨st', h1, h2, h3⟩ := (ih s1).1 [] hm1 (by simp [hb1, escapeMixed_nil]) hok'
        refine ⟨st', ?_, h2, ?_⟩
        · simp only [serToks, emitClose]
          have e : ['<', '/'] ++ t ++ ['>'] = '<' :: '/' :: (t ++ ['>']) := by simp
          rw [e, run_append, hr1]; exact h1
        · rw [h3, ho1, hb, flushText_mixed]
          simp [tokEvents, coalesceRGo]
      | «open» t a =>
        obtain ⟨hn, ha, hop, hok'⟩ := hok
        obtain ⟨s1, hr1, hs1, ho1⟩ := run_tagHead m st t _ ((isNameB_iff t).mp hn) (rawAttrsOk_map m a ha) hm
        obtain ⟨s2, hr2, hm2, hb2, ho2⟩ := run_gt' m s1 t _ hs1
        have hrun : run m st (emitOpen m t a) = some s2 := by
          rw [emitOpen_raw m t a ha, run_append, hr1]; exact hr2
        have hout : s2.out = st.out ++ flushData (pp.map (·.2)) ++ [.start t a] := by
          rw [ho2, ho1, hb, flushText_mixed, decodeAttrs_escaped, startEvents_open m t a hop]
        by_cases hraw : isRawElem m t = true
        · simp only [hraw, ↓reduceIte] at hok' hm2
          obtain ⟨st', h1, h2, h3⟩ := (ih s2).2 [] ⟨hb2, Or.inl hm2⟩ hok'
          refine ⟨st', ?_, h2, ?_⟩
          · simp only [serToks, Bool.false_or]
            have : (noescapeElems m).contains t = true := hraw
            rw [this, run_append, hrun]; exact h1
          · rw [h3, hout]
            simp [tokEvents, coalesceRGo, hraw]
        · have hraw' : isRawElem m t = false := by simpa using hraw
          simp only [hraw', Bool.false_eq_true, ↓reduceIte] at hok' hm2
          obtain ⟨st', h1, h2, h3⟩ := (ih s2).1 [] hm2 (by simp [hb2, escapeMixed_nil]) hok'
          refine ⟨st', ?_, h2, ?_⟩
          · simp only [serToks, Bool.false_or]
            have : (noescapeElems m).contains t = false := hraw'
            rw [this, run_append, hrun]; exact h1
          · rw [h3, hout]
            simp [tokEvents, coalesceRGo, hraw']
      | empty t a =>
        obtain ⟨hn, ha, hok'⟩ := hok
        have hfinal : ∀ s2 : RS, run m st (emitEmpty m t a) = some s2 → s2.mode = .text → s2.buf = [] →
            s2.out = st.out ++ flushData (pp.map (·.2)) ++ [.start t a, .end_ t] →
            ∃ st', run m st (serToks m false (.empty t a :: toks)) = some st' ∧ st'.mode = .text ∧
              st'.out ++ flushText st'.buf =
                st.out ++ coalesceRGo m false (pp.map (·.2)) ((Tok.empty t a :: toks).flatMap tokEvents) := by
          intro s2 hrun hm2 hb2 hout
          obtain ⟨st', h1, h2, h3⟩ := (ih s2).1 [] hm2 (by simp [hb2, escapeMixed_nil]) hok'
          refine ⟨st', ?_, h2, ?_⟩
          · simp only [serToks]
            rw [run_append, hrun]; exact h1
          · rw [h3, hout]
            simp [tokEvents, coalesceRGo, flushData]
        by_cases hraw : isRawElem m t = true
        · -- `<script …></script>`: the reader enters raw-text mode and leaves it at once
          have hmh := isRawElem_html m t hraw
          subst hmh
          have hnv := raw_nonvoid t hraw
          obtain ⟨s1, hr1, hs1, ho1⟩ := run_tagHead .html st t _ ((isNameB_iff t).mp hn) (rawAttrsOk_map .html a ha) hm
          obtain ⟨s2, hr2, hm2, hb2, ho2⟩ := run_gt' .html s1 t _ hs1
          simp only [hraw, ↓reduceIte] at hm2
          obtain ⟨s3, hr3, hm3, hb3, ho3⟩ := run_close_raw .html s2 [] t ((isNameB_iff t).mp hn) ⟨hb2, Or.inl hm2⟩
          apply hfinal s3 _ hm3 hb3
          · rw [ho3, ho2, ho1, hb, flushText_mixed, decodeAttrs_escaped,
              startEvents_nonvoid .html t a (fun _ => hnv)]
            simp [flushData]
          · have e : emitEmpty .html t a =
                ('<' :: (t ++ attrsRaw (a.map fun p => (p.1, escapePy true p.2)))) ++ (['>'] ++ '<' :: '/' :: (t ++ ['>'])) := by
              simp only [emitEmpty, hnv, emitAttrs_plain .html a ha, emitClose]
              simp
            rw [e, run_append, hr1]
            simp only [Option.bind_some]
            rw [run_append, hr2]
            exact hr3
        · have hraw' : isRawElem m t = false := by simpa using hraw
          have hrt : RTokOk m (rawOf (.empty t a)) :=
            rtokOk_rawOf m (.empty t a) (by simp [tokOkB, hn, ha]; simpa [isRawElem] using hraw') (by simp)
          obtain ⟨s2, hr2, hm2, he2⟩ := run_rtok m _ hrt st hm
          have hem : emitEmpty m t a = emitRTok m (rawOf (.empty t a)) := by
            have := serToks_raw m [.empty t a] (by
              intro x hx
              simp only [List.mem_singleton] at hx
              subst hx
              simp [tokOkB, hn, ha]; simpa [isRawElem] using hraw')
            simpa [serToks] using this
          have ho : s2.out = st.out ++ flushText st.buf ++ [.start t a, .end_ t] := by
            have := congrArg Prod.fst he2
            simpa [absorb, rawOf, decodeAttrs_escaped] using this
          have hb2 : s2.buf = [] := by
            have := congrArg Prod.snd he2
            simpa [absorb, rawOf] using this
          apply hfinal s2 (by rw [hem]; exact hr2) hm2 hb2
          rw [ho, hb, flushText_mixed]
    · intro c hinv hok
      cases tok with
      | text s f =>
        obtain ⟨hne, hok'⟩ := hok
        obtain ⟨s1, hr1, hi1, ho1⟩ := run_raw_chars m s st c hinv hne
        obtain ⟨st', h1, h2, h3⟩ := (ih s1).2 (c ++ s) hi1 hok'
        refine ⟨st', ?_, h2, ?_⟩
        · have e : serToks m true (.text s f :: toks) = s ++ serToks m true toks := by
            cases f <;> simp [serToks]
          rw [e, run_append, hr1]; exact h1
        · rw [h3, ho1]
          simp [tokEvents, coalesceRGo]
      | close t =>
        obtain ⟨hn, hok'⟩ := hok
        obtain ⟨s1, hr1, hm1, hb1, ho1⟩ := run_close_raw m st c t ((isNameB_iff t).mp hn) hinv
        obtain ⟨st', h1, h2, h3⟩ := (ih s1).1 [] hm1 (by simp [hb1, escapeMixed_nil]) hok'
        refine ⟨st', ?_, h2, ?_⟩
        · simp only [serToks, emitClose]
          have e : ['<', '/'] ++ t ++ ['>'] = '<' :: '/' :: (t ++ ['>']) := by simp
          rw [e, run_append, hr1]; exact h1
        · rw [h3, ho1]
          simp [tokEvents, coalesceRGo]
      | «open» t a => exact absurd hok (by simp [ToksOkR])
      | empty t a => exact absurd hok (by simp [ToksOkR])

/-- re-reading what the serializer loop writes for a token stream with raw-text elements -/
theorem readDoc_toksR (m : Method) (toks : List Tok) (h : ToksOkR m none toks) :
    readDoc m (serToks m false toks) = some (coalesceRGo m false [] (toks.flatMap tokEvents)) := by
  obtain ⟨st, hr, hm, he⟩ := (run_toksR m toks initRS).1 [] rfl (by simp [initRS, escapeMixed_nil]) h
  unfold readDoc
  rw [hr]
  simp only [hm, ↓reduceIte]
  rw [he]
  simp [initRS]

/-! ### from events to tokens: `EmptyTagFilter` -/

/-- the event streams `reread_rawtext_nostrip` speaks about (`rawOkGo` is its decidable form) -/
def EvsOkR (m : Method) : Option (List Char) → List Ev → Prop
  | none, [] => True
  | some _, [] => False
  | none, .text s f :: r => (f = true → SafeOk s) ∧ EvsOkR m none r
  | none, .start t a :: r =>
      isNameB t = true ∧ attrsOkB m a = true ∧ EvsOkR m (if isRawElem m t then some [] else none) r
  | none, .end_ t :: r => isNameB t = true ∧ EvsOkR m none r
  | some c, .text s _ :: r => noEtago (c ++ s) = true ∧ EvsOkR m (some (c ++ s)) r
  | some _, .end_ t :: r => isNameB t = true ∧ EvsOkR m none r
  | some _, .start _ _ :: _ => False

theorem evsOkR_of_B (m : Method) (evs : List Ev) : ∀ rs, rawOkGo m rs evs = true → EvsOkR m rs evs := by
  induction evs with
  | nil => intro rs h; cases rs <;> simp_all [rawOkGo, EvsOkR]
  | cons e es ih =>
    intro rs h
    cases rs with
    | none =>
      cases e with
      | text s f =>
        simp only [rawOkGo, Bool.and_eq_true, Bool.or_eq_true, Bool.not_eq_true'] at h
        refine ⟨?_, ih _ h.2⟩
        intro hf
        rcases h.1 with h1 | h1
        · simp [hf] at h1
        · exact safeOk_of_B s h1
      | start t a =>
        simp only [rawOkGo, Bool.and_eq_true] at h
        exact ⟨h.1.1, h.1.2, ih _ h.2⟩
      | end_ t =>
        simp only [rawOkGo, Bool.and_eq_true] at h
        exact ⟨h.1, ih _ h.2⟩
    | some c =>
      cases e with
      | text s f =>
        simp only [rawOkGo, Bool.and_eq_true] at h
        exact ⟨h.1, ih _ h.2⟩
      | start t a => simp [rawOkGo] at h
      | end_ t =>
        simp only [rawOkGo, Bool.and_eq_true] at h
        exact ⟨h.1, ih _ h.2⟩

/-- what `EmptyTagFilter` yields for such a stream is a token stream the reader follows -/
theorem toksOkR_emptyTags (m : Method) (evs : List Ev) :
    (∀ rs, EvsOkR m rs evs → emptyOkGo m none evs = true → ToksOkR m rs (emptyTagsGo none evs)) ∧
    (∀ t a, isNameB t = true → attrsOkB m a = true →
      EvsOkR m (if isRawElem m t then some [] else none) evs → emptyOkGo m (some t) evs = true →
      ToksOkR m none (emptyTagsGo (some (t, a)) evs)) := by
  induction evs with
  | nil =>
    refine ⟨?_, ?_⟩
    · intro rs h _; cases rs <;> simp_all [EvsOkR, emptyTagsGo, ToksOkR]
    · intro t a _ _ _ h; simp [emptyOkGo] at h
  | cons e es ih =>
    refine ⟨?_, ?_⟩
    · intro rs h hn
      cases rs with
      | none =>
        cases e with
        | text s f =>
          simp only [emptyOkGo] at hn
          exact ⟨h.1, ih.1 _ h.2 hn⟩
        | start t a =>
          simp only [emptyOkGo] at hn
          exact ih.2 t a h.1 h.2.1 h.2.2 hn
        | end_ t =>
          simp only [emptyOkGo] at hn
          exact ⟨h.1, ih.1 _ h.2 hn⟩
      | some c =>
        cases e with
        | text s f =>
          simp only [emptyOkGo] at hn
          exact ⟨h.1, ih.1 _ h.2 hn⟩
        | start t a => exact absurd h (by simp [EvsOkR])
        | end_ t =>
          simp only [emptyOkGo] at hn
          exact ⟨h.1, ih.1 _ h.2 hn⟩
    · intro t a ht ha h hn
      cases e with
      | end_ t' =>
        simp only [emptyOkGo, Bool.and_eq_true] at hn
        have hrest : EvsOkR m none es := by
          by_cases hraw : isRawElem m t = true
          · simp only [hraw, ↓reduceIte] at h; exact h.2
          · simp only [hraw, Bool.false_eq_true, ↓reduceIte] at h; exact h.2
        exact ⟨ht, ha, ih.1 _ hrest hn.2⟩
      | start t' a' =>
        simp only [emptyOkGo, Bool.and_eq_true] at hn
        by_cases hraw : isRawElem m t = true
        · simp only [hraw, ↓reduceIte] at h; exact absurd h (by simp [EvsOkR])
        · simp only [hraw, Bool.false_eq_true, ↓reduceIte] at h
          refine ⟨ht, ha, hn.1, ?_⟩
          simp only [hraw, Bool.false_eq_true, ↓reduceIte]
          exact ih.2 t' a' h.1 h.2.1 h.2.2 hn.2
      | text s f =>
        simp only [emptyOkGo, Bool.and_eq_true] at hn
        refine ⟨ht, ha, hn.1, ?_⟩
        by_cases hraw : isRawElem m t = true
        · simp only [hraw, ↓reduceIte] at h ⊢
          exact ⟨h.1, ih.1 _ h.2 hn.2⟩
        · simp only [hraw, Bool.false_eq_true, ↓reduceIte] at h ⊢
          exact ⟨h.1, ih.1 _ h.2 hn.2⟩

/-- **re-reading what the html serializer wrote for a stream WITH raw-text elements** (no whitespace
    stripping): outside them the stream with its character data merged and decoded, inside them the
    emitted strings as they are -/
theorem readDoc_serialize_rawtext (m : Method) (evs : List Ev)
    (hok : EvsOkR m none evs) (hnest : emptyOkGo m none evs = true) :
    readDoc m (serialize m false evs) = some (coalesceR m evs) := by
  have htoks := (toksOkR_emptyTags m evs).1 none hok hnest
  have hev := emptyTags_events m evs none (by simpa [pendName] using hnest)
  simp only [serialize, Bool.false_eq_true, ↓reduceIte]
  unfold emptyTags
  rw [readDoc_toksR m _ htoks, hev]
  simp [coalesceR, pendEvents]

/-! ### contextual equivalence for the raw-aware merge

  `TEq` (indistinguishable for every reader without raw-text mode) is what the site lemmas prove.  Outside
  raw-text elements it carries over: a reader that marks every flush (`flMark`) shows the whole state
  the merge is in after a stream, and the raw-aware merge is a function of that. -/

/-- from outside a raw-text element: after `a` the raw-aware merge has produced `X` and holds `pend'` -/
def FactR (m : Method) (a : List Ev) (pend : List Char) (X : List Ev) (pend' : List Char) : Prop :=
  ∀ rest, coalesceRGo m false pend (a ++ rest) = X ++ coalesceRGo m false pend' rest

/-- the two streams leave the raw-aware merge with the same output and in the same state -/
def TEqR (m : Method) (a b : List Ev) : Prop :=
  ∀ pend, ∃ X pend', FactR m a pend X pend' ∧ FactR m b pend X pend'

theorem TEqR.nil (m : Method) : TEqR m [] [] :=
  fun pend => ⟨[], pend, fun _ => rfl, fun _ => rfl⟩

theorem FactR.append {m : Method} {a b : List Ev} {p0 p1 p2 : List Char} {X1 X2 : List Ev}
    (h1 : FactR m a p0 X1 p1) (h2 : FactR m b p1 X2 p2) : FactR m (a ++ b) p0 (X1 ++ X2) p2 := by
  intro rest
  rw [List.append_assoc, h1, h2, List.append_assoc]

theorem TEqR.append {m : Method} {a a' b b' : List Ev} (h1 : TEqR m a a') (h2 : TEqR m b b') :
    TEqR m (a ++ b) (a' ++ b') := by
  intro pend
  obtain ⟨X1, p1, f1, f1'⟩ := h1 pend
  obtain ⟨X2, p2, f2, f2'⟩ := h2 p1
  exact ⟨X1 ++ X2, p2, f1.append f2, f1'.append f2'⟩

theorem FactR.wrap {m : Method} {a : List Ev} {X : List Ev} {p' : List Char} (t : Name)
    (at_ : List (Name × List Char)) (hraw : isRawElem m t = false) (h : FactR m a [] X p') (pend : List Char) :
    FactR m (.start t at_ :: (a ++ [.end_ t])) pend
      (flushData pend ++ .start t at_ :: (X ++ (flushData p' ++ [.end_ t]))) [] := by
  intro rest
  simp only [List.cons_append, List.append_assoc, coalesceRGo, hraw]
  rw [h]
  simp [coalesceRGo]

theorem TEqR.wrap {m : Method} {a a' : List Ev} (t : Name) (at_ : List (Name × List Char))
    (hraw : isRawElem m t = false) (h : TEqR m a a') :
    TEqR m (.start t at_ :: (a ++ [.end_ t])) (.start t at_ :: (a' ++ [.end_ t])) := by
  intro pend
  obtain ⟨X, p', f, f'⟩ := h []
  exact ⟨_, [], f.wrap t at_ hraw pend, f'.wrap t at_ hraw pend⟩

theorem coalesceRGo_rawTexts (m : Method) (txts : List Ev) (h : txts.all isTextEv = true) :
    ∀ c rest, coalesceRGo m true c (txts ++ rest) = coalesceRGo m true (c ++ rawData txts) rest := by
  induction txts with
  | nil => intro c rest; simp [rawData]
  | cons e es ih =>
    intro c rest
    simp only [List.all_cons, Bool.and_eq_true] at h
    cases e with
    | text s f =>
      simp only [List.cons_append, coalesceRGo, rawData]
      rw [ih h.2]; simp
    | start t a => simp [isTextEv] at h
    | end_ t => simp [isTextEv] at h

theorem FactR.rawElem (m : Method) (t : Name) (at_ : List (Name × List Char)) (txts : List Ev)
    (hraw : isRawElem m t = true) (h : txts.all isTextEv = true) (pend : List Char) :
    FactR m (.start t at_ :: (txts ++ [.end_ t])) pend
      (flushData pend ++ .start t at_ :: (flushData (rawData txts) ++ [.end_ t])) [] := by
  intro rest
  simp only [List.cons_append, List.append_assoc, coalesceRGo, hraw]
  rw [coalesceRGo_rawTexts m txts h]
  simp [coalesceRGo]

/-- a raw-text element with text-only content and the element holding the concatenated strings as one text -/
theorem TEqR.rawElem (m : Method) (t : Name) (at_ : List (Name × List Char)) (txts : List Ev)
    (hraw : isRawElem m t = true) (h : txts.all isTextEv = true) :
    TEqR m (.start t at_ :: (txts ++ [.end_ t])) (.start t at_ :: ([.text (rawData txts) false] ++ [.end_ t])) := by
  intro pend
  refine ⟨_, [], FactR.rawElem m t at_ txts hraw h pend, ?_⟩
  have := FactR.rawElem m t at_ [.text (rawData txts) false] hraw (by simp [isTextEv]) pend
  simpa [rawData] using this

/-! the marking reader -/

def flMark : Nat → List Char → List Ev := fun _ pend => [.text pend true]

def unmX : List Ev → List Ev
  | .text pend _ :: .start t a :: more => flushData pend ++ .start t a :: unmX more
  | .text pend _ :: .end_ t :: more => flushData pend ++ .end_ t :: unmX more
  | _ => []

def unmP : List Ev → List Char
  | .text _ _ :: .start _ _ :: more => unmP more
  | .text _ _ :: .end_ _ :: more => unmP more
  | [.text pend _] => pend
  | _ => []

theorem unmX_start (p : List Char) (f : Bool) (t : Name) (a : List (Name × List Char)) (more : List Ev) :
    unmX (.text p f :: .start t a :: more) = flushData p ++ .start t a :: unmX more := by rw [unmX]
theorem unmX_end (p : List Char) (f : Bool) (t : Name) (more : List Ev) :
    unmX (.text p f :: .end_ t :: more) = flushData p ++ .end_ t :: unmX more := by rw [unmX]
theorem unmP_start (p : List Char) (f : Bool) (t : Name) (a : List (Name × List Char)) (more : List Ev) :
    unmP (.text p f :: .start t a :: more) = unmP more := by rw [unmP]
theorem unmP_end (p : List Char) (f : Bool) (t : Name) (more : List Ev) :
    unmP (.text p f :: .end_ t :: more) = unmP more := by rw [unmP]

theorem presStep_nil (t : Name) : presStep [] 0 t = 0 := by simp [presStep]

theorem mark_fact (m : Method) (x : List Ev) (hraw : ∀ t a, Ev.start t a ∈ x → isRawElem m t = false) :
    ∀ pend, FactR m x pend (unmX (coalesceWith flMark [] 0 pend x)) (unmP (coalesceWith flMark [] 0 pend x)) := by
  induction x with
  | nil => intro pend rest; simp [coalesceWith, flMark, unmX, unmP]
  | cons e es ih =>
    have ih' := ih fun t a h => hraw t a (List.mem_cons_of_mem _ h)
    intro pend rest
    cases e with
    | text s f =>
      simp only [List.cons_append, coalesceWith, coalesceRGo]
      exact ih' _ rest
    | start t a =>
      have hr := hraw t a (by simp)
      simp only [List.cons_append, coalesceWith, coalesceRGo, hr, presStep_nil]
      rw [ih' [] rest]
      simp [flMark, unmX_start, unmP_start, unmX_end, unmP_end]
    | end_ t =>
      simp only [List.cons_append, coalesceWith, coalesceRGo, Nat.zero_sub]
      rw [ih' [] rest]
      simp [flMark, unmX_start, unmP_start, unmX_end, unmP_end]

theorem mark_starts (x : List Ev) (t : Name) (a : List (Name × List Char)) :
    ∀ pend, Ev.start t a ∈ coalesceWith flMark [] 0 pend x ↔ Ev.start t a ∈ x := by
  induction x with
  | nil => intro pend; simp [coalesceWith, flMark]
  | cons e es ih =>
    intro pend
    cases e with
    | text s f => simp [coalesceWith, ih]
    | start t' a' => simp [coalesceWith, flMark, presStep_nil, ih]
    | end_ t' => simp [coalesceWith, flMark, ih]

/-- outside raw-text elements `TEq` carries over to the raw-aware merge -/
theorem TEqR.ofTEq (m : Method) {a b : List Ev} (ha : ∀ e ∈ a, evOkB m e = true) (h : TEq a b) : TEqR m a b := by
  intro pend
  have hm : coalesceWith flMark [] 0 pend a = coalesceWith flMark [] 0 pend b := by
    simpa using h flMark [] 0 pend []
  have hra : ∀ t at_, Ev.start t at_ ∈ a → isRawElem m t = false := by
    intro t at_ hmem
    have := ha _ hmem
    simp only [evOkB, Bool.and_eq_true, Bool.not_eq_true'] at this
    exact this.2
  have hrb : ∀ t at_, Ev.start t at_ ∈ b → isRawElem m t = false := by
    intro t at_ hmem
    apply hra t at_
    rw [← mark_starts a t at_ pend, hm, mark_starts b t at_ pend]
    exact hmem
  refine ⟨_, _, mark_fact m a hra pend, ?_⟩
  rw [hm]
  exact mark_fact m b hrb pend

/-! ### streams with raw-text elements, compositionally -/

structure StreamOkR (m : Method) (a : List Ev) : Prop where
  ok : ∀ b, EvsOkR m none b → EvsOkR m none (a ++ b)
  closed : Closed m a

theorem evsOkR_append_plain (m : Method) (a : List Ev) (hev : ∀ e ∈ a, evOkB m e = true) (hs : TextsOk a)
    (b : List Ev) (hb : EvsOkR m none b) : EvsOkR m none (a ++ b) := by
  induction a with
  | nil => exact hb
  | cons e es ih =>
    have ih' := ih (fun x hx => hev x (List.mem_cons_of_mem _ hx)) (fun s h => hs s (List.mem_cons_of_mem _ h))
    have he := hev e (by simp)
    cases e with
    | text s f =>
      refine ⟨?_, ih'⟩
      intro hf; subst hf; exact hs s (by simp)
    | start t at_ =>
      simp only [evOkB, Bool.and_eq_true, Bool.not_eq_true'] at he
      have hr : isRawElem m t = false := he.2
      refine ⟨he.1.1, he.1.2, ?_⟩
      simp only [hr, Bool.false_eq_true, ↓reduceIte]
      exact ih'
    | end_ t => exact ⟨he, ih'⟩

theorem StreamOkR.ofStreamOk {m : Method} {a : List Ev} (h : StreamOk m a) : StreamOkR m a :=
  ⟨evsOkR_append_plain m a h.ev h.safe, h.closed⟩

theorem StreamOkR.nil (m : Method) : StreamOkR m [] := StreamOkR.ofStreamOk (StreamOk.nil m)

theorem Closed.append {m : Method} {a b : List Ev} (ha : Closed m a) (hb : Closed m b) : Closed m (a ++ b) := by
  refine ⟨?_, ?_⟩
  · intro rest
    rw [List.append_assoc, ha.1, hb.1]
  · intro t rest hne
    by_cases hae : a = []
    · subst hae
      simp only [List.nil_append] at hne ⊢
      exact hb.2 t rest hne
    · rw [List.append_assoc, ha.2 t _ hae, hb.1]

theorem StreamOkR.append {m : Method} {a b : List Ev} (ha : StreamOkR m a) (hb : StreamOkR m b) :
    StreamOkR m (a ++ b) :=
  ⟨fun c hc => by rw [List.append_assoc]; exact ha.ok _ (hb.ok c hc), ha.closed.append hb.closed⟩

theorem Closed.wrap {m : Method} {kids : List Ev} (t : Name) (at_ : List (Name × List Char))
    (hvoid : openOk m t = true ∨ kids = []) (hk : Closed m kids) :
    Closed m (.start t at_ :: (kids ++ [.end_ t])) := by
  have hkey : ∀ rest, emptyOkGo m (some t) (kids ++ (.end_ t :: rest)) = emptyOkGo m none rest := by
    intro rest
    by_cases hke : kids = []
    · subst hke; simp [emptyOkGo]
    · rw [hk.2 t _ hke]
      rcases hvoid with h | h
      · simp [h, emptyOkGo]
      · exact absurd h hke
  refine ⟨?_, ?_⟩
  · intro rest
    simp only [List.cons_append, List.append_assoc, emptyOkGo, List.nil_append]
    exact hkey rest
  · intro t' rest _
    simp only [List.cons_append, List.append_assoc, emptyOkGo, List.nil_append]
    rw [hkey rest]

theorem StreamOkR.wrap {m : Method} {kids : List Ev} (t : Name) (at_ : List (Name × List Char))
    (hn : isNameB t = true) (hraw : isRawElem m t = false) (hat : attrsOkB m at_ = true)
    (hvoid : openOk m t = true ∨ kids = []) (hk : StreamOkR m kids) :
    StreamOkR m (.start t at_ :: (kids ++ [.end_ t])) := by
  refine ⟨?_, Closed.wrap t at_ hvoid hk.closed⟩
  intro b hb
  refine ⟨hn, hat, ?_⟩
  simp only [hraw, Bool.false_eq_true, ↓reduceIte]
  have hend : EvsOkR m none (.end_ t :: b) := ⟨hn, hb⟩
  simpa using hk.ok _ hend

theorem closed_texts (m : Method) (txts : List Ev) (h : txts.all isTextEv = true) : Closed m txts := by
  induction txts with
  | nil => exact (StreamOk.nil m).closed
  | cons e es ih =>
    simp only [List.all_cons, Bool.and_eq_true] at h
    cases e with
    | text s f =>
      have h1 : Closed m [Ev.text s f] := (StreamOk.text m s false (by simp)).closed |> fun _ =>
        ⟨by simp [emptyOkGo], by intro t rest _; simp [emptyOkGo]⟩
      simpa using h1.append (ih h.2)
    | start t a => simp [isTextEv] at h
    | end_ t => simp [isTextEv] at h

theorem evsOkR_rawTexts (m : Method) (txts : List Ev) (h : txts.all isTextEv = true) (rest : List Ev) :
    ∀ c, noEtago (c ++ rawData txts) = true → EvsOkR m (some (c ++ rawData txts)) rest →
      EvsOkR m (some c) (txts ++ rest) := by
  induction txts with
  | nil => intro c _ hr; simpa [rawData] using hr
  | cons e es ih =>
    intro c hne hr
    simp only [List.all_cons, Bool.and_eq_true] at h
    cases e with
    | text s f =>
      simp only [rawData] at hne hr
      rw [← List.append_assoc] at hne hr
      exact ⟨noEtago_prefix _ _ hne, ih h.2 (c ++ s) hne hr⟩
    | start t a => simp [isTextEv] at h
    | end_ t => simp [isTextEv] at h

/-- a raw-text element whose content is text events whose strings together hold no `</` -/
theorem StreamOkR.rawElem {m : Method} (t : Name) (at_ : List (Name × List Char)) (txts : List Ev)
    (hn : isNameB t = true) (hraw : isRawElem m t = true) (hat : attrsOkB m at_ = true)
    (hvoid : openOk m t = true ∨ txts = []) (h : txts.all isTextEv = true)
    (hne : noEtago (rawData txts) = true) :
    StreamOkR m (.start t at_ :: (txts ++ [.end_ t])) := by
  refine ⟨?_, Closed.wrap t at_ hvoid (closed_texts m txts h)⟩
  intro b hb
  refine ⟨hn, hat, ?_⟩
  simp only [hraw, ↓reduceIte]
  have hend : EvsOkR m (some ([] ++ rawData txts)) (.end_ t :: b) := ⟨hn, hb⟩
  simpa using evsOkR_rawTexts m txts h (.end_ t :: b) [] (by simpa using hne) hend

theorem flatMap_specR (m : Method) (xs : List Scalar) (f g : Scalar → List Ev)
    (h : ∀ x ∈ xs, StreamOkR m (f x) ∧ TEqR m (f x) (g x)) :
    StreamOkR m (xs.flatMap f) ∧ TEqR m (xs.flatMap f) (xs.flatMap g) := by
  induction xs with
  | nil => exact ⟨StreamOkR.nil m, TEqR.nil m⟩
  | cons x xs ih =>
    obtain ⟨h1, h2⟩ := h x (by simp)
    obtain ⟨i1, i2⟩ := ih fun y hy => h y (List.mem_cons_of_mem _ hy)
    simp only [List.flatMap_cons]
    exact ⟨h1.append i1, h2.append i2⟩

/-! ### templates with raw-text elements -/

mutual
  theorem node_specR (m : Method) : ∀ (n : Node) (env : Env), nodeOkR m env n = true → nodeOk env n = true →
      EnvOk env → StreamOkR m (renderNode env n) ∧ TEqR m (renderNode env n) (expectedNodeR m env n)
    | .lit s, env, _, _, _ => by
        have h := StreamOk.text m s false (by simp)
        simpa [renderNode, expectedNodeR] using
          (⟨StreamOkR.ofStreamOk h, TEqR.ofTEq m h.ev (TEq.refl _)⟩ :
            StreamOkR m [.text s false] ∧ TEqR m [.text s false] [.text s false])
    | .site e, env, hs, hd, he => by
        obtain ⟨h1, h2⟩ := site_spec m env e (by simpa [nodeOkR] using hs) (by simpa [nodeOk] using hd) he
        simpa [renderNode, expectedNodeR] using
          (⟨StreamOkR.ofStreamOk h1, TEqR.ofTEq m h1.ev h2⟩ :
            StreamOkR m (evalSite env e) ∧ TEqR m (evalSite env e) (expectedSite env e))
    | .el t attrs pa kids, env, hs, hd, he => by
        simp only [nodeOkR, Bool.and_eq_true] at hs
        obtain ⟨⟨⟨⟨hn, ha⟩, hpa⟩, hvoid⟩, hk⟩ := hs
        have hattrs : ∀ p ∈ attrs, attrNameOkB m p.1 = true := by
          intro p hp
          have := (List.all_eq_true.mp ha) p hp
          simp only [Bool.and_eq_true] at this
          exact this.1
        have hv : openOk m t = true ∨ renderList env kids = [] := by
          simp only [Bool.or_eq_true] at hvoid
          rcases hvoid with h | h
          · exact Or.inl h
          · right
            have : kids = [] := by simpa using h
            subst this; simp [renderList]
        have fin : ∀ at_ : List (Name × List Char), attrsOkB m at_ = true →
            StreamOkR m (.start t at_ :: (renderList env kids ++ [.end_ t])) ∧
            TEqR m (.start t at_ :: (renderList env kids ++ [.end_ t]))
              (.start t at_ :: ((if isRawElem m t then [.text (rawData (renderList env kids)) false]
                else expectedListR m env kids) ++ [.end_ t])) := by
          intro at_ hat
          by_cases hraw : isRawElem m t = true
          · simp only [hraw, ↓reduceIte, Bool.and_eq_true] at hk ⊢
            exact ⟨StreamOkR.rawElem t _ _ hn hraw hat hv hk.1 hk.2, TEqR.rawElem m t _ _ hraw hk.1⟩
          · have hraw' : isRawElem m t = false := by simpa using hraw
            simp only [hraw', Bool.false_eq_true, ↓reduceIte] at hk ⊢
            obtain ⟨k1, k2⟩ := list_specR m kids env hk (by simpa [nodeOk] using hd) he
            exact ⟨StreamOkR.wrap t _ hn hraw' hat hv k1, TEqR.wrap t _ hraw' k2⟩
        cases pa with
        | none =>
          simp only [renderNode, expectedNodeR]
          exact fin _ (evalAttrs_ok m env attrs hattrs)
        | some items =>
          simp only [renderNode, expectedNodeR]
          exact fin _ (evalAttrs_ok m env _ (applyPyAttrs_names m env attrs items hattrs (by
            intro p hp
            have := (List.all_eq_true.mp hpa) p hp
            simp only [Bool.and_eq_true] at this
            exact this.1)))
    | .loop e kids, env, hs, hd, he => by
        simp only [nodeOkR, Bool.and_eq_true, List.all_eq_true] at hs
        have hv := evalV_ok env e hs.1 he
        have hx := itemsOf_ok _ hv
        simp only [nodeOk, List.all_eq_true] at hd
        simp only [renderNode, expectedNodeR]
        apply flatMap_specR
        intro x hxm
        exact list_specR m kids (x :: env) (hs.2 x hxm) (hd x hxm) (EnvOk.cons (hx x hxm) he)
    | .bind a kids, env, hs, hd, he => by
        simp only [nodeOkR, Bool.and_eq_true] at hs
        simpa [renderNode, expectedNodeR] using
          list_specR m kids (evalAtom env a :: env) hs.2 (by simpa [nodeOk] using hd)
            (EnvOk.cons (evalAtom_ok env a hs.1 he) he)
    | .cond b kids, env, hs, hd, he => by
        cases b with
        | false =>
          exact ⟨by simpa [renderNode] using StreamOkR.nil m, by simpa [renderNode, expectedNodeR] using TEqR.nil m⟩
        | true =>
          simpa [renderNode, expectedNodeR] using
            list_specR m kids env (by simpa [nodeOkR] using hs) (by simpa [nodeOk] using hd) he
  theorem list_specR (m : Method) : ∀ (ns : List Node) (env : Env), nodesOkR m env ns = true → listOk env ns = true →
      EnvOk env → StreamOkR m (renderList env ns) ∧ TEqR m (renderList env ns) (expectedListR m env ns)
    | [], _, _, _, _ => by
        simpa [renderList, expectedListR] using (⟨StreamOkR.nil m, TEqR.nil m⟩ : StreamOkR m [] ∧ TEqR m [] [])
    | n :: ns, env, hs, hd, he => by
        simp only [nodesOkR, Bool.and_eq_true] at hs
        simp only [listOk, Bool.and_eq_true] at hd
        obtain ⟨h1, h2⟩ := node_specR m n env hs.1 hd.1 he
        obtain ⟨i1, i2⟩ := list_specR m ns env hs.2 hd.2 he
        simp only [renderList, expectedListR]
        exact ⟨h1.append i1, h2.append i2⟩
end

/-- re-reading a rendered template with raw-text elements (no whitespace stripping) -/
theorem readDoc_render_rawtext (m : Method) (env : Env) (T : List Node)
    (hs : nodesOkR m env T = true) (hd : listOk env T = true) (he : EnvOk env) :
    readDoc m (serialize m false (renderList env T)) = some (coalesceR m (expectedListR m env T)) := by
  obtain ⟨h1, h2⟩ := list_specR m T env hs hd he
  have hok : EvsOkR m none (renderList env T) := by simpa using h1.ok [] trivial
  have hnest : emptyOkGo m none (renderList env T) = true := by
    have := h1.closed.1 []
    simpa [emptyOkGo] using this
  rw [readDoc_serialize_rawtext m _ hok hnest]
  obtain ⟨X, p', f1, f2⟩ := h2 []
  have e1 := f1 []
  have e2 := f2 []
  simp only [List.append_nil] at e1 e2
  simp only [coalesceR, e1, e2]

/-! ### consistency with the statements without raw-text elements -/

theorem coalesceRGo_plain (m : Method) (evs : List Ev) (h : ∀ t a, Ev.start t a ∈ evs → isRawElem m t = false) :
    ∀ pend, coalesceRGo m false pend evs = coalesceGo pend evs := by
  induction evs with
  | nil => intro pend; rfl
  | cons e es ih =>
    have ih' := ih fun t a hm => h t a (List.mem_cons_of_mem _ hm)
    intro pend
    cases e with
    | text s f => simp [coalesceRGo, coalesceGo, ih']
    | start t a => simp [coalesceRGo, coalesceGo, ih', h t a (by simp)]
    | end_ t => simp [coalesceRGo, coalesceGo, ih']

theorem coalesceR_plain (m : Method) (evs : List Ev) (h : ∀ t a, Ev.start t a ∈ evs → isRawElem m t = false) :
    coalesceR m evs = coalesce evs := coalesceRGo_plain m evs h []

mutual
  theorem nodeOkR_of_B (m : Method) : ∀ (n : Node) (env : Env), nodeOkB m n = true → nodeOkR m env n = true
    | .lit _, _, _ => rfl
    | .site e, _, h => by simpa [nodeOkB, nodeOkR] using h
    | .el t attrs pa kids, env, h => by
        simp only [nodeOkB, tagOkB, Bool.and_eq_true, Bool.not_eq_true'] at h
        obtain ⟨⟨⟨⟨⟨hn, hraw⟩, ha⟩, hpa⟩, hvoid⟩, hk⟩ := h
        have hraw' : isRawElem m t = false := hraw
        simp only [nodeOkR, Bool.and_eq_true, hraw', Bool.false_eq_true, ↓reduceIte]
        exact ⟨⟨⟨⟨hn, ha⟩, hpa⟩, hvoid⟩, nodesOkR_of_B m kids env hk⟩
    | .loop e kids, env, h => by
        simp only [nodeOkB, Bool.and_eq_true] at h
        simp only [nodeOkR, Bool.and_eq_true, List.all_eq_true]
        exact ⟨h.1, fun x _ => nodesOkR_of_B m kids (x :: env) h.2⟩
    | .bind a kids, env, h => by
        simp only [nodeOkB, Bool.and_eq_true] at h
        simp only [nodeOkR, Bool.and_eq_true]
        exact ⟨h.1, nodesOkR_of_B m kids _ h.2⟩
    | .cond b kids, env, h => by
        cases b with
        | false => simp [nodeOkR]
        | true => simpa [nodeOkR] using nodesOkR_of_B m kids env (by simpa [nodeOkB] using h)
  theorem nodesOkR_of_B (m : Method) : ∀ (ns : List Node) (env : Env), nodesOkB m ns = true → nodesOkR m env ns = true
    | [], _, _ => rfl
    | n :: ns, env, h => by
        simp only [nodesOkB, Bool.and_eq_true] at h
        simp only [nodesOkR, Bool.and_eq_true]
        exact ⟨nodeOkR_of_B m n env h.1, nodesOkR_of_B m ns env h.2⟩
end

mutual
  theorem expectedNodeR_of_B (m : Method) : ∀ (n : Node) (env : Env), nodeOkB m n = true →
      expectedNodeR m env n = expectedNode env n
    | .lit _, _, _ => rfl
    | .site _, _, _ => rfl
    | .el t attrs pa kids, env, h => by
        simp only [nodeOkB, tagOkB, Bool.and_eq_true, Bool.not_eq_true'] at h
        have hraw' : isRawElem m t = false := h.1.1.1.1.2
        have hk := expectedListR_of_B m kids env h.2
        cases pa <;> simp [expectedNodeR, expectedNode, hraw', hk]
    | .loop e kids, env, h => by
        simp only [nodeOkB, Bool.and_eq_true] at h
        simp only [expectedNodeR, expectedNode]
        congr 1
        funext x
        exact expectedListR_of_B m kids (x :: env) h.2
    | .bind a kids, env, h => by
        simp only [nodeOkB, Bool.and_eq_true] at h
        simp only [expectedNodeR, expectedNode]
        exact expectedListR_of_B m kids _ h.2
    | .cond b kids, env, h => by
        cases b with
        | false => simp [expectedNodeR, expectedNode]
        | true => simpa [expectedNodeR, expectedNode] using expectedListR_of_B m kids env (by simpa [nodeOkB] using h)
  theorem expectedListR_of_B (m : Method) : ∀ (ns : List Node) (env : Env), nodesOkB m ns = true →
      expectedListR m env ns = expectedList env ns
    | [], _, _ => rfl
    | n :: ns, env, h => by
        simp only [nodesOkB, Bool.and_eq_true] at h
        simp only [expectedListR, expectedList, expectedNodeR_of_B m n env h.1, expectedListR_of_B m ns env h.2]
end

/-! ### rendered templates satisfy the hypothesis of `escaping_by_enclosing_elements` -/

/-- the stack of open elements that goes with the reader state: outside raw text no open element is a
    raw-text element; inside, exactly the innermost one is -/
def StackInv (m : Method) : Option (List Char) → List Name → Prop
  | none, st => ∀ t ∈ st, isRawElem m t = false
  | some _, st => ∃ t st', st = t :: st' ∧ isRawElem m t = true ∧ ∀ u ∈ st', isRawElem m u = false

theorem topRaw_plain (m : Method) (st : List Name) (h : ∀ t ∈ st, isRawElem m t = false) : topRaw m st = false := by
  cases st with
  | nil => rfl
  | cons t ts => exact h t (by simp)

theorem toksOkR_rawLeaf (m : Method) (toks : List Tok) :
    ∀ (rs : Option (List Char)) (st : List Name), ToksOkR m rs toks → StackInv m rs st → rawLeafGo m st toks = true := by
  induction toks with
  | nil => intro rs st _ _; rfl
  | cons tok toks ih =>
    intro rs st hok hst
    cases rs with
    | none =>
      have hst' : ∀ t ∈ st, isRawElem m t = false := hst
      cases tok with
      | text s f => exact ih none st hok.2 hst
      | «open» t a =>
        obtain ⟨_, _, _, hok'⟩ := hok
        simp only [rawLeafGo, topRaw_plain m st hst', Bool.not_false, Bool.true_and]
        by_cases hraw : isRawElem m t = true
        · simp only [hraw, ↓reduceIte] at hok'
          exact ih (some []) (t :: st) hok' ⟨t, st, rfl, hraw, hst'⟩
        · have hraw' : isRawElem m t = false := by simpa using hraw
          simp only [hraw', Bool.false_eq_true, ↓reduceIte] at hok'
          refine ih none (t :: st) hok' ?_
          intro u hu
          rcases List.mem_cons.mp hu with rfl | hu
          · exact hraw'
          · exact hst' u hu
      | empty t a =>
        simp only [rawLeafGo, topRaw_plain m st hst', Bool.not_false, Bool.true_and]
        exact ih none st hok.2.2 hst
      | close t =>
        simp only [rawLeafGo]
        refine ih none st.tail hok.2 ?_
        intro u hu
        exact hst' u (List.mem_of_mem_tail hu)
    | some c =>
      obtain ⟨t0, st', rfl, hraw0, hrest⟩ := hst
      cases tok with
      | text s f => exact ih (some (c ++ s)) (t0 :: st') hok.2 ⟨t0, st', rfl, hraw0, hrest⟩
      | «open» t a => exact absurd hok (by simp [ToksOkR])
      | empty t a => exact absurd hok (by simp [ToksOkR])
      | close t =>
        simp only [rawLeafGo, List.tail_cons]
        exact ih none st' hok.2 hrest

/-- in a rendered template of `nodesOkR` raw-text elements have no element children -/
theorem render_rawLeaf (m : Method) (env : Env) (T : List Node)
    (hs : nodesOkR m env T = true) (hd : listOk env T = true) (he : EnvOk env) :
    rawLeafGo m [] (emptyTags (renderList env T)) = true := by
  obtain ⟨h1, _⟩ := list_specR m T env hs hd he
  have hok : EvsOkR m none (renderList env T) := by simpa using h1.ok [] trivial
  have hnest : emptyOkGo m none (renderList env T) = true := by
    have := h1.closed.1 []
    simpa [emptyOkGo] using this
  exact toksOkR_rawLeaf m _ none [] ((toksOkR_emptyTags m _).1 none hok hnest) (by intro t ht; simp at ht)

end Genshi.Subst

/-
  Helper lemmas for C08: the tokenizer in XML mode run on what the xhtml
  serializer writes, event by event (CDATA sections excluded: the reader is
  always in character-data mode between events).
-/
import Genshi.Lemmas.ReaderHtml
namespace Genshi.Reader
open Genshi Genshi.Escape Genshi.Output

/-- what the xhtml serializer's attribute loop means (specification): a boolean attribute is
    written `name="name"` whatever its value; `xml:lang` is accompanied by `lang` when there is
    none; `xml:space` is dropped; everything else verbatim -/
def xhtmlAttrTok (all : FAttrs) (p : Str × Str) : List (Str × Option Str) :=
  if inTable (booleanAttrs .xhtml) p.1 then [(p.1, some p.1)]
  else if p.1 == xmlLang && !hasAttr all lang then [(lang, some p.2), (p.1, some p.2)]
  else if p.1 == xmlSpace then []
  else [(p.1, some p.2)]

def xhtmlAttrToks (a : FAttrs) : List (Str × Option Str) := a.flatMap (xhtmlAttrTok a)

/-- attribute names are names and, under XML, values hold no LF / TAB / CR -/
def XAttrsOk (a : FAttrs) : Prop := ∀ p ∈ a, NameOk p.1 ∧ AttrValOk true p.2

theorem attrValOk_of_name {n : Str} (h : NameOk n) : AttrValOk true n := by
  intro _
  have := h.2
  simp only [List.all_eq_true] at this ⊢
  intro c hc
  have hs := (nameChar_facts (this c hc)).1
  simp only [isSpace, Bool.or_eq_false_iff] at hs
  simp [attrWs, hs.1.1.2, hs.1.2, hs.2]

theorem tagSt_xhtmlAttr {st : RSt} {nm : Str} {at_ : List (Str × Option Str)} {tk : List Tok}
    (h : TagSt st nm at_ tk) (all : FAttrs) (p : Str × Str) (hn : NameOk p.1) (hv : AttrValOk true p.2) :
    TagSt (feed true st (xhtmlAttr all p)) nm ((xhtmlAttrTok all p).reverse ++ at_) tk := by
  unfold xhtmlAttr xhtmlAttrTok
  by_cases hb : inTable (booleanAttrs .xhtml) p.1 = true
  · simp only [hb, ↓reduceIte, attrOut, escapePy_eq_spec]
    exact tagSt_quoted true h p.1 p.1 hn (attrValOk_of_name hn)
  · simp only [hb, Bool.false_eq_true, ↓reduceIte]
    by_cases hl : (p.1 == xmlLang && !hasAttr all lang) = true
    · simp only [hl, ↓reduceIte, attrOut, escapePy_eq_spec]
      rw [feed_append]
      have h1 := tagSt_quoted true h lang p.2 nameOk_lang hv
      have h2 := tagSt_quoted true h1 p.1 p.2 hn hv
      simpa using h2
    · simp only [hl, Bool.false_eq_true, ↓reduceIte]
      by_cases hx : (p.1 == xmlSpace) = true
      · simpa [hx, feed_nil] using h
      · simp only [hx, Bool.false_eq_true, ↓reduceIte, attrOut, escapePy_eq_spec]
        exact tagSt_quoted true h p.1 p.2 hn hv

theorem tagSt_xhtmlAttrs (all : FAttrs) (l : FAttrs) :
    ∀ {st : RSt} {nm : Str} {at_ : List (Str × Option Str)} {tk : List Tok},
      TagSt st nm at_ tk → XAttrsOk l →
      TagSt (feed true st (l.flatMap (xhtmlAttr all))) nm ((l.flatMap (xhtmlAttrTok all)).reverse ++ at_) tk := by
  induction l with
  | nil => intro st nm at_ tk h _; simpa [feed_nil] using h
  | cons p ps ih =>
    intro st nm at_ tk h hn
    simp only [List.flatMap_cons, feed_append, List.reverse_append, List.append_assoc]
    exact ih (tagSt_xhtmlAttr h all p (hn p (by simp)).1 (hn p (by simp)).2)
      (fun q hq => hn q (by simp [hq]))

/-- `<t attrs` written by the xhtml serializer, read from character data: the tag is open -/
theorem tagSt_xhtmlOpen (buf : Str) (toks : List Tok) (t : Str) (a : FAttrs)
    (ht : NameOk t) (ha : XAttrsOk a) :
    TagSt (feed true (mk .data buf toks) ('<' :: t ++ xhtmlAttrs a)) t (xhtmlAttrToks a).reverse
      (flushToks buf toks) := by
  have h0 := tagSt_open true buf toks t ht
  have h1 := tagSt_xhtmlAttrs a a h0 ha
  rw [show '<' :: t ++ xhtmlAttrs a = ('<' :: t) ++ xhtmlAttrs a by simp, feed_append, xhtmlAttrs]
  simpa [xhtmlAttrToks] using h1

/-! ### simulation -/

/-- specification: the effect of one (filtered) event of an xhtml serialisation on what the
    tokenizer reads back; `raw` is never set (no CDATA) -/
def xhtmlEv (r : RS) : FEv → RS
  | .start t a => ⟨false, [], .start t (xhtmlAttrToks a) false :: flushToks r.buf r.toks⟩
  | .empty t a =>
      if inTable (emptyElems .xhtml) t then
        ⟨false, [], .start t (xhtmlAttrToks a) true :: flushToks r.buf r.toks⟩
      else ⟨false, [], .end_ t :: .start t (xhtmlAttrToks a) false :: flushToks r.buf r.toks⟩
  | .end_ t => ⟨false, [], .end_ t :: flushToks r.buf r.toks⟩
  | .text s _ => { r with buf := r.buf ++ s }
  | .comment s => ⟨false, [], .comment s :: flushToks r.buf r.toks⟩
  | _ => r

/-- the hypotheses of the xhtml round trip, per event -/
def XhtmlOk (o : Opts) : FEv → Prop
  | .start t a => NameOk t ∧ XAttrsOk a
  | .empty t a => NameOk t ∧ XAttrsOk a
  | .end_ t => NameOk t
  | .text _ safe => safe = false
  | .comment s => commentOk s = true
  | .pi _ _ => False
  | .doctype _ _ _ => False
  | .xmlDecl _ _ _ => o.dropXmlDecl = true
  | .startCdata => False
  | .endCdata => False
  | _ => True

theorem startOut_xhtml_start (t : Str) (a : FAttrs) :
    startOut .xhtml false t a = ('<' :: t ++ xhtmlAttrs a) ++ ['>'] := by simp [startOut]

theorem startOut_xhtml_empty (t : Str) (a : FAttrs) :
    startOut .xhtml true t a =
      ('<' :: t ++ xhtmlAttrs a) ++
        (if inTable (emptyElems .xhtml) t then [' ', '/', '>'] else '>' :: endTag t) := by
  by_cases h : inTable (emptyElems .xhtml) t = true <;> simp [startOut, h]

theorem xhtml_event (o : Opts) (r : RS) (c : Ctx) (ev : FEv) (hr : r.raw = false) (hc : c.raw = false)
    (hok : XhtmlOk o ev) :
    feed true r.toRSt (emit .xhtml o c ev).flatten = (xhtmlEv r ev).toRSt ∧
    (ctxAfter .xhtml o c ev).raw = false ∧ (xhtmlEv r ev).raw = false := by
  obtain ⟨rraw, rbuf, rtoks⟩ := r
  simp only at hr; subst hr
  cases ev with
  | start t a =>
    obtain ⟨ht, ha⟩ := hok
    refine ⟨?_, by simp [ctxAfter, hc], by simp [xhtmlEv]⟩
    simp only [emit, flatten_singleton, startOut_xhtml_start, xhtmlEv, toRSt_eq, Bool.false_eq_true, ↓reduceIte]
    have h1 := tagSt_xhtmlOpen rbuf rtoks t a ht ha
    rw [feed_append, feed_cons, tagSt_gt true h1]
    simp [feed]
  | empty t a =>
    obtain ⟨ht, ha⟩ := hok
    refine ⟨?_, by simp [ctxAfter, hc], by simp only [xhtmlEv]; split <;> rfl⟩
    simp only [emit, flatten_singleton, startOut_xhtml_empty, xhtmlEv, toRSt_eq, Bool.false_eq_true, ↓reduceIte]
    have h1 := tagSt_xhtmlOpen rbuf rtoks t a ht ha
    rw [feed_append]
    by_cases hv : inTable (emptyElems .xhtml) t = true
    · simp only [hv, ↓reduceIte, toRSt_eq, Bool.false_eq_true]
      rw [tagSt_selfClose true h1]; simp
    · simp only [hv, Bool.false_eq_true, ↓reduceIte, toRSt_eq, endTag]
      rw [feed_cons, tagSt_gt true h1]
      simp only [Bool.not_true, Bool.false_and, Bool.false_eq_true, ↓reduceIte]
      rw [feed_endTag true _ (Or.inl rfl) [] _ t ht.2]
      simp [flushToks]
  | end_ t =>
    refine ⟨?_, by simp [ctxAfter, hc], by simp [xhtmlEv]⟩
    simp only [emit, flatten_singleton, endTag, xhtmlEv, toRSt_eq, Bool.false_eq_true, ↓reduceIte]
    rw [feed_endTag true _ (Or.inl rfl) rbuf rtoks t hok.2]
  | text s f =>
    have hf : f = false := hok
    subst hf
    refine ⟨?_, by simp [ctxAfter, hc], by simp [xhtmlEv]⟩
    simp only [emit, hc, Bool.false_eq_true, ↓reduceIte, flatten_singleton, toRSt_eq, xhtmlEv]
    rw [feed_data_escaped true s _ rfl rfl]; simp [mk]
  | comment s =>
    refine ⟨?_, by simp [ctxAfter, hc], by simp [xhtmlEv]⟩
    simp only [emit, flatten_singleton, commentOut, xhtmlEv, toRSt_eq, Bool.false_eq_true, ↓reduceIte]
    exact feed_comment true rbuf rtoks s hok
  | pi t d => exact absurd hok (by simp [XhtmlOk])
  | doctype n p q => exact absurd hok (by simp [XhtmlOk])
  | xmlDecl v e q =>
    have hd : o.dropXmlDecl = true := hok
    exact ⟨by simp [emit, hd, feed, xhtmlEv], by simp [ctxAfter, hd, hc], by simp [xhtmlEv]⟩
  | startNs p u => exact ⟨by simp [emit, feed, xhtmlEv], by simp [ctxAfter, hc], by simp [xhtmlEv]⟩
  | endNs p => exact ⟨by simp [emit, feed, xhtmlEv], by simp [ctxAfter, hc], by simp [xhtmlEv]⟩
  | startCdata => exact absurd hok (by simp [XhtmlOk])
  | endCdata => exact absurd hok (by simp [XhtmlOk])

theorem xhtml_stream (o : Opts) (evs : List FEv) :
    ∀ (r : RS) (c : Ctx), r.raw = false → c.raw = false → (∀ ev ∈ evs, XhtmlOk o ev) →
      feed true r.toRSt (serSpec .xhtml o c evs).flatten = (evs.foldl xhtmlEv r).toRSt ∧
      (evs.foldl xhtmlEv r).raw = false := by
  induction evs with
  | nil => intro r c hr _ _; simp [serSpec, feed, hr]
  | cons ev rest ih =>
    intro r c hr hc hok
    have he := xhtml_event o r c ev hr hc (hok ev (by simp))
    simp only [serSpec, List.flatten_append, feed_append, List.foldl_cons]
    rw [he.1]
    exact ih _ _ he.2.2 he.2.1 (fun e h => hok e (by simp [h]))

def xhtmlExpected (evs : List FEv) : List Tok :=
  let r := evs.foldl xhtmlEv {}
  (flushToks r.buf r.toks).reverse

theorem xhtml_tokens (o : Opts) (evs : List FEv) (hok : ∀ ev ∈ evs, XhtmlOk o ev) :
    tokens true (serSpec .xhtml o {} evs).flatten = some (xhtmlExpected evs) := by
  have h := xhtml_stream o evs {} {} rfl rfl hok
  have h0 : ({} : RS).toRSt = ({} : RSt) := rfl
  rw [h0] at h
  unfold tokens xhtmlExpected
  simp only [h.1]
  have hraw := h.2
  generalize evs.foldl xhtmlEv {} = r at hraw ⊢
  obtain ⟨rraw, rbuf, rtoks⟩ := r
  simp only at hraw
  subst hraw
  simp [toRSt_eq, mk, flush_eq]

end Genshi.Reader

/-
  C09 — the lite flattener (`Model/OutputFlattenLite.lean`, the one inside `render`) is the
  full flattener of property C02 (`Model/XmlFlatten.lean`) restricted to its domain:
  whenever the lite model answers `some`, its events are those of `Xml.flatten` through the
  adapters below, for every preferred-prefix mapping.

  Hypothesis `tagsOk`: no element namespace is the reserved string U+0000, which C02's
  model reads as Python's `None` (`Xml.noneUri`; a QName never has the namespace `None`).
-/
import Genshi.Model.OutputFlattenLite
import Genshi.Model.OutputFlatPipeline
namespace Genshi.Output
open Genshi

def tagOk : QEv → Bool
  | .start t _ => t.ns != Xml.noneUri
  | .empty t _ => t.ns != Xml.noneUri
  | _ => true

/-! ### the state relation -/

/-- lite bindings (default-namespace declarations, innermost first) as full bindings: on top of
    the built-in `xml` binding -/
def liftB (b : List (Str × Bool)) : List Xml.Binding :=
  b.map (fun p => (([] : Str), p.1, p.2)) ++ [(Xml.xmlPrefix, Xml.xmlNs, false)]

def liftP : Option Str → List (Str × Str)
  | none => []
  | some u => [([], u)]

structure Rel (l : FlatSt) (f : Xml.FSt) : Prop where
  bindings : f.bindings = liftB l.bindings
  pending : f.pending = liftP l.pending
  elems : f.elems = l.elems
  /-- the declarations in scope are exactly those of the open elements -/
  count : (l.elems.map Prod.snd).sum = l.bindings.length
  /-- a made-up default namespace is an element's namespace: never the reserved string -/
  auto : ∀ p ∈ l.bindings, p.2 = true → p.1 ≠ Xml.noneUri

theorem xmlNs_eq : xmlNs = Xml.xmlNs := by decide

/-! ### lookups in lifted bindings -/

theorem uriOf_lift_default (b : List (Str × Bool)) : Xml.uriOf (liftB b) [] = some (defaultNs b).1 := by
  cases b with
  | nil => simp [liftB, Xml.uriOf, defaultNs, Xml.xmlPrefix]
  | cons x rest => simp [liftB, Xml.uriOf, defaultNs]

theorem autoOf_lift_default (b : List (Str × Bool)) : Xml.autoOf (liftB b) [] = (defaultNs b).2 := by
  cases b with
  | nil => simp [liftB, Xml.autoOf, defaultNs, Xml.xmlPrefix]
  | cons x rest => simp [liftB, Xml.autoOf, defaultNs]

theorem uriOf_lift_xml (b : List (Str × Bool)) : Xml.uriOf (liftB b) Xml.xmlPrefix = some Xml.xmlNs := by
  induction b with
  | nil => simp [liftB, Xml.uriOf]
  | cons x rest ih =>
    have : liftB (x :: rest) = ([], x.1, x.2) :: liftB rest := rfl
    rw [this]
    simp only [Xml.uriOf]
    rw [if_neg (by simp [Xml.xmlPrefix])]
    exact ih

/-- the loop of `_find_prefix` over lifted bindings finds nothing but `xml`, once the default
    namespace has been ruled out -/
theorem findGo_lift (full : List Xml.Binding) (uri : Str) (forAttr : Bool)
    (hx : Xml.uriOf full Xml.xmlPrefix = some Xml.xmlNs)
    (hd : forAttr = false → Xml.uriOf full [] ≠ some uri) (b : List (Str × Bool)) :
    Xml.findGo full uri forAttr (liftB b) = if uri = Xml.xmlNs then some Xml.xmlPrefix else none := by
  induction b with
  | nil =>
    simp only [liftB, List.map_nil, List.nil_append, Xml.findGo]
    by_cases hu : uri = Xml.xmlNs
    · subst hu; simp [hx, Xml.xmlPrefix]; exact hx
    · have : ¬ Xml.xmlNs = uri := fun h => hu h.symm
      simp [hu, this]
  | cons x rest ih =>
    have : liftB (x :: rest) = ([], x.1, x.2) :: liftB rest := rfl
    rw [this]
    simp only [Xml.findGo]
    rw [if_neg]
    · exact ih
    · intro ⟨_, h2, h3⟩
      rcases h2 with h2 | h2
      · exact h2 rfl
      · exact hd h2 h3

theorem findPrefix_lift_elem (b : List (Str × Bool)) (uri : Str) :
    Xml.findPrefix (liftB b) uri false =
      if (defaultNs b).1 = uri then some [] else if uri = Xml.xmlNs then some Xml.xmlPrefix else none := by
  unfold Xml.findPrefix
  rw [uriOf_lift_default]
  by_cases h : (defaultNs b).1 = uri
  · simp [h]
  · have h' : ¬ (false = false ∧ some (defaultNs b).1 = some uri) := by simp [h]
    rw [if_neg h', if_neg h]
    exact findGo_lift _ _ _ (uriOf_lift_xml b) (fun _ => by rw [uriOf_lift_default]; simp [h]) b

theorem findPrefix_lift_attr (b : List (Str × Bool)) (uri : Str) :
    Xml.findPrefix (liftB b) uri true = if uri = Xml.xmlNs then some Xml.xmlPrefix else none := by
  unfold Xml.findPrefix
  rw [if_neg (by simp)]
  exact findGo_lift _ _ _ (uriOf_lift_xml b) (fun h => by cases h) b

/-! ### one start tag -/

/-- lite declarations as C02's `declared` list -/
def declOf (d : List (Str × Bool)) : List (Str × Str) := d.map fun x => (([] : Str), x.1)

theorem liftB_cons (x : Str × Bool) (b : List (Str × Bool)) : liftB (x :: b) = ([], x.1, x.2) :: liftB b := rfl

/-- the pending request -/
theorem takePending_lift (b : List (Str × Bool)) (p : Option Str) (c : Nat) (d1 : List (Str × Bool))
    (h : flatD1 b p = some d1) :
    Xml.takePending ⟨liftB b, [], c⟩ (liftP p) = ⟨liftB (d1 ++ b), declOf d1, c⟩ ∧
    d1.length ≤ 1 ∧ (∀ x ∈ d1, x.2 = false) := by
  cases p with
  | none =>
    simp only [flatD1, Option.some.injEq] at h
    subst h
    exact ⟨rfl, by simp, by simp⟩
  | some u =>
    simp only [flatD1] at h
    by_cases hx : u = xmlNs
    · simp [hx] at h
    · rw [if_neg hx] at h
      have hx' : ¬ u = Xml.xmlNs := by rw [← xmlNs_eq]; exact hx
      by_cases hd : (defaultNs b).1 ≠ u
      · rw [if_pos hd] at h
        simp only [Option.some.injEq] at h
        subst h
        refine ⟨?_, by simp, by simp⟩
        simp only [liftP, Xml.takePending, uriOf_lift_default, findPrefix_lift_elem]
        have hd' : ¬ (defaultNs b).1 = u := hd
        rw [if_pos]
        · rfl
        · refine ⟨by simp [hd'], Or.inr (Or.inr ?_)⟩
          simp [hd', hx']
      · rw [if_neg hd] at h
        simp only [Option.some.injEq] at h
        subst h
        refine ⟨?_, by simp, by simp⟩
        simp only [liftP, Xml.takePending, uriOf_lift_default]
        have hd' : (defaultNs b).1 = u := by simpa using hd
        rw [if_neg]
        · rfl
        · simp [hd']

/-- the element name -/
theorem flatTag_lift (pref : List (Str × Str)) (b1 d1 : List (Str × Bool)) (D : List (Str × Str)) (c : Nat)
    (t : QName) (d2 : List (Str × Bool))
    (hD : D = declOf d1)
    (htop : d1 ≠ [] → (defaultNs b1).2 = false)
    (hauto : ∀ p ∈ b1, p.2 = true → p.1 ≠ Xml.noneUri) (ht : t.ns ≠ Xml.noneUri)
    (h : flatD2 b1 d1 t = some d2) :
    Xml.flatTag pref ⟨liftB b1, D, c⟩ t = (t.loc, ⟨liftB (d2 ++ b1), D ++ declOf d2, c⟩) ∧
    d2.length ≤ 1 ∧ (∀ p ∈ d2, p.2 = true → p.1 ≠ Xml.noneUri) := by
  simp only [flatD2] at h
  by_cases hx : t.ns = xmlNs
  · simp [hx] at h
  · rw [if_neg hx] at h
    have hx' : ¬ t.ns = Xml.xmlNs := by rw [← xmlNs_eq]; exact hx
    by_cases hn : t.ns.isEmpty = true
    · simp only [hn, Bool.not_true, Bool.false_eq_true, ↓reduceIte] at h
      have hauto' : (defaultNs b1).2 = true → (defaultNs b1).1 ≠ Xml.noneUri := by
        cases b1 with
        | nil => simp [defaultNs]
        | cons x rest => intro h2; exact hauto x List.mem_cons_self h2
      by_cases hc : (!(defaultNs b1).1.isEmpty && (defaultNs b1).2) = true
      · rw [if_pos hc] at h
        simp only [Option.some.injEq] at h
        subst h
        simp only [Bool.and_eq_true, Bool.not_eq_eq_eq_not, Bool.not_true] at hc
        have hd1e : d1 = [] := by
          by_cases he : d1 = []
          · exact he
          · have := htop he; rw [this] at hc; simp at hc
        subst hd1e
        subst hD
        refine ⟨?_, by simp, ?_⟩
        · simp only [Xml.flatTag, hn, ↓reduceIte, uriOf_lift_default, autoOf_lift_default]
          have hf : Xml.falsyUri (defaultNs b1).1 = false := by
            simp only [Xml.falsyUri, hc.1, Bool.false_or]
            have := hauto' hc.2
            simpa using this
          rw [if_pos (by simp [hf, hc.2])]
          simp [Xml.declare, declOf, liftB_cons]
        · intro p hp _; simp at hp; subst hp; simp [Xml.noneUri]
      · rw [if_neg hc] at h
        simp only [Option.some.injEq] at h
        subst h
        refine ⟨?_, by simp, by simp⟩
        simp only [Xml.flatTag, hn, ↓reduceIte, uriOf_lift_default, autoOf_lift_default]
        rw [if_neg]
        · simp [declOf]
        · intro ⟨h1, h2⟩
          apply hc
          have := hauto' h2
          simp only [Xml.falsyUri, Bool.or_eq_true, List.isEmpty_iff, decide_eq_true_eq, not_or] at h1
          simp [h2, h1.1]
    · simp only [hn, Bool.not_false, ↓reduceIte] at h
      simp only [Xml.flatTag, hn, Bool.false_eq_true, ↓reduceIte, findPrefix_lift_elem]
      by_cases hdf : (defaultNs b1).1 = t.ns
      · rw [if_pos hdf] at h
        simp only [Option.some.injEq] at h
        subst h
        rw [if_pos hdf]
        exact ⟨by simp [Xml.qualify, declOf], by simp, by simp⟩
      · rw [if_neg hdf] at h
        rw [if_neg hdf, if_neg hx']
        by_cases he : d1.isEmpty = true
        · rw [if_pos he] at h
          simp only [Option.some.injEq] at h
          subst h
          have hd1e : d1 = [] := by simpa using he
          subst hd1e; subst hD
          refine ⟨?_, by simp, ?_⟩
          · simp [Xml.declare, declOf, Xml.qualify, liftB_cons]
          · intro p hp _; simp at hp; subst hp; exact ht
        · rw [if_neg he] at h; cases h

/-- the attributes -/
theorem flatAttrs_lift (pref : List (Str × Str)) (a : AttrList) :
    ∀ (na : FAttrs) (T : Xml.TagSt) (b : List (Str × Bool)), T.bindings = liftB b → flatAttrs a = some na →
      Xml.flatAttrs pref T a = (na, T) := by
  induction a with
  | nil => intro na T b _ h; simp only [flatAttrs, Option.some.injEq] at h; subst h; rfl
  | cons x rest ih =>
    intro na T b hb h
    obtain ⟨n, v⟩ := x
    simp only [flatAttrs, bind, Option.bind] at h
    cases h1 : flatAttr (n, v) with
    | none => simp [h1] at h
    | some y =>
      cases h2 : flatAttrs rest with
      | none => simp [h1, h2] at h
      | some ys =>
        simp only [h1, h2, pure, Option.some.injEq] at h
        subst h
        have ihr := ih ys T b hb h2
        simp only [flatAttr] at h1
        by_cases hn : n.ns.isEmpty = true
        · simp only [hn, ↓reduceIte, Option.some.injEq] at h1
          subst h1
          simp [Xml.flatAttrs, hn, ihr]
        · simp only [hn, Bool.false_eq_true, ↓reduceIte] at h1
          by_cases hx : n.ns = xmlNs
          · simp only [hx, ↓reduceIte, Option.some.injEq] at h1
            subst h1
            have hx' : n.ns = Xml.xmlNs := by rw [← xmlNs_eq]; exact hx
            simp only [Xml.flatAttrs, hn, Bool.false_eq_true, ↓reduceIte, hb, findPrefix_lift_attr, hx']
            have hne : List.isEmpty Xml.xmlNs = false := by decide
            rw [ihr]
            simp [hne, Xml.xmlPrefix]
          · simp [hx] at h1

theorem reverse_short {α : Type} (l : List α) (h : l.length ≤ 1) : l.reverse = l := by
  match l, h with
  | [], _ => rfl
  | [_], _ => rfl

theorem xmlns_eq : xmlns = Xml.xmlnsName := by decide

/-- the whole START / EMPTY computation -/
theorem flatStart_lift (pref : List (Str × Str)) (f : Xml.FSt) (b : List (Str × Bool)) (pending : Option Str)
    (t : QName) (a : AttrList) (declared : List (Str × Bool)) (tn : Str) (fa : FAttrs)
    (hb : f.bindings = liftB b) (hp : f.pending = liftP pending)
    (hauto : ∀ p ∈ b, p.2 = true → p.1 ≠ Xml.noneUri) (ht : t.ns ≠ Xml.noneUri)
    (h : flatStartCore b pending t a = some (declared, tn, fa)) :
    Xml.flatStart pref f t a = (tn, fa, ⟨liftB (declared.reverse ++ b), declOf declared, f.counter⟩) ∧
    (∀ p ∈ declared, p.2 = true → p.1 ≠ Xml.noneUri) := by
  unfold flatStartCore at h
  cases h1 : flatD1 b pending with
  | none => simp [h1] at h
  | some d1 =>
    simp only [h1] at h
    cases h2 : flatD2 (d1 ++ b) d1 t with
    | none => simp [h2] at h
    | some d2 =>
      simp only [h2] at h
      cases h3 : flatAttrs a with
      | none => simp [h3] at h
      | some na =>
        simp only [h3, Option.some.injEq, Prod.mk.injEq] at h
        obtain ⟨hdecl, htn, hfa⟩ := h
        obtain ⟨e1, l1, f1⟩ := takePending_lift b pending f.counter d1 h1
        have htop : d1 ≠ [] → (defaultNs (d1 ++ b)).2 = false := by
          intro hne
          match d1, l1, f1, hne with
          | [x], _, f1, _ => exact f1 x List.mem_cons_self
        have hauto1 : ∀ p ∈ d1 ++ b, p.2 = true → p.1 ≠ Xml.noneUri := by
          intro p hp hpt
          rcases List.mem_append.1 hp with hp | hp
          · rw [f1 p hp] at hpt; cases hpt
          · exact hauto p hp hpt
        obtain ⟨e2, l2, f2⟩ := flatTag_lift pref (d1 ++ b) d1 (declOf d1) f.counter t d2 rfl htop hauto1 ht h2
        have e3 := flatAttrs_lift pref a na
          ⟨liftB (d2 ++ (d1 ++ b)), declOf d1 ++ declOf d2, f.counter⟩ (d2 ++ (d1 ++ b)) rfl h3
        have hrev : declared.reverse ++ b = d2 ++ (d1 ++ b) := by
          rw [← hdecl, List.reverse_append, reverse_short d1 l1, reverse_short d2 l2, List.append_assoc]
        have hdo : declOf declared = declOf d1 ++ declOf d2 := by
          rw [← hdecl]; simp [declOf]
        refine ⟨?_, ?_⟩
        · simp only [Xml.flatStart, hb, hp, e1, e2, e3]
          rw [hrev, hdo, ← htn, ← hfa]
          have hm : ∀ d : List (Str × Bool),
              (declOf d).map (fun x => (Xml.nsAttrName x.1, x.2)) = d.map (fun x => (xmlns, x.1)) := by
            intro d; simp [declOf, Xml.nsAttrName, xmlns_eq, Function.comp_def]
          simp only [List.map_append, hm, List.append_assoc]
        · intro p hp hpt
          rw [← hdecl] at hp
          rcases List.mem_append.1 hp with hp | hp
          · rw [f1 p hp] at hpt; cases hpt
          · exact f2 p hp hpt

/-! ### one event, whole streams -/

theorem liftB_drop (b : List (Str × Bool)) (n : Nat) (h : n ≤ b.length) :
    (liftB b).drop n = liftB (b.drop n) := by
  simp only [liftB]
  rw [List.drop_append_of_le_length (by simpa using h), List.map_drop]

theorem liftP_filter_same (p : Option Str) : (liftP p).filter (fun d => d.1 ≠ ([] : Str)) = [] := by
  cases p <;> simp [liftP]

theorem liftP_filter_other (p : Option Str) (q : Str) (hq : q ≠ []) :
    (liftP p).filter (fun d => d.1 ≠ q) = liftP p := by
  cases p with
  | none => simp [liftP]
  | some u => simp [liftP, Ne.symm hq]

theorem flatStep_lift (pref : List (Str × Str)) (l : FlatSt) (f : Xml.FSt) (ev : QEv) (r : FlatSt × List FEv)
    (hR : Rel l f) (hok : tagOk ev = true) (h : flatStep false l ev = some r) :
    (Xml.flatStep pref f (toX ev)).2.map ofXF = r.2 ∧ Rel r.1 (Xml.flatStep pref f (toX ev)).1 := by
  obtain ⟨hb, hp, he, hc, ha⟩ := hR
  cases ev with
  | start t a =>
    simp only [flatStep, Bool.false_and, Bool.false_eq_true, ↓reduceIte, flatStartMiss] at h
    have ht : t.ns ≠ Xml.noneUri := by simpa [tagOk] using hok
    cases hs : flatStartCore l.bindings l.pending t a with
    | none => simp [hs] at h
    | some x =>
      obtain ⟨declared, tn, fa⟩ := x
      simp only [hs, Option.some.injEq] at h
      subst h
      obtain ⟨e, fnew⟩ := flatStart_lift pref f l.bindings l.pending t a declared tn fa hb hp ha ht hs
      simp only [toX, Xml.flatStep, e, List.map_cons, List.map_nil, ofXF]
      refine ⟨trivial, ⟨rfl, rfl, ?_, ?_, ?_⟩⟩
      · simp [declOf, he]
      · simp only [List.map_cons, List.sum_cons, List.length_append, List.length_reverse]; omega
      · intro p hp' hpt
        rcases List.mem_append.1 hp' with hp' | hp'
        · exact fnew p (List.mem_reverse.1 hp') hpt
        · exact ha p hp' hpt
  | empty t a =>
    simp only [flatStep, Bool.false_and, Bool.false_eq_true, ↓reduceIte, flatEmptyMiss] at h
    have ht : t.ns ≠ Xml.noneUri := by simpa [tagOk] using hok
    cases hs : flatStartCore l.bindings l.pending t a with
    | none => simp [hs] at h
    | some x =>
      obtain ⟨declared, tn, fa⟩ := x
      simp only [hs, Option.some.injEq] at h
      subst h
      obtain ⟨e, _⟩ := flatStart_lift pref f l.bindings l.pending t a declared tn fa hb hp ha ht hs
      simp only [toX, Xml.flatStep, e, List.map_cons, List.map_nil, ofXF]
      exact ⟨trivial, ⟨hb, rfl, he, hc, ha⟩⟩
  | end_ t =>
    simp only [flatStep] at h
    cases hel : l.elems with
    | nil =>
      simp only [hel] at h
      by_cases hx : t.ns = xmlNs
      · simp [hx] at h
      · rw [if_neg hx] at h
        simp only [Option.some.injEq] at h
        subst h
        have hx' : ¬ t.ns = Xml.xmlNs := by rw [← xmlNs_eq]; exact hx
        have hfe : f.elems = [] := by rw [he, hel]
        simp only [toX, Xml.flatStep, hfe, hb, findPrefix_lift_elem]
        refine ⟨?_, ⟨hb, hp, he, hc, ha⟩⟩
        by_cases hn : t.ns.isEmpty = true
        · simp [hn, ofXF]
        · by_cases hd : (defaultNs l.bindings).1 = t.ns
          · simp [hn, hd, ofXF, Xml.qualify]
          · simp [hn, hd, hx', ofXF]
    | cons x rest =>
      obtain ⟨tn, count⟩ := x
      simp only [hel, Option.some.injEq] at h
      subst h
      have hfe : f.elems = (tn, count) :: rest := by rw [he, hel]
      simp only [toX, Xml.flatStep, hfe, List.map_cons, List.map_nil, ofXF]
      have hle : count ≤ l.bindings.length := by
        rw [hel] at hc; simp only [List.map_cons, List.sum_cons] at hc; omega
      refine ⟨trivial, ⟨?_, hp, rfl, ?_, ?_⟩⟩
      · simp only [hb]; exact liftB_drop _ _ hle
      · rw [hel] at hc; simp only [List.map_cons, List.sum_cons] at hc
        simp only [List.length_drop]; omega
      · intro p hp' hpt; exact ha p (List.mem_of_mem_drop hp') hpt
  | startNs p u =>
    simp only [flatStep] at h
    by_cases hpe : p.isEmpty = true
    · rw [if_pos hpe] at h
      simp only [Option.some.injEq] at h
      subst h
      have hp0 : p = [] := by simpa using hpe
      subst hp0
      simp only [toX, Xml.flatStep, List.map_nil, hp, liftP_filter_same]
      exact ⟨trivial, ⟨hb, rfl, he, hc, ha⟩⟩
    · rw [if_neg hpe] at h; cases h
  | endNs p =>
    simp only [flatStep] at h
    by_cases hpe : p.isEmpty = true
    · rw [if_pos hpe] at h
      simp only [Option.some.injEq] at h
      subst h
      have hp0 : p = [] := by simpa using hpe
      subst hp0
      simp only [toX, Xml.flatStep, List.map_nil, hp, liftP_filter_same]
      exact ⟨trivial, ⟨hb, rfl, he, hc, ha⟩⟩
    · rw [if_neg hpe] at h
      simp only [Option.some.injEq] at h
      subst h
      have hp0 : p ≠ [] := by simpa using hpe
      simp only [toX, Xml.flatStep, List.map_nil, hp, liftP_filter_other _ _ hp0]
      exact ⟨trivial, ⟨hb, rfl, he, hc, ha⟩⟩
  | text s fl => simp only [flatStep, Option.some.injEq] at h; subst h; exact ⟨rfl, ⟨hb, hp, he, hc, ha⟩⟩
  | comment s => simp only [flatStep, Option.some.injEq] at h; subst h; exact ⟨rfl, ⟨hb, hp, he, hc, ha⟩⟩
  | pi t d => simp only [flatStep, Option.some.injEq] at h; subst h; exact ⟨rfl, ⟨hb, hp, he, hc, ha⟩⟩
  | doctype n p s => simp only [flatStep, Option.some.injEq] at h; subst h; exact ⟨rfl, ⟨hb, hp, he, hc, ha⟩⟩
  | xmlDecl v e s => simp only [flatStep, Option.some.injEq] at h; subst h; exact ⟨rfl, ⟨hb, hp, he, hc, ha⟩⟩
  | startCdata => simp only [flatStep, Option.some.injEq] at h; subst h; exact ⟨rfl, ⟨hb, hp, he, hc, ha⟩⟩
  | endCdata => simp only [flatStep, Option.some.injEq] at h; subst h; exact ⟨rfl, ⟨hb, hp, he, hc, ha⟩⟩

/-- whole streams: whenever the lite model (cache off) answers, it answers C02's `flatRun` -/
theorem flatten_lift (pref : List (Str × Str)) (evs : List QEv) :
    ∀ (l : FlatSt) (f : Xml.FSt) (out : List FEv), Rel l f → (∀ e ∈ evs, tagOk e = true) →
      flatten false l evs = some out → (Xml.flatRun pref f (evs.map toX)).map ofXF = out := by
  induction evs with
  | nil => intro l f out _ _ h; simp only [flatten, Option.some.injEq] at h; subst h; rfl
  | cons e rest ih =>
    intro l f out hR hok h
    simp only [flatten] at h
    cases hs : flatStep false l e with
    | none => simp [hs] at h
    | some r =>
      simp only [hs] at h
      cases hr : flatten false r.1 rest with
      | none => simp [hr] at h
      | some o2 =>
        simp only [hr, Option.some.injEq] at h
        subst h
        obtain ⟨h1, h2⟩ := flatStep_lift pref l f e r hR (hok e List.mem_cons_self) hs
        simp only [List.map_cons, Xml.flatRun, List.map_append, h1]
        congr 1
        exact ih r.1 _ o2 h2 (fun e' he' => hok e' (List.mem_cons_of_mem _ he')) hr

theorem rel_init (m : Method) : Rel (flatInit m) Xml.FSt.init :=
  ⟨rfl, rfl, rfl, rfl, by intro p hp; cases hp⟩

end Genshi.Output

/-
  `CutTransformation` on `Good` streams: when it does not fail its assertion the
  output is `Good` and balanced the same way (selections are dropped as whole
  balanced blocks; BREAK pseudo-events do not count; stripping attributes keeps
  the tag).
-/
import Genshi.Lemmas.TfOps
namespace Genshi.Tf

/-- head shapes of a `Good` stream (empty blocks skipped) -/
theorem Good.cases' {s : MStream} (hg : Good s) :
    s = [] ∨
    (∃ x s', s = (none, x) :: s' ∧ Good s') ∨
    (∃ m p blk s', s = (p :: blk) ++ s' ∧ m ≠ .enter ∧ m ≠ .exit ∧ Uniform m (p :: blk) ∧
        Bal (unmark (p :: blk)) ∧ Good s') ∨
    (∃ t a mid s', s = (some .enter, .ev (.start t a)) :: (mid ++ (some .exit, .ev (.end_ t)) :: s') ∧
        Flat mid ∧ Bal (unmark mid) ∧ Good s') := by
  induction hg with
  | nil => exact Or.inl rfl
  | @plain x s' h _ => exact Or.inr (Or.inl ⟨x, s', rfl, h⟩)
  | @block m blk s' hne hnx hu hb h ih =>
    cases blk with
    | nil => simpa using ih
    | cons p blk => exact Or.inr (Or.inr (Or.inl ⟨m, p, blk, s', rfl, hne, hnx, hu, hb, h⟩))
  | @elem t a mid s' hf hb h _ => exact Or.inr (Or.inr (Or.inr ⟨t, a, mid, s', rfl, hf, hb, h⟩))

theorem cutGo_inRun_block (acc : Bool) {m : Mark} {blk : MStream} (hu : Uniform m blk) (s : MStream) :
    ∀ b names, ∃ b' names', cutGo acc (.inRun m) b names (blk ++ s) = cutGo acc (.inRun m) b' names' s := by
  induction blk with
  | nil => intro b names; exact ⟨b, names, rfl⟩
  | cons p blk ih =>
    intro b names
    obtain ⟨m', x⟩ := p
    have hm : m' = some m := hu (m', x) (by simp)
    have hu' : Uniform m blk := fun q hq => hu q (by simp [hq])
    subst hm
    simp only [List.cons_append, cutGo, ↓reduceIte]
    exact ih hu' _ _

theorem cutGo_inEnter_mid (acc : Bool) (mid : MStream) (x : MEv) (s : MStream) (h : NoExit mid) :
    ∀ b names, cutGo acc .inEnter b names (mid ++ (some .exit, x) :: s) = cutGo acc .idle false names s := by
  induction mid with
  | nil => intro b names; simp [cutGo]
  | cons p mid ih =>
    intro b names
    obtain ⟨m', y⟩ := p
    have hp : m' ≠ some .exit := h (m', y) (by simp)
    have hu : NoExit mid := fun q hq => h q (by simp [hq])
    simp only [List.cons_append, cutGo, hp, ↓reduceIte]
    exact ih hu _ _

def BrkPre (pre : MStream) : Prop := pre = [] ∨ pre = [brkItem]

theorem brkPre_ite (c : Prop) [Decidable c] : BrkPre (if c then [brkItem] else []) := by
  unfold BrkPre; split <;> simp

theorem brkPre_nil : BrkPre [] := Or.inl rfl
theorem brkPre_one : BrkPre [brkItem] := Or.inr rfl

theorem good_brk_prefix {pre : MStream} (hp : BrkPre pre) {s : MStream} (h : Good s) : Good (pre ++ s) := by
  rcases hp with rfl | rfl
  · simpa using h
  · simpa [brkItem] using Good.single (m := .brk) (x := .brk) (by decide) (by decide) rfl rfl h

theorem unmark_brk_prefix {pre : MStream} (hp : BrkPre pre) (s : MStream) : unmark (pre ++ s) = unmark s := by
  rcases hp with rfl | rfl <;> simp [brkItem, unmark]

/-- the two states in which the generator can stand at a block boundary -/
def CutClaim (s : MStream) : Prop :=
  ∀ (st : RunSt), (st = .idle ∨ ∃ m0, m0 ≠ .enter ∧ st = .inRun m0) →
    ∀ acc b names out, cutGo acc st b names s = some out →
      Good out ∧ ∀ stk, balance stk (unmark out) = balance stk (unmark s)

theorem option_map_some {α β : Type} {f : α → β} {o : Option α} {y : β} (h : f <$> o = some y) :
    ∃ x, o = some x ∧ f x = y := by
  cases o with
  | none => simp at h
  | some x => exact ⟨x, rfl, by simpa using h⟩

theorem cut_claim : ∀ (n : Nat) (s : MStream), s.length ≤ n → Good s → CutClaim s := by
  intro n
  induction n with
  | zero =>
    intro s hl _ st _ acc b names out h
    have : s = [] := List.length_eq_zero_iff.mp (Nat.le_zero.mp hl)
    subst this
    simp only [cutGo, Option.some.injEq] at h
    subst h
    cases b
    · exact ⟨by simpa using good_brk_prefix brkPre_one Good.nil, fun stk => by simp [brkItem, unmark]⟩
    · exact ⟨by simpa using Good.nil, fun stk => rfl⟩
  | succ n ih =>
    intro s hl hg st hst acc b names out h
    rcases hg.cases' with rfl | ⟨x, s', rfl, hg'⟩ | ⟨m, p, blk, s', rfl, hne, hnx, hu, hb, hg'⟩ |
        ⟨t, a, mid, s', rfl, hf, hb, hg'⟩
    · simp only [cutGo, Option.some.injEq] at h
      subst h
      cases b
      · exact ⟨by simpa using good_brk_prefix brkPre_one Good.nil, fun stk => by simp [brkItem, unmark]⟩
      · exact ⟨by simpa using Good.nil, fun stk => rfl⟩
    · -- an unmarked event
      have hl' : s'.length ≤ n := by simpa using hl
      have key : ∀ (x' : MEv) names', eff x' = eff x →
          ((none, x') :: ·) <$> cutGo acc .idle true names' s' = some out →
          Good out ∧ ∀ stk, balance stk (unmark out) = balance stk (unmark ((none, x) :: s')) := by
        intro x' names' he h
        obtain ⟨out', h1, rfl⟩ := option_map_some h
        obtain ⟨g, bal⟩ := ih s' hl' hg' .idle (Or.inl rfl) acc true names' out' h1
        refine ⟨Good.plain x' g, fun stk => ?_⟩
        rw [balance_unmark_cons, balance_unmark_cons, he]
        cases effStep (eff x) stk with
        | none => rfl
        | some st' => simp [bal]
      rcases hst with rfl | ⟨m0, hm0, rfl⟩
      · simp only [cutGo] at h
        exact key x names rfl h
      · have hne : ((none : Option Mark) = some m0) = False := by simp
        simp only [cutGo, hne, ↓reduceIte] at h
        by_cases hc : (m0 = Mark.attr && !x.isStart) = true
        · simp [hc] at h
        · simp only [hc] at h
          simp only [Bool.false_eq_true, ↓reduceIte] at h
          exact key _ _ (by split <;> simp [eff_stripAttrs]) h
    · -- a block of one mark
      obtain ⟨m', x⟩ := p
      have hm' : m' = some m := hu (m', x) (by simp)
      subst hm'
      have hu' : Uniform m blk := fun q hq => hu q (by simp [hq])
      have hl' : s'.length ≤ n := by
        simp only [List.cons_append, List.length_cons, List.length_append] at hl; omega
      have fin : ∀ (pre : MStream), BrkPre pre → ∀ b' names', (pre ++ ·) <$>
            cutGo acc (.inRun m) b' names' (blk ++ s') = some out →
          Good out ∧ ∀ stk, balance stk (unmark out) = balance stk (unmark (((some m, x) :: blk) ++ s')) := by
        intro pre hpre b' names' h
        obtain ⟨out', h1, rfl⟩ := option_map_some h
        obtain ⟨b'', names'', h2⟩ := cutGo_inRun_block acc hu' s' b' names'
        rw [h2] at h1
        obtain ⟨g, bal⟩ := ih s' hl' hg' (.inRun m) (Or.inr ⟨m, hne, rfl⟩) acc b'' names'' out' h1
        refine ⟨good_brk_prefix hpre g, fun stk => ?_⟩
        rw [unmark_brk_prefix hpre, bal, unmark_append, balance_bal stk hb]
      rcases hst with rfl | ⟨m0, hm0, rfl⟩
      · simp only [List.cons_append, cutGo, startSt, hne, ↓reduceIte] at h
        exact fin _ (brkPre_ite _) _ _ h
      · by_cases hmm : m = m0
        · subst hmm
          simp only [List.cons_append, cutGo, ↓reduceIte] at h
          exact fin [] brkPre_nil false _ (by simpa using h)
        · have hne2 : (some m = some m0) = False := by simp [hmm]
          simp only [List.cons_append, cutGo, hne2, ↓reduceIte] at h
          by_cases hc : (m0 = Mark.attr && !x.isStart) = true
          · simp [hc] at h
          · simp only [hc, Bool.false_eq_true, ↓reduceIte, startSt, hne] at h
            exact fin _ (brkPre_ite _) _ _ h
    · -- a selected element
      have hl' : s'.length ≤ n := by
        simp only [List.length_cons, List.length_append] at hl; omega
      have fin : ∀ (pre : MStream), BrkPre pre → ∀ b' names', (pre ++ ·) <$>
            cutGo acc .inEnter b' names' (mid ++ (some .exit, .ev (.end_ t)) :: s') = some out →
          Good out ∧ ∀ stk, balance stk (unmark out) = balance stk
            (unmark ((some Mark.enter, MEv.ev (.start t a)) :: (mid ++ (some Mark.exit, MEv.ev (.end_ t)) :: s'))) := by
        intro pre hpre b' names' h
        obtain ⟨out', h1, rfl⟩ := option_map_some h
        rw [cutGo_inEnter_mid acc mid _ s' hf.noExit] at h1
        obtain ⟨g, bal⟩ := ih s' hl' hg' .idle (Or.inl rfl) acc false names' out' h1
        refine ⟨good_brk_prefix hpre g, fun stk => ?_⟩
        rw [unmark_brk_prefix hpre, bal, unmark_elem, balance_bal stk (bal_elem t a hb)]
      rcases hst with rfl | ⟨m0, hm0, rfl⟩
      · simp only [cutGo, startSt, ↓reduceIte] at h
        have : (Mark.enter = Mark.attr) = False := by simp
        simp only [this, ↓reduceIte] at h
        exact fin _ (brkPre_ite _) _ _ h
      · have hne2 : (some Mark.enter = some m0) = False := by
          simp; intro h; exact hm0 h.symm
        simp only [cutGo, hne2, ↓reduceIte, MEv.isStart, Bool.not_true, Bool.and_false,
          Bool.false_eq_true, startSt] at h
        have : (Mark.enter = Mark.attr) = False := by simp
        simp only [this, ↓reduceIte] at h
        exact fin _ (brkPre_ite _) _ _ h

theorem cut_good {acc : Bool} {s out : MStream} (hg : Good s) (h : cut acc s = some out) :
    Good out ∧ ∀ stk, balance stk (unmark out) = balance stk (unmark s) :=
  cut_claim s.length s (Nat.le_refl _) hg .idle (Or.inl rfl) acc false [] out h

end Genshi.Tf

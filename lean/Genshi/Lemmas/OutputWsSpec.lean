/-
  C08 — specification side of `strip_whitespace=True` over forests, and the proof that the
  serializers write the same for (the filter's Markup forest) and (the normalised forest).

  * `normForest m ns` (SPECIFICATION, not a model of genshi code): the forest with every run of
    adjacent text leaves merged into one plain text leaf whose data is the concatenation of the
    run, trimmed and collapsed (`wsNorm`: blanks in front of a line feed deleted, runs of line feeds
    collapsed) unless the run stands inside preserved space — below an element of the serializer's
    `_PRESERVE_SPACE` table or one that carries `xml:space="preserve"`.
  * `wsDom m`: the forests on which the theorem is stated — text leaves are plain (not Markup), no
    CDATA markers, an element of the filter's `noescape` table (html: script / style) holds only
    text and is one the serializer writes raw as well (`rawOf`), nothing but text stands inside it.
  * `wsSim_forest`: on such forests, with the filter state and the specification's pending text in
    step (`WsSim`), the main loop's specification `serSpec` writes the same chunks for the events of
    the filter's forest (`wsForestG`: Markup text, escaped piecewise, then normalised) and for the
    events of the normalised forest (plain text, normalised, then escaped by the serializer unless
    raw) — escaping commutes with the normal form (`wsNorm_escape`).
  Mathlib-free (the driver computes `normForest` and `wsDom` for the `expect` correspondence).
-/
import Genshi.Lemmas.OutputWsForest
import Genshi.Lemmas.OutputSafeText
import Genshi.Lemmas.OutputWs
namespace Genshi.Output
open Genshi Genshi.Escape

/-! ### the normalised forest (specification) -/

/-- white space is preserved below this element -/
def presTrig (m : Method) (t : QName) (a : AttrList) : Bool :=
  qInTable (preserveElems m) t || attrGet a xmlSpaceQ == some preserveLit

/-- the pending run of text as one plain text leaf -/
def flushS (pres : Bool) : Option Str → List Node
  | none => []
  | some s => [.leaf (.text (stdNorm pres s) false)]

mutual
  /-- one tree: the nodes complete after it and the pending run of text -/
  def normTreeA (m : Method) (pres : Bool) (buf : Option Str) : Node → List Node × Option Str
    | .elem t a ks =>
        if ks.isEmpty then (flushS pres buf ++ [.elem t a []], none)
        else
          let r := normForestA m (pres || presTrig m t a) none ks
          (flushS pres buf ++ [.elem t a (r.1 ++ flushS (pres || presTrig m t a) r.2)], none)
    | .leaf e =>
        match e with
        | .text s _ => ([], some (buf.getD [] ++ s))
        | e => (flushS pres buf ++ [.leaf e], none)
  def normForestA (m : Method) (pres : Bool) (buf : Option Str) : List Node → List Node × Option Str
    | [] => ([], buf)
    | n :: ns =>
        let r := normTreeA m pres buf n
        let r2 := normForestA m pres r.2 ns
        (r.1 ++ r2.1, r2.2)
end

/-- text runs merged; white space normalised outside preserved space -/
def normForest (m : Method) (ns : List Node) : List Node :=
  let r := normForestA m false none ns
  r.1 ++ flushS false r.2

/-! ### the domain -/

/-- the serializer writes the text children of this element raw -/
def rawOf (m : Method) (t : QName) : Bool := decide (m = .html) && inTable (noescapeElems .html) t.loc

mutual
  def wsDomT (m : Method) (rawP : Bool) : Node → Bool
    | .elem t _ ks =>
        !rawP && (qInTable (wsCfg m).noescape t == rawOf m t) && wsDomF m (rawOf m t) ks
    | .leaf e =>
        match e with
        | .text _ f => !f
        | .comment _ => !rawP
        | .pi _ _ => !rawP
        | .doctype _ _ _ => !rawP
        | .xmlDecl _ _ _ => !rawP
        | _ => false
  def wsDomF (m : Method) (rawP : Bool) : List Node → Bool
    | [] => true
    | n :: ns => wsDomT m rawP n && wsDomF m rawP ns
end

/-- the forests the strip theorems are about -/
def wsDom (m : Method) (ns : List Node) : Bool := wsDomF m false ns

/-! ### `serSpec` over appended lists -/

def wsCtxEnd (m : Method) (o : Opts) (c : Ctx) (evs : List FEv) : Ctx := evs.foldl (ctxAfter m o) c

theorem wsf_serSpec_append (m : Method) (o : Opts) (a b : List FEv) : ∀ c : Ctx,
    serSpec m o c (a ++ b) = serSpec m o c a ++ serSpec m o (wsCtxEnd m o c a) b := by
  induction a with
  | nil => intro c; rfl
  | cons e es ih => intro c; simp [serSpec, wsCtxEnd, ih]

theorem wsf_ctxEnd_append (m : Method) (o : Opts) (a b : List FEv) (c : Ctx) :
    wsCtxEnd m o c (a ++ b) = wsCtxEnd m o (wsCtxEnd m o c a) b := by
  simp [wsCtxEnd, List.foldl_append]

theorem wsf_forestFu_app (u : Str) (s : Bool) (a b : List Node) :
    forestFu u s (a ++ b) = forestFu u s a ++ forestFu u s b := by
  induction a with
  | nil => simp [forestFu]
  | cons n ns ih => simp [forestFu, ih]

theorem wsf_isEmpty_app {α : Type} (a b : List α) : (a ++ b).isEmpty = (a.isEmpty && b.isEmpty) := by
  cases a <;> simp

/-- both forests are written alike from context `c` and leave the same context -/
def OutEq (m : Method) (o : Opts) (u : Str) (s : Bool) (c : Ctx) (X Y : List Node) : Prop :=
  serSpec m o c (forestFu u s X) = serSpec m o c (forestFu u s Y) ∧
  wsCtxEnd m o c (forestFu u s X) = wsCtxEnd m o c (forestFu u s Y)

theorem OutEq.append {m : Method} {o : Opts} {u : Str} {s : Bool} {c : Ctx} {X Y X2 Y2 : List Node}
    (h1 : OutEq m o u s c X Y) (h2 : OutEq m o u s (wsCtxEnd m o c (forestFu u s X)) X2 Y2) :
    OutEq m o u s c (X ++ X2) (Y ++ Y2) := by
  obtain ⟨a1, b1⟩ := h1
  obtain ⟨a2, b2⟩ := h2
  refine ⟨?_, ?_⟩
  · rw [wsf_forestFu_app, wsf_forestFu_app, wsf_serSpec_append, wsf_serSpec_append, a1, ← b1, a2]
  · rw [wsf_forestFu_app, wsf_forestFu_app, wsf_ctxEnd_append, wsf_ctxEnd_append, ← b1, b2]

/-! ### filter state and pending run in step -/

structure WsSim (st : WsSt) (buf : Option Str) (pn : Nat) (rawP : Bool) : Prop where
  pres : st.preserve = pn
  noesc : st.noescape = rawP
  cd : st.inCdata = false
  emp : st.textbuf.isEmpty = buf.isNone
  txt : st.textbuf.flatMap (fun p => p.1) = buf.getD []
  flags : ∀ p ∈ st.textbuf, p.2 = rawP

theorem wsf_bufOut_raw (tb : List (Str × Bool)) (h : ∀ p ∈ tb, p.2 = true) :
    tb.flatMap (fun p => if p.2 then p.1 else escapePy false p.1) = tb.flatMap (fun p => p.1) := by
  induction tb with
  | nil => rfl
  | cons p ps ih =>
    have hp := h p (by simp)
    simp only [List.flatMap_cons, hp, ↓reduceIte]
    rw [ih (fun q hq => h q (by simp [hq]))]

theorem wsf_bufOut_plain (tb : List (Str × Bool)) (h : ∀ p ∈ tb, p.2 = false) :
    tb.flatMap (fun p => if p.2 then p.1 else escapePy false p.1) = escapeSpec false (tb.flatMap (fun p => p.1)) := by
  induction tb with
  | nil => rfl
  | cons p ps ih =>
    have hp := h p (by simp)
    simp only [List.flatMap_cons, hp, Bool.false_eq_true, ↓reduceIte]
    rw [ih (fun q hq => h q (by simp [hq])), escapePy_eq_spec]
    simp [escapeSpec, List.flatMap_append]

theorem wsf_stdNorm_escape (p : Bool) (x : Str) : stdNorm p (escapeSpec false x) = escapeSpec false (stdNorm p x) := by
  cases p
  · simp [stdNorm, wsNorm_escape]
  · simp [stdNorm]

/-- the flushed text: one Markup text from the filter, one plain text from the specification -/
theorem flush_outEq (m : Method) (o : Opts) (u : Str) (s : Bool) (st : WsSt) (buf : Option Str) (pn : Nat)
    (rawP : Bool) (c : Ctx) (h : WsSim st buf pn rawP) (hc : c.raw = rawP) :
    OutEq m o u s c (wsFlushN stdNorm st) (flushS (pn != 0) buf) ∧
      wsCtxEnd m o c (forestFu u s (wsFlushN stdNorm st)) = c := by
  obtain ⟨hp, _, _, he, ht, hf⟩ := h
  cases buf with
  | none =>
    have : st.textbuf.isEmpty = true := by simpa using he
    simp [OutEq, wsFlushN, this, flushS, forestFu, wsCtxEnd]
  | some b =>
    have hne : st.textbuf.isEmpty = false := by simpa using he
    have hb : st.textbuf.flatMap (fun p => p.1) = b := by simpa using ht
    simp only [OutEq, wsFlushN, hne, Bool.false_eq_true, ↓reduceIte, flushS, forestFu, treeFu, leafF,
      Option.toList_some, List.append_nil, serSpec, emit, wsCtxEnd, List.foldl_cons, List.foldl_nil, ctxAfter, hp,
      and_true]
    cases rawP with
    | true =>
      rw [wsf_bufOut_raw _ hf, hb]; simp [hc]
    | false =>
      rw [wsf_bufOut_plain _ hf, hb, wsf_stdNorm_escape]; simp [hc]

/-- what the simulation delivers for a piece of the forest -/
structure SimOut (m : Method) (o : Opts) (u : Str) (s : Bool) (c : Ctx) (pn : Nat) (rawP : Bool)
    (r : List Node × WsSt) (r' : List Node × Option Str) : Prop where
  sim : WsSim r.2 r'.2 pn rawP
  emp : r.1.isEmpty = r'.1.isEmpty
  out : OutEq m o u s c r.1 r'.1
  raw : (wsCtxEnd m o c (forestFu u s r.1)).raw = rawP

theorem wsSim_cleared (st : WsSt) (pn : Nat) (rawP : Bool) (hp : st.preserve = pn) (hn : st.noescape = rawP)
    (hc : st.inCdata = false) : WsSim { st with textbuf := [] } none pn rawP :=
  ⟨hp, hn, hc, rfl, rfl, by intro p hp; cases hp⟩

/-- a complete node behind the flushed text -/
theorem simOut_node (m : Method) (o : Opts) (u : Str) (s : Bool) (c : Ctx) (pn : Nat) (st st' : WsSt)
    (buf : Option Str) (x y : Node) (h : WsSim st buf pn false) (hc : c.raw = false)
    (h' : WsSim st' none pn false)
    (hxy : OutEq m o u s c [x] [y]) (hraw : (wsCtxEnd m o c (forestFu u s [x])).raw = false) :
    SimOut m o u s c pn false (wsFlushN stdNorm st ++ [x], st') (flushS (pn != 0) buf ++ [y], none) := by
  have hfl := flush_outEq m o u s st buf pn false c h hc
  refine ⟨h', by simp [wsf_isEmpty_app], OutEq.append hfl.1 (by rw [hfl.2]; exact hxy), ?_⟩
  show (wsCtxEnd m o c (forestFu u s (wsFlushN stdNorm st ++ [x]))).raw = false
  rw [wsf_forestFu_app, wsf_ctxEnd_append, hfl.2]; exact hraw

theorem wsCfg_preserve (m : Method) : (wsCfg m).preserve = preserveElems m := by cases m <;> rfl

theorem wsUpdate_end_preserve (cfg : WsCfg) (st : WsSt) (t : QName) :
    (wsUpdate cfg st (.end_ t)).preserve = (if st.preserve != 0 then st.preserve - 1 else 0) ∧
    (wsUpdate cfg st (.end_ t)).noescape = false ∧ (wsUpdate cfg st (.end_ t)).inCdata = st.inCdata ∧
    (wsUpdate cfg st (.end_ t)).textbuf = st.textbuf := by
  simp [wsUpdate]

theorem wsUpdate_start_preserve (cfg : WsCfg) (st : WsSt) (t : QName) (a : AttrList) :
    (wsUpdate cfg st (.start t a)).preserve =
      (if st.preserve != 0 || qInTable cfg.preserve t || attrGet a xmlSpaceQ == some preserveLit
       then st.preserve + 1 else st.preserve) := by
  simp only [wsUpdate]
  split <;> (split <;> rfl)

theorem wsf_ctxAfter_end_raw (m : Method) (o : Opts) (c : Ctx) (t : Str) :
    (ctxAfter m o c (.end_ t)).raw = (if m = .html then false else c.raw) := by
  simp only [ctxAfter]; split <;> rfl

/-- an element with children: written alike when the children are -/
theorem outEq_elem (m : Method) (o : Opts) (u : Str) (s : Bool) (c : Ctx) (t : QName) (a : AttrList)
    (X Y : List Node) (hX : X.isEmpty = false) (hY : Y.isEmpty = false)
    (h : OutEq m o u true (ctxAfter m o c (.start t.loc (declAttr u s ++ fAttrs a))) X Y)
    (hraw : (wsCtxEnd m o (ctxAfter m o c (.start t.loc (declAttr u s ++ fAttrs a))) (forestFu u true X)).raw = rawOf m t) :
    OutEq m o u s c [.elem t a X] [.elem t a Y] ∧ (wsCtxEnd m o c (forestFu u s [.elem t a X])).raw = false := by
  obtain ⟨h1, h2⟩ := h
  have eX : forestFu u s [.elem t a X] =
      [.start t.loc (declAttr u s ++ fAttrs a)] ++ (forestFu u true X ++ [.end_ t.loc]) := by
    simp [forestFu, treeFu, hX]
  have eY : forestFu u s [.elem t a Y] =
      [.start t.loc (declAttr u s ++ fAttrs a)] ++ (forestFu u true Y ++ [.end_ t.loc]) := by
    simp [forestFu, treeFu, hY]
  have hs : ∀ l, wsCtxEnd m o c ([XEv.start t.loc (declAttr u s ++ fAttrs a)] ++ l) =
      wsCtxEnd m o (ctxAfter m o c (.start t.loc (declAttr u s ++ fAttrs a))) l := by
    intro l; simp [wsCtxEnd]
  have hs1 : wsCtxEnd m o c [XEv.start t.loc (declAttr u s ++ fAttrs a)] =
      ctxAfter m o c (.start t.loc (declAttr u s ++ fAttrs a)) := rfl
  refine ⟨⟨?_, ?_⟩, ?_⟩
  · rw [eX, eY, wsf_serSpec_append, wsf_serSpec_append, wsf_serSpec_append m o _ (forestFu u true Y ++ _),
      wsf_serSpec_append m o (forestFu u true Y), hs1, h1, h2]
  · rw [eX, eY, hs, hs, wsf_ctxEnd_append, wsf_ctxEnd_append, h2]
  · rw [eX, hs, wsf_ctxEnd_append]
    show (ctxAfter m o (wsCtxEnd m o _ (forestFu u true X)) (.end_ t.loc)).raw = false
    rw [wsf_ctxAfter_end_raw, hraw]
    by_cases hm : m = .html <;> simp [hm, rawOf]

mutual
  theorem wsSim_tree (m : Method) (o : Opts) (u : Str) : ∀ (n : Node) (st : WsSt) (buf : Option Str) (pn : Nat)
      (rawP : Bool) (c : Ctx) (s : Bool), WsSim st buf pn rawP → c.raw = rawP → wsDomT m rawP n = true →
      SimOut m o u s c pn rawP (wsTreeG stdNorm (wsCfg m) st n) (normTreeA m (pn != 0) buf n)
    | .elem t a ks, st, buf, pn, rawP, c, s, h, hc, hd => by
        simp only [wsDomT, Bool.and_eq_true, Bool.not_eq_true', beq_iff_eq] at hd
        obtain ⟨⟨hr, hag⟩, hk⟩ := hd
        subst hr
        have hcl := wsSim_cleared st pn false h.pres h.noesc h.cd
        cases ks with
        | nil =>
          simp only [wsTreeG, normTreeA, List.isEmpty_nil, ↓reduceIte]
          refine simOut_node m o u s c pn st _ buf _ _ h hc hcl ?_ ?_
          · exact ⟨rfl, rfl⟩
          · simp [forestFu, treeFu, wsCtxEnd, ctxAfter, hc]
        | cons k ks' =>
          simp only [wsTreeG, normTreeA, List.isEmpty_cons, Bool.false_eq_true, ↓reduceIte]
          -- the state behind START
          have hfl := wsUpdate_start_flags (wsCfg m) { st with textbuf := [] } t a
          have hpr := wsUpdate_start_preserve (wsCfg m) { st with textbuf := [] } t a
          have htb := wsUpdate_textbuf (wsCfg m) { st with textbuf := [] } (.start t a)
          have hpn1 : ((if pn != 0 || presTrig m t a then pn + 1 else pn) != 0) = (pn != 0 || presTrig m t a) := by
            by_cases hx : (pn != 0 || presTrig m t a) = true
            · simp [hx]
            · have hx' : (pn != 0 || presTrig m t a) = false := by simpa using hx
              simp only [hx', Bool.false_eq_true, ↓reduceIte]
              simp only [Bool.or_eq_false_iff] at hx'
              exact hx'.1
          have hsim1 : WsSim (wsUpdate (wsCfg m) { st with textbuf := [] } (.start t a)) none
              (if pn != 0 || presTrig m t a then pn + 1 else pn) (rawOf m t) := by
            refine ⟨?_, ?_, ?_, ?_, ?_, ?_⟩
            · rw [hpr]; simp only [h.pres, presTrig, wsCfg_preserve, Bool.or_assoc]; congr
            · rw [hfl.1]; simp [h.noesc, hag]
            · rw [hfl.2]; exact h.cd
            · rw [htb]; rfl
            · rw [htb]; rfl
            · rw [htb]; intro p hp; cases hp
          -- the context behind START
          have hc1 : (ctxAfter m o c (.start t.loc (declAttr u s ++ fAttrs a))).raw = rawOf m t := by
            simp only [ctxAfter, rawOf]
            cases m <;> simp [hc] <;> split <;> simp_all
          have ih := wsSim_forest m o u (k :: ks') _ none _ (rawOf m t)
            (ctxAfter m o c (.start t.loc (declAttr u s ++ fAttrs a))) true hsim1 hc1 hk
          rw [hpn1] at ih
          revert ih
          have hliveG := wsForestG_live stdNorm (wsCfg m) (k :: ks')
            (wsUpdate (wsCfg m) { st with textbuf := [] } (.start t a)) (Or.inl (by simp))
          revert hliveG
          generalize wsForestG stdNorm (wsCfg m) (wsUpdate (wsCfg m) { st with textbuf := [] } (.start t a)) (k :: ks') = r
          generalize normForestA m (pn != 0 || presTrig m t a) none (k :: ks') = r'
          intro hliveG ih
          have hlive : wsLive r → (r.1 ++ wsFlushN stdNorm r.2).isEmpty = false := by
            intro hl
            have : r.1 ++ wsFlushN stdNorm r.2 ≠ [] := by
              intro he
              rw [List.append_eq_nil_iff, wsFlushN_eq_nil] at he
              rcases hl with h1 | h1
              · exact h1 he.1
              · exact h1 he.2
            simpa using this
          have hsimK := ih.sim
          have hWne := hlive hliveG
          have hYne : (r'.1 ++ flushS (pn != 0 || presTrig m t a) r'.2).isEmpty = false := by
            have he1 := ih.emp
            have he2 := hsimK.emp
            rw [wsf_isEmpty_app] at hWne ⊢
            have hf1 : (wsFlushN stdNorm r.2).isEmpty = r.2.textbuf.isEmpty := by
              unfold wsFlushN; split <;> simp_all
            have hf2 : (flushS (pn != 0 || presTrig m t a) r'.2).isEmpty = r'.2.isNone := by
              cases r'.2 <;> simp [flushS]
            rw [hf1] at hWne
            rw [hf2, ← he1, ← he2]; exact hWne
          have hflK := flush_outEq m o u true r.2 r'.2 _ (rawOf m t)
            (wsCtxEnd m o (ctxAfter m o c (.start t.loc (declAttr u s ++ fAttrs a))) (forestFu u true r.1)) hsimK ih.raw
          rw [hpn1] at hflK
          have hkids : OutEq m o u true (ctxAfter m o c (.start t.loc (declAttr u s ++ fAttrs a)))
              (r.1 ++ wsFlushN stdNorm r.2) (r'.1 ++ flushS (pn != 0 || presTrig m t a) r'.2) :=
            OutEq.append ih.out hflK.1
          have hrawK : (wsCtxEnd m o (ctxAfter m o c (.start t.loc (declAttr u s ++ fAttrs a)))
              (forestFu u true (r.1 ++ wsFlushN stdNorm r.2))).raw = rawOf m t := by
            rw [wsf_forestFu_app, wsf_ctxEnd_append, hflK.2]; exact ih.raw
          have hel := outEq_elem m o u s c t a _ _ hWne hYne hkids hrawK
          have hend := wsUpdate_end_preserve (wsCfg m) { r.2 with textbuf := [] } t
          have hsimE : WsSim (wsUpdate (wsCfg m) { r.2 with textbuf := [] } (.end_ t)) none pn false := by
            refine ⟨?_, hend.2.1, ?_, ?_, ?_, ?_⟩
            · rw [hend.1]
              show (if r.2.preserve != 0 then r.2.preserve - 1 else 0) = pn
              rw [hsimK.pres]
              by_cases hx : (pn != 0 || presTrig m t a) = true
              · simp [hx]
              · have hx' : (pn != 0 || presTrig m t a) = false := by simpa using hx
                simp only [hx', Bool.false_eq_true, ↓reduceIte]
                simp only [Bool.or_eq_false_iff] at hx'
                have : pn = 0 := by simpa using hx'.1
                simp [this]
            · rw [hend.2.2.1]; exact hsimK.cd
            · rw [hend.2.2.2]; rfl
            · rw [hend.2.2.2]; rfl
            · rw [hend.2.2.2]; intro p hp; cases hp
          exact simOut_node m o u s c pn st _ buf _ _ h hc hsimE hel.1 hel.2
    | .leaf e, st, buf, pn, rawP, c, s, h, hc, hd => by
        cases e with
        | text x f =>
          have hf : f = false := by simpa [wsDomT] using hd
          subst hf
          simp only [wsTreeG, normTreeA]
          refine ⟨⟨h.pres, h.noesc, h.cd, by simp, ?_, ?_⟩, rfl, ⟨rfl, rfl⟩, by simpa [forestFu, wsCtxEnd] using hc⟩
          · simp [List.flatMap_append, h.txt]
          · intro p hp
            simp only [List.mem_append, List.mem_singleton] at hp
            rcases hp with hp | hp
            · exact h.flags p hp
            · subst hp; simp [h.noesc, h.cd]
        | comment x =>
          have hr : rawP = false := by simpa [wsDomT] using hd
          subst hr
          simp only [wsTreeG, normTreeA]
          refine simOut_node m o u s c pn st _ buf _ _ h hc (wsSim_cleared st pn false h.pres h.noesc h.cd) ⟨rfl, rfl⟩ ?_
          simp [forestFu, treeFu, leafF, wsCtxEnd, ctxAfter, hc]
        | pi x y =>
          have hr : rawP = false := by simpa [wsDomT] using hd
          subst hr
          simp only [wsTreeG, normTreeA]
          refine simOut_node m o u s c pn st _ buf _ _ h hc (wsSim_cleared st pn false h.pres h.noesc h.cd) ⟨rfl, rfl⟩ ?_
          simp [forestFu, treeFu, leafF, wsCtxEnd, ctxAfter, hc]
        | doctype x y z =>
          have hr : rawP = false := by simpa [wsDomT] using hd
          subst hr
          simp only [wsTreeG, normTreeA]
          refine simOut_node m o u s c pn st _ buf _ _ h hc (wsSim_cleared st pn false h.pres h.noesc h.cd) ⟨rfl, rfl⟩ ?_
          simp [forestFu, treeFu, leafF, wsCtxEnd, ctxAfter, hc]
        | xmlDecl x y z =>
          have hr : rawP = false := by simpa [wsDomT] using hd
          subst hr
          simp only [wsTreeG, normTreeA]
          refine simOut_node m o u s c pn st _ buf _ _ h hc (wsSim_cleared st pn false h.pres h.noesc h.cd) ⟨rfl, rfl⟩ ?_
          simp only [forestFu, treeFu, leafF, Option.toList_some, List.append_nil, wsCtxEnd, List.foldl_cons,
            List.foldl_nil, ctxAfter]
          split <;> simp [hc]
        | _ => simp [wsDomT] at hd
  theorem wsSim_forest (m : Method) (o : Opts) (u : Str) : ∀ (ns : List Node) (st : WsSt) (buf : Option Str) (pn : Nat)
      (rawP : Bool) (c : Ctx) (s : Bool), WsSim st buf pn rawP → c.raw = rawP → wsDomF m rawP ns = true →
      SimOut m o u s c pn rawP (wsForestG stdNorm (wsCfg m) st ns) (normForestA m (pn != 0) buf ns)
    | [], st, buf, pn, rawP, c, s, h, hc, _ => by
        simp only [wsForestG, normForestA]
        exact ⟨h, rfl, ⟨rfl, rfl⟩, by simpa [forestFu, wsCtxEnd] using hc⟩
    | n :: ns, st, buf, pn, rawP, c, s, h, hc, hd => by
        simp only [wsDomF, Bool.and_eq_true] at hd
        simp only [wsForestG, normForestA]
        have h1 := wsSim_tree m o u n st buf pn rawP c s h hc hd.1
        have h2 := wsSim_forest m o u ns _ _ pn rawP _ s h1.sim h1.raw hd.2
        refine ⟨h2.sim, ?_, OutEq.append h1.out h2.out, ?_⟩
        · simp only [wsf_isEmpty_app, h1.emp, h2.emp]
        · show (wsCtxEnd m o c (forestFu u s (_ ++ _))).raw = rawP
          rw [wsf_forestFu_app, wsf_ctxEnd_append]; exact h2.raw
end

end Genshi.Output

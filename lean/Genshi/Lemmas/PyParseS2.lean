/-
  C13 — statement layer, part 2: the supported statements and the one-line statements.
-/
import Genshi.Lemmas.PyParseS1
namespace Genshi.Py
open Genshi.Gen

def SupportedO (o : Option PyExpr) : Prop := ∀ x, o = some x → Supported x

def isHandler : PyStmt → Bool
  | .handler _ _ _ => true
  | _ => false

def noHandlers (ss : List PyStmt) : Bool := ss.all fun s => !isHandler s

/-- lambda-style parameters (no annotations) -/
def ParamsOK (po ar : List PyExpr) (va : Option PyExpr) (ko : List PyExpr) (ka : Option PyExpr) : Prop :=
  WFL po ∧ WFL ar ∧ WFO va ∧ WFL ko ∧ WFO ka ∧ po.all isPlainParam = true ∧ ar.all isPlainParam = true
    ∧ ko.all isPlainParam = true ∧ (∀ v, va = some v → isVarParam v = true) ∧ (∀ v, ka = some v → isVarParam v = true)

mutual
/-- the statements for which regeneration is claimed to be faithful (statement layer) -/
def WFS : PyStmt → Prop
  | .expr e => Supported e
  | .assign ts v => ts ≠ [] ∧ (∀ t ∈ ts, Supported t) ∧ Supported v
  | .augAssign t op v => (lookup AstGen.binaryOperators op).isSome = true ∧ Supported t ∧ Supported v
  | .return_ v => SupportedO v
  | .pass_ => True
  | .break_ => True
  | .continue_ => True
  | .assert_ t m => Supported t ∧ SupportedO m
  | .raise_ e c => SupportedO e ∧ SupportedO c ∧ (e = none → c = none)
  | .if_ t b o => Supported t ∧ WFSL b ∧ WFSL o ∧ noHandlers b = true ∧ noHandlers o = true
  | .while_ t b o => Supported t ∧ WFSL b ∧ WFSL o ∧ noHandlers b = true ∧ noHandlers o = true
  | .for_ t it b o => Supported t ∧ Supported it ∧ WFSL b ∧ WFSL o ∧ noHandlers b = true ∧ noHandlers o = true
  | .with_ items b => items ≠ [] ∧ (∀ i ∈ items, Supported i.1 ∧ SupportedO i.2) ∧ WFSL b ∧ noHandlers b = true
  | .try_ b hs o f =>
      WFSL b ∧ WFSL hs ∧ hs.all isHandler = true ∧ WFSL o ∧ WFSL f ∧ noHandlers b = true ∧ noHandlers o = true
        ∧ noHandlers f = true
  | .handler t n b => SupportedO t ∧ n = none ∧ WFSL b ∧ noHandlers b = true
  | .functionDef name po ar va ko ka body decos ret tp =>
      IdentOK name ∧ ParamsOK po ar va ko ka ∧ WFSL body ∧ noHandlers body = true ∧ (∀ d ∈ decos, Supported d)
        ∧ SupportedO ret ∧ tp = false
  | .classDef name bases kws body decos tp =>
      IdentOK name ∧ WFL bases ∧ bases.all isElt = true ∧ WFL kws ∧ kws.all isKw = true ∧ WFSL body
        ∧ noHandlers body = true ∧ (∀ d ∈ decos, Supported d) ∧ tp = false
  | .delete _ => False
  | .global_ _ => False
  | .import_ _ => False
  | .importFrom _ _ _ => False
  | .unsupported _ => False
def WFSL : List PyStmt → Prop
  | [] => True
  | s :: ss => WFS s ∧ WFSL ss
end

/-! ### one-line statements -/

def isSimple : PyStmt → Bool
  | .expr _ | .assign _ _ | .augAssign _ _ _ | .return_ _ | .pass_ | .break_ | .continue_ | .assert_ _ _ | .raise_ _ _ => true
  | _ => false

theorem pyParse_gen (e : PyExpr) (h : Supported e) : pyParse (gen e) = some e := by
  obtain ⟨hwf, hex⟩ := h
  have g := goal_expr hex (main e hwf)
  have hsz := sz_le e hwf
  have hfuel : need e + 1 ≤ parseFuel (gen e) := by simp only [need, parseFuel]; omega
  have hk := g.kexpr hfuel [] rfl
  simp only [List.append_nil] at hk
  unfold pyParse topF
  have : itemF (knot (parseFuel (gen e))) .elts (gen e) = some (e, []) := by
    show eltF _ _ = _
    rw [eltF_expr _ _ (headOK_parenStart g.head)]
    exact hk
  simp [this]

theorem gen_ne_nil (e : PyExpr) (h : Supported e) : ∃ t r, gen e = t :: r ∧ atomStart t = true := by
  have := supported_head e h
  cases hg : gen e with
  | nil => simp [hg, headOK] at this
  | cons t r => exact ⟨t, r, rfl, by simpa [hg, headOK] using this⟩

/-- no statement keyword is the first token of an expression -/
theorem atomStart_not_kw {t : Tok} (h : atomStart t = true) (s : Str) (hk : isKeyword s = true) (h1 : s ≠ cs!"True")
    (h2 : s ≠ cs!"False") (h3 : s ≠ cs!"None") : t ≠ Tok.name s := by
  intro e; subst e; simp [atomStart, hk, h1, h2, h3] at h

/-- the keywords a statement line can start with -/
def stmtKeywords : List Str :=
  [cs!"pass", cs!"break", cs!"continue", cs!"return", cs!"del", cs!"assert", cs!"raise", cs!"import", cs!"from",
   cs!"if", cs!"while", cs!"for", cs!"with", cs!"try", cs!"def", cs!"class", cs!"else", cs!"except", cs!"finally",
   cs!"global", cs!"lambda", cs!"not", cs!"yield"]

theorem atomStart_not_stmtKw {t : Tok} (h : atomStart t = true) (s : Str) (hs : s ∈ stmtKeywords) : t ≠ Tok.name s := by
  simp only [stmtKeywords, List.mem_cons, List.mem_nil_iff, or_false] at hs
  rcases hs with rfl | rfl | rfl | rfl | rfl | rfl | rfl | rfl | rfl | rfl | rfl | rfl | rfl | rfl | rfl | rfl | rfl | rfl
    | rfl | rfl | rfl | rfl | rfl <;>
    exact atomStart_not_kw h _ (by decide) (by decide) (by decide) (by decide)

theorem assignTail_loop (ts : List PyExpr) (hts : ∀ t ∈ ts, Supported t) (v : PyExpr) (hv : Supported v) :
    ∀ (fuel : Nat) (acc : List PyExpr) (e : PyExpr), ts.length + 2 ≤ fuel →
      assignTailP fuel acc e (Tok.op ['='] :: (genList [] [Tok.op ['=']] ts ++ gen v)) = some (acc.reverse ++ e :: ts, v) := by
  induction ts with
  | nil =>
    intro fuel acc e hf
    obtain ⟨f, rfl⟩ : ∃ f, fuel = f + 2 := ⟨fuel - 2, by simp at hf; omega⟩
    have := exprP_gen v hv [] rfl
    simp only [List.append_nil] at this
    simp [genList_nil, assignTailP, this]
  | cons t ts ih =>
    intro fuel acc e hf
    obtain ⟨f, rfl⟩ : ∃ f, fuel = f + 1 := ⟨fuel - 1, by simp at hf; omega⟩
    have ht := exprP_gen t (hts t (by simp)) (tEq :: (genList [] [tEq] ts ++ gen v)) (stopsAll_eq _)
    simp only [tEq] at ht
    simp only [genList_cons, List.nil_append, List.append_assoc, List.cons_append, List.singleton_append]
    have hrec := ih (fun x hx => hts x (by simp [hx])) f (e :: acc) t (by simp at hf ⊢; omega)
    simp only [assignTailP]
    rw [ht]
    simp only [Option.bind_eq_bind, Option.bind_some]
    rw [hrec]
    simp

theorem genList_len_pos (ts : List PyExpr) (v : List Tok) : ts.length + v.length ≤ (genList [] [tEq] ts ++ v).length := by
  induction ts with
  | nil => simp [genList_nil]
  | cons t ts ih => simp [genList_cons] at ih ⊢; omega

/-- the one-line statements are read back -/
theorem simple_ok (s : PyStmt) (h : WFS s) (hs : isSimple s = true) (ind : Nat) :
    ∃ toks, genStmt ind s = [⟨ind, toks⟩] ∧ simpleP toks = some s ∧
      (∃ t r, toks = t :: r ∧ (atomStart t = true ∨ t = kw cs!"pass" ∨ t = kw cs!"break" ∨ t = kw cs!"continue"
        ∨ t = kw cs!"return" ∨ t = kw cs!"assert" ∨ t = kw cs!"raise")) := by
  cases s with
  | pass_ => exact ⟨_, rfl, rfl, _, _, rfl, by simp⟩
  | break_ => exact ⟨_, rfl, rfl, _, _, rfl, by simp⟩
  | continue_ => exact ⟨_, rfl, rfl, _, _, rfl, by simp⟩
  | return_ v =>
    simp only [WFS] at h
    cases v with
    | none => exact ⟨_, rfl, rfl, _, _, rfl, by simp⟩
    | some x =>
      have hx := h x rfl
      obtain ⟨t, r, hg, _⟩ := gen_ne_nil x hx
      refine ⟨_, rfl, ?_, _, _, rfl, by simp⟩
      simp only [genOpt, List.nil_append, simpleP, kw]
      rw [hg]
      simp only []
      rw [← hg, pyParse_gen x hx]
      rfl
  | expr e =>
    simp only [WFS] at h
    obtain ⟨t, r, hg, ht⟩ := gen_ne_nil e h
    refine ⟨gen e, rfl, ?_, t, r, hg, Or.inl ht⟩
    have hex := exprP_gen e h [] rfl
    simp only [List.append_nil] at hex
    rw [hg] at hex ⊢
    have hkw : ∀ s ∈ stmtKeywords, t ≠ Tok.name s := fun s hs => atomStart_not_stmtKw ht s hs
    unfold simpleP
    split <;> first
      | (rename_i heq; exact absurd (List.cons.inj heq).1 (hkw _ (by decide)))
      | simp [hex]
  | assign ts v =>
    simp only [WFS] at h
    obtain ⟨hne, hts, hv⟩ := h
    obtain ⟨t1, ts', rfl⟩ : ∃ t1 ts', ts = t1 :: ts' := by
      cases ts with
      | nil => exact absurd rfl hne
      | cons a b => exact ⟨a, b, rfl⟩
    have h1 := hts t1 (by simp)
    obtain ⟨t, r, hg, ht⟩ := gen_ne_nil t1 h1
    obtain ⟨tv, rv, hgv, _⟩ := gen_ne_nil v hv
    have hkw : ∀ s ∈ stmtKeywords, t ≠ Tok.name s := fun s hs => atomStart_not_stmtKw ht s hs
    have hex := exprP_gen t1 h1 (tEq :: (genList [] [tEq] ts' ++ gen v)) (stopsAll_eq _)
    have hlen := genList_len_pos ts' (gen v)
    refine ⟨gen t1 ++ tEq :: (genList [] [tEq] ts' ++ gen v), ?_, ?_, t, r ++ tEq :: (genList [] [tEq] ts' ++ gen v), by simp [hg], Or.inl ht⟩
    · simp [genStmt, genList_cons]
    · rw [hg] at hex ⊢
      simp only [List.cons_append, tEq] at hex hlen ⊢
      unfold simpleP
      split <;> first
        | (rename_i heq; exact absurd (List.cons.inj heq).1 (hkw _ (by decide)))
        | skip
      simp only [hex, Option.bind_eq_bind, Option.bind_some]
      rw [assignTail_loop ts' (fun x hx => hts x (by simp [hx])) v hv _ [] t1 (by simp only [List.length_cons]; omega)]
      simp
  | augAssign t op v =>
    simp only [WFS] at h
    obtain ⟨hop, ht0, hv⟩ := h
    obtain ⟨sym, hsym⟩ := Option.isSome_iff_exists.mp hop
    obtain ⟨a1, a2, a3, a4, a5, a6, a7, a8⟩ := augTable_ok _ (lookup_mem hsym)
    simp only at a1 a2 a3 a4 a5 a6 a7 a8
    obtain ⟨t1, r, hg, ht⟩ := gen_ne_nil t ht0
    have hkw : ∀ s ∈ stmtKeywords, t1 ≠ Tok.name s := fun s hs => atomStart_not_stmtKw ht s hs
    have hex := exprP_gen t ht0 (Tok.op (sym ++ ['=']) :: gen v) (stopsAll_op _ _ a3 a4 a5 a6 a7 a8)
    have hpv := pyParse_gen v hv
    refine ⟨gen t ++ Tok.op (sym ++ ['=']) :: gen v, ?_, ?_, t1, r ++ Tok.op (sym ++ ['=']) :: gen v, by simp [hg], Or.inl ht⟩
    · simp [genStmt, hsym]
    · rw [hg] at hex ⊢
      simp only [List.cons_append] at hex ⊢
      unfold simpleP
      split <;> first
        | (rename_i heq; exact absurd (List.cons.inj heq).1 (hkw _ (by decide)))
        | skip
      simp only [hex, Option.bind_eq_bind, Option.bind_some]
      split
      · rename_i heq
        rw [a1] at heq
        cases heq
        simp [hpv]
      · rename_i heq
        rw [a1] at heq
        cases heq
  | assert_ t m =>
    simp only [WFS] at h
    obtain ⟨ht0, hm⟩ := h
    cases m with
    | none =>
      have hex := exprP_gen t ht0 [] rfl
      simp only [List.append_nil] at hex
      refine ⟨_, rfl, ?_, _, _, rfl, by simp⟩
      simp [simpleP, kw, genOpt, hex]
    | some x =>
      have hx := hm x rfl
      have hex := exprP_gen t ht0 (tComma :: gen x) (stopsAll_closedE rfl)
      refine ⟨_, rfl, ?_, _, _, rfl, by simp⟩
      simp only [tComma] at hex
      simp [simpleP, kw, genOpt, tComma, hex, pyParse_gen x hx]
  | raise_ e c =>
    simp only [WFS] at h
    obtain ⟨he, hc, hnone⟩ := h
    cases e with
    | none =>
      have := hnone rfl
      subst this
      exact ⟨_, rfl, rfl, _, _, rfl, by simp⟩
    | some x =>
      have hx := he x rfl
      obtain ⟨t1, r, hg, ht⟩ := gen_ne_nil x hx
      cases c with
      | none =>
        have hex := exprP_gen x hx [] rfl
        simp only [List.append_nil] at hex
        refine ⟨_, rfl, ?_, _, _, rfl, by simp⟩
        simp only [genOpt, List.nil_append, List.append_nil, simpleP, kw]
        rw [hg] at hex ⊢
        simp [hex]
      | some y =>
        have hy := hc y rfl
        have hex := exprP_gen x hx (kw cs!"from" :: gen y) (stopsAll_from _)
        refine ⟨_, rfl, ?_, _, _, rfl, by simp⟩
        simp only [genOpt, List.nil_append, simpleP, kw]
        rw [hg] at hex ⊢
        simp only [List.cons_append, kw] at hex ⊢
        simp [hex, pyParse_gen y hy]
  | _ => simp [isSimple] at hs

end Genshi.Py

/-
  C13 — statement layer, part 2: the supported statements and the one-line statements.
-/
import Genshi.Lemmas.PyParseS1
namespace Genshi.Py
open Genshi.Gen

def SupportedO (o : Option PyExpr) : Prop := ∀ x, o = some x → Supported x

def isHandler : PyStmt → Bool
  | .handler _ _ _ => true
  | _ => false

def noHandlers (ss : List PyStmt) : Bool := ss.all fun s => !isHandler s

def isAnyVarParam : PyExpr → Bool
  | .param _ _ none => true
  | _ => false

/-- the parameters of a `def`: names with optional annotation and default -/
def ParamsOK (po ar : List PyExpr) (va : Option PyExpr) (ko : List PyExpr) (ka : Option PyExpr) : Prop :=
  WFL po ∧ WFL ar ∧ WFO va ∧ WFL ko ∧ WFO ka ∧ po.all isParam = true ∧ ar.all isParam = true
    ∧ ko.all isParam = true ∧ (∀ v, va = some v → isAnyVarParam v = true) ∧ (∀ v, ka = some v → isAnyVarParam v = true)

/-! ### dotted names -/

def dotJoin : List Str → Str
  | [] => []
  | [c] => c
  | c :: d :: cs => c ++ '.' :: dotJoin (d :: cs)

/-- a module path `a.b.c`: non-empty components without dots, none of them a keyword -/
def DottedOK (n : Str) : Prop :=
  ∃ comps, comps ≠ [] ∧ n = dotJoin comps ∧ ∀ c ∈ comps, c ≠ [] ∧ '.' ∉ c ∧ isKeyword c = false

mutual
/-- the statements for which regeneration is claimed to be faithful (statement layer) -/
def WFS : PyStmt → Prop
  | .expr e => Supported e
  | .assign ts v => ts ≠ [] ∧ (∀ t ∈ ts, Supported t) ∧ Supported v
  | .augAssign t op v => (lookup AstGen.binaryOperators op).isSome = true ∧ Supported t ∧ Supported v
  | .return_ v => SupportedO v
  | .pass_ => True
  | .break_ => True
  | .continue_ => True
  | .assert_ t m => Supported t ∧ SupportedO m
  | .raise_ e c => SupportedO e ∧ SupportedO c ∧ (e = none → c = none)
  | .if_ t b o => Supported t ∧ WFSL b ∧ WFSL o ∧ noHandlers b = true ∧ noHandlers o = true
  | .while_ t b o => Supported t ∧ WFSL b ∧ WFSL o ∧ noHandlers b = true ∧ noHandlers o = true
  | .for_ t it b o => Supported t ∧ Supported it ∧ WFSL b ∧ WFSL o ∧ noHandlers b = true ∧ noHandlers o = true
  | .with_ items b => items ≠ [] ∧ (∀ i ∈ items, Supported i.1 ∧ SupportedO i.2) ∧ WFSL b ∧ noHandlers b = true
  | .try_ b hs o f =>
      WFSL b ∧ WFSL hs ∧ hs.all isHandler = true ∧ WFSL o ∧ WFSL f ∧ noHandlers b = true ∧ noHandlers o = true
        ∧ noHandlers f = true
  | .handler t n b => SupportedO t ∧ n = none ∧ WFSL b ∧ noHandlers b = true
  | .functionDef name po ar va ko ka body decos ret tp =>
      IdentOK name ∧ ParamsOK po ar va ko ka ∧ WFSL body ∧ noHandlers body = true ∧ (∀ d ∈ decos, Supported d)
        ∧ SupportedO ret ∧ tp = false
  | .classDef name bases kws body decos tp =>
      IdentOK name ∧ WFL bases ∧ bases.all isElt = true ∧ WFL kws ∧ kws.all isKw = true ∧ WFSL body
        ∧ noHandlers body = true ∧ (∀ d ∈ decos, Supported d) ∧ tp = false
  | .delete ts => ts ≠ [] ∧ ∀ t ∈ ts, Supported t
  | .global_ _ => False
  | .import_ ns => ns ≠ [] ∧ ∀ p ∈ ns, DottedOK p.1
  | .importFrom m ns _ => (∃ mod, m = some mod ∧ DottedOK mod) ∧ ns ≠ []
  | .unsupported _ => False
def WFSL : List PyStmt → Prop
  | [] => True
  | s :: ss => WFS s ∧ WFSL ss
end

/-! ### one-line statements -/

def isSimple : PyStmt → Bool
  | .expr _ | .assign _ _ | .augAssign _ _ _ | .return_ _ | .pass_ | .break_ | .continue_ | .assert_ _ _ | .raise_ _ _
  | .delete _ | .import_ _ | .importFrom _ _ _ => true
  | _ => false

theorem pyParse_gen (e : PyExpr) (h : Supported e) : pyParse (gen e) = some e := by
  obtain ⟨hwf, hex⟩ := h
  have g := goal_expr hex (main e hwf)
  have hsz := sz_le e hwf
  have hfuel : need e + 1 ≤ parseFuel (gen e) := by simp only [need, parseFuel]; omega
  have hk := g.kexpr hfuel [] rfl
  simp only [List.append_nil] at hk
  unfold pyParse topF
  have : itemF (knot (parseFuel (gen e))) .elts (gen e) = some (e, []) := by
    show eltF _ _ = _
    rw [eltF_expr _ _ (headOK_parenStart g.head)]
    exact hk
  simp [this]

theorem gen_ne_nil (e : PyExpr) (h : Supported e) : ∃ t r, gen e = t :: r ∧ atomStart t = true := by
  have := supported_head e h
  cases hg : gen e with
  | nil => simp [hg, headOK] at this
  | cons t r => exact ⟨t, r, rfl, by simpa [hg, headOK] using this⟩

/-- no statement keyword is the first token of an expression -/
theorem atomStart_not_kw {t : Tok} (h : atomStart t = true) (s : Str) (hk : isKeyword s = true) (h1 : s ≠ cs!"True")
    (h2 : s ≠ cs!"False") (h3 : s ≠ cs!"None") : t ≠ Tok.name s := by
  intro e; subst e; simp [atomStart, hk, h1, h2, h3] at h

/-- the keywords a statement line can start with -/
def stmtKeywords : List Str :=
  [cs!"pass", cs!"break", cs!"continue", cs!"return", cs!"del", cs!"assert", cs!"raise", cs!"import", cs!"from",
   cs!"if", cs!"while", cs!"for", cs!"with", cs!"try", cs!"def", cs!"class", cs!"else", cs!"except", cs!"finally",
   cs!"global", cs!"lambda", cs!"not", cs!"yield"]

theorem atomStart_not_stmtKw {t : Tok} (h : atomStart t = true) (s : Str) (hs : s ∈ stmtKeywords) : t ≠ Tok.name s := by
  simp only [stmtKeywords, List.mem_cons, List.mem_nil_iff, or_false] at hs
  rcases hs with rfl | rfl | rfl | rfl | rfl | rfl | rfl | rfl | rfl | rfl | rfl | rfl | rfl | rfl | rfl | rfl | rfl | rfl
    | rfl | rfl | rfl | rfl | rfl <;>
    exact atomStart_not_kw h _ (by decide) (by decide) (by decide) (by decide)

theorem assignTail_loop (ts : List PyExpr) (hts : ∀ t ∈ ts, Supported t) (v : PyExpr) (hv : Supported v) :
    ∀ (fuel : Nat) (acc : List PyExpr) (e : PyExpr), ts.length + 2 ≤ fuel →
      assignTailP fuel acc e (Tok.op ['='] :: (genList [] [Tok.op ['=']] ts ++ gen v)) = some (acc.reverse ++ e :: ts, v) := by
  induction ts with
  | nil =>
    intro fuel acc e hf
    obtain ⟨f, rfl⟩ : ∃ f, fuel = f + 2 := ⟨fuel - 2, by simp at hf; omega⟩
    have := exprP_gen v hv [] rfl
    simp only [List.append_nil] at this
    simp [genList_nil, assignTailP, this]
  | cons t ts ih =>
    intro fuel acc e hf
    obtain ⟨f, rfl⟩ : ∃ f, fuel = f + 1 := ⟨fuel - 1, by simp at hf; omega⟩
    have ht := exprP_gen t (hts t (by simp)) (tEq :: (genList [] [tEq] ts ++ gen v)) (stopsAll_eq _)
    simp only [tEq] at ht
    simp only [genList_cons, List.nil_append, List.append_assoc, List.cons_append, List.singleton_append]
    have hrec := ih (fun x hx => hts x (by simp [hx])) f (e :: acc) t (by simp at hf ⊢; omega)
    simp only [assignTailP]
    rw [ht]
    simp only [Option.bind_eq_bind, Option.bind_some]
    rw [hrec]
    simp

theorem genList_len_pos (ts : List PyExpr) (v : List Tok) : ts.length + v.length ≤ (genList [] [tEq] ts ++ v).length := by
  induction ts with
  | nil => simp [genList_nil]
  | cons t ts ih => simp [genList_cons] at ih ⊢; omega

/-! ### `del` -/

theorem items_sep_eof (mode : Mode) (tk : PyExpr → List Tok) (xs : List PyExpr) :
    ∀ (x : PyExpr), (∀ y ∈ x :: xs, ItemOK mode tk y ∧ ∀ rest, atCloser tEOF (tk y ++ rest) = false) →
    ∀ (acc : List PyExpr) (c : Bool) (M : Nat), 8 * szL (x :: xs) + 1 ≤ M →
      ∃ c', (knot M).items mode tEOF acc c (sepBy tk (x :: xs)) = some ((acc.reverse ++ x :: xs, c'), []) := by
  induction xs with
  | nil =>
    intro x hx acc c M hM
    simp only [szL] at hM
    obtain ⟨m, rfl⟩ : ∃ m, M = m + 2 := ⟨M - 2, by omega⟩
    obtain ⟨hok, hnc⟩ := hx x (by simp)
    have hi := hok (m + 1) (by simp only [need]; omega) [] rfl
    have hn := hnc []
    simp only [List.append_nil] at hi hn
    refine ⟨c, ?_⟩
    simp only [sepBy, knot_items, itemsF, hn, hi]
    simp [atCloser]
  | cons y ys ih =>
    intro x hx acc c M hM
    simp only [szL] at hM
    obtain ⟨m, rfl⟩ : ∃ m, M = m + 2 := ⟨M - 2, by omega⟩
    obtain ⟨hok, hnc⟩ := hx x (by simp)
    have hi := hok (m + 1) (by simp only [need]; omega) (tComma :: sepBy tk (y :: ys)) rfl
    obtain ⟨c', hrec⟩ := ih y (fun z hz => hx z (by simp at hz ⊢; right; exact hz)) (x :: acc) true (m + 1)
      (by simp only [szL]; omega)
    refine ⟨c', ?_⟩
    simp only [sepBy, knot_items]
    rw [itemsF_comma _ _ _ _ _ _ _ _ (hnc _) hi, hrec]
    simp

theorem wfl_of_supported (ts : List PyExpr) (h : ∀ t ∈ ts, Supported t) : WFL ts ∧ ts.all isElt = true := by
  induction ts with
  | nil => exact ⟨trivial, rfl⟩
  | cons t ts ih =>
    have ht := h t (by simp)
    have := ih (fun x hx => h x (by simp [hx]))
    refine ⟨⟨ht.1, this.1⟩, ?_⟩
    have he : isElt t = true := by
      have := ht.2
      cases t <;> simp_all [isElt, isExpr]
    simp [he, this.2]

theorem trailing_len (tk : PyExpr → List Tok) (ts : List PyExpr) (h : ts ≠ []) :
    (trailing tk ts).length = (sepBy tk ts).length + 1 := by
  induction ts with
  | nil => exact absurd rfl h
  | cons t ts ih =>
    cases ts with
    | nil => simp [trailing, sepBy]
    | cons u us =>
      have := ih (by simp)
      simp only [trailing, sepBy, List.length_append, List.length_cons] at this ⊢
      omega

theorem elt_notCloser_eof (x : PyExpr) (h : EltGoal x) (rest : List Tok) : atCloser tEOF (gen x ++ rest) = false := by
  rcases h with ⟨y, rfl, _⟩ | ⟨_, gx⟩
  · simp [gen, atCloser, tEOF, tStar]
  · obtain ⟨t, r, h1, h2, _⟩ := head_ne gx.head rest (u := tEOF) rfl
    rw [h1]
    simpa [atCloser] using h2

theorem delete_items (ts : List PyExpr) (hne : ts ≠ []) (hts : ∀ t ∈ ts, Supported t) :
    itemsP .elts tEOF (sepBy gen ts) = some (ts, []) := by
  obtain ⟨hwfl, hall⟩ := wfl_of_supported ts hts
  have hg := goals_elt hall (mainL ts hwfl)
  have hwf : WF (.tuple ts) := by simp only [WF]; exact ⟨hwfl, hall⟩
  have hsz := sz_le _ hwf
  have hlen : (gen (.tuple ts)).length = (sepBy gen ts).length + 3 := by
    simp [gen, trailing_gen, trailing_len gen ts hne]
  simp only [sz] at hsz
  unfold itemsP
  obtain ⟨m, hm⟩ : ∃ m, parseFuel (sepBy gen ts) + 64 = m + 1 := ⟨_, rfl⟩
  have hfuel : 8 * szL ts + 1 ≤ m := by
    simp only [parseFuel] at hm
    omega
  rw [hm]
  obtain ⟨x, xs, rfl⟩ : ∃ x xs, ts = x :: xs := by
    cases ts with
    | nil => exact absurd rfl hne
    | cons a b => exact ⟨a, b, rfl⟩
  obtain ⟨c', hit⟩ := items_sep_eof .elts gen xs x
    (fun y hy => ⟨elt_item y (hg y hy), elt_notCloser_eof y (hg y hy)⟩) [] false (m + 1) (by omega)
  simp at hit
  simp [hit]

/-! ### `import` -/

def dottedTk : List Str → List Tok
  | [] => []
  | [c] => [.name c]
  | c :: d :: cs => .name c :: tDot :: dottedTk (d :: cs)

theorem dottedGo_comp (c : Str) (hc : '.' ∉ c) (rest cur : Str) :
    dottedGo (c ++ rest) cur = dottedGo rest (c.reverse ++ cur) := by
  induction c generalizing cur with
  | nil => rfl
  | cons x xs ih =>
    have hx : x ≠ '.' := fun e => hc (by simp [e])
    have := ih (fun h => hc (by simp [h])) (x :: cur)
    simp only [List.cons_append, dottedGo, hx, if_false, this, List.reverse_cons, List.append_assoc,
      List.nil_append]

theorem dottedGo_join : ∀ (comps : List Str), comps ≠ [] → (∀ c ∈ comps, c ≠ [] ∧ '.' ∉ c ∧ isKeyword c = false) →
    dottedGo (dotJoin comps) [] = dottedTk comps
  | [], h, _ => absurd rfl h
  | [c], _, hc => by
      have := dottedGo_comp c (hc c (by simp)).2.1 [] []
      simp only [List.append_nil] at this
      have hne : c.reverse ≠ [] := by simpa using (hc c (by simp)).1
      simp [dotJoin, dottedTk, this, dottedGo, (hc c (by simp)).1]
  | c :: d :: cs, _, hc => by
      have h1 := dottedGo_comp c (hc c (by simp)).2.1 ('.' :: dotJoin (d :: cs)) []
      have hne : c.reverse ≠ [] := by simpa using (hc c (by simp)).1
      have ih := dottedGo_join (d :: cs) (by simp) (fun x hx => hc x (by simp at hx ⊢; exact Or.inr hx))
      simp only [List.append_nil] at h1
      simp [dotJoin, dottedTk, h1, dottedGo, (hc c (by simp)).1, ih]

def NoDot (rest : List Tok) : Prop := ∀ r, rest ≠ tDot :: r

theorem dottedP_tk : ∀ (comps : List Str), comps ≠ [] → (∀ c ∈ comps, c ≠ [] ∧ '.' ∉ c ∧ isKeyword c = false) →
    ∀ (rest : List Tok), NoDot rest → ∀ fuel, comps.length + 1 ≤ fuel →
      dottedP fuel (dottedTk comps ++ rest) = some (dotJoin comps, rest)
  | [], h, _, _, _, _, _ => absurd rfl h
  | [c], _, hc, rest, hr, fuel, hf => by
      obtain ⟨f, rfl⟩ : ∃ f, fuel = f + 1 := ⟨fuel - 1, by simp at hf; omega⟩
      simp only [dottedTk, dotJoin, List.cons_append, List.nil_append]
      rw [dottedP]
      · simp [(hc c (by simp)).2.2]
      · intro r e
        exact hr r (by simpa [tDot] using e)
  | c :: d :: cs, _, hc, rest, hr, fuel, hf => by
      obtain ⟨f, rfl⟩ : ∃ f, fuel = f + 1 := ⟨fuel - 1, by simp at hf; omega⟩
      have ih := dottedP_tk (d :: cs) (by simp) (fun x hx => hc x (by simp at hx ⊢; exact Or.inr hx)) rest hr f
        (by simp at hf ⊢; omega)
      simp only [dottedTk, dotJoin, List.cons_append, tDot]
      simp [dottedP, ih]

theorem dottedTk_len (comps : List Str) : comps.length ≤ (dottedTk comps).length := by
  induction comps with
  | nil => simp [dottedTk]
  | cons c cs ih =>
    cases cs with
    | nil => simp [dottedTk]
    | cons d ds => simp [dottedTk] at ih ⊢; omega

/-- a dotted name at the start of the tokens is read back -/
theorem dotted_read (n : Str) (h : DottedOK n) (rest : List Tok) (hr : NoDot rest) :
    dottedP ((dottedToks n ++ rest).length + 1) (dottedToks n ++ rest) = some (n, rest) := by
  obtain ⟨comps, hne, rfl, hc⟩ := h
  have hg : dottedToks (dotJoin comps) = dottedTk comps := dottedGo_join comps hne hc
  rw [hg]
  apply dottedP_tk comps hne hc rest hr
  have := dottedTk_len comps
  simp only [List.length_append]
  omega

theorem dotted_head (n : Str) (h : DottedOK n) : ∃ c r, dottedToks n = Tok.name c :: r ∧ isKeyword c = false := by
  obtain ⟨comps, hne, rfl, hc⟩ := h
  have hg : dottedToks (dotJoin comps) = dottedTk comps := dottedGo_join comps hne hc
  rw [hg]
  cases comps with
  | nil => exact absurd rfl hne
  | cons c cs =>
    cases cs with
    | nil => exact ⟨c, [], rfl, (hc c (by simp)).2.2⟩
    | cons d ds => exact ⟨c, _, rfl, (hc c (by simp)).2.2⟩

theorem noDot_nil : NoDot [] := fun _ e => by simp at e
theorem noDot_comma (r : List Tok) : NoDot (tComma :: r) := fun _ e => by simp [tComma, tDot] at e
theorem noDot_name (s : Str) (r : List Tok) : NoDot (Tok.name s :: r) := fun _ e => by simp [tDot] at e

theorem joinToks_cons_ne (sep a : List Tok) (l : List (List Tok)) (h : l ≠ []) :
    joinToks sep (a :: l) = a ++ sep ++ joinToks sep l := by
  cases l with
  | nil => exact absurd rfl h
  | cons b l => rfl

theorem importNames_loop : ∀ (ns : List (Str × Option Str)) (p : Str × Option Str),
    (∀ q ∈ p :: ns, DottedOK q.1) → ∀ fuel, ns.length + 1 ≤ fuel →
      importNamesP fuel (joinToks [tComma] ((p :: ns).map aliasToks)) = some (p :: ns)
  | [], (n, none), h, fuel, hf => by
    obtain ⟨f, rfl⟩ : ∃ f, fuel = f + 1 := ⟨fuel - 1, by omega⟩
    have hd := dotted_read n (h (n, none) (by simp)) [] noDot_nil
    simp only [List.append_nil] at hd
    simp only [List.map, joinToks, aliasToks]
    rw [importNamesP, hd]
    simp
  | [], (n, some a), h, fuel, hf => by
    obtain ⟨f, rfl⟩ : ∃ f, fuel = f + 1 := ⟨fuel - 1, by omega⟩
    have hd := dotted_read n (h (n, some a) (by simp)) [kw cs!"as", .name a] (noDot_name _ _)
    simp only [List.map, joinToks, aliasToks]
    rw [importNamesP, hd]
    simp [kw]
  | q :: qs, (n, none), h, fuel, hf => by
    obtain ⟨f, rfl⟩ : ∃ f, fuel = f + 1 := ⟨fuel - 1, by omega⟩
    have ih := importNames_loop qs q (fun i hi => h i (by simp at hi ⊢; exact Or.inr hi)) f (by simp at hf; omega)
    rw [List.map_cons, joinToks_cons_ne _ _ _ (by simp)]
    simp only [aliasToks, List.append_assoc, List.cons_append, List.nil_append]
    generalize joinToks [tComma] (List.map aliasToks (q :: qs)) = R at ih ⊢
    have hd := dotted_read n (h (n, none) (by simp)) (tComma :: R) (noDot_comma _)
    rw [importNamesP, hd]
    simp [tComma, ih]
  | q :: qs, (n, some a), h, fuel, hf => by
    obtain ⟨f, rfl⟩ : ∃ f, fuel = f + 1 := ⟨fuel - 1, by omega⟩
    have ih := importNames_loop qs q (fun i hi => h i (by simp at hi ⊢; exact Or.inr hi)) f (by simp at hf; omega)
    rw [List.map_cons, joinToks_cons_ne _ _ _ (by simp)]
    simp only [aliasToks, List.append_assoc, List.cons_append, List.nil_append]
    generalize joinToks [tComma] (List.map aliasToks (q :: qs)) = R at ih ⊢
    have hd := dotted_read n (h (n, some a) (by simp)) (kw cs!"as" :: .name a :: tComma :: R) (noDot_name _ _)
    rw [importNamesP, hd]
    simp [tComma, kw, ih]

theorem joinToks_len (sep : List Tok) (xs : List (List Tok)) (h : ∀ x ∈ xs, x ≠ []) :
    xs.length ≤ (joinToks sep xs).length := by
  induction xs with
  | nil => simp [joinToks]
  | cons x xs ih =>
    have hx : 1 ≤ x.length := by
      have := h x (by simp)
      cases x <;> simp_all
    have := ih (fun y hy => h y (by simp [hy]))
    cases xs with
    | nil => simp [joinToks]; omega
    | cons y ys => simp [joinToks] at this ⊢; omega

/-! ### `from … import` -/

theorem dots_ok : ∀ (lvl : Nat) (rest : List Tok), (∀ r, rest ≠ tDot :: r) → (∀ r, rest ≠ tEllipsis :: r) →
    dotsP (dotsToks lvl ++ rest) = (lvl, rest)
  | 0, rest, h1, h2 => by
      simp only [dotsToks, List.nil_append]
      unfold dotsP
      split
      · rename_i r; exact absurd rfl (h2 r)
      · rename_i r; exact absurd rfl (h1 r)
      · rfl
  | 1, rest, h1, h2 => by
      have := dots_ok 0 rest h1 h2
      simp only [dotsToks, List.nil_append] at this
      simp [dotsToks, dotsP, tDot, this]
  | 2, rest, h1, h2 => by
      have := dots_ok 0 rest h1 h2
      simp only [dotsToks, List.nil_append] at this
      simp [dotsToks, dotsP, tDot, this]
  | n + 3, rest, h1, h2 => by
      have := dots_ok n rest h1 h2
      simp [dotsToks, dotsP, tEllipsis, this]

theorem fromNames_loop : ∀ (ns : List (Str × Option Str)) (p : Str × Option Str) (fuel : Nat), ns.length + 1 ≤ fuel →
      fromNamesP fuel (joinToks [tComma] ((p :: ns).map fromAliasToks)) = some (p :: ns)
  | [], (n, none), fuel, hf => by
    obtain ⟨f, rfl⟩ : ∃ f, fuel = f + 1 := ⟨fuel - 1, by omega⟩
    by_cases hn : n = ['*']
    · subst hn; simp [joinToks, fromAliasToks, fromNamesP, tStar]
    · simp [joinToks, fromAliasToks, fromNamesP, hn]
  | [], (n, some a), fuel, hf => by
    obtain ⟨f, rfl⟩ : ∃ f, fuel = f + 1 := ⟨fuel - 1, by omega⟩
    simp [joinToks, fromAliasToks, fromNamesP, kw]
  | q :: qs, (n, none), fuel, hf => by
    obtain ⟨f, rfl⟩ : ∃ f, fuel = f + 1 := ⟨fuel - 1, by omega⟩
    have ih := fromNames_loop qs q f (by simp at hf; omega)
    rw [List.map_cons, joinToks_cons_ne _ _ _ (by simp)]
    generalize joinToks [tComma] (List.map fromAliasToks (q :: qs)) = R at ih ⊢
    by_cases hn : n = ['*']
    · subst hn; simp [fromAliasToks, fromNamesP, tStar, tComma, ih]
    · simp [fromAliasToks, fromNamesP, hn, tComma, ih]
  | q :: qs, (n, some a), fuel, hf => by
    obtain ⟨f, rfl⟩ : ∃ f, fuel = f + 1 := ⟨fuel - 1, by omega⟩
    have ih := fromNames_loop qs q f (by simp at hf; omega)
    rw [List.map_cons, joinToks_cons_ne _ _ _ (by simp)]
    generalize joinToks [tComma] (List.map fromAliasToks (q :: qs)) = R at ih ⊢
    simp [fromAliasToks, fromNamesP, kw, tComma, ih]

/-- the one-line statements are read back -/
theorem simple_ok (s : PyStmt) (h : WFS s) (hs : isSimple s = true) (ind : Nat) :
    ∃ toks, genStmt ind s = [⟨ind, toks⟩] ∧ simpleP toks = some s ∧
      (∃ t r, toks = t :: r ∧ (atomStart t = true ∨ t = kw cs!"pass" ∨ t = kw cs!"break" ∨ t = kw cs!"continue"
        ∨ t = kw cs!"return" ∨ t = kw cs!"assert" ∨ t = kw cs!"raise" ∨ t = kw cs!"del" ∨ t = kw cs!"import"
        ∨ t = kw cs!"from")) := by
  cases s with
  | pass_ => exact ⟨_, rfl, rfl, _, _, rfl, by simp⟩
  | break_ => exact ⟨_, rfl, rfl, _, _, rfl, by simp⟩
  | continue_ => exact ⟨_, rfl, rfl, _, _, rfl, by simp⟩
  | return_ v =>
    simp only [WFS] at h
    cases v with
    | none => exact ⟨_, rfl, rfl, _, _, rfl, by simp⟩
    | some x =>
      have hx := h x rfl
      obtain ⟨t, r, hg, _⟩ := gen_ne_nil x hx
      refine ⟨_, rfl, ?_, _, _, rfl, by simp⟩
      simp only [genOpt, List.nil_append, simpleP, kw]
      rw [hg]
      simp only []
      rw [← hg, pyParse_gen x hx]
      rfl
  | expr e =>
    simp only [WFS] at h
    obtain ⟨t, r, hg, ht⟩ := gen_ne_nil e h
    refine ⟨gen e, rfl, ?_, t, r, hg, Or.inl ht⟩
    have hex := exprP_gen e h [] rfl
    simp only [List.append_nil] at hex
    rw [hg] at hex ⊢
    have hkw : ∀ s ∈ stmtKeywords, t ≠ Tok.name s := fun s hs => atomStart_not_stmtKw ht s hs
    unfold simpleP
    split <;> first
      | (rename_i heq; exact absurd (List.cons.inj heq).1 (hkw _ (by decide)))
      | simp [hex]
  | assign ts v =>
    simp only [WFS] at h
    obtain ⟨hne, hts, hv⟩ := h
    obtain ⟨t1, ts', rfl⟩ : ∃ t1 ts', ts = t1 :: ts' := by
      cases ts with
      | nil => exact absurd rfl hne
      | cons a b => exact ⟨a, b, rfl⟩
    have h1 := hts t1 (by simp)
    obtain ⟨t, r, hg, ht⟩ := gen_ne_nil t1 h1
    obtain ⟨tv, rv, hgv, _⟩ := gen_ne_nil v hv
    have hkw : ∀ s ∈ stmtKeywords, t ≠ Tok.name s := fun s hs => atomStart_not_stmtKw ht s hs
    have hex := exprP_gen t1 h1 (tEq :: (genList [] [tEq] ts' ++ gen v)) (stopsAll_eq _)
    have hlen := genList_len_pos ts' (gen v)
    refine ⟨gen t1 ++ tEq :: (genList [] [tEq] ts' ++ gen v), ?_, ?_, t, r ++ tEq :: (genList [] [tEq] ts' ++ gen v), by simp [hg], Or.inl ht⟩
    · simp [genStmt, genList_cons]
    · rw [hg] at hex ⊢
      simp only [List.cons_append, tEq] at hex hlen ⊢
      unfold simpleP
      split <;> first
        | (rename_i heq; exact absurd (List.cons.inj heq).1 (hkw _ (by decide)))
        | skip
      simp only [hex, Option.bind_eq_bind, Option.bind_some]
      rw [assignTail_loop ts' (fun x hx => hts x (by simp [hx])) v hv _ [] t1 (by simp only [List.length_cons]; omega)]
      simp
  | augAssign t op v =>
    simp only [WFS] at h
    obtain ⟨hop, ht0, hv⟩ := h
    obtain ⟨sym, hsym⟩ := Option.isSome_iff_exists.mp hop
    obtain ⟨a1, a2, a3, a4, a5, a6, a7, a8⟩ := augTable_ok _ (lookup_mem hsym)
    simp only at a1 a2 a3 a4 a5 a6 a7 a8
    obtain ⟨t1, r, hg, ht⟩ := gen_ne_nil t ht0
    have hkw : ∀ s ∈ stmtKeywords, t1 ≠ Tok.name s := fun s hs => atomStart_not_stmtKw ht s hs
    have hex := exprP_gen t ht0 (Tok.op (sym ++ ['=']) :: gen v) (stopsAll_op _ _ a3 a4 a5 a6 a7 a8)
    have hpv := pyParse_gen v hv
    refine ⟨gen t ++ Tok.op (sym ++ ['=']) :: gen v, ?_, ?_, t1, r ++ Tok.op (sym ++ ['=']) :: gen v, by simp [hg], Or.inl ht⟩
    · simp [genStmt, hsym]
    · rw [hg] at hex ⊢
      simp only [List.cons_append] at hex ⊢
      unfold simpleP
      split <;> first
        | (rename_i heq; exact absurd (List.cons.inj heq).1 (hkw _ (by decide)))
        | skip
      simp only [hex, Option.bind_eq_bind, Option.bind_some]
      split
      · rename_i heq
        rw [a1] at heq
        cases heq
        simp [hpv]
      · rename_i heq
        rw [a1] at heq
        cases heq
  | assert_ t m =>
    simp only [WFS] at h
    obtain ⟨ht0, hm⟩ := h
    cases m with
    | none =>
      have hex := exprP_gen t ht0 [] rfl
      simp only [List.append_nil] at hex
      refine ⟨_, rfl, ?_, _, _, rfl, by simp⟩
      simp [simpleP, kw, genOpt, hex]
    | some x =>
      have hx := hm x rfl
      have hex := exprP_gen t ht0 (tComma :: gen x) (stopsAll_closedE rfl)
      refine ⟨_, rfl, ?_, _, _, rfl, by simp⟩
      simp only [tComma] at hex
      simp [simpleP, kw, genOpt, tComma, hex, pyParse_gen x hx]
  | raise_ e c =>
    simp only [WFS] at h
    obtain ⟨he, hc, hnone⟩ := h
    cases e with
    | none =>
      have := hnone rfl
      subst this
      exact ⟨_, rfl, rfl, _, _, rfl, by simp⟩
    | some x =>
      have hx := he x rfl
      obtain ⟨t1, r, hg, ht⟩ := gen_ne_nil x hx
      cases c with
      | none =>
        have hex := exprP_gen x hx [] rfl
        simp only [List.append_nil] at hex
        refine ⟨_, rfl, ?_, _, _, rfl, by simp⟩
        simp only [genOpt, List.nil_append, List.append_nil, simpleP, kw]
        rw [hg] at hex ⊢
        simp [hex]
      | some y =>
        have hy := hc y rfl
        have hex := exprP_gen x hx (kw cs!"from" :: gen y) (stopsAll_from _)
        refine ⟨_, rfl, ?_, _, _, rfl, by simp⟩
        simp only [genOpt, List.nil_append, simpleP, kw]
        rw [hg] at hex ⊢
        simp only [List.cons_append, kw] at hex ⊢
        simp [hex, pyParse_gen y hy]
  | delete ts =>
    simp only [WFS] at h
    obtain ⟨hne, hts⟩ := h
    have hit := delete_items ts hne hts
    refine ⟨_, rfl, ?_, _, _, rfl, by simp⟩
    obtain ⟨x, xs, rfl⟩ : ∃ x xs, ts = x :: xs := by
      cases ts with
      | nil => exact absurd rfl hne
      | cons a b => exact ⟨a, b, rfl⟩
    simp [simpleP, kw, sepBy_gen_tail, hit]
  | import_ ns =>
    simp only [WFS] at h
    obtain ⟨hne, hns⟩ := h
    obtain ⟨p, ps, rfl⟩ : ∃ p ps, ns = p :: ps := by
      cases ns with
      | nil => exact absurd rfl hne
      | cons a b => exact ⟨a, b, rfl⟩
    refine ⟨_, rfl, ?_, _, _, rfl, by simp⟩
    have hlen : ps.length ≤ (joinToks [tComma] ((p :: ps).map aliasToks)).length := by
      have := joinToks_len [tComma] ((p :: ps).map aliasToks) (by
        intro x hx
        obtain ⟨q, hq, rfl⟩ := List.mem_map.mp hx
        obtain ⟨c, r, hc, _⟩ := dotted_head q.1 (hns q hq)
        obtain ⟨n, a⟩ := q
        cases a <;> simp [aliasToks, hc])
      simp only [List.length_map, List.length_cons] at this
      omega
    have := importNames_loop ps p hns ((joinToks [tComma] ((p :: ps).map aliasToks)).length + 1) (by omega)
    simp only [simpleP, kw, this, Option.map_some]
  | importFrom m ns lvl =>
    simp only [WFS] at h
    obtain ⟨⟨mod, rfl, hmod⟩, hne⟩ := h
    obtain ⟨p, ps, rfl⟩ : ∃ p ps, ns = p :: ps := by
      cases ns with
      | nil => exact absurd rfl hne
      | cons a b => exact ⟨a, b, rfl⟩
    refine ⟨_, rfl, ?_, _, _, rfl, by simp⟩
    obtain ⟨c, r, hc, hck⟩ := dotted_head mod hmod
    have hlen : ps.length ≤ (joinToks [tComma] ((p :: ps).map fromAliasToks)).length := by
      have := joinToks_len [tComma] ((p :: ps).map fromAliasToks) (by
        intro x hx
        obtain ⟨q, hq, rfl⟩ := List.mem_map.mp hx
        obtain ⟨n, a⟩ := q
        cases a with
        | none => simp only [fromAliasToks]; split <;> simp
        | some a => simp [fromAliasToks])
      simp only [List.length_map, List.length_cons] at this
      omega
    have hnames := fromNames_loop ps p ((joinToks [tComma] ((p :: ps).map fromAliasToks)).length + 1) (by omega)
    have hdots := dots_ok lvl (dottedToks mod ++ kw cs!"import" :: joinToks [tComma] ((p :: ps).map fromAliasToks))
      (by intro r e; rw [hc] at e; simp [tDot] at e) (by intro r e; rw [hc] at e; simp [tEllipsis] at e)
    have hd := dotted_read mod hmod (kw cs!"import" :: joinToks [tComma] ((p :: ps).map fromAliasToks)) (noDot_name _ _)
    simp only [List.append_assoc]
    simp only [kw] at hd hdots ⊢
    rw [hc] at hd hdots ⊢
    simp only [List.cons_append] at hd hdots ⊢
    simp only [simpleP, hdots]
    split
    · rename_i heq
      have := (List.cons.inj heq).1
      simp only [Tok.name.injEq] at this
      subst this
      exact absurd hck (by decide)
    · simp only [hd, Option.bind_eq_bind, Option.bind_some, hnames, Option.map_some]
  | _ => simp [isSimple] at hs

end Genshi.Py

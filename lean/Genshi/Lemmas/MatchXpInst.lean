/-
  C12 — every strategy `Path.__init__` can pick for a location path of a match path designates, in
  pattern mode, the node set of the XPath pattern `descendant-or-self::s0/rest` (`PatOperand`,
  Lemmas/MatchXp.lean), on every clean element tree:

  * GenericStrategy — C05 `pattern_matches_eq_xp`;
  * SimplePathStrategy — C05 `pattern_matches_eq_xp_fragments` (the KMP matcher over fragments;
    C17 `simple_eq_generic_fragments_pattern` is the same fact as an equality of the two matchers);
  * SingleStepStrategy — `single_eq_generic_run` (C17 `single_eq_generic`, pattern mode) and the
    GenericStrategy case.

  `PatternXp` is the static, per-path criterion; it implies `PatternOk` (no position tests) of
  Lemmas/MatchRealSpec.lean.
-/
import Genshi.Lemmas.MatchXp
import Genshi.Props.C05
namespace Genshi.Match
open Genshi Genshi.Path Genshi.Path.Ref

theorem runTest_singleL (steps : List Step) (ic : Bool) (ns : NsMap) (vs : Vars) (t : SState) (es : List Event) :
    runTest [.single steps ic] ns vs [.s t] es = (runOne (sStep steps ic ns vs) t es).1 := by
  induction es generalizing t with
  | nil => rfl
  | cons e es ih =>
    simp only [runTest, multiStep, List.zip_cons_cons, List.zip_nil_right, List.map_cons, List.map_nil,
      Matcher.step, List.foldl_cons, List.foldl_nil, Val.isNone, runOne]
    rw [ih]
    simp

theorem patOf_nonAttr (ns : NsMap) (vs : Vars) (s0 : Step) (rest : LocPath)
    (h : StepsOk ns vs (⟨.descendantOrSelf, s0.test, s0.preds⟩ :: rest)) :
    ∃ last, (patOf (s0 :: rest)).getLast? = some last ∧ last.axis ≠ .attribute := by
  have hne : (⟨.descendantOrSelf, s0.test, s0.preds⟩ :: rest : List Step) ≠ [] := by simp
  refine ⟨_, List.getLast?_eq_some_getLast hne, ?_⟩
  exact h.na _ (List.getLast_mem hne)

/-- GenericStrategy (forced, or chosen for the path) -/
theorem patOperand_generic (ns : NsMap) (vs : Vars) (s0 : Step) (rest : LocPath)
    (hp : StepsOk ns vs (s0 :: rest)) (hnd : stripDot (s0 :: rest) = s0 :: rest)
    (force : Option Strategy) (hst : stratOf force (s0 :: rest) = .generic)
    (tag : QName) (attrs : AttrList) (kids : List Node)
    (hcl : (Node.elem tag attrs kids).clean = true)
    (hnodes : AllNodes (NodeFor (s0 :: rest) ns vs) (.elem tag attrs kids)) :
    PatOperand ns vs force (.elem tag attrs kids) (s0 :: rest) := by
  refine ⟨by simp, ?_⟩
  rw [hst]
  have hs := stepsOk_pattern ns vs s0 rest hp hnd
  refine ⟨?_, ?_, patOf_nonAttr ns vs s0 rest hs.2⟩
  · simp only [mkMatcher]
    rw [runTest_genericL, hs.1]
    exact okVals_run _ (gStep_out _ ns vs (fun e => hs.2.lastResult ns vs e)) _ [] _
  · intro x
    have := Genshi.Props.C05.pattern_matches_eq_xp s0 rest ns vs hp hnd tag attrs kids hcl hnodes x
    simpa only [pathTest, List.map_cons, List.map_nil, patOf] using this

/-- SingleStepStrategy: one step, any element axis, non-positional predicates -/
theorem patOperand_single (ns : NsMap) (vs : Vars) (s : Step) (hp : StepsOk ns vs [s])
    (force : Option Strategy) (hst : stratOf force [s] = .single)
    (tag : QName) (attrs : AttrList) (kids : List Node)
    (hcl : (Node.elem tag attrs kids).clean = true)
    (hnodes : AllNodes (NodeFor [s] ns vs) (.elem tag attrs kids)) :
    PatOperand ns vs force (.elem tag attrs kids) [s] := by
  have hg := patOperand_generic ns vs s [] hp (by simp [stripDot]) (some .generic) rfl tag attrs kids hcl hnodes
  refine ⟨by simp, ?_⟩
  rw [hst]
  have hgo := hg.2
  simp only [stratOf, mkMatcher] at hgo
  have hna := hp.na s List.mem_cons_self
  have hok : okList kids = true := by
    have := ok_of_clean _ hcl
    simpa [Node.ok] using this
  have hrun : runTest [.single (sSteps [s]) true] ns vs [.s ⟨[], 0⟩] (Node.elem tag attrs kids).flatten
      = runTest [.generic (gSteps [s] true)] ns vs [.g gInit] (Node.elem tag attrs kids).flatten := by
    rw [runTest_singleL, runTest_genericL]
    exact (single_eq_generic_run s true ns vs tag attrs kids hok (fun h => absurd h hna)).symm
  refine ⟨?_, ?_, hgo.nonAttr⟩
  · simp only [mkMatcher]; rw [hrun]; exact hgo.ok
  · intro x; simp only [mkMatcher]; rw [hrun]; exact hgo.sel x

/-- SimplePathStrategy: the path of a fragment list -/
theorem patOperand_simple (ns : NsMap) (vs : Vars) (frags : List Frag) (hok : Frags.FragsOk frags)
    (hnd : stripDot (Frags.normPath frags) = Frags.normPath frags)
    (force : Option Strategy) (hst : stratOf force (Frags.normPath frags) = .simple)
    (tag : QName) (attrs : AttrList) (kids : List Node)
    (hcl : (Node.elem tag attrs kids).clean = true) :
    PatOperand ns vs force (.elem tag attrs kids) (Frags.normPath frags) := by
  have hne := Frags.normPath_ne frags hok
  have hS := Frags.stepsOk_normPath ns vs frags hok
  have hkcl : cleanList kids = true := by simpa [Node.clean] using hcl
  obtain ⟨s0, rest, hsr⟩ : ∃ s0 rest, Frags.normPath frags = s0 :: rest := by
    cases h : Frags.normPath frags with
    | nil => rw [h] at hne; simp at hne
    | cons a l => exact ⟨a, l, rfl⟩
  have hpat : patOf (Frags.normPath frags) = Frags.patPath frags := by
    rw [← Frags.gSteps_pattern frags hok, hsr]
    rw [hsr] at hS hnd
    exact (stepsOk_pattern ns vs s0 rest hS hnd).1.symm
  refine ⟨by rw [hsr]; simp, ?_⟩
  rw [hst, hpat]
  have hSP := Frags.stepsOk_patPath ns vs frags hok
  refine ⟨?_, ?_, ?_⟩
  · simp only [mkMatcher]
    rw [Frags.runTest_simpleL, Frags.fragments_normPath frags hok]
    exact (Frags.simple_marks_pattern ns (toXVars vs) frags hok tag attrs kids hkcl).1
  · intro x
    have := Genshi.Props.C05.pattern_matches_eq_xp_fragments frags hok ns vs tag attrs kids hcl x
    simpa only [pathTest, List.map_cons, List.map_nil] using this
  · obtain ⟨g, r, hgr⟩ := Frags.patPath_head frags hok
    have hne' : Frags.patPath frags ≠ [] := by rw [hgr]; simp
    exact ⟨_, List.getLast?_eq_some_getLast hne', hSP.na _ (List.getLast_mem hne')⟩

/-! ### the static criterion -/

/-- a location path of a match path whose matcher — the one `Path.__init__` picks, or the forced one —
    is tied to the XPath reference semantics: no position tests, no attribute axis, no leading `.`;
    typed predicates and well-formed tests (C05 `StepsOk`) for Generic/SingleStep, every fragment path
    for SimplePathStrategy -/
def PatternXp (ns : NsMap) (vs : Vars) (force : Option Strategy) (p : LocPath) : Prop :=
  match stratOf force p with
  | .generic => StepsOk ns vs p ∧ stripDot p = p
  | .single => ∃ s, p = [s] ∧ StepsOk ns vs [s]
  | .simple => ∃ frags, Frags.FragsOk frags ∧ p = Frags.normPath frags ∧ stripDot p = p

/-- what is asked of a top-level element tree: no marker leaves, and the nodes are ones the predicates of
    the paths can be evaluated on (C05 `NodeFor`) -/
def TreeFor (ns : NsMap) (vs : Vars) (paths : List LocPath) (top : Node) : Prop :=
  top.clean = true ∧ ∀ p ∈ paths, AllNodes (NodeFor p ns vs) top

theorem patOperand_of_static (ns : NsMap) (vs : Vars) (force : Option Strategy) (p : LocPath)
    (hp : PatternXp ns vs force p) (tag : QName) (attrs : AttrList) (kids : List Node)
    (hcl : (Node.elem tag attrs kids).clean = true) (hnodes : AllNodes (NodeFor p ns vs) (.elem tag attrs kids)) :
    PatOperand ns vs force (.elem tag attrs kids) p := by
  unfold PatternXp at hp
  cases hst : stratOf force p with
  | generic =>
    rw [hst] at hp
    obtain ⟨hS, hnd⟩ := hp
    cases p with
    | nil => have := hS.ne; simp at this
    | cons s0 rest => exact patOperand_generic ns vs s0 rest hS hnd force hst tag attrs kids hcl hnodes
  | single =>
    rw [hst] at hp
    obtain ⟨s, rfl, hS⟩ := hp
    exact patOperand_single ns vs s hS force hst tag attrs kids hcl hnodes
  | simple =>
    rw [hst] at hp
    obtain ⟨frags, hok, rfl, hnd⟩ := hp
    exact patOperand_simple ns vs frags hok hnd force hst tag attrs kids hcl

theorem topOk_of_static (ns : NsMap) (vs : Vars) (force : Option Strategy) (paths : List LocPath)
    (hp : ∀ p ∈ paths, PatternXp ns vs force p) (top : Node) (ht : TreeFor ns vs paths top) :
    TopOk ns vs force paths top := by
  cases top with
  | leaf e => exact Or.inl ⟨e, rfl⟩
  | elem tag attrs kids =>
    exact Or.inr fun p hpm => patOperand_of_static ns vs force p (hp p hpm) tag attrs kids ht.1 (ht.2 p hpm)

/-- the criterion is inside the position-test-free subset of the tree-rewrite theorems -/
theorem patternOk_of_patternXp (ns : NsMap) (vs : Vars) (force : Option Strategy) (p : LocPath)
    (hp : PatternXp ns vs force p) : PatternOk ns vs force p := by
  unfold PatternXp at hp
  unfold PatternOk
  cases hst : stratOf force p with
  | generic =>
    rw [hst] at hp
    obtain ⟨hS, hnd⟩ := hp
    cases p with
    | nil => have := hS.ne; simp at this
    | cons s0 rest =>
      have := stepsOk_pattern ns vs s0 rest hS hnd
      show StepsOk ns vs (gSteps (s0 :: rest) true)
      rw [this.1]; exact this.2
  | single =>
    rw [hst] at hp
    obtain ⟨s, rfl, hS⟩ := hp
    have hna : (s.axis == Axis.attribute) = false := by simpa using hS.na s List.mem_cons_self
    intro s0 hs q hq
    simp only [sSteps, hna, Bool.false_eq_true, if_false, List.head?_cons, Option.some.injEq] at hs
    subst hs
    exact hS.nonpos s List.mem_cons_self q hq
  | simple => trivial

end Genshi.Match

/-
  `parseSource` (XMLParser + EmptyTagFilter on any document text) against
  `parseText` (the same on serializer output, used by the idempotence theorems):
  they differ only where a start tag is directly followed by an end tag.
-/
import Genshi.Model.XmlSpec
import Genshi.Lemmas.XmlParser
namespace Genshi.Xml
open Genshi

theorem noStartEnd_tail : ∀ (e : FEv) (es : List FEv), noStartEnd (e :: es) = true → noStartEnd es = true := by
  intro e es h
  cases e with
  | start n a =>
    cases es with
    | nil => rfl
    | cons e' es' => cases e' <;> simp_all [noStartEnd]
  | _ => simpa [noStartEnd] using h

theorem collapseEmpty_id (fs : List FEv) : noStartEnd fs = true → collapseEmpty fs = fs := by
  fun_induction collapseEmpty fs with
  | case1 n a es ih => intro h'; simp [noStartEnd] at h'
  | case2 n a m es h ih => intro h'; simp [noStartEnd] at h'
  | case3 e es hne ih => intro h'; rw [ih (noStartEnd_tail e es h')]
  | case4 => intro _; rfl

/-- where no start tag is directly followed by an end tag the two accounts of
    the parser agree -/
theorem parseSource_eq_parseText (t : Str) (toks : List FEv) (h : Reader.tokenize t = some toks)
    (hn : noStartEnd (dropTopWs 0 toks) = true) : parseSource t = parseText t := by
  simp only [parseSource, parseText, h, Option.bind_some, collapseEmpty_id _ hn]

/-- `EmptyTagFilter` makes no namespace events -/
theorem noNs_ev (e : Event) : noNs (.ev e) = !isNsEvent e := by cases e <;> rfl
theorem noNs_empty (t : QName) (a : AttrList) : noNs (.empty t a) = true := rfl
theorem isNsEvent_start (t : QName) (a : AttrList) : isNsEvent (.start t a) = false := rfl

theorem emptyTagGo_noNs (prev : Option (QName × AttrList)) (s : Stream) :
    s.all (fun e => !isNsEvent e) = true → (emptyTagGo prev s).all noNs = true := by
  fun_induction emptyTagGo prev s <;>
    simp_all only [List.all_cons, List.all_nil, Bool.and_eq_true, noNs_ev, noNs_empty, isNsEvent_start,
      Bool.not_false, and_self, true_and, implies_true]

/-- the stream `ET` makes of an ElementTree element is builder-shaped: no
    namespace events, the namespaces live in the qualified names -/
theorem builderShaped_etStream (t : ETree) : builderShaped (emptyTag (etStream t)) = true :=
  emptyTagGo_noNs none _ (noNs_etStream t)

end Genshi.Xml

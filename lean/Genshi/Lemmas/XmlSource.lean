/-
  `parseSource` (XMLParser + EmptyTagFilter on any document text) against
  `parseText` (the same on serializer output, used by the idempotence theorems):
  they differ only where a start tag is directly followed by an end tag.
-/
import Genshi.Model.XmlSpec
import Genshi.Lemmas.XmlParser
import Genshi.Lemmas.XmlIdemE
namespace Genshi.Xml
open Genshi Genshi.Xml.Reader

theorem noStartEnd_tail : ∀ (e : FEv) (es : List FEv), noStartEnd (e :: es) = true → noStartEnd es = true := by
  intro e es h
  cases e with
  | start n a =>
    cases es with
    | nil => rfl
    | cons e' es' => cases e' <;> simp_all [noStartEnd]
  | _ => simpa [noStartEnd] using h

theorem collapseEmpty_id (fs : List FEv) : noStartEnd fs = true → collapseEmpty fs = fs := by
  fun_induction collapseEmpty fs with
  | case1 n a es ih => intro h'; simp [noStartEnd] at h'
  | case2 n a m es h ih => intro h'; simp [noStartEnd] at h'
  | case3 e es hne ih => intro h'; rw [ih (noStartEnd_tail e es h')]
  | case4 => intro _; rfl

/-- where no start tag is directly followed by an end tag the two accounts of
    the parser agree -/
theorem parseSource_eq_parseText (t : Str) (toks : List FEv) (h : Reader.tokenize t = some toks)
    (hn : noStartEnd (dropTopWs 0 toks) = true) : parseSource t = parseText t := by
  simp only [parseSource, parseText, h, Option.bind_some, collapseEmpty_id _ hn]

/-- `EmptyTagFilter` makes no namespace events -/
theorem noNs_ev (e : Event) : noNs (.ev e) = !isNsEvent e := by cases e <;> rfl
theorem noNs_empty (t : QName) (a : AttrList) : noNs (.empty t a) = true := rfl
theorem isNsEvent_start (t : QName) (a : AttrList) : isNsEvent (.start t a) = false := rfl

theorem emptyTagGo_noNs (prev : Option (QName × AttrList)) (s : Stream) :
    s.all (fun e => !isNsEvent e) = true → (emptyTagGo prev s).all noNs = true := by
  fun_induction emptyTagGo prev s <;>
    simp_all only [List.all_cons, List.all_nil, Bool.and_eq_true, noNs_ev, noNs_empty, isNsEvent_start,
      Bool.not_false, and_self, true_and, implies_true]

/-- the stream `ET` makes of an ElementTree element is builder-shaped: no
    namespace events, the namespaces live in the qualified names -/
theorem builderShaped_etStream (t : ETree) : builderShaped (emptyTag (etStream t)) = true :=
  emptyTagGo_noNs none _ (noNs_etStream t)

/-! ### idempotence through `parseSource`: where no element is written `<a></a>` the real parser chain is `parseText` -/


def isStartF : FEv → Bool
  | .start _ _ => true
  | _ => false
def isEndF : FEv → Bool
  | .end_ _ => true
  | _ => false
/-- does the list begin with an end tag? -/
def headEndF : List FEv → Bool
  | f :: _ => isEndF f
  | [] => false

theorem noStartEnd_cons (f : FEv) (r : List FEv) :
    noStartEnd (f :: r) = (!(isStartF f && headEndF r) && noStartEnd r) := by
  cases r with
  | nil => cases f <;> simp [noStartEnd, headEndF]
  | cons g r => cases f <;> cases g <;> simp [noStartEnd, isStartF, isEndF, headEndF]

/-- an event that is no namespace event leaves the flattener as exactly one event of its own kind -/
theorem flatStep_single (pref : List (Str × Str)) (st : FSt) (x : XEv) (hx : noNs x = true) :
    ∃ f, (flatStep pref st x).2 = [f] ∧ isStartF f = isStartX x ∧ isEndF f = isEndX x := by
  cases x with
  | empty t a => exact ⟨_, rfl, rfl, rfl⟩
  | ev e =>
    cases e with
    | start t a => exact ⟨_, rfl, rfl, rfl⟩
    | end_ t =>
      simp only [flatStep]
      split <;> exact ⟨_, rfl, rfl, rfl⟩
    | startNs p u => simp [noNs] at hx
    | endNs p => simp [noNs] at hx
    | _ => exact ⟨_, rfl, rfl, rfl⟩

theorem flatStep_ns (pref : List (Str × Str)) (st : FSt) (x : XEv) (hx : noNs x = false) :
    (flatStep pref st x).2 = [] ∧ isStartX x = false := by
  cases x with
  | empty t a => simp [noNs] at hx
  | ev e => cases e <;> first | (simp [noNs] at hx; done) | exact ⟨rfl, rfl⟩

theorem headEnd_flatRun (pref : List (Str × Str)) : ∀ (xs : List XEv) (st : FSt),
    headEndF (flatRun pref st xs) = headEndX xs := by
  intro xs
  induction xs with
  | nil => intro st; rfl
  | cons x xs ih =>
    intro st
    rw [flatRun]
    by_cases hx : noNs x = true
    · obtain ⟨f, hf, _, he⟩ := flatStep_single pref st x hx
      simp only [hf, List.singleton_append, headEndF, headEndX, hx, if_true, he]
    · simp only [Bool.not_eq_true] at hx
      simp only [(flatStep_ns pref st x hx).1, List.nil_append, headEndX, hx, ih]
      simp

theorem noStartEnd_flatRun (pref : List (Str × Str)) : ∀ (xs : List XEv) (st : FSt),
    noStartEndX xs = true → noStartEnd (flatRun pref st xs) = true := by
  intro xs
  induction xs with
  | nil => intro st _; rfl
  | cons x xs ih =>
    intro st hx
    simp only [noStartEndX, Bool.and_eq_true] at hx
    rw [flatRun]
    by_cases hn : noNs x = true
    · obtain ⟨f, hf, hs, _⟩ := flatStep_single pref st x hn
      simp only [hf, List.singleton_append]
      rw [noStartEnd_cons, hs, headEnd_flatRun, ih _ hx.2]
      simpa using hx.1
    · simp only [Bool.not_eq_true] at hn
      simp only [(flatStep_ns pref st x hn).1, List.nil_append]
      exact ih _ hx.2

theorem noStartEnd_map_normF : ∀ (fs : List FEv), noStartEnd (fs.map normF) = noStartEnd fs
  | [] => rfl
  | f :: r => by
    have ih := noStartEnd_map_normF r
    simp only [List.map_cons]
    rw [noStartEnd_cons, noStartEnd_cons, ih]
    cases f <;> cases r <;> simp [normF, isStartF, headEndF] <;> rename_i g _ <;> cases g <;> simp [normF, isEndF]

/-- `ser (parseSource (encode (ser s))) = ser s` from the same at event level, where no element is written `<a></a>` -/
theorem idem_text_of_events_source (pref : List (Str × Str)) (rep : Char → Bool) (hr : AsciiRep rep)
    (xs : List XEv) (hd : docOK xs = true)
    (hb : docTextOK (flatten pref xs) = true) (hm : repMarkup rep (flatten pref xs) = true)
    (hne : noStartEndX xs = true)
    (hev : ∃ xs2, reparseX PSt.init ((flatten pref xs).map normF) = some xs2 ∧
      (flatten pref xs2).map normF = (flatten pref xs).map normF) :
    ∃ out, serRun SerSt.init (flatten pref xs) = some out ∧
      ∃ xs2, parseSource (encodeText rep out) = some xs2 ∧
        serRun SerSt.init (flatten pref xs2) = some out := by
  obtain ⟨out, h1, xs2, h2, h3⟩ := idem_text_of_events pref rep hr xs hd hb hm hev
  obtain ⟨out', g1, g2⟩ := tokenize_ser rep hr _ hb hm
  rw [h1] at g1
  cases g1
  refine ⟨out, h1, xs2, ?_, h3⟩
  rw [parseSource_eq_parseText _ _ g2 ?_]
  · exact h2
  · rw [dropTopWs_flatten pref _ hd, noStartEnd_map_normF]
    exact noStartEnd_flatRun pref _ _ hne

theorem idem_text_builder_source (pref : List (Str × Str)) (hpref : prefOK pref = true) (rep : Char → Bool)
    (hr : AsciiRep rep) (xs : List XEv) (hd : docOK xs = true) (hb : builderShaped xs = true)
    (ht : inputTextOKm rep pref xs = true) (hne : noStartEndX (mergeX xs) = true) :
    ∃ out, serRun SerSt.init (flatten pref xs) = some out ∧
      ∃ xs2, parseSource (encodeText rep out) = some xs2 ∧
        serRun SerSt.init (flatten pref xs2) = some out := by
  have ht' := inputTextOK_mergeX rep pref xs ht
  have hd' := docOK_mergeX xs hd
  have hb' : builderShaped (mergeX xs) = true := noNs_mergeX xs none hb
  obtain ⟨t1, t2⟩ := textOK_of_input rep hr pref _ ht'
  obtain ⟨out, h1, h2⟩ := idem_text_of_events_source pref rep hr (mergeX xs) hd' t1 t2 hne
    (idem_flatten_builder pref hpref _ hd' hb')
  rw [flatten_mergeX, serRun_mergeF'] at h1
  exact ⟨out, h1, h2⟩

theorem idem_text_parsed_source (pref : List (Str × Str)) (hpref : prefOK pref = true) (rep : Char → Bool)
    (hr : AsciiRep rep) (xs : List XEv) (hd : docOK xs = true) (hi : idemOK pref xs = true)
    (ht : inputTextOK rep pref xs = true) (hne : noStartEndX xs = true) :
    ∃ out, serRun SerSt.init (flatten pref xs) = some out ∧
      ∃ xs2, parseSource (encodeText rep out) = some xs2 ∧
        serRun SerSt.init (flatten pref xs2) = some out := by
  obtain ⟨t1, t2⟩ := textOK_of_input rep hr pref _ ht
  obtain ⟨xs2, r1, r2⟩ := idem_flatten pref hpref xs hd hi
  exact idem_text_of_events_source pref rep hr xs hd t1 t2 hne ⟨xs2, r1, by rw [r2]⟩

end Genshi.Xml

/-
  C11: the run-time semantics against the specification evaluator (`specN/specL/spec`: an include is
  rendered as the node list of its target in place).  Where no match template is ever defined the window
  of match templates is irrelevant, and that window is the only thing in which the two differ.
-/
import Genshi.Lemmas.Incl
namespace Genshi.Incl

/-! ## unfoldings of the specification evaluator -/

section unfold
variable (files : Files) (J : RJ) (rng : Rng) (st : St)

theorem specL_nil : specL files J rng [] st = .ok ([], st) := rfl

theorem specL_cons (n : Node) (ns : List Node) :
    specL files J rng (n :: ns) st =
      (specN files J rng n st).bind fun r1 =>
        (specL files J rng ns r1.2).bind fun r2 => .ok (r1.1 ++ r2.1, r2.2) := rfl

theorem specN_var (x : Name) :
    specN files J rng (.var x) st =
      match st.lookup x with
      | none => .err .undefined
      | some v => match v.text? with
        | none => .err .unmodelled
        | some s => .ok ([.text s], st) := rfl

theorem specN_elem (tag : Name) (body : List Node) :
    specN files J rng (.elem tag body) st =
      match firstMatch st.mts rng tag with
      | none =>
        (specL files J rng body st).bind fun r => .ok (.start tag :: r.1 ++ [.stop tag], r.2)
      | some (idx, mb) =>
        (specL files J ⟨rng.lo, some (idx + 1), false⟩ body st).bind fun r =>
          (J ⟨idx + 1, rng.hi, false⟩ mb { r.2 with sel := r.1 :: r.2.sel }).bind fun r' =>
            .ok (r'.1, { r'.2 with sel := r'.2.sel.tail }) := rfl

theorem specN_select :
    specN files J rng .select st =
      match st.sel with
      | [] => .err .undefined
      | c :: _ => J rng (evsToNodes c) st := rfl

theorem specN_cond (c : Cond) (body : List Node) :
    specN files J rng (.cond c body) st =
      (evalCond st c).bind fun b => if b then specL files J rng body st else .ok ([], st) := rfl

theorem specN_loop (x xs : Name) (body : List Node) :
    specN files J rng (.loop x xs body) st =
      match st.lookup xs with
      | none => .err .undefined
      | some v => loopItems (fun st' => specL files J rng body st') x v.items st := rfl

theorem specN_call (m : Name) :
    specN files J rng (.call m) st =
      match st.macros.lookup m with
      | some body => J rng body st
      | none => match st.lookup m with
        | none => .err .undefined
        | some _ => .err .unmodelled := rfl

theorem specN_include (href : Href) (cls : Kind) (hasFb : Bool) (fb : List Node) (pos : Name) :
    specN files J rng (.include href cls hasFb fb pos) st =
      (evalHref st href).bind fun h =>
        match resolve pos h with
        | none => .err .unmodelled
        | some name =>
          match loadRaw files name cls with
          | .ok body => J rng body st
          | .err .notFound => if hasFb then specL files J rng fb st else .err .notFound
          | .err e => .err e
          | .fuel => .fuel := rfl

theorem specN_inlined (body : List Node) :
    specN files J rng (.inlined body) st = J rng body st := rfl

end unfold

theorem spec_succ (files : Files) (f : Nat) (rng : Rng) (ns : List Node) (st : St) :
    spec files (f + 1) rng ns st = specL files (spec files f) rng ns st := rfl

/-! ## contexts in which no match template was registered -/

/-- no match template registered, no matched element being replaced, macro bodies free of match templates -/
structure OkSt (st : St) : Prop where
  mts : st.mts = []
  sel : st.sel = []
  macros : ∀ p, p ∈ st.macros → noMtL p.2 = true

/-- equal results, and a successful one ends in a context of the same kind -/
def SR (x y : R) : Prop := x = y ∧ ∀ r, x = .ok r → OkSt r.2

theorem SR.fuel : SR .fuel .fuel := ⟨rfl, by intro r h; cases h⟩
theorem SR.err (e : Err) : SR (.err e) (.err e) := ⟨rfl, by intro r h; cases h⟩
theorem SR.ok {o : List Ev} {s : St} (h : OkSt s) : SR (.ok (o, s)) (.ok (o, s)) :=
  ⟨rfl, by intro r hr; cases hr; exact h⟩

theorem SR.bind {x y : R} {k k' : List Ev × St → R} (hx : SR x y)
    (hk : ∀ r, OkSt r.2 → SR (k r) (k' r)) : SR (x.bind k) (y.bind k') := by
  obtain ⟨rfl, hok⟩ := hx
  cases x with
  | fuel => exact SR.fuel
  | err e => exact SR.err e
  | ok a => exact hk a (hok a rfl)

theorem firstMatch_nil (rng : Rng) (tag : Name) : firstMatch [] rng tag = none := rfl

theorem lookup_mem' {β : Type} : ∀ {l : List (Name × β)} {n : Name} {b : β}, l.lookup n = some b → (n, b) ∈ l
  | [], _, _, h => by simp [List.lookup] at h
  | (k, v) :: rest, n, b, h => by
    simp only [List.lookup] at h
    split at h
    · cases h
      rename_i heq
      have : n = k := by simpa using heq
      subst this
      exact List.mem_cons_self
    · exact List.mem_cons_of_mem _ (lookup_mem' h)

theorem loopItems_sr {k k' : St → R} (x : Name) (hk : ∀ s, OkSt s → SR (k s) (k' s)) :
    ∀ (vs : List Value) (s : St), OkSt s → SR (loopItems k x vs s) (loopItems k' x vs s)
  | [], s, hs => SR.ok hs
  | v :: vs, s, hs => by
    simp only [loopItems]
    refine SR.bind (hk _ ⟨hs.mts, hs.sel, hs.macros⟩) fun r1 h1 => ?_
    refine SR.bind (loopItems_sr x hk vs _ ⟨h1.mts, h1.sel, h1.macros⟩) fun r2 h2 => ?_
    exact SR.ok h2

/-- a found file of a set without match templates has a body without match templates -/
theorem loadRaw_noMt {files : Files} (hF : noMtFiles files = true) {name : Name} {cls : Kind} {body : List Node}
    (h : loadRaw files name cls = .ok body) : noMtL body = true := by
  unfold loadRaw at h
  cases hf : files.find name with
  | none => simp [hf] at h
  | some f =>
    simp only [hf] at h
    split at h
    · cases h
    · cases hb : f.body with
      | none => simp [hb] at h
      | some b =>
        simp only [hb] at h
        have hbb : b = body := by cases h; rfl
        subst hbb
        -- the file is an entry of some directory of the search path
        have key : ∀ (fs : Files), fs.find name = some f → (fs.all fun d => d.all fun e =>
            match e.2.body with | none => true | some b => noMtL b) = true → noMtL b = true := by
          intro fs
          induction fs with
          | nil => intro h1 _; simp [Files.find] at h1
          | cons d ds ih =>
            intro h1 h2
            simp only [List.all_cons, Bool.and_eq_true] at h2
            simp only [Files.find] at h1
            cases hl : d.lookup name with
            | some f' =>
              simp only [hl] at h1
              cases h1
              have hm := lookup_mem' hl
              have := (List.all_eq_true.mp h2.1) _ hm
              simpa [hb] using this
            | none =>
              simp only [hl] at h1
              exact ih h1 h2.2
        exact key files hf hF

/-! ## run-time semantics = specification where the window cannot matter -/

mutual
theorem specN_sr {files : Files} (hF : noMtFiles files = true) {J J' : RJ}
    (hJ : ∀ rng rng' ns st, noMtL ns = true → OkSt st → SR (J rng ns st) (J' rng' ns st)) :
    ∀ (n : Node) (rng rng' : Rng) (st : St), noMtN n = true → OkSt st →
      SR (renderN .runtime files J rng n st) (specN files J' rng' n st)
  | .text _, _, _, _, _, hs => SR.ok hs
  | .var x, rng, rng', st, _, hs => by
    rw [renderN_var, specN_var]
    cases st.lookup x with
    | none => exact SR.err _
    | some v =>
      dsimp only
      cases v.text? with
      | none => exact SR.err _
      | some s => exact SR.ok hs
  | .elem tag body, rng, rng', st, hn, hs => by
    rw [renderN_elem, specN_elem, hs.mts, firstMatch_nil, firstMatch_nil]
    have hb : noMtL body = true := by simpa [noMtN] using hn
    have := specL_sr hF hJ body rng rng' st hb hs
    dsimp only
    exact SR.bind this fun r hr => SR.ok hr
  | .select, rng, rng', st, _, hs => by
    rw [renderN_select, specN_select, hs.sel]
    exact SR.err _
  | .cond c body, rng, rng', st, hn, hs => by
    rw [renderN_cond, specN_cond]
    have hb : noMtL body = true := by simpa [noMtN] using hn
    cases evalCond st c with
    | fuel => exact SR.fuel
    | err e => exact SR.err e
    | ok b =>
      cases b with
      | true => exact specL_sr hF hJ body rng rng' st hb hs
      | false => exact SR.ok hs
  | .loop x xs body, rng, rng', st, hn, hs => by
    rw [renderN_loop, specN_loop]
    have hb : noMtL body = true := by simpa [noMtN] using hn
    cases st.lookup xs with
    | none => exact SR.err _
    | some v => exact loopItems_sr x (fun s h => specL_sr hF hJ body rng rng' s hb h) _ st hs
  | .defn m body, _, _, st, hn, hs => by
    have hb : noMtL body = true := by simpa [noMtN] using hn
    rw [renderN_defn]
    show SR _ (Res.ok ([], { st with macros := (m, body) :: st.macros }))
    refine SR.ok ⟨hs.mts, hs.sel, ?_⟩
    intro p hp
    cases hp with
    | head => exact hb
    | tail _ h => exact hs.macros p h
  | .call m, rng, rng', st, _, hs => by
    rw [renderN_call, specN_call]
    cases hm : st.macros.lookup m with
    | some body => exact hJ _ _ _ _ (hs.macros (m, body) (lookup_mem' hm)) hs
    | none => cases st.lookup m <;> exact SR.err _
  | .matchT _ _, _, _, _, hn, _ => by simp [noMtN] at hn
  | .include href cls hasFb fb pos, rng, rng', st, hn, hs => by
    rw [renderN_include, specN_include]
    have hb : noMtL fb = true := by simpa [noMtN] using hn
    cases evalHref st href with
    | fuel => exact SR.fuel
    | err e => exact SR.err e
    | ok h =>
      simp only [Res.bind_ok]
      cases resolve pos h with
      | none => exact SR.err _
      | some name =>
        simp only [loadT]
        cases hl : loadRaw files name cls with
        | fuel => exact SR.fuel
        | ok body => exact hJ _ _ _ _ (loadRaw_noMt hF hl) hs
        | err e =>
          cases e with
          | notFound =>
            cases hasFb with
            | true => exact specL_sr hF hJ fb rng.fresh rng' st hb hs
            | false => exact SR.err _
          | syntaxErr => exact SR.err _
          | undefined => exact SR.err _
          | unmodelled => exact SR.err _
  | .inlined body, rng, rng', st, hn, hs => by
    rw [renderN_inlined, specN_inlined]
    exact hJ _ _ _ _ (by simpa [noMtN] using hn) hs
termination_by structural n => n
theorem specL_sr {files : Files} (hF : noMtFiles files = true) {J J' : RJ}
    (hJ : ∀ rng rng' ns st, noMtL ns = true → OkSt st → SR (J rng ns st) (J' rng' ns st)) :
    ∀ (ns : List Node) (rng rng' : Rng) (st : St), noMtL ns = true → OkSt st →
      SR (renderL .runtime files J rng ns st) (specL files J' rng' ns st)
  | [], _, _, _, _, hs => SR.ok hs
  | n :: ns, rng, rng', st, hn, hs => by
    rw [renderL_cons, specL_cons]
    have h2 : noMtN n = true ∧ noMtL ns = true := by simpa [noMtL] using hn
    refine SR.bind (specN_sr hF hJ n rng rng' st h2.1 hs) fun r1 h1 => ?_
    refine SR.bind (specL_sr hF hJ ns rng rng' r1.2 h2.2 h1) fun r2 h2' => ?_
    exact SR.ok h2'
termination_by structural ns => ns
end

theorem spec_sr {files : Files} (hF : noMtFiles files = true) :
    ∀ (f : Nat) (rng rng' : Rng) (ns : List Node) (st : St), noMtL ns = true → OkSt st →
      SR (render .runtime files f rng ns st) (spec files f rng' ns st)
  | 0, _, _, _, _, _, _ => SR.fuel
  | f + 1, rng, rng', ns, st, hn, hs => by
    rw [render_succ, spec_succ]
    exact specL_sr hF (spec_sr hF f) ns rng rng' st hn hs

end Genshi.Incl

/-
  C12 — `once="true"` as a tree rewrite of its own, for any number of matching elements: the stage of
  a lawful template with the hint replaces the first element in document order at which its matcher
  fires (`onceList`, Model/MatchSpec.lean) and passes everything else; afterwards the slot is retired
  (if it fired) or back in the state it had.
-/
import Genshi.Lemmas.MatchOnceSpec
namespace Genshi.Match
open Genshi
variable {σ : Type}

/-- slot `i` holds a retired template -/
def RetAt (i : Nat) (M : List (MT σ)) : Prop := ∃ t', M[i]? = some t' ∧ t'.retired = true

theorem scanP_retired (e : Event) : ∀ (N : List (MT σ)) (v : Nat → Bool),
    (∀ p t, v p = true → N[p]? = some t → t.retired = true) → scanP v e N = (N, none) := by
  intro N
  induction N with
  | nil => intro v _; rfl
  | cons x xs ih =>
    intro v hv
    have hrec := ih (fun p => v (p + 1)) (fun p t hp ht => hv (p + 1) t hp (by simpa using ht))
    unfold scanP
    by_cases h0 : v 0 = true
    · have hx : x.retired = true := hv 0 x h0 rfl
      simp only [h0, ↓reduceIte, test_retired hx, Bool.false_eq_true, hrec]
      simp
    · simp only [h0, Bool.false_eq_true, ↓reduceIte, hrec]
      simp

theorem mapW_retired (e : Event) (u : Bool) : ∀ (N : List (MT σ)) (v : Nat → Bool),
    (∀ p t, v p = true → N[p]? = some t → t.retired = true) → mapW v (fun t => (t.test e u).1) N = N := by
  intro N
  induction N with
  | nil => intro v _; rfl
  | cons x xs ih =>
    intro v hv
    have hrec := ih (fun p => v (p + 1)) (fun p t hp ht => hv (p + 1) t hp (by simpa using ht))
    by_cases h0 : v 0 = true
    · have hx : x.retired = true := hv 0 x h0 rfl
      simp [mapW, h0, test_retired hx, hrec]
    · simp [mapW, h0, hrec]

theorem retAt_window {i : Nat} {M : List (MT σ)} (h : RetAt i M) :
    ∀ p t, (fun p => inWindow i (some (i + 1)) (0 + p)) p = true → M[p]? = some t → t.retired = true := by
  intro p t hp ht
  obtain ⟨t', ht', hr⟩ := h
  have : p = i := by simpa using (win_single i (0 + p)).mp hp
  subst this
  rw [ht'] at ht; cases ht; exact hr

/-- a stage whose only template is retired passes everything and touches nothing -/
theorem run_retired_stage (i : Nat) : ∀ (f : Nat) (items : List (Item σ)) (M : List (MT σ))
    (r : List (MT σ) × List Event), RetAt i M → NoReg items →
    run f i (some (i + 1)) items M = some r → r = (M, evs items) := by
  intro f
  induction f with
  | zero => intro items M r _ _ h; simp [run] at h
  | succ f ih =>
    intro items M r hret hnr h
    cases items with
    | nil => simp [run] at h; subst h; rfl
    | cons it rest =>
      cases it with
      | reg t => exact absurd (by simp) (hnr t)
      | ev e =>
        have hnr' : NoReg rest := fun y hy => hnr y (by simp [hy])
        simp only [run] at h
        by_cases hS : isStart e = true
        · simp only [hS, ↓reduceIte] at h
          rw [scan_eq_scanP, scanP_retired e M _ (retAt_window hret)] at h
          simp only [Option.map_none] at h
          obtain ⟨q, hq, rfl⟩ := emit_some h
          rw [ih rest M q hret hnr' hq]; rfl
        · simp only [hS, Bool.false_eq_true, ↓reduceIte] at h
          by_cases hE : isEnd e = true
          · simp only [hE, ↓reduceIte] at h
            rw [scanEnd_eq_mapW, mapW_retired e false M _ (retAt_window hret)] at h
            obtain ⟨q, hq, rfl⟩ := emit_some h
            rw [ih rest M q hret hnr' hq]; rfl
          · simp only [hE, Bool.false_eq_true, ↓reduceIte] at h
            obtain ⟨q, hq, rfl⟩ := emit_some h
            rw [ih rest M q hret hnr' hq]; rfl

theorem evs_evItems' (es : List Event) : evs (evItems es : List (Item σ)) = es := evs_evItems es

/-- **`once` is "replace the first match in document order".** -/
theorem once_stage_is_onceList (t : MT σ) (b : σ) (i : Nat) (hl : Lawful t) (ho : t.once = true) :
    ∀ (f : Nat) (ns : List Node) (anc : List Open) (M : List (MT σ)) (r : List (MT σ) × List Event),
    okList ns = true → SlotAt i t b anc M →
    run f i (some (i + 1)) (evItems (flattenList ns)) M = some r →
    r.2 = (onceList t b anc ns).1 ∧
      (if (onceList t b anc ns).2 then RetAt i r.1 else SlotAt i t b anc r.1) := by
  intro f
  induction f with
  | zero => intro ns anc M r _ _ h; simp [run] at h
  | succ f ih =>
    intro ns anc M r hokl hslot h
    cases ns with
    | nil =>
      simp [flattenList, evItems, run] at h; subst h
      exact ⟨by simp [onceList], by simpa [onceList] using hslot⟩
    | cons n rest =>
      simp only [okList, Bool.and_eq_true] at hokl
      obtain ⟨hn, hrestok⟩ := hokl
      cases n with
      | leaf e =>
        have hse : e.isStartEnd = false := by simpa [Node.ok] using hn
        have h1 : isStart e = false := by cases e <;> simp_all [Event.isStartEnd, isStart]
        have h2 : isEnd e = false := by cases e <;> simp_all [Event.isStartEnd, isEnd]
        simp only [flattenList, Node.flatten, List.cons_append, List.nil_append, evItems_cons, run, h1, h2,
          Bool.false_eq_true, ↓reduceIte] at h
        obtain ⟨q, hq, rfl⟩ := emit_some h
        obtain ⟨e1, e2⟩ := ih rest anc M q hrestok hslot hq
        exact ⟨by simp [onceList, onceNode, e1], by simpa [onceList, onceNode] using e2⟩
      | elem tg at_ kids =>
        have hkids : okList kids = true := by simpa [Node.ok] using hn
        obtain ⟨t', ht', hsh, hret, hst⟩ := hslot
        have hstep : t'.step = t.step := hsh.1
        have hitems : (evItems (flattenList (Node.elem tg at_ kids :: rest)) : List (Item σ)) =
            .ev (Event.start tg at_) :: (evItems (flattenList kids) ++ .ev (Event.end_ tg) :: evItems (flattenList rest)) := by
          simp [flattenList, Node.flatten, evItems]
        rw [hitems] at h
        have hclk : Closed (evs (evItems (flattenList kids) : List (Item σ))) := by
          simp only [evs_evItems]; exact closed_flattenList kids hkids
        have hstrip := strip_of_closed (evItems (flattenList kids) : List (Item σ)) 0 (Event.end_ tg)
          (evItems (flattenList rest)) hclk rfl rfl
        have hlive := test_live hret (Event.start tg at_) false
        rcases run_start_cases (show isStart (Event.start tg at_) = true from rfl) h with ⟨M1, p, hsc, hp, rfl⟩ |
          ⟨M1, idx, tf, inner, tail, rest', M3, innerOut, M4, outb, p, hsc, htf, hst', h3, h4, h5, rfl⟩
        · -- the matcher does not fire here
          have hnf : (t'.test (Event.start tg at_) false).2 = false := by
            have hq : (scanP (win i (some (i + 1))) (Event.start tg at_) M).2 = none := by
              have := scan_eq_scanP_win (Event.start tg at_) i (some (i + 1)) M
              rw [hsc] at this; simp only [Prod.mk.injEq] at this; exact this.2.symm
            exact scanP_none_nofire _ M _ hq i t' ht' ((win_single i i).mpr rfl)
          have hspec : (t.step (openSt t.step b anc) (Event.start tg at_) false).2 = false := by
            have h0 : (t'.step t'.st (Event.start tg at_) false).2 = false := by rw [← hlive.2.1]; exact hnf
            rw [hst, hstep] at h0; exact h0
          have hM1 : M1[i]? = some (t'.test (Event.start tg at_) false).1 := by
            have := scan_none_get (Event.start tg at_) i (some (i + 1)) 0 M (by rw [hsc]) i
            rw [hsc] at this; simp only [Nat.zero_add] at this
            rw [this, ht']; simp [(win_single i i).mpr rfl]
          have hslot1 : SlotAt i t b ((tg, at_) :: anc) M1 :=
            ⟨_, hM1, Shape.trans hsh (test_shape t' _ _), hlive.2.2, by rw [hlive.1, hst, hstep]; rfl⟩
          obtain ⟨r1, r2, hr1, hr2, hpe⟩ := run_append f i (some (i + 1)) (evItems (flattenList kids))
            (.ev (Event.end_ tg) :: evItems (flattenList rest)) 0 M1 p hclk hp
          obtain ⟨ek1, ek2⟩ := ih kids ((tg, at_) :: anc) M1 r1 hkids hslot1 hr1
          obtain ⟨f0, rfl⟩ : ∃ f0, f = f0 + 1 := ⟨f - 1, by have := run_fuel_pos hr2; omega⟩
          simp only [run, isStart, isEnd, Bool.false_eq_true, ↓reduceIte] at hr2
          obtain ⟨q, hq, rfl⟩ := emit_some hr2
          have hq' := run_mono _ _ _ _ _ _ hq
          by_cases hfl : (onceList t b ((tg, at_) :: anc) kids).2 = true
          · -- fired inside: the slot is retired, the END and the rest pass
            rw [hfl] at ek2
            simp only [↓reduceIte] at ek2
            have hretE : RetAt i (scanEnd (Event.end_ tg) i (some (i + 1)) 0 r1.1) := by
              rw [scanEnd_eq_mapW, mapW_retired _ false r1.1 _ (retAt_window ek2)]; exact ek2
            have hq2 := run_retired_stage i _ _ _ q hretE (noReg_evItems _) hq'
            rw [hpe, hq2]
            simp only [evs_evItems]
            refine ⟨?_, ?_⟩
            · simp [onceList, onceNode, hspec, hfl, ek1]
            · simpa [onceList, onceNode, hspec, hfl] using hretE
          · -- the END undoes the START
            have hfl' : (onceList t b ((tg, at_) :: anc) kids).2 = false := by simpa using hfl
            rw [hfl'] at ek2
            simp only [Bool.false_eq_true, ↓reduceIte] at ek2
            obtain ⟨t1, ht1, hsh1, hret1, hst1⟩ := ek2
            have hlive1 := test_live hret1 (Event.end_ tg) false
            have hslotE : SlotAt i t b anc (scanEnd (Event.end_ tg) i (some (i + 1)) 0 r1.1) := by
              refine ⟨(t1.test (Event.end_ tg) false).1, ?_, Shape.trans hsh1 (test_shape t1 _ _), hlive1.2.2, ?_⟩
              · rw [scanEnd_get, ht1]; simp [(win_single i i).mpr rfl]
              · rw [hlive1.1, hst1, hsh1.1]; simp only [openSt]; exact hl _ _ _ _ _
            obtain ⟨er1, er2⟩ := ih rest anc _ q hrestok hslotE hq'
            rw [hpe]
            refine ⟨?_, ?_⟩
            · simp [onceList, onceNode, hspec, hfl', ek1, er1]
            · simpa [onceList, onceNode, hspec, hfl'] using er2
        · -- the matcher fires: the element is replaced, the template retired
          rw [hstrip] at hst'
          simp only [Option.some.injEq, Prod.mk.injEq] at hst'
          obtain ⟨rfl, rfl, rfl⟩ := hst'
          obtain ⟨hwi, ⟨t0, ht0, hfire⟩, _⟩ := scan_first (Event.start tg at_) i (some (i + 1)) M idx (by rw [hsc])
          have hidx : idx = i := (win_single i idx).mp hwi
          subst hidx
          rw [ht'] at ht0; cases ht0
          have hspec : (t.step (openSt t.step b anc) (Event.start tg at_) false).2 = true := by
            have h0 : (t'.step t'.st (Event.start tg at_) false).2 = true := by rw [← hlive.2.1]; exact hfire
            rw [hst, hstep] at h0; exact h0
          obtain ⟨j, t0', hj, ht0', _, _, _, heq, _, _⟩ := scan_some_get (Event.start tg at_) idx (some (idx + 1)) 0 M idx (by rw [hsc])
          simp only [Nat.zero_add] at hj; subst hj
          rw [hsc] at heq; simp only at heq
          rw [ht'] at ht0'; cases ht0'
          rw [htf] at heq
          simp only [Option.some.injEq] at heq
          have hshf : Shape t tf := by
            rw [heq]
            exact Shape.trans hsh ⟨(test_shape t' _ false).1, (test_shape t' _ false).2.1, (test_shape t' _ false).2.2.1,
              (test_shape t' _ false).2.2.2.1, (test_shape t' _ false).2.2.2.2⟩
          have honce : tf.once = true := by rw [hshf.2.2.1]; exact ho
          have hfired : fired tf idx M1 = retireAt idx M1 := by unfold fired; simp [honce]
          rw [hfired] at h3
          have hpe : preEnd tf idx = idx + 1 := by unfold preEnd; simp [honce]
          rw [hpe] at h3
          have hret1 : RetAt idx (retireAt idx M1) := ⟨tf.retire, by rw [retireAt_get, htf]; simp, rfl⟩
          -- the content passes: the template is retired
          have hc := run_retired_stage idx _ _ _ (M3, innerOut) hret1 (noReg_evItems _) h3
          simp only [Prod.mk.injEq, evs_evItems] at hc
          obtain ⟨hM3, hio⟩ := hc
          -- the body is matched against no template of this stage
          have hb := run_empty_window _ _ _ _ _ _ (win_empty idx) (noReg_evItems _) h4
          simp only [Prod.mk.injEq, evs_evItems] at hb
          obtain ⟨hM4, houtb⟩ := hb
          rw [hM4, hM3] at h5
          have hret5 : RetAt idx (updRange (Event.end_ tg) idx (idx + 1) 0 (retireAt idx M1)) := by
            refine ⟨tf.retire, ?_, rfl⟩
            rw [updRange_get, retireAt_get, htf]
            simp [test_retired (show tf.retire.retired = true from rfl)]
          have hr := run_retired_stage idx _ _ _ p hret5 (noReg_evItems _) h5
          rw [hr]
          simp only [evs_evItems]
          refine ⟨?_, ?_⟩
          · simp [onceList, onceNode, hspec, houtb, hshf.2.1, hio]
          · simpa [onceList, onceNode, hspec] using hret5

end Genshi.Match

/-
  Every `stagewise` chain is inside the hypotheses of `lazy_raw_chain_wellnested`: reads come after
  writes (`lazyRaw`) and a buffer has one writer between two barriers (`OneWriter`).
-/
import Genshi.Lemmas.TfTraceInv
namespace Genshi.Tf

theorem rawOk_of_noConf : ∀ seg : List Op, NoConf seg → rawOk seg = true
  | [], _ => rfl
  | op :: ops, h => by
    obtain ⟨_, hR, hN⟩ := h
    simp only [rawOk, Bool.and_eq_true]
    refine ⟨?_, rawOk_of_noConf ops hN⟩
    cases hr : readsOf op with
    | none => rfl
    | some id =>
      have : id ∉ wrOps ops := hR id (by simp [rdOp, hr])
      simpa [writes_eq_wrOps] using this

theorem stagewise_lazyRaw (ops : List Op) (h : stagewise [] [] ops = true) : lazyRaw ops = true := by
  obtain ⟨sg, ss, h0, hn, _, _, hss⟩ := stagewise_segs ops [] [] h
  simp only [lazyRaw, h0, List.all_cons, Bool.and_eq_true, List.all_eq_true]
  exact ⟨rawOk_of_noConf sg hn, fun seg hseg => rawOk_of_noConf seg (hss seg hseg)⟩

theorem oneWriter_cons {op : Op} (hb : op ≠ .buffer) (w : List Nat) (ops : List Op) :
    OneWriter w (op :: ops) = ((∀ i ∈ wrOp op, i ∉ w) ∧ OneWriter (wrOp op ++ w) ops) := by
  cases op <;> first | exact absurd rfl hb | rfl

theorem stagewise_oneWriter : ∀ (ops : List Op) (w r w' : List Nat), (∀ i ∈ w', i ∈ w) →
    stagewise w r ops = true → OneWriter w' ops
  | [], _, _, _, _, _ => trivial
  | op :: ops, w, r, w', hsub, h => by
    have other : wrOp op = [] → op ≠ .buffer →
        (stagewise w r (op :: ops) = true → ∃ r', stagewise w r' ops = true) → OneWriter w' (op :: ops) := by
      intro hw hb hst
      obtain ⟨r', h'⟩ := hst h
      have := stagewise_oneWriter ops w r' w' hsub h'
      rw [oneWriter_cons hb, hw]
      exact ⟨fun i hi => by simp at hi, by simpa using this⟩
    have inj : ∀ (c : Content) (f : Content → Op), (∀ c, readsOf (f c) = (match c with | .buf id => some id | _ => none)) →
        (∀ c ops, stagewise w r (f c :: ops) = (match readsOf (f c) with
          | some id => !w.contains id && stagewise w (id :: r) ops
          | none => stagewise w r ops)) →
        stagewise w r (f c :: ops) = true → ∃ r', stagewise w r' ops = true := by
      intro c f hrd hst hh
      rw [hst, hrd] at hh
      cases c with
      | buf id => simp only [Bool.and_eq_true] at hh; exact ⟨_, hh.2⟩
      | str s => exact ⟨_, hh⟩
      | evs s => exact ⟨_, hh⟩
    cases op with
    | buffer =>
      simp only [stagewise] at h
      exact stagewise_oneWriter ops [] [] [] (fun i hi => by simp at hi) h
    | copy id acc =>
      simp only [stagewise, Bool.and_eq_true, Bool.not_eq_true', List.contains_eq_mem, decide_eq_false_iff_not] at h
      refine ⟨fun i hi => ?_, ?_⟩
      · simp only [wrOp, List.mem_singleton] at hi; subst hi
        exact fun hc => h.1.1 (hsub _ hc)
      · refine stagewise_oneWriter ops (id :: w) r _ (fun i hi => ?_) h.2
        simp only [wrOp, List.singleton_append, List.mem_cons] at hi ⊢
        rcases hi with rfl | hi
        · exact Or.inl rfl
        · exact Or.inr (hsub i hi)
    | cut id acc =>
      simp only [stagewise, Bool.and_eq_true, Bool.not_eq_true', List.contains_eq_mem, decide_eq_false_iff_not] at h
      refine ⟨fun i hi => ?_, ?_⟩
      · simp only [wrOp, List.mem_singleton] at hi; subst hi
        exact fun hc => h.1.1 (hsub _ hc)
      · refine stagewise_oneWriter ops (id :: w) r _ (fun i hi => ?_) h.2
        simp only [wrOp, List.singleton_append, List.mem_cons] at hi ⊢
        rcases hi with rfl | hi
        · exact Or.inl rfl
        · exact Or.inr (hsub i hi)
    | replace c => exact other rfl (by simp) (inj c .replace (fun c => by cases c <;> rfl) (fun c ops => by cases c <;> rfl))
    | before c => exact other rfl (by simp) (inj c .before (fun c => by cases c <;> rfl) (fun c ops => by cases c <;> rfl))
    | after c => exact other rfl (by simp) (inj c .after (fun c => by cases c <;> rfl) (fun c ops => by cases c <;> rfl))
    | prepend c => exact other rfl (by simp) (inj c .prepend (fun c => by cases c <;> rfl) (fun c ops => by cases c <;> rfl))
    | append c => exact other rfl (by simp) (inj c .append (fun c => by cases c <;> rfl) (fun c ops => by cases c <;> rfl))
    | _ => exact other rfl (by simp) (fun hh => ⟨r, by simpa [stagewise, readsOf] using hh⟩)

/-- the new nesting theorem contains the old one: every `stagewise` chain satisfies both buffer
    hypotheses of `lazy_raw_chain_wellnested` -/
theorem stagewise_in_lazy_class (ops : List Op) (h : stagewise [] [] ops = true) :
    lazyRaw ops = true ∧ OneWriter [] ops :=
  ⟨stagewise_lazyRaw ops h, stagewise_oneWriter ops [] [] [] (fun i hi => by simp at hi) h⟩

end Genshi.Tf

/-
  matcher_state_in_sync: over a well-nested stream every matcher sees a well-nested sequence of
  START/END events, so a matcher in which an END undoes its START is, after the stream, in the state
  it would have reached by testing the still-open STARTs alone.
-/
import Genshi.Lemmas.MatchRun
import Genshi.Lemmas.MatchPoint
namespace Genshi.Match
open Genshi
variable {σ : Type}

/-- the law of the matcher interface the `updateonly` calls rely on: the END of an element
    undoes what its START did to the state (push/pop of the path strategies) -/
def Lawful (t : MT σ) : Prop :=
  ∀ st tg at_ u u', (t.step (t.step st (.start tg at_) u).1 (.end_ tg) u').1 = st

/-- slot `t` is in sync with the open elements `stk` (relative to base state `b`), or retired -/
def View (b : σ) (stk : List Open) (t : MT σ) : Prop :=
  t.retired = true ∨ t.st = openSt t.step b stk

theorem view_congr {b : σ} {stk : List Open} {t t' : MT σ} (hs : t'.step = t.step) (h1 : t'.st = t.st)
    (h2 : t'.retired = t.retired) (h : View b stk t) : View b stk t' := by
  unfold View at *; rw [hs, h1, h2]; exact h

theorem view_test_start {b : σ} {stk : List Open} {t : MT σ} (tg : QName) (at_ : AttrList)
    (h : View b stk t) : View b ((tg, at_) :: stk) (t.test (.start tg at_) false).1 := by
  unfold View at *
  unfold MT.test
  by_cases hr : t.retired = true
  · simp [hr]
  · simp only [hr, Bool.false_eq_true, ↓reduceIte]
    rcases h with h | h
    · exact absurd h hr
    · right; simp only [openSt]; rw [h]

theorem view_test_end {b : σ} {stk : List Open} {t : MT σ} (hl : Lawful t) (tg : QName) (at_ : AttrList) (u : Bool)
    (h : View b ((tg, at_) :: stk) t) : View b stk (t.test (.end_ tg) u).1 := by
  unfold View at *
  unfold MT.test
  by_cases hr : t.retired = true
  · simp [hr]
  · simp only [hr, Bool.false_eq_true, ↓reduceIte]
    rcases h with h | h
    · exact absurd h hr
    · right; simp only [openSt] at h; rw [h]; exact hl _ _ _ _ _

theorem view_retired {b : σ} {stk : List Open} {t : MT σ} (h : t.retired = true) : View b stk t := Or.inl h

def NoReg (items : List (Item σ)) : Prop := ∀ t, Item.reg t ∉ items

/-- what a run does to one slot -/
def SlotOK (start : Nat) (end_ : Option Nat) (stk stk' : List Open) (i : Nat) (t t' : MT σ) : Prop :=
  Shape t t' ∧
  (inWindow start end_ i = false → t'.st = t.st ∧ t'.retired = t.retired) ∧
  (inWindow start end_ i = true → ∀ b, View b stk t → View b stk' t')

def RunOK (start : Nat) (end_ : Option Nat) (stk stk' : List Open) (mts mts' : List (MT σ)) : Prop :=
  mts'.length = mts.length ∧
  ∀ i t, mts[i]? = some t → ∃ t', mts'[i]? = some t' ∧ SlotOK start end_ stk stk' i t t'

theorem static_lawful : Static (Lawful (σ := σ)) := by
  intro t t' hs h st tg at_ u u'; rw [hs.1]; exact h st tg at_ u u'

theorem static_bodyOK : Static (fun t : MT σ => BodyOK t.body) := by
  intro t t' hs hb; rw [hs.2.1]; exact hb

theorem inWindow_iff (s : Nat) (en : Option Nat) (i : Nat) :
    inWindow s en i = true ↔ s ≤ i ∧ ∀ n, en = some n → i < n := by
  cases en with
  | none => simp [inWindow]
  | some n => simp [inWindow]

theorem preEnd_le (t : MT σ) (idx : Nat) : idx ≤ preEnd t idx ∧ preEnd t idx ≤ idx + 1 := by
  unfold preEnd; split <;> omega

end Genshi.Match

namespace Genshi.Match
open Genshi
variable {σ : Type}

theorem shape_ite {x a b : MT σ} {c : Prop} [Decidable c] (ha : Shape x a) (hb : Shape x b) :
    Shape x (if c then a else b) := by
  split <;> assumption

theorem runOK_refl (start : Nat) (end_ : Option Nat) (stk : List Open) (mts : List (MT σ)) :
    RunOK start end_ stk stk mts mts :=
  ⟨rfl, fun _ t ht => ⟨t, ht, Shape.refl t, fun _ => ⟨rfl, rfl⟩, fun _ _ h => h⟩⟩

/-- the invariant behind the `updateonly` calls -/
theorem run_sync : ∀ (f start : Nat) (end_ : Option Nat) (items : List (Item σ)) (mts : List (MT σ))
    (r : List (MT σ) × List Event),
    NoReg items → (∀ t ∈ mts, Lawful t) → (∀ t ∈ mts, BodyOK t.body) →
    run f start end_ items mts = some r →
    ∀ stk stk', track stk (evs items) = some stk' → RunOK start end_ stk stk' mts r.1 := by
  intro f
  induction f with
  | zero => intro start end_ items mts r _ _ _ h; simp [run] at h
  | succ f ih =>
    intro start end_ items mts r hnr hl hb h stk stk' htr
    cases items with
    | nil =>
      simp [run] at h; subst h
      simp [track] at htr; subst htr
      exact runOK_refl _ _ _ _
    | cons it rest =>
      cases it with
      | reg t => exact absurd (by simp) (hnr t)
      | ev e =>
        have hnr' : NoReg rest := fun x hx => hnr x (by simp [hx])
        by_cases hS : isStart e = true
        · cases e with
          | start tg at_ =>
            simp only [evs_ev, track] at htr
            rcases run_start_cases hS h with ⟨mts1, p, hsc, hp, rfl⟩ |
              ⟨mts1, idx, t, inner, tail, rest', mts3, innerOut, mts4, out, p, hsc, ht, hst, h3, h4, h5, rfl⟩
            · -- no template fired: the window tested the START
              have hl1 : ∀ t ∈ mts1, Lawful t := by
                have := scan_forall static_lawful (Event.start tg at_) start end_ 0 mts hl; rw [hsc] at this; exact this
              have hb1 : ∀ t ∈ mts1, BodyOK t.body := by
                have := scan_forall static_bodyOK (Event.start tg at_) start end_ 0 mts hb; rw [hsc] at this; exact this
              obtain ⟨hlen, hslots⟩ := ih start end_ rest mts1 p hnr' hl1 hb1 hp _ _ htr
              have hlen1 : mts1.length = mts.length := by
                have := scan_length (Event.start tg at_) start end_ 0 mts; rw [hsc] at this; exact this
              have hget := scan_none_get (Event.start tg at_) start end_ 0 mts (by rw [hsc])
              rw [hsc] at hget
              refine ⟨by simp only; omega, ?_⟩
              intro i x hx
              have h1 := hget i
              simp only [hx, Option.map_some, Nat.zero_add] at h1
              obtain ⟨x', hx', hsh, hout, hin⟩ := hslots i _ h1
              refine ⟨x', hx', ?_, ?_, ?_⟩
              · exact Shape.trans (shape_ite (test_shape x _ _) (Shape.refl x)) hsh
              · intro hw
                simp only [hw, Bool.false_eq_true, ↓reduceIte] at hout
                exact hout trivial
              · intro hw b hv
                simp only [hw, ↓reduceIte] at hin
                exact hin trivial b (view_test_start tg at_ hv)
            · -- template idx fired
              have hl1 : ∀ t ∈ mts1, Lawful t := by
                have := scan_forall static_lawful (Event.start tg at_) start end_ 0 mts hl; rw [hsc] at this; exact this
              have hb1 : ∀ t ∈ mts1, BodyOK t.body := by
                have := scan_forall static_bodyOK (Event.start tg at_) start end_ 0 mts hb; rw [hsc] at this; exact this
              obtain ⟨hrest, htail, hcl⟩ := strip_spec rest 0 inner tail rest' hst
              have hnin : NoReg inner := fun x hx => hnr' x (by rw [hrest]; simp [hx])
              have hnre : NoReg rest' := fun x hx => hnr' x (by rw [hrest]; simp [hx])
              have hl2 : ∀ x ∈ fired t idx mts1, Lawful x := by
                unfold fired; split
                · exact retireAt_forall static_lawful idx mts1 hl1
                · exact hl1
              have hb2 : ∀ x ∈ fired t idx mts1, BodyOK x.body := by
                unfold fired; split
                · exact retireAt_forall static_bodyOK idx mts1 hb1
                · exact hb1
              have hl3 := run_forall static_lawful _ _ _ _ _ _ hl2 (fun x hx => absurd hx (hnin x)) h3
              have hb3 := run_forall static_bodyOK _ _ _ _ _ _ hb2 (fun x hx => absurd hx (hnin x)) h3
              have hnb : NoReg (evItems (instantiate t.body (Event.start tg at_ :: innerOut ++ [tail])) : List (Item σ)) := by
                intro x hx; simp [evItems] at hx
              have hl4 := run_forall static_lawful _ _ _ _ _ _ hl3 (fun x hx => absurd hx (hnb x)) h4
              have hb4 := run_forall static_bodyOK _ _ _ _ _ _ hb3 (fun x hx => absurd hx (hnb x)) h4
              have hl5 := updRange_forall static_lawful tail start (idx + 1) 0 mts4 hl4
              have hb5 := updRange_forall static_bodyOK tail start (idx + 1) 0 mts4 hb4
              have htb : BodyOK t.body := hb1 t (getElem?_mem_of ht)
              -- split the tracked input
              rw [hrest, evs_append, evs_ev, track_append] at htr
              cases hti : track ((tg, at_) :: stk) (evs inner) with
              | none => simp [hti] at htr
              | some s1 =>
                simp only [hti, Option.bind_some] at htr
                obtain ⟨hs1, hneu⟩ := neutral_of_closed hcl hti
                subst hs1
                cases tail with
                | end_ tt =>
                  simp only [track] at htr
                  by_cases htt : tt = tg
                  · subst htt
                    simp only [↓reduceIte] at htr
                    have hio : Neutral innerOut := fun s2 =>
                      run_track _ _ _ _ _ _ hb2 (fun x hx => absurd hx (hnin x)) h3 s2 s2 (hneu s2)
                    have hcont : Neutral (Event.start tt at_ :: innerOut ++ [Event.end_ tt]) :=
                      neutral_wrap tt at_ hio
                    have hbody := instantiate_neutral htb hcont
                    -- the three sub-runs
                    obtain ⟨hlen3, hs3⟩ := ih _ _ _ _ _ hnin hl2 hb2 h3 _ _ hti
                    obtain ⟨hlen4, hs4⟩ := ih _ _ _ _ _ hnb hl3 hb3 h4 stk stk (by simpa using hbody stk)
                    obtain ⟨hlen6, hs6⟩ := ih _ _ _ _ _ hnre hl5 hb5 h5 _ _ htr
                    have hlen1 : mts1.length = mts.length := by
                      have := scan_length (Event.start tt at_) start end_ 0 mts; rw [hsc] at this; exact this
                    have hlen2 : (fired t idx mts1).length = mts1.length := by
                      unfold fired; split
                      · exact retireAt_length idx mts1
                      · rfl
                    have hlen5 := updRange_length (Event.end_ tt) start (idx + 1) 0 mts4
                    obtain ⟨j, t0, hj, ht0, hwi, hfire, hlt, heq, hgt, _⟩ :=
                      scan_some_get (Event.start tt at_) start end_ 0 mts idx (by rw [hsc])
                    rw [hsc] at hlt heq hgt
                    simp only [Nat.zero_add] at hj hlt
                    subst hj
                    have hstart_le : start ≤ idx := ((inWindow_iff _ _ _).mp hwi).1
                    have hpe := preEnd_le t idx
                    simp only at hlen3 hlen4 hlen6
                    refine ⟨by simp only; omega, ?_⟩
                    intro i x hx
                    -- the chain of slot i
                    have hx1 : ∃ x1, mts1[i]? = some x1 := by
                      have : i < mts1.length := by
                        have := (List.getElem?_eq_some_iff.mp hx).1; omega
                      exact ⟨mts1[i], List.getElem?_eq_getElem this⟩
                    obtain ⟨x1, hx1⟩ := hx1
                    have hx2 : (fired t idx mts1)[i]? = some (if i = idx ∧ t.once = true then x1.retire else x1) := by
                      unfold fired
                      by_cases ho : t.once = true
                      · simp only [ho, ↓reduceIte, and_true]
                        rw [retireAt_get, hx1]; rfl
                      · simp [ho, hx1]
                    obtain ⟨x3, hx3, hsh3, hout3, hin3⟩ := hs3 i _ hx2
                    obtain ⟨x4, hx4, hsh4, hout4, hin4⟩ := hs4 i _ hx3
                    have hx5 := updRange_get (Event.end_ tt) start (idx + 1) 0 mts4 i
                    simp only [hx4, Option.map_some, Nat.zero_add] at hx5
                    obtain ⟨x', hx', hsh6, hout6, hin6⟩ := hs6 i _ hx5
                    -- shapes
                    have hshx1 : Shape x x1 := by
                      rcases Nat.lt_trichotomy i idx with hlt' | heq' | hgt'
                      · have := hlt i hlt'
                        rw [hx1, hx] at this
                        simp only [Option.map_some, Option.some.injEq] at this
                        rw [this]; exact shape_ite (test_shape x _ _) (Shape.refl x)
                      · subst heq'
                        have hxt : x = t0 := by rw [hx] at ht0; exact Option.some.inj ht0
                        subst hxt
                        rw [hx1] at heq
                        simp only [Option.some.injEq] at heq
                        rw [heq]
                        exact ⟨(test_shape x _ false).1, (test_shape x _ false).2.1, (test_shape x _ false).2.2.1,
                          (test_shape x _ false).2.2.2.1, (test_shape x _ false).2.2.2.2⟩
                      · have := hgt i hgt'
                        rw [hx1, hx] at this
                        cases this; exact Shape.refl x
                    have hshx2 : Shape x1 (if i = idx ∧ t.once = true then x1.retire else x1) := by
                      exact shape_ite (retire_shape x1) (Shape.refl x1)
                    have hshx5 : Shape x4 (if decide (start ≤ i) && decide (i < idx + 1) then (x4.test (Event.end_ tt) true).1 else x4) := by
                      exact shape_ite (test_shape x4 _ _) (Shape.refl x4)
                    have hshape : Shape x x' :=
                      Shape.trans hshx1 (Shape.trans hshx2 (Shape.trans hsh3 (Shape.trans hsh4 (Shape.trans hshx5 hsh6))))
                    have hlx4 : Lawful x4 := hl4 x4 (getElem?_mem_of hx4)
                    refine ⟨x', hx', hshape, ?_, ?_⟩
                    · -- outside the window nothing happens
                      intro hw
                      have hw' : ¬ (start ≤ i ∧ ∀ n, end_ = some n → i < n) := by
                        rw [← inWindow_iff]; simp [hw]
                      have hwi' := (inWindow_iff _ _ _).mp hwi
                      have hne : i ≠ idx := by
                        intro hh; subst hh; rw [hwi] at hw; cases hw
                      have hx1eq : x1 = x := by
                        rcases Nat.lt_or_gt_of_ne hne with hlt' | hgt'
                        · have := hlt i hlt'
                          rw [hx1, hx] at this
                          simp only [Option.map_some, Option.some.injEq, hw, Bool.false_eq_true, ↓reduceIte] at this
                          exact this
                        · have := hgt i hgt'
                          rw [hx1, hx] at this
                          cases this; rfl
                      have hw1 : inWindow start (some (preEnd t idx)) i = false := by
                        cases hh : inWindow start (some (preEnd t idx)) i with
                        | false => rfl
                        | true =>
                          exfalso
                          have := (inWindow_iff _ _ _).mp hh
                          apply hw'
                          refine ⟨this.1, ?_⟩
                          intro n hn
                          have h1 := this.2 _ rfl
                          have h2 := hwi'.2 n hn
                          omega
                      have hw2 : inWindow (idx + 1) end_ i = false := by
                        cases hh : inWindow (idx + 1) end_ i with
                        | false => rfl
                        | true =>
                          exfalso
                          have := (inWindow_iff _ _ _).mp hh
                          apply hw'
                          exact ⟨by omega, this.2⟩
                      have hr5 : (decide (start ≤ i) && decide (i < idx + 1)) = false := by
                        cases hh : (decide (start ≤ i) && decide (i < idx + 1)) with
                        | false => rfl
                        | true =>
                          exfalso
                          simp at hh
                          apply hw'
                          refine ⟨hh.1, ?_⟩
                          intro n hn
                          have h2 := hwi'.2 n hn
                          omega
                      have e3 := hout3 hw1
                      have e4 := hout4 hw2
                      have e6 := hout6 hw
                      simp only [hne, false_and, ↓reduceIte] at e3
                      simp only [hr5, Bool.false_eq_true, ↓reduceIte] at e6
                      subst hx1eq
                      exact ⟨by rw [e6.1, e4.1, e3.1], by rw [e6.2, e4.2, e3.2]⟩
                    · -- inside the window: the view is kept
                      intro hw b hv
                      have hwi' := (inWindow_iff _ _ _).mp hw
                      apply hin6 hw b
                      rcases Nat.lt_trichotomy i idx with hlt' | heq' | hgt'
                      · -- tested the START, sees the content, is told about the END
                        have hx1eq : x1 = (x.test (Event.start tt at_) false).1 := by
                          have := hlt i hlt'
                          rw [hx1, hx] at this
                          simp only [Option.map_some, Option.some.injEq, hw, ↓reduceIte] at this
                          exact this
                        have hv1 : View b ((tt, at_) :: stk) x1 := by rw [hx1eq]; exact view_test_start tt at_ hv
                        have hne : i ≠ idx := by omega
                        simp only [hne, false_and, ↓reduceIte] at hin3 hout3 hsh3
                        have hw1 : inWindow start (some (preEnd t idx)) i = true := by
                          rw [inWindow_iff]; exact ⟨hwi'.1, fun n hn => by cases hn; omega⟩
                        have hv3 := hin3 hw1 b hv1
                        have hw2 : inWindow (idx + 1) end_ i = false := by
                          cases hh : inWindow (idx + 1) end_ i with
                          | false => rfl
                          | true => have := (inWindow_iff _ _ _).mp hh; omega
                        have e4 := hout4 hw2
                        have hv4 : View b ((tt, at_) :: stk) x4 := view_congr hsh4.1 e4.1 e4.2 hv3
                        have hr5 : (decide (start ≤ i) && decide (i < idx + 1)) = true := by
                          simp; exact ⟨hwi'.1, by omega⟩
                        simp only [hr5, ↓reduceIte]
                        exact view_test_end hlx4 tt at_ true hv4
                      · -- the template that fired
                        subst heq'
                        have hxt : x = t0 := by rw [hx] at ht0; exact Option.some.inj ht0
                        subst hxt
                        rw [hx1] at heq
                        simp only [Option.some.injEq] at heq
                        have hv1 : View b ((tt, at_) :: stk) x1 := by
                          rw [heq]
                          exact view_congr rfl rfl rfl (view_test_start tt at_ hv)
                        have hv2 : View b ((tt, at_) :: stk) (if i = i ∧ t.once = true then x1.retire else x1) := by
                          split
                          · exact view_retired rfl
                          · exact hv1
                        have hv3 : View b ((tt, at_) :: stk) x3 := by
                          cases hh : inWindow start (some (preEnd t i)) i with
                          | true => exact hin3 hh b hv2
                          | false =>
                            have e3 := hout3 hh
                            exact view_congr hsh3.1 e3.1 e3.2 hv2
                        have hw2 : inWindow (i + 1) end_ i = false := by
                          cases hh : inWindow (i + 1) end_ i with
                          | false => rfl
                          | true => have := (inWindow_iff _ _ _).mp hh; omega
                        have e4 := hout4 hw2
                        have hv4 : View b ((tt, at_) :: stk) x4 := view_congr hsh4.1 e4.1 e4.2 hv3
                        have hr5 : (decide (start ≤ i) && decide (i < i + 1)) = true := by
                          simp; exact hwi'.1
                        simp only [hr5, ↓reduceIte]
                        exact view_test_end hlx4 tt at_ true hv4
                      · -- a later template: sees the body only
                        have hx1eq : x1 = x := by
                          have := hgt i hgt'
                          rw [hx1, hx] at this
                          cases this; rfl
                        have hne : i ≠ idx := by omega
                        simp only [hne, false_and, ↓reduceIte] at hin3 hout3 hsh3
                        have hw1 : inWindow start (some (preEnd t idx)) i = false := by
                          cases hh : inWindow start (some (preEnd t idx)) i with
                          | false => rfl
                          | true => have := ((inWindow_iff _ _ _).mp hh).2 _ rfl; omega
                        have e3 := hout3 hw1
                        have hv3 : View b stk x3 := view_congr hsh3.1 e3.1 e3.2 (by rw [hx1eq]; exact hv)
                        have hw2 : inWindow (idx + 1) end_ i = true := by
                          rw [inWindow_iff]; exact ⟨by omega, hwi'.2⟩
                        have hv4 := hin4 hw2 b hv3
                        have hr5 : (decide (start ≤ i) && decide (i < idx + 1)) = false := by
                          cases hh : (decide (start ≤ i) && decide (i < idx + 1)) with
                          | false => rfl
                          | true => simp at hh; omega
                        simp only [hr5, Bool.false_eq_true, ↓reduceIte]
                        exact hv4
                  · simp [htt] at htr
                | _ => simp [isEnd] at htail
          | _ => simp [isStart] at hS
        · simp only [run, hS, Bool.false_eq_true, ↓reduceIte] at h
          by_cases hE : isEnd e = true
          · simp only [hE, ↓reduceIte] at h
            obtain ⟨q, hr, rfl⟩ := emit_some h
            cases e with
            | end_ tg =>
              simp only [evs_ev, track] at htr
              cases stk with
              | nil => simp at htr
              | cons o stk =>
                simp only at htr
                by_cases ho : tg = o.1
                · subst ho
                  simp only [↓reduceIte] at htr
                  have hl1 := scanEnd_forall static_lawful (Event.end_ o.1) start end_ 0 mts hl
                  have hb1 := scanEnd_forall static_bodyOK (Event.end_ o.1) start end_ 0 mts hb
                  obtain ⟨hlen, hslots⟩ := ih start end_ rest _ q hnr' hl1 hb1 hr _ _ htr
                  have hlen1 := scanEnd_length (Event.end_ o.1) start end_ 0 mts
                  refine ⟨by simp only; omega, ?_⟩
                  intro i x hx
                  have h1 := scanEnd_get (Event.end_ o.1) start end_ 0 mts i
                  simp only [hx, Option.map_some, Nat.zero_add] at h1
                  obtain ⟨x', hx', hsh, hout, hin⟩ := hslots i _ h1
                  refine ⟨x', hx', ?_, ?_, ?_⟩
                  · exact Shape.trans (shape_ite (test_shape x _ _) (Shape.refl x)) hsh
                  · intro hw
                    simp only [hw, Bool.false_eq_true, ↓reduceIte] at hout
                    exact hout trivial
                  · intro hw b hv
                    simp only [hw, ↓reduceIte] at hin
                    exact hin trivial b (view_test_end (hl x (getElem?_mem_of hx)) o.1 o.2 false hv)
                · simp [ho] at htr
            | _ => simp [isEnd] at hE
          · simp only [hE, Bool.false_eq_true, ↓reduceIte] at h
            obtain ⟨q, hr, rfl⟩ := emit_some h
            simp only [evs_ev] at htr
            rw [track_other e (by simpa using hS) (by simpa using hE)] at htr
            exact ih start end_ rest mts q hnr' hl hb hr _ _ htr

end Genshi.Match

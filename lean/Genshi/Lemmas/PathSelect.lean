/-
  `Path.select` emits, for per-event results that are `None` or `True`, exactly
  the outermost marked nodes of the tree with their subtrees (`Ref.pick`).
-/
import Genshi.Lemmas.PathXp
namespace Genshi.Path
open Genshi Genshi.Path.Ref

/-- `Path.select` as a function of the per-event results -/
def emitV : Nat → List Event → List Val → List Item
  | _, [], _ => []
  | _, _, [] => []
  | depth, e :: es, v :: vs =>
      if depth > 0 then
        .ev e :: emitV (if e.isStart then depth + 1 else if e.isEnd then depth - 1 else depth) es vs
      else if v == .bool true then .ev e :: emitV (if e.isStart then 1 else 0) es vs
      else if v.truthy then itemOf v e :: emitV 0 es vs
      else emitV 0 es vs

theorem selectGo_eq_emitV (ms : List Matcher) (ns : NsMap) (vs : Vars) :
    ∀ (es : List Event) (sts : List MState) (depth : Nat),
      selectGo ms ns vs sts depth es = emitV depth es (runTest ms ns vs sts es) := by
  intro es
  induction es with
  | nil => intro sts depth; simp [selectGo, emitV]
  | cons e es ih =>
    intro sts depth
    simp only [selectGo, runTest, emitV]
    split
    · rw [ih]
    · split
      · rw [ih]
      · split
        · rw [ih]
        · rw [ih]

/-! ## Inside a matched subtree everything is copied -/

mutual
  theorem emitV_copy : ∀ (n : Node), n.ok = true → ∀ (d : Nat), 1 ≤ d → ∀ (v1 : List Val), v1.length = n.flatten.length →
      ∀ (es : List Event) (vs : List Val),
        emitV d (n.flatten ++ es) (v1 ++ vs) = n.flatten.map Item.ev ++ emitV d es vs
    | .elem t a ks, hok, d, hd, v1, hlen, es, vs => by
        simp only [Node.flatten, List.length_cons, List.length_append, List.length_nil] at hlen
        cases v1 with
        | nil => simp at hlen
        | cons v v1' =>
          have hsplit : ∃ vk ve, v1' = vk ++ [ve] ∧ vk.length = (flattenList ks).length := by
            have hl : v1'.length = (flattenList ks).length + 1 := by simpa using hlen
            refine ⟨v1'.dropLast, v1'.getLast (by intro h; simp [h] at hl), ?_, by simp [hl]⟩
            exact (List.dropLast_concat_getLast _).symm
          obtain ⟨vk, ve, rfl, hvk⟩ := hsplit
          have hd0 : d > 0 := hd
          simp only [Node.flatten, List.cons_append, List.append_assoc, emitV, hd0, if_true, Event.isStart,
            List.map_cons, List.map_append, List.map_nil]
          rw [emitV_copyList ks (by simpa [Node.ok] using hok) (d + 1) (by omega) vk hvk]
          simp [emitV, Event.isStart, Event.isEnd]
    | .leaf e, hok, d, hd, v1, hlen, es, vs => by
        simp only [Node.flatten, List.length_cons, List.length_nil] at hlen
        cases v1 with
        | nil => simp at hlen
        | cons v v1' =>
          have : v1' = [] := by cases v1' <;> simp_all
          subst this
          have hd0 : d > 0 := hd
          have hse : e.isStart = false ∧ e.isEnd = false := by
            have : e.isStartEnd = false := by simpa [Node.ok] using hok
            cases e <;> simp_all [Event.isStartEnd, Event.isStart, Event.isEnd]
          simp [Node.flatten, emitV, hd0, hse.1, hse.2]
  theorem emitV_copyList : ∀ (ks : List Node), okList ks = true → ∀ (d : Nat), 1 ≤ d → ∀ (v1 : List Val),
      v1.length = (flattenList ks).length → ∀ (es : List Event) (vs : List Val),
        emitV d (flattenList ks ++ es) (v1 ++ vs) = (flattenList ks).map Item.ev ++ emitV d es vs
    | [], _, d, _, v1, hlen, es, vs => by
        have : v1 = [] := by cases v1 <;> simp_all [Genshi.flattenList]
        subst this; simp [Genshi.flattenList]
    | k :: ks, hok, d, hd, v1, hlen, es, vs => by
        simp only [okList, Bool.and_eq_true] at hok
        simp only [Genshi.flattenList, List.length_append] at hlen
        have hsplit : ∃ va vb, v1 = va ++ vb ∧ va.length = k.flatten.length ∧ vb.length = (flattenList ks).length :=
          ⟨v1.take k.flatten.length, v1.drop k.flatten.length, by simp, by simp; omega, by simp; omega⟩
        obtain ⟨va, vb, rfl, hva, hvb⟩ := hsplit
        simp only [Genshi.flattenList, List.append_assoc, List.map_append]
        rw [emitV_copy k hok.1 d hd va hva, emitV_copyList ks hok.2 d hd vb hvb]
end

/-! ## The skipping depth after a stretch of events -/

def emitDepth : Nat → List Event → List Val → Nat
  | d, [], _ => d
  | d, _, [] => d
  | depth, e :: es, v :: vs =>
      if depth > 0 then
        emitDepth (if e.isStart then depth + 1 else if e.isEnd then depth - 1 else depth) es vs
      else if v == .bool true then emitDepth (if e.isStart then 1 else 0) es vs
      else emitDepth 0 es vs

theorem emitV_append (a : List Event) : ∀ (d : Nat) (va : List Val), va.length = a.length →
    ∀ (b : List Event) (vb : List Val),
      emitV d (a ++ b) (va ++ vb) = emitV d a va ++ emitV (emitDepth d a va) b vb := by
  induction a with
  | nil => intro d va h b vb; cases va <;> simp_all [emitV, emitDepth]
  | cons e a ih =>
    intro d va h b vb
    cases va with
    | nil => simp at h
    | cons v va =>
      have h' : va.length = a.length := by simpa using h
      simp only [List.cons_append, emitV, emitDepth]
      split
      · rw [ih _ va h']; simp
      · split
        · rw [ih _ va h']; simp
        · split
          · rw [ih _ va h']; simp
          · rw [ih _ va h']

theorem emitDepth_append (a : List Event) : ∀ (d : Nat) (va : List Val), va.length = a.length →
    ∀ (b : List Event) (vb : List Val),
      emitDepth d (a ++ b) (va ++ vb) = emitDepth (emitDepth d a va) b vb := by
  induction a with
  | nil => intro d va h b vb; cases va <;> simp_all [emitDepth]
  | cons e a ih =>
    intro d va h b vb
    cases va with
    | nil => simp at h
    | cons v va =>
      have h' : va.length = a.length := by simpa using h
      simp only [List.cons_append, emitDepth]
      split
      · rw [ih _ va h']
      · split <;> rw [ih _ va h']

mutual
  theorem emitDepth_copy : ∀ (n : Node), n.ok = true → ∀ (d : Nat), 1 ≤ d → ∀ (v1 : List Val),
      v1.length = n.flatten.length → emitDepth d n.flatten v1 = d
    | .elem t a ks, hok, d, hd, v1, hlen => by
        simp only [Node.flatten, List.length_cons, List.length_append, List.length_nil] at hlen
        cases v1 with
        | nil => simp at hlen
        | cons v v1' =>
          have hl : v1'.length = (flattenList ks).length + 1 := by simpa using hlen
          obtain ⟨vk, ve, rfl, hvk⟩ : ∃ vk ve, v1' = vk ++ [ve] ∧ vk.length = (flattenList ks).length :=
            ⟨v1'.dropLast, v1'.getLast (by intro h; simp [h] at hl),
             (List.dropLast_concat_getLast _).symm, by simp [hl]⟩
          have hd0 : d > 0 := hd
          simp only [Node.flatten, emitDepth, hd0, if_true, Event.isStart]
          rw [emitDepth_append _ _ vk hvk, emitDepth_copyList ks (by simpa [Node.ok] using hok) (d + 1) (by omega) vk hvk]
          simp [emitDepth, Event.isStart, Event.isEnd]
    | .leaf e, hok, d, hd, v1, hlen => by
        simp only [Node.flatten, List.length_cons, List.length_nil] at hlen
        cases v1 with
        | nil => simp at hlen
        | cons v v1' =>
          have : v1' = [] := by cases v1' <;> simp_all
          subst this
          have hd0 : d > 0 := hd
          have hse : e.isStart = false ∧ e.isEnd = false := by
            have : e.isStartEnd = false := by simpa [Node.ok] using hok
            cases e <;> simp_all [Event.isStartEnd, Event.isStart, Event.isEnd]
          simp [Node.flatten, emitDepth, hd0, hse.1, hse.2]
  theorem emitDepth_copyList : ∀ (ks : List Node), okList ks = true → ∀ (d : Nat), 1 ≤ d → ∀ (v1 : List Val),
      v1.length = (flattenList ks).length → emitDepth d (flattenList ks) v1 = d
    | [], _, d, _, v1, hlen => by
        have : v1 = [] := by cases v1 <;> simp_all [Genshi.flattenList]
        subst this; simp [Genshi.flattenList, emitDepth]
    | k :: ks, hok, d, hd, v1, hlen => by
        simp only [okList, Bool.and_eq_true] at hok
        simp only [Genshi.flattenList, List.length_append] at hlen
        obtain ⟨va, vb, rfl, hva, hvb⟩ : ∃ va vb, v1 = va ++ vb ∧ va.length = k.flatten.length ∧
            vb.length = (flattenList ks).length :=
          ⟨v1.take k.flatten.length, v1.drop k.flatten.length, by simp, by simp; omega, by simp; omega⟩
        simp only [Genshi.flattenList]
        rw [emitDepth_append _ _ va hva, emitDepth_copy k hok.1 d hd va hva, emitDepth_copyList ks hok.2 d hd vb hvb]
end

mutual
  theorem emitDepth_zero : ∀ (n : Node), n.ok = true → ∀ (v1 : List Val),
      v1.length = n.flatten.length → emitDepth 0 n.flatten v1 = 0
    | .elem t a ks, hok, v1, hlen => by
        simp only [Node.flatten, List.length_cons, List.length_append, List.length_nil] at hlen
        cases v1 with
        | nil => simp at hlen
        | cons v v1' =>
          have hl : v1'.length = (flattenList ks).length + 1 := by simpa using hlen
          obtain ⟨vk, ve, rfl, hvk⟩ : ∃ vk ve, v1' = vk ++ [ve] ∧ vk.length = (flattenList ks).length :=
            ⟨v1'.dropLast, v1'.getLast (by intro h; simp [h] at hl),
             (List.dropLast_concat_getLast _).symm, by simp [hl]⟩
          simp only [Node.flatten, emitDepth, Nat.lt_irrefl, if_false, Event.isStart, if_true]
          split
          · rw [emitDepth_append _ _ vk hvk,
                emitDepth_copyList ks (by simpa [Node.ok] using hok) 1 (Nat.le_refl _) vk hvk]
            simp [emitDepth, Event.isStart, Event.isEnd]
          · rw [emitDepth_append _ _ vk hvk, emitDepth_zeroList ks (by simpa [Node.ok] using hok) vk hvk]
            simp only [emitDepth, Nat.lt_irrefl, if_false, Event.isStart]
            split <;> simp
    | .leaf e, hok, v1, hlen => by
        simp only [Node.flatten, List.length_cons, List.length_nil] at hlen
        cases v1 with
        | nil => simp at hlen
        | cons v v1' =>
          have : v1' = [] := by cases v1' <;> simp_all
          subst this
          have hse : e.isStart = false := by
            have : e.isStartEnd = false := by simpa [Node.ok] using hok
            cases e <;> simp_all [Event.isStartEnd, Event.isStart]
          simp only [Node.flatten, emitDepth, Nat.lt_irrefl, if_false, hse]
          split <;> simp
  theorem emitDepth_zeroList : ∀ (ks : List Node), okList ks = true → ∀ (v1 : List Val),
      v1.length = (flattenList ks).length → emitDepth 0 (flattenList ks) v1 = 0
    | [], _, v1, hlen => by
        have : v1 = [] := by cases v1 <;> simp_all [Genshi.flattenList]
        subst this; simp [Genshi.flattenList, emitDepth]
    | k :: ks, hok, v1, hlen => by
        simp only [okList, Bool.and_eq_true] at hok
        simp only [Genshi.flattenList, List.length_append] at hlen
        obtain ⟨va, vb, rfl, hva, hvb⟩ : ∃ va vb, v1 = va ++ vb ∧ va.length = k.flatten.length ∧
            vb.length = (flattenList ks).length :=
          ⟨v1.take k.flatten.length, v1.drop k.flatten.length, by simp, by simp; omega, by simp; omega⟩
        simp only [Genshi.flattenList]
        rw [emitDepth_append _ _ va hva, emitDepth_zero k hok.1 va hva, emitDepth_zeroList ks hok.2 vb hvb]
end

/-! ## Locations -/

def under (pre : List Nat) (m : LNode) : Prop := ∃ r, m.loc = pre ++ r
def underFrom (pre : List Nat) (i : Nat) (m : LNode) : Prop := ∃ j r, i ≤ j ∧ m.loc = pre ++ j :: r

theorem underFrom_under {pre : List Nat} {i : Nat} {m : LNode} (h : underFrom pre i m) : under pre m := by
  obtain ⟨j, r, _, h⟩ := h; exact ⟨j :: r, h⟩

theorem under_snoc {pre : List Nat} {i : Nat} {m : LNode} (h : under (pre ++ [i]) m) : underFrom pre i m := by
  obtain ⟨r, h⟩ := h; exact ⟨i, r, Nat.le_refl _, by simpa using h⟩

theorem underFrom_mono {pre : List Nat} {i i' : Nat} {m : LNode} (h : underFrom pre i' m) (hi : i ≤ i') :
    underFrom pre i m := by
  obtain ⟨j, r, hj, h⟩ := h; exact ⟨j, r, by omega, h⟩

mutual
  theorem eventLocs_under : ∀ (n : Node) (loc : List Nat) (m : LNode), some m ∈ eventLocs n loc → under loc m
    | .elem t a ks, loc, m, h => by
        simp only [eventLocs, List.mem_cons, List.mem_append, Option.some.injEq] at h
        rcases h with h | h | h
        · exact ⟨[], by simp [h]⟩
        · exact underFrom_under (eventLocsList_under ks loc 0 m h)
        · simp at h
    | .leaf e, loc, m, h => by
        simp only [eventLocs, List.mem_singleton, Option.some.injEq] at h
        exact ⟨[], by simp [h]⟩
  theorem eventLocsList_under : ∀ (ks : List Node) (loc : List Nat) (i : Nat) (m : LNode),
      some m ∈ eventLocsList ks loc i → underFrom loc i m
    | [], _, _, _, h => by simp [eventLocsList] at h
    | k :: ks, loc, i, m, h => by
        simp only [eventLocsList, List.mem_append] at h
        rcases h with h | h
        · exact under_snoc (eventLocs_under k (loc ++ [i]) m h)
        · exact underFrom_mono (eventLocsList_under ks loc (i + 1) m h) (Nat.le_succ _)
end

theorem matched_mem (vals : List Val) (locs : List (Option LNode)) (m : LNode) :
    m ∈ matched vals locs → some m ∈ locs := by
  induction vals generalizing locs with
  | nil => simp [matched]
  | cons v vs ih =>
    cases locs with
    | nil => simp [matched]
    | cons l ls =>
      simp only [matched, List.mem_append]
      intro h
      rcases h with h | h
      · split at h
        · cases l <;> simp_all [Option.toList]
        · simp at h
      · exact List.mem_cons_of_mem _ (ih ls h)

mutual
  theorem pick_congr (sel sel' : LNode → Bool) (asel : LNode → AttrList) :
      ∀ (n : Node) (loc : List Nat), (∀ m, under loc m → sel m = sel' m) → pick sel asel n loc = pick sel' asel n loc
    | .elem t a ks, loc, h => by
        simp only [pick, h ⟨loc, .elem t a ks⟩ ⟨[], by simp⟩]
        rw [pickList_congr sel sel' asel ks loc 0 (fun m hm => h m (underFrom_under hm))]
    | .leaf e, loc, h => by simp only [pick, h ⟨loc, .leaf e⟩ ⟨[], by simp⟩]
  theorem pickList_congr (sel sel' : LNode → Bool) (asel : LNode → AttrList) :
      ∀ (ks : List Node) (loc : List Nat) (i : Nat), (∀ m, underFrom loc i m → sel m = sel' m) →
        pickList sel asel ks loc i = pickList sel' asel ks loc i
    | [], _, _, _ => by simp [pickList]
    | k :: ks, loc, i, h => by
        simp only [pickList]
        rw [pick_congr sel sel' asel k (loc ++ [i]) (fun m hm => h m (under_snoc hm)),
            pickList_congr sel sel' asel ks loc (i + 1) (fun m hm => h m (underFrom_mono hm (Nat.le_succ _)))]
end

/-! ## `select` = the outermost marked nodes -/

/-- per-event results that are `None` or — at the event of a node — `True` -/
def okVals : List Val → List (Option LNode) → Prop
  | [], [] => True
  | v :: vs, l :: ls => (v = .none ∨ (v = .bool true ∧ l.isSome = true)) ∧ okVals vs ls
  | _, _ => False

theorem okVals_length : ∀ (vs : List Val) (ls : List (Option LNode)), okVals vs ls → vs.length = ls.length
  | [], [], _ => rfl
  | _ :: vs, _ :: ls, h => by simp [okVals_length vs ls h.2]
  | [], _ :: _, h => by simp [okVals] at h
  | _ :: _, [], h => by simp [okVals] at h

theorem okVals_append : ∀ (v1 v2 : List Val) (l1 l2 : List (Option LNode)), v1.length = l1.length →
    (okVals (v1 ++ v2) (l1 ++ l2) ↔ okVals v1 l1 ∧ okVals v2 l2)
  | [], v2, [], l2, _ => by simp [okVals]
  | v :: v1, v2, l :: l1, l2, h => by
      simp only [List.cons_append, okVals]
      rw [okVals_append v1 v2 l1 l2 (by simpa using h)]
      exact and_assoc.symm
  | [], _, _ :: _, _, h => by simp at h
  | _ :: _, _, [], _, h => by simp at h

/-- membership of a location among the matched nodes -/
def selOf (vals : List Val) (locs : List (Option LNode)) (m : LNode) : Bool :=
  ((matched vals locs).map (·.loc)).contains m.loc

theorem loc_ne_of_underFrom {pre : List Nat} {i : Nat} {m : LNode} (h : underFrom pre i m) : m.loc ≠ pre := by
  obtain ⟨j, r, _, h⟩ := h
  intro he
  have : (pre ++ j :: r).length = pre.length := by rw [← h, he]
  simp at this

theorem underFrom_disjoint {pre : List Nat} {i : Nat} {m m' : LNode}
    (h : under (pre ++ [i]) m) (h' : underFrom pre (i + 1) m') : m.loc ≠ m'.loc := by
  obtain ⟨r, h⟩ := h
  obtain ⟨j, r', hj, h'⟩ := h'
  intro he
  rw [h, h'] at he
  simp at he
  omega

mutual
  theorem emitV_pick : ∀ (n : Node), n.ok = true → ∀ (loc : List Nat) (vals : List Val),
      okVals vals (eventLocs n loc) →
      emitV 0 n.flatten vals = pick (selOf vals (eventLocs n loc)) (fun _ => []) n loc
    | .elem t a ks, hok, loc, vals, hv => by
        have hlen := okVals_length _ _ hv
        simp only [eventLocs] at hv hlen
        cases vals with
        | nil => simp [okVals] at hv
        | cons v vals' =>
          simp only [okVals] at hv
          obtain ⟨hv0, hrest⟩ := hv
          have hl : vals'.length = (eventLocsList ks loc 0).length + 1 := by simpa using hlen
          obtain ⟨vk, ve, rfl, hvk⟩ : ∃ vk ve, vals' = vk ++ [ve] ∧ vk.length = (eventLocsList ks loc 0).length :=
            ⟨vals'.dropLast, vals'.getLast (by intro h; simp [h] at hl),
             (List.dropLast_concat_getLast _).symm, by simp [hl]⟩
          rw [okVals_append vk [ve] _ [none] hvk] at hrest
          obtain ⟨hkids, hend⟩ := hrest
          have hve : ve = .none := by
            simp only [okVals] at hend
            rcases hend.1 with h | ⟨_, h⟩
            · exact h
            · simp at h
          subst hve
          have hkf : vk.length = (flattenList ks).length := by rw [hvk, eventLocsList_length]
          rcases hv0 with hv0 | ⟨hv0, _⟩
          · -- not matched: descend
            subst hv0
            have hself : selOf (Val.none :: (vk ++ [Val.none])) (eventLocs (.elem t a ks) loc) ⟨loc, .elem t a ks⟩ = false := by
              simp only [selOf, eventLocs, matched, Val.truthy, Bool.false_eq_true, if_false, List.nil_append]
              rw [matched_append vk [Val.none] _ [none] hvk]
              simp only [matched, Val.truthy, Bool.false_eq_true, if_false, List.append_nil]
              rw [List.contains_eq_mem, decide_eq_false_iff_not]
              intro hmem
              obtain ⟨m, hm, hml⟩ := List.mem_map.mp hmem
              exact loc_ne_of_underFrom (eventLocsList_under ks loc 0 m (matched_mem _ _ m hm)) hml
            simp only [Node.flatten, emitV, Nat.lt_irrefl, if_false, Val.truthy, Bool.false_eq_true,
              pick, hself, List.isEmpty_nil, if_true, List.nil_append]
            have : (Val.none == Val.bool true) = false := rfl
            simp only [this, Bool.false_eq_true, if_false]
            -- the kids, then END
            have hk := emitV_pickList ks (by simpa [Node.ok] using hok) loc 0 vk hkids
            have happ : emitV 0 (flattenList ks ++ [Event.end_ t]) (vk ++ [Val.none])
                = emitV 0 (flattenList ks) vk := by
              rw [emitV_append _ _ vk hkf, emitDepth_zeroList ks (by simpa [Node.ok] using hok) vk hkf]
              have : (Val.none == Val.bool true) = false := rfl
              simp [emitV, Val.truthy, this]
            rw [happ, hk]
            apply pickList_congr
            intro m hm
            simp only [selOf, eventLocs, matched, Val.truthy, Bool.false_eq_true, if_false, List.nil_append]
            rw [matched_append vk [Val.none] _ [none] hvk]
            simp [matched, Val.truthy]
          · -- matched: the whole subtree
            subst hv0
            have hself : selOf (Val.bool true :: (vk ++ [Val.none])) (eventLocs (.elem t a ks) loc) ⟨loc, .elem t a ks⟩ = true := by
              simp [selOf, eventLocs, matched, Val.truthy, Option.toList]
            simp only [pick, hself, if_true, Node.flatten, emitV, Nat.lt_irrefl, if_false, beq_self_eq_true,
              Event.isStart, List.map_cons, List.map_append, List.map_nil]
            rw [emitV_copyList ks (by simpa [Node.ok] using hok) 1 (Nat.le_refl _) vk hkf]
            simp [emitV, Event.isStart, Event.isEnd]
    | .leaf e, hok, loc, vals, hv => by
        have hlen := okVals_length _ _ hv
        simp only [eventLocs] at hv hlen
        cases vals with
        | nil => simp [okVals] at hv
        | cons v vals' =>
          have : vals' = [] := by cases vals' <;> simp_all
          subst this
          simp only [okVals] at hv
          have hse : e.isStart = false := by
            have : e.isStartEnd = false := by simpa [Node.ok] using hok
            cases e <;> simp_all [Event.isStartEnd, Event.isStart]
          rcases hv.1 with h | ⟨h, _⟩
          · subst h
            have : (Val.none == Val.bool true) = false := rfl
            simp [Node.flatten, emitV, pick, selOf, eventLocs, matched, Val.truthy, this]
          · subst h
            simp [Node.flatten, emitV, pick, selOf, eventLocs, matched, Val.truthy, Option.toList, hse]
  theorem emitV_pickList : ∀ (ks : List Node), okList ks = true → ∀ (loc : List Nat) (i : Nat) (vals : List Val),
      okVals vals (eventLocsList ks loc i) →
      emitV 0 (flattenList ks) vals = pickList (selOf vals (eventLocsList ks loc i)) (fun _ => []) ks loc i
    | [], _, loc, i, vals, hv => by
        have := okVals_length _ _ hv
        simp only [eventLocsList, List.length_nil] at this
        have : vals = [] := by cases vals <;> simp_all
        subst this; simp [Genshi.flattenList, emitV, pickList]
    | k :: ks, hok, loc, i, vals, hv => by
        simp only [okList, Bool.and_eq_true] at hok
        have hlen := okVals_length _ _ hv
        simp only [eventLocsList, List.length_append] at hlen
        obtain ⟨va, vb, rfl, hva⟩ : ∃ va vb, vals = va ++ vb ∧ va.length = (eventLocs k (loc ++ [i])).length :=
          ⟨vals.take (eventLocs k (loc ++ [i])).length, vals.drop (eventLocs k (loc ++ [i])).length, by simp,
           by simp; omega⟩
        simp only [eventLocsList] at hv
        rw [okVals_append va vb _ _ hva] at hv
        have h1 := emitV_pick k hok.1 (loc ++ [i]) va hv.1
        have h2 := emitV_pickList ks hok.2 loc (i + 1) vb hv.2
        have hvaf : va.length = k.flatten.length := by rw [hva, eventLocs_length]
        simp only [Genshi.flattenList, pickList, eventLocsList]
        rw [emitV_append _ _ va hvaf, emitDepth_zero k hok.1 va hvaf, h1, h2]
        congr 1
        · apply pick_congr
          intro m hm
          simp only [selOf]
          rw [matched_append va vb _ _ hva, List.map_append, List.contains_eq_mem, List.contains_eq_mem]
          simp only [List.mem_append, decide_eq_decide]
          constructor
          · intro h; exact Or.inl h
          · intro h
            rcases h with h | h
            · exact h
            · obtain ⟨m', hm', hml⟩ := List.mem_map.mp h
              exact absurd hml.symm
                (underFrom_disjoint hm (eventLocsList_under ks loc (i + 1) m' (matched_mem _ _ m' hm')))
        · apply pickList_congr
          intro m hm
          simp only [selOf]
          rw [matched_append va vb _ _ hva, List.map_append, List.contains_eq_mem, List.contains_eq_mem]
          simp only [List.mem_append, decide_eq_decide]
          constructor
          · intro h; exact Or.inr h
          · intro h
            rcases h with h | h
            · obtain ⟨m', hm', hml⟩ := List.mem_map.mp h
              exact absurd hml
                (underFrom_disjoint (eventLocs_under k (loc ++ [i]) m' (matched_mem _ _ m' hm')) hm)
            · exact h
end

/-! ## Assembly for a single step -/

mutual
  theorem okVals_run {σ : Type} (step : σ → Event → σ × Val)
      (hstep : ∀ st e, (step st e).2 = .none ∨ ((step st e).2 = .bool true ∧ e.isEnd = false)) :
      ∀ (n : Node) (loc : List Nat) (st : σ), okVals (runOne step st n.flatten).1 (eventLocs n loc)
    | .elem t a ks, loc, st => by
        simp only [Node.flatten, eventLocs, runOne_cons, runOne_append, okVals]
        refine ⟨?_, ?_⟩
        · rcases hstep st (.start t a) with h | ⟨h, _⟩
          · exact Or.inl h
          · exact Or.inr ⟨h, rfl⟩
        · rw [okVals_append _ _ _ _ (by rw [runOne_length, eventLocsList_length])]
          refine ⟨okVals_runList step hstep ks loc 0 _, ?_⟩
          simp only [runOne, okVals, and_true]
          rcases hstep (runOne step (step st (.start t a)).1 (flattenList ks)).2 (.end_ t) with h | ⟨_, h⟩
          · exact Or.inl h
          · simp [Event.isEnd] at h
    | .leaf e, loc, st => by
        simp only [Node.flatten, eventLocs, runOne, okVals, and_true]
        rcases hstep st e with h | ⟨h, _⟩
        · exact Or.inl h
        · exact Or.inr ⟨h, rfl⟩
  theorem okVals_runList {σ : Type} (step : σ → Event → σ × Val)
      (hstep : ∀ st e, (step st e).2 = .none ∨ ((step st e).2 = .bool true ∧ e.isEnd = false)) :
      ∀ (ks : List Node) (loc : List Nat) (i : Nat) (st : σ),
        okVals (runOne step st (flattenList ks)).1 (eventLocsList ks loc i)
    | [], _, _, _ => by simp [Genshi.flattenList, eventLocsList, runOne, okVals]
    | k :: ks, loc, i, st => by
        simp only [Genshi.flattenList, eventLocsList, runOne_append]
        rw [okVals_append _ _ _ _ (by rw [runOne_length, eventLocs_length])]
        exact ⟨okVals_run step hstep k (loc ++ [i]) st, okVals_runList step hstep ks loc (i + 1) _⟩
end

theorem sStep_out (s : Step) (hna : s.axis ≠ .attribute) (ns : NsMap) (vs : Vars) (st : SState) (e : Event) :
    (sStep [s] false ns vs st e).2 = .none ∨ ((sStep [s] false ns vs st e).2 = .bool true ∧ e.isEnd = false) := by
  have hna' : (s.axis == Axis.attribute) = false := by simpa using hna
  by_cases he : e.isEnd = true
  · left; simp [sStep, he]
  · by_cases hm : e.isNsOrCdata = true
    · left; simp [sStep, he, hm]
    · have he' : e.isEnd = false := by simpa using he
      rw [sStep_run [s] s s rfl rfl false ns vs st e he' (by simpa using hm)]
      simp only [hna', Bool.false_eq_true, if_false]
      split
      · exact Or.inl rfl
      · split
        · exact Or.inl rfl
        · split
          · exact Or.inl rfl
          · exact Or.inr ⟨rfl, he'⟩

theorem contains_map_loc (L : List LNode) (x : List Nat) :
    (L.map (·.loc)).contains x = L.any fun m => m.loc == x := by
  induction L with
  | nil => rfl
  | cons m L ih =>
    rw [List.map_cons, List.contains_cons, List.any_cons, ih]
    congr 1
    by_cases h : x = m.loc
    · subst h; simp
    · have h' : ¬ m.loc = x := fun h'' => h h''.symm
      have e1 : (x == m.loc) = false := by simpa using h
      have e2 : (m.loc == x) = false := by simpa using h'
      rw [e1, e2]

end Genshi.Path

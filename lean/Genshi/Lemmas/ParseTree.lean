/-
  C07 — `_coalesce` seen on trees: coalescing the flattening of a forest is flattening the
  forest in which every maximal run of adjacent text leaves has become one text leaf.
-/
import Genshi.Lemmas.Parse
namespace Genshi.Parse
open Genshi

def flushLeaf : Option Str → List Node
  | some b => [.leaf (.text b false)]
  | none => []

mutual
  /-- merge runs of text leaves of one node; `buf` is text collected to the left of the node;
      returns the finished nodes and the text still open at the right end -/
  def mergeNodeK : Option Str → Node → List Node × Option Str
    | buf, .leaf e =>
      match e with
      | .text s _ => ([], some (buf.getD [] ++ s))
      | e => (flushLeaf buf ++ [.leaf e], none)
    | buf, .elem t a ks =>
      let k := mergeK none ks
      (flushLeaf buf ++ [.elem t a (k.1 ++ flushLeaf k.2)], none)
  def mergeK : Option Str → List Node → List Node × Option Str
    | buf, [] => ([], buf)
    | buf, n :: ns =>
      let r := mergeNodeK buf n
      let r' := mergeK r.2 ns
      (r.1 ++ r'.1, r'.2)
end

/-- the forest with adjacent character data merged, at every level -/
def mergeForest (ns : List Node) : List Node :=
  let r := mergeK none ns
  r.1 ++ flushLeaf r.2

theorem flattenList_append' : ∀ (a b : List Node), flattenList (a ++ b) = flattenList a ++ flattenList b
  | [], b => by simp [flattenList]
  | n :: a, b => by simp [flattenList, flattenList_append' a b]

theorem flattenList_flushLeaf (buf : Option Str) : flattenList (flushLeaf buf) = flushBuf buf := by
  cases buf <;> simp [flushLeaf, flushBuf, flattenList, Node.flatten]

theorem coalesceGo_flush_nil (buf : Option Str) : coalesceGo true buf [] = flushBuf buf := by
  simp [coalesceGo]

mutual
  theorem coalesceGo_flatten_node : ∀ (n : Node) (buf : Option Str) (rest : Stream),
      coalesceGo true buf (n.flatten ++ rest) =
        flattenList (mergeNodeK buf n).1 ++ coalesceGo true (mergeNodeK buf n).2 rest
    | .leaf e, buf, rest => by
        by_cases ht : isText e = true
        · obtain ⟨s, b, rfl⟩ := (isText_iff e).1 ht
          simp [Node.flatten, mergeNodeK, coalesceGo_text, flattenList]
        · have h' : isText e = false := by simpa using ht
          have hm : mergeNodeK buf (.leaf e) = (flushLeaf buf ++ [.leaf e], none) := by
            cases e <;> simp_all [mergeNodeK, isText]
          rw [hm]
          simp only [Node.flatten, List.cons_append, List.nil_append]
          rw [coalesceGo_nontext true buf e rest h', flattenList_append', flattenList_flushLeaf]
          simp [flattenList, Node.flatten]
    | .elem t a ks, buf, rest => by
        simp only [Node.flatten, mergeNodeK, List.cons_append, List.append_assoc]
        rw [coalesceGo_nontext true buf _ _ rfl]
        simp only [List.nil_append]
        rw [coalesceGo_flatten_list ks none (.end_ t :: rest)]
        rw [coalesceGo_nontext true _ (.end_ t) rest rfl]
        simp only [flattenList_append', flattenList_flushLeaf, flattenList, Node.flatten, List.append_assoc,
          List.cons_append, List.nil_append, List.append_nil]
  theorem coalesceGo_flatten_list : ∀ (ns : List Node) (buf : Option Str) (rest : Stream),
      coalesceGo true buf (flattenList ns ++ rest) =
        flattenList (mergeK buf ns).1 ++ coalesceGo true (mergeK buf ns).2 rest
    | [], buf, rest => by simp [flattenList, mergeK]
    | n :: ns, buf, rest => by
        simp only [flattenList, mergeK, List.append_assoc]
        rw [coalesceGo_flatten_node n buf (flattenList ns ++ rest),
            coalesceGo_flatten_list ns _ rest, flattenList_append', List.append_assoc]
end

/-- `_coalesce` of a flattened forest is the flattening of the merged forest -/
theorem coalesce_flattenList (ns : List Node) : coalesce (flattenList ns) = flattenList (mergeForest ns) := by
  have := coalesceGo_flatten_list ns none []
  simp only [List.append_nil, coalesceGo_flush_nil] at this
  unfold coalesce mergeForest
  rw [this, flattenList_append', flattenList_flushLeaf]

/-! ### the events determine the tree: `flattenList` is injective on well-formed forests -/

theorem flatten_head_elem (t : QName) (a : AttrList) (ks : List Node) (rest : Stream) :
    (Node.elem t a ks).flatten ++ rest = .start t a :: (flattenList ks ++ .end_ t :: rest) := by
  simp [Node.flatten]

/-- the first event of the flattening of a well-formed node is never an END -/
theorem flatten_head_not_end (n : Node) (h : n.ok = true) (rest : Stream) (t : QName) (r : Stream) :
    n.flatten ++ rest ≠ .end_ t :: r := by
  cases n with
  | elem t' a ks => simp [Node.flatten]
  | leaf e =>
    simp only [Node.ok, Bool.not_eq_true'] at h
    cases e <;> simp_all [Node.flatten, Event.isStartEnd]

mutual
  theorem flatten_inj_node : ∀ (n m : Node) (r1 r2 : Stream), n.ok = true → m.ok = true →
      n.flatten ++ r1 = m.flatten ++ r2 → n = m ∧ r1 = r2
    | .leaf e, .leaf e', r1, r2, _, _, h => by
        simp only [Node.flatten, List.cons_append, List.nil_append, List.cons.injEq] at h
        exact ⟨by rw [h.1], h.2⟩
    | .leaf e, .elem t a ks, r1, r2, hn, _, h => by
        simp only [Node.ok, Bool.not_eq_true'] at hn
        simp only [Node.flatten, List.cons_append, List.nil_append, List.cons.injEq] at h
        rw [h.1] at hn; simp [Event.isStartEnd] at hn
    | .elem t a ks, .leaf e, r1, r2, _, hm, h => by
        simp only [Node.ok, Bool.not_eq_true'] at hm
        simp only [Node.flatten, List.cons_append, List.nil_append, List.cons.injEq] at h
        rw [← h.1] at hm; simp [Event.isStartEnd] at hm
    | .elem t a ks, .elem t' a' ks', r1, r2, hn, hm, h => by
        rw [flatten_head_elem, flatten_head_elem] at h
        simp only [List.cons.injEq, Event.start.injEq] at h
        obtain ⟨⟨rfl, rfl⟩, h2⟩ := h
        simp only [Node.ok] at hn hm
        obtain ⟨hk, ht, hr⟩ := flatten_inj_list ks ks' t t r1 r2 hn hm h2
        exact ⟨by rw [hk], hr⟩
  theorem flatten_inj_list : ∀ (ks ks' : List Node) (t t' : QName) (r1 r2 : Stream),
      okList ks = true → okList ks' = true →
      flattenList ks ++ .end_ t :: r1 = flattenList ks' ++ .end_ t' :: r2 → ks = ks' ∧ t = t' ∧ r1 = r2
    | [], [], t, t', r1, r2, _, _, h => by
        simp only [flattenList, List.nil_append, List.cons.injEq, Event.end_.injEq] at h
        exact ⟨rfl, h.1, h.2⟩
    | [], k' :: ks', t, t', r1, r2, _, hk', h => by
        simp only [okList, Bool.and_eq_true] at hk'
        simp only [flattenList, List.nil_append, List.append_assoc] at h
        exact absurd h.symm (flatten_head_not_end k' hk'.1 _ t r1)
    | k :: ks, [], t, t', r1, r2, hk, _, h => by
        simp only [okList, Bool.and_eq_true] at hk
        simp only [flattenList, List.nil_append, List.append_assoc] at h
        exact absurd h (flatten_head_not_end k hk.1 _ t' r2)
    | k :: ks, k' :: ks', t, t', r1, r2, hk, hk', h => by
        simp only [okList, Bool.and_eq_true] at hk hk'
        simp only [flattenList, List.append_assoc] at h
        obtain ⟨e1, e2⟩ := flatten_inj_node k k' _ _ hk.1 hk'.1 h
        obtain ⟨e3, e4, e5⟩ := flatten_inj_list ks ks' t t' r1 r2 hk.2 hk'.2 e2
        exact ⟨by rw [e1, e3], e4, e5⟩
end

/-- two well-formed forests with the same events are the same forest (given a common end) -/
theorem flattenList_inj : ∀ (a b : List Node), okList a = true → okList b = true →
    flattenList a = flattenList b → a = b := by
  intro a b ha hb h
  have q : QName := ⟨[], []⟩
  have := flatten_inj_list a b q q [] [] ha hb (by rw [h])
  exact this.1

/-! ### the merged forest is in normal form: no two adjacent text leaves, at any level -/

def isTextLeaf : Node → Bool
  | .leaf e => isText e
  | _ => false

def headIsTextLeaf : List Node → Bool
  | n :: _ => isTextLeaf n
  | [] => false

mutual
  def noAdjLeavesNode : Node → Bool
    | .elem _ _ ks => noAdjLeavesList ks
    | .leaf _ => true
  def noAdjLeavesList : List Node → Bool
    | [] => true
    | n :: ns => !(isTextLeaf n && headIsTextLeaf ns) && noAdjLeavesNode n && noAdjLeavesList ns
end

/-- the list is empty or its last node is not a text leaf -/
def endsNonText : List Node → Bool
  | [] => true
  | [n] => !isTextLeaf n
  | _ :: n :: rest => endsNonText (n :: rest)

theorem noAdjLeavesList_append : ∀ (a b : List Node), noAdjLeavesList a = true → noAdjLeavesList b = true →
    endsNonText a = true → noAdjLeavesList (a ++ b) = true
  | [], b, _, hb, _ => by simpa using hb
  | [n], b, ha, hb, he => by
      simp only [endsNonText, Bool.not_eq_true'] at he
      simp only [noAdjLeavesList, Bool.and_eq_true, Bool.not_eq_true'] at ha
      simp only [List.cons_append, List.nil_append, noAdjLeavesList, he, Bool.false_and, Bool.not_false,
        Bool.true_and, Bool.and_eq_true]
      exact ⟨ha.1.2, hb⟩
  | n :: n' :: rest, b, ha, hb, he => by
      simp only [noAdjLeavesList, headIsTextLeaf, Bool.and_eq_true, Bool.not_eq_true'] at ha
      have ih := noAdjLeavesList_append (n' :: rest) b
        (by simp only [noAdjLeavesList, Bool.and_eq_true, Bool.not_eq_true', headIsTextLeaf]; exact ha.2) hb
        (by simpa [endsNonText] using he)
      simp only [List.cons_append, noAdjLeavesList, headIsTextLeaf, Bool.and_eq_true, Bool.not_eq_true'] at ih ⊢
      exact ⟨⟨ha.1.1, ha.1.2⟩, ih⟩

theorem endsNonText_append : ∀ (a b : List Node), endsNonText a = true → endsNonText b = true →
    endsNonText (a ++ b) = true
  | [], b, _, hb => by simpa using hb
  | [n], [], ha, _ => by simpa using ha
  | [n], m :: b, _, hb => by simpa [endsNonText] using hb
  | n :: n' :: rest, b, ha, hb => by
      have := endsNonText_append (n' :: rest) b (by simpa [endsNonText] using ha) hb
      simpa [endsNonText] using this

theorem noAdj_flushLeaf (buf : Option Str) : noAdjLeavesList (flushLeaf buf) = true := by
  cases buf <;> simp [flushLeaf, noAdjLeavesList, headIsTextLeaf, noAdjLeavesNode]

theorem flush_then_nontext (buf : Option Str) (n : Node) (hn : isTextLeaf n = false)
    (hok : noAdjLeavesNode n = true) :
    noAdjLeavesList (flushLeaf buf ++ [n]) = true ∧ endsNonText (flushLeaf buf ++ [n]) = true := by
  cases buf <;>
    simp [flushLeaf, noAdjLeavesList, headIsTextLeaf, noAdjLeavesNode, endsNonText, hn, hok]

mutual
  theorem mergeNodeK_normal : ∀ (n : Node) (buf : Option Str),
      noAdjLeavesList (mergeNodeK buf n).1 = true ∧ endsNonText (mergeNodeK buf n).1 = true
    | .leaf e, buf => by
        by_cases ht : isText e = true
        · obtain ⟨s, b, rfl⟩ := (isText_iff e).1 ht
          simp [mergeNodeK, noAdjLeavesList, endsNonText]
        · have h' : isText e = false := by simpa using ht
          have hm : mergeNodeK buf (.leaf e) = (flushLeaf buf ++ [.leaf e], none) := by
            cases e <;> simp_all [mergeNodeK, isText]
          rw [hm]
          exact flush_then_nontext buf (.leaf e) (by simpa [isTextLeaf] using h') rfl
    | .elem t a ks, buf => by
        simp only [mergeNodeK]
        obtain ⟨h1, h2⟩ := mergeK_normal ks none
        refine flush_then_nontext buf _ rfl ?_
        simp only [noAdjLeavesNode]
        exact noAdjLeavesList_append _ _ h1 (noAdj_flushLeaf _) h2
  theorem mergeK_normal : ∀ (ns : List Node) (buf : Option Str),
      noAdjLeavesList (mergeK buf ns).1 = true ∧ endsNonText (mergeK buf ns).1 = true
    | [], buf => by simp [mergeK, noAdjLeavesList, endsNonText]
    | n :: ns, buf => by
        simp only [mergeK]
        obtain ⟨a1, a2⟩ := mergeNodeK_normal n buf
        obtain ⟨b1, b2⟩ := mergeK_normal ns (mergeNodeK buf n).2
        exact ⟨noAdjLeavesList_append _ _ a1 b1 a2, endsNonText_append _ _ a2 b2⟩
end

/-- in the merged forest every maximal run of character data is a single text leaf -/
theorem mergeForest_normal (ns : List Node) : noAdjLeavesList (mergeForest ns) = true := by
  obtain ⟨h1, h2⟩ := mergeK_normal ns none
  unfold mergeForest
  exact noAdjLeavesList_append _ _ h1 (noAdj_flushLeaf _) h2

/-! ### a well-nested stream is the flattening of a forest (the tree builder) -/

/-- an open element of the tree builder: tag, attributes, and the finished siblings to its left -/
abbrev Frame := QName × AttrList × List Node

/-- the events that lead to the builder state (open elements innermost first, finished nodes of
    the innermost open element) -/
def consumed : List Frame → List Node → Stream
  | [], cur => flattenList cur
  | (t, a, prev) :: fr, cur => consumed fr prev ++ (.start t a :: flattenList cur)

def framesOk : List Frame → Bool
  | [] => true
  | (_, _, prev) :: fr => okList prev && framesOk fr

theorem okList_append' : ∀ (a b : List Node), okList (a ++ b) = (okList a && okList b)
  | [], b => by simp [okList]
  | n :: a, b => by simp [okList, okList_append' a b, Bool.and_assoc]

theorem consumed_snoc (fr : List Frame) (cur : List Node) (n : Node) :
    consumed fr (cur ++ [n]) = consumed fr cur ++ n.flatten := by
  cases fr with
  | nil => simp [consumed, flattenList_append', flattenList]
  | cons f fr =>
    obtain ⟨t, a, prev⟩ := f
    simp [consumed, flattenList_append', flattenList]

theorem forest_exists : ∀ (s : Stream) (fr : List Frame) (cur : List Node),
    okList cur = true → framesOk fr = true → balance (fr.map (·.1)) s = some [] →
    ∃ ns, okList ns = true ∧ flattenList ns = consumed fr cur ++ s
  | [], fr, cur, hc, _, hb => by
      simp only [balance, Option.some.injEq, List.map_eq_nil_iff] at hb
      subst hb
      exact ⟨cur, hc, by simp [consumed]⟩
  | e :: es, fr, cur, hc, hf, hb => by
      by_cases hse : e.isStartEnd = true
      · cases e with
        | start t a =>
          simp only [balance] at hb
          obtain ⟨ns, h1, h2⟩ := forest_exists es ((t, a, cur) :: fr) [] rfl
            (by simp [framesOk, hc, hf]) (by simpa using hb)
          exact ⟨ns, h1, by rw [h2]; simp [consumed, flattenList]⟩
        | end_ t =>
          cases fr with
          | nil => simp [balance] at hb
          | cons f fr' =>
            obtain ⟨t', a, prev⟩ := f
            simp only [List.map_cons, balance] at hb
            by_cases htt : t = t'
            · subst htt
              simp only [↓reduceIte] at hb
              simp only [framesOk, Bool.and_eq_true] at hf
              obtain ⟨ns, h1, h2⟩ := forest_exists es fr' (prev ++ [.elem t a cur])
                (by simp [okList_append', okList, Node.ok, hf.1, hc]) hf.2 hb
              refine ⟨ns, h1, ?_⟩
              rw [h2, consumed_snoc]
              simp [consumed, Node.flatten, List.append_assoc]
            · simp [htt] at hb
        | _ => simp [Event.isStartEnd] at hse
      · have hse' : e.isStartEnd = false := by simpa using hse
        rw [balance_skip e hse'] at hb
        obtain ⟨ns, h1, h2⟩ := forest_exists es fr (cur ++ [.leaf e])
          (by simp [okList_append', okList, Node.ok, hc, hse']) hf hb
        refine ⟨ns, h1, ?_⟩
        rw [h2, consumed_snoc]
        simp [Node.flatten, List.append_assoc]

/-- a well-nested stream is the flattening of exactly one well-formed forest -/
theorem wellNested_unique_forest (s : Stream) (h : WellNested s) :
    ∃ ns, (okList ns = true ∧ flattenList ns = s) ∧
      ∀ ms, okList ms = true → flattenList ms = s → ms = ns := by
  obtain ⟨ns, h1, h2⟩ := forest_exists s [] [] rfl rfl h
  simp only [consumed, flattenList, List.nil_append] at h2
  exact ⟨ns, ⟨h1, h2⟩, fun ms hm hf => flattenList_inj ms ns hm h1 (by rw [hf, h2])⟩

end Genshi.Parse

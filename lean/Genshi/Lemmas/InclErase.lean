/-
  C11: the cost markers are only a fuel-accounting device.  Rendering the marker-free prepared
  streams (`Mode.inlineU`, what the code does) and rendering the marked ones (`Mode.inlineM`)
  reach the same results; the marked variant just needs more fuel.
-/
import Genshi.Lemmas.InclMono
namespace Genshi.Incl

/-! ## erasing markers in a context -/

def eraseBodies (l : List (Name × List Node)) : List (Name × List Node) := l.map fun p => (p.1, eraseL p.2)

def eraseSt (st : St) : St := { st with macros := eraseBodies st.macros, mts := eraseBodies st.mts }

def mapE (r : R) : R := r.map fun p => (p.1, eraseSt p.2)

@[simp] theorem mapE_fuel : mapE .fuel = .fuel := rfl
@[simp] theorem mapE_err (e : Err) : mapE (.err e) = .err e := rfl
@[simp] theorem mapE_ok (o : List Ev) (s : St) : mapE (.ok (o, s)) = .ok (o, eraseSt s) := rfl

theorem eraseSt_lookup (st : St) (x : Name) : (eraseSt st).lookup x = st.lookup x := rfl

theorem eraseBodies_lookup (l : List (Name × List Node)) (m : Name) :
    (eraseBodies l).lookup m = (l.lookup m).map eraseL := by
  induction l with
  | nil => rfl
  | cons p l ih =>
    obtain ⟨k, b⟩ := p
    simp only [eraseBodies, List.map_cons, List.lookup] at ih ⊢
    cases (m == k) with
    | true => rfl
    | false => exact ih

theorem firstMatchFrom_erase (rng : Rng) (tag : Name) (l : List (Name × List Node)) (i : Nat) :
    firstMatchFrom rng tag (eraseBodies l) i = (firstMatchFrom rng tag l i).map fun p => (p.1, eraseL p.2) := by
  induction l generalizing i with
  | nil => rfl
  | cons p l ih =>
    obtain ⟨k, b⟩ := p
    simp only [eraseBodies, List.map_cons, firstMatchFrom] at ih ⊢
    cases (rng.contains i && decide (k = tag)) with
    | true => rfl
    | false => exact ih (i + 1)

theorem evalCond_erase (st : St) (c : Cond) : evalCond (eraseSt st) c = evalCond st c := by
  cases c <;> rfl

theorem evalParts_erase (st : St) (ps : List Part) : evalParts (eraseSt st) ps = evalParts st ps := by
  induction ps with
  | nil => rfl
  | cons p ps ih => cases p <;> simp [evalParts, eraseSt_lookup, ih]

theorem evalHref_erase (st : St) (h : Href) : evalHref (eraseSt st) h = evalHref st h := by
  cases h <;> simp [evalHref, evalParts_erase]

theorem loadT_erase (files : Files) (name : Name) (cls : Kind) (st : St) :
    loadT .inlineU files name cls (eraseSt st) =
      (loadT .inlineM files name cls st).map fun r => (eraseL r.1, eraseSt r.2) := by
  simp only [loadT]
  show (loadInl files name cls st.cache).map _ = _
  cases loadInl files name cls st.cache <;> rfl

theorem renderL_singleton (m : Mode) (files : Files) (J : RJ) (rng : Rng) (n : Node) (st : St) :
    renderL m files J rng [n] st = renderN m files J rng n st := by
  rw [renderL_cons]
  cases renderN m files J rng n st with
  | fuel => rfl
  | err e => rfl
  | ok r => simp [renderL_nil]

theorem eraseL_cons (n : Node) (ns : List Node) : eraseL (n :: ns) = eraseN n ++ eraseL ns := rfl

mutual
theorem eraseN_plain : ∀ (n : Node), plainN n = true → eraseN n = [n]
  | .text _, _ => rfl
  | .elem t b, h => by simp only [eraseN]; rw [eraseL_plain b (by simpa [plainN] using h)]
  | .var _, h => by simp [plainN] at h
  | .cond _ _, h => by simp [plainN] at h
  | .loop _ _ _, h => by simp [plainN] at h
  | .defn _ _, h => by simp [plainN] at h
  | .call _, h => by simp [plainN] at h
  | .matchT _ _, h => by simp [plainN] at h
  | .select, h => by simp [plainN] at h
  | .include _ _ _ _ _, h => by simp [plainN] at h
  | .inlined _, h => by simp [plainN] at h
termination_by structural n => n
theorem eraseL_plain : ∀ (ns : List Node), plainL ns = true → eraseL ns = ns
  | [], _ => rfl
  | n :: ns, h => by
    simp only [plainL, Bool.and_eq_true] at h
    rw [eraseL_cons, eraseN_plain n h.1, eraseL_plain ns h.2]; rfl
termination_by structural ns => ns
end

theorem eraseL_evsToNodes (c : List Ev) : eraseL (evsToNodes c) = evsToNodes c :=
  eraseL_plain _ (evsToNodes_plain c)

/-! ## marked ⇒ unmarked, with the same fuel -/

theorem Le.trans {α : Type} {x y z : Res α} (h1 : Le x y) (h2 : Le y z) : Le x z := by
  rcases h1 with h | h
  · exact .inl h
  · subst h; exact h2

/-- `Le` through `mapE` and `bind` with continuations that commute with erasure -/
theorem Le.bindE {x : R} {y : R} {k k' : List Ev × St → R} (hx : Le (mapE x) y)
    (hk : ∀ o s, Le (mapE (k (o, s))) (k' (o, eraseSt s))) : Le (mapE (x.bind k)) (y.bind k') := by
  cases x with
  | fuel => exact .inl rfl
  | err e =>
    rcases hx with h | h
    · simp at h
    · simp only [mapE_err] at h; subst h; exact .inr rfl
  | ok r =>
    obtain ⟨o, s⟩ := r
    rcases hx with h | h
    · simp at h
    · simp only [mapE_ok] at h; subst h; exact hk o s

theorem loopItems_leE {k k' : St → R} (x : Name) (hk : ∀ s, Le (mapE (k s)) (k' (eraseSt s))) :
    ∀ (vs : List Value) (s : St), Le (mapE (loopItems k x vs s)) (loopItems k' x vs (eraseSt s))
  | [], s => .inr rfl
  | v :: vs, s => by
    simp only [loopItems]
    refine Le.bindE (hk _) fun o1 s1 => ?_
    refine Le.bindE (loopItems_leE x hk vs _) fun o2 s2 => ?_
    exact .inr rfl

section down

mutual
theorem eraseN_le (files : Files) {J J' : RJ}
    (hJ : ∀ rng p st, Le (mapE (J rng p st)) (J' rng (eraseL p) (eraseSt st)))
    (hJ2 : ∀ rng p st, Le (mapE (J rng p st)) (renderL .inlineU files J' rng (eraseL p) (eraseSt st))) :
    ∀ (n : Node) (rng : Rng) (st : St),
    Le (mapE (renderN .inlineM files J rng n st)) (renderL .inlineU files J' rng (eraseN n) (eraseSt st))
  | .text s, rng, st => by simp only [eraseN, renderL_singleton]; exact .inr rfl
  | .var x, rng, st => by
    simp only [eraseN, renderL_singleton, renderN_var, eraseSt_lookup]
    cases st.lookup x with
    | none => exact .inr rfl
    | some v =>
      dsimp only
      cases v.text? <;> exact .inr rfl
  | .elem tag body, rng, st => by
    simp only [eraseN, renderL_singleton, renderN_elem]
    have hfm : firstMatch (eraseSt st).mts rng tag = (firstMatch st.mts rng tag).map fun p => (p.1, eraseL p.2) :=
      firstMatchFrom_erase rng tag st.mts 0
    rw [hfm]
    cases firstMatch st.mts rng tag with
    | none =>
      exact Le.bindE (eraseL_le files hJ hJ2 body rng st) fun o s => .inr rfl
    | some p =>
      obtain ⟨idx, mb⟩ := p
      refine Le.bindE (eraseL_le files hJ hJ2 body _ st) fun o s => ?_
      refine Le.bindE (hJ _ mb { s with sel := o :: s.sel }) fun o2 s2 => ?_
      exact .inr rfl
  | .select, rng, st => by
    simp only [eraseN, renderL_singleton, renderN_select]
    show Le (mapE (match st.sel with | [] => .err .undefined | c :: _ => J rng (evsToNodes c) st))
      (match st.sel with | [] => .err .undefined | c :: _ => J' rng (evsToNodes c) (eraseSt st))
    cases st.sel with
    | nil => exact .inr rfl
    | cons c _ =>
      have := hJ rng (evsToNodes c) st
      rw [eraseL_evsToNodes] at this
      exact this
  | .cond c body, rng, st => by
    simp only [eraseN, renderL_singleton, renderN_cond, evalCond_erase]
    cases evalCond st c with
    | fuel => exact .inl rfl
    | err e => exact .inr rfl
    | ok b =>
      cases b with
      | true => exact eraseL_le files hJ hJ2 body rng st
      | false => exact .inr rfl
  | .loop x xs body, rng, st => by
    simp only [eraseN, renderL_singleton, renderN_loop, eraseSt_lookup]
    cases st.lookup xs with
    | none => exact .inr rfl
    | some v => exact loopItems_leE x (fun s => eraseL_le files hJ hJ2 body rng s) _ st
  | .defn m body, rng, st => by simp only [eraseN, renderL_singleton]; exact .inr rfl
  | .call m, rng, st => by
    simp only [eraseN, renderL_singleton, renderN_call, eraseSt_lookup]
    have hl : (eraseSt st).macros.lookup m = (st.macros.lookup m).map eraseL := eraseBodies_lookup st.macros m
    rw [hl]
    cases st.macros.lookup m with
    | some body => exact hJ rng body st
    | none => cases st.lookup m <;> exact .inr rfl
  | .matchT tag body, rng, st => by
    simp only [eraseN, renderL_singleton, renderN_matchT]
    refine .inr ?_
    simp [mapE, eraseSt, eraseBodies]
  | .include href cls hasFb fb pos, rng, st => by
    simp only [eraseN, renderL_singleton, renderN_include, evalHref_erase]
    cases evalHref st href with
    | fuel => exact .inl rfl
    | err e => exact .inr rfl
    | ok h =>
      simp only [Res.bind_ok]
      cases resolve pos h with
      | none => exact .inr rfl
      | some name =>
        simp only [loadT_erase]
        cases loadT .inlineM files name cls st with
        | fuel => exact .inl rfl
        | ok p => obtain ⟨body, st1⟩ := p; exact hJ _ body st1
        | err e =>
          cases e with
          | notFound =>
            cases hasFb with
            | true => exact eraseL_le files hJ hJ2 fb rng.fresh st
            | false => exact .inr rfl
          | syntaxErr => exact .inr rfl
          | undefined => exact .inr rfl
          | unmodelled => exact .inr rfl
  | .inlined body, rng, st => by
    simp only [eraseN, renderN_inlined]
    exact hJ2 rng body st
termination_by structural n => n
theorem eraseL_le (files : Files) {J J' : RJ}
    (hJ : ∀ rng p st, Le (mapE (J rng p st)) (J' rng (eraseL p) (eraseSt st)))
    (hJ2 : ∀ rng p st, Le (mapE (J rng p st)) (renderL .inlineU files J' rng (eraseL p) (eraseSt st))) :
    ∀ (ns : List Node) (rng : Rng) (st : St),
    Le (mapE (renderL .inlineM files J rng ns st)) (renderL .inlineU files J' rng (eraseL ns) (eraseSt st))
  | [], rng, st => .inr rfl
  | n :: ns, rng, st => by
    rw [eraseL_cons, renderL_append, renderL_cons]
    refine Le.bindE (eraseN_le files hJ hJ2 n rng st) fun o1 s1 => ?_
    refine Le.bindE (eraseL_le files hJ hJ2 ns rng s1) fun o2 s2 => ?_
    exact .inr rfl
termination_by structural ns => ns
end
end down

/-- marked rendering at fuel `f` is refined by marker-free rendering at the same fuel -/
theorem erase_down (files : Files) : ∀ (f : Nat) (rng : Rng) (p : List Node) (st : St),
    Le (mapE (render .inlineM files f rng p st)) (render .inlineU files f rng (eraseL p) (eraseSt st))
  | 0, _, _, _ => .inl rfl
  | f + 1, rng, p, st => by
    rw [render_succ, render_succ]
    apply eraseL_le files (erase_down files f)
    intro rng p st
    have h1 := erase_down files f rng p st
    have h2 := render_le_succ .inlineU files f rng (eraseL p) (eraseSt st)
    rw [render_succ] at h2
    exact h1.trans h2

/-! ## unmarked ⇒ marked, with enough fuel -/

/-- the marker-free result `x` is out of fuel, or the marked computation `F` (indexed by fuel) is
eventually constant with a result whose erasure is `x` -/
def Up (x : R) (F : Nat → R) : Prop :=
  x = .fuel ∨ ∃ g0 y, (∀ g, g0 ≤ g → F g = y) ∧ mapE y = x

theorem Up.const {x y : R} (h : mapE y = x) : Up x (fun _ => y) := .inr ⟨0, y, fun _ _ => rfl, h⟩

theorem Up.shift {x : R} {F F' : Nat → R} (hF : ∀ g, F' (g + 1) = F g) (h : Up x F) : Up x F' := by
  rcases h with h | ⟨g0, y, hy, hm⟩
  · exact .inl h
  · refine .inr ⟨g0 + 1, y, fun g hg => ?_, hm⟩
    obtain ⟨g', rfl⟩ : ∃ g', g = g' + 1 := ⟨g - 1, by omega⟩
    rw [hF]; exact hy g' (by omega)

theorem Up.bind {x : R} {F : Nat → R} {k' : List Ev × St → R} {K : Nat → List Ev × St → R}
    (hx : Up x F) (hk : ∀ o s, Up (k' (o, eraseSt s)) (fun g => K g (o, s))) :
    Up (x.bind k') (fun g => (F g).bind (K g)) := by
  rcases hx with h | ⟨g0, y, hy, hm⟩
  · subst h; exact .inl rfl
  · cases y with
    | fuel => simp at hm; subst hm; exact .inl rfl
    | err e =>
      simp only [mapE_err] at hm; subst hm
      exact .inr ⟨g0, .err e, fun g hg => by show (F g).bind (K g) = _; rw [hy g hg]; rfl, rfl⟩
    | ok r =>
      obtain ⟨o, s⟩ := r
      simp only [mapE_ok] at hm; subst hm
      rcases hk o s with h | ⟨g1, z, hz, hmz⟩
      · exact .inl h
      · refine .inr ⟨max g0 g1, z, fun g hg => ?_, hmz⟩
        show (F g).bind (K g) = z
        rw [hy g (by omega)]
        exact hz g (by omega)

theorem loopItems_up {k' : St → R} {K : Nat → St → R} (x : Name)
    (hk : ∀ s, Up (k' (eraseSt s)) (fun g => K g s)) :
    ∀ (vs : List Value) (s : St), Up (loopItems k' x vs (eraseSt s)) (fun g => loopItems (K g) x vs s)
  | [], s => Up.const rfl
  | v :: vs, s => by
    simp only [loopItems]
    refine Up.bind (hk { s with frames := (x, v) :: s.frames }) fun o1 s1 => ?_
    refine Up.bind (loopItems_up x hk vs { s1 with frames := s1.frames.tail }) fun o2 s2 => ?_
    exact Up.const rfl

mutual
theorem eraseN_up (files : Files) {J' : RJ}
    (hJ : ∀ rng p st, Up (J' rng (eraseL p) (eraseSt st)) (fun g => render .inlineM files g rng p st)) :
    ∀ (n : Node) (rng : Rng) (st : St),
      Up (renderL .inlineU files J' rng (eraseN n) (eraseSt st))
        (fun g => renderN .inlineM files (render .inlineM files g) rng n st)
  | .text s, rng, st => by simp only [eraseN, renderL_singleton]; exact Up.const rfl
  | .var x, rng, st => by
    simp only [eraseN, renderL_singleton, renderN_var, eraseSt_lookup]
    cases st.lookup x with
    | none => exact Up.const rfl
    | some v =>
      dsimp only
      cases v.text? <;> exact Up.const rfl
  | .elem tag body, rng, st => by
    simp only [eraseN, renderL_singleton, renderN_elem]
    have hfm : firstMatch (eraseSt st).mts rng tag = (firstMatch st.mts rng tag).map fun p => (p.1, eraseL p.2) :=
      firstMatchFrom_erase rng tag st.mts 0
    rw [hfm]
    cases firstMatch st.mts rng tag with
    | none => exact Up.bind (eraseL_up files hJ body rng st) fun o s => Up.const rfl
    | some p =>
      obtain ⟨idx, mb⟩ := p
      refine Up.bind (eraseL_up files hJ body _ st) fun o s => ?_
      refine Up.bind (hJ _ mb { s with sel := o :: s.sel }) fun o2 s2 => ?_
      exact Up.const rfl
  | .select, rng, st => by
    simp only [eraseN, renderL_singleton, renderN_select]
    show Up (match st.sel with | [] => .err .undefined | c :: _ => J' rng (evsToNodes c) (eraseSt st))
      (fun g => match st.sel with | [] => .err .undefined | c :: _ => render .inlineM files g rng (evsToNodes c) st)
    cases st.sel with
    | nil => exact Up.const rfl
    | cons c _ =>
      have := hJ rng (evsToNodes c) st
      rw [eraseL_evsToNodes] at this
      exact this
  | .cond c body, rng, st => by
    simp only [eraseN, renderL_singleton, renderN_cond, evalCond_erase]
    cases evalCond st c with
    | fuel => exact .inl rfl
    | err e => exact Up.const rfl
    | ok b =>
      cases b with
      | true => exact eraseL_up files hJ body rng st
      | false => exact Up.const rfl
  | .loop x xs body, rng, st => by
    simp only [eraseN, renderL_singleton, renderN_loop, eraseSt_lookup]
    cases st.lookup xs with
    | none => exact Up.const rfl
    | some v => exact loopItems_up x (fun s => eraseL_up files hJ body rng s) _ st
  | .defn m body, rng, st => by simp only [eraseN, renderL_singleton]; exact Up.const rfl
  | .call m, rng, st => by
    simp only [eraseN, renderL_singleton, renderN_call, eraseSt_lookup]
    have hl : (eraseSt st).macros.lookup m = (st.macros.lookup m).map eraseL := eraseBodies_lookup st.macros m
    rw [hl]
    cases st.macros.lookup m with
    | some body => exact hJ rng body st
    | none => cases st.lookup m <;> exact Up.const rfl
  | .matchT tag body, rng, st => by
    simp only [eraseN, renderL_singleton, renderN_matchT]
    refine Up.const ?_
    simp [mapE, eraseSt, eraseBodies]
  | .include href cls hasFb fb pos, rng, st => by
    simp only [eraseN, renderL_singleton, renderN_include, evalHref_erase]
    cases evalHref st href with
    | fuel => exact .inl rfl
    | err e => exact Up.const rfl
    | ok h =>
      simp only [Res.bind_ok]
      cases resolve pos h with
      | none => exact Up.const rfl
      | some name =>
        simp only [loadT_erase]
        cases loadT .inlineM files name cls st with
        | fuel => exact .inl rfl
        | ok p => obtain ⟨body, st1⟩ := p; exact hJ _ body st1
        | err e =>
          cases e with
          | notFound =>
            cases hasFb with
            | true => exact eraseL_up files hJ fb rng.fresh st
            | false => exact Up.const rfl
          | syntaxErr => exact Up.const rfl
          | undefined => exact Up.const rfl
          | unmodelled => exact Up.const rfl
  | .inlined body, rng, st => by
    simp only [eraseN, renderN_inlined]
    exact Up.shift (fun g => render_succ .inlineM files g rng body st) (eraseL_up files hJ body rng st)
termination_by structural n => n
theorem eraseL_up (files : Files) {J' : RJ}
    (hJ : ∀ rng p st, Up (J' rng (eraseL p) (eraseSt st)) (fun g => render .inlineM files g rng p st)) :
    ∀ (ns : List Node) (rng : Rng) (st : St),
      Up (renderL .inlineU files J' rng (eraseL ns) (eraseSt st))
        (fun g => renderL .inlineM files (render .inlineM files g) rng ns st)
  | [], rng, st => Up.const rfl
  | n :: ns, rng, st => by
    rw [eraseL_cons, renderL_append]
    simp only [renderL_cons]
    refine Up.bind (eraseN_up files hJ n rng st) fun o1 s1 => ?_
    refine Up.bind (eraseL_up files hJ ns rng s1) fun o2 s2 => ?_
    exact Up.const rfl
termination_by structural ns => ns
end

/-- marker-free rendering at fuel `f` either runs out of fuel or the marked rendering reaches the
same result (up to erasure of the final context) with enough fuel -/
theorem erase_up (files : Files) : ∀ (f : Nat) (rng : Rng) (p : List Node) (st : St),
    Up (render .inlineU files f rng (eraseL p) (eraseSt st)) (fun g => render .inlineM files g rng p st)
  | 0, _, _, _ => .inl rfl
  | f + 1, rng, p, st => by
    rw [render_succ]
    exact Up.shift (fun g => render_succ .inlineM files g rng p st) (eraseL_up files (erase_up files f) p rng st)

end Genshi.Incl

/-
  Helper lemmas for C08: namespace resolution (`xmlView`, expat's view) on the
  tokens read back from an xhtml serialisation whose elements are all in one
  namespace `u`: every element name resolves to `⟨u, local⟩`.
-/
import Genshi.Lemmas.ReaderTreeNs
namespace Genshi.Reader
open Genshi Genshi.Output

/-! ### `assemble` from the left -/

def textTok (buf : Str) : List Tok := if buf.isEmpty then [] else [.text buf]

/-- pieces to tokens, left to right: `buf` is the character data collected so far -/
def mergeGo (buf : Str) : List Piece → List Tok
  | [] => textTok buf
  | .chars s :: ps => mergeGo (buf ++ s) ps
  | .tok t :: ps => textTok buf ++ t :: mergeGo [] ps

theorem flushToks_reverse (buf : Str) (toks : List Tok) : (flushToks buf toks).reverse = toks.reverse ++ textTok buf := by
  unfold flushToks textTok
  by_cases h : buf.isEmpty = true <;> simp [h]

theorem assemble_go (ps : List Piece) : ∀ (buf : Str) (toks : List Tok),
    (flushToks (ps.foldl applyPiece (buf, toks)).1 (ps.foldl applyPiece (buf, toks)).2).reverse =
      toks.reverse ++ mergeGo buf ps := by
  induction ps with
  | nil => intro buf toks; simp [mergeGo, flushToks_reverse]
  | cons p ps ih =>
    intro buf toks
    cases p with
    | tok t =>
      simp only [List.foldl_cons, applyPiece, mergeGo]
      rw [ih]; simp [flushToks_reverse]
    | chars s =>
      simp only [List.foldl_cons, applyPiece, mergeGo]
      rw [ih]

theorem assemble_eq_merge (ps : List Piece) : assemble ps = mergeGo [] ps := by
  have := assemble_go ps [] []
  simpa [assemble] using this

/-! ### resolution with one namespace -/

/-- how an XML declaration starts between `<?` and `?>` -/
def xmlDeclPfx : Str := ['x', 'm', 'l', ' ']

/-- the token in expat's vocabulary when the default namespace is `u` everywhere; a processing
    instruction is split into target and data (white space between them dropped), the XML
    declaration and the DOCTYPE are parsed into their fields -/
def xmlMapTok (u : Str) : Tok → List XTok
  | .start n a sc =>
      if sc then [.start ⟨u, n⟩ ((resolveAttrs a).getD []), .end_ ⟨u, n⟩]
      else [.start ⟨u, n⟩ ((resolveAttrs a).getD [])]
  | .end_ n => [.end_ ⟨u, n⟩]
  | .text s => [.text s]
  | .comment s => [.comment s]
  | .pi s =>
      if xmlDeclPfx.isPrefixOf s then (parseXmlDecl s).toList
      else [.pi (takeUntil isSpace s).1 ((takeUntil isSpace s).2.dropWhile isSpace)]
  | .doctype s => (parseDoctype s).toList.map fun x => .doctype x.1 x.2.1 x.2.2

/-- the attributes of a start tag at depth `d` fit a document whose only namespace is `u`:
    the outermost elements declare it (unless it is empty), nobody declares anything else, and
    every attribute name resolves -/
def attrsOkX (u : Str) (d : Nat) (a : List (Str × Option Str)) : Bool :=
  (match lookupAttr xmlnsName a with
   | some (some v) => v == u
   | some none => false
   | none => d != 0 || u.isEmpty) &&
  (resolveAttrs a).isSome

/-- the pieces are well scoped from depth `d` on: no character data outside elements, end tags only
    for open elements, start tags as `attrsOkX`, no PI / DOCTYPE tokens -/
def scopedP (u : Str) : Nat → List Piece → Bool
  | _, [] => true
  | d, .chars _ :: ps => d != 0 && scopedP u d ps
  | d, .tok (.start n a sc) :: ps =>
      !(n.any (· == ':')) && attrsOkX u d a && scopedP u (if sc then d else d + 1) ps
  | d, .tok (.end_ _) :: ps => d != 0 && scopedP u (d - 1) ps
  | d, .tok (.text _) :: ps => d != 0 && scopedP u d ps
  | d, .tok (.comment _) :: ps => scopedP u d ps
  | d, .tok (.pi s) :: ps => (!xmlDeclPfx.isPrefixOf s || (parseXmlDecl s).isSome) && scopedP u d ps
  | d, .tok (.doctype s) :: ps => (parseDoctype s).isSome && scopedP u d ps

theorem xmlView_text (u : Str) (d : Nat) (hd : d ≠ 0) (s : Str) (rest : List Tok) :
    xmlView (List.replicate d u) (.text s :: rest) =
      (xmlView (List.replicate d u) rest).map (fun r => .text s :: r) := by
  cases d with
  | zero => exact absurd rfl hd
  | succ k => simp [xmlView, List.replicate_succ]

theorem xmlView_textTok (u : Str) (d : Nat) (buf : Str) (hb : buf ≠ [] → d ≠ 0) (rest : List Tok) :
    xmlView (List.replicate d u) (textTok buf ++ rest) =
      (xmlView (List.replicate d u) rest).map (fun r => (textTok buf).flatMap (xmlMapTok u) ++ r) := by
  unfold textTok
  by_cases h : buf.isEmpty = true
  · simp only [h, ↓reduceIte, List.nil_append, List.flatMap_nil]
    cases xmlView (List.replicate d u) rest <;> simp
  · have hne : buf ≠ [] := by simpa using h
    simp only [h, Bool.false_eq_true, ↓reduceIte, List.singleton_append, List.flatMap_cons, List.flatMap_nil,
      List.append_nil, xmlMapTok]
    rw [xmlView_text u d (hb hne)]

theorem xmlView_start (u : Str) (d : Nat) (n : Str) (a : List (Str × Option Str)) (sc : Bool) (rest : List Tok)
    (hn : (n.any (· == ':')) = false) (ha : attrsOkX u d a = true) :
    xmlView (List.replicate d u) (.start n a sc :: rest) =
      (xmlView (List.replicate (if sc then d else d + 1) u) rest).map
        (fun r => xmlMapTok u (.start n a sc) ++ r) := by
  simp only [attrsOkX, Bool.and_eq_true] at ha
  obtain ⟨hx, hr⟩ := ha
  obtain ⟨ra, hra⟩ := Option.isSome_iff_exists.mp hr
  have hdflt : dfltNs (List.replicate d u) a = u := by
    unfold dfltNs
    cases hl : lookupAttr xmlnsName a with
    | none =>
      simp only [hl, Bool.or_eq_true, bne_iff_ne, ne_eq] at hx ⊢
      cases d with
      | zero =>
        rcases hx with h | h
        · exact absurd rfl h
        · simp [List.replicate]; exact (List.isEmpty_iff.mp h)
      | succ k => simp [List.replicate_succ]
    | some v =>
      cases v with
      | none => simp [hl] at hx
      | some w => simp only [hl, beq_iff_eq] at hx ⊢; exact hx
  simp only [xmlView, hn, Bool.false_eq_true, ↓reduceIte, hdflt, hra, xmlMapTok, Option.getD_some]
  cases sc with
  | true =>
    simp only [↓reduceIte]
    cases xmlView (List.replicate d u) rest <;> simp
  | false =>
    simp only [Bool.false_eq_true, ↓reduceIte]
    have : u :: List.replicate d u = List.replicate (d + 1) u := by simp [List.replicate_succ]
    rw [this]
    cases xmlView (List.replicate (d + 1) u) rest <;> simp

theorem xmlView_end (u : Str) (d : Nat) (hd : d ≠ 0) (n : Str) (rest : List Tok) :
    xmlView (List.replicate d u) (.end_ n :: rest) =
      (xmlView (List.replicate (d - 1) u) rest).map (fun r => xmlMapTok u (.end_ n) ++ r) := by
  cases d with
  | zero => exact absurd rfl hd
  | succ k =>
    simp only [List.replicate_succ, xmlView, Nat.add_sub_cancel, xmlMapTok]
    cases xmlView (List.replicate k u) rest <;> simp

theorem xmlView_comment (u : Str) (d : Nat) (s : Str) (rest : List Tok) :
    xmlView (List.replicate d u) (.comment s :: rest) =
      (xmlView (List.replicate d u) rest).map (fun r => xmlMapTok u (.comment s) ++ r) := by
  simp only [xmlView, xmlMapTok]
  cases xmlView (List.replicate d u) rest <;> simp

theorem xmlView_pi (u : Str) (d : Nat) (s : Str) (rest : List Tok)
    (h : (!xmlDeclPfx.isPrefixOf s || (parseXmlDecl s).isSome) = true) :
    xmlView (List.replicate d u) (.pi s :: rest) =
      (xmlView (List.replicate d u) rest).map (fun r => xmlMapTok u (.pi s) ++ r) := by
  by_cases hp : xmlDeclPfx.isPrefixOf s = true
  · have hs : (parseXmlDecl s).isSome = true := by simpa [hp] using h
    obtain ⟨x, hx⟩ := Option.isSome_iff_exists.mp hs
    have hp' : List.isPrefixOf ['x', 'm', 'l', ' '] s = true := hp
    simp only [xmlView, hp', ↓reduceIte, hx, xmlMapTok, hp, Option.toList_some]
    cases xmlView (List.replicate d u) rest <;> simp
  · have hp2 : xmlDeclPfx.isPrefixOf s = false := Bool.eq_false_iff.mpr hp
    have hp' : List.isPrefixOf ['x', 'm', 'l', ' '] s = false := hp2
    simp only [xmlView, hp', Bool.false_eq_true, ↓reduceIte, xmlMapTok, hp2]
    cases xmlView (List.replicate d u) rest <;> simp

theorem xmlView_doctype (u : Str) (d : Nat) (s : Str) (rest : List Tok) (h : (parseDoctype s).isSome = true) :
    xmlView (List.replicate d u) (.doctype s :: rest) =
      (xmlView (List.replicate d u) rest).map (fun r => xmlMapTok u (.doctype s) ++ r) := by
  obtain ⟨x, hx⟩ := Option.isSome_iff_exists.mp h
  obtain ⟨n, p, q⟩ := x
  simp only [xmlView, hx, xmlMapTok, Option.toList_some, List.map_cons, List.map_nil]
  cases xmlView (List.replicate d u) rest <;> simp

/-- namespace resolution of well-scoped pieces: every element is in namespace `u` -/
theorem xmlView_mergeGo (u : Str) (ps : List Piece) : ∀ (d : Nat) (buf : Str), (buf ≠ [] → d ≠ 0) →
    scopedP u d ps = true →
    xmlView (List.replicate d u) (mergeGo buf ps) = some ((mergeGo buf ps).flatMap (xmlMapTok u)) := by
  induction ps with
  | nil =>
    intro d buf hb _
    have := xmlView_textTok u d buf hb []
    simp only [List.append_nil] at this
    simp [mergeGo, this, xmlView]
  | cons p ps ih =>
    intro d buf hb h
    cases p with
    | chars s =>
      simp only [scopedP, Bool.and_eq_true, bne_iff_ne, ne_eq] at h
      simp only [mergeGo]
      exact ih d (buf ++ s) (fun _ => h.1) h.2
    | tok t =>
      simp only [mergeGo]
      rw [xmlView_textTok u d buf hb]
      cases t with
      | start n a sc =>
        simp only [scopedP, Bool.and_eq_true, Bool.not_eq_true'] at h
        obtain ⟨⟨hn, ha⟩, hrest⟩ := h
        rw [xmlView_start u d n a sc _ hn ha, ih _ [] (by intro hh; exact absurd rfl hh) hrest]
        simp [List.flatMap_append]
      | end_ n =>
        simp only [scopedP, Bool.and_eq_true, bne_iff_ne, ne_eq] at h
        rw [xmlView_end u d h.1, ih _ [] (by intro hh; exact absurd rfl hh) h.2]
        simp [List.flatMap_append]
      | text s =>
        simp only [scopedP, Bool.and_eq_true, bne_iff_ne, ne_eq] at h
        rw [xmlView_text u d h.1, ih _ [] (by intro hh; exact absurd rfl hh) h.2]
        simp [List.flatMap_append, xmlMapTok]
      | comment s =>
        simp only [scopedP] at h
        rw [xmlView_comment u d, ih _ [] (by intro hh; exact absurd rfl hh) h]
        simp [List.flatMap_append]
      | pi s =>
        simp only [scopedP, Bool.and_eq_true] at h
        rw [xmlView_pi u d s _ h.1, ih _ [] (by intro hh; exact absurd rfl hh) h.2]
        simp [List.flatMap_append]
      | doctype s =>
        simp only [scopedP, Bool.and_eq_true] at h
        rw [xmlView_doctype u d s _ h.1, ih _ [] (by intro hh; exact absurd rfl hh) h.2]
        simp [List.flatMap_append]

/-! ### the pieces of a forest in one namespace are well scoped -/

/-- a flattened attribute name expat resolves: not `xmlns`, and either `xml:…` or without colon -/
def xNameOk (k : Str) : Bool := k != xmlnsName && (xmlPrefix.isPrefixOf k || !(k.any (· == ':')))

def noXmlns (a : List (Str × Option Str)) : Bool := a.all fun p => p.1 != xmlnsName

def resolvable (a : List (Str × Option Str)) : Bool := a.all fun p => p.2.isSome && xNameOk p.1

theorem lookupAttr_none_of_noXmlns (a : List (Str × Option Str)) (h : noXmlns a = true) :
    lookupAttr xmlnsName a = none := by
  induction a with
  | nil => rfl
  | cons p ps ih =>
    obtain ⟨k, v⟩ := p
    simp only [noXmlns, List.all_cons, Bool.and_eq_true, bne_iff_ne, ne_eq] at h
    simp only [lookupAttr, h.1, ↓reduceIte]
    exact ih (by simpa [noXmlns] using h.2)

theorem resolveAttrs_isSome (a : List (Str × Option Str)) (h : resolvable a = true) :
    (resolveAttrs a).isSome = true := by
  induction a with
  | nil => rfl
  | cons p ps ih =>
    obtain ⟨k, v⟩ := p
    simp only [resolvable, List.all_cons, Bool.and_eq_true] at h
    obtain ⟨⟨hv, hk⟩, hps⟩ := h
    have ih' := ih (by simpa [resolvable] using hps)
    obtain ⟨w, hw⟩ := Option.isSome_iff_exists.mp hv
    obtain ⟨r, hr⟩ := Option.isSome_iff_exists.mp ih'
    subst hw
    simp only [xNameOk, Bool.and_eq_true, bne_iff_ne, ne_eq, Bool.or_eq_true, Bool.not_eq_true'] at hk
    simp only [resolveAttrs, hk.1, ↓reduceIte, hr]
    rcases hk.2 with h1 | h1
    · simp [h1]
    · by_cases hp : xmlPrefix.isPrefixOf k = true <;> simp [hp, h1]

theorem xhtmlAttrToks_ok (fa : FAttrs) (h : fa.all (fun p => xNameOk p.1) = true) :
    noXmlns (xhtmlAttrToks fa) = true ∧ resolvable (xhtmlAttrToks fa) = true := by
  have hlang : xNameOk lang = true := by decide
  have key : ∀ l : FAttrs, l.all (fun p => xNameOk p.1) = true →
      noXmlns (l.flatMap (xhtmlAttrTok fa)) = true ∧ resolvable (l.flatMap (xhtmlAttrTok fa)) = true := by
    intro l
    induction l with
    | nil => intro _; exact ⟨rfl, rfl⟩
    | cons p ps ih =>
      intro hl
      simp only [List.all_cons, Bool.and_eq_true] at hl
      have ih' := ih hl.2
      have hk := hl.1
      have hkn : (p.1 != xmlnsName) = true := by
        simp only [xNameOk, Bool.and_eq_true] at hk; exact hk.1
      have hln : (lang != xmlnsName) = true := by decide
      simp only [List.flatMap_cons, noXmlns, resolvable, List.all_append, Bool.and_eq_true] at ih' ⊢
      refine ⟨⟨?_, ih'.1⟩, ⟨?_, ih'.2⟩⟩
      · unfold xhtmlAttrTok; split
        · simp [hkn]
        · split
          · simp [hkn, hln]
          · split <;> simp [hkn]
      · unfold xhtmlAttrTok; split
        · simp [hk]
        · split
          · simp [hk, hlang]
          · split <;> simp [hk]
  exact key fa h

def nameNoColon (n : Str) : Bool := !(n.any (· == ':'))

/-- the attribute names of the stream resolve: un-namespaced ones are not `xmlns` and hold no colon -/
def xmlAttrNamesOk (a : AttrList) : Bool := (fAttrs a).all fun p => xNameOk p.1

mutual
  /-- hypotheses of the namespace resolution: element names without colon, resolvable attribute
      names, no character data outside elements (`top`) -/
  def xmlTreeOk (top : Bool) : Node → Bool
    | .elem t a ks => nameNoColon t.loc && xmlAttrNamesOk a && xmlForestOk false ks
    | .leaf (.text _ _) => !top
    | .leaf _ => true
  def xmlForestOk (top : Bool) : List Node → Bool
    | [] => true
    | n :: ns => xmlTreeOk top n && xmlForestOk top ns
end

theorem attrsOkX_tree (u : Str) (s : Bool) (d : Nat) (a : AttrList) (hd : s = true → d ≠ 0)
    (ha : xmlAttrNamesOk a = true) :
    attrsOkX u d ((declAttr u s).map (fun p => (p.1, some p.2)) ++ xhtmlAttrToks (fAttrs a)) = true := by
  have hx := xhtmlAttrToks_ok (fAttrs a) ha
  unfold declAttr
  by_cases hdecl : (u.isEmpty || s) = true
  · simp only [hdecl, ↓reduceIte, List.map_nil, List.nil_append, attrsOkX,
      lookupAttr_none_of_noXmlns _ hx.1, resolveAttrs_isSome _ hx.2, Bool.and_true, Bool.or_eq_true, bne_iff_ne, ne_eq]
    simp only [Bool.or_eq_true] at hdecl
    rcases hdecl with h | h
    · exact Or.inr h
    · exact Or.inl (hd h)
  · simp only [hdecl, Bool.false_eq_true, ↓reduceIte, List.map_cons, List.map_nil, List.singleton_append, attrsOkX]
    have h1 : lookupAttr xmlnsName ((xmlns, some u) :: xhtmlAttrToks (fAttrs a)) = some (some u) := by
      simp [lookupAttr, xmlns, xmlnsName]
    have h2 : (resolveAttrs ((xmlns, some u) :: xhtmlAttrToks (fAttrs a))).isSome = true := by
      have := resolveAttrs_isSome _ hx.2
      simp only [resolveAttrs, xmlns, xmlnsName, ↓reduceIte]
      exact this
    simp [h1, h2]

mutual
  theorem scoped_tree (u : Str) : ∀ (n : Node) (s : Bool) (d : Nat) (rest : List Piece),
      (s = true → d ≠ 0) → xmlTreeOk (!s) n = true →
      scopedP u d (treePiecesXU u s n ++ rest) = scopedP u d rest
    | .elem t a ks, s, d, rest, hd, h => by
        simp only [xmlTreeOk, Bool.and_eq_true] at h
        obtain ⟨⟨hn, ha⟩, hk⟩ := h
        have hn' : (t.loc.any (· == ':')) = false := by simpa [nameNoColon] using hn
        have hA := attrsOkX_tree u s d a hd ha
        cases ks with
        | nil =>
          simp only [treePiecesXU, List.isEmpty_nil, ↓reduceIte]
          split
          · simp [scopedP, hn', hA]
          · simp [scopedP, hn', hA]
        | cons k ks' =>
          simp only [treePiecesXU, List.isEmpty_cons, Bool.false_eq_true, ↓reduceIte, List.cons_append,
            List.append_assoc, scopedP, hn', Bool.not_false, hA, Bool.true_and, List.singleton_append]
          rw [scoped_forest u (k :: ks') true (d + 1) _ (by intro _; omega) (by simpa using hk)]
          simp [scopedP]
    | .leaf e, s, d, rest, hd, h => by
        cases e with
        | text x f =>
          have hs : s = true := by simpa [xmlTreeOk] using h
          have := hd hs
          simp [treePiecesXU, scopedP, this]
        | comment x => simp [treePiecesXU, scopedP]
        | _ => simp [treePiecesXU]
  theorem scoped_forest (u : Str) : ∀ (ns : List Node) (s : Bool) (d : Nat) (rest : List Piece),
      (s = true → d ≠ 0) → xmlForestOk (!s) ns = true →
      scopedP u d (forestPiecesXU u s ns ++ rest) = scopedP u d rest
    | [], s, d, rest, _, _ => by simp [forestPiecesXU]
    | n :: ns, s, d, rest, hd, h => by
        simp only [xmlForestOk, Bool.and_eq_true] at h
        simp only [forestPiecesXU, List.append_assoc]
        rw [scoped_tree u n s d _ hd h.1, scoped_forest u ns s d rest hd h.2]
end

/-- namespace resolution of the tokens read back for a forest in namespace `u` -/
theorem xmlView_forest (u : Str) (ns : List Node) (h : xmlForestOk true ns = true) :
    xmlView [] (assemble (forestPiecesXU u false ns)) =
      some ((assemble (forestPiecesXU u false ns)).flatMap (xmlMapTok u)) := by
  have hs := scoped_forest u ns false 0 [] (by intro h; cases h) (by simpa using h)
  simp only [List.append_nil, scopedP] at hs
  rw [assemble_eq_merge]
  have := xmlView_mergeGo u (forestPiecesXU u false ns) 0 [] (by intro h; exact absurd rfl h) hs
  simpa using this

end Genshi.Reader

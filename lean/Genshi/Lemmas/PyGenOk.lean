/-
  C13 — a well-formed tree is one the generator accepts (`genOk`): every visitor it needs exists
  (`decide` over the generated visitor list) and every operator is in its table.
-/
import Genshi.Lemmas.PyParseFuel
namespace Genshi.Py
open Genshi.Gen

theorem hv_Name : hasVisitor cs!"Name" = true := by decide
theorem hv_Constant : hasVisitor cs!"Constant" = true := by decide
theorem hv_BoolOp : hasVisitor cs!"BoolOp" = true := by decide
theorem hv_BinOp : hasVisitor cs!"BinOp" = true := by decide
theorem hv_UnaryOp : hasVisitor cs!"UnaryOp" = true := by decide
theorem hv_Lambda : hasVisitor cs!"Lambda" = true := by decide
theorem hv_arguments : hasVisitor cs!"arguments" = true := by decide
theorem hv_arg : hasVisitor cs!"arg" = true := by decide
theorem hv_IfExp : hasVisitor cs!"IfExp" = true := by decide
theorem hv_Dict : hasVisitor cs!"Dict" = true := by decide
theorem hv_ListComp : hasVisitor cs!"ListComp" = true := by decide
theorem hv_GeneratorExp : hasVisitor cs!"GeneratorExp" = true := by decide
theorem hv_Yield : hasVisitor cs!"Yield" = true := by decide
theorem hv_Compare : hasVisitor cs!"Compare" = true := by decide
theorem hv_Call : hasVisitor cs!"Call" = true := by decide
theorem hv_Attribute : hasVisitor cs!"Attribute" = true := by decide
theorem hv_Subscript : hasVisitor cs!"Subscript" = true := by decide
theorem hv_Starred : hasVisitor cs!"Starred" = true := by decide
theorem hv_List : hasVisitor cs!"List" = true := by decide
theorem hv_Tuple : hasVisitor cs!"Tuple" = true := by decide

theorem ns_expr {x : PyExpr} (h : isExpr x = true) : isSlice x = false := by cases x <;> simp_all [isExpr, isSlice]
theorem ns_elt {x : PyExpr} (h : isElt x = true) : isSlice x = false := by cases x <;> simp_all [isElt, isExpr, isSlice]
theorem ns_kw {x : PyExpr} (h : isKw x = true) : isSlice x = false := by cases x <;> simp_all [isKw, isSlice]
theorem ns_comp {x : PyExpr} (h : isComp x = true) : isSlice x = false := by cases x <;> simp_all [isComp, isSlice]
theorem ns_ditem {x : PyExpr} (h : isDItem x = true) : isSlice x = false := by cases x <;> simp_all [isDItem, isSlice]
theorem ns_cmp {x : PyExpr} (h : isCmp x = true) : isSlice x = false := by cases x <;> simp_all [isCmp, isSlice]
theorem ns_param {x : PyExpr} (h : isPlainParam x = true) : isSlice x = false := by cases x <;> simp_all [isPlainParam, isSlice]
theorem ns_var {x : PyExpr} (h : isVarParam x = true) : isSlice x = false := by cases x <;> simp_all [isVarParam, isSlice]
theorem ns_all {p : PyExpr → Bool} (hp : ∀ x, p x = true → isSlice x = false) {l : List PyExpr} (h : l.all p = true) :
    ∀ x ∈ l, isSlice x = false := fun x hx => hp x (List.all_eq_true.mp h x hx)
theorem ns_opt {o : Option PyExpr} (h : exprO o = true) : ∀ x, o = some x → isSlice x = false := by
  intro x hx; subst hx; exact ns_expr h
theorem ns_optv {o : Option PyExpr} (h : ∀ v, o = some v → isVarParam v = true) : ∀ x, o = some x → isSlice x = false :=
  fun x hx => ns_var (h x hx)

mutual
theorem wf_genOk : ∀ (e : PyExpr), WF e → genOk e = true
  | .name _, _ => by simp [genOk, hv_Name]
  | .const _, _ => by simp [genOk, hv_Constant]
  | .boolOp op vs, h => by
      simp only [WF] at h
      have hop : (lookup AstGen.boolOperators op).isSome = true := by rcases h.1 with rfl | rfl <;> decide
      have hne : vs ≠ [] := by intro e; subst e; simp at h
      simp [genOk, hv_BoolOp, hop, hne, wf_genOkL vs h.2.2.1]
  | .binOp l op r, h => by
      simp only [WF] at h
      simp [genOk, hv_BinOp, h.1, wf_genOk l h.2.1,
        wf_genOk r h.2.2.1]
  | .unaryOp op e, h => by
      simp only [WF] at h
      simp [genOk, hv_UnaryOp, h.1, wf_genOk e h.2.1]
  | .lambda po ar va ko ka body, h => by
      simp only [WF] at h
      obtain ⟨h1, h2, h3, h4, h5, h6, h7, h8, h9, h10, h11, h12⟩ := h
      simp [genOk, hv_Lambda, hv_arguments, wf_genOkL po h1,
        wf_genOkL ar h2, wf_genOkO va h3, wf_genOkL ko h4, wf_genOkO ka h5,
        wf_genOk body h6]
  | .ifExp t b o, h => by
      simp only [WF] at h
      simp [genOk, hv_IfExp,
        wf_genOk t h.1,
        wf_genOk b h.2.1,
        wf_genOk o h.2.2.1]
  | .dict items, h => by
      simp only [WF] at h
      simp [genOk, hv_Dict, wf_genOkL items h.1]
  | .listComp elt gens, h => by
      simp only [WF] at h
      simp [genOk, hv_ListComp,
        wf_genOk elt h.1,
        wf_genOkL gens h.2.2.1]
  | .genExp elt gens, h => by
      simp only [WF] at h
      simp [genOk, hv_GeneratorExp,
        wf_genOk elt h.1,
        wf_genOkL gens h.2.2.1]
  | .yield_ v, h => by
      simp only [WF] at h
      simp [genOk, hv_Yield, wf_genOkO v h.1]
  | .compare l rest, h => by
      simp only [WF] at h
      simp [genOk, hv_Compare,
        wf_genOk l h.1,
        wf_genOkL rest h.2.2.1]
  | .call f args kws, h => by
      simp only [WF] at h
      simp [genOk, hv_Call,
        wf_genOk f h.1,
        wf_genOkL args h.2.2.1,
        wf_genOkL kws h.2.2.2.2.1]
  | .attribute v a, h => by
      simp only [WF] at h
      simp [genOk, hv_Attribute,
        wf_genOk v h.1]
  | .subscript v s, h => by
      simp only [WF] at h
      simp [genOk, hv_Subscript, wf_genOk v h.1, wf_genOk s h.2.2.1]
  | .slice l u st, h => by
      simp only [WF] at h
      simp [genOk, wf_genOkO l h.1, wf_genOkO u h.2.1, wf_genOkO st h.2.2.1]
  | .starred e, h => by
      simp only [WF] at h
      simp [genOk, hv_Starred,
        wf_genOk e h.1]
  | .list elts, h => by
      simp only [WF] at h
      simp [genOk, hv_List, wf_genOkL elts h.1]
  | .tuple elts, h => by
      simp only [WF] at h
      have : elts.any isSlice = false := by
        rw [List.any_eq_false]
        intro x hx
        simpa using ns_elt (List.all_eq_true.mp h.2 x hx)
      simp [genOk, hv_Tuple, wf_genOkL elts h.1, this]
  | .unsupported _, h => by simp [WF] at h
  | .keyword _ v, h => by
      simp only [WF] at h
      simp [genOk, wf_genOk v h.2.1]
  | .comp t it ifs _, h => by
      simp only [WF] at h
      simp [genOk, wf_genOk t h.1,
        wf_genOk it h.2.2.1,
        wf_genOkL ifs h.2.2.2.2.1]
  | .param _ ann d, h => by
      simp only [WF] at h
      simp [genOk, hv_arg, wf_genOkO ann h.2.1, wf_genOkO d h.2.2.1]
  | .dictItem k v, h => by
      simp only [WF] at h
      simp [genOk, wf_genOkO k h.1, wf_genOk v h.2.2.1]
  | .cmpRhs op e, h => by
      simp only [WF] at h
      simp [genOk, h.1, wf_genOk e h.2.1]
theorem wf_genOkL : ∀ (es : List PyExpr), WFL es → genOkList es = true
  | [], _ => rfl
  | e :: es, h => by
      simp only [WFL] at h
      simp [genOkList, wf_genOk e h.1, wf_genOkL es h.2]
theorem wf_genOkO : ∀ (o : Option PyExpr), WFO o → genOkOpt o = true
  | none, _ => rfl
  | some e, h => by
      simp only [WFO] at h
      simp [genOkOpt, wf_genOk e h]
end


/-! ### rejection: a node type without visitor, or an operator missing from its table, anywhere in
    the tree makes the generator raise -/

mutual
/-- the tree contains a node class `ASTCodeGenerator` has no `visit_*` method for, or an
    operator that is not in the generator's table -/
def rejects : PyExpr → Bool
  | .name _ => false
  | .const _ => false
  | .boolOp op vs => (lookup AstGen.boolOperators op).isNone || rejectsL vs
  | .binOp l op r => (lookup AstGen.binaryOperators op).isNone || rejects l || rejects r
  | .unaryOp op e => (lookup AstGen.unaryOperators op).isNone || rejects e
  | .lambda po ar va ko ka body => rejectsL po || rejectsL ar || rejectsO va || rejectsL ko || rejectsO ka || rejects body
  | .ifExp t b o => rejects t || rejects b || rejects o
  | .dict items => rejectsL items
  | .listComp elt gens => rejects elt || rejectsL gens
  | .genExp elt gens => rejects elt || rejectsL gens
  | .yield_ v => rejectsO v
  | .compare l rest => rejects l || rejectsL rest
  | .call f args kws => rejects f || rejectsL args || rejectsL kws
  | .attribute v _ => rejects v
  | .subscript v s => rejects v || rejects s
  | .slice l u st => rejectsO l || rejectsO u || rejectsO st
  | .starred e => rejects e
  | .list elts => rejectsL elts
  | .tuple elts => rejectsL elts
  | .unsupported k => !hasVisitor k
  | .keyword _ v => rejects v
  | .comp t it ifs _ => rejects t || rejects it || rejectsL ifs
  | .param _ ann d => rejectsO ann || rejectsO d
  | .dictItem k v => rejectsO k || rejects v
  | .cmpRhs op e => (lookup AstGen.comparisonOperators op).isNone || rejects e
def rejectsL : List PyExpr → Bool
  | [] => false
  | e :: es => rejects e || rejectsL es
def rejectsO : Option PyExpr → Bool
  | none => false
  | some e => rejects e
end

mutual
theorem genOk_not_rejects : ∀ (e : PyExpr), genOk e = true → rejects e = false
  | .name _, _ => rfl
  | .const _, _ => rfl
  | .boolOp op vs, h => by
      simp only [genOk, Bool.and_eq_true] at h
      simp [rejects, genOkL_not_rejects vs h.2, h.1.1.2]
  | .binOp l op r, h => by
      simp only [genOk, Bool.and_eq_true] at h
      simp [rejects, genOk_not_rejects l h.1.2, genOk_not_rejects r h.2, h.1.1.2]
  | .unaryOp op e, h => by
      simp only [genOk, Bool.and_eq_true] at h
      simp [rejects, genOk_not_rejects e h.2, h.1.2]
  | .lambda po ar va ko ka body, h => by
      simp only [genOk, Bool.and_eq_true] at h
      simp [rejects, genOkL_not_rejects po h.1.1.1.1.1.2, genOkL_not_rejects ar h.1.1.1.1.2, genOkO_not_rejects va h.1.1.1.2,
        genOkL_not_rejects ko h.1.1.2, genOkO_not_rejects ka h.1.2, genOk_not_rejects body h.2]
  | .ifExp t b o, h => by
      simp only [genOk, Bool.and_eq_true] at h
      simp [rejects, genOk_not_rejects t h.1.1.2, genOk_not_rejects b h.1.2, genOk_not_rejects o h.2]
  | .dict items, h => by
      simp only [genOk, Bool.and_eq_true] at h
      simp [rejects, genOkL_not_rejects items h.2]
  | .listComp elt gens, h => by
      simp only [genOk, Bool.and_eq_true] at h
      simp [rejects, genOk_not_rejects elt h.1.2, genOkL_not_rejects gens h.2]
  | .genExp elt gens, h => by
      simp only [genOk, Bool.and_eq_true] at h
      simp [rejects, genOk_not_rejects elt h.1.2, genOkL_not_rejects gens h.2]
  | .yield_ v, h => by
      simp only [genOk, Bool.and_eq_true] at h
      simp [rejects, genOkO_not_rejects v h.2]
  | .compare l rest, h => by
      simp only [genOk, Bool.and_eq_true] at h
      simp [rejects, genOk_not_rejects l h.1.2, genOkL_not_rejects rest h.2]
  | .call f args kws, h => by
      simp only [genOk, Bool.and_eq_true] at h
      simp [rejects, genOk_not_rejects f h.1.1.2, genOkL_not_rejects args h.1.2, genOkL_not_rejects kws h.2]
  | .attribute v _, h => by
      simp only [genOk, Bool.and_eq_true] at h
      simp [rejects, genOk_not_rejects v h.2]
  | .subscript v s, h => by
      simp only [genOk, Bool.and_eq_true] at h
      simp [rejects, genOk_not_rejects v h.1.2, genOk_not_rejects s h.2]
  | .slice l u st, h => by
      simp only [genOk, Bool.and_eq_true] at h
      simp [rejects, genOkO_not_rejects l h.1.1, genOkO_not_rejects u h.1.2, genOkO_not_rejects st h.2]
  | .starred e, h => by
      simp only [genOk, Bool.and_eq_true] at h
      simp [rejects, genOk_not_rejects e h.2]
  | .list elts, h => by
      simp only [genOk, Bool.and_eq_true] at h
      simp [rejects, genOkL_not_rejects elts h.2]
  | .tuple elts, h => by
      simp only [genOk, Bool.and_eq_true] at h
      simp [rejects, genOkL_not_rejects elts h.1.2]
  | .unsupported k, h => by
      simp only [genOk] at h
      simp [rejects, h]
  | .keyword _ v, h => by
      simp only [genOk] at h
      simp [rejects, genOk_not_rejects v h]
  | .comp t it ifs _, h => by
      simp only [genOk, Bool.and_eq_true] at h
      simp [rejects, genOk_not_rejects t h.1.1, genOk_not_rejects it h.1.2, genOkL_not_rejects ifs h.2]
  | .param _ ann d, h => by
      simp only [genOk, Bool.and_eq_true] at h
      simp [rejects, genOkO_not_rejects ann h.1.2, genOkO_not_rejects d h.2]
  | .dictItem k v, h => by
      simp only [genOk, Bool.and_eq_true] at h
      simp [rejects, genOkO_not_rejects k h.1, genOk_not_rejects v h.2]
  | .cmpRhs op e, h => by
      simp only [genOk, Bool.and_eq_true] at h
      simp [rejects, genOk_not_rejects e h.2, h.1]
theorem genOkL_not_rejects : ∀ (es : List PyExpr), genOkList es = true → rejectsL es = false
  | [], _ => rfl
  | e :: es, h => by
      simp only [genOkList, Bool.and_eq_true] at h
      simp [rejectsL, genOk_not_rejects e h.1, genOkL_not_rejects es h.2]
theorem genOkO_not_rejects : ∀ (o : Option PyExpr), genOkOpt o = true → rejectsO o = false
  | none, _ => rfl
  | some e, h => by
      simp only [genOkOpt] at h
      simp [rejectsO, genOk_not_rejects e h]
end

-- all nodes of a tree, in pre-order (for "no field is dropped")
mutual
def subterms : PyExpr → List PyExpr
  | .name id => [.name id]
  | .const c => [.const c]
  | .boolOp op vs => .boolOp op vs :: subtermsL vs
  | .binOp l op r => .binOp l op r :: (subterms l ++ subterms r)
  | .unaryOp op e => .unaryOp op e :: subterms e
  | .lambda po ar va ko ka body =>
      .lambda po ar va ko ka body :: (subtermsL po ++ subtermsL ar ++ subtermsO va ++ subtermsL ko ++ subtermsO ka ++ subterms body)
  | .ifExp t b o => .ifExp t b o :: (subterms t ++ subterms b ++ subterms o)
  | .dict items => .dict items :: subtermsL items
  | .listComp elt gens => .listComp elt gens :: (subterms elt ++ subtermsL gens)
  | .genExp elt gens => .genExp elt gens :: (subterms elt ++ subtermsL gens)
  | .yield_ v => .yield_ v :: subtermsO v
  | .compare l rest => .compare l rest :: (subterms l ++ subtermsL rest)
  | .call f args kws => .call f args kws :: (subterms f ++ subtermsL args ++ subtermsL kws)
  | .attribute v a => .attribute v a :: subterms v
  | .subscript v s => .subscript v s :: (subterms v ++ subterms s)
  | .slice l u st => .slice l u st :: (subtermsO l ++ subtermsO u ++ subtermsO st)
  | .starred e => .starred e :: subterms e
  | .list elts => .list elts :: subtermsL elts
  | .tuple elts => .tuple elts :: subtermsL elts
  | .unsupported k => [.unsupported k]
  | .keyword n v => .keyword n v :: subterms v
  | .comp t it ifs a => .comp t it ifs a :: (subterms t ++ subterms it ++ subtermsL ifs)
  | .param n ann d => .param n ann d :: (subtermsO ann ++ subtermsO d)
  | .dictItem k v => .dictItem k v :: (subtermsO k ++ subterms v)
  | .cmpRhs op e => .cmpRhs op e :: subterms e
def subtermsL : List PyExpr → List PyExpr
  | [] => []
  | e :: es => subterms e ++ subtermsL es
def subtermsO : Option PyExpr → List PyExpr
  | none => []
  | some e => subterms e
end

end Genshi.Py

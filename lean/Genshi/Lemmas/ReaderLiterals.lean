/-
  Helper lemmas for C08: the DOCTYPE and XML-declaration literals the serializers
  write are parsed back into the fields of the event they were made from
  (`parseDoctype ∘ doctypeContent`, `parseXmlDecl ∘ xmlDeclContent`), and the field
  conditions under which the literals are inside the tokenizer's hypotheses
  (`dtScan`, `piSafe`).
-/
import Genshi.Lemmas.ReaderProlog
namespace Genshi.Reader
open Genshi Genshi.Escape Genshi.Output

/-! ### scanning helpers -/

theorem takeUntil_append (p : Char → Bool) (a : Str) (c : Char) (rest : Str)
    (ha : ∀ x ∈ a, p x = false) (hc : p c = true) :
    takeUntil p (a ++ c :: rest) = (a, c :: rest) := by
  induction a with
  | nil => simp [takeUntil, hc]
  | cons x xs ih =>
    have hx : p x = false := ha x (by simp)
    have := ih (fun y hy => ha y (by simp [hy]))
    simp [takeUntil, hx, this]

theorem takeUntil_all (p : Char → Bool) (a : Str) (ha : ∀ x ∈ a, p x = false) :
    takeUntil p a = (a, []) := by
  induction a with
  | nil => rfl
  | cons x xs ih =>
    have hx : p x = false := ha x (by simp)
    have := ih (fun y hy => ha y (by simp [hy]))
    simp [takeUntil, hx, this]

theorem quoted_dq (v rest : Str) (hv : ∀ x ∈ v, (x == '"') = false) :
    quoted ('"' :: (v ++ '"' :: rest)) = some (v, rest) := by
  simp [quoted, takeUntil_append (· == '"') v '"' rest hv (by decide)]

theorem quoted_sq (v rest : Str) (hv : ∀ x ∈ v, (x == '\'') = false) :
    quoted ('\'' :: (v ++ '\'' :: rest)) = some (v, rest) := by
  simp [quoted, takeUntil_append (· == '\'') v '\'' rest hv (by decide)]

/-- Python truthiness of an optional string: `None` and `''` are the same thing to the serializer -/
def normOpt : Option Str → Option Str
  | some s => if s.isEmpty then none else some s
  | none => none

theorem normOpt_truthy (x : Option Str) : normOpt x = if truthy x then some (x.getD []) else none := by
  cases x with
  | none => rfl
  | some s => by_cases h : s.isEmpty = true <;> simp [normOpt, truthy, h]

/-! ### DOCTYPE -/

/-- the fields of a DOCTYPE event can be told apart in the literal: no blank, `>` or quote in the
    name, no `"` in the public identifier, not both kinds of quote in the system identifier -/
def dtFieldsOk (n : Str) (p s : Option Str) : Bool :=
  n.all (fun c => c != ' ' && c != '>' && c != '"' && c != '\'') &&
  (p.getD []).all (· != '"') &&
  (!(s.getD []).any (· == '"') || (s.getD []).all (· != '\''))

/-- the system-identifier part of the literal -/
def sysLit (s : Option Str) : Str :=
  if truthy s then
    (if (s.getD []).any (· == '"') then [' ', '\''] ++ s.getD [] ++ ['\''] else [' ', '"'] ++ s.getD [] ++ ['"'])
  else []

theorem doctypeContent_eq (n : Str) (p s : Option Str) :
    doctypeContent n p s = n ++
      ((if truthy p then kwPublic ++ '"' :: (p.getD [] ++ ['"'])
        else if truthy s then kwSystem else []) ++ sysLit s) := by
  simp only [doctypeContent, sysLit, kwPublic, kwSystem, List.append_assoc]
  split <;> simp

theorem sysLit_cases (s : Option Str)
    (h : (!(s.getD []).any (· == '"') || (s.getD []).all (· != '\'')) = true) :
    (sysLit s = [] ∧ normOpt s = none) ∨
    (∃ q : Str, sysLit s = ' ' :: q ∧ quoted q = some (s.getD [], []) ∧ normOpt s = some (s.getD [])) := by
  rw [normOpt_truthy]
  by_cases ht : truthy s = true
  · right
    simp only [sysLit, ht, ↓reduceIte]
    by_cases hq : (s.getD []).any (· == '"') = true
    · have hs : ∀ x ∈ s.getD [], (x == '\'') = false := by
        simp only [hq, Bool.not_true, Bool.false_or, List.all_eq_true, bne_iff_ne, ne_eq] at h
        intro x hx; simpa using h x hx
      refine ⟨'\'' :: (s.getD [] ++ ['\'']), by simp [hq], ?_, trivial⟩
      exact quoted_sq _ [] hs
    · have hs : ∀ x ∈ s.getD [], (x == '"') = false := by
        simp only [Bool.not_eq_true, List.any_eq_false, beq_iff_eq] at hq
        intro x hx; simpa using hq x hx
      refine ⟨'"' :: (s.getD [] ++ ['"']), by simp [hq], ?_, trivial⟩
      exact quoted_dq _ [] hs
  · left
    simp [sysLit, ht]

/-- the DOCTYPE literal is parsed back into the fields of the event (empty identifiers are `None`) -/
theorem parseDoctype_doctypeContent (n : Str) (p s : Option Str) (h : dtFieldsOk n p s = true) :
    parseDoctype (doctypeContent n p s) = some (n, normOpt p, normOpt s) := by
  simp only [dtFieldsOk, Bool.and_eq_true] at h
  obtain ⟨⟨hn, hp⟩, hs⟩ := h
  have hn' : ∀ x ∈ n, (x == ' ') = false := by
    intro x hx
    have := List.all_eq_true.mp hn x hx
    simp only [Bool.and_eq_true, bne_iff_ne, ne_eq] at this
    simpa using this.1.1.1
  have hp' : ∀ x ∈ p.getD [], (x == '"') = false := by
    intro x hx
    have := List.all_eq_true.mp hp x hx
    simpa using this
  rw [doctypeContent_eq]
  rcases sysLit_cases s hs with ⟨hl, hno⟩ | ⟨q, hl, hq, hno⟩
  · -- no system identifier
    rw [hl, hno, normOpt_truthy p]
    by_cases hpt : truthy p = true
    · have ht : takeUntil (· == ' ') (n ++ ((kwPublic ++ '"' :: (p.getD [] ++ ['"'])) ++ [])) =
          (n, kwPublic ++ '"' :: (p.getD [] ++ ['"'])) := by
        have := takeUntil_append (· == ' ') n ' ' (['P', 'U', 'B', 'L', 'I', 'C', ' ', '"'] ++ (p.getD [] ++ ['"'])) hn'
          (by decide)
        simpa [kwPublic] using this
      simp only [hpt, ↓reduceIte]
      simp only [parseDoctype, ht]
      have hq := quoted_dq (p.getD []) [] hp'
      simp [kwPublic, List.isPrefixOf, hq]
    · have hst : truthy s = false := by
        by_cases hx : truthy s = true
        · simp [sysLit, hx] at hl; split at hl <;> simp at hl
        · simpa using hx
      have ht : takeUntil (· == ' ') (n ++ ([] ++ [])) = (n, []) := by
        simpa using takeUntil_all (· == ' ') n hn'
      simp only [hpt, hst, Bool.false_eq_true, ↓reduceIte]
      simp only [parseDoctype, ht]
      simp [kwPublic, kwSystem]
  · rw [hl, hno, normOpt_truthy p]
    have hst : truthy s = true := by
      by_cases hx : truthy s = true
      · exact hx
      · simp [sysLit, hx] at hl
    by_cases hpt : truthy p = true
    · have ht : takeUntil (· == ' ') (n ++ ((kwPublic ++ '"' :: (p.getD [] ++ ['"'])) ++ ' ' :: q)) =
          (n, kwPublic ++ '"' :: (p.getD [] ++ '"' :: ' ' :: q)) := by
        have := takeUntil_append (· == ' ') n ' '
          (['P', 'U', 'B', 'L', 'I', 'C', ' ', '"'] ++ (p.getD [] ++ '"' :: ' ' :: q)) hn' (by decide)
        simpa [kwPublic] using this
      simp only [hpt, ↓reduceIte]
      simp only [parseDoctype, ht]
      have hq2 := quoted_dq (p.getD []) (' ' :: q) hp'
      simp [kwPublic, List.isPrefixOf, hq2, hq]
    · have ht : takeUntil (· == ' ') (n ++ (kwSystem ++ ' ' :: q)) = (n, kwSystem ++ ' ' :: q) := by
        have := takeUntil_append (· == ' ') n ' ' (['S', 'Y', 'S', 'T', 'E', 'M'] ++ ' ' :: q) hn' (by decide)
        simpa [kwSystem] using this
      simp only [hpt, hst, Bool.false_eq_true, ↓reduceIte]
      simp only [parseDoctype, ht]
      simp [kwPublic, kwSystem, List.isPrefixOf, hq]

/-! `dtScan`: the literal is well quoted -/

/-- no `>` in the identifiers: an HTML parser ends the declaration at the first `>`, quoted or not -/
def dtNoGt (p s : Option Str) : Bool := (p.getD []).all (· != '>') && (s.getD []).all (· != '>')

theorem dtScan_append_plain (xml : Bool) (a rest : Str) (ha : ∀ c ∈ a, (c != '>' && c != '"' && c != '\'') = true) :
    dtScan xml none (a ++ rest) = dtScan xml none rest := by
  induction a with
  | nil => rfl
  | cons c cs ih =>
    have hc := ha c (by simp)
    simp only [Bool.and_eq_true, bne_iff_ne, ne_eq] at hc
    have ih' := ih (fun y hy => ha y (by simp [hy]))
    simp [dtScan, hc.1.1, hc.1.2, hc.2, ih']

theorem dtScan_quoted (xml : Bool) (q : Char) (v rest : Str) (hv : ∀ c ∈ v, (c == q) = false)
    (hg : xml = false → ∀ c ∈ v, (c == '>') = false) :
    dtScan xml (some q) (v ++ q :: rest) = dtScan xml none rest := by
  induction v with
  | nil => simp [dtScan]
  | cons c cs ih =>
    have hc := hv c (by simp)
    have ih' := ih (fun y hy => hv y (by simp [hy])) (fun hx y hy => hg hx y (by simp [hy]))
    have h2 : (!xml && c == '>') = false := by
      cases xml with
      | true => rfl
      | false => simpa using hg rfl c (by simp)
    simp only [List.cons_append, dtScan, hc, Bool.false_eq_true, ↓reduceIte, h2, ih']

theorem dtScan_sysLit (xml : Bool) (s : Option Str)
    (h : (!(s.getD []).any (· == '"') || (s.getD []).all (· != '\'')) = true)
    (hg : xml = false → ∀ c ∈ s.getD [], (c == '>') = false) : dtScan xml none (sysLit s) = true := by
  by_cases ht : truthy s = true
  · simp only [sysLit, ht, ↓reduceIte]
    by_cases hq : (s.getD []).any (· == '"') = true
    · have hs : ∀ x ∈ s.getD [], (x == '\'') = false := by
        simp only [hq, Bool.not_true, Bool.false_or, List.all_eq_true, bne_iff_ne, ne_eq] at h
        intro x hx; simpa using h x hx
      have := dtScan_quoted xml '\'' (s.getD []) [] hs hg
      simp [hq, dtScan, this]
    · have hs : ∀ x ∈ s.getD [], (x == '"') = false := by
        simp only [Bool.not_eq_true, List.any_eq_false, beq_iff_eq] at hq
        intro x hx; simpa using hq x hx
      have := dtScan_quoted xml '"' (s.getD []) [] hs hg
      simp [hq, dtScan, this]
  · simp [sysLit, ht, dtScan]

/-- under the field conditions the literal is inside the tokenizer's hypothesis; an HTML parser
    additionally needs identifiers without `>` -/
theorem dtScan_doctypeContent (xml : Bool) (n : Str) (p s : Option Str) (h : dtFieldsOk n p s = true)
    (hgt : xml = false → dtNoGt p s = true) :
    dtScan xml none (doctypeContent n p s) = true := by
  simp only [dtFieldsOk, Bool.and_eq_true] at h
  obtain ⟨⟨hn, hp⟩, hs⟩ := h
  have hn' : ∀ c ∈ n, (c != '>' && c != '"' && c != '\'') = true := by
    intro x hx
    have := List.all_eq_true.mp hn x hx
    simp only [Bool.and_eq_true] at this ⊢
    exact ⟨⟨this.1.1.2, this.1.2⟩, this.2⟩
  have hp' : ∀ x ∈ p.getD [], (x == '"') = false := by
    intro x hx
    have := List.all_eq_true.mp hp x hx
    simpa using this
  have hgp : xml = false → ∀ c ∈ p.getD [], (c == '>') = false := by
    intro hx c hc
    have := hgt hx
    simp only [dtNoGt, Bool.and_eq_true] at this
    simpa using List.all_eq_true.mp this.1 c hc
  have hgs : xml = false → ∀ c ∈ s.getD [], (c == '>') = false := by
    intro hx c hc
    have := hgt hx
    simp only [dtNoGt, Bool.and_eq_true] at this
    simpa using List.all_eq_true.mp this.2 c hc
  rw [doctypeContent_eq, dtScan_append_plain xml n _ hn']
  have hsys := dtScan_sysLit xml s hs hgs
  by_cases hpt : truthy p = true
  · simp only [hpt, ↓reduceIte, kwPublic, List.cons_append, List.nil_append, List.append_assoc]
    have := dtScan_quoted xml '"' (p.getD []) ([] ++ sysLit s) hp' hgp
    simp only [List.nil_append] at this
    simp [dtScan, this, hsys]
  · by_cases hst : truthy s = true
    · simp [hpt, hst, kwSystem, dtScan, hsys]
    · simp [hpt, hst, hsys]

/-! ### XML declaration -/

def standaloneNorm (s : Int) : Int := if s = -1 then -1 else if s = 0 then 0 else 1

def xdFieldsOk (v : Str) (e : Option Str) : Bool :=
  v.all (· != '"') && (e.getD []).all (· != '"')

theorem pseudoAttrs_one (fuel : Nat) (k v rest : Str) (hk : ∀ x ∈ k, (x == '=') = false)
    (hv : ∀ x ∈ v, (x == '"') = false) :
    pseudoAttrs (fuel + 1) (' ' :: (k ++ '=' :: '"' :: (v ++ '"' :: rest))) =
      (pseudoAttrs fuel rest).map ((k, v) :: ·) := by
  simp [pseudoAttrs, takeUntil_append (· == '=') k '=' _ hk (by decide), quoted_dq v rest hv]

/-- the XML declaration literal is parsed back into the fields of the event -/
theorem parseXmlDecl_xmlDeclContent (v : Str) (e : Option Str) (s : Int) (h : xdFieldsOk v e = true) :
    parseXmlDecl (xmlDeclContent v e s) = some (.xmlDecl v (normOpt e) (standaloneNorm s)) := by
  simp only [xdFieldsOk, Bool.and_eq_true] at h
  have hv : ∀ x ∈ v, (x == '"') = false := by
    intro x hx; simpa using List.all_eq_true.mp h.1 x hx
  have he : ∀ x ∈ e.getD [], (x == '"') = false := by
    intro x hx; simpa using List.all_eq_true.mp h.2 x hx
  -- the literal as a list of pseudo-attributes
  have hlit : (xmlDeclContent v e s).drop 3 =
      ' ' :: (['v','e','r','s','i','o','n'] ++ '=' :: '"' :: (v ++ '"' ::
        ((if truthy e then ' ' :: (['e','n','c','o','d','i','n','g'] ++ '=' :: '"' :: (e.getD [] ++ ['"'])) else []) ++
         (if s != -1 then ' ' :: (['s','t','a','n','d','a','l','o','n','e'] ++ '=' :: '"' ::
            ((if s != 0 then ['y','e','s'] else ['n','o']) ++ ['"'])) else [])))) := by
    simp only [xmlDeclContent, List.append_assoc, List.cons_append, List.nil_append, List.drop_succ_cons, List.drop_zero]
  have hlen : ∃ f, (xmlDeclContent v e s).length + 1 = f + 4 := by
    refine ⟨(xmlDeclContent v e s).length - 3, ?_⟩
    have : 13 ≤ (xmlDeclContent v e s).length := by simp [xmlDeclContent]
    omega
  obtain ⟨f, hf⟩ := hlen
  have hyes : ∀ x ∈ (['y','e','s'] : Str), (x == '"') = false := by decide
  have hno : ∀ x ∈ (['n','o'] : Str), (x == '"') = false := by decide
  have k1 : ∀ x ∈ (['v','e','r','s','i','o','n'] : Str), (x == '=') = false := by decide
  have k2 : ∀ x ∈ (['e','n','c','o','d','i','n','g'] : Str), (x == '=') = false := by decide
  have k3 : ∀ x ∈ (['s','t','a','n','d','a','l','o','n','e'] : Str), (x == '=') = false := by decide
  simp only [parseXmlDecl, hlit, hf]
  rw [pseudoAttrs_one (f + 3) _ v _ k1 hv, normOpt_truthy]
  by_cases het : truthy e = true
  · simp only [het, ↓reduceIte]
    by_cases hs1 : s = -1
    · subst hs1
      simp only [bne_self_eq_false, Bool.false_eq_true, ↓reduceIte, List.append_nil]
      have := pseudoAttrs_one (f + 2) ['e','n','c','o','d','i','n','g'] (e.getD []) [] k2 he
      simp only [List.cons_append, List.nil_append] at this ⊢
      rw [this]
      simp [pseudoAttrs, lookupPseudo, standaloneNorm]
    · have hs1' : (s != -1) = true := by simpa using hs1
      simp only [hs1', ↓reduceIte]
      have a2 := pseudoAttrs_one (f + 2) ['e','n','c','o','d','i','n','g'] (e.getD [])
        (' ' :: (['s','t','a','n','d','a','l','o','n','e'] ++ '=' :: '"' ::
            ((if s != 0 then ['y','e','s'] else ['n','o']) ++ ['"']))) k2 he
      simp only [List.cons_append, List.nil_append, List.append_assoc] at a2 ⊢
      rw [a2]
      by_cases hs0 : s = 0
      · subst hs0
        have a3 := pseudoAttrs_one (f + 1) ['s','t','a','n','d','a','l','o','n','e'] ['n','o'] [] k3 hno
        simp only [List.cons_append, List.nil_append] at a3
        simp only [bne_self_eq_false, Bool.false_eq_true, ↓reduceIte, List.cons_append, List.nil_append]
        rw [a3]
        simp [pseudoAttrs, lookupPseudo, standaloneNorm]
      · have hs0' : (s != 0) = true := by simpa using hs0
        have a3 := pseudoAttrs_one (f + 1) ['s','t','a','n','d','a','l','o','n','e'] ['y','e','s'] [] k3 hyes
        simp only [List.cons_append, List.nil_append] at a3
        simp only [hs0', ↓reduceIte, List.cons_append, List.nil_append]
        rw [a3]
        simp [pseudoAttrs, lookupPseudo, standaloneNorm, hs1, hs0]
  · simp only [het, Bool.false_eq_true, ↓reduceIte, List.nil_append]
    by_cases hs1 : s = -1
    · subst hs1
      simp [pseudoAttrs, lookupPseudo, standaloneNorm]
    · have hs1' : (s != -1) = true := by simpa using hs1
      simp only [hs1', ↓reduceIte]
      by_cases hs0 : s = 0
      · subst hs0
        have a3 := pseudoAttrs_one (f + 2) ['s','t','a','n','d','a','l','o','n','e'] ['n','o'] [] k3 hno
        simp only [List.cons_append, List.nil_append] at a3
        simp only [bne_self_eq_false, Bool.false_eq_true, ↓reduceIte, List.cons_append, List.nil_append]
        rw [a3]
        simp [pseudoAttrs, lookupPseudo, standaloneNorm]
      · have hs0' : (s != 0) = true := by simpa using hs0
        have a3 := pseudoAttrs_one (f + 2) ['s','t','a','n','d','a','l','o','n','e'] ['y','e','s'] [] k3 hyes
        simp only [List.cons_append, List.nil_append] at a3
        simp only [hs0', ↓reduceIte, List.cons_append, List.nil_append]
        rw [a3]
        simp [pseudoAttrs, lookupPseudo, standaloneNorm, hs1, hs0]

/-- a literal without `>` is never ended early -/
theorem piSafe_of_no_gt (xml : Bool) (s : Str) (h : ∀ c ∈ s, (c == '>') = false) : ∀ q, piSafe xml q s = true := by
  induction s with
  | nil => intro q; rfl
  | cons c cs ih =>
    intro q
    have hc := h c (by simp)
    simp [piSafe, hc, ih (fun y hy => h y (by simp [hy]))]

def xdNoGt (v : Str) (e : Option Str) : Bool := v.all (· != '>') && (e.getD []).all (· != '>')

theorem piSafe_xmlDeclContent (v : Str) (e : Option Str) (s : Int) (h : xdNoGt v e = true) :
    piSafe true false (xmlDeclContent v e s) = true := by
  apply piSafe_of_no_gt
  simp only [xdNoGt, Bool.and_eq_true] at h
  have hv : ∀ x ∈ v, (x == '>') = false := by
    intro x hx; simpa using List.all_eq_true.mp h.1 x hx
  have he : ∀ x ∈ e.getD [], (x == '>') = false := by
    intro x hx; simpa using List.all_eq_true.mp h.2 x hx
  intro c hc
  simp only [xmlDeclContent, List.mem_append, List.mem_cons, List.not_mem_nil, or_false] at hc
  rcases hc with ((hc | hc) | hc) | hc
  · rcases hc with (hc | hc)
    · rcases hc with rfl | rfl | rfl | rfl | rfl | rfl | rfl | rfl | rfl | rfl | rfl | rfl | rfl <;> decide
    · exact hv c hc
  · subst hc; decide
  · split at hc
    · simp only [List.mem_append, List.mem_cons, List.not_mem_nil, or_false] at hc
      rcases hc with (hc | hc) | hc
      · rcases hc with rfl | rfl | rfl | rfl | rfl | rfl | rfl | rfl | rfl | rfl | rfl <;> decide
      · exact he c hc
      · subst hc; decide
    · simp at hc
  · split at hc
    · simp only [List.mem_append, List.mem_cons, List.not_mem_nil, or_false] at hc
      rcases hc with (hc | hc) | hc
      · rcases hc with rfl | rfl | rfl | rfl | rfl | rfl | rfl | rfl | rfl | rfl | rfl | rfl | rfl <;> decide
      · split at hc
        · simp at hc; rcases hc with rfl | rfl | rfl <;> decide
        · simp at hc; rcases hc with rfl | rfl <;> decide
      · subst hc; decide
    · simp at hc

example : parseDoctype (doctypeContent ['h','t','m','l'] (some ['-','/','/','W']) (some ['a','"','b'])) =
    some (['h','t','m','l'], some ['-','/','/','W'], some ['a','"','b']) := by decide

example : parseXmlDecl (xmlDeclContent ['1','.','0'] (some ['u']) 1) = some (.xmlDecl ['1','.','0'] (some ['u']) 1) := by
  decide

end Genshi.Reader

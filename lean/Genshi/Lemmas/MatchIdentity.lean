/-
  identity_body_is_identity at full strength: inserting a template whose body is ${select('.')}
  anywhere in the template list leaves the output unchanged.  From the pipeline theorem.
-/
import Genshi.Lemmas.MatchPipeline2
namespace Genshi.Match
open Genshi
variable {σ : Type}

theorem run_det {f g s : Nat} {en : Option Nat} {items : List (Item σ)} {m : List (MT σ)}
    {r r' : List (MT σ) × List Event} (h : run f s en items m = some r) (h' : run g s en items m = some r') : r = r' := by
  have a := run_mono_le h (Nat.le_max_left f g)
  have b := run_mono_le h' (Nat.le_max_right f g)
  rw [a] at b
  exact Option.some.inj b

/-- a template that never fires, built from any template (for its state type) -/
def dummyOf (t : MT σ) : MT σ := { t with step := fun st _ _ => (st, false), body := [] }

theorem dummy_neverFires (t : MT σ) : NeverFires (dummyOf t) := fun _ _ _ => rfl

theorem dummy_okt (t : MT σ) : OKt (dummyOf t) := ⟨fun _ => rfl, fun _ _ _ _ => rfl⟩

theorem ins_get_at (tn : MT σ) : ∀ (k : Nat) (mts : List (MT σ)), k ≤ mts.length → (ins tn k mts)[k]? = some tn := by
  intro k mts
  induction mts generalizing k with
  | nil => intro hk; simp at hk; subst hk; simp [ins]
  | cons t ts ih =>
    intro hk
    cases k with
    | zero => simp [ins]
    | succ k => simp only [ins, List.getElem?_cons_succ]; exact ih k (by simpa using hk)

theorem ins_forall {P : MT σ → Prop} (tn : MT σ) (hn : P tn) : ∀ (k : Nat) (mts : List (MT σ)), (∀ t ∈ mts, P t) →
    ∀ t ∈ ins tn k mts, P t := by
  intro k mts
  induction mts generalizing k with
  | nil => intro _ t ht; cases k <;> (simp [ins] at ht; rw [ht]; exact hn)
  | cons x xs ih =>
    intro h t ht
    cases k with
    | zero => simp only [ins, List.mem_cons] at ht; rcases ht with rfl | rfl | ht
              · exact hn
              · exact h _ (by simp)
              · exact h t (by simp [ht])
    | succ k =>
      simp only [ins, List.mem_cons] at ht
      rcases ht with rfl | ht
      · exact h _ (by simp)
      · exact ih k (fun y hy => h y (by simp [hy])) t ht

/-- two insertions at the same place agree everywhere but there -/
theorem ins_agree (ta tb : MT σ) (k : Nat) (mts : List (MT σ)) (hk : k ≤ mts.length) (w : Nat → Bool) (hw : w k = false) :
    AgreeOn w (ins ta k mts) (ins tb k mts) := by
  refine ⟨by rw [ins_length, ins_length], ?_⟩
  intro j hj
  have hjk : j ≠ k := by intro h; rw [h, hw] at hj; cases hj
  -- j = sh k p for some p
  by_cases hlt : j < k
  · have : sh k j = j := by simp [sh, hlt]
    rw [← this, ins_get ta k mts j hk, ins_get tb k mts j hk]
  · have hjk' : k < j := by omega
    have : sh k (j - 1) = j := by unfold sh; split <;> omega
    rw [← this, ins_get ta k mts (j - 1) hk, ins_get tb k mts (j - 1) hk]

/-- **Identity bodies, full strength.**  Insert at any position `k` of the template list a template
    whose body is `${select('.')}` — any path, any matcher, any hints.  On a well-nested stream, if
    both filters terminate (they do when given enough fuel), they yield the same output. -/
theorem run_identity_insert (f f' : Nat) (items : List (Item σ)) (L0 : List (MT σ)) (tid : MT σ) (k : Nat)
    (r r' : List (MT σ) × List Event) (hnr : NoReg items) (hneu : Neutral (evs items))
    (hok : ∀ t ∈ L0, OKt t) (hid : IdentityBody tid) (hff : FlagFree tid) (hk : k ≤ L0.length)
    (h : run f 0 none items L0 = some r) (h' : run f' 0 none items (ins tid k L0) = some r') : r'.2 = r.2 := by
  have hidok : OKt tid := by
    refine ⟨?_, hff⟩
    intro st; rw [hid]; simp [trackB]
  have hok' : ∀ t ∈ ins tid k L0, OKt t := ins_forall tid hidok k L0 hok
  -- the run without the template, cut at k
  obtain ⟨f1, oA, LA, hA, hB⟩ := pipeline_seq f 0 none items L0 r.1 r.2 k hnr hneu hok (Nat.zero_le k) (by intro n hn; cases hn) h
  -- the run with the template, cut at k and at k+1
  obtain ⟨f2, oA', LA', hA', hB'⟩ := pipeline_seq f' 0 none items (ins tid k L0) r'.1 r'.2 k hnr hneu hok' (Nat.zero_le k)
    (by intro n hn; cases hn) h'
  have hoA'n : Neutral oA' := fun s2 =>
    run_track _ _ _ _ _ _ (fun y hy => (hok' y hy).1) (fun y hy => absurd hy (hnr y)) hA' s2 s2 (hneu s2)
  have hokLA' := run_forall static_okt _ _ _ _ _ _ hok' (fun y hy => absurd hy (hnr y)) hA'
  obtain ⟨f3, oB1, LB1, hB1, hB2⟩ := pipeline_seq f2 k none (evItems oA') LA' r'.1 r'.2 (k + 1) (noReg_evItems _)
    (by simpa using hoA'n) hokLA' (by omega) (by intro n hn; cases hn) hB'
  -- pass A with and without the template: it is outside the window [0, k)
  have hwk : win 0 (some k) k = false := win_lo_false (Nat.le_refl k)
  obtain ⟨dA, _, hAins⟩ := run_ins f1 0 (some k) items L0 (LA, oA) k (dummyOf tid) 0 (some k) (dummy_neverFires tid) hk
    (by intro p; simp) (Or.inr ⟨k, k, rfl, rfl, fun p => by unfold sh; split <;> omega⟩) hA
  obtain ⟨X, hX, _, hXout⟩ := run_agree hnr (ins_agree (dummyOf tid) tid k L0 hk (win 0 (some k)) hwk) hAins
  have hAeq := run_det hX hA'
  simp only [Prod.mk.injEq] at hAeq
  obtain ⟨hXLA', hoA⟩ := hAeq
  subst hoA
  -- pass B1: only the identity template is asked; it changes nothing
  have hlLA' := run_len hnr hA'
  have hLA'k : LA'[k]? = some tid := by
    rw [run_outside hnr hA' k hwk]; exact ins_get_at tid k L0 hk
  have hB1id : oB1 = oA := by
    let D : List (MT σ) := LA'.map fun _ => dummyOf tid
    have hDl : D.length = LA'.length := by simp [D]
    obtain ⟨Y', hY', _, _⟩ := run_agree (noReg_evItems _) (agreeOn_splice (win k (some (k + 1))) LA' D hDl) hB1
    have hall : ∀ t ∈ splice (win k (some (k + 1))) LA' D, NeverFires t ∨ IdentityBody t := by
      intro t ht
      obtain ⟨j, hj⟩ := List.getElem?_of_mem ht
      rw [splice_get _ _ _ j hDl] at hj
      by_cases hwj : win k (some (k + 1)) j = true
      · simp only [hwj, ↓reduceIte] at hj
        have hjk : j = k := by
          have := (inWindow_iff _ _ _).mp hwj
          have h2 := this.2 (k + 1) rfl
          omega
        rw [hjk, hLA'k] at hj
        cases hj
        exact Or.inr hid
      · simp only [hwj, Bool.false_eq_true, ↓reduceIte] at hj
        have : t = dummyOf tid := by
          have := List.mem_of_getElem? hj
          simp only [D, List.mem_map] at this
          obtain ⟨_, _, rfl⟩ := this
          rfl
        rw [this]; exact Or.inl (dummy_neverFires tid)
    have := run_identity _ _ _ _ _ _ hall (fun y hy => absurd hy (noReg_evItems _ y)) hY'
    simpa using this
  subst hB1id
  -- pass B2 against the second pass of the run without the template
  obtain ⟨dB, _, hBins⟩ := run_ins f1 k none (evItems oB1) LA (r.1, r.2) k (dummyOf tid) (k + 1) none (dummy_neverFires tid)
    (by rw [run_len hnr hA]; exact hk) (by intro p; unfold sh; split <;> omega) (Or.inl ⟨rfl, rfl⟩) hB
  have hlLB1 := run_len (noReg_evItems _) hB1
  have hagree : AgreeOn (win (k + 1) none) (ins (dummyOf tid) k LA) LB1 := by
    refine ⟨by rw [hlLB1, hlLA', ins_length, ins_length, run_len hnr hA], ?_⟩
    intro j hj
    have hjk : k + 1 ≤ j := ((inWindow_iff _ _ _).mp hj).1
    have hshj : sh k (j - 1) = j := by unfold sh; split <;> omega
    -- left: slot j of the list without the template, shifted
    have e1 : (ins (dummyOf tid) k LA)[j]? = L0[j - 1]? := by
      have := ins_get (dummyOf tid) k LA (j - 1) (by rw [run_len hnr hA]; exact hk)
      rw [hshj] at this
      rw [this, run_outside hnr hA (j - 1) (win_lo_false (by omega))]
    -- right: untouched by B1 and by A'
    have e2 : LB1[j]? = L0[j - 1]? := by
      rw [run_outside (noReg_evItems _) hB1 j (win_lo_false (by omega)),
        run_outside hnr hA' j (win_lo_false (by omega))]
      have := ins_get tid k L0 (j - 1) hk
      rw [hshj] at this
      exact this
    rw [e1, e2]
  obtain ⟨Z, hZ, _, _⟩ := run_agree (noReg_evItems _) hagree hBins
  have := run_det hZ hB2
  simp only [Prod.mk.injEq] at this
  exact this.2.symm

end Genshi.Match

/-
  The whole-document pipeline: the eager filter with window [s, e) equals the filter with window
  [s, m) followed by the filter with window [m, e) on its output.
-/
import Genshi.Lemmas.MatchEquiv
namespace Genshi.Match
open Genshi
variable {σ : Type}

/-- the eager filter as a stage (so that `Frames` applies) -/
def runStage (f s : Nat) (en : Option Nat) (items : List (Item σ)) : List (MT σ) → Fed σ :=
  fun m => (run f s en items m).map fun r => (Auto.idle, r.1, r.2)

theorem runStage_some {f s : Nat} {en : Option Nat} {items : List (Item σ)} {m m' : List (MT σ)} {o : List Event}
    (h : run f s en items m = some (m', o)) : runStage f s en items m = some (.idle, m', o) := by
  simp [runStage, h]

theorem runStage_inv {f s : Nat} {en : Option Nat} {items : List (Item σ)} {m m' : List (MT σ)} {o : List Event}
    {A : Auto} (h : runStage f s en items m = some (A, m', o)) : run f s en items m = some (m', o) ∧ A = .idle := by
  unfold runStage at h
  cases hr : run f s en items m with
  | none => rw [hr] at h; simp at h
  | some r =>
    rw [hr] at h
    simp only [Option.map_some, Option.some.injEq, Prod.mk.injEq] at h
    obtain ⟨rfl, rfl, rfl⟩ := h
    exact ⟨rfl, rfl⟩

/-- **The eager filter reads and writes only the slots of its window.** -/
theorem run_frames : ∀ (f s : Nat) (en : Option Nat) (items : List (Item σ)), NoReg items →
    Frames (σ := σ) (win s en) (runStage f s en items) := by
  intro f
  induction f with
  | zero => intro s en items _ m y A' m' o _ h; simp [runStage, run] at h
  | succ f ih =>
    intro s en items hnr m y A' m' o hy h
    obtain ⟨hrun, rfl⟩ := runStage_inv h
    clear h
    have h := hrun
    clear hrun
    cases items with
    | nil =>
      simp [run] at h
      obtain ⟨rfl, rfl⟩ := h
      exact ⟨rfl, by simp [runStage, run]⟩
    | cons it rest =>
      cases it with
      | reg t => exact absurd (by simp) (hnr t)
      | ev e =>
        have hnr' : NoReg rest := fun x hx => hnr x (by simp [hx])
        by_cases hS : isStart e = true
        · rcases run_start_cases hS h with ⟨mts1, p, hsc, hp, hr⟩ |
            ⟨mts1, idx, t, inner, tail, rest', mts3, innerOut, mts4, out, p, hsc, ht, hst, h3, h4, h5, hr⟩
          · simp only [Prod.mk.injEq] at hr
            obtain ⟨rfl, rfl⟩ := hr
            have hl1 : mts1.length = m.length := by have := scan_length e s en 0 m; rw [hsc] at this; exact this
            obtain ⟨l2, e2⟩ := ih s en rest hnr' mts1 y .idle p.1 p.2 (by rw [hy, hl1]) (runStage_some hp)
            obtain ⟨e2, _⟩ := runStage_inv e2
            refine ⟨by rw [l2, hl1], ?_⟩
            apply runStage_some
            simp only [run, hS, ↓reduceIte, scan_splice e s en m y hy, hsc, e2, emit, Option.map_some]
          · simp only [Prod.mk.injEq] at hr
            obtain ⟨rfl, rfl⟩ := hr
            have hl1 : mts1.length = m.length := by have := scan_length e s en 0 m; rw [hsc] at this; exact this
            obtain ⟨hwi, _, _⟩ := scan_first e s en m idx (by rw [hsc])
            have hpe := preEnd_le t idx
            obtain ⟨hrest, _, _⟩ := strip_spec rest 0 inner tail rest' hst
            have hnin : NoReg inner := fun x hx => hnr' x (by rw [hrest]; simp [hx])
            have hnre : NoReg rest' := fun x hx => hnr' x (by rw [hrest]; simp [hx])
            have hlf := fired_length t idx mts1
            have f3 : Frames (σ := σ) (win s en) (runStage f s (some (preEnd t idx)) inner) :=
              Frames.widen (ih s (some (preEnd t idx)) inner hnin) (win_sub_inner hwi hpe.2)
            obtain ⟨l3, e3⟩ := f3 (fired t idx mts1) y .idle mts3 innerOut (by rw [hy, hlf, hl1]) (runStage_some h3)
            obtain ⟨e3, _⟩ := runStage_inv e3
            have f4 : Frames (σ := σ) (win s en) (runStage f (idx + 1) en
                (evItems (instantiate t.body (e :: innerOut ++ [tail])))) :=
              Frames.widen (ih (idx + 1) en _ (noReg_evItems _)) (win_sub_body hwi)
            obtain ⟨l4, e4⟩ := f4 mts3 y .idle mts4 out (by rw [hy, l3, hlf, hl1]) (runStage_some h4)
            obtain ⟨e4, _⟩ := runStage_inv e4
            have hl5 := updRange_length tail s (idx + 1) 0 mts4
            obtain ⟨l6, e6⟩ := ih s en rest' hnre _ y .idle p.1 p.2 (by rw [hy, hl5, l4, l3, hlf, hl1]) (runStage_some h5)
            obtain ⟨e6, _⟩ := runStage_inv e6
            refine ⟨by rw [l6, hl5, l4, l3, hlf, hl1], ?_⟩
            apply runStage_some
            simp only [run, hS, ↓reduceIte, scan_splice e s en m y hy, hsc]
            rw [splice_get_in (by rw [hy, hl1]) (show win s en idx = true from hwi)]
            simp only [ht, hst]
            rw [fired_splice t s en idx mts1 y (by rw [hy, hl1]) hwi, e3]
            simp only
            rw [e4]
            simp only
            rw [updRange_splice tail s en idx mts4 y (by rw [hy, l4, l3, hlf, hl1]) hwi, e6]
            simp
        · simp only [run, hS, Bool.false_eq_true, ↓reduceIte] at h
          by_cases hE : isEnd e = true
          · simp only [hE, ↓reduceIte] at h
            obtain ⟨q, hr, hq⟩ := emit_some h
            simp only [Prod.mk.injEq] at hq
            obtain ⟨rfl, rfl⟩ := hq
            have hl1 := scanEnd_length e s en 0 m
            obtain ⟨l2, e2⟩ := ih s en rest hnr' _ y .idle q.1 q.2 (by rw [hy, hl1]) (runStage_some hr)
            obtain ⟨e2, _⟩ := runStage_inv e2
            refine ⟨by rw [l2, hl1], ?_⟩
            apply runStage_some
            simp only [run, hS, Bool.false_eq_true, ↓reduceIte, hE, scanEnd_splice e s en m y hy, e2, emit, Option.map_some]
          · simp only [hE, Bool.false_eq_true, ↓reduceIte] at h
            obtain ⟨q, hr, hq⟩ := emit_some h
            simp only [Prod.mk.injEq] at hq
            obtain ⟨rfl, rfl⟩ := hq
            obtain ⟨l2, e2⟩ := ih s en rest hnr' m y .idle q.1 q.2 hy (runStage_some hr)
            obtain ⟨e2, _⟩ := runStage_inv e2
            refine ⟨l2, ?_⟩
            apply runStage_some
            simp only [run, hS, Bool.false_eq_true, ↓reduceIte, hE, e2, emit, Option.map_some]

/-- the splice form for `run` itself -/
theorem run_splice {f s : Nat} {en : Option Nat} {items : List (Item σ)} (hnr : NoReg items) {m y m' : List (MT σ)}
    {o : List Event} (hy : y.length = m.length) (h : run f s en items m = some (m', o)) :
    m'.length = m.length ∧ run f s en items (splice (win s en) m y) = some (splice (win s en) m' y, o) := by
  obtain ⟨l, e⟩ := run_frames f s en items hnr m y .idle m' o hy (runStage_some h)
  exact ⟨l, (runStage_inv e).1⟩

theorem run_outside {f s : Nat} {en : Option Nat} {items : List (Item σ)} (hnr : NoReg items) {m m' : List (MT σ)}
    {o : List Event} (h : run f s en items m = some (m', o)) : ∀ j, win s en j = false → m'[j]? = m[j]? :=
  (run_frames f s en items hnr).outside (runStage_some h)

end Genshi.Match

namespace Genshi.Match
open Genshi
variable {σ : Type}

/-! ### joining runs over closed prefixes -/

theorem run_append_join : ∀ (f g s : Nat) (en : Option Nat) (a b : List (Item σ)) (d : Nat) (M : List (MT σ))
    (r1 r2 : List (MT σ) × List Event), lvl d (evs a) = some 0 →
    run f s en a M = some r1 → run g s en b r1.1 = some r2 →
    run (f + g) s en (a ++ b) M = some (r2.1, r1.2 ++ r2.2) := by
  intro f
  induction f with
  | zero => intro g s en a b d M r1 r2 _ h; simp [run] at h
  | succ f ih =>
    intro g s en a b d M r1 r2 hl h1 h2
    have hfg : f + 1 + g = (f + g) + 1 := by omega
    cases a with
    | nil =>
      simp [run] at h1; subst h1
      simp only [List.nil_append, List.nil_append]
      exact run_mono_le h2 (by omega)
    | cons it rest =>
      cases it with
      | reg t =>
        simp only [List.cons_append, run] at h1 ⊢
        rw [hfg]; simp only [run]
        exact ih g s en rest b d _ r1 r2 (by simpa using hl) h1 h2
      | ev e =>
        simp only [evs_ev, lvl] at hl
        simp only [List.cons_append]
        by_cases hS : isStart e = true
        · simp only [hS, ↓reduceIte] at hl
          rcases run_start_cases hS h1 with ⟨mts1, p, hsc, hp, rfl⟩ |
            ⟨mts1, idx, t, inner, tail, rest', mts3, innerOut, mts4, out, p, hsc, ht, hst, h3, h4, h5, rfl⟩
          · have := ih g s en rest b (d + 1) mts1 p r2 hl hp h2
            rw [hfg]
            simp only [run, hS, ↓reduceIte, hsc, this, emit, Option.map_some, List.cons_append]
          · obtain ⟨inner', tail', a'', hs1, hs2, hs3⟩ := strip_append rest 0 d b (by simpa using hl)
            rw [hs1] at hst
            simp only [Option.some.injEq, Prod.mk.injEq] at hst
            obtain ⟨rfl, rfl, rfl⟩ := hst
            have := ih g s en a'' b d _ p r2 hs3 h5 h2
            rw [hfg]
            simp only [run, hS, ↓reduceIte, hsc, ht, hs2, run_mono_le h3 (show f ≤ f + g by omega),
              run_mono_le h4 (show f ≤ f + g by omega), this, Option.map_some, List.append_assoc]
        · simp only [hS, Bool.false_eq_true, ↓reduceIte] at hl
          simp only [run, hS, Bool.false_eq_true, ↓reduceIte] at h1
          by_cases hE : isEnd e = true
          · simp only [hE, ↓reduceIte] at hl h1
            cases d with
            | zero => simp at hl
            | succ d =>
              simp only at hl
              obtain ⟨q, hr, rfl⟩ := emit_some h1
              have := ih g s en rest b d _ q r2 hl hr h2
              rw [hfg]
              simp only [run, hS, Bool.false_eq_true, ↓reduceIte, hE, this, emit, Option.map_some, List.cons_append]
          · simp only [hE, Bool.false_eq_true, ↓reduceIte] at hl h1
            obtain ⟨q, hr, rfl⟩ := emit_some h1
            have := ih g s en rest b d M q r2 hl hr h2
            rw [hfg]
            simp only [run, hS, Bool.false_eq_true, ↓reduceIte, hE, this, emit, Option.map_some, List.cons_append]

/-! ### splitting the list operations at a slot -/

theorem mapW_get (g : MT σ → MT σ) : ∀ (M : List (MT σ)) (w : Nat → Bool) (j : Nat),
    (mapW w g M)[j]? = (M[j]?).map fun t => if w j then g t else t := by
  intro M
  induction M with
  | nil => intro w j; simp [mapW]
  | cons t ts ih =>
    intro w j
    cases j with
    | zero => simp [mapW]
    | succ j => simp only [mapW, List.getElem?_cons_succ]; exact ih (fun p => w (p + 1)) j

theorem mapW_length (g : MT σ → MT σ) : ∀ (M : List (MT σ)) (w : Nat → Bool), (mapW w g M).length = M.length := by
  intro M
  induction M with
  | nil => intro w; rfl
  | cons t ts ih => intro w; simp [mapW, ih]

/-- a test over a window is the tests over its two halves -/
theorem mapW_split (g : MT σ → MT σ) (M : List (MT σ)) (w wl wh : Nat → Bool)
    (hw : ∀ p, w p = (wl p || wh p)) (hd : ∀ p, wl p = true → wh p = false) :
    mapW w g M = splice wh (mapW wh g M) (mapW wl g M) := by
  apply list_ext_get; intro j
  rw [splice_get wh _ _ j (by rw [mapW_length, mapW_length]), mapW_get, mapW_get, mapW_get]
  cases hM : M[j]? with
  | none => simp
  | some t =>
    simp only [Option.map_some]
    by_cases h1 : wh j = true
    · simp [h1, hw j]
    · by_cases h2 : wl j = true
      · simp [h1, h2, hw j]
      · simp [h1, h2, hw j]

theorem scanP_length_aux (e : Event) : ∀ (M : List (MT σ)) (w : Nat → Bool), (scanP w e M).1.length = M.length := by
  intro M
  induction M with
  | nil => intro w; rfl
  | cons t ts ih =>
    intro w
    unfold scanP
    by_cases hw : w 0 = true
    · simp only [hw, ↓reduceIte]
      by_cases hf : (t.test e false).2 = true
      · simp [hf]
      · simp [hf, ih]
    · simp [hw, ih]

theorem scanP_outside (e : Event) : ∀ (M : List (MT σ)) (w : Nat → Bool) (p : Nat), w p = false →
    (scanP w e M).1[p]? = M[p]? := by
  intro M
  induction M with
  | nil => intro w p _; rfl
  | cons t ts ih =>
    intro w p hp
    unfold scanP
    cases p with
    | zero => simp [hp]
    | succ p =>
      by_cases hw : w 0 = true
      · simp only [hw, ↓reduceIte]
        by_cases hf : (t.test e false).2 = true
        · simp [hf]
        · simp only [hf, Bool.false_eq_true, ↓reduceIte, List.getElem?_cons_succ]
          exact ih (fun p => w (p + 1)) p hp
      · simp only [hw, Bool.false_eq_true, ↓reduceIte, List.getElem?_cons_succ]
        exact ih (fun p => w (p + 1)) p hp

/-- the scan when no slot below position `k` fires: the low half declines, the high half decides -/
theorem scanP_split (e : Event) : ∀ (M : List (MT σ)) (k : Nat) (w wl wh : Nat → Bool),
    (∀ p, p < k → wl p = w p ∧ wh p = false) → (∀ p, k ≤ p → wl p = false ∧ wh p = w p) →
    (∀ idx, (scanP w e M).2 = some idx → k ≤ idx) →
    (scanP wl e M).2 = none ∧ (scanP wh e M).2 = (scanP w e M).2 ∧
      (scanP w e M).1 = splice wh (scanP wh e M).1 (scanP wl e M).1 := by
  intro M
  induction M with
  | nil => intro k w wl wh _ _ _; simp [scanP, splice]
  | cons t ts ih =>
    intro k w wl wh hlo hhi hne
    cases k with
    | zero =>
      -- everything is in the high half
      have hwl : ∀ p, wl p = false := fun p => (hhi p (by omega)).1
      have hwh : ∀ p, wh p = w p := fun p => (hhi p (by omega)).2
      have e1 : wh = w := funext hwh
      have e2 : ∀ (N : List (MT σ)) (v : Nat → Bool), (∀ p, v p = false) → scanP v e N = (N, none) := by
        intro N
        induction N with
        | nil => intro v _; rfl
        | cons x xs ihx =>
          intro v hv
          unfold scanP
          simp only [hv 0, Bool.false_eq_true, ↓reduceIte]
          rw [ihx (fun p => v (p + 1)) (fun p => hv (p + 1))]
          simp
      rw [e2 (t :: ts) wl hwl, e1]
      refine ⟨rfl, rfl, ?_⟩
      symm
      apply splice_eq_left
      · have := scanP_length_aux e (t :: ts) w
        rw [this]
      · intro p hp
        -- outside the window the scan changes nothing
        have := scanP_outside e (t :: ts) w p hp
        rw [this]
    | succ k =>
      have h0 := hlo 0 (by omega)
      have hlo' : ∀ p, p < k → (fun p => wl (p + 1)) p = (fun p => w (p + 1)) p ∧ (fun p => wh (p + 1)) p = false :=
        fun p hp => hlo (p + 1) (by omega)
      have hhi' : ∀ p, k ≤ p → (fun p => wl (p + 1)) p = false ∧ (fun p => wh (p + 1)) p = (fun p => w (p + 1)) p :=
        fun p hp => hhi (p + 1) (by omega)
      unfold scanP
      rw [h0.1, h0.2]
      simp only [Bool.false_eq_true, ↓reduceIte]
      by_cases hw0 : w 0 = true
      · simp only [hw0, ↓reduceIte]
        by_cases hf : (t.test e false).2 = true
        · exfalso
          have := hne 0 (by unfold scanP; simp [hw0, hf])
          omega
        · simp only [hf, Bool.false_eq_true, ↓reduceIte]
          have hne' : ∀ idx, (scanP (fun p => w (p + 1)) e ts).2 = some idx → k ≤ idx := by
            intro idx hidx
            have := hne (idx + 1) (by unfold scanP; simp [hw0, hf, hidx])
            omega
          obtain ⟨a1, a2, a3⟩ := ih k _ _ _ hlo' hhi' hne'
          refine ⟨by rw [a1]; rfl, by rw [a2], ?_⟩
          simp only [splice, h0.2, Bool.false_eq_true, ↓reduceIte]
          rw [a3]
      · simp only [hw0, Bool.false_eq_true, ↓reduceIte]
        have hne' : ∀ idx, (scanP (fun p => w (p + 1)) e ts).2 = some idx → k ≤ idx := by
          intro idx hidx
          have := hne (idx + 1) (by unfold scanP; simp [hw0, hidx])
          omega
        obtain ⟨a1, a2, a3⟩ := ih k _ _ _ hlo' hhi' hne'
        refine ⟨by rw [a1]; rfl, by rw [a2], ?_⟩
        simp only [splice, h0.2, Bool.false_eq_true, ↓reduceIte]
        rw [a3]

end Genshi.Match

namespace Genshi.Match
open Genshi
variable {σ : Type}

/-! ### lists that agree on a window -/

def AgreeOn (w : Nat → Bool) (X Y : List (MT σ)) : Prop :=
  Y.length = X.length ∧ ∀ j, w j = true → X[j]? = Y[j]?

theorem AgreeOn.refl (w : Nat → Bool) (X : List (MT σ)) : AgreeOn w X X := ⟨rfl, fun _ _ => rfl⟩

theorem AgreeOn.splice_eq {w : Nat → Bool} {X Y : List (MT σ)} (h : AgreeOn w X Y) : splice w X Y = Y :=
  splice_eq_right h.1 h.2

theorem agreeOn_splice (w : Nat → Bool) (X Y : List (MT σ)) (hl : Y.length = X.length) : AgreeOn w X (splice w X Y) := by
  refine ⟨splice_length w X Y, ?_⟩
  intro j hj
  rw [splice_get w X Y j hl]; simp [hj]

theorem AgreeOn.sub {w w2 : Nat → Bool} {X Y : List (MT σ)} (h : AgreeOn w X Y) (hs : ∀ j, w2 j = true → w j = true) :
    AgreeOn w2 X Y := ⟨h.1, fun j hj => h.2 j (hs j hj)⟩

/-- widen an agreement on a sub-window to the window, when both lists are unchanged elsewhere
    relative to lists that agreed -/
theorem AgreeOn.widen {w w2 : Nat → Bool} {X0 Y0 X Y : List (MT σ)} (h0 : AgreeOn w X0 Y0) (h : AgreeOn w2 X Y)
    (hx : ∀ j, w j = true → w2 j = false → X[j]? = X0[j]?) (hy : ∀ j, w j = true → w2 j = false → Y[j]? = Y0[j]?)
    : AgreeOn w X Y := by
  refine ⟨h.1, ?_⟩
  intro j hj
  by_cases h2 : w2 j = true
  · exact h.2 j h2
  · have h2' : w2 j = false := by simpa using h2
    rw [hx j hj h2', hy j hj h2']; exact h0.2 j hj

/-- an agreement survives changes outside the window on either side -/
theorem AgreeOn.frame {w : Nat → Bool} {X0 Y0 X Y : List (MT σ)} (h0 : AgreeOn w X0 Y0)
    (hlx : X.length = X0.length) (hly : Y.length = Y0.length)
    (hx : ∀ j, w j = true → X[j]? = X0[j]?) (hy : ∀ j, w j = true → Y[j]? = Y0[j]?) : AgreeOn w X Y :=
  ⟨by rw [hly, h0.1, hlx], fun j hj => by rw [hx j hj, hy j hj]; exact h0.2 j hj⟩

/-- the filter on a list that agrees on the window: same output, results agree on the window,
    the other slots stay -/
theorem run_agree {f s : Nat} {en : Option Nat} {items : List (Item σ)} (hnr : NoReg items) {X Y X' : List (MT σ)}
    {o : List Event} (ha : AgreeOn (win s en) X Y) (h : run f s en items X = some (X', o)) :
    ∃ Y', run f s en items Y = some (Y', o) ∧ AgreeOn (win s en) X' Y' ∧ (∀ j, win s en j = false → Y'[j]? = Y[j]?) := by
  obtain ⟨l, e⟩ := run_splice hnr ha.1 h
  rw [ha.splice_eq] at e
  exact ⟨_, e, agreeOn_splice _ _ _ (by rw [ha.1, l]), run_outside hnr e⟩

theorem scan_agree {e : Event} {s : Nat} {en : Option Nat} {X Y : List (MT σ)} (ha : AgreeOn (win s en) X Y) :
    (scan e s en 0 Y).2 = (scan e s en 0 X).2 ∧ AgreeOn (win s en) (scan e s en 0 X).1 (scan e s en 0 Y).1 ∧
    (∀ j, win s en j = false → (scan e s en 0 Y).1[j]? = Y[j]?) := by
  have := scan_splice e s en X Y ha.1
  rw [ha.splice_eq] at this
  rw [this]
  refine ⟨rfl, agreeOn_splice _ _ _ (by rw [ha.1, scan_length]), ?_⟩
  intro j hj
  simp only
  rw [splice_get _ _ _ j (by rw [ha.1, scan_length])]
  simp [hj]

theorem scan_outside_win (e : Event) (s : Nat) (en : Option Nat) (X : List (MT σ)) :
    ∀ j, win s en j = false → (scan e s en 0 X).1[j]? = X[j]? := by
  intro j hj
  rw [scan_eq_scanP, win_zero_add]
  exact scanP_outside e X (win s en) j hj

theorem scanEnd_agree {e : Event} {s : Nat} {en : Option Nat} {X Y : List (MT σ)} (ha : AgreeOn (win s en) X Y) :
    AgreeOn (win s en) (scanEnd e s en 0 X) (scanEnd e s en 0 Y) := by
  have := scanEnd_splice e s en X Y ha.1
  rw [ha.splice_eq] at this
  rw [this]
  exact agreeOn_splice _ _ _ (by rw [ha.1, scanEnd_length])

theorem scanEnd_outside_win (e : Event) (s : Nat) (en : Option Nat) (X : List (MT σ)) :
    ∀ j, win s en j = false → (scanEnd e s en 0 X)[j]? = X[j]? := by
  intro j hj
  rw [scanEnd_get]
  simp only [Nat.zero_add]
  have : inWindow s en j = false := hj
  cases X[j]? <;> simp [this]

theorem updRange_outside (e : Event) (lo hi : Nat) (X : List (MT σ)) :
    ∀ j, ¬ (lo ≤ j ∧ j < hi) → (updRange e lo hi 0 X)[j]? = X[j]? := by
  intro j hj
  rw [updRange_get]
  simp only [Nat.zero_add]
  have : (decide (lo ≤ j) && decide (j < hi)) = false := by
    cases h : (decide (lo ≤ j) && decide (j < hi)) with
    | false => rfl
    | true => simp at h; exact absurd h hj
  cases X[j]? <;> simp [this]

theorem updRange_agree_in (e : Event) (lo hi : Nat) {w : Nat → Bool} {X Y : List (MT σ)} (ha : AgreeOn w X Y) :
    AgreeOn w (updRange e lo hi 0 X) (updRange e lo hi 0 Y) := by
  refine ⟨by rw [updRange_length, updRange_length, ha.1], ?_⟩
  intro j hj
  rw [updRange_get, updRange_get, ha.2 j hj]

theorem fired_agree (t : MT σ) (idx : Nat) {w : Nat → Bool} {X Y : List (MT σ)} (ha : AgreeOn w X Y) :
    AgreeOn w (fired t idx X) (fired t idx Y) := by
  unfold fired; split
  · refine ⟨by rw [retireAt_length, retireAt_length, ha.1], ?_⟩
    intro j hj
    rw [retireAt_get, retireAt_get, ha.2 j hj]
  · exact ha

theorem fired_outside (t : MT σ) (idx : Nat) (X : List (MT σ)) : ∀ j, j ≠ idx → (fired t idx X)[j]? = X[j]? := by
  intro j hj
  unfold fired; split
  · rw [retireAt_get]; cases X[j]? <;> simp [hj]
  · rfl

/-- a matcher that does not look at `updateonly` (none of the path strategies does) -/
def FlagFree (t : MT σ) : Prop := ∀ st e u u', t.step st e u = t.step st e u'

theorem static_flagFree : Static (FlagFree (σ := σ)) := by
  intro t t' hs h st e u u'; rw [hs.1]; exact h st e u u'

theorem test_flagFree {t : MT σ} (h : FlagFree t) (e : Event) (u u' : Bool) : t.test e u = t.test e u' := by
  unfold MT.test; split
  · rfl
  · rw [h t.st e u u']

end Genshi.Match

namespace Genshi.Match
open Genshi
variable {σ : Type}

theorem scanP_agree (e : Event) : ∀ (M : List (MT σ)) (w w' : Nat → Bool) (idx : Nat),
    (scanP w e M).2 = some idx → (∀ p, p ≤ idx → w' p = w p) → scanP w' e M = scanP w e M := by
  intro M
  induction M with
  | nil => intro w w' idx h; simp [scanP] at h
  | cons t ts ih =>
    intro w w' idx h hw
    unfold scanP at h ⊢
    rw [hw 0 (by omega)]
    by_cases hw0 : w 0 = true
    · simp only [hw0, ↓reduceIte] at h ⊢
      by_cases hf : (t.test e false).2 = true
      · simp [hf]
      · simp only [hf, Bool.false_eq_true, ↓reduceIte] at h ⊢
        cases hq : (scanP (fun p => w (p + 1)) e ts).2 with
        | none => rw [hq] at h; simp at h
        | some i2 =>
          rw [hq] at h; simp only [Option.map_some, Option.some.injEq] at h
          rw [ih (fun p => w (p + 1)) (fun p => w' (p + 1)) i2 hq (fun p hp => hw (p + 1) (by omega)), hq]
    · simp only [hw0, Bool.false_eq_true, ↓reduceIte] at h ⊢
      cases hq : (scanP (fun p => w (p + 1)) e ts).2 with
      | none => rw [hq] at h; simp at h
      | some i2 =>
        rw [hq] at h; simp only [Option.map_some, Option.some.injEq] at h
        rw [ih (fun p => w (p + 1)) (fun p => w' (p + 1)) i2 hq (fun p hp => hw (p + 1) (by omega)), hq]

theorem win_lo_eq {s m p : Nat} {e : Option Nat} (hme : ∀ n, e = some n → m ≤ n) (hp : p < m) :
    win s (some m) p = win s e p := by
  simp only [win]
  cases e with
  | none => simp [inWindow, hp]
  | some n => have := hme n rfl; simp [inWindow, hp, show p < n by omega]

theorem win_hi_false {m p : Nat} {e : Option Nat} (hp : p < m) : win m e p = false := by
  simp only [win]
  cases e <;> simp [inWindow, show ¬ m ≤ p by omega]

theorem win_lo_false {s m p : Nat} (hp : m ≤ p) : win s (some m) p = false := by
  simp [win, inWindow, show ¬ p < m by omega]

theorem win_hi_eq {s m p : Nat} {e : Option Nat} (hsm : s ≤ m) (hp : m ≤ p) : win m e p = win s e p := by
  simp only [win]
  cases e <;> simp [inWindow, hp, show s ≤ p by omega]

theorem scan_eq_scanP_win (x : Event) (s : Nat) (e : Option Nat) (M : List (MT σ)) :
    scan x s e 0 M = ((scanP (win s e) x M).1, (scanP (win s e) x M).2) := by
  rw [scan_eq_scanP, win_zero_add]
  cases (scanP (win s e) x M).2 <;> simp

/-- a template of the low half fires: the scan of the low half is the scan -/
theorem scan_split_low {x : Event} {s m idx : Nat} {e : Option Nat} {M : List (MT σ)}
    (hme : ∀ n, e = some n → m ≤ n) (h : (scan x s e 0 M).2 = some idx) (hidx : idx < m) :
    scan x s (some m) 0 M = scan x s e 0 M := by
  rw [scan_eq_scanP_win] at h
  simp only at h
  rw [scan_eq_scanP_win, scan_eq_scanP_win,
    scanP_agree x M (win s e) (win s (some m)) idx h (fun p hp => win_lo_eq hme (by omega))]

/-- no template of the low half fires: the low half declines, the high half decides -/
theorem scan_split_high {x : Event} {s m : Nat} {e : Option Nat} {M : List (MT σ)} (hsm : s ≤ m)
    (hme : ∀ n, e = some n → m ≤ n) (hne : ∀ idx, (scan x s e 0 M).2 = some idx → m ≤ idx) :
    (scan x s (some m) 0 M).2 = none ∧ (scan x m e 0 M).2 = (scan x s e 0 M).2 ∧
    (∀ j, win s (some m) j = true → (scan x s e 0 M).1[j]? = (scan x s (some m) 0 M).1[j]?) ∧
    (∀ j, win m e j = true → (scan x s e 0 M).1[j]? = (scan x m e 0 M).1[j]?) := by
  have hne' : ∀ idx, (scanP (win s e) x M).2 = some idx → m ≤ idx := by
    intro idx hidx
    exact hne idx (by rw [scan_eq_scanP_win]; exact hidx)
  obtain ⟨a1, a2, a3⟩ := scanP_split x M m (win s e) (win s (some m)) (win m e)
    (fun p hp => ⟨win_lo_eq hme hp, win_hi_false hp⟩) (fun p hp => ⟨win_lo_false hp, win_hi_eq hsm hp⟩) hne'
  have hl1 := scanP_length_aux x M (win s (some m))
  have hl2 := scanP_length_aux x M (win m e)
  rw [scan_eq_scanP_win, scan_eq_scanP_win, scan_eq_scanP_win]
  refine ⟨a1, a2, ?_, ?_⟩
  · intro j hj
    simp only
    rw [a3, splice_get _ _ _ j (by rw [hl1, hl2])]
    have : win m e j = false := by
      by_cases hjm : j < m
      · exact win_hi_false hjm
      · rw [win_lo_false (by omega)] at hj; cases hj
    simp [this]
  · intro j hj
    simp only
    rw [a3, splice_get _ _ _ j (by rw [hl1, hl2])]
    simp [hj]

/-! window inclusions -/

theorem win_lo_disj_hi {s m : Nat} {e : Option Nat} : ∀ j, win s (some m) j = true → win m e j = false := by
  intro j hj
  simp only [win] at *
  have := ((inWindow_iff _ _ _).mp hj).2 m rfl
  cases hh : inWindow m e j with
  | false => rfl
  | true => have := ((inWindow_iff _ _ _).mp hh).1; omega

theorem win_sub_of {a a' : Nat} {e e' : Option Nat} (ha : a ≤ a') (he : ∀ n, e = some n → ∃ n', e' = some n' ∧ n' ≤ n) :
    ∀ j, win a' e' j = true → win a e j = true := by
  intro j hj
  simp only [win] at *
  rw [inWindow_iff] at *
  refine ⟨by omega, ?_⟩
  intro n hn
  obtain ⟨n', h1, h2⟩ := he n hn
  have := hj.2 n' h1
  omega

end Genshi.Match

namespace Genshi.Match
open Genshi
variable {σ : Type}

/-- what the pipeline theorem asks of a template -/
def OKt (t : MT σ) : Prop := BodyOK t.body ∧ FlagFree t

theorem static_okt : Static (OKt (σ := σ)) := by
  intro t t' hs h
  exact ⟨static_bodyOK t t' hs h.1, static_flagFree t t' hs h.2⟩

theorem evItems_append (a b : List Event) : (evItems (a ++ b) : List (Item σ)) = evItems a ++ evItems b := by
  simp [evItems]

theorem evItems_cons (e : Event) (b : List Event) : (evItems (e :: b) : List (Item σ)) = .ev e :: evItems b := by
  simp [evItems]

theorem run_len {f s : Nat} {en : Option Nat} {items : List (Item σ)} (hnr : NoReg items) {m m' : List (MT σ)}
    {o : List Event} (h : run f s en items m = some (m', o)) : m'.length = m.length :=
  (run_splice hnr rfl h).1

/-- the END over the window `[s, e)` against the END over `[s, m)` on lists that agree on the low half -/
theorem scanEnd_agree_lo {x : Event} {s m : Nat} {e : Option Nat} (hme : ∀ n, e = some n → m ≤ n)
    {X Y : List (MT σ)} (ha : AgreeOn (win s (some m)) X Y) :
    AgreeOn (win s (some m)) (scanEnd x s e 0 X) (scanEnd x s (some m) 0 Y) := by
  refine ⟨by rw [scanEnd_length, scanEnd_length, ha.1], ?_⟩
  intro j hj
  rw [scanEnd_get, scanEnd_get, ha.2 j hj]
  simp only [Nat.zero_add]
  have h1 : inWindow s (some m) j = true := hj
  have hjm : j < m := ((inWindow_iff _ _ _).mp h1).2 m rfl
  have h2 : inWindow s e j = true := by
    have := win_lo_eq (s := s) hme hjm
    simp only [win] at this
    rw [← this]; exact h1
  rw [h1, h2]

theorem scanEnd_agree_hi {x : Event} {s m : Nat} {e : Option Nat} (hsm : s ≤ m)
    {X Y : List (MT σ)} (ha : AgreeOn (win m e) X Y) :
    AgreeOn (win m e) (scanEnd x s e 0 X) (scanEnd x m e 0 Y) := by
  refine ⟨by rw [scanEnd_length, scanEnd_length, ha.1], ?_⟩
  intro j hj
  rw [scanEnd_get, scanEnd_get, ha.2 j hj]
  simp only [Nat.zero_add]
  have h1 : inWindow m e j = true := hj
  have hjm : m ≤ j := ((inWindow_iff _ _ _).mp h1).1
  have h2 : inWindow s e j = true := by
    have := win_hi_eq (e := e) hsm hjm
    simp only [win] at this
    rw [← this]; exact h1
  rw [h1, h2]

end Genshi.Match

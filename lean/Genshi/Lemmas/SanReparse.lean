/-
  C06 — the re-parse clause at markup level: the sanitized forest, serialised as HTML or XHTML
  (model of work package `out`) and read back by the spec-side tokenizer (`Genshi.Reader`, which
  stands for html.parser / expat in the theorems of C08), yields tokens that satisfy the same
  guarantees: safe element names, safe attribute names, safe schemes, clean styles, no comments.

  This file: what the pruned forest looks like (`ForestGood`), that it lies inside the
  hypotheses of C08's tree round trips, and what the pieces it is read back as carry.
-/
import Genshi.Lemmas.SanCssUrl
import Genshi.Lemmas.SanTree
import Genshi.Lemmas.ReaderTree
set_option linter.unusedSimpArgs false
namespace Genshi.San
open Genshi Genshi.San.Spec

/-! ### the configuration's names can be written as markup -/

/-- every safe tag and attribute name is a name for the serializers and readers (no white space,
    no `> / = " < ! ? &`), is not a `{namespace}name`, no safe tag is a raw-text element
    (`script`, `style`) and no safe attribute name holds a colon or is `xmlns` -/
structure CfgMarkupOk (cfg : Cfg) : Prop where
  tags : ∀ t ∈ cfg.safeTags, Reader.nameOkB t = true ∧ '{' ∉ t ∧ Reader.rawTextElems.contains t = false
  attrs : ∀ a ∈ cfg.safeAttrs, Reader.nameOkB a = true ∧ '{' ∉ a ∧ ':' ∉ a ∧ a ≠ Output.xmlns
  braces : (∀ t ∈ cfg.safeTags, '}' ∉ t) ∧ (∀ a ∈ cfg.safeAttrs, '}' ∉ a)

theorem text_plain {q : QName} (h : '{' ∉ q.text) : q.ns = [] ∧ q.text = q.loc := by
  unfold QName.text at h ⊢
  cases hn : q.ns with
  | nil => simp
  | cons c cs => simp [hn] at h

/-! ### the sanitized forest -/

/-- what an emitted attribute is known to satisfy -/
def AttrGood (cfg : Cfg) (b : QName × Str) : Prop :=
  b.1.text ∈ cfg.safeAttrs ∧ stripentities b.2 = .ok b.2 ∧ (b.1.text ∈ cfg.uriAttrs → isSafeUri cfg b.2 = true) ∧
    (b.1.text ∉ cfg.uriAttrs → b.1.text = styleWord →
      ∃ x decls, sanitizeCss cfg x = .ok decls ∧ b.2 = Genshi.Str.join declSep decls)

mutual
  /-- elements with a safe tag and good attributes, plain text leaves, nothing else -/
  def TreeGood (cfg : Cfg) : Node → Prop
    | .elem t a ks => t.text ∈ cfg.safeTags ∧ (∀ b ∈ a, AttrGood cfg b) ∧ ForestGood cfg ks
    | .leaf e => ∃ s, e = .text s false
  def ForestGood (cfg : Cfg) : List Node → Prop
    | [] => True
    | n :: ns => TreeGood cfg n ∧ ForestGood cfg ns
end

theorem forestGood_append {cfg : Cfg} : ∀ (a b : List Node), ForestGood cfg a → ForestGood cfg b →
    ForestGood cfg (a ++ b) := by
  intro a
  induction a with
  | nil => intro b _ hb; simpa using hb
  | cons n ns ih =>
    intro b ha hb
    simp only [ForestGood] at ha
    simp only [List.cons_append, ForestGood]
    exact ⟨ha.1, ih b ha.2 hb⟩

mutual
  /-- input leaves: plain (non-Markup) text, comments, the markers of CDATA sections (in any
      arrangement: unclosed, stray, around text that holds `]]>`), processing instructions and
      DOCTYPE declarations that hold a `>` — everything but the text is dropped by the filter -/
  def plainTree : Node → Bool
    | .elem _ _ ks => plainForest ks
    | .leaf (.text _ f) => !f
    | .leaf (.comment _) => true
    | .leaf .startCdata => true
    | .leaf .endCdata => true
    | .leaf (.pi t d) => List.contains t '>' || List.contains d '>'
    | .leaf (.doctype n p s) => dtHasGt n p s
    | .leaf _ => false
  def plainForest : List Node → Bool
    | [] => true
    | n :: ns => plainTree n && plainForest ns
end

theorem attrGood_of_sanAttr {cfg : Cfg} {a b : QName × Str} (h : sanAttr cfg a = .ok (some b)) : AttrGood cfg b := by
  have f := sanAttr_some h
  refine ⟨?_, f.stable, ?_, ?_⟩
  · rw [f.name]; simpa using f.safe
  · intro hu
    apply f.uri
    rw [← f.name]; simpa using hu
  · intro hu hs
    rw [f.name] at hu hs
    obtain ⟨v, decls, _, hd, _, hj⟩ := f.style
      (by cases hc : cfg.uriAttrs.contains a.1.text with
          | false => rfl
          | true => exact absurd (by simpa using hc) hu)
      (by rw [hs]; simp)
    exact ⟨v, decls, hd, hj⟩

mutual
  theorem prune_good (cfg : Cfg) : ∀ (n : Node) (p : List Node), plainTree n = true → prune cfg n = .ok p →
      ForestGood cfg p
    | .elem t a ks, p, hpl, h => by
      unfold prune at h
      by_cases hs : isSafeElem cfg t a = true
      · obtain ⟨as, has⟩ := sanAttrs_ok cfg a
        cases hk : pruneList cfg ks with
        | error e => simp [hs, has, hk] at h
        | ok ks' =>
          simp [hs, has, hk] at h
          subst h
          simp only [ForestGood, TreeGood, and_true]
          refine ⟨?_, ?_, pruneList_good cfg ks ks' (by simpa [plainTree] using hpl) hk⟩
          · unfold isSafeElem at hs
            simp only [Bool.and_eq_true] at hs
            simpa using hs.1
          · intro b hb
            obtain ⟨a0, _, hsa⟩ := sanAttrs_mem has b hb
            exact attrGood_of_sanAttr hsa
      · simp [hs] at h; subst h; trivial
    | .leaf e, p, hpl, h => by
      cases e with
      | text s f =>
        simp [prune] at h; subst h
        have : f = false := by simpa [plainTree] using hpl
        subst this
        simp only [ForestGood, TreeGood, and_true]
        exact ⟨s, rfl⟩
      | comment c => simp [prune] at h; subst h; trivial
      | start _ _ => simp [plainTree] at hpl
      | end_ _ => simp [plainTree] at hpl
      | pi t d =>
        have hgt : (List.contains t '>' || List.contains d '>') = true := by simpa [plainTree] using hpl
        simp only [prune, hgt, ↓reduceIte] at h
        simp at h; subst h; trivial
      | doctype n p s =>
        have hgt : dtHasGt n p s = true := by simpa [plainTree] using hpl
        simp only [prune, hgt, ↓reduceIte] at h
        simp at h; subst h; trivial
      | xmlDecl _ _ _ => simp [plainTree] at hpl
      | startNs _ _ => simp [plainTree] at hpl
      | endNs _ => simp [plainTree] at hpl
      | startCdata => simp [prune] at h; subst h; trivial
      | endCdata => simp [prune] at h; subst h; trivial
  theorem pruneList_good (cfg : Cfg) : ∀ (ns p : List Node), plainForest ns = true → pruneList cfg ns = .ok p →
      ForestGood cfg p
    | [], p, _, h => by simp [pruneList] at h; subst h; trivial
    | n :: ns, p, hpl, h => by
      simp only [plainForest, Bool.and_eq_true] at hpl
      unfold pruneList at h
      cases ha : prune cfg n with
      | error e => simp [ha] at h
      | ok a =>
        cases hb : pruneList cfg ns with
        | error e => simp [ha, hb] at h
        | ok b =>
          simp [ha, hb] at h
          subst h
          exact forestGood_append a b (prune_good cfg n a hpl.1 ha) (pruneList_good cfg ns b hpl.2 hb)
end

/-! ### the sanitized forest lies inside the hypotheses of the round trips of C08 -/

theorem fAttrs_plain {cfg : Cfg} (hm : CfgMarkupOk cfg) {a : AttrList} (ha : ∀ b ∈ a, AttrGood cfg b) :
    Output.attrNsOk a = true ∧ Output.fAttrs a = a.map (fun b => (b.1.text, b.2)) := by
  constructor
  · unfold Output.attrNsOk
    rw [List.all_eq_true]
    intro b hb
    have := (text_plain (hm.attrs _ (ha b hb).1).2.1).1
    simp [this]
  · unfold Output.fAttrs
    apply List.map_congr_left
    intro b hb
    have hp := text_plain (hm.attrs _ (ha b hb).1).2.1
    simp [Output.fName, hp.1, hp.2]

mutual
  theorem tree_in_html_domain {cfg : Cfg} (hm : CfgMarkupOk cfg) : ∀ (n : Node), TreeGood cfg n →
      n.ok = true ∧ Output.nsFree n = true ∧ Reader.htmlTreeOk n = true
    | .elem t a ks, h => by
      simp only [TreeGood] at h
      obtain ⟨ht, ha, hk⟩ := h
      obtain ⟨h1, h2, h3⟩ := forest_in_html_domain hm ks hk
      obtain ⟨hn, hb, hraw⟩ := hm.tags _ ht
      obtain ⟨hns, htl⟩ := text_plain hb
      obtain ⟨han, hfa⟩ := fAttrs_plain hm ha
      refine ⟨by simpa [Node.ok] using h1, ?_, ?_⟩
      · simp [Output.nsFree, hns, han, h2]
      · simp only [Reader.htmlTreeOk, Bool.and_eq_true]
        rw [← htl]
        refine ⟨⟨hn, ?_⟩, ?_⟩
        · rw [hfa, List.all_eq_true]
          intro q hq
          obtain ⟨b, hb', rfl⟩ := List.mem_map.mp hq
          exact (hm.attrs _ (ha b hb').1).1
        · simp only [hraw, Bool.false_eq_true, ↓reduceIte]; exact h3
    | .leaf e, h => by
      obtain ⟨s, rfl⟩ := h
      simp [Node.ok, Event.isStartEnd, Output.nsFree, Output.leafF, Reader.htmlTreeOk]
  theorem forest_in_html_domain {cfg : Cfg} (hm : CfgMarkupOk cfg) : ∀ (ns : List Node), ForestGood cfg ns →
      okList ns = true ∧ Output.forestNsFree ns = true ∧ Reader.htmlForestOk ns = true
    | [], _ => by simp [okList, Output.forestNsFree, Reader.htmlForestOk]
    | n :: ns, h => by
      simp only [ForestGood] at h
      obtain ⟨a1, a2, a3⟩ := tree_in_html_domain hm n h.1
      obtain ⟨b1, b2, b3⟩ := forest_in_html_domain hm ns h.2
      simp [okList, Output.forestNsFree, Reader.htmlForestOk, a1, a2, a3, b1, b2, b3]
end

mutual
  /-- attribute values without LF / TAB / CR (the extra hypothesis of the XHTML round trip:
      XML attribute-value normalisation, finding C08-attr-ws) -/
  def treeAttrVals : Node → Bool
    | .elem _ a ks => a.all (fun b => Reader.attrValOkB b.2) && forestAttrVals ks
    | .leaf _ => true
  def forestAttrVals : List Node → Bool
    | [] => true
    | n :: ns => treeAttrVals n && forestAttrVals ns
end

mutual
  theorem tree_in_xhtml_domain {cfg : Cfg} (hm : CfgMarkupOk cfg) : ∀ (n : Node), TreeGood cfg n →
      treeAttrVals n = true → Reader.xhtmlTreeOk n = true
    | .elem t a ks, h, hv => by
      simp only [TreeGood] at h
      obtain ⟨ht, ha, hk⟩ := h
      simp only [treeAttrVals, Bool.and_eq_true, List.all_eq_true] at hv
      obtain ⟨hn, hb, _⟩ := hm.tags _ ht
      obtain ⟨_, htl⟩ := text_plain hb
      obtain ⟨_, hfa⟩ := fAttrs_plain hm ha
      simp only [Reader.xhtmlTreeOk, Bool.and_eq_true]
      rw [← htl]
      refine ⟨⟨hn, ?_⟩, forest_in_xhtml_domain hm ks hk hv.2⟩
      rw [hfa, List.all_eq_true]
      intro q hq
      obtain ⟨b, hb', rfl⟩ := List.mem_map.mp hq
      simp only [Bool.and_eq_true]
      exact ⟨(hm.attrs _ (ha b hb').1).1, hv.1 b hb'⟩
    | .leaf e, h, _ => by
      obtain ⟨s, rfl⟩ := h
      simp [Reader.xhtmlTreeOk]
  theorem forest_in_xhtml_domain {cfg : Cfg} (hm : CfgMarkupOk cfg) : ∀ (ns : List Node), ForestGood cfg ns →
      forestAttrVals ns = true → Reader.xhtmlForestOk ns = true
    | [], _, _ => by simp [Reader.xhtmlForestOk]
    | n :: ns, h, hv => by
      simp only [ForestGood] at h
      simp only [forestAttrVals, Bool.and_eq_true] at hv
      simp [Reader.xhtmlForestOk, tree_in_xhtml_domain hm n h.1 hv.1, forest_in_xhtml_domain hm ns h.2 hv.2]
end

/-! ### the guarantees, on tokens -/

/-- the guarantees of the property for an attribute value that a reader delivers -/
def ValueSafe (cfg : Cfg) (n val : Str) : Prop :=
  stripentities val = .ok val ∧
  (n ∈ cfg.uriAttrs → ∀ sch, browserScheme val = some sch → sch ∈ cfg.safeSchemes) ∧
  (n ∉ cfg.uriAttrs → n = styleWord →
    cssDecode val = val ∧ hasExpression val = false ∧ ∀ arg ∈ urlArgs val, GoodArg cfg arg)

/-- the guarantees of the property for one token read back -/
def TokSafe (cfg : Cfg) : Reader.Tok → Prop
  | .start nm ats _ => nm ∈ cfg.safeTags ∧
      ∀ p ∈ ats, p.1 ∈ cfg.safeAttrs ∧ ∀ val, p.2 = some val → ValueSafe cfg p.1 val
  | .end_ nm => nm ∈ cfg.safeTags
  | .text _ => True
  | .comment _ => False
  | .pi _ => False
  | .doctype _ => False

theorem valueSafe_of_good (hd : Genshi.Gen.SanClass.commentsDotall = true) {cfg : Cfg} (hcss : CssNamesPlain cfg)
    {b : QName × Str} (h : AttrGood cfg b) : ValueSafe cfg b.1.text b.2 := by
  obtain ⟨_, hst0, hu, hs⟩ := h
  refine ⟨hst0, fun hin sch hb => isSafeUri_sound (hu hin) hb, fun hnin hst => ?_⟩
  obtain ⟨x, decls, hsan, hj⟩ := hs hnin hst
  rw [hj]
  exact ⟨sanitizeCss_decode_fixed hd hsan,
    by rw [← sanitizeCss_decode_fixed hd hsan]; exact sanitizeCss_no_expression hd hcss hsan,
    by rw [← sanitizeCss_decode_fixed hd hsan]; exact sanitizeCss_urls_safe hd hcss hsan⟩

/-- a name without colon is not read as a URI with a scheme -/
theorem browserScheme_no_colon {v : Str} (h : ':' ∉ v) : browserScheme v = none := by
  unfold browserScheme
  have hf : ':' ∉ v.filter (fun c => !isWsCtl c) := fun hm => h (List.mem_filter.mp hm).1
  have := (split1_none_iff ':' _).mpr hf
  cases hsp : split1 ':' (v.filter fun c => !isWsCtl c) with
  | mk a b =>
    rw [hsp] at this
    simp at this
    subst this
    simp only [hsp]

theorem any_colon_false {n : Str} (h : ':' ∉ n) : n.any (· == ':') = false := by
  cases hh : n.any (· == ':') with
  | false => rfl
  | true =>
    rw [List.any_eq_true] at hh
    obtain ⟨c, hc, he⟩ := hh
    have : c = ':' := by simpa using he
    subst this
    exact absurd hc h

/-- the attributes an HTML reader delivers for a sanitized start tag -/
theorem htmlAttrToks_safe (hd : Genshi.Gen.SanClass.commentsDotall = true) {cfg : Cfg} (hm : CfgMarkupOk cfg)
    (hcss : CssNamesPlain cfg) {a : AttrList} (ha : ∀ b ∈ a, AttrGood cfg b) :
    ∀ p ∈ Reader.htmlAttrToks (Output.fAttrs a), p.1 ∈ cfg.safeAttrs ∧ ∀ val, p.2 = some val → ValueSafe cfg p.1 val := by
  intro p hp
  unfold Reader.htmlAttrToks at hp
  rw [List.mem_flatMap] at hp
  obtain ⟨q, hq, hpq⟩ := hp
  rw [(fAttrs_plain hm ha).2] at hq
  obtain ⟨b, hb, rfl⟩ := List.mem_map.mp hq
  have hg := ha b hb
  obtain ⟨_, _, hcol, hx⟩ := hm.attrs _ hg.1
  unfold Reader.htmlAttrTok at hpq
  simp only [any_colon_false hcol, Bool.false_eq_true, ↓reduceIte] at hpq
  split at hpq
  · split at hpq
    · simp at hpq
    · simp at hpq; subst hpq
      exact ⟨hg.1, fun val hv => by simp at hv⟩
  · split at hpq
    · simp at hpq; subst hpq
      refine ⟨hg.1, fun val hv => ?_⟩
      simp at hv; subst hv
      exact valueSafe_of_good hd hcss hg
    · simp at hpq

theorem stripEntGo_no_amp : ∀ (f : Nat) (s : Str), '&' ∉ s → stripEntGo f s = .ok s := by
  intro f
  induction f with
  | zero => intro s _; rfl
  | succ f ih =>
    intro s h
    cases s with
    | nil => rfl
    | cons c cs =>
      have hc : c ≠ '&' := fun e => h (by simp [e])
      have hcs : '&' ∉ cs := fun hm => h (by simp [hm])
      simp [stripEntGo, hc, ih cs hcs]

theorem stripentities_no_amp {s : Str} (h : '&' ∉ s) : stripentities s = .ok s := stripEntGo_no_amp _ s h

theorem nameOk_no_amp {n : Str} (h : Reader.nameOkB n = true) : '&' ∉ n := by
  intro hm
  simp only [Reader.nameOkB, Bool.and_eq_true, List.all_eq_true] at h
  have := h.2 '&' hm
  revert this; decide

theorem xhtml_bool_not_style : Output.inTable (Output.booleanAttrs .xhtml) styleWord = false := by decide

/-- the attributes an XML tokenizer delivers for a sanitized XHTML start tag -/
theorem xhtmlAttrToks_safe (hd : Genshi.Gen.SanClass.commentsDotall = true) {cfg : Cfg} (hm : CfgMarkupOk cfg)
    (hcss : CssNamesPlain cfg) {a : AttrList} (ha : ∀ b ∈ a, AttrGood cfg b) :
    ∀ p ∈ Reader.xhtmlAttrToks (Output.fAttrs a), p.1 ∈ cfg.safeAttrs ∧ ∀ val, p.2 = some val → ValueSafe cfg p.1 val := by
  intro p hp
  unfold Reader.xhtmlAttrToks at hp
  rw [List.mem_flatMap] at hp
  obtain ⟨q, hq, hpq⟩ := hp
  rw [(fAttrs_plain hm ha).2] at hq
  obtain ⟨b, hb, rfl⟩ := List.mem_map.mp hq
  have hg := ha b hb
  obtain ⟨_, _, hcol, hx⟩ := hm.attrs _ hg.1
  have hnl : (b.1.text == Output.xmlLang) = false := by
    cases he : (b.1.text == Output.xmlLang) with
    | false => rfl
    | true =>
      have : b.1.text = Output.xmlLang := by simpa using he
      rw [this] at hcol
      exact absurd (by decide) hcol
  have hns : (b.1.text == Output.xmlSpace) = false := by
    cases he : (b.1.text == Output.xmlSpace) with
    | false => rfl
    | true =>
      have : b.1.text = Output.xmlSpace := by simpa using he
      rw [this] at hcol
      exact absurd (by decide) hcol
  unfold Reader.xhtmlAttrTok at hpq
  simp only [hnl, hns, Bool.false_and, Bool.false_eq_true, ↓reduceIte] at hpq
  split at hpq
  · rename_i hbool
    simp at hpq; subst hpq
    refine ⟨hg.1, fun val hv => ?_⟩
    simp at hv; subst hv
    refine ⟨stripentities_no_amp (nameOk_no_amp (hm.attrs _ hg.1).1), fun _ sch hb' => ?_, fun _ hst => ?_⟩
    · rw [browserScheme_no_colon hcol] at hb'; cases hb'
    · have hst' : b.1.text = styleWord := hst
      rw [hst', xhtml_bool_not_style] at hbool; cases hbool
  · simp at hpq; subst hpq
    refine ⟨hg.1, fun val hv => ?_⟩
    simp at hv; subst hv
    exact valueSafe_of_good hd hcss hg

/-! ### the pieces a sanitized forest is read back as -/

theorem flushToks_mem {buf : Str} {toks : List Reader.Tok} {t : Reader.Tok} (h : t ∈ Reader.flushToks buf toks) :
    t ∈ toks ∨ ∃ s, t = .text s := by
  unfold Reader.flushToks at h
  split at h
  · exact Or.inl h
  · simp at h
    rcases h with rfl | h
    · exact Or.inr ⟨_, rfl⟩
    · exact Or.inl h

theorem foldl_applyPiece_mem : ∀ (ps : List Reader.Piece) (bt0 : Str × List Reader.Tok) (t : Reader.Tok),
    t ∈ (ps.foldl Reader.applyPiece bt0).2 → t ∈ bt0.2 ∨ Reader.Piece.tok t ∈ ps ∨ ∃ s, t = .text s := by
  intro ps
  induction ps with
  | nil => intro bt0 t h; exact Or.inl h
  | cons p ps ih =>
    intro bt0 t h
    simp only [List.foldl_cons] at h
    rcases ih _ t h with h1 | h1 | h1
    · cases p with
      | tok t' =>
        simp only [Reader.applyPiece] at h1
        simp at h1
        rcases h1 with rfl | h1
        · exact Or.inr (Or.inl (by simp))
        · rcases flushToks_mem h1 with h2 | h2
          · exact Or.inl h2
          · exact Or.inr (Or.inr h2)
      | chars s => exact Or.inl (by simpa [Reader.applyPiece] using h1)
    · exact Or.inr (Or.inl (by simp [h1]))
    · exact Or.inr (Or.inr h1)

/-- a token of the assembled reading is a token piece or character data -/
theorem assemble_mem {ps : List Reader.Piece} {t : Reader.Tok} (h : t ∈ Reader.assemble ps) :
    Reader.Piece.tok t ∈ ps ∨ ∃ s, t = .text s := by
  unfold Reader.assemble at h
  simp only [List.mem_reverse] at h
  rcases flushToks_mem h with h1 | h1
  · rcases foldl_applyPiece_mem ps ([], []) t h1 with h2 | h2 | h2
    · simp at h2
    · exact Or.inl h2
    · exact Or.inr h2
  · exact Or.inr h1

mutual
  theorem treePieces_safe (hd : Genshi.Gen.SanClass.commentsDotall = true) {cfg : Cfg} (hm : CfgMarkupOk cfg)
      (hcss : CssNamesPlain cfg) : ∀ (n : Node), TreeGood cfg n →
      ∀ t, Reader.Piece.tok t ∈ Reader.treePieces n → TokSafe cfg t
    | .elem tg a ks, h, t, ht => by
      simp only [TreeGood] at h
      obtain ⟨htag, ha, hk⟩ := h
      have hloc : tg.loc ∈ cfg.safeTags := by
        rw [← (text_plain (hm.tags _ htag).2.1).2]; exact htag
      simp only [Reader.treePieces, List.mem_cons] at ht
      rcases ht with ht | ht
      · simp at ht; subst ht
        exact ⟨hloc, htmlAttrToks_safe hd hm hcss ha⟩
      · split at ht
        · split at ht
          · simp at ht
          · simp at ht; subst ht; exact hloc
        · simp only [List.mem_append, List.mem_singleton] at ht
          rcases ht with ht | ht
          · exact forestPieces_safe hd hm hcss ks hk t ht
          · simp at ht; subst ht; exact hloc
    | .leaf e, h, t, ht => by
      obtain ⟨s, rfl⟩ := h
      simp [Reader.treePieces] at ht
  theorem forestPieces_safe (hd : Genshi.Gen.SanClass.commentsDotall = true) {cfg : Cfg} (hm : CfgMarkupOk cfg)
      (hcss : CssNamesPlain cfg) : ∀ (ns : List Node), ForestGood cfg ns →
      ∀ t, Reader.Piece.tok t ∈ Reader.forestPieces ns → TokSafe cfg t
    | [], _, t, ht => by simp [Reader.forestPieces] at ht
    | n :: ns, h, t, ht => by
      simp only [ForestGood] at h
      simp only [Reader.forestPieces, List.mem_append] at ht
      rcases ht with ht | ht
      · exact treePieces_safe hd hm hcss n h.1 t ht
      · exact forestPieces_safe hd hm hcss ns h.2 t ht
end

mutual
  theorem treePiecesX_safe (hd : Genshi.Gen.SanClass.commentsDotall = true) {cfg : Cfg} (hm : CfgMarkupOk cfg)
      (hcss : CssNamesPlain cfg) : ∀ (n : Node), TreeGood cfg n →
      ∀ t, Reader.Piece.tok t ∈ Reader.treePiecesX n → TokSafe cfg t
    | .elem tg a ks, h, t, ht => by
      simp only [TreeGood] at h
      obtain ⟨htag, ha, hk⟩ := h
      have hloc : tg.loc ∈ cfg.safeTags := by
        rw [← (text_plain (hm.tags _ htag).2.1).2]; exact htag
      simp only [Reader.treePiecesX] at ht
      split at ht
      · split at ht
        · simp at ht; subst ht
          exact ⟨hloc, xhtmlAttrToks_safe hd hm hcss ha⟩
        · simp at ht
          rcases ht with ht | ht
          · subst ht; exact ⟨hloc, xhtmlAttrToks_safe hd hm hcss ha⟩
          · subst ht; exact hloc
      · simp only [List.mem_cons, List.mem_append, List.mem_singleton] at ht
        rcases ht with ht | ht | ht
        · simp at ht; subst ht
          exact ⟨hloc, xhtmlAttrToks_safe hd hm hcss ha⟩
        · exact forestPiecesX_safe hd hm hcss ks hk t ht
        · simp at ht; subst ht; exact hloc
    | .leaf e, h, t, ht => by
      obtain ⟨s, rfl⟩ := h
      simp [Reader.treePiecesX] at ht
  theorem forestPiecesX_safe (hd : Genshi.Gen.SanClass.commentsDotall = true) {cfg : Cfg} (hm : CfgMarkupOk cfg)
      (hcss : CssNamesPlain cfg) : ∀ (ns : List Node), ForestGood cfg ns →
      ∀ t, Reader.Piece.tok t ∈ Reader.forestPiecesX ns → TokSafe cfg t
    | [], _, t, ht => by simp [Reader.forestPiecesX] at ht
    | n :: ns, h, t, ht => by
      simp only [ForestGood] at h
      simp only [Reader.forestPiecesX, List.mem_append] at ht
      rcases ht with ht | ht
      · exact treePiecesX_safe hd hm hcss n h.1 t ht
      · exact forestPiecesX_safe hd hm hcss ns h.2 t ht
end

/-- every token of the assembled reading of a sanitized forest carries the guarantees -/
theorem assemble_safe {cfg : Cfg} {ps : List Reader.Piece}
    (h : ∀ t, Reader.Piece.tok t ∈ ps → TokSafe cfg t) : ∀ t ∈ Reader.assemble ps, TokSafe cfg t := by
  intro t ht
  rcases assemble_mem ht with h1 | ⟨s, rfl⟩
  · exact h t h1
  · trivial

end Genshi.San

/-
  C07 — `handle_decl` / `unknown_decl` (DOCTYPE declarations, marked sections `<![CDATA[…]]>`, `<![if …]>`):
  genshi's `HTMLParser` does not override them, `html.parser`'s own do nothing. Such callbacks can be
  taken out of the callback sequence without changing anything: neither the events, nor the exception, nor
  what a lazy consumer has received before a failure (the statement is about `generate`, batch by batch).
-/
import Genshi.Model.ParseHtml
namespace Genshi.Parse
open Genshi

def notDecl : Item HtmlCb → Bool
  | .cb (.decl _) => false
  | _ => true

/-- the same reads without the `handle_decl` / `unknown_decl` callbacks -/
def dropDecl : HtmlRead → HtmlRead
  | .text l => .text (l.filter notDecl)
  | .bytes => .bytes
  | .fail e => .fail e

theorem notDecl_cases (c : HtmlCb) : (∃ s, c = .decl s) ∨ notDecl (.cb c) = true := by
  cases c <;> simp [notDecl]

theorem feed_dropDecl (env : Env) : ∀ (l : List (Item HtmlCb)) (k : List Str) (q : Stream),
    feed (htmlLayer env) k q (l.filter notDecl) = feed (htmlLayer env) k q l
  | [], _, _ => rfl
  | .raise e :: rest, k, q => by
      have : notDecl (.raise e) = true := rfl
      rw [List.filter_cons_of_pos this]
      rfl
  | .cb c :: rest, k, q => by
      rcases notDecl_cases c with ⟨s, rfl⟩ | hc
      · have hn : ¬ (notDecl (.cb (.decl s)) = true) := by simp [notDecl]
        rw [List.filter_cons_of_neg hn, feed_dropDecl env rest k q]
        simp [feed, htmlLayer, htmlStep]
      · rw [List.filter_cons_of_pos hc]
        simp only [feed]
        cases (htmlLayer env).step k c with
        | error e => rfl
        | ok r => exact feed_dropDecl env rest r.1 (q ++ r.2)

theorem generate_dropDecl (env : Env) : ∀ (reads : List HtmlRead) (k : List Str) (close : List (Item HtmlCb)),
    generate (htmlLayer env) k ((reads.map dropDecl).map HtmlReadG.toRead) (close.filter notDecl) =
      generate (htmlLayer env) k (reads.map HtmlReadG.toRead) close
  | [], k, close => by
      simp only [List.map_nil, generate, feed_dropDecl]
  | r :: rs, k, close => by
      cases r with
      | bytes => simp [dropDecl, HtmlReadG.toRead, generate]
      | fail e => simp [dropDecl, HtmlReadG.toRead, generate]
      | text l =>
        simp only [List.map_cons, dropDecl, HtmlReadG.toRead, generate, feed_dropDecl]
        cases feed (htmlLayer env) k [] l with
        | error e => rfl
        | ok r =>
          simp only
          rw [generate_dropDecl env rs r.1 close]

end Genshi.Parse

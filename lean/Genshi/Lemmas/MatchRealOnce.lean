/-
  C12 — `once` on trees for the real matcher: `once_stage_is_spec` carried through the simulation.
-/
import Genshi.Lemmas.MatchRealSpec
import Genshi.Lemmas.MatchOnceSpec
namespace Genshi.Match
open Genshi Genshi.Path

section
variable {σ τ : Type}

mutual
  theorem countNode_sim {a : MT σ} {b : MT τ} (R : σ → τ → Prop)
      (hstep : ∀ s t e u, SE e → R s t → R (a.step s e u).1 (b.step t e u).1 ∧ (a.step s e u).2 = (b.step t e u).2)
      (hrec : a.recursive = b.recursive) {s0 : σ} {t0 : τ} (h0 : R s0 t0) :
      ∀ (n : Node) (anc : List Open), countNode a s0 anc n = countNode b t0 anc n
    | .leaf e, anc => rfl
    | .elem tg at_ kids, anc => by
        have hk := countList_sim R hstep hrec h0 kids ((tg, at_) :: anc)
        have hv := (hstep _ _ (.start tg at_) false (Or.inl rfl) (openSt_rel (a := a) (b := b) R hstep h0 anc)).2
        simp only [countNode, hv, hk, hrec]
  theorem countList_sim {a : MT σ} {b : MT τ} (R : σ → τ → Prop)
      (hstep : ∀ s t e u, SE e → R s t → R (a.step s e u).1 (b.step t e u).1 ∧ (a.step s e u).2 = (b.step t e u).2)
      (hrec : a.recursive = b.recursive) {s0 : σ} {t0 : τ} (h0 : R s0 t0) :
      ∀ (ns : List Node) (anc : List Open), countList a s0 anc ns = countList b t0 anc ns
    | [], anc => rfl
    | n :: ns, anc => by
        simp only [countList, countNode_sim R hstep hrec h0 n anc, countList_sim R hstep hrec h0 ns anc]
end

theorem countList_trel {a : MT σ} {b : MT τ} (h : TRel a b) (ns : List Node) :
    countList a a.st [] ns = countList b b.st [] ns := by
  obtain ⟨R, hstep, hst, _, _, hr, _⟩ := h
  exact countList_sim R hstep hr hst ns []

theorem trel_onceAt {a : MT σ} {b : MT τ} (h : TRel a b) : TRel (onceAt a) (onceAt b) := by
  obtain ⟨R, hstep, hst, hb, _, hr, hbu, hre, hh⟩ := h
  exact ⟨R, hstep, hst, hb, rfl, hr, hbu, hre, hh⟩

theorem lrel_set : ∀ {A : List (MT σ)} {B : List (MT τ)}, LRel A B → ∀ (i : Nat) {a : MT σ} {b : MT τ}, TRel a b →
    LRel (A.set i a) (B.set i b) := by
  intro A B h
  induction h with
  | nil => intro i a b _; exact .nil
  | @cons x y A B hxy hAB ih =>
    intro i a b hab
    cases i with
    | zero => exact .cons hab hAB
    | succ i => exact .cons hxy (ih i hab)

end

/-- **`once` on trees, real matcher.**  Declarations without position tests; the declaration `d` of slot
    `i` does not carry the hint; on a forest in which its (real) matcher fires at most once, the stage
    of slot `i` with `once="true"` set on it yields the tree rewrite `specList` of the unhinted template. -/
theorem real_once_stage_is_spec (ns : NsMap) (vs : Vars) (ds : List Decl) (hok : ∀ d ∈ ds, d.ok ns vs)
    (i : Nat) (d : Decl) (hd : ds[i]? = some d) (ho : d.hints.matchOnce = false)
    (f : Nat) (forest : List Node) (r : List (MT RSt) × List Event) (hns : okList forest = true)
    (h : run f i (some (i + 1)) (evItems (flattenList forest)) (ds.map (Decl.real ns vs)) = some r)
    (hfew : countList (d.real ns vs) (d.real ns vs).st [] forest ≤ 1) :
    ∃ c', run f i (some (i + 1)) (evItems (flattenList forest)) ((ds.map (Decl.real ns vs)).set i (onceAt (d.real ns vs)))
      = some (c', specList (d.real ns vs) (d.real ns vs).st [] forest) := by
  have hL := decls_lrel ns vs ds hok
  have hdok := hok d (List.mem_of_getElem? hd)
  have htr : TRel (d.real ns vs) (d.abs ns vs) := real_trel ns vs d.paths d.body d.hints d.force hdok
  have hl : Lawful (d.abs ns vs) := abs_lawful ns vs d.paths d.body d.hints d.force hdok
  rcases run_rel f i (some (i + 1)) (irel_evItems (σ := RSt) (τ := List AM) (flattenList forest)) hL with
    ⟨h1, _⟩ | ⟨A, B, o, h1, h2, _⟩
  · rw [h1] at h; cases h
  · rw [h1] at h
    cases h
    have hget : (ds.map (Decl.abs ns vs))[i]? = some (d.abs ns vs) := by rw [List.getElem?_map, hd]; rfl
    have hfew' : countList (d.abs ns vs) (d.abs ns vs).st [] forest ≤ 1 := by
      rw [← countList_trel htr forest]; exact hfew
    obtain ⟨c', hc⟩ := once_stage_is_spec (d.abs ns vs) i hl ho rfl f forest _ (B, o) hns hget h2 hfew'
    have hL' := lrel_set hL i (trel_onceAt htr)
    rcases run_rel f i (some (i + 1)) (irel_evItems (σ := RSt) (τ := List AM) (flattenList forest)) hL' with
      ⟨_, g2⟩ | ⟨A', B', o', g1, g2, _⟩
    · change run f i (some (i + 1)) _ ((ds.map (Decl.abs ns vs)).set i (onceAt (d.abs ns vs))) = none at g2
      rw [hc] at g2; cases g2
    · change run f i (some (i + 1)) _ ((ds.map (Decl.abs ns vs)).set i (onceAt (d.abs ns vs))) = some (B', o') at g2
      rw [hc] at g2
      cases g2
      exact ⟨A', by
        change run f i (some (i + 1)) _ ((ds.map (Decl.real ns vs)).set i (onceAt (d.real ns vs))) = _
        rw [g1, specList_trel htr forest]⟩

end Genshi.Match

/-
  Unions: `Path.test` for `p1|p2|…` reports, event by event, the first non-None
  result of its operands; when every operand reports `None` / `True` that is
  "some operand matches", and `Path.select` emits the outermost nodes of the
  union of the operands' node sets.
-/
import Genshi.Lemmas.PathSelect
namespace Genshi.Path
open Genshi Genshi.Path.Ref

/-- first non-None, position by position; the left row has priority -/
def or2 : List Val → List Val → List Val
  | x :: a, y :: b => (if x.isNone then y else x) :: or2 a b
  | _, _ => []

theorem foldl_first_acc (vs : List Val) (acc : Val) (h : acc.isNone = false) :
    vs.foldl (fun acc v => if acc.isNone then v else acc) acc = acc := by
  induction vs with
  | nil => rfl
  | cons v vs ih => simp [List.foldl_cons, h, ih]

theorem foldl_first_cons (v : Val) (vs : List Val) :
    (v :: vs).foldl (fun acc v => if acc.isNone then v else acc) .none
      = if v.isNone then vs.foldl (fun acc v => if acc.isNone then v else acc) .none else v := by
  have h0 : (Val.none).isNone = true := rfl
  simp only [List.foldl_cons, h0, if_true]
  by_cases hv : v.isNone = true
  · simp only [hv, if_true]
    cases v <;> simp_all [Val.isNone]
  · have hv' : v.isNone = false := by simpa using hv
    simp only [hv', Bool.false_eq_true, if_false]
    exact foldl_first_acc vs v hv'

/-- the dispatcher over `m :: ms` = `m` on its own, or else the dispatcher over `ms` -/
theorem runTest_cons_or (ns : NsMap) (vs : Vars) (m : Matcher) (st : MState) :
    ∀ (es : List Event) (ms : List Matcher) (sts : List MState),
      runTest (m :: ms) ns vs (st :: sts) es = or2 (runTest [m] ns vs [st] es) (runTest ms ns vs sts es) := by
  intro es
  induction es generalizing st with
  | nil => intro ms sts; simp [runTest, or2]
  | cons e es ih =>
    intro ms sts
    simp only [runTest, or2, multiStep, List.zip_cons_cons, List.map_cons, List.zip_nil_right, List.map_nil]
    rw [foldl_first_cons, ih]
    simp [List.foldl_cons, List.foldl_nil, Val.isNone]

theorem runTest_nil (ns : NsMap) (vs : Vars) (es : List Event) :
    runTest [] ns vs [] es = List.replicate es.length .none := by
  induction es with
  | nil => rfl
  | cons e es ih => simp [runTest, multiStep, ih, List.replicate_succ]

/-- is the location `x` among the marked nodes -/
def selB (vals : List Val) (locs : List (Option LNode)) (x : List Nat) : Bool :=
  (matched vals locs).any fun n => n.loc == x

theorem selOf_eq_selB (vals : List Val) (locs : List (Option LNode)) (m : LNode) :
    selOf vals locs m = selB vals locs m.loc := by
  unfold selOf selB
  rw [contains_map_loc]

theorem selB_cons (v : Val) (vs : List Val) (l : Option LNode) (ls : List (Option LNode)) (x : List Nat) :
    selB (v :: vs) (l :: ls) x = ((v.truthy && (match l with | some n => n.loc == x | none => false)) || selB vs ls x) := by
  simp only [selB, matched, List.any_append]
  cases hv : v.truthy <;> cases l <;> simp [Option.toList]

theorem okVals_or2 : ∀ (locs : List (Option LNode)) (a b : List Val), okVals a locs → okVals b locs →
    okVals (or2 a b) locs ∧ ∀ x : List Nat, selB (or2 a b) locs x = (selB a locs x || selB b locs x)
  | [], a, b, ha, hb => by
      cases a <;> cases b <;> simp_all [okVals, or2, selB, matched]
  | l :: ls, a, b, ha, hb => by
      cases a with
      | nil => simp [okVals] at ha
      | cons x a' =>
        cases b with
        | nil => simp [okVals] at hb
        | cons y b' =>
          obtain ⟨ih1, ih2⟩ := okVals_or2 ls a' b' ha.2 hb.2
          rcases ha.1 with hx | ⟨hx, hl⟩
          · subst hx
            have h0 : (Val.none).isNone = true := rfl
            simp only [or2, h0, if_true, okVals]
            refine ⟨⟨hb.1, ih1⟩, fun z => ?_⟩
            simp only [selB_cons, ih2 z]
            have : (Val.none).truthy = false := rfl
            simp only [this, Bool.false_and, Bool.false_or]
            ac_rfl
          · subst hx
            have h0 : (Val.bool true).isNone = false := rfl
            simp only [or2, h0, Bool.false_eq_true, if_false, okVals]
            refine ⟨⟨Or.inr ⟨by first | rfl | trivial, hl⟩, ih1⟩, fun z => ?_⟩
            simp only [selB_cons, ih2 z, Val.truthy, Bool.true_and]
            rcases hb.1 with hy | ⟨hy, _⟩
            · subst hy
              have : (Val.none).truthy = false := rfl
              simp only [this, Bool.false_and, Bool.false_or]
              ac_rfl
            · subst hy
              simp only [Val.truthy, Bool.true_and]
              generalize (match l with | some n => n.loc == z | none => false) = q
              cases q <;> cases selB a' ls z <;> cases selB b' ls z <;> rfl

theorem okVals_replicate : ∀ (locs : List (Option LNode)),
    okVals (List.replicate locs.length Val.none) locs ∧
      ∀ x : List Nat, selB (List.replicate locs.length Val.none) locs x = false
  | [] => by simp [okVals, selB, matched]
  | l :: ls => by
      obtain ⟨h1, h2⟩ := okVals_replicate ls
      refine ⟨⟨Or.inl rfl, h1⟩, fun x => ?_⟩
      simp [List.replicate_succ, selB_cons, h2 x, Val.truthy]

/-! ## The union theorem -/

/-- what has to be known of one operand of a union: its matcher reports `None` / `True`, and
    `True` exactly at the nodes of the operand's XPath node set -/
structure Operand (ns : NsMap) (vs : Vars) (xvs : XVars) (root : Node) (p : LocPath) (m : Matcher) (st : MState) :
    Prop where
  ok : okVals (runTest [m] ns vs [st] root.flatten) (eventLocs root [])
  sel : ∀ x : LNode, selB (runTest [m] ns vs [st] root.flatten) (eventLocs root []) x.loc
          = reach ns xvs p ⟨[], root⟩ x
  nonAttr : ∃ last, p.getLast? = some last ∧ last.axis ≠ .attribute

/-- pointwise facts for a list of operands -/
inductive Operands (ns : NsMap) (vs : Vars) (xvs : XVars) (root : Node) :
    List LocPath → List Matcher → List MState → Prop
  | nil : Operands ns vs xvs root [] [] []
  | cons {p ps m ms st sts} : Operand ns vs xvs root p m st → Operands ns vs xvs root ps ms sts →
      Operands ns vs xvs root (p :: ps) (m :: ms) (st :: sts)

theorem operands_run (ns : NsMap) (vs : Vars) (xvs : XVars) (root : Node) :
    ∀ (ps : List LocPath) (ms : List Matcher) (sts : List MState), Operands ns vs xvs root ps ms sts →
      okVals (runTest ms ns vs sts root.flatten) (eventLocs root []) ∧
      ∀ x : LNode, selB (runTest ms ns vs sts root.flatten) (eventLocs root []) x.loc
          = nodeSelected ps ns xvs ⟨[], root⟩ x := by
  intro ps ms sts h
  induction h with
  | nil =>
    rw [runTest_nil, ← eventLocs_length root []]
    obtain ⟨h1, h2⟩ := okVals_replicate (eventLocs root [])
    exact ⟨h1, fun x => by simp [h2 x.loc, nodeSelected]⟩
  | @cons p ps m ms st sts hop _ ih =>
    rw [runTest_cons_or]
    obtain ⟨h1, h2⟩ := okVals_or2 _ _ _ hop.ok ih.1
    refine ⟨h1, fun x => ?_⟩
    rw [h2 x.loc, hop.sel x, ih.2 x]
    obtain ⟨last, hl, hna⟩ := hop.nonAttr
    have hna' : (last.axis != Axis.attribute) = true := by simpa using hna
    simp [nodeSelected, List.any_cons, hl, hna']

theorem operands_nonAttr (ns : NsMap) (vs : Vars) (xvs : XVars) (root : Node) :
    ∀ (ps : List LocPath) (ms : List Matcher) (sts : List MState), Operands ns vs xvs root ps ms sts →
      ∀ p ∈ ps, ∃ last, p.getLast? = some last ∧ last.axis ≠ .attribute := by
  intro ps ms sts h
  induction h with
  | nil => intro p hp; simp at hp
  | cons hop _ ih =>
    intro p hp
    rcases List.mem_cons.mp hp with h1 | h1
    · rw [h1]; exact hop.nonAttr
    · exact ih p h1

/-- **unions**: if every operand's matcher designates its XPath node set, `Path.select` over
    the union delivers the outermost nodes of the union of the node sets -/
theorem select_union (ns : NsMap) (vs : Vars) (xvs : XVars) (tag : QName) (attrs : AttrList) (kids : List Node)
    (hok : okList kids = true) (ps : List LocPath) (ms : List Matcher) (sts : List MState)
    (h : Operands ns vs xvs (.elem tag attrs kids) ps ms sts) :
    selectGo ms ns vs sts 0 (Node.elem tag attrs kids).flatten = xpSelect ps ns xvs (.elem tag attrs kids) := by
  have hrok : (Node.elem tag attrs kids).ok = true := by simpa [Node.ok] using hok
  obtain ⟨hokv, hsel⟩ := operands_run ns vs xvs _ ps ms sts h
  rw [selectGo_eq_emitV, emitV_pick _ hrok [] _ hokv]
  unfold xpSelect
  have hasel : attrsSelected ps ns xvs ⟨[], .elem tag attrs kids⟩ = fun _ => [] := by
    funext n
    unfold attrsSelected
    cases n.node with
    | leaf e => rfl
    | elem t a ks =>
      apply List.filter_eq_nil_iff.mpr
      intro at_ _
      simp only [List.any_eq_true, not_exists, not_and]
      intro p hp
      obtain ⟨last, hl, hna⟩ := operands_nonAttr ns vs xvs _ ps ms sts h p hp
      have hna' : (last.axis == Axis.attribute) = false := by simpa using hna
      simp [hl, hna']
  rw [hasel]
  apply pick_congr
  intro m _
  rw [selOf_eq_selB, hsel m]

end Genshi.Path

/-
  C05 stages 2+3 for child-axis paths with arbitrary predicates under
  GenericStrategy: `s1/s2/…/sn` (every step on the child axis, any node tests,
  any predicates — positional ones counted per context node) selects the XPath
  node set.
-/
import Genshi.Lemmas.PathChain
namespace Genshi.Path
open Genshi Genshi.Path.Ref

section
variable (ns : NsMap) (vs : Vars)

/-- all steps on the child axis -/
def ChildPath (p : LocPath) : Prop := ∀ s ∈ p, s.axis = .child

theorem childPath_getElem {p : LocPath} (h : ChildPath p) {d : Nat} {s : Step} (hs : p[d]? = some s) :
    s.axis = .child := h s (List.mem_of_getElem? hs)

theorem realLen_childPath (p : LocPath) (h : ChildPath p) (hne : p ≠ []) :
    realLen (dotSlash :: p) = p.length + 1 := by
  unfold realLen
  cases hl : (dotSlash :: p).getLast? with
  | none => simp at hl
  | some last =>
    rw [List.getLast?_cons_of_ne_nil hne] at hl
    have : last.axis = .child := h last (List.mem_of_getLast? hl)
    simp [this]

theorem lastResult_childPath (p : LocPath) (h : ChildPath p) (hne : p ≠ []) (e : Event) :
    lastResult (dotSlash :: p) e ns = .bool true := by
  unfold lastResult
  cases hl : (dotSlash :: p).getLast? with
  | none => rfl
  | some last =>
    rw [List.getLast?_cons_of_ne_nil hne] at hl
    have : last.axis = .child := h last (List.mem_of_getLast? hl)
    simp [this]

/-- GenericStrategy at the single candidate position `d + 1` of a child path -/
theorem gStep_childPath (p : LocPath) (hp : ChildPath p) (hne : p ≠ []) (st : GState) (e : Event) (d c : Nat)
    (sx : Step) (rest : List (List GPos)) (hstack : st.stack = [⟨d + 1, [c]⟩] :: rest) (hsx : p[d]? = some sx)
    (hc : c < st.store.length) (he : e.isEnd = false) (hm : e.isNsOrCdata = false) :
    gStep (dotSlash :: p) ns vs st e =
      (if !sx.test.matches e ns then (⟨if e.isStart then [] :: st.stack else st.stack, st.store⟩, .none)
       else
         let r := sPreds e ns vs sx.preds 0 (Store.get st.store c)
         let store1 := st.store.set c r.2
         if !r.1 then (⟨if e.isStart then [] :: st.stack else st.stack, store1⟩, .none)
         else if d + 1 == p.length then
           (⟨if e.isStart then [] :: st.stack else st.stack, store1⟩, .bool true)
         else (⟨if e.isStart then [⟨d + 2, [store1.length]⟩] :: st.stack else st.stack, store1 ++ [[]]⟩, .none)) := by
  have hax := childPath_getElem hp hsx
  unfold gStep
  simp only [he, hm, Bool.false_eq_true, if_false, hstack, List.headD_cons, List.map_cons, List.map_nil,
    List.length_cons (a := (d + 1, [c], ([] : List Nat))), List.length_nil, realLen_childPath p hp hne]
  rw [show 2 * (dotSlash :: p).length + (0 + 1) + 2 = (2 * (dotSlash :: p).length + 2) + 1 from by omega]
  have hnext : ((dotSlash :: p)[d + 1 + 1]?.map Step.axis).getD .child = .child := by
    simp only [List.getElem?_cons_succ]
    cases hn : p[d + 1]? with
    | none => rfl
    | some s' => simp [childPath_getElem hp hn]
  simp only [gLoop, List.getElem?_cons_succ, hsx, hax, isDescLike, List.append_nil,
    gPreds_single e ns vs c sx.preds 0 st.store hc,
    lastResult_childPath ns p hp hne, hnext, gLoop_nil, Val.truthy]
  by_cases h1 : sx.test.matches e ns = true <;>
    by_cases h2 : (sPreds e ns vs sx.preds 0 (Store.get st.store c)).1 = true <;>
    by_cases h3 : (d + 1 == p.length) = true <;>
    by_cases h4 : e.isStart = true <;> simp_all [pushSelf, gLoop_nil]

/-! ## Stores: frame facts -/

theorem Store.get_set_ne (s : Store) (i j : Nat) (v : List Nat) (h : j ≠ i) :
    Store.get (s.set i v) j = Store.get s j := by
  simp [Store.get, List.getD, List.getElem?_set, Ne.symm h]

theorem Store.get_append_left (s t : Store) (j : Nat) (h : j < s.length) :
    Store.get (s ++ t) j = Store.get s j := by
  simp [Store.get, List.getD, List.getElem?_append_left h]

theorem Store.get_append_new (s : Store) : Store.get (s ++ [[]]) s.length = [] := by
  simp [Store.get, List.getD]

/-! ## The node set in the model's terms -/

def kidsL (loc : List Nat) (i : Nat) (ks : List Node) : List LNode :=
  (ks.zipIdx i).map fun (k, j) => (⟨loc ++ [j], k⟩ : LNode)

theorem kidsL_cons (loc : List Nat) (i : Nat) (k : Node) (ks : List Node) :
    kidsL loc i (k :: ks) = ⟨loc ++ [i], k⟩ :: kidsL loc (i + 1) ks := by
  simp [kidsL, List.zipIdx_cons]

theorem childrenOf_elem (loc : List Nat) (t : QName) (a : AttrList) (ks : List Node) :
    childrenOf ⟨loc, .elem t a ks⟩ = kidsL loc 0 ks := rfl

/-- the children of `c` selected by the step `s`, by the matchers' one-pass counting -/
def stepNodesM (s : Step) (c : LNode) : List LNode :=
  (sfilter ns vs evOf s.preds [] ((childrenOf c).filter (mtest s ns))).1

def chainAtP : LocPath → LNode → List LNode
  | [], c => [c]
  | s :: rest, c => (stepNodesM ns vs s c).flatMap (chainAtP rest)

/-- candidates `L` of step `s` under one context node whose counters stand at `cs` -/
def kidsRes (s : Step) (rest : LocPath) (cs : List Nat) (L : List LNode) : List LNode :=
  (sfilter ns vs evOf s.preds cs (L.filter (mtest s ns))).1.flatMap (chainAtP ns vs rest)

def kidsCs (s : Step) (cs : List Nat) (L : List LNode) : List Nat :=
  (sfilter ns vs evOf s.preds cs (L.filter (mtest s ns))).2

theorem kidsRes_cons (s : Step) (rest : LocPath) (cs : List Nat) (k : LNode) (L : List LNode) :
    kidsRes ns vs s rest cs (k :: L) =
      kidsRes ns vs s rest cs [k] ++ kidsRes ns vs s rest (kidsCs ns vs s cs [k]) L := by
  unfold kidsRes kidsCs
  by_cases hm : mtest s ns k = true
  · simp only [List.filter_cons, hm, if_true, List.filter_nil]
    rw [show (k :: L.filter (mtest s ns)) = [k] ++ L.filter (mtest s ns) from rfl, sfilter_append]
    simp
  · simp [List.filter_cons, hm, sfilter]

theorem kidsCs_cons (s : Step) (cs : List Nat) (k : LNode) (L : List LNode) :
    kidsCs ns vs s cs (k :: L) = kidsCs ns vs s (kidsCs ns vs s cs [k]) L := by
  unfold kidsCs
  by_cases hm : mtest s ns k = true
  · simp only [List.filter_cons, hm, if_true, List.filter_nil]
    rw [show (k :: L.filter (mtest s ns)) = [k] ++ L.filter (mtest s ns) from rfl, sfilter_append]
  · simp [List.filter_cons, hm, sfilter]

/-! ## GenericStrategy over a tree -/

mutual
  theorem generic_dead (steps : List Step) :
      ∀ (n : Node), n.clean = true → ∀ (stk : List (List GPos)) (store : Store) (loc : List Nat),
        matched (runOne (gStep steps ns vs) ⟨[] :: stk, store⟩ n.flatten).1 (eventLocs n loc) = [] ∧
        (runOne (gStep steps ns vs) ⟨[] :: stk, store⟩ n.flatten).2 = ⟨[] :: stk, store⟩
    | .elem t a ks, hcl, stk, store, loc => by
        have hk := generic_deadList steps ks (by simpa [Node.clean] using hcl) ([] :: stk) store loc 0
        simp only [Node.flatten, eventLocs, runOne_cons, runOne_append,
          gStep_empty steps ns vs ⟨[] :: stk, store⟩ (.start t a) stk rfl rfl rfl, Event.isStart, if_true,
          matched, Val.truthy, Bool.false_eq_true, if_false, List.nil_append]
        rw [matched_append _ _ _ _ (by rw [runOne_length, eventLocsList_length]), hk.1, hk.2]
        simp [runOne, gStep_end, matched, Val.truthy]
    | .leaf e, hcl, stk, store, loc => by
        simp only [Node.clean, Bool.and_eq_true, Bool.not_eq_true'] at hcl
        obtain ⟨hend, hstart⟩ := isEnd_of_not_startEnd hcl.1
        simp [Node.flatten, eventLocs, runOne,
          gStep_empty steps ns vs ⟨[] :: stk, store⟩ e stk rfl hend hcl.2, hstart, matched, Val.truthy]
  theorem generic_deadList (steps : List Step) :
      ∀ (ks : List Node), cleanList ks = true → ∀ (stk : List (List GPos)) (store : Store) (loc : List Nat) (i : Nat),
        matched (runOne (gStep steps ns vs) ⟨[] :: stk, store⟩ (flattenList ks)).1 (eventLocsList ks loc i) = [] ∧
        (runOne (gStep steps ns vs) ⟨[] :: stk, store⟩ (flattenList ks)).2 = ⟨[] :: stk, store⟩
    | [], _, stk, store, loc, i => by simp [Genshi.flattenList, eventLocsList, runOne, matched]
    | k :: ks, hcl, stk, store, loc, i => by
        simp only [cleanList, Bool.and_eq_true] at hcl
        have h1 := generic_dead steps k hcl.1 stk store (loc ++ [i])
        have h2 := generic_deadList steps ks hcl.2 stk store loc (i + 1)
        simp only [Genshi.flattenList, eventLocsList, runOne_append]
        rw [matched_append _ _ _ _ (by rw [runOne_length, eventLocs_length]), h1.1, h1.2, h2.1, h2.2]
        exact ⟨rfl, rfl⟩
end

/-- what a subtree leaves behind: the stack as it was, the context's counter advanced to
    `cs'`, older counters untouched, possibly new counters allocated -/
structure Post (st : GState) (cc : Nat) (cs' : List Nat) (st' : GState) : Prop where
  stack : st'.stack = st.stack
  len : st.store.length ≤ st'.store.length
  cur : Store.get st'.store cc = cs'
  frame : ∀ j, j < st.store.length → j ≠ cc → Store.get st'.store j = Store.get st.store j

theorem Post.trans {st st' st'' : GState} {cc : Nat} {cs' cs'' : List Nat}
    (h1 : Post st cc cs' st') (h2 : Post st' cc cs'' st'') : Post st cc cs'' st'' :=
  ⟨h2.stack.trans h1.stack, Nat.le_trans h1.len h2.len, h2.cur,
   fun j hj hne => (h2.frame j (Nat.lt_of_lt_of_le hj h1.len) hne).trans (h1.frame j hj hne)⟩

/-- the outcome of the step's predicates for candidate `k` when the context's counters stand at `cs` -/
def hitOf (s : Step) (cs : List Nat) (k : LNode) : Bool × List Nat := sPreds (evOf k) ns vs s.preds 0 cs

theorem kidsRes_miss (s : Step) (rest : LocPath) (cs : List Nat) (k : LNode) (h : mtest s ns k = false) :
    kidsRes ns vs s rest cs [k] = [] ∧ kidsCs ns vs s cs [k] = cs := by
  simp [kidsRes, kidsCs, List.filter_cons, h, sfilter]

theorem kidsRes_test (s : Step) (rest : LocPath) (cs : List Nat) (k : LNode) (h : mtest s ns k = true) :
    kidsRes ns vs s rest cs [k] = (if (hitOf ns vs s cs k).1 then chainAtP ns vs rest k else []) ∧
    kidsCs ns vs s cs [k] = (hitOf ns vs s cs k).2 := by
  simp only [kidsRes, kidsCs, List.filter_cons, h, if_true, List.filter_nil, sfilter, hitOf]
  split <;> simp_all

/-- the four outcomes of GenericStrategy at the candidate position of a child path, for the
    event of node `k` -/
theorem gStep_cp (p : LocPath) (hp : ChildPath p) (hne : p ≠ []) (k : LNode) (d cc : Nat) (s : Step)
    (stk : List (List GPos)) (store : Store) (hs : p[d]? = some s) (hcc : cc < store.length)
    (he : (evOf k).isEnd = false) (hm : (evOf k).isNsOrCdata = false) :
    gStep (dotSlash :: p) ns vs ⟨[⟨d + 1, [cc]⟩] :: stk, store⟩ (evOf k) =
      (if mtest s ns k = false then
         (⟨if (evOf k).isStart then [] :: [⟨d + 1, [cc]⟩] :: stk else [⟨d + 1, [cc]⟩] :: stk, store⟩, .none)
       else if (hitOf ns vs s (Store.get store cc) k).1 = false then
         (⟨if (evOf k).isStart then [] :: [⟨d + 1, [cc]⟩] :: stk else [⟨d + 1, [cc]⟩] :: stk,
           store.set cc (hitOf ns vs s (Store.get store cc) k).2⟩, .none)
       else if d + 1 == p.length then
         (⟨if (evOf k).isStart then [] :: [⟨d + 1, [cc]⟩] :: stk else [⟨d + 1, [cc]⟩] :: stk,
           store.set cc (hitOf ns vs s (Store.get store cc) k).2⟩, .bool true)
       else
         (⟨if (evOf k).isStart then [⟨d + 2, [store.length]⟩] :: [⟨d + 1, [cc]⟩] :: stk else [⟨d + 1, [cc]⟩] :: stk,
           store.set cc (hitOf ns vs s (Store.get store cc) k).2 ++ [[]]⟩, .none)) := by
  rw [gStep_childPath ns vs p hp hne ⟨[⟨d + 1, [cc]⟩] :: stk, store⟩ (evOf k) d cc s stk rfl hs hcc he hm]
  simp only [mtest, hitOf, evOf, List.length_set]
  by_cases h1 : s.test.matches (nodeEvent k.node) ns = true <;>
    by_cases h2 : (sPreds (nodeEvent k.node) ns vs s.preds 0 (Store.get store cc)).1 = true <;>
    by_cases h3 : (d + 1 == p.length) = true <;> simp [h1, h2, h3]

theorem post_set (stk : List (List GPos)) (top : List GPos) (store : Store) (cc : Nat) (v : List Nat)
    (hcc : cc < store.length) : Post ⟨top :: stk, store⟩ cc v ⟨top :: stk, store.set cc v⟩ :=
  ⟨rfl, by simp, by simp [Store.get_set_self store cc _ hcc], fun j _ hj => Store.get_set_ne store cc j _ hj⟩

mutual
  /-- a node that is a candidate of step `p[d]` under a context node whose counter is `cc` -/
  theorem generic_live (p : LocPath) (hp : ChildPath p) (hne : p ≠ []) :
      ∀ (n : Node), n.clean = true → ∀ (d : Nat) (s : Step) (srest : LocPath), p.drop d = s :: srest →
        ∀ (cc : Nat) (stk : List (List GPos)) (store : Store), cc < store.length → ∀ (loc : List Nat),
        matched (runOne (gStep (dotSlash :: p) ns vs) ⟨[⟨d + 1, [cc]⟩] :: stk, store⟩ n.flatten).1 (eventLocs n loc)
          = kidsRes ns vs s srest (Store.get store cc) [⟨loc, n⟩] ∧
        Post ⟨[⟨d + 1, [cc]⟩] :: stk, store⟩ cc (kidsCs ns vs s (Store.get store cc) [⟨loc, n⟩])
          (runOne (gStep (dotSlash :: p) ns vs) ⟨[⟨d + 1, [cc]⟩] :: stk, store⟩ n.flatten).2
    | .elem tag a ks, hcl, d, s, srest, hdrop, cc, stk, store, hcc, loc => by
        obtain ⟨hget, hdrop', hlast⟩ := drop_cons_info hdrop
        have hkcl : cleanList ks = true := by simpa [Node.clean] using hcl
        have hstep := gStep_cp ns vs p hp hne ⟨loc, .elem tag a ks⟩ d cc s stk store hget hcc rfl rfl
        simp only [evOf, nodeEvent, Event.isStart, if_true] at hstep
        simp only [Node.flatten, eventLocs, runOne_cons, runOne_append, hstep]
        by_cases hm : mtest s ns ⟨loc, .elem tag a ks⟩ = true
        · obtain ⟨hres, hcs⟩ := kidsRes_test ns vs s srest (Store.get store cc) ⟨loc, .elem tag a ks⟩ hm
          rw [hres, hcs]
          simp only [hm, Bool.true_eq_false, if_false]
          by_cases hr : (hitOf ns vs s (Store.get store cc) ⟨loc, .elem tag a ks⟩).1 = true
          · simp only [hr, Bool.true_eq_false, if_false, if_true, hlast]
            cases srest with
            | nil =>
              have hk := generic_deadList ns vs (dotSlash :: p) ks hkcl ([⟨d + 1, [cc]⟩] :: stk)
                (store.set cc (hitOf ns vs s (Store.get store cc) ⟨loc, .elem tag a ks⟩).2) loc 0
              simp only [List.isEmpty_nil, if_true, matched, Val.truthy, Option.toList]
              rw [matched_append _ _ _ _ (by rw [runOne_length, eventLocsList_length]), hk.1, hk.2]
              refine ⟨by simp [runOne, gStep_end, matched, Val.truthy, chainAtP], ?_⟩
              simp only [runOne, gStep_end, List.drop_one, List.tail_cons]
              exact post_set stk _ store cc _ hcc
            | cons s' srest' =>
              have hk := generic_liveList p hp hne ks hkcl (d + 1) s' srest' hdrop' store.length
                ([⟨d + 1, [cc]⟩] :: stk)
                (store.set cc (hitOf ns vs s (Store.get store cc) ⟨loc, .elem tag a ks⟩).2 ++ [[]])
                (by simp) loc 0
              rw [show d + 1 + 1 = d + 2 from rfl] at hk
              simp only [List.isEmpty_cons, Bool.false_eq_true, if_false, matched, Val.truthy, List.nil_append]
              rw [matched_append _ _ _ _ (by rw [runOne_length, eventLocsList_length]), hk.1]
              obtain ⟨hst, hlen, _, hframe⟩ := hk.2
              have hgn : Store.get (store.set cc (hitOf ns vs s (Store.get store cc) ⟨loc, .elem tag a ks⟩).2 ++ [[]])
                  store.length = [] := by
                have := Store.get_append_new (store.set cc (hitOf ns vs s (Store.get store cc) ⟨loc, .elem tag a ks⟩).2)
                simpa using this
              refine ⟨?_, ?_⟩
              · rw [hgn]
                simp [runOne, gStep_end, matched, Val.truthy, chainAtP, stepNodesM, childrenOf_elem, kidsRes]
              · simp only [runOne, gStep_end]
                simp only at hst hlen hframe
                refine ⟨by simp [hst], by simp at hlen ⊢; omega, ?_, ?_⟩
                · have := hframe cc (by simp; omega) (by omega)
                  simp only at this ⊢
                  rw [this, Store.get_append_left _ _ _ (by simpa using hcc), Store.get_set_self store cc _ hcc]
                · intro j hj hjne
                  simp only at hj
                  have := hframe j (by simp; omega) (by omega)
                  simp only at this ⊢
                  rw [this, Store.get_append_left _ _ _ (by simpa using hj), Store.get_set_ne store cc j _ hjne]
          · have hr' : (hitOf ns vs s (Store.get store cc) ⟨loc, .elem tag a ks⟩).1 = false := by simpa using hr
            have hk := generic_deadList ns vs (dotSlash :: p) ks hkcl ([⟨d + 1, [cc]⟩] :: stk)
              (store.set cc (hitOf ns vs s (Store.get store cc) ⟨loc, .elem tag a ks⟩).2) loc 0
            simp only [hr', if_true, Bool.false_eq_true, if_false, matched, Val.truthy, List.nil_append]
            rw [matched_append _ _ _ _ (by rw [runOne_length, eventLocsList_length]), hk.1, hk.2]
            refine ⟨by simp [runOne, gStep_end, matched, Val.truthy], ?_⟩
            simp only [runOne, gStep_end, List.drop_one, List.tail_cons]
            exact post_set stk _ store cc _ hcc
        · have hm' : mtest s ns ⟨loc, .elem tag a ks⟩ = false := by simpa using hm
          obtain ⟨hres, hcs⟩ := kidsRes_miss ns vs s srest (Store.get store cc) ⟨loc, .elem tag a ks⟩ hm'
          rw [hres, hcs]
          have hk := generic_deadList ns vs (dotSlash :: p) ks hkcl ([⟨d + 1, [cc]⟩] :: stk) store loc 0
          simp only [hm', if_true, matched, Val.truthy, Bool.false_eq_true, if_false, List.nil_append]
          rw [matched_append _ _ _ _ (by rw [runOne_length, eventLocsList_length]), hk.1, hk.2]
          refine ⟨by simp [runOne, gStep_end, matched, Val.truthy], ?_⟩
          simp only [runOne, gStep_end, List.drop_one, List.tail_cons]
          exact ⟨rfl, Nat.le_refl _, rfl, fun j _ _ => rfl⟩
    | .leaf e, hcl, d, s, srest, hdrop, cc, stk, store, hcc, loc => by
        obtain ⟨hget, hdrop', hlast⟩ := drop_cons_info hdrop
        simp only [Node.clean, Bool.and_eq_true, Bool.not_eq_true'] at hcl
        obtain ⟨hend, hstart⟩ := isEnd_of_not_startEnd hcl.1
        have hstep := gStep_cp ns vs p hp hne ⟨loc, .leaf e⟩ d cc s stk store hget hcc hend hcl.2
        simp only [evOf, nodeEvent, hstart, Bool.false_eq_true, if_false] at hstep
        simp only [Node.flatten, eventLocs, runOne, hstep]
        by_cases hm : mtest s ns ⟨loc, .leaf e⟩ = true
        · obtain ⟨hres, hcs⟩ := kidsRes_test ns vs s srest (Store.get store cc) ⟨loc, .leaf e⟩ hm
          rw [hres, hcs]
          simp only [hm, Bool.true_eq_false, if_false]
          by_cases hr : (hitOf ns vs s (Store.get store cc) ⟨loc, .leaf e⟩).1 = true
          · simp only [hr, Bool.true_eq_false, if_false, if_true, hlast]
            cases srest with
            | nil =>
              simp only [List.isEmpty_nil, if_true, matched, Val.truthy, Option.toList, List.append_nil]
              exact ⟨by simp [chainAtP], post_set stk _ store cc _ hcc⟩
            | cons s' srest' =>
              simp only [List.isEmpty_cons, Bool.false_eq_true, if_false, matched, Val.truthy, List.append_nil]
              refine ⟨by simp [chainAtP, stepNodesM, childrenOf, sfilter], by first | rfl | trivial, by simp, ?_, ?_⟩
              · simp only
                rw [Store.get_append_left _ _ _ (by simpa using hcc), Store.get_set_self store cc _ hcc]
              · intro j hj hjne
                simp only at hj ⊢
                rw [Store.get_append_left _ _ _ (by simpa using hj), Store.get_set_ne store cc j _ hjne]
          · have hr' : (hitOf ns vs s (Store.get store cc) ⟨loc, .leaf e⟩).1 = false := by simpa using hr
            simp only [hr', if_true, Bool.false_eq_true, if_false, matched, Val.truthy, List.append_nil]
            exact ⟨by first | rfl | trivial, post_set stk _ store cc _ hcc⟩
        · have hm' : mtest s ns ⟨loc, .leaf e⟩ = false := by simpa using hm
          obtain ⟨hres, hcs⟩ := kidsRes_miss ns vs s srest (Store.get store cc) ⟨loc, .leaf e⟩ hm'
          rw [hres, hcs]
          simp only [hm', if_true, matched, Val.truthy, Bool.false_eq_true, if_false, List.append_nil]
          exact ⟨by first | rfl | trivial, rfl, Nat.le_refl _, rfl, fun j _ _ => rfl⟩
  theorem generic_liveList (p : LocPath) (hp : ChildPath p) (hne : p ≠ []) :
      ∀ (ks : List Node), cleanList ks = true → ∀ (d : Nat) (s : Step) (srest : LocPath), p.drop d = s :: srest →
        ∀ (cc : Nat) (stk : List (List GPos)) (store : Store), cc < store.length → ∀ (loc : List Nat) (i : Nat),
        matched (runOne (gStep (dotSlash :: p) ns vs) ⟨[⟨d + 1, [cc]⟩] :: stk, store⟩ (flattenList ks)).1
            (eventLocsList ks loc i)
          = kidsRes ns vs s srest (Store.get store cc) (kidsL loc i ks) ∧
        Post ⟨[⟨d + 1, [cc]⟩] :: stk, store⟩ cc (kidsCs ns vs s (Store.get store cc) (kidsL loc i ks))
          (runOne (gStep (dotSlash :: p) ns vs) ⟨[⟨d + 1, [cc]⟩] :: stk, store⟩ (flattenList ks)).2
    | [], _, d, s, srest, _, cc, stk, store, _, loc, i => by
        simp only [Genshi.flattenList, eventLocsList, runOne, matched, kidsL, List.zipIdx_nil, List.map_nil,
          kidsRes, kidsCs, List.filter_nil, sfilter, List.flatMap_nil]
        exact ⟨by first | rfl | trivial, rfl, Nat.le_refl _, rfl, fun j _ _ => rfl⟩
    | k :: ks, hcl, d, s, srest, hdrop, cc, stk, store, hcc, loc, i => by
        simp only [cleanList, Bool.and_eq_true] at hcl
        have h1 := generic_live p hp hne k hcl.1 d s srest hdrop cc stk store hcc (loc ++ [i])
        cases hst1 : (runOne (gStep (dotSlash :: p) ns vs) ⟨[⟨d + 1, [cc]⟩] :: stk, store⟩ k.flatten).2 with
        | mk stk1 store1 =>
          rw [hst1] at h1
          have hstk1 : stk1 = [⟨d + 1, [cc]⟩] :: stk := h1.2.stack
          subst hstk1
          have hcc1 : cc < store1.length := Nat.lt_of_lt_of_le hcc h1.2.len
          have h2 := generic_liveList p hp hne ks hcl.2 d s srest hdrop cc stk store1 hcc1 loc (i + 1)
          simp only [Genshi.flattenList, eventLocsList, runOne_append, kidsL_cons]
          rw [matched_append _ _ _ _ (by rw [runOne_length, eventLocs_length]), h1.1, hst1, h2.1]
          have hcur : Store.get store1 cc = kidsCs ns vs s (Store.get store cc) [⟨loc ++ [i], k⟩] := h1.2.cur
          refine ⟨?_, ?_⟩
          · rw [kidsRes_cons ns vs s srest (Store.get store cc) ⟨loc ++ [i], k⟩ (kidsL loc (i + 1) ks), hcur]
          · have := Post.trans h1.2 h2.2
            rw [kidsCs_cons ns vs s (Store.get store cc) ⟨loc ++ [i], k⟩ (kidsL loc (i + 1) ks), ← hcur]
            exact this
end

/-! ## The context node -/

theorem gStep_root_cp (p : LocPath) (hp : ChildPath p) (hne : p ≠ []) (st : GState) (tag : QName) (attrs : AttrList)
    (rest : List (List GPos)) (hstack : st.stack = [⟨0, [0]⟩] :: rest) :
    gStep (dotSlash :: p) ns vs st (.start tag attrs) =
      (⟨[⟨1, [st.store.length]⟩] :: st.stack, st.store ++ [[]]⟩, .none) := by
  unfold gStep
  simp only [Event.isEnd, Event.isNsOrCdata, Bool.false_eq_true, if_false, hstack, List.headD_cons,
    List.map_cons, List.map_nil, List.length_cons (a := (0, [0], ([] : List Nat))), List.length_nil,
    Event.isStart, if_true, realLen_childPath p hp hne]
  rw [show 2 * (dotSlash :: p).length + (0 + 1) + 2 = (2 * (dotSlash :: p).length + 2) + 1 from by omega]
  obtain ⟨s0, rest', rfl⟩ : ∃ s0 rest', p = s0 :: rest' := by
    cases p with
    | nil => exact absurd rfl hne
    | cons a b => exact ⟨a, b, rfl⟩
  have hax : s0.axis = .child := hp s0 List.mem_cons_self
  simp [gLoop, gLoop_nil, dotSlash, isDescLike, NodeTest.matches, NodeTest.apply, Val.truthy, gPreds, pushSelf, hax]

/-- GenericStrategy's matches on a child path are `chainAtP` -/
theorem generic_childpath_matches (p : LocPath) (hp : ChildPath p) (hne : p ≠ [])
    (tag : QName) (attrs : AttrList) (kids : List Node) (hcl : cleanList kids = true) :
    matched (runOne (gStep (dotSlash :: p) ns vs) gInit (Node.elem tag attrs kids).flatten).1
        (eventLocs (.elem tag attrs kids) [])
      = chainAtP ns vs p ⟨[], .elem tag attrs kids⟩ := by
  obtain ⟨s0, rest', rfl⟩ : ∃ s0 rest', p = s0 :: rest' := by
    cases p with
    | nil => exact absurd rfl hne
    | cons a b => exact ⟨a, b, rfl⟩
  simp only [Node.flatten, eventLocs, runOne_cons, runOne_append]
  rw [gStep_root_cp ns vs (s0 :: rest') hp hne gInit tag attrs [] rfl]
  have hk := generic_liveList ns vs (s0 :: rest') hp hne kids hcl 0 s0 rest' rfl gInit.store.length gInit.stack
    (gInit.store ++ [[]]) (by simp) [] 0
  simp only [matched, Val.truthy, Bool.false_eq_true, if_false, List.nil_append]
  rw [matched_append _ _ _ _ (by rw [runOne_length, eventLocsList_length]), hk.1]
  have hg : Store.get (gInit.store ++ [[]]) gInit.store.length = [] := Store.get_append_new gInit.store
  rw [hg]
  simp [runOne, gStep_end, matched, Val.truthy, chainAtP, stepNodesM, childrenOf_elem, kidsRes]

end

/-! ## `chainAtP` is the XPath node set -/

-- a property of every node of a tree
mutual
  def AllNodes (P : Node → Prop) : Node → Prop
    | .elem t a ks => P (.elem t a ks) ∧ AllList P ks
    | .leaf e => P (.leaf e)
  def AllList (P : Node → Prop) : List Node → Prop
    | [] => True
    | k :: ks => AllNodes P k ∧ AllList P ks
end

theorem AllNodes.here {P : Node → Prop} : ∀ {n : Node}, AllNodes P n → P n
  | .elem _ _ _, h => h.1
  | .leaf _, h => h

theorem AllNodes.children {P : Node → Prop} (c : LNode) (hc : AllNodes P c.node) :
    ∀ k ∈ childrenOf c, AllNodes P k.node := by
  obtain ⟨loc, node⟩ := c
  cases node with
  | leaf e => intro k hk; simp [childrenOf] at hk
  | elem t a ks =>
    have hall : ∀ (ks : List Node), AllList P ks → ∀ k ∈ ks, AllNodes P k := by
      intro ks
      induction ks with
      | nil => intro _ k hk; simp at hk
      | cons x xs ih =>
        intro h k hk
        rcases List.mem_cons.mp hk with h1 | h1
        · rw [h1]; exact h.1
        · exact ih h.2 k h1
    intro k hk
    simp only [childrenOf, List.mem_map] at hk
    obtain ⟨⟨k', j⟩, hmem, rfl⟩ := hk
    have := List.mem_zipIdx' hmem
    exact hall ks hc.2 k' (this.2 ▸ List.getElem_mem _)

/-- what the theorems need of every node of the tree, for the steps of path `p` -/
def NodeFor (p : LocPath) (ns : NsMap) (vs : Vars) (n : Node) : Prop :=
  nodeOk n ∧ tagsOk n ∧ (match n with | .leaf e => e.isStartEnd = false | _ => True) ∧
  ∀ s ∈ p, ∀ q ∈ s.preds, q.absentFree (nodeEvent n) ns vs = true

theorem stepNodesM_eq (ns : NsMap) (vs : Vars) (p : LocPath) (s : Step) (hs : s ∈ p) (hax : s.axis = .child)
    (hwf : s.test.elemWf ns) (htyped : ∀ q ∈ s.preds, q.typed ns vs = true)
    (c : LNode) (hc : ∀ k ∈ childrenOf c, NodeFor p ns vs k.node) :
    stepNodesM ns vs s c = stepNodes s ns (toXVars vs) c := by
  unfold stepNodesM stepNodes
  rw [hax]
  simp only [axisNodes]
  have hfil : (childrenOf c).filter (mtest s ns) = (childrenOf c).filter fun n => testNode s.test n.node ns := by
    apply List.filter_congr
    intro k hk
    obtain ⟨_, htag, hleaf, _⟩ := hc k hk
    exact mtest_eq_testNode s ns hwf k (by cases hn : k.node <;> simp_all) htag
  rw [hfil]
  have hsub : ∀ n ∈ (childrenOf c).filter (fun n => testNode s.test n.node ns), n ∈ childrenOf c :=
    fun n hn => (List.mem_filter.mp hn).1
  rw [sfilter_eq_fpreds ns vs evOf (Expr.numTyped vs) s.preds _
        (fun n _ q _ => isNum_eval q (evOf n) ns vs) []]
  simp only [List.getD_nil]
  exact fpreds_eq_filterPreds ns (toXVars vs) vs evOf (Expr.numTyped vs) s.preds 0 _
    (fun n hn q hq pos => by
      obtain ⟨hok, _, _, hab⟩ := hc n (hsub n hn)
      have := Genshi.Path.eval_toX n.node hok ns vs q (htyped q hq) (hab s hs q hq)
      unfold predHoldsM predHolds evOf
      cases hv : q.eval (nodeEvent n.node) ns vs <;> rw [hv] at this <;> simp [Val.toX] at this <;>
        rw [← this] <;> simp [Val.truthy, xBoolean])
    (fun n _ q _ => isNum_eval q (evOf n) ns vs)

theorem chainAtP_reach (ns : NsMap) (vs : Vars) (p0 : LocPath) :
    ∀ (p : LocPath), (∀ s ∈ p, s ∈ p0) → ChildPath p → (∀ s ∈ p, s.test.elemWf ns) →
      (∀ s ∈ p, ∀ q ∈ s.preds, q.typed ns vs = true) →
      ∀ (c : LNode), AllNodes (NodeFor p0 ns vs) c.node → ∀ (m : LNode),
        (chainAtP ns vs p c).any (fun x => x.loc == m.loc) = reach ns (toXVars vs) p c m := by
  intro p
  induction p with
  | nil => intro _ _ _ _ c _ m; simp [chainAtP, reach]
  | cons s rest ih =>
    intro hsub hp hwf htyped c hc m
    have hkids := AllNodes.children c hc
    have hsn := stepNodesM_eq ns vs p0 s (hsub s List.mem_cons_self) (hp s List.mem_cons_self)
      (hwf s List.mem_cons_self) (htyped s List.mem_cons_self) c (fun k hk => (hkids k hk).here)
    simp only [chainAtP, reach, List.any_flatMap, hsn]
    apply any_congr_mem
    intro k hk
    have hkc : k ∈ childrenOf c := by
      have : k ∈ stepNodes s ns (toXVars vs) c := hk
      unfold stepNodes at this
      rw [hp s List.mem_cons_self] at this
      simp only [axisNodes] at this
      have hsubf : ∀ (ps : List Expr) (L : List LNode), ∀ n ∈ filterPreds ps ns (toXVars vs) L, n ∈ L := by
        intro ps
        induction ps with
        | nil => intro L n hn; simpa [filterPreds] using hn
        | cons q qs ihq =>
          intro L n hn
          simp only [filterPreds, List.foldl_cons] at hn
          exact filterPred_mem ns (toXVars vs) q L n (ihq _ n hn)
      exact (List.mem_filter.mp (hsubf _ _ k this)).1
    exact ih (fun s' hs' => hsub s' (List.mem_cons_of_mem _ hs')) (fun s' hs' => hp s' (List.mem_cons_of_mem _ hs'))
      (fun s' hs' => hwf s' (List.mem_cons_of_mem _ hs')) (fun s' hs' => htyped s' (List.mem_cons_of_mem _ hs'))
      k (hkids k hkc) m

end Genshi.Path

/-
  Helper lemmas for C09: the merge-only whitespace filter stays unobservable when
  a doctype option is given (`DocTypeInserter` only looks at the first event that
  reaches it, and merging text never changes whether that is an XML declaration).
-/
import Genshi.Lemmas.OutputWs
namespace Genshi.Output
open Genshi Genshi.Escape

/-- main loop (no cache) on the output of `DocTypeInserter`, joined -/
def outD (m : Method) (o : Opts) (d : DocTypeT) (X : Option (List FEv)) : Option Str :=
  X.map fun fs => (loop m o false {} (docTypeInsert d fs)).flatten

def headIsDecl : List FEv → Bool
  | .xmlDecl _ _ _ :: _ => true
  | _ => false

theorem docTypeInsert_noDecl (d : DocTypeT) (X : List FEv) (h : headIsDecl X = false) :
    docTypeInsert d X = .doctype d.1 d.2.1 d.2.2 :: X := by
  cases X with
  | nil => rfl
  | cons e es => cases e <;> simp_all [docTypeInsert, headIsDecl]

/-- the state of the main loop behind the inserted DOCTYPE -/
def lstBehindDoctype : LoopSt := { haveDoctype := true }

theorem outD_noDecl (m : Method) (o : Opts) (d : DocTypeT) (X : List FEv) (h : headIsDecl X = false) :
    (loop m o false {} (docTypeInsert d X)).flatten =
      doctypeOut d.1 d.2.1 d.2.2 ++ (loop m o false lstBehindDoctype X).flatten := by
  rw [docTypeInsert_noDecl d X h]
  simp [loop, step, miss, lstBehindDoctype]

theorem flatten_cons_some' (st : FlatSt) (ev : QEv) (rest : List QEv) (r : FlatSt × List FEv)
    (h : flatStep false st ev = some r) :
    flatten false st (ev :: rest) = (flatten false r.1 rest).map (r.2 ++ ·) := by
  simp only [flatten, h]
  cases flatten false r.1 rest <;> simp

theorem flatten_cons_none (st : FlatSt) (ev : QEv) (rest : List QEv) (h : flatStep false st ev = none) :
    flatten false st (ev :: rest) = none := by simp [flatten, h]

theorem flatten_text_cons (st : FlatSt) (s : Str) (f : Bool) (rest : List QEv) :
    flatten false st (.text s f :: rest) = (flatten false st rest).map (XEv.text s f :: ·) := by
  rw [flatten_cons_some' st _ _ (st, [.text s f]) (by simp [flatStep])]
  rfl

/-- with text pending, the first event the filter hands on is a (Markup) text event -/
theorem flatten_wsFilter_head (norm : Bool → Str → Str) (cfg : WsCfg) (es : List QEv) :
    ∀ (wst : WsSt) (fst : FlatSt) (X : List FEv), wst.textbuf ≠ [] →
      flatten false fst (wsFilterG norm cfg wst es) = some X → headIsDecl X = false := by
  induction es with
  | nil =>
    intro wst fst X htb h
    have he : wst.textbuf.isEmpty = false := by simpa using htb
    simp only [wsFilterG, wsFlushG, he, Bool.false_eq_true, ↓reduceIte] at h
    rw [flatten_text_cons] at h
    simp [flatten] at h; subst h; rfl
  | cons ev rest ih =>
    intro wst fst X htb h
    have he : wst.textbuf.isEmpty = false := by simpa using htb
    have nontext : wsFilterG norm cfg wst (ev :: rest) =
          wsFlushG norm wst ++ ev :: wsFilterG norm cfg (wsUpdate cfg { wst with textbuf := [] } ev) rest →
        headIsDecl X = false := by
      intro hunf
      rw [hunf] at h
      simp only [wsFlushG, he, Bool.false_eq_true, ↓reduceIte, List.singleton_append] at h
      rw [flatten_text_cons] at h
      cases hf : flatten false fst (ev :: wsFilterG norm cfg (wsUpdate cfg { wst with textbuf := [] } ev) rest) with
      | none => simp [hf] at h
      | some Y => simp [hf] at h; subst h; rfl
    cases ev with
    | text s safe =>
      simp only [wsFilterG] at h
      exact ih _ fst X (by simp) h
    | start t a => exact nontext (by simp [wsFilterG])
    | empty t a => exact nontext (by simp [wsFilterG])
    | end_ t => exact nontext (by simp [wsFilterG])
    | comment s => exact nontext (by simp [wsFilterG])
    | pi t d => exact nontext (by simp [wsFilterG])
    | doctype n p q => exact nontext (by simp [wsFilterG])
    | xmlDecl v e q => exact nontext (by simp [wsFilterG])
    | startNs p u => exact nontext (by simp [wsFilterG])
    | endNs p => exact nontext (by simp [wsFilterG])
    | startCdata => exact nontext (by simp [wsFilterG])
    | endCdata => exact nontext (by simp [wsFilterG])

theorem wsFlushG_empty (norm : Bool → Str → Str) : wsFlushG norm {} = [] := rfl

/-- when neither side starts with an XML declaration the DOCTYPE goes in front on both sides and
    `wsMerge_tailOut` applies behind it -/
theorem outD_eq_of_noDecl (m : Method) (o : Opts) (d : DocTypeT) (es : List QEv) (fst : FlatSt)
    (hag : ∀ ev ∈ es, NoescapeAgree m ev)
    (hF : ∀ X, flatten false fst (wsFilterG idNorm (wsCfg m) {} es) = some X → headIsDecl X = false)
    (hP : ∀ X, flatten false fst es = some X → headIsDecl X = false) :
    outD m o d (flatten false fst (wsFilterG idNorm (wsCfg m) {} es)) = outD m o d (flatten false fst es) := by
  have hm := wsMerge_tailOut m o es {} fst lstBehindDoctype ⟨rfl, fun _ => rfl, fun _ => rfl⟩ hag
  simp only [tailOut, bufOut, List.flatMap_nil, List.nil_append] at hm
  unfold outD
  cases hf : flatten false fst (wsFilterG idNorm (wsCfg m) {} es) with
  | none =>
    cases hp : flatten false fst es with
    | none => rfl
    | some Xp => simp [hf, hp] at hm
  | some Xf =>
    cases hp : flatten false fst es with
    | none => simp [hf, hp] at hm
    | some Xp =>
      simp only [hf, hp, Option.map_some, Option.some.injEq] at hm ⊢
      rw [outD_noDecl m o d Xf (hF Xf hf), outD_noDecl m o d Xp (hP Xp hp), hm]

/-- the merge-only filter is unobservable also in front of `DocTypeInserter` -/
theorem wsMerge_doctype (m : Method) (o : Opts) (d : DocTypeT) (es : List QEv) :
    ∀ fst : FlatSt, (∀ ev ∈ es, NoescapeAgree m ev) →
      outD m o d (flatten false fst (wsFilterG idNorm (wsCfg m) {} es)) = outD m o d (flatten false fst es) := by
  induction es with
  | nil => intro fst _; rfl
  | cons ev rest ih =>
    intro fst hag
    have hag_rest : ∀ e ∈ rest, NoescapeAgree m e := fun e he => hag e (by simp [he])
    -- events that hand exactly one event, not an XML declaration, to the inserter
    have single : ∀ (hw : wsFilterG idNorm (wsCfg m) {} (ev :: rest) =
            ev :: wsFilterG idNorm (wsCfg m) (wsUpdate (wsCfg m) {} ev) rest)
        (hs : ∀ r, flatStep false fst ev = some r → ∃ e', r.2 = [e'] ∧ headIsDecl [e'] = false),
        outD m o d (flatten false fst (wsFilterG idNorm (wsCfg m) {} (ev :: rest))) =
          outD m o d (flatten false fst (ev :: rest)) := by
      intro hw hs
      refine outD_eq_of_noDecl m o d (ev :: rest) fst hag ?_ ?_
      · intro X hX
        rw [hw] at hX
        cases hst : flatStep false fst ev with
        | none => rw [flatten_cons_none _ _ _ hst] at hX; cases hX
        | some r =>
          obtain ⟨e', he', hd⟩ := hs r hst
          rw [flatten_cons_some' _ _ _ _ hst, he'] at hX
          cases hf : flatten false r.1 (wsFilterG idNorm (wsCfg m) (wsUpdate (wsCfg m) {} ev) rest) with
          | none => simp [hf] at hX
          | some Y => simp [hf] at hX; subst hX; cases e' <;> simp_all [headIsDecl]
      · intro X hX
        cases hst : flatStep false fst ev with
        | none => rw [flatten_cons_none _ _ _ hst] at hX; cases hX
        | some r =>
          obtain ⟨e', he', hd⟩ := hs r hst
          rw [flatten_cons_some' _ _ _ _ hst, he'] at hX
          cases hf : flatten false r.1 rest with
          | none => simp [hf] at hX
          | some Y => simp [hf] at hX; subst hX; cases e' <;> simp_all [headIsDecl]
    cases ev with
    | text s safe =>
      refine outD_eq_of_noDecl m o d _ fst hag ?_ ?_
      · intro X hX
        simp only [wsFilterG] at hX
        exact flatten_wsFilter_head idNorm (wsCfg m) rest _ fst X (by simp) hX
      · intro X hX
        simp only [flatten, flatStep] at hX
        cases hf : flatten false fst rest with
        | none => simp [hf] at hX
        | some Y => simp [hf] at hX; subst hX; rfl
    | xmlDecl v e q =>
      -- the declaration stays first on both sides; behind it and the DOCTYPE `wsMerge_tailOut` applies
      have hw : wsFilterG idNorm (wsCfg m) {} (XEv.xmlDecl v e q :: rest) =
          XEv.xmlDecl v e q :: wsFilterG idNorm (wsCfg m) {} rest := by
        simp [wsFilterG, wsFlushG_empty, wsUpdate]
      rw [hw]
      have hst : flatStep false fst (XEv.xmlDecl v e q) = some (fst, [XEv.xmlDecl v e q]) := by simp [flatStep]
      rw [flatten_cons_some' _ _ _ _ hst, flatten_cons_some' _ _ _ _ hst]
      -- the loop state behind declaration and doctype
      let lst2 : LoopSt := (step m o false (step m o false {} (XEv.xmlDecl v e q)).1 (.doctype d.1 d.2.1 d.2.2)).1
      have hraw : lst2.raw = false := by
        have h1 := (step_nocache m o {} (XEv.xmlDecl v e q)).2.1
        have h2 := (step_nocache m o (step m o false {} (XEv.xmlDecl v e q)).1 (.doctype d.1 d.2.1 d.2.2)).2.1
        have : (ctxOf lst2).raw = false := by
          show (ctxOf (step m o false (step m o false {} (XEv.xmlDecl v e q)).1 (.doctype d.1 d.2.1 d.2.2)).1).raw = false
          rw [h2, h1]
          simp only [ctxAfter, ctxOf]
          split <;> rfl
        exact this
      have hm := wsMerge_tailOut m o rest {} fst lst2 ⟨by simp [hraw], fun _ => rfl, fun _ => rfl⟩ hag_rest
      simp only [tailOut, bufOut, List.flatMap_nil, List.nil_append] at hm
      unfold outD
      cases hf : flatten false fst (wsFilterG idNorm (wsCfg m) {} rest) with
      | none =>
        cases hp : flatten false fst rest with
        | none => rfl
        | some Xp => simp [hf, hp] at hm
      | some Xf =>
        cases hp : flatten false fst rest with
        | none => simp [hf, hp] at hm
        | some Xp =>
          simp only [hf, hp, Option.map_some, Option.some.injEq] at hm ⊢
          simp only [List.singleton_append, docTypeInsert, loop, List.flatten_append]
          show _ ++ (_ ++ (loop m o false lst2 Xf).flatten) = _ ++ (_ ++ (loop m o false lst2 Xp).flatten)
          rw [hm]
    | startNs p u =>
      have hw : wsFilterG idNorm (wsCfg m) {} (XEv.startNs p u :: rest) =
          XEv.startNs p u :: wsFilterG idNorm (wsCfg m) {} rest := by
        simp [wsFilterG, wsFlushG_empty, wsUpdate]
      rw [hw]
      cases hst : flatStep false fst (XEv.startNs p u) with
      | none => rw [flatten_cons_none _ _ _ hst, flatten_cons_none _ _ _ hst]
      | some r =>
        have hr2 : r.2 = [] := flatStep_shape fst _ r hst
        rw [flatten_cons_some' _ _ _ _ hst, flatten_cons_some' _ _ _ _ hst, hr2]
        have := ih r.1 hag_rest
        simpa using this
    | endNs p =>
      have hw : wsFilterG idNorm (wsCfg m) {} (XEv.endNs p :: rest) =
          XEv.endNs p :: wsFilterG idNorm (wsCfg m) {} rest := by
        simp [wsFilterG, wsFlushG_empty, wsUpdate]
      rw [hw]
      cases hst : flatStep false fst (XEv.endNs p) with
      | none => rw [flatten_cons_none _ _ _ hst, flatten_cons_none _ _ _ hst]
      | some r =>
        have hr2 : r.2 = [] := flatStep_shape fst _ r hst
        rw [flatten_cons_some' _ _ _ _ hst, flatten_cons_some' _ _ _ _ hst, hr2]
        have := ih r.1 hag_rest
        simpa using this
    | start t a =>
      exact single (by simp [wsFilterG, wsFlushG_empty]) (fun r hr => by
        obtain ⟨fa, hfa⟩ := flatStep_shape fst _ r hr; exact ⟨_, hfa, rfl⟩)
    | empty t a =>
      exact single (by simp [wsFilterG, wsFlushG_empty]) (fun r hr => by
        obtain ⟨fa, hfa⟩ := flatStep_shape fst _ r hr; exact ⟨_, hfa, rfl⟩)
    | end_ t =>
      exact single (by simp [wsFilterG, wsFlushG_empty]) (fun r hr => by
        obtain ⟨x, hx⟩ := flatStep_shape fst _ r hr; exact ⟨_, hx, rfl⟩)
    | comment s =>
      exact single (by simp [wsFilterG, wsFlushG_empty]) (fun r hr => ⟨_, flatStep_shape fst _ r hr, rfl⟩)
    | pi t d' =>
      exact single (by simp [wsFilterG, wsFlushG_empty]) (fun r hr => ⟨_, flatStep_shape fst _ r hr, rfl⟩)
    | doctype n p q =>
      exact single (by simp [wsFilterG, wsFlushG_empty]) (fun r hr => ⟨_, flatStep_shape fst _ r hr, rfl⟩)
    | startCdata =>
      exact single (by simp [wsFilterG, wsFlushG_empty]) (fun r hr => ⟨_, flatStep_shape fst _ r hr, rfl⟩)
    | endCdata =>
      exact single (by simp [wsFilterG, wsFlushG_empty]) (fun r hr => ⟨_, flatStep_shape fst _ r hr, rfl⟩)

end Genshi.Output

/-
  C13 — `parse_gen`: lambda expressions (parameter lists).
-/
import Genshi.Lemmas.PyParseComp
namespace Genshi.Py
open Genshi.Gen

def ParamGoal (p : PyExpr) : Prop := ∃ n d, p = .param n none d ∧ IdentOK n ∧ OptGoal d

def VarGoal (o : Option PyExpr) : Prop := ∀ p, o = some p → ∃ n, p = .param n none none ∧ IdentOK n

/-- the tokens of an item of the flat parameter list -/
def paramTk : PyExpr → List Tok
  | .unsupported ['/'] => [tSlash]
  | .starred (.unsupported ['*']) => [tStar]
  | .starred p => tStar :: gen p
  | .keyword none p => tDStar :: gen p
  | p => gen p

def starPart (va : Option PyExpr) (ko : List PyExpr) : List PyExpr :=
  match va with
  | some v => [.starred v]
  | none => if ko.isEmpty then [] else [bareStar]

def kwPart : Option PyExpr → List PyExpr
  | some k => [.keyword none k]
  | none => []

def flatParams (po ar : List PyExpr) (va : Option PyExpr) (ko : List PyExpr) (ka : Option PyExpr) : List PyExpr :=
  po ++ ((if po.isEmpty then [] else [slashMark]) ++ (ar ++ (starPart va ko ++ (ko ++ kwPart ka))))

/-- every item preceded by a comma -/
def preBy (tk : PyExpr → List Tok) : List PyExpr → List Tok
  | [] => []
  | x :: xs => tComma :: (tk x ++ preBy tk xs)

theorem preBy_append (tk : PyExpr → List Tok) (a b : List PyExpr) : preBy tk (a ++ b) = preBy tk a ++ preBy tk b := by
  induction a with
  | nil => rfl
  | cons x xs ih => simp [preBy, ih]

theorem preBy_drop (tk : PyExpr → List Tok) (xs : List PyExpr) : (preBy tk xs).drop 1 = sepBy tk xs := by
  induction xs with
  | nil => rfl
  | cons x xs ih =>
    cases xs with
    | nil => simp [preBy, sepBy]
    | cons y ys =>
      simp only [preBy, List.drop_succ_cons, List.drop_zero, sepBy] at ih ⊢
      rw [← ih]

theorem paramTk_param (p : PyExpr) (h : isParam p = true) : paramTk p = gen p := by
  cases p <;> first | rfl | simp [isParam] at h

theorem preBy_params (xs : List PyExpr) (h : ∀ x ∈ xs, isParam x = true) :
    genList [tComma] [] xs = preBy paramTk xs := by
  induction xs with
  | nil => rfl
  | cons x xs ih =>
    simp [genList_cons, preBy, paramTk_param x (h x (by simp)), ih (fun y hy => h y (by simp [hy]))]

theorem paramGoal_isParam {p : PyExpr} (h : ParamGoal p) : isParam p = true := by
  obtain ⟨n, d, rfl, _⟩ := h; rfl

theorem genParams_flat (po ar : List PyExpr) (va : Option PyExpr) (ko : List PyExpr) (ka : Option PyExpr)
    (hpo : ∀ x ∈ po, ParamGoal x) (har : ∀ x ∈ ar, ParamGoal x) (hko : ∀ x ∈ ko, ParamGoal x)
    (hva : VarGoal va) (hka : VarGoal ka) :
    paramsToks (genList [tComma] [] po) po.isEmpty (genList [tComma] [] ar)
        (varargToks (genOpt [tComma, tStar] va) va.isNone ko.isEmpty) (genList [tComma] [] ko)
        (genOpt [tComma, tDStar] ka)
      = sepBy paramTk (flatParams po ar va ko ka) := by
  rw [← preBy_drop]
  unfold paramsToks flatParams
  congr 1
  rw [preBy_append, preBy_append, preBy_append, preBy_append, preBy_append]
  rw [preBy_params po (fun x hx => paramGoal_isParam (hpo x hx)),
      preBy_params ar (fun x hx => paramGoal_isParam (har x hx)),
      preBy_params ko (fun x hx => paramGoal_isParam (hko x hx))]
  have h1 : (if po.isEmpty then [] else [tComma, tSlash]) = preBy paramTk (if po.isEmpty then [] else [slashMark]) := by
    split <;> rfl
  have h2 : varargToks (genOpt [tComma, tStar] va) va.isNone ko.isEmpty = preBy paramTk (starPart va ko) := by
    cases va with
    | none =>
      simp only [varargToks, Option.isNone_none, Bool.not_true, Bool.false_eq_true, if_false, starPart]
      split <;> rfl
    | some v =>
      obtain ⟨n, rfl, _⟩ := hva v rfl
      simp [varargToks, starPart, genOpt, preBy, paramTk]
  have h3 : genOpt [tComma, tDStar] ka = preBy paramTk (kwPart ka) := by
    cases ka with
    | none => rfl
    | some k => simp [genOpt, kwPart, preBy, paramTk]
  rw [h1, h2, h3]
  simp only [List.append_assoc]

/-! ### reassembling the fields of `arguments` -/

theorem splitSlash_none (xs : List PyExpr) (h : ∀ x ∈ xs, x ≠ slashMark) : splitSlash xs = none := by
  induction xs with
  | nil => rfl
  | cons x xs ih =>
    have hx := h x (by simp)
    have := ih (fun y hy => h y (by simp [hy]))
    unfold splitSlash
    split
    · simp at *
    · rename_i heq; have := (List.cons.inj heq).1; subst this; exact absurd rfl hx
    · rename_i heq
      obtain ⟨h1, h2⟩ := List.cons.inj heq
      subst h1; subst h2
      simp [this]

theorem splitSlash_some (po rest : List PyExpr) (h : ∀ x ∈ po, x ≠ slashMark) :
    splitSlash (po ++ slashMark :: rest) = some (po, rest) := by
  induction po with
  | nil => rfl
  | cons x xs ih =>
    have hx := h x (by simp)
    have := ih (fun y hy => h y (by simp [hy]))
    simp only [List.cons_append]
    unfold splitSlash
    split
    · simp at *
    · rename_i heq; have := (List.cons.inj heq).1; subst this; exact absurd rfl hx
    · rename_i heq
      obtain ⟨h1, h2⟩ := List.cons.inj heq
      subst h1; subst h2
      simp [this]

theorem takeWhile_params (a b : List PyExpr) (ha : ∀ x ∈ a, isParam x = true)
    (hb : b = [] ∨ ∃ y ys, b = y :: ys ∧ isParam y = false) :
    (a ++ b).takeWhile isParam = a ∧ (a ++ b).dropWhile isParam = b := by
  induction a with
  | nil =>
    rcases hb with rfl | ⟨y, ys, rfl, hy⟩
    · simp
    · simp [List.takeWhile, List.dropWhile, hy]
  | cons x xs ih =>
    have hx := ha x (by simp)
    have := ih (fun y hy => ha y (by simp [hy]))
    simp [List.takeWhile, List.dropWhile, hx, this]

theorem param_ne_slash {x : PyExpr} (h : isParam x = true) : x ≠ slashMark := by
  intro e; subst e; simp [isParam, slashMark] at h

theorem assemble_flat (po ar : List PyExpr) (va : Option PyExpr) (ko : List PyExpr) (ka : Option PyExpr)
    (hpo : ∀ x ∈ po, isParam x = true) (har : ∀ x ∈ ar, isParam x = true) (hko : ∀ x ∈ ko, isParam x = true)
    (hva : ∀ v, va = some v → isParam v = true) (hka : ∀ v, ka = some v → isParam v = true) :
    assembleParams (flatParams po ar va ko ka) = some (po, ar, va, ko, ka) := by
  -- the tail after the positional parameters
  have htail : assembleTail po ar (starPart va ko ++ (ko ++ kwPart ka)) = some (po, ar, va, ko, ka) := by
    have hkw : kwPart ka = [] ∨ ∃ y ys, kwPart ka = y :: ys ∧ isParam y = false := by
      cases ka with
      | none => left; rfl
      | some k => right; exact ⟨_, _, rfl, rfl⟩
    have htk := takeWhile_params ko (kwPart ka) hko hkw
    cases va with
    | some v =>
      simp only [starPart, List.cons_append, List.nil_append, assembleTail, hva v rfl, if_true, htk.1, htk.2]
      cases ka <;> simp [kwPart]
    | none =>
      by_cases hk : ko = []
      · subst hk
        cases ka <;> simp [starPart, kwPart, assembleTail]
      · have : ko.isEmpty = false := by cases ko <;> simp_all
        simp only [starPart, this, Bool.false_eq_true, if_false, List.cons_append, List.nil_append, assembleTail,
          bareStar, isParam, htk.1, htk.2]
        cases ka <;> simp [kwPart]
  have hrest : (starPart va ko ++ (ko ++ kwPart ka)) = [] ∨
      ∃ y ys, (starPart va ko ++ (ko ++ kwPart ka)) = y :: ys ∧ isParam y = false := by
    cases va with
    | some v => right; exact ⟨_, _, rfl, rfl⟩
    | none =>
      by_cases hk : ko = []
      · subst hk
        cases ka with
        | none => left; rfl
        | some k => right; exact ⟨_, _, rfl, rfl⟩
      · have : ko.isEmpty = false := by cases ko <;> simp_all
        right; simp only [starPart, this]; exact ⟨_, _, rfl, rfl⟩
  have htw := takeWhile_params ar _ har hrest
  have hnoslash : ∀ x ∈ ar ++ (starPart va ko ++ (ko ++ kwPart ka)), x ≠ slashMark := by
    intro x hx
    simp only [List.mem_append] at hx
    rcases hx with h | h | h | h
    · exact param_ne_slash (har x h)
    · cases va with
      | some v => simp [starPart] at h; subst h; simp [slashMark]
      | none =>
        simp only [starPart] at h
        split at h
        · simp at h
        · simp at h; subst h; simp [slashMark, bareStar]
    · exact param_ne_slash (hko x h)
    · cases ka with
      | some k => simp [kwPart] at h; subst h; simp [slashMark]
      | none => simp [kwPart] at h
  unfold assembleParams flatParams
  by_cases hp : po = []
  · subst hp
    simp only [List.isEmpty_nil, if_true, List.nil_append]
    rw [splitSlash_none _ hnoslash]
    simp only [List.all_nil, if_true, htw.1, htw.2, htail]
  · have : po.isEmpty = false := by cases po <;> simp_all
    simp only [this, Bool.false_eq_true, if_false, List.cons_append, List.nil_append]
    rw [splitSlash_some po _ (fun x hx => param_ne_slash (hpo x hx))]
    have hall : po.all isParam = true := List.all_eq_true.mpr hpo
    simp only [hall, if_true, htw.1, htw.2, htail]

/-! ### the items of the flat parameter list -/

def FlatGoal (x : PyExpr) : Prop :=
  ParamGoal x ∨ x = slashMark ∨ x = bareStar ∨ (∃ n, x = .starred (.param n none none) ∧ IdentOK n)
    ∨ (∃ n, x = .keyword none (.param n none none) ∧ IdentOK n)

theorem flat_goals (po ar : List PyExpr) (va : Option PyExpr) (ko : List PyExpr) (ka : Option PyExpr)
    (hpo : ∀ x ∈ po, ParamGoal x) (har : ∀ x ∈ ar, ParamGoal x) (hko : ∀ x ∈ ko, ParamGoal x)
    (hva : VarGoal va) (hka : VarGoal ka) : ∀ x ∈ flatParams po ar va ko ka, FlatGoal x := by
  intro x hx
  simp only [flatParams, List.mem_append] at hx
  rcases hx with h | h | h | h | h | h
  · exact Or.inl (hpo x h)
  · split at h
    · simp at h
    · simp at h; exact Or.inr (Or.inl h)
  · exact Or.inl (har x h)
  · cases va with
    | some v =>
      obtain ⟨n, rfl, hn⟩ := hva v rfl
      simp [starPart] at h
      exact Or.inr (Or.inr (Or.inr (Or.inl ⟨n, h, hn⟩)))
    | none =>
      simp only [starPart] at h
      split at h
      · simp at h
      · simp at h; exact Or.inr (Or.inr (Or.inl h))
  · exact Or.inl (hko x h)
  · cases ka with
    | some k =>
      obtain ⟨n, rfl, hn⟩ := hka k rfl
      simp [kwPart] at h
      exact Or.inr (Or.inr (Or.inr (Or.inr ⟨n, h, hn⟩)))
    | none => simp [kwPart] at h

theorem itemF_params (k : Knot) (toks : List Tok) : itemF k .params toks = paramF k toks := by
  simp only [itemF]

theorem flat_item (x : PyExpr) (h : FlatGoal x) :
    ItemOK .params paramTk x ∧ ∀ rest, atCloser tColon (paramTk x ++ rest) = false := by
  rcases h with ⟨n, d, rfl, hn, gd⟩ | rfl | rfl | ⟨n, rfl, hn⟩ | ⟨n, rfl, hn⟩
  · have hn' : isKeyword n = false := hn
    cases d with
    | none =>
      constructor
      · intro M _ rest hr
        rw [itemF_params]
        cases rest with
        | nil => simp [paramTk, gen, genOpt, paramF, hn']
        | cons t r =>
          rcases itemEnd_elim hr with rfl | rfl | rfl | rfl | rfl <;>
            simp [paramTk, gen, genOpt, paramF, hn', tComma, tRP, tRB, tRC, tColon]
      · intro rest; simp [paramTk, gen, genOpt, atCloser, tColon]
    | some e =>
      have ge := gd e rfl
      constructor
      · intro M hM rest hr
        simp only [need, sz, szO] at hM
        have := ge.kexpr (M := M) (by simp only [need]; omega) rest (itemEnd_closedE hr)
        rw [itemF_params]
        simp [paramTk, gen, genOpt, paramF, hn', tEq, this]
      · intro rest; simp [paramTk, gen, genOpt, atCloser, tColon]
  · constructor
    · intro M _ rest _; rw [itemF_params]; rfl
    · intro rest; rfl
  · constructor
    · intro M _ rest hr
      rw [itemF_params]
      cases rest with
      | nil => rfl
      | cons t r =>
        rcases itemEnd_elim hr with rfl | rfl | rfl | rfl | rfl <;> rfl
    · intro rest; rfl
  · have hn' : isKeyword n = false := hn
    constructor
    · intro M _ rest _
      rw [itemF_params]
      simp [paramTk, gen, genOpt, paramF, hn', tStar]
    · intro rest; simp [paramTk, gen, genOpt, atCloser, tColon, tStar]
  · have hn' : isKeyword n = false := hn
    constructor
    · intro M _ rest _
      rw [itemF_params]
      simp [paramTk, gen, genOpt, paramF, hn', tDStar]
    · intro rest; simp [paramTk, gen, genOpt, atCloser, tColon, tDStar]

theorem szL_flat (po ar : List PyExpr) (va : Option PyExpr) (ko : List PyExpr) (ka : Option PyExpr) :
    szL (flatParams po ar va ko ka) ≤ szL po + szL ar + szO va + szL ko + szO ka + 7 := by
  simp only [flatParams, szL_append]
  have h1 : szL (if po.isEmpty then [] else [slashMark]) ≤ 2 := by split <;> simp [szL, sz, slashMark]
  have h2 : szL (starPart va ko) ≤ szO va + 3 := by
    cases va with
    | some v => simp [starPart, szL, sz, szO]; omega
    | none => simp only [starPart]; split <;> simp [szL, sz, szO, bareStar]
  have h3 : szL (kwPart ka) ≤ szO ka + 1 := by
    cases ka with
    | some k => simp [kwPart, szL, sz, szO]; omega
    | none => simp [kwPart, szL, szO]
  omega

theorem exprF_lambda (k : Knot) (r : List Tok) :
    exprF k (.name ['l', 'a', 'm', 'b', 'd', 'a'] :: r) = (k.items .params tColon [] false r).bind fun y =>
      (assembleParams y.1.1).bind fun a =>
        match y.2 with
        | .op [':'] :: r2 => (k.expr r2).bind fun b => some (.lambda a.1 a.2.1 a.2.2.1 a.2.2.2.1 a.2.2.2.2 b.1, b.2)
        | _ => none := rfl

theorem goal_lambda (po ar : List PyExpr) (va : Option PyExpr) (ko : List PyExpr) (ka : Option PyExpr)
    (body : PyExpr) (hpo : ∀ x ∈ po, ParamGoal x) (har : ∀ x ∈ ar, ParamGoal x) (hko : ∀ x ∈ ko, ParamGoal x)
    (hva : VarGoal va) (hka : VarGoal ka) (gb : ExprGoal body) : ExprGoal (.lambda po ar va ko ka body) := by
  have hflat := genParams_flat po ar va ko ka hpo har hko hva hka
  have hasm := assemble_flat po ar va ko ka (fun x hx => paramGoal_isParam (hpo x hx))
    (fun x hx => paramGoal_isParam (har x hx)) (fun x hx => paramGoal_isParam (hko x hx))
    (fun v hv => by obtain ⟨n, rfl, _⟩ := hva v hv; rfl) (fun v hv => by obtain ⟨n, rfl, _⟩ := hka v hv; rfl)
  have hgoals := flat_goals po ar va ko ka hpo har hko hva hka
  apply goal_of_paren _ (kw cs!"lambda" :: (sepBy paramTk (flatParams po ar va ko ka) ++ tColon :: gen body))
  · simp [gen, wrapP, parens_all.2.2.2.1, hflat]
  · rfl
  · rfl
  · rfl
  · intro n hn rest
    simp only [need, sz] at hn
    have hsz := szL_flat po ar va ko ka
    obtain ⟨m, rfl⟩ : ∃ m, n = m + 1 := ⟨n - 1, by omega⟩
    have hb := gb.kexpr (M := m+1) (by simp only [need]; omega) (tRP :: rest) (closedE_cons_rp rest)
    simp only [List.cons_append, List.append_assoc, kw]
    rw [exprF_lambda]
    have hitems : ∃ c', (knot (m+1)).items .params tColon [] false
        (sepBy paramTk (flatParams po ar va ko ka) ++ tColon :: (gen body ++ tRP :: rest))
        = some ((flatParams po ar va ko ka, c'), tColon :: (gen body ++ tRP :: rest)) := by
      cases hfl : flatParams po ar va ko ka with
      | nil =>
        refine ⟨false, ?_⟩
        simp [sepBy, itemsF_at _ _ _ _ _ _ (show atCloser tColon (tColon :: (gen body ++ tRP :: rest)) = true by rfl)]
      | cons x xs =>
        have := items_sep .params paramTk tColon (by decide) (fun _ => rfl) xs x
          (fun y hy => flat_item y (hgoals y (by rw [hfl]; exact hy))) [] false (m+1)
          (by rw [← hfl]; omega) (gen body ++ tRP :: rest)
        simpa using this
    obtain ⟨c', hit⟩ := hitems
    rw [hit]
    simp only [Option.bind_some, hasm, tColon, hb]

end Genshi.Py

/-
  C04: the tokenizer of the mini expression language reads back what the printer of token lists
  writes: `tokenize (toksSrc ts) = some ts` for every list of tokens the tokenizer can produce.
-/
import Genshi.Model.TmplPrint
namespace Genshi.Tmpl.Print
open Genshi.Tmpl.Raw

/-! ### character classes -/

/-- unfold the character classes down to arithmetic on code points -/
macro "char_arith" : tactic => `(tactic| (
  simp only [isIdChar, isIdStart, isWs, isDigit, Char.isDigit, Bool.or_eq_true, Bool.and_eq_true,
    decide_eq_true_eq, Bool.or_eq_false_iff, Bool.and_eq_false_iff, decide_eq_false_iff_not,
    Char.le_def, Char.ext_iff, UInt32.le_iff_toNat_le, ← UInt32.toNat_inj, ne_eq, ge_iff_le] at *
  simp at *
  omega))

theorem idStart_not_ws {c : Char} (h : isIdStart c = true) : isWs c = false := by char_arith

theorem digit_not_ws {c : Char} (h : isDigit c = true) : isWs c = false := by char_arith

theorem digit_not_idStart {c : Char} (h : isDigit c = true) : isIdStart c = false := by char_arith

theorem idStart_ne_eq {c : Char} (h : isIdStart c = true) : c ≠ '=' := by char_arith

theorem digit_ne_eq {c : Char} (h : isDigit c = true) : c ≠ '=' := by char_arith

theorem digit_of_core {c : Char} (h : c.isDigit = true) : isDigit c = true := by char_arith

theorem idStart_idChar {c : Char} (h : isIdStart c = true) : isIdChar c = true := by
  simp [isIdChar, h]

theorem digit_idChar {c : Char} (h : isDigit c = true) : isIdChar c = true := by
  simp [isIdChar, h]

theorem idChar_false {c : Char} (h : isIdChar c = false) : isDigit c = false := by
  simp [isIdChar] at h; exact h.2

/-! ### spans -/

theorem span_all {p : Char → Bool} : ∀ (l l₂ : Str), (∀ a ∈ l, p a = true) →
    (∀ c, l₂.head? = some c → p c = false) →
    (l ++ l₂).takeWhile p = l ∧ (l ++ l₂).dropWhile p = l₂
  | [], [], _, _ => by simp
  | [], c :: r, _, h => by simp [h c rfl]
  | a :: l, l₂, h1, h2 => by
    have ha := h1 a (List.mem_cons_self ..)
    have := span_all l l₂ (fun b hb => h1 b (List.mem_cons_of_mem _ hb)) h2
    simp [ha, this.1, this.2]

/-! ### numbers -/

theorem natOf_natStr (n : Nat) : natOf (natStr n) = n :=
  Nat.ofDigitChars_ten_toDigits (n := n)

theorem natStr_digits (n : Nat) : ∀ c ∈ natStr n, isDigit c = true := fun _ hc =>
  digit_of_core (Nat.isDigit_of_mem_toDigits (by decide) (by decide) hc)

theorem natStr_cons (n : Nat) : ∃ c s, natStr n = c :: s := by
  cases h : natStr n with
  | nil => exact absurd h (by simp [natStr])
  | cons c s => exact ⟨c, s, rfl⟩

/-! ### one step of the tokenizer per token -/

theorem tokGo_cons (f : Nat) (c : Char) (r : Str) (acc : List MTok) :
    tokGo (f + 1) (c :: r) acc =
      if isWs c then tokGo f r acc
      else if isIdStart c then
        tokGo f (r.dropWhile isIdChar) (.name (c :: r.takeWhile isIdChar) :: acc)
      else if isDigit c then
        tokGo f (r.dropWhile isDigit) (.int (natOf (c :: r.takeWhile isDigit)) :: acc)
      else if c = '\'' then
        match r.dropWhile (fun d => d != '\'') with
        | _ :: r' =>
            if (r.takeWhile (fun d => d != '\'')).contains '\\'
                || (r.takeWhile (fun d => d != '\'')).contains '\n' then none
            else tokGo f r' (.str (r.takeWhile (fun d => d != '\'')) :: acc)
        | [] => none
      else if c = '=' then
        match r with
        | '=' :: r' => tokGo f r' (.eqeq :: acc)
        | _ => tokGo f r (.sym '=' :: acc)
      else if ['(', ')', '[', ']', '{', '}', ',', ':', ';', '-'].contains c then
        tokGo f r (.sym c :: acc)
      else none := by
  rfl

/-- what must hold of the character behind the token `a` for `a` to be read alone -/
def glueC : MTok → Char → Prop
  | .name _, c => isIdChar c = false
  | .int _, c => isDigit c = false
  | .sym d, c => d = '=' → c ≠ '='
  | _, _ => True

def glue (a : MTok) (rest : Str) : Prop := ∀ c, rest.head? = some c → glueC a c

theorem step_blank (f : Nat) (rest : Str) (acc : List MTok) :
    tokGo (f + 1) (' ' :: rest) acc = tokGo f rest acc := by
  rw [tokGo_cons]
  simp only [show isWs ' ' = true by decide, if_true]

theorem step_name {c : Char} {s : Str} (hc : isIdStart c = true) (hs : ∀ d ∈ s, isIdChar d = true)
    (f : Nat) (rest : Str) (acc : List MTok) (hg : glue (.name (c :: s)) rest) :
    tokGo (f + 1) ((c :: s) ++ rest) acc = tokGo f rest (.name (c :: s) :: acc) := by
  have sp := span_all (p := isIdChar) s rest hs hg
  rw [List.cons_append, tokGo_cons]
  simp only [idStart_not_ws hc, hc, if_true, Bool.false_eq_true, if_false, sp.1, sp.2]

theorem step_int (n : Nat) (f : Nat) (rest : Str) (acc : List MTok) (hg : glue (.int n) rest) :
    tokGo (f + 1) (natStr n ++ rest) acc = tokGo f rest (.int n :: acc) := by
  obtain ⟨c, s, e⟩ := natStr_cons n
  have hd := natStr_digits n
  rw [e] at hd
  have hc : isDigit c = true := hd c (List.mem_cons_self ..)
  have sp := span_all (p := isDigit) s rest (fun d hd' => hd d (List.mem_cons_of_mem _ hd')) hg
  rw [e, List.cons_append, tokGo_cons]
  simp only [digit_not_ws hc, digit_not_idStart hc, hc, if_true, Bool.false_eq_true, if_false,
    sp.1, sp.2]
  rw [← e, natOf_natStr]

theorem step_str {s : Str} (hs : tokOk (.str s) = true) (f : Nat) (rest : Str) (acc : List MTok) :
    tokGo (f + 1) (('\'' :: (s ++ ['\''])) ++ rest) acc = tokGo f rest (.str s :: acc) := by
  simp only [tokOk, List.all_eq_true, Bool.and_eq_true, bne_iff_ne, ne_eq] at hs
  have sp := span_all (p := fun d => d != '\'') s ('\'' :: rest)
    (fun d hd => by simpa using (hs d hd).1.1) (by simp)
  have c1 : List.contains s '\\' = false := by
    cases h : List.contains s '\\' with
    | false => rfl
    | true => exact absurd rfl (hs _ (by simpa using h)).1.2
  have c2 : List.contains s '\n' = false := by
    cases h : List.contains s '\n' with
    | false => rfl
    | true => exact absurd rfl (hs _ (by simpa using h)).2
  have e : ('\'' :: (s ++ ['\''])) ++ rest = '\'' :: (s ++ '\'' :: rest) := by simp
  rw [e, tokGo_cons]
  simp only [show isWs '\'' = false by decide, show isIdStart '\'' = false by decide,
    show isDigit '\'' = false by decide, Bool.false_eq_true, if_false, if_true, sp.1, sp.2, c1, c2,
    Bool.or_self]

theorem step_sym {c : Char} (hws : isWs c = false) (hid : isIdStart c = false)
    (hd : isDigit c = false) (hq : c ≠ '\'') (he : c ≠ '=')
    (hm : ['(', ')', '[', ']', '{', '}', ',', ':', ';', '-'].contains c = true)
    (f : Nat) (rest : Str) (acc : List MTok) :
    tokGo (f + 1) (c :: rest) acc = tokGo f rest (.sym c :: acc) := by
  rw [tokGo_cons]
  simp only [hws, hid, hd, hq, he, hm, Bool.false_eq_true, if_false, if_true]

theorem step_assign (f : Nat) (rest : Str) (acc : List MTok) (hg : glue (.sym '=') rest) :
    tokGo (f + 1) ('=' :: rest) acc = tokGo f rest (.sym '=' :: acc) := by
  rw [tokGo_cons]
  simp only [show isWs '=' = false by decide, show isIdStart '=' = false by decide,
    show isDigit '=' = false by decide, show ('=' : Char) ≠ '\'' by decide,
    Bool.false_eq_true, if_false, if_true]
  split
  · exact absurd rfl (hg '=' rfl rfl)
  · rfl

theorem step_eqeq (f : Nat) (rest : Str) (acc : List MTok) :
    tokGo (f + 1) ('=' :: '=' :: rest) acc = tokGo f rest (.eqeq :: acc) := by
  rw [tokGo_cons]
  simp only [show isWs '=' = false by decide, show isIdStart '=' = false by decide,
    show isDigit '=' = false by decide, show ('=' : Char) ≠ '\'' by decide,
    Bool.false_eq_true, if_false, if_true]

theorem step_tok (a : MTok) (ok : tokOk a = true) (f : Nat) (rest : Str) (acc : List MTok)
    (hg : glue a rest) : tokGo (f + 1) (tokSrc a ++ rest) acc = tokGo f rest (a :: acc) := by
  cases a with
  | name s =>
      cases s with
      | nil => simp [tokOk] at ok
      | cons c s =>
          simp only [tokOk, Bool.and_eq_true, List.all_eq_true] at ok
          exact step_name ok.1 ok.2 f rest acc hg
  | int n => exact step_int n f rest acc hg
  | str s => exact step_str ok f rest acc
  | sym c =>
      simp only [tokOk, List.contains_eq_mem, List.mem_cons, List.not_mem_nil, or_false,
        decide_eq_true_eq] at ok
      rcases ok with rfl | rfl | rfl | rfl | rfl | rfl | rfl | rfl | rfl | rfl | rfl
      all_goals first
        | exact step_assign f rest acc hg
        | exact step_sym (by decide) (by decide) (by decide) (by decide) (by decide) (by decide)
            f rest acc
  | eqeq => exact step_eqeq f rest acc

/-! ### what follows a token -/

theorem tokSrc_cons (b : MTok) (ok : tokOk b = true) : ∃ c s, tokSrc b = c :: s := by
  cases b with
  | name s =>
      cases s with
      | nil => simp [tokOk] at ok
      | cons c s => exact ⟨c, s, rfl⟩
  | int n => exact natStr_cons n
  | str s => exact ⟨_, _, rfl⟩
  | sym c => exact ⟨_, _, rfl⟩
  | eqeq => exact ⟨_, _, rfl⟩

theorem toksSrc_head {b : MTok} {c : Char} {s : Str} (e : tokSrc b = c :: s) (r : List MTok) :
    (toksSrc (b :: r)).head? = some c := by
  cases r <;> simp [toksSrc, e]

theorem glue_blank (a : MTok) (rest : Str) : glue a (' ' :: rest) := by
  intro c hc
  simp only [List.head?_cons, Option.some.injEq] at hc
  subst hc
  cases a <;> simp only [glueC] <;> intros <;> decide

theorem glue_nil (a : MTok) : glue a [] := by
  intro c hc
  simp at hc

/-- the first character of a symbol token is neither a letter nor a digit -/
theorem sym_not_idChar {d : Char} (ok : tokOk (.sym d) = true) : isIdChar d = false := by
  simp only [tokOk, List.contains_eq_mem, List.mem_cons, List.not_mem_nil, or_false,
    decide_eq_true_eq] at ok
  rcases ok with rfl | rfl | rfl | rfl | rfl | rfl | rfl | rfl | rfl | rfl | rfl <;> decide

theorem glue_sep (a b : MTok) (okb : tokOk b = true) (hs : sep a b = false)
    {c : Char} {s : Str} (e : tokSrc b = c :: s) : glueC a c := by
  cases a with
  | name sa =>
      show isIdChar c = false
      cases b with
      | name sb => simp [sep, MTok.isWordy] at hs
      | int n => simp [sep, MTok.isWordy] at hs
      | str sb =>
          simp only [tokSrc, List.cons.injEq] at e
          rw [← e.1]; decide
      | sym d =>
          simp only [tokSrc, List.cons.injEq] at e
          rw [← e.1]; exact sym_not_idChar okb
      | eqeq => simp [sep] at hs
  | int na =>
      show isDigit c = false
      cases b with
      | name sb => simp [sep, MTok.isWordy] at hs
      | int n => simp [sep, MTok.isWordy] at hs
      | str sb =>
          simp only [tokSrc, List.cons.injEq] at e
          rw [← e.1]; decide
      | sym d =>
          simp only [tokSrc, List.cons.injEq] at e
          rw [← e.1]; exact idChar_false (sym_not_idChar okb)
      | eqeq => simp [sep] at hs
  | sym d =>
      show d = '=' → c ≠ '='
      intro hd
      subst hd
      cases b with
      | name sb =>
          cases sb with
          | nil => simp [tokOk] at okb
          | cons c' s' =>
              simp only [tokOk, Bool.and_eq_true] at okb
              simp only [tokSrc, List.cons.injEq] at e
              rw [← e.1]; exact idStart_ne_eq okb.1
      | int n =>
          have := natStr_digits n c (by simp only [tokSrc] at e; rw [e]; exact List.mem_cons_self ..)
          exact digit_ne_eq this
      | str sb =>
          simp only [tokSrc, List.cons.injEq] at e
          rw [← e.1]; decide
      | sym d' =>
          simp only [tokSrc, List.cons.injEq] at e
          rw [← e.1]
          intro h
          subst h
          simp [sep] at hs
      | eqeq => simp [sep] at hs
  | str sa => trivial
  | eqeq => trivial

theorem tokSrc_len_pos (a : MTok) (ok : tokOk a = true) : 1 ≤ (tokSrc a).length := by
  obtain ⟨c, s, e⟩ := tokSrc_cons a ok
  rw [e]; simp

/-! ### the round trip -/

theorem tokGo_print : ∀ (ts : List MTok), ts.all tokOk = true → ∀ (f : Nat) (acc : List MTok),
    (toksSrc ts).length + 1 ≤ f → tokGo f (toksSrc ts) acc = some (acc.reverse ++ ts)
  | [], _, f, acc, hf => by
      obtain ⟨f, rfl⟩ : ∃ g, f = g + 1 := ⟨f - 1, by omega⟩
      simp [toksSrc, tokGo]
  | [t], h, f, acc, hf => by
      have ok : tokOk t = true := by simpa using h
      have hl := tokSrc_len_pos t ok
      simp only [toksSrc] at hf ⊢
      obtain ⟨f, rfl⟩ : ∃ g, f = g + 2 := ⟨f - 2, by omega⟩
      have st := step_tok t ok (f + 1) [] acc (glue_nil t)
      rw [List.append_nil] at st
      rw [st]
      simp [tokGo]
  | a :: b :: r, h, f, acc, hf => by
      simp only [List.all_cons, Bool.and_eq_true] at h
      obtain ⟨oka, okb, okr⟩ := h
      have ih := tokGo_print (b :: r) (by simp [okb, okr])
      have hl := tokSrc_len_pos a oka
      simp only [toksSrc, List.length_append] at hf ⊢
      cases hs : sep a b with
      | true =>
          simp only [hs, if_true, List.length_cons, List.length_nil] at hf ⊢
          obtain ⟨f, rfl⟩ : ∃ g, f = g + 2 := ⟨f - 2, by omega⟩
          rw [List.singleton_append, step_tok a oka (f + 1) _ acc (glue_blank a _), step_blank,
            ih f (a :: acc) (by omega)]
          simp
      | false =>
          simp only [hs, Bool.false_eq_true, if_false, List.length_nil, List.nil_append] at hf ⊢
          obtain ⟨f, rfl⟩ : ∃ g, f = g + 1 := ⟨f - 1, by omega⟩
          obtain ⟨c, s, e⟩ := tokSrc_cons b okb
          have hg : glue a (toksSrc (b :: r)) := by
            intro c' hc'
            rw [toksSrc_head e r] at hc'
            cases hc'
            exact glue_sep a b okb hs e
          rw [step_tok a oka f _ acc hg, ih f (a :: acc) (by omega)]
          simp

theorem tokenize_print (ts : List MTok) (h : ts.all tokOk = true) :
    tokenize (toksSrc ts) = some ts := by
  unfold tokenize
  rw [tokGo_print ts h _ [] (Nat.le_refl _)]
  simp

end Genshi.Tmpl.Print

/-
  The lazily evaluated chain agrees with its stage-wise reading whenever, between two
  `buffer()` barriers, no buffer is written twice, or read by an injector and written
  (`stagewise`).
-/
import Genshi.Lemmas.TfLazyOps
namespace Genshi.Tf

/-! ### a link alone = the stage-wise model of its operation -/

/-- the link of `op` run alone over `s` gives what `applyOp` gives -/
def OpAgree (b : Bufs) (op : Op) (s : MStream) : Prop :=
  (∀ s1 b1, applyOp b op s = some (s1, b1) → ∃ acts, actsAll op (initCtl op) s = some acts ∧
      flat (ofBufs b) acts = s1 ∧ effs (proOf op ++ acts) (ofBufs b) = ofBufs b1) ∧
  (applyOp b op s = none → actsAll op (initCtl op) s = none)

theorem effs_outs (l : MStream) (b : BufF) : effs (outs l) b = b := by
  have := effs_outs_append l [] b
  simpa [effs] using this

/-- operations that only yield -/
theorem agree_of_outs {b : Bufs} {op : Op} {s l : MStream} (hp : proOf op = [])
    (ha : applyOp b op s = some (l, b)) (h : actsAll op (initCtl op) s = some (outs l)) : OpAgree b op s := by
  refine ⟨fun s1 b1 h1 => ?_, fun hn => by simp [ha] at hn⟩
  simp only [ha, Option.some.injEq, Prod.mk.injEq] at h1
  obtain ⟨rfl, rfl⟩ := h1
  exact ⟨outs l, h, flat_outs _ _, by simp [hp, effs_outs]⟩

/-- operations that yield and inject, but write no buffer -/
theorem agree_of_flat {b : Bufs} {op : Op} {s l : MStream} (hp : proOf op = []) (hw : wrOp op = [])
    (ha : applyOp b op s = some (l, b))
    (h : ∃ acts, actsAll op (initCtl op) s = some acts ∧ flat (ofBufs b) acts = l) : OpAgree b op s := by
  refine ⟨fun s1 b1 h1 => ?_, fun hn => by simp [ha] at hn⟩
  simp only [ha, Option.some.injEq, Prod.mk.injEq] at h1
  obtain ⟨rfl, rfl⟩ := h1
  obtain ⟨acts, h2, h3⟩ := h
  refine ⟨acts, h2, h3, ?_⟩
  have := actsAll_fp op s _ acts h2
  rw [hw] at this
  simp [hp, effs_noWr this]

theorem op_agree (b : Bufs) (op : Op) (s : MStream) : OpAgree b op s := by
  cases op with
  | select rs =>
    have h := select_acts rs s 0 rs true
    by_cases hf : selectFin 0 rs s = 0
    · exact agree_of_outs (l := selectGo 0 rs s) rfl (by simp [applyOp, select, hf]) (by simpa [initCtl, hf] using h)
    · refine ⟨fun s1 b1 h1 => by simp [applyOp, select, hf] at h1, fun _ => by simpa [initCtl, hf] using h⟩
  | selectFail =>
    refine ⟨fun s1 b1 h1 => by simp [applyOp] at h1, fun _ => ?_⟩
    cases s <;> simp [actsAll, finOp, stepOp]
  | invert =>
    exact agree_of_outs rfl rfl (map_acts .invert _ (fun p => by simp [stepOp, mapStep]) rfl s)
  | endSel =>
    exact agree_of_outs rfl rfl (map_acts .endSel _ (fun p => by simp [stepOp, mapStep]) rfl s)
  | rename n =>
    exact agree_of_outs rfl rfl (map_acts (.rename n) _ (fun p => by simp [stepOp, mapStep]) rfl s)
  | attr n v =>
    exact agree_of_outs rfl rfl (map_acts (.attr n v) _ (fun p => by simp [stepOp, mapStep]) rfl s)
  | attrFn n f =>
    exact agree_of_outs rfl rfl (map_acts (.attrFn n f) _ (fun p => by simp [stepOp, mapStep]) rfl s)
  | mapBang all =>
    exact agree_of_outs rfl rfl (map_acts (.mapBang all) _ (fun p => by simp [stepOp, mapStep]) rfl s)
  | subst pt r n =>
    exact agree_of_outs rfl rfl (map_acts (.subst pt r n) _ (fun p => by simp [stepOp, mapStep]) rfl s)
  | buffer =>
    refine agree_of_outs rfl rfl ?_
    have := map_acts .buffer id (fun p => by simp [stepOp, mapStep]) rfl s
    simpa [initCtl] using this
  | trace =>
    refine agree_of_outs rfl rfl ?_
    have := map_acts .trace id (fun p => by simp [stepOp, mapStep]) rfl s
    simpa [initCtl, trace] using this
  | mapText f =>
    exact agree_of_outs rfl rfl (map_acts (.mapText f) _ (fun p => by simp [stepOp, mapStep]) rfl s)
  | empty => exact agree_of_outs rfl rfl (empty_acts s false)
  | remove => exact agree_of_outs rfl rfl (remove_acts s [])
  | unwrap => exact agree_of_outs rfl rfl (unwrap_acts s)
  | filter f => exact agree_of_outs rfl rfl (filter_acts f s .idle [])
  | wrap t a kids =>
    refine agree_of_flat rfl rfl rfl ?_
    obtain ⟨acts, h1, h2⟩ := run_acts (.wrap t a kids) (wrapPre t a kids) [.out (none, .ev (.end_ t))] true
      (fun c p => rfl) (fun c => rfl) (ofBufs b) s .idle
    exact ⟨acts, h1, by rw [h2]; simp [wrap, wrapPre, flat_outs, flat]⟩
  | replace c =>
    refine agree_of_flat rfl rfl rfl ?_
    obtain ⟨acts, h1, h2⟩ := run_acts (.replace c) [.inj c] [] false (fun c p => rfl) (fun c => rfl) (ofBufs b) s .idle
    exact ⟨acts, h1, by rw [h2]; simp [replace, flat, contentF_ofBufs]⟩
  | before c =>
    refine agree_of_flat rfl rfl rfl ?_
    obtain ⟨acts, h1, h2⟩ := run_acts (.before c) [.inj c] [] true (fun c p => rfl) (fun c => rfl) (ofBufs b) s .idle
    exact ⟨acts, h1, by rw [h2]; simp [before, flat, contentF_ofBufs]⟩
  | after c =>
    refine agree_of_flat rfl rfl rfl ?_
    obtain ⟨acts, h1, h2⟩ := run_acts (.after c) [] [.inj c] true (fun c p => rfl) (fun c => rfl) (ofBufs b) s .idle
    exact ⟨acts, h1, by rw [h2]; simp [after, flat, contentF_ofBufs]⟩
  | prepend c =>
    refine agree_of_flat rfl rfl rfl ?_
    obtain ⟨acts, h1, h2⟩ := prepend_acts c (ofBufs b) s
    exact ⟨acts, h1, by rw [h2, contentF_ofBufs]⟩
  | append c =>
    refine agree_of_flat rfl rfl rfl ?_
    obtain ⟨acts, h1, h2⟩ := append_acts c (ofBufs b) s none
    exact ⟨acts, h1, by rw [h2, contentF_ofBufs]; rfl⟩
  | copy id acc =>
    obtain ⟨acts, h1, h2, h3⟩ := copy_acts id acc s .idle [] (ofBufs b)
    refine ⟨fun s1 b1 ha => ?_, fun hn => by simp [applyOp] at hn⟩
    simp only [applyOp, Option.some.injEq, Prod.mk.injEq] at ha
    obtain ⟨rfl, rfl⟩ := ha
    exact ⟨acts, h1, h2, by simp [proOf, h3, ofBufs_set, ofBufs, copy]⟩
  | cut id acc =>
    have hc := cut_acts id acc s .idle false []
    refine ⟨fun s1 b1 ha => ?_, fun hn => ?_⟩
    · simp only [applyOp, cut, Option.map_eq_some_iff] at ha
      obtain ⟨out, ho, he⟩ := ha
      simp only [Prod.mk.injEq] at he
      obtain ⟨rfl, rfl⟩ := he
      cases acc with
      | true =>
        obtain ⟨acts, h1, h2, h3⟩ := hc.1 (ofBufs b) out ho
        exact ⟨acts, h1, h2, by simp [proOf, h3, ofBufs_set, ofBufs]⟩
      | false =>
        obtain ⟨acts, h1, h2, h3⟩ := hc.1 ((ofBufs b).set id []) out ho
        refine ⟨acts, h1, ?_, by simp [proOf, effs, h3, ofBufs_set, BufF.set_set, BufF.set_get]⟩
        rw [← h2]
        exact (flat_congr (w := [id]) (r := []) (actsAll_fp _ _ _ _ h1 |>.mono (by simp [wrOp]) (by simp [rdOp, readsOf]))
          (by simp)).symm
    · simp only [applyOp, cut, Option.map_eq_none_iff] at hn
      exact hc.2 hn

/-! ### peeling the first link off a segment -/

def Out.toOption {α : Type} : Out α → Option α
  | .ok a => some a
  | _ => none

theorem seqF_ok_nil (cs : List Ctl) (b : BufF) (k : List Ctl → BufF → Out (BufF × MStream)) :
    seqF (.ok (cs, b, [])) k = k cs b := by
  simp only [seqF]
  cases k cs b with
  | ok r => obtain ⟨b', o⟩ := r; simp
  | err => rfl
  | div => rfl

def prepF (o : MStream) : Out (BufF × MStream) → Out (BufF × MStream)
  | .ok (b', o2) => .ok (b', o ++ o2)
  | .err => .err
  | .div => .div

theorem seqF_ok (cs : List Ctl) (b : BufF) (o : MStream) (k : List Ctl → BufF → Out (BufF × MStream)) :
    seqF (.ok (cs, b, o)) k = prepF o (k cs b) := by
  simp only [seqF, prepF]
  cases k cs b with
  | ok r => obtain ⟨b', o2⟩ := r; rfl
  | err => rfl
  | div => rfl

theorem prepF_toOption_none (o : MStream) (r : Out (BufF × MStream)) (h : r.toOption = none) :
    (prepF o r).toOption = none := by
  cases r with
  | ok y => simp [Out.toOption] at h
  | err => rfl
  | div => rfl

/-- the run of a segment whose first link yields the actions `acts` -/
theorem runFrom_cons (F : Nat) (op : Op) (ops : List Op) : ∀ (s : MStream) (c : Ctl) (cs : List Ctl) (b : BufF)
    (acts : List Act), actsAll op c s = some acts →
    runFrom F (op :: ops) (c :: cs) b s = seqF (execActs F (pushItem F ops) acts cs b) (finish F ops)
  | [], c, cs, b, acts, h => by
    simp only [actsAll] at h
    simp only [runFrom, pushList]
    rw [seqF_ok_nil, finish_cons, h]
  | x :: s, c, cs, b, acts, h => by
    simp only [actsAll] at h
    cases hs : stepOp op c x with
    | none => simp [hs] at h
    | some r =>
      obtain ⟨c', a1⟩ := r
      simp only [hs, Option.map_eq_some_iff] at h
      obtain ⟨a2, h2, rfl⟩ := h
      have ih := fun cs b => runFrom_cons F op ops s c' cs b a2 h2
      simp only [runFrom, pushList]
      rw [seqF_seqR, execActs_append, seqF_seqR]
      simp only [pushItem, hs]
      cases execActs F (pushItem F ops) a1 cs b with
      | err => rfl
      | div => rfl
      | ok y =>
        obtain ⟨cs1, b1, o1⟩ := y
        have := ih cs1 b1
        simp only [runFrom] at this
        simp only []
        rw [seqF_ok, seqF_ok, this]

theorem seqF_toOption_none (r : R) (k : List Ctl → BufF → Out (BufF × MStream))
    (h : ∀ cs b, (k cs b).toOption = none) : (seqF r k).toOption = none := by
  cases r with
  | err => rfl
  | div => rfl
  | ok x =>
    obtain ⟨cs, b, o⟩ := x
    have := h cs b
    simp only [seqF]
    cases hk : k cs b with
    | err => rfl
    | div => rfl
    | ok y => simp [hk, Out.toOption] at this

/-- … and when the first link raises -/
theorem runFrom_cons_none (F : Nat) (op : Op) (ops : List Op) : ∀ (s : MStream) (c : Ctl) (cs : List Ctl) (b : BufF),
    actsAll op c s = none → (runFrom F (op :: ops) (c :: cs) b s).toOption = none
  | [], c, cs, b, h => by
    simp only [actsAll] at h
    simp only [runFrom, pushList]
    rw [seqF_ok_nil, finish_cons, h]
    rfl
  | x :: s, c, cs, b, h => by
    simp only [actsAll] at h
    simp only [runFrom, pushList]
    rw [seqF_seqR]
    cases hs : stepOp op c x with
    | none => simp [pushItem, hs, seqF, Out.toOption]
    | some r =>
      obtain ⟨c', a1⟩ := r
      simp only [hs, Option.map_eq_none_iff] at h
      simp only [pushItem, hs]
      cases execActs F (pushItem F ops) a1 cs b with
      | err => rfl
      | div => rfl
      | ok y =>
        obtain ⟨cs1, b1, o1⟩ := y
        have := runFrom_cons_none F op ops s c' cs1 b1 h
        simp only [runFrom] at this
        simp only []
        rw [seqF_ok]
        exact prepF_toOption_none _ _ this

theorem wr_rd_disjoint (op : Op) : ∀ i ∈ wrOp op, i ∉ rdOp op := by
  cases op <;> simp [wrOp, rdOp, readsOf]

theorem effs_frame {p : Nat → Bool} (e : BufF) : ∀ (acts : List Act) (b : BufF),
    (∀ a ∈ acts, ∀ i ∈ a.wr, p i = false) → effs acts (mergeP p e b) = mergeP p e (effs acts b)
  | [], b, _ => rfl
  | a :: as, b, h => by
    have ih := fun b => effs_frame e as b (fun x hx => h x (List.mem_cons_of_mem _ hx))
    have ha := h a (List.mem_cons_self ..)
    cases a with
    | out x => exact ih b
    | inj c => exact ih b
    | reset id =>
      have hid : p id = false := ha id (by simp [Act.wr])
      simp only [effs, mergeP_set_out p e b id [] hid]; exact ih _
    | app id x =>
      have hid : p id = false := ha id (by simp [Act.wr])
      simp only [effs, mergeP_out p e b id hid, mergeP_set_out p e b id _ hid]; exact ih _

theorem proBufs_out : ∀ (ops : List Op) (b : BufF) (i : Nat), i ∉ wrOps ops → proBufs ops b i = b i
  | [], b, i, _ => rfl
  | op :: ops, b, i, h => by
    simp only [wrOps, List.flatMap_cons, List.mem_append, not_or] at h
    simp only [proBufs]
    rw [effs_out (proOf_fp op) i h.1]
    exact proBufs_out ops b i h.2

theorem proBufs_frame {p : Nat → Bool} (e : BufF) : ∀ (ops : List Op) (b : BufF),
    (∀ i, p i = true → i ∉ wrOps ops) → proBufs ops (mergeP p e b) = mergeP p e (proBufs ops b)
  | [], b, _ => rfl
  | op :: ops, b, h => by
    have h1 : ∀ i, p i = true → i ∉ wrOps ops := fun i hi hc => h i hi (by
      simp only [wrOps, List.flatMap_cons, List.mem_append]; exact Or.inr hc)
    simp only [proBufs]
    rw [proBufs_frame e ops b h1]
    apply effs_frame
    intro a ha i hi
    cases hp : p i with
    | false => rfl
    | true =>
      exfalso
      apply h i hp
      simp only [wrOps, List.flatMap_cons, List.mem_append]
      exact Or.inl ((proOf_fp op a ha).1 i hi)

theorem runSeg_peel (F : Nat) (op : Op) (ops : List Op) (b : BufF) (s : MStream) (acts : List Act)
    (hW : ∀ i ∈ wrOp op, i ∉ wrOps ops ∧ i ∉ rdOps ops) (hR : ∀ i ∈ rdOp op, i ∉ wrOps ops)
    (ha : actsAll op (initCtl op) s = some acts) :
    runSeg F (op :: ops) b s = runSeg F ops (effs (proOf op ++ acts) b) (flat b acts) := by
  have hin := actsAll_fp op s _ acts ha
  have hpro := proOf_fp op
  have hOut : Outside (inW (wrOp op)) ops := fun i hi => hW i (by simpa [inW] using hi)
  have hOutW : ∀ i, inW (wrOp op) i = true → i ∉ wrOps ops := fun i hi => (hOut i hi).1
  have hnW : ∀ i, i ∉ wrOp op → inW (wrOp op) i = false := fun i hi => by simp [inW, hi]
  -- buffers when the first link starts
  have hrd : ∀ i ∈ rdOp op, effs (proOf op) (proBufs ops b) i = b i := fun i hi => by
    rw [effs_out hpro i (fun hc => wr_rd_disjoint op i hc hi), proBufs_out ops b i (hR i hi)]
  have hfl : flat (effs (proOf op) (proBufs ops b)) acts = flat b acts := flat_congr hin hrd
  have hbb : effs (proOf op) (proBufs ops b) =
      mergeP (inW (wrOp op)) (effs (proOf op) (proBufs ops b)) (proBufs ops b) := by
    funext i
    simp only [mergeP]
    split
    · rfl
    · rename_i hi
      exact effs_out hpro i (fun hc => hi (by simp [inW, hc]))
  have hb1 : effs (proOf op ++ acts) b = mergeP (inW (wrOp op)) (effs (proOf op ++ acts) b) b := by
    funext i
    simp only [mergeP]
    split
    · rfl
    · rename_i hi
      exact effs_out (hpro.append hin) i (fun hc => hi (by simp [inW, hc]))
  have hE : ∀ i, inW (wrOp op) i = true →
      effs acts (effs (proOf op) (proBufs ops b)) i = effs (proOf op ++ acts) b i := fun i hi => by
    have hiW : i ∈ wrOp op := by simpa [inW] using hi
    rw [effs_append]
    exact effs_congr hin (fun j hj => effs_congr hpro (fun k hk => proBufs_out ops b k (hW k hk).1) j hj) i hiW
  rw [runSeg_eq, runSeg_eq]
  have hL : runFrom F (op :: ops) ((op :: ops).map initCtl) (proBufs (op :: ops) b) s =
      mapBF (mergeP (inW (wrOp op)) (effs (proOf op ++ acts) b))
        (runFrom F ops (ops.map initCtl) (proBufs ops b) (flat b acts)) := by
    simp only [List.map_cons, proBufs]
    rw [runFrom_cons F op ops s _ _ _ acts ha,
      execActs_commute F ops (wrOp op) (rdOp op) hW hR (wr_rd_disjoint op) acts _ _ hin, hfl,
      seqF_mapB _ _ _ (fun cs b => finish_frame F ops _ hOut _ cs b)]
    show mapBF _ (runFrom F ops (ops.map initCtl) (effs (proOf op) (proBufs ops b)) (flat b acts)) = _
    rw [hbb, runFrom_frame F ops _ hOut, mapBF_mapBF, ← hbb]
    apply mapBF_congr
    intro bb
    rw [mergeP_mergeP]
    exact mergeP_congr _ _ _ _ hE
  have hRr : runFrom F ops (ops.map initCtl) (proBufs ops (effs (proOf op ++ acts) b)) (flat b acts) =
      mapBF (mergeP (inW (wrOp op)) (effs (proOf op ++ acts) b))
        (runFrom F ops (ops.map initCtl) (proBufs ops b) (flat b acts)) := by
    rw [hb1, proBufs_frame _ ops b hOutW, runFrom_frame F ops _ hOut, ← hb1]
  rw [hL, hRr]

/-! ### a segment -/

/-- no buffer is written twice, or read and written, by the links of the segment -/
def NoConf : List Op → Prop
  | [] => True
  | op :: ops => (∀ i ∈ wrOp op, i ∉ wrOps ops ∧ i ∉ rdOps ops) ∧ (∀ i ∈ rdOp op, i ∉ wrOps ops) ∧ NoConf ops

theorem pushList_nil_ops (F : Nat) : ∀ (s : MStream) (b : BufF),
    pushList (pushItem F []) s [] b = .ok ([], b, s)
  | [], b => rfl
  | x :: s, b => by
    show seqR (pushItem F [] [] b x) (pushList (pushItem F []) s) = _
    have h1 : pushItem F [] [] b x = .ok ([], b, [x]) := rfl
    rw [h1]
    simp only [seqR, pushList_nil_ops F s b]
    rfl

def liftRes (r : Option (MStream × Bufs)) : Option (MStream × BufF) := r.map fun r => (r.1, ofBufs r.2)

theorem runSeg_agree (F : Nat) : ∀ (ops : List Op) (b : Bufs) (s : MStream), NoConf ops →
    (runSeg F ops (ofBufs b) s).toOption = liftRes (runChain ops b s)
  | [], b, s, _ => by
    simp [runSeg, pushList_nil_ops, finish, proBufs, runChain, liftRes, Out.toOption]
  | op :: ops, b, s, h => by
    obtain ⟨hW, hR, hN⟩ := h
    have hag := op_agree b op s
    cases ha : applyOp b op s with
    | none =>
      have := runFrom_cons_none F op ops s (initCtl op) (ops.map initCtl) (proBufs (op :: ops) (ofBufs b)) (hag.2 ha)
      rw [runSeg_eq]
      simp only [List.map_cons]
      cases hr : runFrom F (op :: ops) (initCtl op :: ops.map initCtl) (proBufs (op :: ops) (ofBufs b)) s with
      | ok y => simp [hr, Out.toOption] at this
      | err => simp [runChain, ha, liftRes, Out.toOption]
      | div => simp [runChain, ha, liftRes, Out.toOption]
    | some r =>
      obtain ⟨s1, b1⟩ := r
      obtain ⟨acts, h1, h2, h3⟩ := hag.1 s1 b1 ha
      rw [runSeg_peel F op ops (ofBufs b) s acts hW hR h1, h2, h3, runSeg_agree F ops b1 s1 hN]
      simp [runChain, ha]

/-! ### a chain -/

def runChainSegs : List (List Op) → Bufs → MStream → Option (MStream × Bufs)
  | [], b, s => some (s, b)
  | seg :: ss, b, s =>
      match runChain seg b s with
      | none => none
      | some (s', b') => runChainSegs ss b' s'

theorem segs_ne_nil : ∀ ops : List Op, segs ops ≠ []
  | [] => by simp [segs]
  | op :: ops => by
    have := segs_ne_nil ops
    cases h : segs ops with
    | nil => exact absurd h this
    | cons s0 ss => cases op <;> simp [segs, h]

theorem segs_cons (op : Op) (ops : List Op) (s0 : List Op) (ss : List (List Op)) (h : segs ops = s0 :: ss) :
    segs (op :: ops) = (match op with | .buffer => [] :: s0 :: ss | _ => (op :: s0) :: ss) := by
  cases op <;> simp [segs, h]

theorem runChainSegs_cons (op : Op) (ops s0 : List Op) (ss : List (List Op)) (b : Bufs) (s : MStream)
    (hseg : segs (op :: ops) = (op :: s0) :: ss)
    (hb : ∀ b s, runChainSegs (s0 :: ss) b s = runChain ops b s) :
    runChainSegs (segs (op :: ops)) b s = runChain (op :: ops) b s := by
  rw [hseg]
  simp only [runChainSegs, runChain]
  cases applyOp b op s with
  | none => rfl
  | some r =>
    obtain ⟨s1, b1⟩ := r
    have := hb b1 s1
    simp only [runChainSegs] at this
    exact this

theorem runChainSegs_segs : ∀ (ops : List Op) (b : Bufs) (s : MStream),
    runChainSegs (segs ops) b s = runChain ops b s
  | [], b, s => by simp [segs, runChainSegs, runChain]
  | op :: ops, b, s => by
    have ih := runChainSegs_segs ops
    cases h : segs ops with
    | nil => exact absurd h (segs_ne_nil ops)
    | cons s0 ss =>
      have hb : ∀ b s, runChainSegs (s0 :: ss) b s = runChain ops b s := fun b s => by rw [← h]; exact ih b s
      cases op
      case buffer =>
        simp only [segs, h, runChainSegs, runChain, applyOp]
        exact hb b s
      all_goals exact runChainSegs_cons _ ops s0 ss b s (by simp [segs, h]) hb

theorem runSegs_agree (F : Nat) : ∀ (ss : List (List Op)) (b : Bufs) (s : MStream), (∀ seg ∈ ss, NoConf seg) →
    (runSegs F ss (ofBufs b) s).toOption = liftRes (runChainSegs ss b s)
  | [], b, s, _ => rfl
  | seg :: ss, b, s, h => by
    have h1 := runSeg_agree F seg b s (h seg (List.mem_cons_self ..))
    simp only [runSegs, runChainSegs]
    cases hc : runChain seg b s with
    | none =>
      simp only [hc, liftRes, Option.map_none] at h1
      cases hr : runSeg F seg (ofBufs b) s with
      | ok y => simp [hr, Out.toOption] at h1
      | err => rfl
      | div => rfl
    | some r =>
      obtain ⟨s1, b1⟩ := r
      simp only [hc, liftRes, Option.map_some] at h1
      cases hr : runSeg F seg (ofBufs b) s with
      | ok y =>
        simp only [hr, Out.toOption, Option.some.injEq] at h1
        subst h1
        exact runSegs_agree F ss b1 s1 (fun sg hsg => h sg (List.mem_cons_of_mem _ hsg))
      | err => simp [hr, Out.toOption] at h1
      | div => simp [hr, Out.toOption] at h1

/-- what `stagewise` says about the segments of a chain -/
theorem stagewise_segs : ∀ (ops : List Op) (w r : List Nat), stagewise w r ops = true →
    ∃ sg ss, segs ops = sg :: ss ∧ NoConf sg ∧ (∀ i ∈ wrOps sg, i ∉ w ∧ i ∉ r) ∧ (∀ i ∈ rdOps sg, i ∉ w) ∧
      (∀ seg ∈ ss, NoConf seg)
  | [], w, r, _ => ⟨[], [], rfl, trivial, by simp [wrOps], by simp [rdOps], by simp⟩
  | op :: ops, w, r, h => by
    -- writers
    have writer : ∀ id, wrOp op = [id] → rdOp op = [] → (∀ s0 ss, segs ops = s0 :: ss → segs (op :: ops) = (op :: s0) :: ss) →
        stagewise w r (op :: ops) = (!w.contains id && !r.contains id && stagewise (id :: w) r ops) →
        ∃ sg ss, segs (op :: ops) = sg :: ss ∧ NoConf sg ∧ (∀ i ∈ wrOps sg, i ∉ w ∧ i ∉ r) ∧
          (∀ i ∈ rdOps sg, i ∉ w) ∧ (∀ seg ∈ ss, NoConf seg) := by
      intro id hwr hrd hsg hst
      rw [hst] at h
      simp only [Bool.and_eq_true, Bool.not_eq_true', List.contains_eq_mem, decide_eq_false_iff_not] at h
      obtain ⟨⟨hw, hr⟩, hrest⟩ := h
      obtain ⟨s0, ss, h0, hn, hw0, hr0, hss⟩ := stagewise_segs ops (id :: w) r hrest
      refine ⟨op :: s0, ss, hsg s0 ss h0, ⟨?_, ?_, hn⟩, ?_, ?_, hss⟩
      · intro i hi
        rw [hwr] at hi
        simp only [List.mem_singleton] at hi
        subst hi
        exact ⟨fun hc => (hw0 i hc).1 (by simp), fun hc => hr0 i hc (by simp)⟩
      · intro i hi; rw [hrd] at hi; simp at hi
      · intro i hi
        simp only [wrOps, List.flatMap_cons, hwr, List.mem_append, List.mem_singleton] at hi
        rcases hi with rfl | hi
        · exact ⟨hw, hr⟩
        · exact ⟨fun hc => (hw0 i hi).1 (List.mem_cons_of_mem _ hc), (hw0 i hi).2⟩
      · intro i hi
        simp only [rdOps, List.flatMap_cons, hrd, List.nil_append] at hi
        exact fun hc => hr0 i hi (List.mem_cons_of_mem _ hc)
    -- readers and the rest
    have other : wrOp op = [] → (∀ s0 ss, segs ops = s0 :: ss → segs (op :: ops) = (op :: s0) :: ss) →
        stagewise w r (op :: ops) = (match readsOf op with
          | some id => !w.contains id && stagewise w (id :: r) ops
          | none => stagewise w r ops) →
        ∃ sg ss, segs (op :: ops) = sg :: ss ∧ NoConf sg ∧ (∀ i ∈ wrOps sg, i ∉ w ∧ i ∉ r) ∧
          (∀ i ∈ rdOps sg, i ∉ w) ∧ (∀ seg ∈ ss, NoConf seg) := by
      intro hwr hsg hst
      rw [hst] at h
      cases hro : readsOf op with
      | none =>
        simp only [hro] at h
        obtain ⟨s0, ss, h0, hn, hw0, hr0, hss⟩ := stagewise_segs ops w r h
        have hrd : rdOp op = [] := by simp [rdOp, hro]
        refine ⟨op :: s0, ss, hsg s0 ss h0, ⟨by rw [hwr]; simp, by rw [hrd]; simp, hn⟩, ?_, ?_, hss⟩
        · intro i hi
          simp only [wrOps, List.flatMap_cons, hwr, List.nil_append] at hi
          exact hw0 i hi
        · intro i hi
          simp only [rdOps, List.flatMap_cons, hrd, List.nil_append] at hi
          exact hr0 i hi
      | some id =>
        simp only [hro, Bool.and_eq_true, Bool.not_eq_true', List.contains_eq_mem, decide_eq_false_iff_not] at h
        obtain ⟨hw, hrest⟩ := h
        obtain ⟨s0, ss, h0, hn, hw0, hr0, hss⟩ := stagewise_segs ops w (id :: r) hrest
        have hrd : rdOp op = [id] := by simp [rdOp, hro]
        refine ⟨op :: s0, ss, hsg s0 ss h0, ⟨by rw [hwr]; simp, ?_, hn⟩, ?_, ?_, hss⟩
        · intro i hi
          rw [hrd] at hi
          simp only [List.mem_singleton] at hi
          subst hi
          exact fun hc => (hw0 i hc).2 (by simp)
        · intro i hi
          simp only [wrOps, List.flatMap_cons, hwr, List.nil_append] at hi
          exact ⟨(hw0 i hi).1, fun hc => (hw0 i hi).2 (List.mem_cons_of_mem _ hc)⟩
        · intro i hi
          simp only [rdOps, List.flatMap_cons, hrd, List.mem_append, List.mem_singleton] at hi
          rcases hi with rfl | hi
          · exact hw
          · exact hr0 i hi
    have hsegs : ∀ (hne : ∀ (_ : Unit), op ≠ .buffer) s0 ss, segs ops = s0 :: ss → segs (op :: ops) = (op :: s0) :: ss := by
      intro hne s0 ss h0
      rw [segs_cons op ops s0 ss h0]
      cases op <;> first | rfl | exact absurd rfl (hne ())
    cases op with
    | buffer =>
      simp only [stagewise] at h
      obtain ⟨s0, ss, h0, hn, _, _, hss⟩ := stagewise_segs ops [] [] h
      refine ⟨[], s0 :: ss, by simp [segs, h0], trivial, by simp [wrOps], by simp [rdOps], ?_⟩
      intro seg hseg
      rcases List.mem_cons.mp hseg with rfl | hseg
      · exact hn
      · exact hss seg hseg
    | copy id acc => exact writer id rfl rfl (hsegs (fun _ => by simp)) rfl
    | cut id acc => exact writer id rfl rfl (hsegs (fun _ => by simp)) rfl
    | select rs => exact other rfl (hsegs (fun _ => by simp)) rfl
    | selectFail => exact other rfl (hsegs (fun _ => by simp)) rfl
    | invert => exact other rfl (hsegs (fun _ => by simp)) rfl
    | endSel => exact other rfl (hsegs (fun _ => by simp)) rfl
    | empty => exact other rfl (hsegs (fun _ => by simp)) rfl
    | remove => exact other rfl (hsegs (fun _ => by simp)) rfl
    | unwrap => exact other rfl (hsegs (fun _ => by simp)) rfl
    | wrap t a k => exact other rfl (hsegs (fun _ => by simp)) rfl
    | replace c => exact other rfl (hsegs (fun _ => by simp)) rfl
    | before c => exact other rfl (hsegs (fun _ => by simp)) rfl
    | after c => exact other rfl (hsegs (fun _ => by simp)) rfl
    | prepend c => exact other rfl (hsegs (fun _ => by simp)) rfl
    | append c => exact other rfl (hsegs (fun _ => by simp)) rfl
    | attr n v => exact other rfl (hsegs (fun _ => by simp)) rfl
    | rename n => exact other rfl (hsegs (fun _ => by simp)) rfl
    | attrFn n f => exact other rfl (hsegs (fun _ => by simp)) rfl
    | mapBang all => exact other rfl (hsegs (fun _ => by simp)) rfl
    | subst p r' n => exact other rfl (hsegs (fun _ => by simp)) rfl
    | filter f => exact other rfl (hsegs (fun _ => by simp)) rfl
    | mapText f => exact other rfl (hsegs (fun _ => by simp)) rfl
    | trace => exact other rfl (hsegs (fun _ => by simp)) rfl

/-- The lazily evaluated chain gives exactly what its stage-wise reading gives — the same marked
    stream, the same buffers, failure exactly when it fails — for every chain in which, between two
    `buffer()` barriers, no buffer is written twice or read by an injector and written. -/
theorem lazy_agrees (F : Nat) (ops : List Op) (b : Bufs) (s : MStream) (h : stagewise [] [] ops = true) :
    (runLazy F ops (ofBufs b) s).toOption = liftRes (runChain ops b s) := by
  obtain ⟨sg, ss, h0, hn, _, _, hss⟩ := stagewise_segs ops [] [] h
  rw [runLazy, ← runChainSegs_segs ops b s, h0]
  apply runSegs_agree
  intro seg hseg
  rcases List.mem_cons.mp hseg with rfl | hseg
  · exact hn
  · exact hss seg hseg

end Genshi.Tf

/-
  C01 — whitespace stripping commutes with escaping: the two regular expressions of
  `WhitespaceFilter` act on blanks and newlines only, which escaping leaves alone and never
  produces.
-/
import Genshi.Lemmas.SubstMixed
import Genshi.Model.SubstEmit
namespace Genshi.Subst
open Genshi.Escape Genshi.Str

/-- `trimTrailing` on source characters that carry their `quotes` flag along -/
def trimQ (ps : List QChar) : List QChar :=
  ps.foldr (fun p acc => if isBlank p.2 && (acc.head?.map (·.2)) = some '\n' then acc else p :: acc) []

def collapseQ (ps : List QChar) : List QChar :=
  ps.foldr (fun p acc => if p.2 = '\n' && (acc.head?.map (·.2)) = some '\n' then acc else p :: acc) []

def normWsQ (ps : List QChar) : List QChar := collapseQ (trimQ ps)

theorem escC_head (q : Bool) (c : Char) :
    (escC q c).head? = some '\n' ↔ c = '\n' := by
  unfold escC
  by_cases h1 : c = '&'
  · subst h1; simp [amp]
  by_cases h2 : c = '<'
  · subst h2; simp [lt]
  by_cases h3 : c = '>'
  · subst h3; simp [gt]
  by_cases h4 : c = '"'
  · subst h4; cases q <;> simp [qt]
  · simp [h1, h2, h3, h4]

theorem escC_ne_nil (q : Bool) (c : Char) : escC q c ≠ [] := by
  unfold escC
  by_cases h1 : c = '&' <;> by_cases h2 : c = '<' <;> by_cases h3 : c = '>' <;>
    by_cases h4 : c = '"' <;> cases q <;> simp_all [amp, lt, gt, qt]

theorem escapeMixed_head (ps : List QChar) :
    (escapeMixed ps).head? = some '\n' ↔ ps.head?.map (·.2) = some '\n' := by
  cases ps with
  | nil => simp [escapeMixed]
  | cons p ps =>
    obtain ⟨q, c⟩ := p
    simp only [escapeMixed, List.flatMap_cons, List.head?_cons, Option.map_some, Option.some.injEq]
    rw [← escC_head q c]
    cases h : escC q c with
    | nil => exact absurd h (escC_ne_nil q c)
    | cons x xs => simp

/-- a block none of whose characters the filter can drop passes through -/
theorem foldr_keep (P : Char → Option Char → Bool) (b acc : List Char) (h : ∀ x ∈ b, ∀ o, P x o = false) :
    b.foldr (fun c acc => if P c acc.head? then acc else c :: acc) acc = b ++ acc := by
  induction b with
  | nil => rfl
  | cons x xs ih =>
    simp only [List.foldr_cons, List.cons_append]
    rw [ih fun y hy => h y (List.mem_cons_of_mem _ hy)]
    simp [h x (by simp)]

theorem escC_eq_self (q : Bool) (c : Char) (h : c = ' ' ∨ c = '\t' ∨ c = '\n') : escC q c = [c] := by
  rcases h with h | h | h <;> subst h <;> simp [escC]

theorem escC_inert (q : Bool) (c : Char) (hc : c ≠ ' ' ∧ c ≠ '\t' ∧ c ≠ '\n') :
    ∀ x ∈ escC q c, x ≠ ' ' ∧ x ≠ '\t' ∧ x ≠ '\n' := by
  intro x hx
  unfold escC at hx
  by_cases h1 : c = '&'
  · subst h1; simp [amp] at hx; rcases hx with h | h | h | h | h <;> subst h <;> simp
  by_cases h2 : c = '<'
  · subst h2; simp [lt] at hx; rcases hx with h | h | h | h <;> subst h <;> simp
  by_cases h3 : c = '>'
  · subst h3; simp [gt] at hx; rcases hx with h | h | h | h <;> subst h <;> simp
  by_cases h4 : c = '"'
  · subst h4
    cases q
    · simp at hx; subst hx; simp
    · simp [qt] at hx; rcases hx with h | h | h | h | h <;> subst h <;> simp
  · simp [h1, h2, h3, h4] at hx; subst hx; exact hc

theorem escapeMixed_cons (q : Bool) (c : Char) (ps : List QChar) :
    escapeMixed ((q, c) :: ps) = escC q c ++ escapeMixed ps := rfl

def trimStep (c : Char) (acc : List Char) : List Char :=
  if isBlank c && acc.head? = some '\n' then acc else c :: acc

def collapseStep (c : Char) (acc : List Char) : List Char :=
  if c = '\n' && acc.head? = some '\n' then acc else c :: acc

theorem trimTrailing_append (a b : List Char) : trimTrailing (a ++ b) = a.foldr trimStep (trimTrailing b) := by
  unfold trimTrailing; rw [List.foldr_append]; rfl

theorem collapseLines_append (a b : List Char) :
    collapseLines (a ++ b) = a.foldr collapseStep (collapseLines b) := by
  unfold collapseLines; rw [List.foldr_append]; rfl

theorem trimQ_cons (p : QChar) (ps : List QChar) :
    trimQ (p :: ps) = if isBlank p.2 && ((trimQ ps).head?.map (·.2)) = some '\n' then trimQ ps else p :: trimQ ps := rfl

theorem collapseQ_cons (p : QChar) (ps : List QChar) :
    collapseQ (p :: ps) = if p.2 = '\n' && ((collapseQ ps).head?.map (·.2)) = some '\n' then collapseQ ps
      else p :: collapseQ ps := rfl

theorem foldr_trimStep_keep (b acc : List Char) (h : ∀ x ∈ b, isBlank x = false) :
    b.foldr trimStep acc = b ++ acc := by
  induction b with
  | nil => rfl
  | cons x xs ih =>
    simp only [List.foldr_cons, List.cons_append]
    rw [ih fun y hy => h y (List.mem_cons_of_mem _ hy)]
    simp [trimStep, h x (by simp)]

theorem foldr_collapseStep_keep (b acc : List Char) (h : ∀ x ∈ b, x ≠ '\n') :
    b.foldr collapseStep acc = b ++ acc := by
  induction b with
  | nil => rfl
  | cons x xs ih =>
    simp only [List.foldr_cons, List.cons_append]
    rw [ih fun y hy => h y (List.mem_cons_of_mem _ hy)]
    simp [collapseStep, h x (by simp)]

theorem escC_no_blank (q : Bool) (c : Char) (hb : isBlank c = false) : ∀ x ∈ escC q c, isBlank x = false := by
  intro x hx
  by_cases hcn : c = '\n'
  · subst hcn; simp [escC] at hx; subst hx; simp [isBlank]
  · have hc3 : c ≠ ' ' ∧ c ≠ '\t' ∧ c ≠ '\n' := by
      simp [isBlank] at hb; exact ⟨hb.1, hb.2, hcn⟩
    have := escC_inert q c hc3 x hx
    simp [isBlank, this.1, this.2.1]

theorem escC_no_nl (q : Bool) (c : Char) (hb : c ≠ '\n') : ∀ x ∈ escC q c, x ≠ '\n' := by
  intro x hx
  by_cases hc2 : c = ' ' ∨ c = '\t'
  · have := escC_eq_self q c (by rcases hc2 with h | h; exact Or.inl h; exact Or.inr (Or.inl h))
    rw [this] at hx; simp at hx; subst hx; exact hb
  · have hc3 : c ≠ ' ' ∧ c ≠ '\t' ∧ c ≠ '\n' := ⟨fun h => hc2 (Or.inl h), fun h => hc2 (Or.inr h), hb⟩
    exact (escC_inert q c hc3 x hx).2.2

theorem trimTrailing_mixed (ps : List QChar) : trimTrailing (escapeMixed ps) = escapeMixed (trimQ ps) := by
  induction ps with
  | nil => rfl
  | cons p ps ih =>
    obtain ⟨q, c⟩ := p
    rw [escapeMixed_cons, trimTrailing_append, ih, trimQ_cons]
    by_cases hb : isBlank c = true
    · have hself : escC q c = [c] := by
        apply escC_eq_self
        simp [isBlank] at hb
        rcases hb with h | h
        · exact Or.inl h
        · exact Or.inr (Or.inl h)
      simp only [hself, List.foldr_cons, List.foldr_nil, trimStep, hb, Bool.true_and]
      by_cases hn : (trimQ ps).head?.map (·.2) = some '\n'
      · have := (escapeMixed_head (trimQ ps)).mpr hn
        simp [hn, this]
      · have : ¬ (escapeMixed (trimQ ps)).head? = some '\n' := fun h => hn ((escapeMixed_head _).mp h)
        simp [hn, this, escapeMixed_cons, hself]
    · have hb' : isBlank c = false := by simpa using hb
      rw [foldr_trimStep_keep _ _ (escC_no_blank q c hb')]
      simp [hb', escapeMixed_cons]

theorem collapseLines_mixed (ps : List QChar) : collapseLines (escapeMixed ps) = escapeMixed (collapseQ ps) := by
  induction ps with
  | nil => rfl
  | cons p ps ih =>
    obtain ⟨q, c⟩ := p
    rw [escapeMixed_cons, collapseLines_append, ih, collapseQ_cons]
    by_cases hb : c = '\n'
    · subst hb
      have hself : escC q '\n' = ['\n'] := by simp [escC]
      simp only [hself, List.foldr_cons, List.foldr_nil, collapseStep, decide_true, Bool.true_and]
      by_cases hn : (collapseQ ps).head?.map (·.2) = some '\n'
      · have := (escapeMixed_head (collapseQ ps)).mpr hn
        simp [hn, this]
      · have : ¬ (escapeMixed (collapseQ ps)).head? = some '\n' := fun h => hn ((escapeMixed_head _).mp h)
        simp [hn, this, escapeMixed_cons, hself]
    · rw [foldr_collapseStep_keep _ _ (escC_no_nl q c hb)]
      simp [hb, escapeMixed_cons]

theorem normWs_mixed (ps : List QChar) : normWs (escapeMixed ps) = escapeMixed (normWsQ ps) := by
  unfold normWs normWsQ
  rw [trimTrailing_mixed, collapseLines_mixed]

theorem trimTrailing_cons (c : Char) (cs : List Char) :
    trimTrailing (c :: cs) = trimStep c (trimTrailing cs) := rfl

theorem collapseLines_cons (c : Char) (cs : List Char) :
    collapseLines (c :: cs) = collapseStep c (collapseLines cs) := rfl

theorem trimQ_snd (ps : List QChar) : (trimQ ps).map (·.2) = trimTrailing (ps.map (·.2)) := by
  induction ps with
  | nil => rfl
  | cons p ps ih =>
    rw [trimQ_cons, List.map_cons, trimTrailing_cons, ← ih, trimStep, List.head?_map]
    rw [apply_ite (List.map (fun x : QChar => x.2))]
    rfl

theorem collapseQ_snd (ps : List QChar) : (collapseQ ps).map (·.2) = collapseLines (ps.map (·.2)) := by
  induction ps with
  | nil => rfl
  | cons p ps ih =>
    rw [collapseQ_cons, List.map_cons, collapseLines_cons, ← ih, collapseStep, List.head?_map]
    rw [apply_ite (List.map (fun x : QChar => x.2))]
    rfl

/-- stripping the escaped text = escaping the stripped text -/
theorem normWsQ_snd (ps : List QChar) : (normWsQ ps).map (·.2) = normWs (ps.map (·.2)) := by
  unfold normWsQ normWs
  rw [collapseQ_snd, trimQ_snd]

end Genshi.Subst

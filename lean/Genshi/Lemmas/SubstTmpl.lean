/-
  C01 — from substitution sites to streams: what `renderList` produces is a stream the
  serializer/reader theorems apply to, and merging its character data gives the skeleton with
  every payload verbatim.
-/
import Genshi.Lemmas.SubstStrip
import Genshi.Model.SubstDomain
import Genshi.Props.C18
namespace Genshi.Subst
open Genshi.Escape Genshi.Str

/-! ### merging character data, generically in what a finished run becomes -/

def coalesceWith (fl : Nat → List Char → List Ev) (pres : List Name) : Nat → List Char → List Ev → List Ev
  | p, pend, [] => fl p pend
  | p, pend, .text s f :: rest => coalesceWith fl pres p (pend ++ textValue s f) rest
  | p, pend, .start t a :: rest => fl p pend ++ .start t a :: coalesceWith fl pres (presStep pres p t) [] rest
  | p, pend, .end_ t :: rest => fl p pend ++ .end_ t :: coalesceWith fl pres (p - 1) [] rest

theorem coalesceGo_eq_with (pres : List Name) (pend : List Char) (evs : List Ev) :
    ∀ p, coalesceGo pend evs = coalesceWith (fun _ => flushData) pres p pend evs := by
  induction evs generalizing pend with
  | nil => intro p; rfl
  | cons e es ih => intro p; cases e <;> simp only [coalesceGo, coalesceWith] <;> rw [ih]

theorem coalesceStripGo_eq_with (pres : List Name) (p : Nat) (pend : List Char) (evs : List Ev) :
    coalesceStripGo pres p pend evs = coalesceWith flushDataP pres p pend evs := by
  induction evs generalizing pend p with
  | nil => rfl
  | cons e es ih => cases e <;> simp [coalesceStripGo, coalesceWith, ih]

/-- two event lists a reader cannot tell apart, in any context -/
def TEq (a b : List Ev) : Prop :=
  ∀ (fl : Nat → List Char → List Ev) (pres : List Name) (p : Nat) (pend : List Char) (rest : List Ev),
    coalesceWith fl pres p pend (a ++ rest) = coalesceWith fl pres p pend (b ++ rest)

theorem TEq.refl (a : List Ev) : TEq a a := fun _ _ _ _ _ => rfl

theorem TEq.trans {a b c : List Ev} (h1 : TEq a b) (h2 : TEq b c) : TEq a c :=
  fun fl pres p pend rest => (h1 fl pres p pend rest).trans (h2 fl pres p pend rest)

theorem TEq.append {a a' b b' : List Ev} (h1 : TEq a a') (h2 : TEq b b') : TEq (a ++ b) (a' ++ b') := by
  intro fl pres p pend rest
  rw [List.append_assoc, List.append_assoc, h1 fl pres p pend (b ++ rest)]
  -- now under the common prefix a'
  have key : ∀ (x : List Ev) (p : Nat) (pend : List Char),
      coalesceWith fl pres p pend (x ++ (b ++ rest)) = coalesceWith fl pres p pend (x ++ (b' ++ rest)) := by
    intro x
    induction x with
    | nil => intro p pend; exact h2 fl pres p pend rest
    | cons e es ih => intro p pend; cases e <;> simp [coalesceWith, ih]
  exact key a' p pend

theorem TEq.wrap {a a' : List Ev} (t : Name) (at_ : List (Name × List Char)) (h : TEq a a') :
    TEq (.start t at_ :: (a ++ [.end_ t])) (.start t at_ :: (a' ++ [.end_ t])) := by
  intro fl pres p pend rest
  simp only [List.cons_append, List.append_assoc, coalesceWith]
  rw [h fl pres (presStep pres p t) [] (.end_ t :: ([] ++ rest))]

/-- the character data of a list of TEXT events (other events contribute nothing: not used for them) -/
def dataOf : List Ev → List Char
  | [] => []
  | .text s f :: rest => textValue s f ++ dataOf rest
  | _ :: rest => dataOf rest

def allText (evs : List Ev) : Prop := ∀ e ∈ evs, ∃ s f, e = .text s f

theorem coalesceWith_texts (fl : Nat → List Char → List Ev) (pres : List Name) (p : Nat) (evs : List Ev)
    (h : allText evs) :
    ∀ pend rest, coalesceWith fl pres p pend (evs ++ rest) = coalesceWith fl pres p (pend ++ dataOf evs) rest := by
  induction evs with
  | nil => intro pend rest; simp [dataOf]
  | cons e es ih =>
    intro pend rest
    obtain ⟨s, f, rfl⟩ := h e (by simp)
    simp only [List.cons_append, coalesceWith, dataOf]
    rw [ih (fun x hx => h x (List.mem_cons_of_mem _ hx))]
    simp

/-- text events with the same character data are indistinguishable -/
theorem TEq.texts {a b : List Ev} (ha : allText a) (hb : allText b) (h : dataOf a = dataOf b) : TEq a b := by
  intro fl pres p pend rest
  rw [coalesceWith_texts fl pres p a ha, coalesceWith_texts fl pres p b hb, h]

/-! ### markup that is escaped text -/

theorem parseEsc_sound : ∀ (s : List Char) (ps : List QChar), parseEsc s = some ps → s = escapeMixed ps := by
  intro s
  induction s using parseEsc.induct with
  | case1 => intro ps h; simp [parseEsc] at h; subst h; rfl
  | case2 rest ih =>
    intro ps h
    simp only [parseEsc, Option.map_eq_some_iff] at h
    obtain ⟨qs, hq, rfl⟩ := h
    rw [escapeMixed_cons, ← ih qs hq]; rfl
  | case3 rest ih =>
    intro ps h
    simp only [parseEsc, Option.map_eq_some_iff] at h
    obtain ⟨qs, hq, rfl⟩ := h
    rw [escapeMixed_cons, ← ih qs hq]; rfl
  | case4 rest ih =>
    intro ps h
    simp only [parseEsc, Option.map_eq_some_iff] at h
    obtain ⟨qs, hq, rfl⟩ := h
    rw [escapeMixed_cons, ← ih qs hq]; rfl
  | case5 rest ih =>
    intro ps h
    simp only [parseEsc, Option.map_eq_some_iff] at h
    obtain ⟨qs, hq, rfl⟩ := h
    rw [escapeMixed_cons, ← ih qs hq]; rfl
  | case6 c rest h1 h2 h3 h4 hc =>
    intro ps h
    rw [parseEsc] at h
    · simp [hc] at h
    all_goals assumption
  | case7 c rest h1 h2 h3 h4 hc ih =>
    intro ps h
    rw [parseEsc] at h
    · simp only [hc, Bool.false_eq_true, ↓reduceIte, Option.map_eq_some_iff] at h
      obtain ⟨qs, hq, rfl⟩ := h
      rw [escapeMixed_cons, ← ih qs hq]
      simp only [Bool.or_eq_true, decide_eq_true_eq, not_or] at hc
      simp [escC, hc.1.1, hc.1.2, hc.2]
    all_goals assumption

theorem safeOk_of_B (s : List Char) (h : safeOkB s = true) : SafeOk s := by
  unfold safeOkB at h
  cases hp : parseEsc s with
  | none => simp [hp] at h
  | some ps => exact ⟨ps, parseEsc_sound s ps hp⟩

theorem SafeOk.nil : SafeOk [] := ⟨[], rfl⟩

theorem SafeOk.append {a b : List Char} (ha : SafeOk a) (hb : SafeOk b) : SafeOk (a ++ b) := by
  obtain ⟨pa, rfl⟩ := ha
  obtain ⟨pb, rfl⟩ := hb
  exact ⟨pa ++ pb, (escapeMixed_append pa pb).symm⟩

theorem SafeOk.escaped (q : Bool) (s : List Char) : SafeOk (escapePy q s) :=
  ⟨s.map fun c => (q, c), by rw [escapePy_eq_spec, escapeSpec_eq_mixed]⟩

theorem unescape_append_safe {a b : List Char} (ha : SafeOk a) (hb : SafeOk b) :
    unescape (a ++ b) = unescape a ++ unescape b := by
  obtain ⟨pa, rfl⟩ := ha
  obtain ⟨pb, rfl⟩ := hb
  rw [← escapeMixed_append, unescape_escapeMixed, unescape_escapeMixed, unescape_escapeMixed, List.map_append]

theorem unescape_escapePy (q : Bool) (s : List Char) : unescape (escapePy q s) = s := by
  rw [escapePy_eq_spec]; exact unescape_escapeSpec q s

theorem unescape_nil : unescape [] = [] := by decide

/-! ### streams the serializer / reader theorems apply to -/

/-- a segment made of complete elements and character data -/
def Closed (m : Method) (evs : List Ev) : Prop :=
  (∀ rest, emptyOkGo m none (evs ++ rest) = emptyOkGo m none rest) ∧
  (∀ t rest, evs ≠ [] → emptyOkGo m (some t) (evs ++ rest) = (openOk m t && emptyOkGo m none rest))

structure StreamOk (m : Method) (evs : List Ev) : Prop where
  ev : ∀ e ∈ evs, evOkB m e = true
  safe : TextsOk evs
  closed : Closed m evs

theorem StreamOk.nil (m : Method) : StreamOk m [] :=
  ⟨by simp, by intro s h; simp at h, ⟨by simp, by intro t rest h; exact absurd rfl h⟩⟩

theorem StreamOk.text (m : Method) (s : List Char) (f : Bool) (h : f = true → SafeOk s) :
    StreamOk m [.text s f] := by
  refine ⟨by simp [evOkB], ?_, ⟨by simp [emptyOkGo], by intro t rest _; simp [emptyOkGo]⟩⟩
  intro s' hs'
  simp only [List.mem_singleton, Ev.text.injEq] at hs'
  rw [hs'.1]; exact h hs'.2.symm

theorem StreamOk.append {m : Method} {a b : List Ev} (ha : StreamOk m a) (hb : StreamOk m b) :
    StreamOk m (a ++ b) := by
  refine ⟨?_, ?_, ?_, ?_⟩
  · intro e he
    rcases List.mem_append.mp he with h | h
    · exact ha.ev e h
    · exact hb.ev e h
  · intro s hs
    rcases List.mem_append.mp hs with h | h
    · exact ha.safe s h
    · exact hb.safe s h
  · intro rest
    rw [List.append_assoc, ha.closed.1, hb.closed.1]
  · intro t rest hne
    by_cases hae : a = []
    · subst hae
      simp only [List.nil_append] at hne ⊢
      exact hb.closed.2 t rest hne
    · rw [List.append_assoc, ha.closed.2 t _ hae, hb.closed.1]

theorem StreamOk.wrap {m : Method} {kids : List Ev} (t : Name) (at_ : List (Name × List Char))
    (ht : tagOkB m t = true) (hat : attrsOkB m at_ = true) (hvoid : openOk m t = true ∨ kids = [])
    (hk : StreamOk m kids) : StreamOk m (.start t at_ :: (kids ++ [.end_ t])) := by
  simp only [tagOkB, Bool.and_eq_true, Bool.not_eq_true'] at ht
  obtain ⟨hn, hne⟩ := ht
  have hkey : ∀ rest, emptyOkGo m (some t) (kids ++ (.end_ t :: rest)) = emptyOkGo m none rest := by
    intro rest
    by_cases hke : kids = []
    · subst hke; simp [emptyOkGo]
    · rw [hk.closed.2 t _ hke]
      rcases hvoid with h | h
      · simp [h, emptyOkGo]
      · exact absurd h hke
  refine ⟨?_, ?_, ?_, ?_⟩
  · intro e he
    simp only [List.mem_cons, List.mem_append, List.not_mem_nil, or_false] at he
    rcases he with rfl | h | rfl
    · simp only [evOkB, hn, hne, hat]; simp
    · exact hk.ev e h
    · simp [evOkB, hn]
  · intro s hs
    simp only [List.mem_cons, List.mem_append, List.not_mem_nil, or_false] at hs
    rcases hs with h | h | h
    · cases h
    · exact hk.safe s h
    · cases h
  · intro rest
    simp only [List.cons_append, List.append_assoc, emptyOkGo, List.nil_append]
    exact hkey rest
  · intro t' rest _
    simp only [List.cons_append, List.append_assoc, emptyOkGo, List.nil_append]
    rw [hkey rest]

theorem StreamOk.texts (m : Method) (evs : List Ev)
    (h : ∀ e ∈ evs, ∃ s f, e = .text s f ∧ (f = true → SafeOk s)) : StreamOk m evs := by
  induction evs with
  | nil => exact StreamOk.nil m
  | cons e es ih =>
    obtain ⟨s, f, rfl, hs⟩ := h e (by simp)
    have := StreamOk.append (StreamOk.text m s f hs) (ih fun x hx => h x (List.mem_cons_of_mem _ hx))
    simpa using this

/-! ### values and environments -/

def EnvOk (env : Env) : Prop := ∀ x ∈ env, scalarOkB x = true

theorem evalAtom_ok (env : Env) (a : Atom) (ha : atomOkB a = true) (he : EnvOk env) :
    scalarOkB (evalAtom env a) = true := by
  cases a with
  | lit x => exact ha
  | var i =>
    simp only [evalAtom, List.getD_eq_getElem?_getD]
    cases h : env[i]? with
    | none => rfl
    | some x => exact he x (List.mem_of_getElem? h)

theorem evalV_ok (env : Env) (e : VExpr) (h : vexprOkB e = true) (he : EnvOk env) :
    valOkB (evalV env e) = true := by
  cases e with
  | val v => exact h
  | var i =>
    have := evalAtom_ok env (.var i) rfl he
    simpa [evalV, valOkB, evalAtom] using this
  | listOf items =>
    simp only [evalV, valOkB, List.all_map, List.all_eq_true, Function.comp_apply]
    intro a ha
    exact evalAtom_ok env a ((List.all_eq_true.mp h) a ha) he

theorem EnvOk.cons {env : Env} {x : Scalar} (hx : scalarOkB x = true) (he : EnvOk env) : EnvOk (x :: env) := by
  intro y hy
  rcases List.mem_cons.mp hy with rfl | h
  · exact hx
  · exact he y h

theorem scalarOk_markup {s : List Char} (h : scalarOkB (.markup s) = true) : SafeOk s := safeOk_of_B s h

/-! ### text sites: `_flatten` -/

theorem flattenVal_allText (v : Val) : allText (flattenVal v) := by
  intro e he
  cases v with
  | one x =>
    cases x <;> simp [flattenVal, numberEv] at he <;> exact ⟨_, _, he⟩
  | many xs =>
    simp only [flattenVal, List.mem_map] at he
    obtain ⟨x, _, rfl⟩ := he
    exact ⟨_, _, rfl⟩

theorem dataOf_map_plain (f : Scalar → List Char) (xs : List Scalar) :
    dataOf (xs.map fun x => Ev.text (f x) false) = xs.flatMap f := by
  induction xs with
  | nil => rfl
  | cons x xs ih => simp [dataOf, textValue, ih]

theorem flattenVal_data (v : Val) : dataOf (flattenVal v) = valText v := by
  cases v with
  | one x =>
    cases x <;>
      simp [flattenVal, numberEv, Genshi.Gen.Subst.numberConvSafe, dataOf, textValue, valText, scalarText,
        pyStr, safeText]
  | many xs => simp only [flattenVal, valText]; exact dataOf_map_plain pyStr xs

/-- a text site contributes exactly the character data of its value -/
theorem flattenVal_teq (v : Val) : TEq (flattenVal v) [.text (valText v) false] := by
  apply TEq.texts (flattenVal_allText v)
  · intro e he; simp at he; exact ⟨_, _, he⟩
  · simp [flattenVal_data, dataOf, textValue]

/-- … as TEXT events that are safe only for values marked safe -/
theorem flattenVal_streamOk (m : Method) (v : Val) (hv : valOkB v = true) : StreamOk m (flattenVal v) := by
  apply StreamOk.texts
  intro e he
  cases v with
  | one x =>
    cases x with
    | none => simp [flattenVal] at he
    | str s => simp [flattenVal] at he; exact ⟨_, _, he, by simp⟩
    | markup s => simp [flattenVal] at he; exact ⟨_, _, he, fun _ => scalarOk_markup hv⟩
    | num s =>
      simp [flattenVal, numberEv, Genshi.Gen.Subst.numberConvSafe] at he
      exact ⟨_, _, he, by simp⟩
    | obj s h => simp [flattenVal] at he; exact ⟨_, _, he, by simp⟩
  | many xs =>
    simp only [flattenVal, List.mem_map] at he
    obtain ⟨x, _, rfl⟩ := he
    exact ⟨_, _, rfl, by simp⟩

/-! ### attributes: names come from the template, never from values -/

theorem gUpsert_names {α : Type} (n : Name) (v : α) (acc : List (Name × α)) (p : Name × α)
    (h : p ∈ gUpsert n v acc) : p.1 = n ∨ p ∈ acc := by
  induction acc with
  | nil => simp [gUpsert] at h; exact Or.inl (by rw [h])
  | cons q qs ih =>
    obtain ⟨k, w⟩ := q
    simp only [gUpsert] at h
    split at h
    · rcases List.mem_cons.mp h with rfl | h'
      · exact Or.inl rfl
      · exact Or.inr (List.mem_cons_of_mem _ h')
    · rcases List.mem_cons.mp h with rfl | h'
      · exact Or.inr (by simp)
      · rcases ih h' with h'' | h''
        · exact Or.inl h''
        · exact Or.inr (List.mem_cons_of_mem _ h'')

theorem gNew_names {α : Type} (self : List (Name × α)) (remove : List Name)
    (items : List (Name × Option α)) :
    ∀ (acc : List (Name × α)) (p : Name × α), p ∈ items.foldl (gNewStep self remove) acc →
      p ∈ acc ∨ ∃ q ∈ items, q.1 = p.1 := by
  induction items with
  | nil => intro acc p h; exact Or.inl h
  | cons q qs ih =>
    intro acc p h
    simp only [List.foldl_cons] at h
    rcases ih _ p h with h' | ⟨r, hr, hrn⟩
    · unfold gNewStep at h'
      split at h'
      · split at h'
        · exact Or.inl h'
        · rcases gUpsert_names _ _ _ _ h' with h'' | h''
          · exact Or.inr ⟨q, by simp, h''.symm⟩
          · exact Or.inl h''
      · exact Or.inl h'
    · exact Or.inr ⟨r, List.mem_cons_of_mem _ hr, hrn⟩

theorem gOr_names {α : Type} (self : List (Name × α)) (items : List (Name × Option α)) (p : Name × α)
    (h : p ∈ gOr self items) : (∃ q ∈ self, q.1 = p.1) ∨ (∃ q ∈ items, q.1 = p.1) := by
  unfold gOr at h
  rcases List.mem_append.mp h with h | h
  · left
    simp only [gKept, List.mem_filterMap] at h
    obtain ⟨q, hq, hqp⟩ := h
    split at hqp
    · cases hqp
    · simp only [Option.some.injEq] at hqp
      exact ⟨q, hq, by rw [← hqp]⟩
  · right
    rcases gNew_names self (gRemove items) items [] p h with h' | h'
    · cases h'
    · exact h'

theorem evalAttrs_ok (m : Method) (env : Env) (attrib : List (Name × AttrSpec))
    (h : ∀ p ∈ attrib, attrNameOkB m p.1 = true) : attrsOkB m (evalAttrs env attrib) = true := by
  simp only [attrsOkB, evalAttrs, List.all_eq_true, List.mem_filterMap]
  rintro ⟨n, v⟩ ⟨q, hq, hqv⟩
  cases hv : attrValue env q.2 with
  | none => simp [hv] at hqv
  | some w =>
    simp only [hv, Option.map_some, Option.some.injEq, Prod.mk.injEq] at hqv
    have := h q hq
    simp only [attrNameOkB] at this
    rw [← hqv.1]; exact this

theorem applyPyAttrs_names (m : Method) (env : Env) (attrs : List (Name × AttrSpec))
    (items : List (Name × Atom))
    (ha : ∀ p ∈ attrs, attrNameOkB m p.1 = true) (hi : ∀ p ∈ items, attrNameOkB m p.1 = true) :
    ∀ p ∈ applyPyAttrs env attrs items, attrNameOkB m p.1 = true := by
  intro p hp
  unfold applyPyAttrs at hp
  split at hp
  · exact ha p hp
  · rcases gOr_names _ _ p hp with ⟨q, hq, hqn⟩ | ⟨q, hq, hqn⟩
    · rw [← hqn]; exact ha q hq
    · simp only [List.mem_map] at hq
      obtain ⟨r, hr, rfl⟩ := hq
      rw [← hqn]; exact hi r hr

/-! ### the element builder -/

theorem bchildEvents_spec (m : Method) (x : Scalar) (hx : scalarOkB x = true) :
    StreamOk m (bchildEvents x) ∧ allText (bchildEvents x) ∧ dataOf (bchildEvents x) = bchildText x := by
  cases x with
  | none => exact ⟨StreamOk.nil m, by intro e he; simp [bchildEvents] at he, rfl⟩
  | str s =>
    exact ⟨StreamOk.text m s false (by simp), by intro e he; simp [bchildEvents] at he; exact ⟨_, _, he⟩,
      by simp [bchildEvents, dataOf, textValue, bchildText, pyStr]⟩
  | markup s =>
    exact ⟨StreamOk.text m s true (fun _ => scalarOk_markup hx),
      by intro e he; simp [bchildEvents] at he; exact ⟨_, _, he⟩,
      by simp [bchildEvents, dataOf, textValue, bchildText, safeText]⟩
  | num s =>
    exact ⟨StreamOk.text m s false (by simp), by intro e he; simp [bchildEvents] at he; exact ⟨_, _, he⟩,
      by simp [bchildEvents, dataOf, textValue, bchildText, pyStr]⟩
  | obj s h =>
    exact ⟨StreamOk.text m s false (by simp), by intro e he; simp [bchildEvents] at he; exact ⟨_, _, he⟩,
      by simp [bchildEvents, dataOf, textValue, bchildText, pyStr]⟩

theorem dataOf_append (a b : List Ev) (ha : allText a) : dataOf (a ++ b) = dataOf a ++ dataOf b := by
  induction a with
  | nil => rfl
  | cons e es ih =>
    obtain ⟨s, f, rfl⟩ := ha e (by simp)
    simp [dataOf, ih (fun x hx => ha x (List.mem_cons_of_mem _ hx))]

theorem bvalEvents_spec (m : Method) (v : Val) (hv : valOkB v = true) :
    StreamOk m (bvalEvents v) ∧ allText (bvalEvents v) ∧ dataOf (bvalEvents v) = bvalText v := by
  cases v with
  | one x => exact bchildEvents_spec m x hv
  | many xs =>
    simp only [bvalEvents, bvalText]
    induction xs with
    | nil => exact ⟨StreamOk.nil m, by intro e he; simp at he, rfl⟩
    | cons x xs ih =>
      simp only [valOkB, List.all_cons, Bool.and_eq_true] at hv
      obtain ⟨h1, h2, h3⟩ := bchildEvents_spec m x hv.1
      obtain ⟨i1, i2, i3⟩ := ih (by simpa [valOkB] using hv.2)
      refine ⟨by simpa using StreamOk.append h1 i1, ?_, ?_⟩
      · intro e he
        simp only [List.flatMap_cons, List.mem_append] at he
        rcases he with he | he
        · exact h2 e he
        · exact i2 e he
      · simp only [List.flatMap_cons]
        rw [dataOf_append _ _ h2, h3, i3]

theorem kwAttrs_names (env : Env) (attrs : List (Name × Atom)) :
    ∀ seen, ∀ p ∈ kwAttrs env attrs seen, ∃ q ∈ attrs, q.1 = p.1 := by
  induction attrs with
  | nil => intro seen p hp; simp [kwAttrs] at hp
  | cons a as ih =>
    intro seen p hp
    obtain ⟨n, at_⟩ := a
    simp only [kwAttrs] at hp
    split at hp
    · obtain ⟨q, hq, hqn⟩ := ih _ p hp
      exact ⟨q, List.mem_cons_of_mem _ hq, hqn⟩
    · split at hp
      · obtain ⟨q, hq, hqn⟩ := ih _ p hp
        exact ⟨q, List.mem_cons_of_mem _ hq, hqn⟩
      · rcases List.mem_cons.mp hp with rfl | hp'
        · exact ⟨(n, at_), by simp, rfl⟩
        · obtain ⟨q, hq, hqn⟩ := ih _ p hp'
          exact ⟨q, List.mem_cons_of_mem _ hq, hqn⟩

theorem builderAttrs_ok (m : Method) (env : Env) (attrs : List (Name × Atom))
    (h : ∀ p ∈ attrs, attrNameOkB m p.1 = true) :
    attrsOkB m (Attrs.or [] (kwAttrs env attrs [])) = true := by
  simp only [attrsOkB, List.all_eq_true]
  intro p hp
  have hnew : p ∈ orNew [] (kwAttrs env attrs []) := by
    simpa [Attrs.or, orKept] using hp
  have := ((Genshi.Props.C18.orNew_inv [] (kwAttrs env attrs [])).2 p hnew).2.2
  simp only [List.mem_map] at this
  obtain ⟨q, hq, hqn⟩ := this
  obtain ⟨r, hr, hrn⟩ := kwAttrs_names env attrs [] q hq
  have := h r hr
  simp only [attrNameOkB] at this
  rw [← hqn, ← hrn]; exact this

mutual
  theorem bkid_spec (m : Method) (env : Env) (he : EnvOk env) :
      ∀ b : BKid, bkidOkB m b = true →
        StreamOk m (bkidEvents env b) ∧ TEq (bkidEvents env b) (expectedB env b)
    | .arg e, h => by
        have hv := evalV_ok env e (by simpa [bkidOkB] using h) he
        obtain ⟨h1, h2, h3⟩ := bvalEvents_spec m (evalV env e) hv
        refine ⟨h1, ?_⟩
        simp only [bkidEvents, expectedB]
        apply TEq.texts h2
        · intro x hx; simp at hx; exact ⟨_, _, hx⟩
        · simp [h3, dataOf, textValue]
    | .el t attrs kids, h => by
        simp only [bkidOkB, Bool.and_eq_true] at h
        obtain ⟨⟨⟨ht, ha⟩, hvoid⟩, hk⟩ := h
        obtain ⟨k1, k2⟩ := bkids_spec m env he kids hk
        have hattrs : ∀ p ∈ attrs, attrNameOkB m p.1 = true := by
          intro p hp
          have := (List.all_eq_true.mp ha) p hp
          simp only [Bool.and_eq_true] at this
          exact this.1
        have hv : openOk m t = true ∨ bkidsEvents env kids = [] := by
          simp only [Bool.or_eq_true] at hvoid
          rcases hvoid with h | h
          · exact Or.inl h
          · right
            have : kids = [] := by simpa using h
            subst this; rfl
        exact ⟨StreamOk.wrap t _ ht (builderAttrs_ok m env attrs hattrs) hv k1,
          by simp only [bkidEvents, expectedB]; exact TEq.wrap t _ k2⟩
  theorem bkids_spec (m : Method) (env : Env) (he : EnvOk env) :
      ∀ bs : List BKid, bkidsOkB m bs = true →
        StreamOk m (bkidsEvents env bs) ∧ TEq (bkidsEvents env bs) (expectedBs env bs)
    | [], _ => ⟨StreamOk.nil m, TEq.refl _⟩
    | b :: bs, h => by
        simp only [bkidsOkB, Bool.and_eq_true] at h
        obtain ⟨h1, h2⟩ := bkid_spec m env he b h.1
        obtain ⟨i1, i2⟩ := bkids_spec m env he bs h.2
        exact ⟨StreamOk.append h1 i1, TEq.append h2 i2⟩
end

/-! ### `Markup` operators -/

theorem opnd_spec (x : Scalar) (hd : opndOk x = true) (hx : scalarOkB x = true) (q : Bool) :
    SafeOk (escOpnd escapePy q (toOpnd x)) ∧ unescape (escOpnd escapePy q (toOpnd x)) = opndText x := by
  cases x with
  | none => simp [opndOk] at hd
  | str s => exact ⟨SafeOk.escaped q s, by simp [toOpnd, escOpnd, unescape_escapePy, opndText, pyStr]⟩
  | markup s => exact ⟨scalarOk_markup hx, by simp [toOpnd, escOpnd, opndText, safeText]⟩
  | num s => simp [opndOk] at hd
  | obj s h =>
    cases h with
    | none => simp [opndOk] at hd
    | some h => exact ⟨safeOk_of_B h hx, by simp [toOpnd, escOpnd, opndText, safeText]⟩

theorem join_spec (sep : List Char) (hsep : SafeOk sep) (pieces : List (List Char))
    (hp : ∀ x ∈ pieces, SafeOk x) :
    SafeOk (Str.join sep pieces) ∧
      unescape (Str.join sep pieces) = Str.join (unescape sep) (pieces.map unescape) := by
  induction pieces with
  | nil => exact ⟨SafeOk.nil, by simp [Str.join, unescape_nil]⟩
  | cons x xs ih =>
    have hx := hp x (by simp)
    have ih' := ih fun y hy => hp y (List.mem_cons_of_mem _ hy)
    cases xs with
    | nil => exact ⟨hx, by simp [Str.join]⟩
    | cons y ys =>
      simp only [Str.join, List.map_cons] at ih' ⊢
      refine ⟨SafeOk.append (SafeOk.append hx hsep) ih'.1, ?_⟩
      rw [unescape_append_safe (SafeOk.append hx hsep) ih'.1, unescape_append_safe hx hsep, ih'.2]

/-- a text event marked safe that holds escaped text reads as its decoded text -/
theorem safe_text_spec (m : Method) (s d : List Char) (hs : SafeOk s) (hd : unescape s = d) :
    StreamOk m [.text s true] ∧ TEq [.text s true] [.text d false] := by
  refine ⟨StreamOk.text m s true fun _ => hs, ?_⟩
  apply TEq.texts
  · intro e he; simp at he; exact ⟨_, _, he⟩
  · intro e he; simp at he; exact ⟨_, _, he⟩
  · simp [dataOf, textValue, hd]

/-! ### `Markup % args` -/

theorem takeKey_suffix (r : List Char) : ∀ (acc k r' : List Char), takeKey r acc = some (k, r') →
    ∀ c ∈ r', c ∈ r := by
  induction r with
  | nil => intro acc k r' h; simp [takeKey] at h
  | cons x xs ih =>
    intro acc k r' h c hc
    by_cases hx : x = ')'
    · subst hx
      cases xs with
      | nil => simp [takeKey] at h
      | cons y ys =>
        by_cases hy : y = 's'
        · subst hy
          simp only [takeKey, Option.some.injEq, Prod.mk.injEq] at h
          rw [← h.2] at hc
          exact List.mem_cons_of_mem _ (List.mem_cons_of_mem _ hc)
        · simp [takeKey, hy] at h
    · rw [takeKey] at h
      · split at h
        · cases h
        · exact List.mem_cons_of_mem _ (ih _ _ _ h c hc)
      all_goals (intros; simp_all)

/-- the literal pieces of a format string are made of its characters -/
theorem parseFmt_lits (P : Char → Prop) : ∀ (fuel : Nat) (s acc : List Char) (ps : List Piece),
    parseFmt fuel s acc = some ps → (∀ c ∈ s, P c) → (∀ c ∈ acc, P c) →
    ∀ l, Piece.lit l ∈ ps → ∀ c ∈ l, P c := by
  intro fuel
  induction fuel with
  | zero => intro s acc ps h; simp [parseFmt] at h
  | succ n ih =>
    intro s acc ps h hs hacc l hl c hc
    have hpre : ∀ l, Piece.lit l ∈ (if acc.isEmpty then [] else [Piece.lit acc.reverse]) → ∀ c ∈ l, P c := by
      intro l hl c hc
      split at hl
      · cases hl
      · simp only [List.mem_singleton, Piece.lit.injEq] at hl
        subst hl
        exact hacc c (List.mem_reverse.mp hc)
    cases s with
    | nil =>
      simp only [parseFmt, Option.some.injEq] at h
      subst h
      exact hpre l hl c hc
    | cons x xs =>
      by_cases hx : x = '%'
      · subst hx
        have hxs : ∀ c ∈ xs, P c := fun c hc => hs c (List.mem_cons_of_mem _ hc)
        cases xs with
        | nil => simp [parseFmt] at h
        | cons y ys =>
          have hys : ∀ c ∈ ys, P c := fun c hc => hxs c (List.mem_cons_of_mem _ hc)
          by_cases h1 : y = '%'
          · subst h1
            simp only [parseFmt, Option.map_eq_some_iff] at h
            obtain ⟨qs, hq, rfl⟩ := h
            simp only [List.append_assoc, List.mem_append, List.mem_singleton] at hl
            rcases hl with hl | hl | hl
            · exact hpre l hl c hc
            · cases hl
            · exact ih ys [] qs hq hys (by simp) l hl c hc
          by_cases h2 : y = 's'
          · subst h2
            simp only [parseFmt, Option.map_eq_some_iff] at h
            obtain ⟨qs, hq, rfl⟩ := h
            simp only [List.append_assoc, List.mem_append, List.mem_singleton] at hl
            rcases hl with hl | hl | hl
            · exact hpre l hl c hc
            · cases hl
            · exact ih ys [] qs hq hys (by simp) l hl c hc
          by_cases h3 : y = '('
          · subst h3
            simp only [parseFmt] at h
            split at h
            · rename_i k r' hk
              simp only [Option.map_eq_some_iff] at h
              obtain ⟨qs, hq, rfl⟩ := h
              simp only [List.append_assoc, List.mem_append, List.mem_singleton] at hl
              rcases hl with hl | hl | hl
              · exact hpre l hl c hc
              · cases hl
              · exact ih r' [] qs hq (fun c hc => hys c (takeKey_suffix ys [] k r' hk c hc)) (by simp) l hl c hc
            · cases h
          · simp [parseFmt, h1, h2, h3] at h
      · rw [parseFmt] at h
        · exact ih xs (x :: acc) ps h (fun c hc => hs c (List.mem_cons_of_mem _ hc))
            (by intro c hc; rcases List.mem_cons.mp hc with rfl | hc
                · exact hs _ (by simp)
                · exact hacc c hc) l hl c hc
        all_goals (intros; simp_all)

theorem benign_safe (l : List Char) (h : ∀ c ∈ l, c ≠ '&' ∧ c ≠ '<' ∧ c ≠ '>') :
    SafeOk l ∧ unescape l = l := by
  have e : l = escapeMixed (l.map fun c => (false, c)) := by
    induction l with
    | nil => rfl
    | cons c cs ih =>
      have hc := h c (by simp)
      rw [List.map_cons, escapeMixed_cons, ← ih fun x hx => h x (List.mem_cons_of_mem _ hx)]
      simp [escC, hc.1, hc.2.1, hc.2.2]
  refine ⟨⟨_, e⟩, ?_⟩
  conv => lhs; rw [e]
  rw [unescape_escapeMixed]
  simp [List.map_map, Function.comp_def]

def litsBenign (ps : List Piece) : Prop := ∀ l, Piece.lit l ∈ ps → ∀ c ∈ l, c ≠ '&' ∧ c ≠ '<' ∧ c ≠ '>'

/-- positional formatting of escaped operands, decoded = formatting of the decoded operands -/
theorem fmtPos_spec : ∀ (ps : List Piece) (args : List (List Char)), litsBenign ps → (∀ a ∈ args, SafeOk a) →
    (∀ s, fmtPos ps args = .ok s → SafeOk s ∧ fmtPos ps (args.map unescape) = .ok (unescape s)) ∧
    (∀ e, fmtPos ps args = .error e → fmtPos ps (args.map unescape) = .error e) := by
  intro ps
  induction ps with
  | nil =>
    intro args _ _
    cases args with
    | nil => exact ⟨by intro s h; simp [fmtPos] at h; subst h; exact ⟨SafeOk.nil, by simp [fmtPos, unescape_nil]⟩,
        by intro e h; simp [fmtPos] at h⟩
    | cons a as => exact ⟨by intro s h; simp [fmtPos] at h, by intro e h; simpa [fmtPos] using h⟩
  | cons p ps ih =>
    intro args hl ha
    have hl' : litsBenign ps := fun l h => hl l (List.mem_cons_of_mem _ h)
    cases p with
    | lit l =>
      obtain ⟨hls, hlu⟩ := benign_safe l (hl l (by simp))
      obtain ⟨i1, i2⟩ := ih args hl' ha
      constructor
      · intro s h
        simp only [fmtPos] at h
        cases hr : fmtPos ps args with
        | error e => simp [hr, Except.map] at h
        | ok r =>
          simp only [hr, Except.map, Except.ok.injEq] at h
          subst h
          obtain ⟨j1, j2⟩ := i1 r hr
          exact ⟨SafeOk.append hls j1, by simp [fmtPos, j2, Except.map, unescape_append_safe hls j1, hlu]⟩
      · intro e h
        simp only [fmtPos] at h
        cases hr : fmtPos ps args with
        | error e' =>
          simp only [hr, Except.map, Except.error.injEq] at h
          subst h
          simp [fmtPos, i2 e' hr, Except.map]
        | ok r => simp [hr, Except.map] at h
    | pct =>
      obtain ⟨i1, i2⟩ := ih args hl' ha
      have hp : SafeOk ['%'] ∧ unescape ['%'] = ['%'] := benign_safe ['%'] (by simp)
      constructor
      · intro s h
        simp only [fmtPos] at h
        cases hr : fmtPos ps args with
        | error e => simp [hr, Except.map] at h
        | ok r =>
          simp only [hr, Except.map, Except.ok.injEq] at h
          subst h
          obtain ⟨j1, j2⟩ := i1 r hr
          have := unescape_append_safe hp.1 j1
          simp only [List.cons_append, List.nil_append] at this
          exact ⟨by simpa using SafeOk.append hp.1 j1, by simp [fmtPos, j2, Except.map, this, hp.2]⟩
      · intro e h
        simp only [fmtPos] at h
        cases hr : fmtPos ps args with
        | error e' =>
          simp only [hr, Except.map, Except.error.injEq] at h
          subst h
          simp [fmtPos, i2 e' hr, Except.map]
        | ok r => simp [hr, Except.map] at h
    | arg =>
      cases args with
      | nil => exact ⟨by intro s h; simp [fmtPos] at h, by intro e h; simpa [fmtPos] using h⟩
      | cons a as =>
        have haa := ha a (by simp)
        obtain ⟨i1, i2⟩ := ih as hl' fun x hx => ha x (List.mem_cons_of_mem _ hx)
        constructor
        · intro s h
          simp only [fmtPos] at h
          cases hr : fmtPos ps as with
          | error e => simp [hr, Except.map] at h
          | ok r =>
            simp only [hr, Except.map, Except.ok.injEq] at h
            subst h
            obtain ⟨j1, j2⟩ := i1 r hr
            exact ⟨SafeOk.append haa j1, by simp [fmtPos, j2, Except.map, unescape_append_safe haa j1]⟩
        · intro e h
          simp only [fmtPos] at h
          cases hr : fmtPos ps as with
          | error e' =>
            simp only [hr, Except.map, Except.error.injEq] at h
            subst h
            simp [fmtPos, i2 e' hr, Except.map]
          | ok r => simp [hr, Except.map] at h
    | key k =>
      exact ⟨by intro s h; simp [fmtPos] at h, by intro e h; simpa [fmtPos] using h⟩

theorem lookupKey_map (k : List Char) (kv : List (List Char × List Char)) :
    lookupKey k (kv.map fun p => (p.1, unescape p.2)) = (lookupKey k kv).map unescape := by
  induction kv with
  | nil => rfl
  | cons p ps ih =>
    obtain ⟨k', v⟩ := p
    simp only [List.map_cons, lookupKey]
    split
    · rfl
    · exact ih

theorem lookupKey_mem (k : List Char) (kv : List (List Char × List Char)) (v : List Char)
    (h : lookupKey k kv = some v) : ∃ p ∈ kv, p.2 = v := by
  induction kv with
  | nil => simp [lookupKey] at h
  | cons p ps ih =>
    obtain ⟨k', w⟩ := p
    simp only [lookupKey] at h
    split at h
    · simp only [Option.some.injEq] at h
      exact ⟨(k', w), by simp, h⟩
    · obtain ⟨q, hq, hqv⟩ := ih h
      exact ⟨q, List.mem_cons_of_mem _ hq, hqv⟩

/-- formatting with a mapping -/
theorem fmtMap_spec : ∀ (ps : List Piece) (kv : List (List Char × List Char)), litsBenign ps →
    (∀ p ∈ kv, SafeOk p.2) →
    (∀ s, fmtMap ps kv = .ok s →
      SafeOk s ∧ fmtMap ps (kv.map fun p => (p.1, unescape p.2)) = .ok (unescape s)) ∧
    (∀ e, fmtMap ps kv = .error e → fmtMap ps (kv.map fun p => (p.1, unescape p.2)) = .error e) := by
  intro ps
  induction ps with
  | nil =>
    intro kv _ _
    exact ⟨by intro s h; simp [fmtMap] at h; subst h; exact ⟨SafeOk.nil, by simp [fmtMap, unescape_nil]⟩,
      by intro e h; simp [fmtMap] at h⟩
  | cons p ps ih =>
    intro kv hl ha
    have hl' : litsBenign ps := fun l h => hl l (List.mem_cons_of_mem _ h)
    obtain ⟨i1, i2⟩ := ih kv hl' ha
    cases p with
    | lit l =>
      obtain ⟨hls, hlu⟩ := benign_safe l (hl l (by simp))
      constructor
      · intro s h
        simp only [fmtMap] at h
        cases hr : fmtMap ps kv with
        | error e => simp [hr, Except.map] at h
        | ok r =>
          simp only [hr, Except.map, Except.ok.injEq] at h
          subst h
          obtain ⟨j1, j2⟩ := i1 r hr
          exact ⟨SafeOk.append hls j1, by simp [fmtMap, j2, Except.map, unescape_append_safe hls j1, hlu]⟩
      · intro e h
        simp only [fmtMap] at h
        cases hr : fmtMap ps kv with
        | error e' =>
          simp only [hr, Except.map, Except.error.injEq] at h
          subst h
          simp [fmtMap, i2 e' hr, Except.map]
        | ok r => simp [hr, Except.map] at h
    | pct =>
      have hp : SafeOk ['%'] ∧ unescape ['%'] = ['%'] := benign_safe ['%'] (by simp)
      constructor
      · intro s h
        simp only [fmtMap] at h
        cases hr : fmtMap ps kv with
        | error e => simp [hr, Except.map] at h
        | ok r =>
          simp only [hr, Except.map, Except.ok.injEq] at h
          subst h
          obtain ⟨j1, j2⟩ := i1 r hr
          have := unescape_append_safe hp.1 j1
          simp only [List.cons_append, List.nil_append] at this
          exact ⟨by simpa using SafeOk.append hp.1 j1, by simp [fmtMap, j2, Except.map, this, hp.2]⟩
      · intro e h
        simp only [fmtMap] at h
        cases hr : fmtMap ps kv with
        | error e' =>
          simp only [hr, Except.map, Except.error.injEq] at h
          subst h
          simp [fmtMap, i2 e' hr, Except.map]
        | ok r => simp [hr, Except.map] at h
    | arg => exact ⟨by intro s h; simp [fmtMap] at h, by intro e h; simpa [fmtMap] using h⟩
    | key k =>
      constructor
      · intro s h
        simp only [fmtMap] at h
        cases hk : lookupKey k kv with
        | none => simp [hk] at h
        | some v =>
          obtain ⟨q, hq, hqv⟩ := lookupKey_mem k kv v hk
          have hv : SafeOk v := hqv ▸ ha q hq
          simp only [hk] at h
          cases hr : fmtMap ps kv with
          | error e => simp [hr, Except.map] at h
          | ok r =>
            simp only [hr, Except.map, Except.ok.injEq] at h
            subst h
            obtain ⟨j1, j2⟩ := i1 r hr
            exact ⟨SafeOk.append hv j1,
              by simp [fmtMap, lookupKey_map, hk, j2, Except.map, unescape_append_safe hv j1]⟩
      · intro e h
        simp only [fmtMap] at h
        cases hk : lookupKey k kv with
        | none =>
          simp only [hk, Except.error.injEq] at h
          subst h
          simp [fmtMap, lookupKey_map, hk]
        | some v =>
          simp only [hk] at h
          cases hr : fmtMap ps kv with
          | error e' =>
            simp only [hr, Except.map, Except.error.injEq] at h
            subst h
            simp [fmtMap, lookupKey_map, hk, i2 e' hr, Except.map]
          | ok r => simp [hr, Except.map] at h

def benign (f : List Char) : Prop := ∀ c ∈ f, c ≠ '&' ∧ c ≠ '<' ∧ c ≠ '>'

theorem benign_of_B (f : List Char) (h : benignB f = true) : benign f := by
  intro c hc
  have := (List.all_eq_true.mp h) c hc
  simpa [not_or, and_assoc] using this

/-- every operand is a str, a Markup or an `__html__` object, and safe ones are escaped text -/
def FArgsDom (env : Env) : FArgs → Prop
  | .one a => opndOk (evalAtom env a) = true ∧ scalarOkB (evalAtom env a) = true
  | .tup as => ∀ a ∈ as, opndOk (evalAtom env a) = true ∧ scalarOkB (evalAtom env a) = true
  | .map kvs => ∀ p ∈ kvs, opndOk (evalAtom env p.2) = true ∧ scalarOkB (evalAtom env p.2) = true

/-- `Markup(f) % args` for a format string without `& < >`: the result is escaped text, and
    decoded it is the plain formatting of the operands' own text -/
theorem mMod_spec (env : Env) (f : List Char) (args : FArgs) (hf : benign f) (hargs : FArgsDom env args) :
    (∀ s, mMod escapePy f (evalFArgs env args) = .ok s →
      SafeOk s ∧ mMod (fun _ s => s) f (specFArgs env args) = .ok (unescape s)) ∧
    (∀ e, mMod escapePy f (evalFArgs env args) = .error e →
      mMod (fun _ s => s) f (specFArgs env args) = .error e) := by
  unfold mMod
  cases hp : parseFmt (f.length + 1) f [] with
  | none => exact ⟨by intro s h; simp at h, by intro e h; simpa using h⟩
  | some ps =>
    have hl : litsBenign ps := parseFmt_lits _ _ f [] ps hp hf (by simp)
    cases args with
    | one a =>
      obtain ⟨h1, h2⟩ := opnd_spec _ hargs.1 hargs.2 true
      have := fmtPos_spec ps [escOpnd escapePy true (toOpnd (evalAtom env a))] hl (by simpa using h1)
      simp only [List.map_cons, List.map_nil, h2] at this
      simpa [evalFArgs, specFArgs, escOpnd] using this
    | tup as =>
      have hall : ∀ x ∈ as.map (fun a => escOpnd escapePy true (toOpnd (evalAtom env a))), SafeOk x := by
        intro x hx
        obtain ⟨a, ha, rfl⟩ := List.mem_map.mp hx
        exact (opnd_spec _ (hargs a ha).1 (hargs a ha).2 true).1
      have := fmtPos_spec ps _ hl hall
      have hmap : (as.map fun a => escOpnd escapePy true (toOpnd (evalAtom env a))).map unescape
          = as.map fun a => opndText (evalAtom env a) := by
        rw [List.map_map]
        apply List.map_congr_left
        intro a ha
        exact (opnd_spec _ (hargs a ha).1 (hargs a ha).2 true).2
      rw [hmap] at this
      simpa [evalFArgs, specFArgs, escOpnd, List.map_map, Function.comp_def] using this
    | map kvs =>
      have hall : ∀ p ∈ kvs.map (fun p => (p.1, escOpnd escapePy true (toOpnd (evalAtom env p.2)))), SafeOk p.2 := by
        intro x hx
        obtain ⟨p, hp', rfl⟩ := List.mem_map.mp hx
        exact (opnd_spec _ (hargs p hp').1 (hargs p hp').2 true).1
      have := fmtMap_spec ps _ hl hall
      have hmap : (kvs.map fun p => (p.1, escOpnd escapePy true (toOpnd (evalAtom env p.2)))).map
            (fun p => (p.1, unescape p.2))
          = kvs.map fun p => (p.1, opndText (evalAtom env p.2)) := by
        rw [List.map_map]
        apply List.map_congr_left
        intro p hp'
        simp [(opnd_spec _ (hargs p hp').1 (hargs p hp').2 true).2]
      rw [hmap] at this
      simpa [evalFArgs, specFArgs, escOpnd, List.map_map, Function.comp_def] using this

/-! ### every text site -/

theorem site_spec (m : Method) (env : Env) (e : SExpr) (hs : sexprOkB m e = true)
    (hd : siteOk env e = true) (he : EnvOk env) :
    StreamOk m (evalSite env e) ∧ TEq (evalSite env e) (expectedSite env e) := by
  cases e with
  | v e =>
    have hv := evalV_ok env e (by simpa [sexprOkB] using hs) he
    exact ⟨flattenVal_streamOk m _ hv, by simpa [evalSite, expectedSite] using flattenVal_teq (evalV env e)⟩
  | add mk a =>
    simp only [sexprOkB, Bool.and_eq_true] at hs
    have hx := evalAtom_ok env a hs.2 he
    obtain ⟨o1, o2⟩ := opnd_spec (evalAtom env a) (by simpa [siteOk, atomOk] using hd) hx true
    have hm := safeOk_of_B mk hs.1
    simp only [evalSite, markupOp, mAdd, expectedSite]
    exact safe_text_spec m _ _ (SafeOk.append hm o1) (by rw [unescape_append_safe hm o1, o2]; rfl)
  | radd mk a =>
    simp only [sexprOkB, Bool.and_eq_true] at hs
    have hx := evalAtom_ok env a hs.2 he
    obtain ⟨o1, o2⟩ := opnd_spec (evalAtom env a) (by simpa [siteOk, atomOk] using hd) hx true
    have hm := safeOk_of_B mk hs.1
    simp only [evalSite, markupOp, mRadd, expectedSite]
    exact safe_text_spec m _ _ (SafeOk.append o1 hm) (by rw [unescape_append_safe o1 hm, o2]; rfl)
  | esc a q =>
    have hx := evalAtom_ok env a (by simpa [sexprOkB] using hs) he
    obtain ⟨o1, o2⟩ := opnd_spec (evalAtom env a) (by simpa [siteOk, atomOk] using hd) hx q
    simp only [evalSite, markupOp, expectedSite]
    exact safe_text_spec m _ _ o1 o2
  | join sep items =>
    simp only [sexprOkB, Bool.and_eq_true] at hs
    have hsep := safeOk_of_B sep hs.1
    have hitems : ∀ a ∈ items, SafeOk (escOpnd escapePy true (toOpnd (evalAtom env a))) ∧
        unescape (escOpnd escapePy true (toOpnd (evalAtom env a))) = opndText (evalAtom env a) := by
      intro a ha
      have hx := evalAtom_ok env a ((List.all_eq_true.mp hs.2) a ha) he
      have hdo : opndOk (evalAtom env a) = true := by
        have := (List.all_eq_true.mp (by simpa [siteOk] using hd)) a ha
        simpa [atomOk] using this
      exact opnd_spec _ hdo hx true
    obtain ⟨j1, j2⟩ := join_spec sep hsep (items.map fun a => escOpnd escapePy true (toOpnd (evalAtom env a)))
      (by intro x hx; obtain ⟨a, ha, rfl⟩ := List.mem_map.mp hx; exact (hitems a ha).1)
    simp only [evalSite, markupOp, mJoin, expectedSite, List.map_map, Function.comp_def] at j1 j2 ⊢
    refine safe_text_spec m _ _ j1 ?_
    rw [j2]
    congr 1
    apply List.map_congr_left
    intro a ha
    exact (hitems a ha).2
  | fmt f args =>
    simp only [sexprOkB, Bool.and_eq_true] at hs
    have hf := benign_of_B f hs.1
    simp only [siteOk, Bool.and_eq_true] at hd
    have hargs : FArgsDom env args := by
      have hs2 := hs.2
      have hd1 := hd.1
      cases args with
      | one a => exact ⟨by simpa [fargsAtomsOk, atomOk] using hd1, evalAtom_ok env a (by simpa [fargsOkB] using hs2) he⟩
      | tup as =>
        intro a ha
        have h1 := (List.all_eq_true.mp (show (as.all (atomOk env)) = true from hd1)) a ha
        have h2 := (List.all_eq_true.mp (show (as.all atomOkB) = true from hs2)) a ha
        exact ⟨h1, evalAtom_ok env a h2 he⟩
      | map kvs =>
        intro p hp
        have h1 := (List.all_eq_true.mp (show (kvs.all fun p => atomOk env p.2) = true from hd1)) p hp
        have h2 := (List.all_eq_true.mp (show (kvs.all fun p => atomOkB p.2) = true from hs2)) p hp
        exact ⟨h1, evalAtom_ok env p.2 h2 he⟩
    obtain ⟨m1, m2⟩ := mMod_spec env f args hf hargs
    simp only [evalSite, markupOp, expectedSite]
    cases hr : mMod escapePy f (evalFArgs env args) with
    | ok s =>
      obtain ⟨k1, k2⟩ := m1 s hr
      simp only [k2]
      exact safe_text_spec m _ _ k1 rfl
    | error e =>
      simp only [m2 e hr]
      exact ⟨StreamOk.nil m, TEq.refl _⟩
  | fmtp ps as => simp [sexprOkB] at hs
  | build b =>
    simpa [evalSite, expectedSite] using bkid_spec m env he b (by simpa [sexprOkB] using hs)
  | frag kids =>
    simpa [evalSite, expectedSite] using bkids_spec m env he kids (by simpa [sexprOkB] using hs)

/-! ### template bodies -/

theorem itemsOf_ok (v : Val) (h : valOkB v = true) : ∀ x ∈ itemsOf v, scalarOkB x = true := by
  cases v with
  | one x => intro y hy; simp [itemsOf] at hy
  | many xs => intro y hy; exact (List.all_eq_true.mp h) y hy

theorem flatMap_spec (m : Method) (xs : List Scalar) (f g : Scalar → List Ev)
    (h : ∀ x ∈ xs, StreamOk m (f x) ∧ TEq (f x) (g x)) :
    StreamOk m (xs.flatMap f) ∧ TEq (xs.flatMap f) (xs.flatMap g) := by
  induction xs with
  | nil => exact ⟨StreamOk.nil m, TEq.refl _⟩
  | cons x xs ih =>
    obtain ⟨h1, h2⟩ := h x (by simp)
    obtain ⟨i1, i2⟩ := ih fun y hy => h y (List.mem_cons_of_mem _ hy)
    simp only [List.flatMap_cons]
    exact ⟨StreamOk.append h1 i1, TEq.append h2 i2⟩

mutual
  theorem node_spec (m : Method) : ∀ (n : Node) (env : Env), nodeOkB m n = true → nodeOk env n = true →
      EnvOk env → StreamOk m (renderNode env n) ∧ TEq (renderNode env n) (expectedNode env n)
    | .lit s, env, _, _, _ => by
        simpa [renderNode, expectedNode] using
          (⟨StreamOk.text m s false (by simp), TEq.refl _⟩ :
            StreamOk m [.text s false] ∧ TEq [.text s false] [.text s false])
    | .site e, env, hs, hd, he => by
        simpa [renderNode, expectedNode] using site_spec m env e (by simpa [nodeOkB] using hs)
          (by simpa [nodeOk] using hd) he
    | .el t attrs pa kids, env, hs, hd, he => by
        simp only [nodeOkB, Bool.and_eq_true] at hs
        obtain ⟨⟨⟨⟨ht, ha⟩, hpa⟩, hvoid⟩, hk⟩ := hs
        obtain ⟨k1, k2⟩ := list_spec m kids env hk (by simpa [nodeOk] using hd) he
        have hattrs : ∀ p ∈ attrs, attrNameOkB m p.1 = true := by
          intro p hp
          have := (List.all_eq_true.mp ha) p hp
          simp only [Bool.and_eq_true] at this
          exact this.1
        have hv : openOk m t = true ∨ renderList env kids = [] := by
          simp only [Bool.or_eq_true] at hvoid
          rcases hvoid with h | h
          · exact Or.inl h
          · right
            have : kids = [] := by simpa using h
            subst this; simp [renderList]
        cases pa with
        | none =>
          simp only [renderNode, expectedNode]
          exact ⟨StreamOk.wrap t _ ht (evalAttrs_ok m env attrs hattrs) hv k1, TEq.wrap t _ k2⟩
        | some items =>
          simp only [renderNode, expectedNode]
          have hnames := applyPyAttrs_names m env attrs items hattrs (by
            intro p hp
            have := (List.all_eq_true.mp hpa) p hp
            simp only [Bool.and_eq_true] at this
            exact this.1)
          exact ⟨StreamOk.wrap t _ ht (evalAttrs_ok m env _ hnames) hv k1, TEq.wrap t _ k2⟩
    | .loop e kids, env, hs, hd, he => by
        simp only [nodeOkB, Bool.and_eq_true] at hs
        have hv := evalV_ok env e hs.1 he
        have hx := itemsOf_ok _ hv
        simp only [nodeOk, List.all_eq_true] at hd
        simp only [renderNode, expectedNode]
        apply flatMap_spec
        intro x hxm
        exact list_spec m kids (x :: env) hs.2 (hd x hxm) (EnvOk.cons (hx x hxm) he)
    | .bind a kids, env, hs, hd, he => by
        simp only [nodeOkB, Bool.and_eq_true] at hs
        simpa [renderNode, expectedNode] using
          list_spec m kids (evalAtom env a :: env) hs.2 (by simpa [nodeOk] using hd)
            (EnvOk.cons (evalAtom_ok env a hs.1 he) he)
    | .cond b kids, env, hs, hd, he => by
        cases b with
        | false => exact ⟨by simpa [renderNode] using StreamOk.nil m, by simpa [renderNode, expectedNode] using TEq.refl []⟩
        | true =>
          simpa [renderNode, expectedNode] using
            list_spec m kids env (by simpa [nodeOkB] using hs) (by simpa [nodeOk] using hd) he
  theorem list_spec (m : Method) : ∀ (ns : List Node) (env : Env), nodesOkB m ns = true → listOk env ns = true →
      EnvOk env → StreamOk m (renderList env ns) ∧ TEq (renderList env ns) (expectedList env ns)
    | [], _, _, _, _ => by simpa [renderList, expectedList] using (⟨StreamOk.nil m, TEq.refl _⟩ : StreamOk m [] ∧ TEq [] [])
    | n :: ns, env, hs, hd, he => by
        simp only [nodesOkB, Bool.and_eq_true] at hs
        simp only [listOk, Bool.and_eq_true] at hd
        obtain ⟨h1, h2⟩ := node_spec m n env hs.1 hd.1 he
        obtain ⟨i1, i2⟩ := list_spec m ns env hs.2 hd.2 he
        simp only [renderList, expectedList]
        exact ⟨StreamOk.append h1 i1, TEq.append h2 i2⟩
end

end Genshi.Subst

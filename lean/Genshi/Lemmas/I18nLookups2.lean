/-
  C19 — look-ups ⊆ extraction including message directives of the plain kind
  (`<t i18n:msg="…">content without nested directives</t>` whose buffer can be built):
  the look-ups of the translation pass *and* the message ids looked up while rendering.
-/
import Genshi.Lemmas.I18nMsgLookup
namespace Genshi.I18n
open Genshi

/-- `START … END` with SUB-free content whose message buffer can be built -/
def goodMsgBody (ps : List Str) : List TEvent → Bool
  | .start _ _ :: rest =>
      match rest.getLast? with
      | some last => last.isEnd && noSubList rest.dropLast &&
          (match mbAppendList (MB.new ps) rest.dropLast with | .ok _ => true | .error _ => false)
      | none => false
  | _ => false

/-- the element form `<i18n:msg params="…">content</i18n:msg>`: SUB-free content that neither
    starts with a START nor ends with a START / END event (finding C19-msg-element-first-child)
    and whose message buffer can be built -/
def goodElemBody (ps : List Str) : List TEvent → Bool
  | [] => false
  | first :: rest =>
      !first.isStart && !(rest.getLast?.getD first).isEnd && !(rest.getLast?.getD first).isStart &&
        noSubList (first :: rest) &&
        (match mbAppendList (MB.new ps) (first :: rest) with | .ok _ => true | .error _ => false)

mutual
  /-- every SUB event either carries no message directive, or is a plain `i18n:msg` (attribute
      or element form) -/
  def okMsgEv : TEvent → Bool
    | .sub ds b =>
        (match ds with
         | [.msg ps] => goodMsgBody ps b || goodElemBody ps b
         | _ => false) || (!hasExtractable ds && okMsgList b)
    | _ => true
  def okMsgList : List TEvent → Bool
    | [] => true
    | e :: es => okMsgEv e && okMsgList es
end

mutual
  /-- the message ids the message directives of the stream look up while rendering (the
      stream they see differs from the template's in attributes only: `msgId_sameShape`) -/
  def msgIdsEv : TEvent → List Str
    | .sub ds b =>
        (match ds with
         | [.msg ps] => (match msgId ps b with | .ok (some id) => [id] | _ => [])
         | _ => []) ++ (if hasExtractable ds then [] else msgIdsList b)
    | _ => []
  def msgIdsList : List TEvent → List Str
    | [] => []
    | e :: es => msgIdsEv e ++ msgIdsList es
end

/-- all these ids are extracted -/
def Has (ms : List Message) (ids : List Str) : Prop := ∀ id ∈ ids, id ∈ idsOf ms

theorem Has.nil (ms : List Message) : Has ms [] := fun _ h => by simp at h

theorem Has.append {a b : List Message} {ia ib : List Str} (ha : Has a ia) (hb : Has b ib) : Has (a ++ b) (ia ++ ib) := by
  intro id hid
  rw [idsOf_append]
  simp only [List.mem_append] at hid ⊢
  rcases hid with h | h
  · exact Or.inl (ha id h)
  · exact Or.inr (hb id h)

theorem Has.right {a b : List Message} {ids : List Str} (hb : Has b ids) : Has (a ++ b) ids := by
  have := Has.append (Has.nil a) hb; simpa using this

theorem Has.mono {a b : List Message} {ids : List Str} (ha : Has a ids) (hab : ∀ x ∈ a, x ∈ b) : Has b ids := by
  intro id hid
  have := ha id hid
  simp only [idsOf, List.mem_flatMap] at this ⊢
  obtain ⟨m, hm, h⟩ := this
  exact ⟨m, hab m hm, h⟩

/-! ### the message directive itself -/

theorem startAttrs_of_appendAll (cfg : Cfg) (st : Bool) : ∀ (evs : List TEvent) (b : MB) r,
    appendAll cfg st b evs = .ok r → r.1 = evs.flatMap (evMessages cfg st)
  | [], b, r, h => by simp [appendAll, pure, Except.pure] at h; subst h; rfl
  | e :: es, b, r, h => by
      simp only [appendAll, bind, Except.bind] at h
      cases hb : mbAppend b e with
      | error err => simp [hb] at h
      | ok b1 =>
        simp only [hb] at h
        cases hr : appendAll cfg st b1 es with
        | error err => simp [hr] at h
        | ok r1 =>
          simp only [hr, pure, Except.pure, Except.ok.injEq] at h
          subst h
          simp [startAttrs_of_appendAll cfg st es b1 r1 hr]

/-- attribute look-ups of the pass in a SUB-free stream are covered by the attribute messages
    of all its START events (the directive extracts them without looking at `ignore_tags`) -/
theorem incl_attrs_list (cfg : Cfg) (ctx : Ctx) (ta st : Bool) (hta : ta = true → st = true) :
    ∀ (evs : List TEvent) (skip : Nat), noSubList evs = true →
      Incl (evs.flatMap (evMessages cfg st)) (lkList cfg ctx false ta skip evs)
  | [], skip, _ => by cases skip <;> simp [lkList, Incl.nil]
  | e :: es, skip, h => by
      simp only [noSubList, List.all_cons, Bool.and_eq_true] at h
      have ih := fun k => incl_attrs_list cfg ctx ta st hta es k (by simpa [noSubList] using h.2)
      simp only [List.flatMap_cons]
      cases skip with
      | succ k => simp only [lkList]; exact Incl.right (ih _)
      | zero =>
        cases e with
        | start t a =>
          simp only [lkList, evMessages]
          split
          · exact Incl.right (ih _)
          · exact Incl.append (incl_attrs cfg ctx ta st hta a) (ih _)
        | sub d b => simp at h
        | text s => simp only [lkList, evMessages, List.nil_append, Bool.false_and, Bool.false_eq_true, ↓reduceIte]; exact ih _
        | end_ t => simp only [lkList, evMessages, List.nil_append]; exact ih _
        | expr i m => simp only [lkList, evMessages]; exact Incl.right (ih _)
        | exec m => simp only [lkList, evMessages, List.nil_append]; exact ih _
        | other l => simp only [lkList, evMessages, List.nil_append]; exact ih _

theorem dropLast_append_last' {α} : ∀ (rest : List α) (last : α), rest.getLast? = some last →
    rest = rest.dropLast ++ [last]
  | [], _, hl => by simp at hl
  | [x], last, hl => by simp at hl; simp [hl]
  | x :: y :: ys, last, hl => by
      rw [List.getLast?_cons_cons] at hl
      have := dropLast_append_last' (y :: ys) last hl
      simp only [List.dropLast_cons_cons, List.cons_append]
      rw [← this]

/-- a plain message directive: extraction succeeds, covers the attribute look-ups of the pass
    inside the message and the message id looked up while rendering -/
theorem msg_sub (cfg : Cfg) (ps : List Str) (body : List TEvent) (hg : goodMsgBody ps body = true)
    (st : Bool) (cs xs : List Str) :
    ∃ ms, exSub cfg st cs xs (.sub [.msg ps] body) = .ok ms ∧
      (∀ (ctx : Ctx) (ta : Bool), (ta = true → st = true) → Incl ms (lkSub cfg ctx ta (.sub [.msg ps] body))) ∧
      Has ms (msgIdsEv (.sub [.msg ps] body)) := by
  -- shape of the body
  cases body with
  | nil => simp [goodMsgBody] at hg
  | cons first rest =>
    cases first with
    | start t a =>
      simp only [goodMsgBody] at hg
      cases hl : rest.getLast? with
      | none => simp [hl] at hg
      | some last =>
        simp only [hl, Bool.and_eq_true] at hg
        obtain ⟨⟨hend, hns⟩, hok⟩ := hg
        have hrest : rest = rest.dropLast ++ [last] := dropLast_append_last' rest last hl
        cases hb : mbAppendList (MB.new ps) rest.dropLast with
        | error err => simp [hb] at hok
        | ok b =>
          have hall := appendAll_buffer cfg st rest.dropLast (MB.new ps)
          rw [hb] at hall
          cases ha : appendAll cfg st (MB.new ps) rest.dropLast with
          | error err => rw [ha] at hall; simp [Except.map] at hall
          | ok r =>
            rw [ha] at hall
            simp only [Except.map, Except.ok.injEq] at hall
            obtain ⟨m, hm, hid⟩ := contextify_none_ok b.format (lastSlice cs) (lastSlice xs)
            have hrne : rest ≠ [] := by intro h; subst h; simp at hl
            have hmsg : msgExtract cfg ps st cs xs (.start t a :: rest) =
                .ok (startAttrs cfg st (.start t a) ++ r.1 ++ [m]) := by
              simp only [msgExtract, TEvent.isStart, ↓reduceIte]
              cases hr : rest with
              | nil => exact absurd hr hrne
              | cons x y =>
                rw [← hr]
                simp only [ha, bind, Except.bind]
                rw [show r.2 = b from hall]
                simp [hm, pure, Except.pure]
            refine ⟨startAttrs cfg st (.start t a) ++ r.1 ++ [m], ?_, ?_, ?_⟩
            · -- the two loops over the directive list `[msg]`
              simp [exSub, subLoop1, Dir.isI18n, subLoop2, hmsg, bind, Except.bind, pure, Except.pure]
            · intro ctx ta hta
              simp only [lkSub, hasExtractable, List.any_cons, Dir.isExtractable, List.any_nil, Bool.or_false,
                Bool.not_true, Bool.and_false]
              have hperm : (reorder [Dir.msg ps]).dirs = [Dir.msg ps] := by simp [reorder, reorderGo]
              have hpush : (reorder [Dir.msg ps]).pushed = [] := by simp [reorder, reorderGo]
              simp only [hperm, hpush, List.nil_append, List.any_cons, Dir.isExtractable, List.any_nil, Bool.or_false,
                Bool.not_true, Bool.and_false]
              have hattr := startAttrs_of_appendAll cfg st rest.dropLast (MB.new ps) r ha
              -- look-ups in `START :: dropLast ++ [last]`: the last event is an END
              have hns' : noSubList (.start t a :: rest) = true := by
                rw [hrest]
                simp only [noSubList, List.all_cons, List.all_append, Bool.and_eq_true] at hns ⊢
                refine ⟨trivial, hns, ?_⟩
                cases last <;> simp [TEvent.isEnd] at hend ⊢
              have := incl_attrs_list cfg ctx (cfg.extractText && ta) st
                (fun h => hta (by simp only [Bool.and_eq_true] at h; exact h.2)) (.start t a :: rest) 0 hns'
              refine Incl.mono this ?_
              intro x hx
              rw [hrest] at hx
              simp only [List.flatMap_cons, List.flatMap_append, List.mem_append] at hx
              rw [hattr]
              simp only [List.mem_append]
              rcases hx with hx | hx | hx
              · exact Or.inl (Or.inl (by simpa [evMessages, startAttrs] using hx))
              · exact Or.inl (Or.inr hx)
              · cases last <;> simp [TEvent.isEnd] at hend
                simp [evMessages] at hx
            · intro id hid
              simp only [msgIdsEv, hasExtractable, List.any_cons, Dir.isExtractable, List.any_nil, Bool.or_false,
                ↓reduceIte, List.append_nil] at hid
              have hmid : msgId ps (.start t a :: rest) = .ok (some b.format) := by
                rw [msgId_eq ps _ (by simp)]
                have : msgBody (.start t a :: rest) = rest.dropLast := by
                  simp [msgBody, TEvent.isStart, hl, hend]
                rw [this, hb]; rfl
              rw [hmid] at hid
              simp only [List.mem_singleton] at hid
              subst hid
              rw [idsOf_append]
              simp only [List.mem_append]
              right
              simp [idsOf, hid]
    | _ => simp [goodMsgBody] at hg


theorem exSub_msg (cfg : Cfg) (ps : List Str) (body : List TEvent) (st : Bool) (cs xs : List Str) :
    exSub cfg st cs xs (.sub [.msg ps] body) = msgExtract cfg ps st cs xs body := by
  simp only [exSub, List.length_cons, List.length_nil, subLoop1, List.getElem?_cons_zero, Dir.isI18n, ↓reduceIte,
    bind, Except.bind, pure, Except.pure]
  cases hm : msgExtract cfg ps st cs xs body <;>
    simp [subLoop1, subLoop2, bind, Except.bind, pure, Except.pure, hm]

theorem evMessages_not_start (cfg : Cfg) (st : Bool) (e : TEvent) (h : e.isStart = false) :
    evMessages cfg st e = exprCode e := by
  cases e <;> simp_all [evMessages, exprCode, TEvent.isStart]

/-- what `MsgDirective.extract` returns for the element form -/
theorem msgExtract_elem (cfg : Cfg) (ps : List Str) (first : TEvent) (rest : List TEvent)
    (hg : goodElemBody ps (first :: rest) = true) (st : Bool) (cs xs : List Str) :
    ∃ B m, mbAppendList (MB.new ps) (first :: rest) = .ok B ∧
      contextify none (.one (some B.format)) (lastSlice cs) (lastSlice xs) = some m ∧ B.format ∈ msgIds m ∧
      msgExtract cfg ps st cs xs (first :: rest) = .ok ((first :: rest).flatMap (evMessages cfg st) ++ [m]) ∧
      msgId ps (first :: rest) = .ok (some B.format) := by
  simp only [goodElemBody, Bool.and_eq_true, Bool.not_eq_true'] at hg
  obtain ⟨⟨⟨⟨hf, hle⟩, hls⟩, hns⟩, hok⟩ := hg
  cases hB : mbAppendList (MB.new ps) (first :: rest) with
  | error err => simp [hB] at hok
  | ok B =>
    obtain ⟨m, hm, hid⟩ := contextify_none_ok B.format (lastSlice cs) (lastSlice xs)
    refine ⟨B, m, rfl, hm, hid, ?_, ?_⟩
    · -- split the stream into its initial part and its last event
      have hsplit : ∃ init last, first :: rest = init ++ [last] ∧ (first :: rest).dropLast = init ∧
          (first :: rest).getLast?.getD first = last ∧ rest.getLast?.getD first = last := by
        cases hl : rest.getLast? with
        | none =>
          have : rest = [] := by simpa using hl
          subst this
          exact ⟨[], first, rfl, rfl, rfl, rfl⟩
        | some last =>
          have hr := dropLast_append_last' rest last hl
          have hne : rest ≠ [] := by intro h; subst h; simp at hl
          refine ⟨first :: rest.dropLast, last, by rw [List.cons_append, ← hr], ?_, ?_, rfl⟩
          · cases rest with
            | nil => exact absurd rfl hne
            | cons x y => simp
          · rw [List.getLast?_cons_of_ne_nil hne, hl]; rfl
      obtain ⟨init, last, hs, hdl, hgl, hgl'⟩ := hsplit
      rw [hgl'] at hle hls
      rw [hs, mbAppendList_append'] at hB
      cases hb : mbAppendList (MB.new ps) init with
      | error err => rw [hb] at hB; simp [Except.bind] at hB
      | ok b =>
        rw [hb] at hB
        simp only [Except.bind, mbAppendList_single'] at hB
        have hall := appendAll_buffer cfg st init (MB.new ps)
        rw [hb] at hall
        cases ha : appendAll cfg st (MB.new ps) init with
        | error err => rw [ha] at hall; simp [Except.map] at hall
        | ok r =>
          rw [ha] at hall
          simp only [Except.map, Except.ok.injEq] at hall
          have hattr := startAttrs_of_appendAll cfg st init (MB.new ps) r ha
          unfold msgExtract
          simp only [hf, Bool.false_eq_true, ↓reduceIte, hdl, hgl, ha, bind, Except.bind]
          rw [show r.2 = b from hall, hB]
          simp only [hm, pure, Except.pure, Except.ok.injEq]
          rw [hs, List.flatMap_append, hattr]
          simp [evMessages_not_start cfg st last hls]
    · rw [msgId_eq ps _ (by simp)]
      have : msgBody (first :: rest) = first :: rest := by
        simp only [msgBody, hf, Bool.false_eq_true, ↓reduceIte]
        cases hl : rest.getLast? with
        | none =>
          have : rest = [] := by simpa using hl
          subst this; rfl
        | some last =>
          rw [hl] at hle
          simp only [Option.getD_some] at hle
          simp only [hle, Bool.false_eq_true, ↓reduceIte]
          rw [← dropLast_append_last' rest last hl]; rfl
      rw [this, hB]; rfl

/-- the element form of the message directive in the simultaneous induction -/
theorem msg_sub_elem (cfg : Cfg) (ps : List Str) (body : List TEvent) (hg : goodElemBody ps body = true)
    (st : Bool) (cs xs : List Str) :
    ∃ ms, exSub cfg st cs xs (.sub [.msg ps] body) = .ok ms ∧
      (∀ (ctx : Ctx) (ta : Bool), (ta = true → st = true) → Incl ms (lkSub cfg ctx ta (.sub [.msg ps] body))) ∧
      Has ms (msgIdsEv (.sub [.msg ps] body)) := by
  cases body with
  | nil => simp [goodElemBody] at hg
  | cons first rest =>
    obtain ⟨B, m, hB, hm, hid, hex, hmid⟩ := msgExtract_elem cfg ps first rest hg st cs xs
    have hns : noSubList (first :: rest) = true := by
      simp only [goodElemBody, Bool.and_eq_true] at hg; exact hg.1.2
    refine ⟨_, by rw [exSub_msg]; exact hex, ?_, ?_⟩
    · intro ctx ta hta
      simp only [lkSub, hasExtractable, List.any_cons, Dir.isExtractable, List.any_nil, Bool.or_false,
        Bool.not_true, Bool.and_false]
      have hperm : (reorder [Dir.msg ps]).dirs = [Dir.msg ps] := by simp [reorder, reorderGo]
      have hpush : (reorder [Dir.msg ps]).pushed = [] := by simp [reorder, reorderGo]
      simp only [hperm, hpush, List.nil_append, List.any_cons, Dir.isExtractable, List.any_nil, Bool.or_false,
        Bool.not_true, Bool.and_false]
      have := incl_attrs_list cfg ctx (cfg.extractText && ta) st
        (fun h => hta (by simp only [Bool.and_eq_true] at h; exact h.2)) (first :: rest) 0 hns
      exact Incl.mono this (fun x hx => List.mem_append_left _ hx)
    · intro id hid'
      simp only [msgIdsEv, hasExtractable, List.any_cons, Dir.isExtractable, List.any_nil, Bool.or_false,
        ↓reduceIte, List.append_nil, hmid, List.mem_singleton] at hid'
      subst hid'
      rw [idsOf_append]
      simp only [List.mem_append]
      right
      simp [idsOf, hid]

theorem Has.cons {m : Message} {b : List Message} {ids : List Str} (hb : Has b ids) : Has (m :: b) ids :=
  Has.right (a := [m]) hb

theorem msgIdsEv_noext (dirs : List Dir) (body : List TEvent) (h : hasExtractable dirs = false) :
    msgIdsEv (.sub dirs body) = msgIdsList body := by
  simp only [msgIdsEv, h, Bool.false_eq_true, ↓reduceIte]
  match dirs, h with
  | [], _ => simp
  | [.msg ps], h => simp [hasExtractable, Dir.isExtractable] at h
  | [.domain _], _ | [.comment _], _ | [.ctxt _], _ | [.choose _], _ | [.singular], _ | [.plural], _
  | [.strip], _ | [.other _], _ => simp
  | _ :: _ :: _, _ => simp

mutual
  theorem ex_lk2_sub (cfg : Cfg) : ∀ (e : TEvent), okMsgEv e = true → ∀ (st : Bool) (cs xs : List Str),
      ∃ ms, exSub cfg st cs xs e = .ok ms ∧
        ((cfg.extractText && st) = cfg.extractText → ∀ (ctx : Ctx) (ta : Bool), (ta = true → cfg.extractText = true) →
          Incl ms (lkSub cfg ctx ta e)) ∧ Has ms (msgIdsEv e)
    | .sub dirs body, h, st, cs, xs => by
        simp only [okMsgEv, Bool.or_eq_true, Bool.and_eq_true, Bool.not_eq_true'] at h
        rcases h with h | h
        · -- a plain message directive
          match dirs, h with
          | [.msg ps], h =>
            have hsub : ∃ ms, exSub cfg st cs xs (.sub [.msg ps] body) = .ok ms ∧
                (∀ (ctx : Ctx) (ta : Bool), (ta = true → st = true) → Incl ms (lkSub cfg ctx ta (.sub [.msg ps] body))) ∧
                Has ms (msgIdsEv (.sub [.msg ps] body)) := by
              simp only [Bool.or_eq_true] at h
              rcases h with h | h
              · exact msg_sub cfg ps body h st cs xs
              · exact msg_sub_elem cfg ps body h st cs xs
            obtain ⟨ms, hms, hincl, hhas⟩ := hsub
            refine ⟨ms, hms, fun hst ctx ta hta => hincl ctx ta (fun hta' => ?_), hhas⟩
            have he := hta hta'
            rw [he] at hst
            simpa using hst
        · have ih := ex_lk2_list cfg body h.2
          have hex : Total (fun cs' xs' => exList cfg (cfg.extractText && st) cs' xs' 0 body) := fun cs' xs' => by
            obtain ⟨m, hm, _⟩ := ih 0 (cfg.extractText && st) cs' xs'; exact ⟨m, hm⟩
          obtain ⟨out, hout, cs', xs', m, hm, hsub⟩ := exSub_cover cfg st cs xs dirs body h.1 hex
          obtain ⟨m', hm', hincl, hhas⟩ := ih 0 (cfg.extractText && st) cs' xs'
          have hm2 : exList cfg (cfg.extractText && st) cs' xs' 0 body = .ok m := hm
          have hmm : m' = m := by rw [hm'] at hm2; exact Except.ok.inj hm2
          subst hmm
          refine ⟨out, hout, fun hst ctx ta hta => ?_, ?_⟩
          · simp only [lkSub]
            have hperm : hasExtractable (reorder dirs).dirs = false := by
              rw [hasExtractable_perm (reorder_perm dirs)]; exact h.1
            refine Incl.mono (hincl hst _ _ _ ?_ ?_) hsub
            · intro ht; simp only [Bool.and_eq_true] at ht; exact ht.1
            · intro ht; simp only [Bool.and_eq_true] at ht; exact ht.1
          · rw [msgIdsEv_noext dirs body h.1]
            exact Has.mono hhas hsub
    | .start _ _, _, _, _, _ => ⟨[], rfl, fun _ _ _ _ => by simp [lkSub, Incl.nil], by simp [msgIdsEv, Has.nil]⟩
    | .end_ _, _, _, _, _ => ⟨[], rfl, fun _ _ _ _ => by simp [lkSub, Incl.nil], by simp [msgIdsEv, Has.nil]⟩
    | .text _, _, _, _, _ => ⟨[], rfl, fun _ _ _ _ => by simp [lkSub, Incl.nil], by simp [msgIdsEv, Has.nil]⟩
    | .expr _ _, _, _, _, _ => ⟨[], rfl, fun _ _ _ _ => by simp [lkSub, Incl.nil], by simp [msgIdsEv, Has.nil]⟩
    | .exec _, _, _, _, _ => ⟨[], rfl, fun _ _ _ _ => by simp [lkSub, Incl.nil], by simp [msgIdsEv, Has.nil]⟩
    | .other _, _, _, _, _ => ⟨[], rfl, fun _ _ _ _ => by simp [lkSub, Incl.nil], by simp [msgIdsEv, Has.nil]⟩
  theorem ex_lk2_list (cfg : Cfg) : ∀ (s : List TEvent), okMsgList s = true → ∀ (skip : Nat) (st : Bool) (cs xs : List Str),
      ∃ ms, exList cfg st cs xs skip s = .ok ms ∧
        Joint cfg st ms (fun ctx tt ta => lkList cfg ctx tt ta skip s) ∧ Has ms (msgIdsList s)
    | [], _, skip, st, cs, xs => ⟨[], by simp [exList, pure, Except.pure], fun _ _ _ _ _ _ => by
        cases skip <;> simp [lkList, Incl.nil], by simp [msgIdsList, Has.nil]⟩
    | e :: es, h, skip, st, cs, xs => by
        simp only [okMsgList, Bool.and_eq_true] at h
        have ihs := ex_lk2_list cfg es h.2
        cases skip with
        | succ k =>
          cases e with
          | start tag attrs =>
            obtain ⟨ms, hms, hj, hh⟩ := ihs (k + 2) st cs xs
            refine ⟨extractAttrs cfg false attrs ++ ms, by simp [exList, hms, bind, Except.bind, pure, Except.pure],
              fun hst ctx tt ta htt hta => ?_, by simpa [msgIdsList, msgIdsEv] using Has.right hh⟩
            have := hj hst ctx tt ta htt hta
            simp only [lkList, skipStep]
            exact Incl.right (by simpa using this)
          | end_ tag =>
            obtain ⟨ms, hms, hj, hh⟩ := ihs k st cs xs
            refine ⟨ms, by simp [exList, hms], fun hst ctx tt ta htt hta => ?_, by simpa [msgIdsList, msgIdsEv] using hh⟩
            simpa [lkList, skipStep] using hj hst ctx tt ta htt hta
          | text t =>
            obtain ⟨ms, hms, hj, hh⟩ := ihs (k + 1) st cs xs
            refine ⟨ms, by simp [exList, hms, bind, Except.bind, pure, Except.pure], fun hst ctx tt ta htt hta => ?_,
              by simpa [msgIdsList, msgIdsEv] using hh⟩
            simpa [lkList, skipStep] using hj hst ctx tt ta htt hta
          | expr i cm =>
            obtain ⟨ms, hms, hj, hh⟩ := ihs (k + 1) st cs xs
            refine ⟨codeMessages cm ++ ms, by simp [exList, hms, bind, Except.bind, pure, Except.pure],
              fun hst ctx tt ta htt hta => ?_, by simpa [msgIdsList, msgIdsEv] using Has.right hh⟩
            have := hj hst ctx tt ta htt hta
            simp only [lkList, skipStep]
            exact Incl.right this
          | exec cm =>
            obtain ⟨ms, hms, hj, hh⟩ := ihs (k + 1) st cs xs
            refine ⟨codeMessages cm ++ ms, by simp [exList, hms, bind, Except.bind, pure, Except.pure],
              fun hst ctx tt ta htt hta => ?_, by simpa [msgIdsList, msgIdsEv] using Has.right hh⟩
            have := hj hst ctx tt ta htt hta
            simp only [lkList, skipStep]
            exact Incl.right this
          | sub dirs body =>
            obtain ⟨ms, hms, hj, hh⟩ := ihs (k + 1) st cs xs
            obtain ⟨ms0, hms0, _, hh0⟩ := ex_lk2_sub cfg (.sub dirs body) h.1 false cs xs
            refine ⟨ms0 ++ ms, by simp only [exList]; simp [hms, hms0, bind, Except.bind, pure, Except.pure],
              fun hst ctx tt ta htt hta => ?_, by simpa [msgIdsList] using Has.append hh0 hh⟩
            have := hj hst ctx tt ta htt hta
            simp only [lkList, skipStep]
            exact Incl.right this
          | other l =>
            obtain ⟨ms, hms, hj, hh⟩ := ihs (k + 1) st cs xs
            refine ⟨ms, by simp [exList, hms], fun hst ctx tt ta htt hta => ?_, by simpa [msgIdsList, msgIdsEv] using hh⟩
            simpa [lkList, skipStep] using hj hst ctx tt ta htt hta
        | zero =>
          cases e with
          | start tag attrs =>
            by_cases hx : excluded cfg tag attrs = true
            · obtain ⟨ms, hms, hj, hh⟩ := ihs 1 st cs xs
              refine ⟨extractAttrs cfg false attrs ++ ms, by simp [exList, hx, hms, bind, Except.bind, pure, Except.pure],
                fun hst ctx tt ta htt hta => ?_, by simpa [msgIdsList, msgIdsEv] using Has.right hh⟩
              have := hj hst ctx tt ta htt hta
              simp only [lkList, hx, ↓reduceIte]
              exact Incl.right (by simpa using this)
            · obtain ⟨ms, hms, hj, hh⟩ := ihs 0 st cs xs
              refine ⟨extractAttrs cfg st attrs ++ ms, by simp [exList, hx, hms, bind, Except.bind, pure, Except.pure],
                fun hst ctx tt ta htt hta => ?_, by simpa [msgIdsList, msgIdsEv] using Has.right hh⟩
              simp only [lkList, hx, Bool.false_eq_true, ↓reduceIte]
              exact Incl.append (incl_attrs cfg ctx ta st (fun h' => by rw [hst]; exact hta h') attrs)
                (hj hst ctx tt ta htt hta)
          | end_ tag =>
            obtain ⟨ms, hms, hj, hh⟩ := ihs 0 st cs xs
            refine ⟨ms, by simp [exList, hms], fun hst ctx tt ta htt hta => ?_, by simpa [msgIdsList, msgIdsEv] using hh⟩
            simpa [lkList] using hj hst ctx tt ta htt hta
          | text t =>
            obtain ⟨ms, hms, hj, hh⟩ := ihs 0 st cs xs
            by_cases hc : (st && !(strip t).isEmpty && hasLetter (strip t)) = true
            · obtain ⟨m, hm, hid⟩ := contextify_none_ok (strip t) (lastSlice cs) (lastSlice xs)
              refine ⟨m :: ms, ?_, fun hst ctx tt ta htt hta => ?_, by simpa [msgIdsList, msgIdsEv] using Has.cons hh⟩
              · simp only [Bool.and_eq_true] at hc
                have hst1 := hc.1.1
                subst hst1
                simp [exList, hms, bind, Except.bind, pure, Except.pure, hc.1.2, hc.2, hm]
              · simp only [lkList]
                have hrest := hj hst ctx tt ta htt hta
                refine Incl.append (a := [m]) ?_ hrest
                intro l hl
                split at hl
                · simp only [List.mem_singleton] at hl; subst hl
                  left; simp [idsOf, hid]
                · simp at hl
            · refine ⟨ms, ?_, fun hst ctx tt ta htt hta => ?_, by simpa [msgIdsList, msgIdsEv] using hh⟩
              · simp only [exList]
                simp [hms, bind, Except.bind, pure, Except.pure]
                intro h1 h2 h3
                simp [h1, h2, h3] at hc
              · simp only [lkList]
                have hrest := hj hst ctx tt ta htt hta
                have := Incl.append (a := []) (la := if (tt && !(strip t).isEmpty) = true then
                    [⟨(boundKey ctx).1, (boundKey ctx).2, strip t⟩] else []) ?_ hrest
                · simpa using this
                · intro l hl
                  split at hl
                  · rename_i hlk
                    simp only [List.mem_singleton] at hl; subst hl
                    right
                    simp only [Bool.and_eq_true, Bool.not_eq_true'] at hlk
                    have hste : st = true := by rw [hst]; exact htt hlk.1
                    cases hl' : hasLetter (strip t) with
                    | false => rfl
                    | true => simp [hste, hlk.2, hl'] at hc
                  · simp at hl
          | expr i cm =>
            obtain ⟨ms, hms, hj, hh⟩ := ihs 0 st cs xs
            refine ⟨codeMessages cm ++ ms, by simp [exList, hms, bind, Except.bind, pure, Except.pure],
              fun hst ctx tt ta htt hta => ?_, by simpa [msgIdsList, msgIdsEv] using Has.right hh⟩
            simp only [lkList]
            exact Incl.right (hj hst ctx tt ta htt hta)
          | exec cm =>
            obtain ⟨ms, hms, hj, hh⟩ := ihs 0 st cs xs
            refine ⟨codeMessages cm ++ ms, by simp [exList, hms, bind, Except.bind, pure, Except.pure],
              fun hst ctx tt ta htt hta => ?_, by simpa [msgIdsList, msgIdsEv] using Has.right hh⟩
            simp only [lkList]
            exact Incl.right (hj hst ctx tt ta htt hta)
          | sub dirs body =>
            obtain ⟨ms, hms, hj, hh⟩ := ihs 0 st cs xs
            obtain ⟨ms0, hms0, hj0, hh0⟩ := ex_lk2_sub cfg (.sub dirs body) h.1 st cs xs
            refine ⟨ms0 ++ ms, by simp only [exList]; simp [hms, hms0, bind, Except.bind, pure, Except.pure],
              fun hst ctx tt ta htt hta => ?_, by simpa [msgIdsList] using Has.append hh0 hh⟩
            simp only [lkList]
            refine Incl.append (hj0 ?_ ctx ta hta) (hj hst ctx tt ta htt hta)
            simp [hst]
          | other l =>
            obtain ⟨ms, hms, hj, hh⟩ := ihs 0 st cs xs
            refine ⟨ms, by simp [exList, hms], fun hst ctx tt ta htt hta => ?_, by simpa [msgIdsList, msgIdsEv] using hh⟩
            simpa [lkList] using hj hst ctx tt ta htt hta
end

/-- **lookups ⊆ extraction, text, attributes and plain message directives** -/
theorem lookups_subset_extract_msgs (cfg : Cfg) (ctx : Ctx) (s : TStream) (h : okMsgList s = true) :
    ∃ ms, extract cfg s = .ok ms ∧
      (∀ l ∈ lookups cfg ctx true true s, hasLetter l.msgid = true → l.msgid ∈ idsOf ms) ∧
      (∀ id ∈ msgIdsList s, id ∈ idsOf ms) := by
  obtain ⟨ms, hms, hj, hh⟩ := ex_lk2_list cfg s h 0 cfg.extractText [] []
  refine ⟨ms, hms, fun l hl hlet => ?_, hh⟩
  have := hj rfl ctx (cfg.extractText && true) (cfg.extractText && true) (by simp) (by simp) l (by simpa [lookups] using hl)
  rcases this with h1 | h1
  · exact h1
  · rw [hlet] at h1; cases h1

end Genshi.I18n

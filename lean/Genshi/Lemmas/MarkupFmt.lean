/-
  C18 (wave 4) — `Markup.__mod__` on concrete format strings `l0 %s l1 %s … ln`: the parser of
  the model reads them as the literals interleaved with `%s`, and formatting fills in the
  operands in order.
-/
import Genshi.Lemmas.MarkupOps
set_option linter.unusedSimpArgs false
namespace Genshi.MarkupOps
open Genshi.Str Genshi.Escape

/-- the format string `l0 %s l1 %s … ln` -/
def fmtOf : List Str → Str
  | [] => []
  | [l] => l
  | l :: l' :: ls => l ++ '%' :: 's' :: fmtOf (l' :: ls)

/-- the literals with the operands filled in, in order -/
def interleave : List Str → List Str → Str
  | [], _ => []
  | [l], _ => l
  | l :: l' :: ls, [] => l
  | l :: l' :: ls, a :: as => l ++ a ++ interleave (l' :: ls) as

def litP (l : Str) : List Piece := if l.isEmpty then [] else [Piece.lit l]

/-- the pieces of `fmtOf lits` when the parser has already accumulated `pre` -/
def piecesOf (pre : Str) : List Str → List Piece
  | [] => litP pre
  | [l] => litP (pre ++ l)
  | l :: l' :: ls => litP (pre ++ l) ++ Piece.arg Conv.s :: piecesOf [] (l' :: ls)

theorem parseFmt_nil (f : Nat) (acc : Str) : parseFmt (f + 1) [] acc = some (litP acc.reverse) := by
  simp [parseFmt, litP]

theorem parseFmt_lit_char (f : Nat) (c : Char) (rest acc : Str) (hc : c ≠ '%') :
    parseFmt (f + 1) (c :: rest) acc = parseFmt f rest (c :: acc) := by
  cases rest <;> simp [parseFmt, hc]

theorem parseFmt_lit : ∀ (l : Str) (f : Nat) (rest acc : Str), '%' ∉ l →
    parseFmt (f + l.length) (l ++ rest) acc = parseFmt f rest (l.reverse ++ acc) := by
  intro l
  induction l with
  | nil => intro f rest acc _; simp
  | cons c cs ih =>
    intro f rest acc h
    have hc : c ≠ '%' := fun e => h (by simp [e])
    have hcs : '%' ∉ cs := fun hm => h (by simp [hm])
    have : f + (c :: cs).length = (f + cs.length) + 1 := by simp; omega
    rw [this, List.cons_append, parseFmt_lit_char _ _ _ _ hc, ih f rest (c :: acc) hcs]
    simp

theorem parseFmt_pct_s (f : Nat) (r acc : Str) :
    parseFmt (f + 1) ('%' :: 's' :: r) acc =
      (parseFmt f r []).map (litP acc.reverse ++ [Piece.arg Conv.s] ++ ·) := by
  simp [parseFmt, conv?, litP]

theorem fmtOf_length_cons2 (l l' : Str) (ls : List Str) :
    (fmtOf (l :: l' :: ls)).length = l.length + 2 + (fmtOf (l' :: ls)).length := by
  simp [fmtOf]; omega

theorem parseFmt_fmtOf : ∀ (lits : List Str) (f : Nat) (acc : Str), (∀ l ∈ lits, '%' ∉ l) →
    (fmtOf lits).length < f → parseFmt f (fmtOf lits) acc = some (piecesOf acc.reverse lits) := by
  intro lits
  induction lits with
  | nil =>
    intro f acc _ hf
    cases f with
    | zero => simp at hf
    | succ f => simp [fmtOf, piecesOf, parseFmt_nil]
  | cons l ls ih =>
    intro f acc h hf
    have hl : '%' ∉ l := h l (by simp)
    cases ls with
    | nil =>
      simp only [fmtOf] at hf ⊢
      obtain ⟨k, rfl⟩ : ∃ k, f = (k + 1) + l.length := ⟨f - l.length - 1, by omega⟩
      have := parseFmt_lit l (k + 1) [] acc hl
      simp only [List.append_nil] at this
      rw [this, parseFmt_nil]
      simp [piecesOf]
    | cons l' ls' =>
      rw [fmtOf_length_cons2] at hf
      simp only [fmtOf]
      obtain ⟨k, rfl⟩ : ∃ k, f = (k + 1) + l.length := ⟨f - l.length - 1, by omega⟩
      rw [parseFmt_lit l (k + 1) _ acc hl, parseFmt_pct_s]
      rw [ih k [] (fun x hx => h x (by simp [hx])) (by omega)]
      simp [piecesOf]

theorem fmtPos_litP (l : Str) (ps : List Piece) (as : List Str) :
    fmtPos (litP l ++ ps) as = (fmtPos ps as).map (l ++ ·) := by
  unfold litP
  cases l with
  | nil => cases h : fmtPos ps as <;> simp [Except.map, h]
  | cons c cs => simp [fmtPos]

theorem fmtPos_piecesOf : ∀ (lits : List Str) (pre : Str) (as : List Str), lits.length = as.length + 1 →
    fmtPos (piecesOf pre lits) as = .ok (pre ++ interleave lits as) := by
  intro lits
  induction lits with
  | nil => intro pre as h; simp at h
  | cons l ls ih =>
    intro pre as h
    cases ls with
    | nil =>
      cases as with
      | nil =>
        have := fmtPos_litP (pre ++ l) [] []
        simp only [List.append_nil] at this
        simp [piecesOf, interleave, this, fmtPos, Except.map]
      | cons a as => simp at h
    | cons l' ls' =>
      cases as with
      | nil => simp at h
      | cons a as =>
        have h' : (l' :: ls').length = as.length + 1 := by simpa using h
        simp only [piecesOf, fmtPos_litP, fmtPos, convert, interleave]
        have := ih [] as h'
        simp only [List.nil_append] at this
        simp [this, Except.map, bind, Except.bind, pure, Except.pure]

/-! ### mapping formats `l0 %(k1)s l1 … %(kn)s ln` -/

def fmtOfK : List Str → List Str → Str
  | [], _ => []
  | [l], _ => l
  | l :: _ :: _, [] => l
  | l :: l' :: ls, k :: ks => l ++ ('%' :: '(' :: (k ++ ')' :: 's' :: fmtOfK (l' :: ls) ks))

def piecesOfK (pre : Str) : List Str → List Str → List Piece
  | [], _ => litP pre
  | [l], _ => litP (pre ++ l)
  | l :: _ :: _, [] => litP (pre ++ l)
  | l :: l' :: ls, k :: ks => litP (pre ++ l) ++ Piece.key k Conv.s :: piecesOfK [] (l' :: ls) ks

theorem takeKey_key : ∀ (k rest acc : Str), '(' ∉ k → ')' ∉ k →
    takeKey (k ++ ')' :: 's' :: rest) acc = some (acc.reverse ++ k, Conv.s, rest) := by
  intro k
  induction k with
  | nil => intro rest acc _ _; simp [takeKey, conv?]
  | cons c cs ih =>
    intro rest acc h1 h2
    have hc1 : c ≠ '(' := fun e => h1 (by simp [e])
    have hc2 : c ≠ ')' := fun e => h2 (by simp [e])
    have hcs1 : '(' ∉ cs := fun hm => h1 (by simp [hm])
    have hcs2 : ')' ∉ cs := fun hm => h2 (by simp [hm])
    have step : takeKey (c :: (cs ++ ')' :: 's' :: rest)) acc = takeKey (cs ++ ')' :: 's' :: rest) (c :: acc) := by
      cases cs with
      | nil => simp [takeKey, hc1, hc2]
      | cons d ds => simp [takeKey, hc1, hc2]
    rw [List.cons_append, step, ih rest (c :: acc) hcs1 hcs2]
    simp

theorem parseFmt_pct_key (f : Nat) (k r acc : Str) (h1 : '(' ∉ k) (h2 : ')' ∉ k) :
    parseFmt (f + 1) ('%' :: '(' :: (k ++ ')' :: 's' :: r)) acc =
      (parseFmt f r []).map (litP acc.reverse ++ [Piece.key k Conv.s] ++ ·) := by
  simp [parseFmt, takeKey_key k r [] h1 h2, litP]

theorem fmtOfK_length_cons2 (l l' k : Str) (ls ks : List Str) :
    (fmtOfK (l :: l' :: ls) (k :: ks)).length = l.length + 4 + k.length + (fmtOfK (l' :: ls) ks).length := by
  simp [fmtOfK]; omega

theorem parseFmt_fmtOfK : ∀ (lits ks : List Str) (f : Nat) (acc : Str), (∀ l ∈ lits, '%' ∉ l) →
    (∀ k ∈ ks, '(' ∉ k ∧ ')' ∉ k) → lits.length = ks.length + 1 →
    (fmtOfK lits ks).length < f → parseFmt f (fmtOfK lits ks) acc = some (piecesOfK acc.reverse lits ks) := by
  intro lits
  induction lits with
  | nil => intro ks f acc _ _ hlen; simp at hlen
  | cons l ls ih =>
    intro ks f acc h hk hlen hf
    have hl : '%' ∉ l := h l (by simp)
    cases ls with
    | nil =>
      simp only [fmtOfK] at hf ⊢
      obtain ⟨k, rfl⟩ : ∃ k, f = (k + 1) + l.length := ⟨f - l.length - 1, by omega⟩
      have := parseFmt_lit l (k + 1) [] acc hl
      simp only [List.append_nil] at this
      rw [this, parseFmt_nil]
      simp [piecesOfK]
    | cons l' ls' =>
      cases ks with
      | nil => simp at hlen
      | cons k ks' =>
        have hk' := hk k (by simp)
        rw [fmtOfK_length_cons2] at hf
        simp only [fmtOfK]
        obtain ⟨j, rfl⟩ : ∃ j, f = (j + 1) + l.length := ⟨f - l.length - 1, by omega⟩
        rw [parseFmt_lit l (j + 1) _ acc hl, parseFmt_pct_key _ _ _ _ hk'.1 hk'.2]
        rw [ih ks' j [] (fun x hx => h x (by simp [hx])) (fun x hx => hk x (by simp [hx]))
          (by simpa using hlen) (by omega)]
        simp [piecesOfK]

theorem fmtMap_litP (l : Str) (ps : List Piece) (m : List (Str × Str)) :
    fmtMap (litP l ++ ps) m = (fmtMap ps m).map (l ++ ·) := by
  unfold litP
  cases l with
  | nil => cases h : fmtMap ps m <;> simp [Except.map, h]
  | cons c cs => simp [fmtMap]

theorem fmtMap_piecesOfK (m : List (Str × Str)) : ∀ (lits : List Str) (pre : Str) (ks : List Str),
    lits.length = ks.length + 1 → (∀ k ∈ ks, (lookupKey k m).isSome) →
    fmtMap (piecesOfK pre lits ks) m =
      .ok (pre ++ interleave lits (ks.map fun k => (lookupKey k m).getD [])) := by
  intro lits
  induction lits with
  | nil => intro pre ks h; simp at h
  | cons l ls ih =>
    intro pre ks h hk
    cases ls with
    | nil =>
      have := fmtMap_litP (pre ++ l) [] m
      simp only [List.append_nil] at this
      simp [piecesOfK, interleave, this, fmtMap, Except.map]
    | cons l' ls' =>
      cases ks with
      | nil => simp at h
      | cons k ks' =>
        have h' : (l' :: ls').length = ks'.length + 1 := by simpa using h
        obtain ⟨v, hv⟩ := Option.isSome_iff_exists.mp (hk k (by simp))
        simp only [piecesOfK, fmtMap_litP, fmtMap, hv, convert, interleave, List.map_cons, Option.getD_some]
        have := ih [] ks' h' (fun x hx => hk x (by simp [hx]))
        simp only [List.nil_append] at this
        simp [this, Except.map, bind, Except.bind, pure, Except.pure]


end Genshi.MarkupOps

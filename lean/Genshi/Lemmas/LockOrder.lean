/-
  C16 — lemmas about the model with several re-entrant locks (`Genshi/Model/LockOrder.lean`):
  the invariant (every thread keeps the discipline `ok`, no lock has two holders) and progress.
-/
import Genshi.Model.LockOrder
namespace Genshi.LockOrder

theorem freeFor_iff (g : G) (t : Tid) (l : Lock) :
    freeFor g t l = true ↔ ∀ u, u < g.n → u ≠ t → l ∉ (g.threads u).held := by
  unfold freeFor
  rw [List.all_eq_true]
  constructor
  · intro h u hu hne hmem
    have := h u (List.mem_range.mpr hu)
    simp only [Bool.or_eq_true, beq_iff_eq, Bool.not_eq_true', List.contains_eq_mem, decide_eq_false_iff_not] at this
    rcases this with h1 | h1
    · exact hne h1
    · exact h1 hmem
  · intro h u hu
    have hu' := List.mem_range.mp hu
    by_cases hut : u = t
    · simp [hut]
    · have := h u hu' hut
      simp [this]

/-- every thread keeps the lock discipline from where it is, and no lock has two holders -/
structure LInv (lt : Lock → Lock → Bool) (g : G) : Prop where
  okAll : ∀ t, t < g.n → ok lt (g.threads t).held (g.threads t).prog = true
  excl : ∀ t u l, t < g.n → u < g.n → l ∈ (g.threads t).held → l ∈ (g.threads u).held → t = u

theorem linv_init (lt : Lock → Lock → Bool) (progs : List (List Act))
    (h : ∀ p ∈ progs, ok lt [] p = true) : LInv lt (G.init progs) := by
  refine ⟨?_, ?_⟩
  · intro t ht
    have ht' : t < progs.length := ht
    simp only [G.init]
    have e : progs.getD t [] = progs[t] := by simp [List.getD, ht']
    rw [e]
    exact h _ (List.getElem_mem ht')
  · intro t u l _ _ hl _
    simp [G.init] at hl

theorem step_n {g g' : G} {t : Tid} (hs : step g t = some g') : g'.n = g.n := by
  unfold step at hs
  split at hs
  · split at hs
    · cases hs
    · split at hs
      · cases hs; rfl
      · cases hs
    · cases hs; rfl
  · cases hs

theorem linv_step {lt : Lock → Lock → Bool} {g g' : G} {t : Tid} (h : LInv lt g)
    (hs : step g t = some g') : LInv lt g' := by
  unfold step at hs
  by_cases ht : t < g.n
  · simp only [ht, ↓reduceIte] at hs
    cases hp : (g.threads t).prog with
    | nil => simp [hp] at hs
    | cons a rest =>
      have hok := h.okAll t ht
      rw [hp] at hok
      cases a with
      | acq l =>
        simp only [hp] at hs
        by_cases hfree : freeFor g t l = true
        · simp only [hfree, ↓reduceIte, Option.some.injEq] at hs
          subst hs
          have hfr := (freeFor_iff g t l).mp hfree
          simp only [ok, Bool.and_eq_true] at hok
          refine ⟨?_, ?_⟩
          · intro u hu
            by_cases hut : u = t
            · subst hut; simp only [setThread, ↓reduceIte]; exact hok.2
            · simp only [setThread, hut, ↓reduceIte]; exact h.okAll u hu
          · intro a b l' ha hb hla hlb
            simp only [setThread] at hla hlb
            by_cases hat : a = t
            · by_cases hbt : b = t
              · rw [hat, hbt]
              · exfalso
                simp only [hat, ↓reduceIte, List.mem_cons] at hla
                simp only [hbt, ↓reduceIte] at hlb
                rcases hla with rfl | hla
                · exact hfr b hb hbt hlb
                · exact hbt (h.excl t b l' ht hb hla hlb).symm
            · by_cases hbt : b = t
              · exfalso
                simp only [hbt, ↓reduceIte, List.mem_cons] at hlb
                simp only [hat, ↓reduceIte] at hla
                rcases hlb with rfl | hlb
                · exact hfr a ha hat hla
                · exact hat (h.excl a t l' ha ht hla hlb)
              · simp only [hat, ↓reduceIte] at hla
                simp only [hbt, ↓reduceIte] at hlb
                exact h.excl a b l' ha hb hla hlb
        · simp [hfree] at hs
      | rel l =>
        simp only [hp, Option.some.injEq] at hs
        subst hs
        simp only [ok, Bool.and_eq_true] at hok
        refine ⟨?_, ?_⟩
        · intro u hu
          by_cases hut : u = t
          · subst hut; simp only [setThread, ↓reduceIte]; exact hok.2
          · simp only [setThread, hut, ↓reduceIte]; exact h.okAll u hu
        · intro a b l' ha hb hla hlb
          simp only [setThread] at hla hlb
          have ea : l' ∈ (g.threads a).held := by
            by_cases hat : a = t
            · simp only [hat, ↓reduceIte] at hla; rw [hat]; exact List.mem_of_mem_erase hla
            · simpa only [hat, ↓reduceIte] using hla
          have eb : l' ∈ (g.threads b).held := by
            by_cases hbt : b = t
            · simp only [hbt, ↓reduceIte] at hlb; rw [hbt]; exact List.mem_of_mem_erase hlb
            · simpa only [hbt, ↓reduceIte] using hlb
          exact h.excl a b l' ha hb ea eb
  · simp [ht] at hs

theorem step_ge {g : G} {t : Tid} (h : ¬ t < g.n) : step g t = none := by
  simp [step, h]

theorem exec_n (g : G) (sched : List Tid) : (exec g sched).n = g.n := by
  induction sched generalizing g with
  | nil => rfl
  | cons t ts ih =>
    unfold exec
    cases hs : step g t with
    | none => exact ih g
    | some g' => simp only; rw [ih g', step_n hs]

theorem linv_exec {lt : Lock → Lock → Bool} {g : G} (h : LInv lt g) (sched : List Tid) :
    LInv lt (exec g sched) := by
  induction sched generalizing g with
  | nil => exact h
  | cons t ts ih =>
    unfold exec
    cases hs : step g t with
    | none => exact ih h
    | some g' => exact ih (linv_step h hs)

/-- a non-empty finite list has a maximal element of a strict partial order -/
theorem exists_maximal (lt : Lock → Lock → Bool) (irr : ∀ a, lt a a = false)
    (tr : ∀ a b c, lt a b = true → lt b c = true → lt a c = true) :
    ∀ (l : List Lock), l ≠ [] → ∃ a ∈ l, ∀ b ∈ l, lt a b = false
  | [], h => absurd rfl h
  | [x], _ => ⟨x, by simp, by intro b hb; simp at hb; subst hb; exact irr _⟩
  | x :: y :: rest, _ => by
    obtain ⟨a, ha, hmax⟩ := exists_maximal lt irr tr (y :: rest) (by simp)
    by_cases hax : lt a x = true
    · refine ⟨x, by simp, ?_⟩
      intro b hb
      rcases List.mem_cons.mp hb with rfl | hb
      · exact irr _
      · cases hxb : lt x b with
        | false => rfl
        | true => have := tr a x b hax hxb; rw [hmax b hb] at this; cases this
    · refine ⟨a, List.mem_cons_of_mem _ ha, ?_⟩
      intro b hb
      rcases List.mem_cons.mp hb with rfl | hb
      · simpa using hax
      · exact hmax b hb

/-- the locks the unfinished threads are about to acquire -/
def wanted (g : G) : List Lock :=
  (List.range g.n).filterMap fun u =>
    match (g.threads u).prog with
    | .acq l :: _ => some l
    | _ => none

theorem mem_wanted {g : G} {l : Lock} :
    l ∈ wanted g ↔ ∃ u, u < g.n ∧ ∃ rest, (g.threads u).prog = .acq l :: rest := by
  unfold wanted
  rw [List.mem_filterMap]
  constructor
  · rintro ⟨u, hu, h⟩
    refine ⟨u, List.mem_range.mp hu, ?_⟩
    split at h
    · rename_i l' rest heq
      simp only [Option.some.injEq] at h
      subst h
      exact ⟨rest, heq⟩
    · cases h
  · rintro ⟨u, hu, rest, h⟩
    exact ⟨u, List.mem_range.mpr hu, by rw [h]⟩

/-- what it means that thread `u` cannot step -/
theorem step_none {g : G} {u : Tid} (hu : u < g.n) (h : step g u = none) :
    (g.threads u).prog = [] ∨
    ∃ l rest, (g.threads u).prog = .acq l :: rest ∧
      ∃ v, v < g.n ∧ v ≠ u ∧ l ∈ (g.threads v).held := by
  unfold step at h
  simp only [hu, ↓reduceIte] at h
  cases hp : (g.threads u).prog with
  | nil => left; rfl
  | cons a rest =>
    right
    cases a with
    | rel l => simp [hp] at h
    | acq l =>
      simp only [hp] at h
      by_cases hfree : freeFor g u l = true
      · simp [hfree] at h
      · refine ⟨l, rest, rfl, ?_⟩
        rw [freeFor_iff] at hfree
        apply Classical.byContradiction
        intro hno
        apply hfree
        intro v hv hne hmem
        exact hno ⟨v, hv, hne, hmem⟩

/-- **progress**: under a strict partial order respected by every nested acquisition, as long
    as some thread is not finished some thread can take a step -/
theorem LInv.progress {lt : Lock → Lock → Bool} {g : G} (h : LInv lt g)
    (irr : ∀ a, lt a a = false) (tr : ∀ a b c, lt a b = true → lt b c = true → lt a c = true)
    {t : Tid} (ht : t < g.n) (hunf : (g.threads t).finished = false) :
    ∃ u, u < g.n ∧ (step g u).isSome = true := by
  by_cases hex : ∃ u, u < g.n ∧ (step g u).isSome = true
  · exact hex
  · exfalso
    have hnone : ∀ u, u < g.n → step g u = none := by
      intro u hu
      cases hs : step g u with
      | none => rfl
      | some g' => exact absurd ⟨u, hu, by rw [hs]; rfl⟩ hex
    -- thread t wants a lock
    have hw : wanted g ≠ [] := by
      rcases step_none ht (hnone t ht) with hp | ⟨l, rest, hp, _⟩
      · simp [Thread.finished, hp] at hunf
      · intro he
        have : l ∈ wanted g := mem_wanted.mpr ⟨t, ht, rest, hp⟩
        rw [he] at this; cases this
    obtain ⟨a, ha, hmax⟩ := exists_maximal lt irr tr (wanted g) hw
    obtain ⟨u, hu, rest, hpu⟩ := mem_wanted.mp ha
    rcases step_none hu (hnone u hu) with hp | ⟨l, rest', hp, v, hv, hvu, hlv⟩
    · rw [hpu] at hp; cases hp
    · rw [hpu] at hp
      simp only [List.cons.injEq, Act.acq.injEq] at hp
      obtain ⟨rfl, _⟩ := hp
      -- v holds `a`, so it is not finished; it is blocked too, on some `b`
      have hokv := h.okAll v hv
      rcases step_none hv (hnone v hv) with hpv | ⟨b, restv, hpv, x, hx, hxv, hbx⟩
      · rw [hpv] at hokv
        simp only [ok, List.isEmpty_iff] at hokv
        rw [hokv] at hlv; cases hlv
      · rw [hpv] at hokv
        simp only [ok, Bool.and_eq_true, Bool.or_eq_true, List.contains_eq_mem, decide_eq_true_eq,
          List.all_eq_true] at hokv
        rcases hokv.1 with hbv | hall
        · exact hxv (h.excl x v b hx hv hbx hbv)
        · have h1 := hall a hlv
          have h2 := hmax b (mem_wanted.mpr ⟨v, hv, restv, hpv⟩)
          rw [h1] at h2; cases h2

theorem byRank_irrefl (rank : Lock → Nat) (a : Lock) : byRank rank a a = false := by
  simp [byRank]

theorem byRank_trans (rank : Lock → Nat) (a b c : Lock) (h1 : byRank rank a b = true)
    (h2 : byRank rank b c = true) : byRank rank a c = true := by
  simp only [byRank, decide_eq_true_eq] at *
  omega

/-- `stuck` is the negation of progress -/
theorem stuck_false_of_progress {g : G}
    (h : ∀ t, t < g.n → (g.threads t).finished = false → ∃ u, u < g.n ∧ (step g u).isSome = true) :
    stuck g = false := by
  unfold stuck
  cases hany : (List.range g.n).any (fun t => !(g.threads t).finished) with
  | false => rfl
  | true =>
    rw [List.any_eq_true] at hany
    obtain ⟨t, ht, hf⟩ := hany
    obtain ⟨u, hu, hs⟩ := h t (List.mem_range.mp ht) (by simpa using hf)
    simp only [Bool.true_and]
    rw [Bool.eq_false_iff]
    intro hall
    rw [List.all_eq_true] at hall
    have := hall u (List.mem_range.mpr hu)
    cases hsu : step g u with
    | none => rw [hsu] at hs; cases hs
    | some g' => rw [hsu] at this; cases this

/-- with one lock the order does not matter: a balanced program over a single lock keeps the
    discipline for the empty order -/
theorem ok_single (l0 : Lock) (lt : Lock → Lock → Bool) :
    ∀ (prog : List Act) (held : List Lock), (∀ h ∈ held, h = l0) →
      (∀ a ∈ prog, a = .acq l0 ∨ a = .rel l0) → ok lt held prog = true →
      ok (fun _ _ => false) held prog = true
  | [], _, _, _, h => h
  | .acq l :: rest, held, hh, hp, h => by
    have hl : l = l0 := by
      rcases hp (.acq l) (by simp) with h1 | h1
      · cases h1; rfl
      · cases h1
    subst hl
    simp only [ok, Bool.and_eq_true] at h ⊢
    refine ⟨?_, ok_single l lt rest (l :: held) ?_ ?_ h.2⟩
    · cases held with
      | nil => simp
      | cons x xs => have := hh x (by simp); subst this; simp
    · intro x hx
      rcases List.mem_cons.mp hx with rfl | hx
      · rfl
      · exact hh x hx
    · intro a ha; exact hp a (List.mem_cons_of_mem _ ha)
  | .rel l :: rest, held, hh, hp, h => by
    simp only [ok, Bool.and_eq_true] at h ⊢
    refine ⟨h.1, ok_single l0 lt rest (held.erase l) ?_ ?_ h.2⟩
    · intro x hx; exact hh x (List.mem_of_mem_erase hx)
    · intro a ha; exact hp a (List.mem_cons_of_mem _ ha)

end Genshi.LockOrder

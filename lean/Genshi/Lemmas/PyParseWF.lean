/-
  C13 — the hypothesis of `parse_gen`: `WF e` ("a tree a Python parser can produce from source
  that the generator supports"), the fuel measure, and the facts about the generated operator
  tables (`decide` over the tables of the code under test and of the running CPython).
-/
import Genshi.Lemmas.PyParseBase
namespace Genshi.Py
open Genshi.Gen

/-! ### shapes -/

def isExpr : PyExpr → Bool
  | .name _ | .const _ | .boolOp _ _ | .binOp _ _ _ | .unaryOp _ _ | .lambda _ _ _ _ _ _ | .ifExp _ _ _
  | .dict _ | .listComp _ _ | .genExp _ _ | .yield_ _ | .compare _ _ | .call _ _ _ | .attribute _ _
  | .subscript _ _ | .list _ | .tuple _ => true
  | _ => false

def isElt : PyExpr → Bool
  | .starred _ => true
  | e => isExpr e

def isComp : PyExpr → Bool
  | .comp _ _ _ _ => true
  | _ => false

def isDItem : PyExpr → Bool
  | .dictItem (some _) _ => true
  | _ => false

def isCmp : PyExpr → Bool
  | .cmpRhs _ _ => true
  | _ => false

def isPlainParam : PyExpr → Bool
  | .param _ none _ => true
  | _ => false

def isVarParam : PyExpr → Bool
  | .param _ none none => true
  | _ => false

def isIntConst : PyExpr → Bool
  | .const ⟨.int, _⟩ => true
  | _ => false

def exprO : Option PyExpr → Bool
  | none => true
  | some x => isExpr x

abbrev IdentOK (s : Str) : Prop := isKeyword s = false

/-- constants as a parser produces them: the token text is `repr(value)` of a non-negative
    number / a string literal, and the kind is what the literal denotes -/
def ConstOK (c : Const) : Prop :=
  match c.kind with
  | .true_ => c.text = cs!"True"
  | .false_ => c.text = cs!"False"
  | .none_ => c.text = cs!"None"
  | .ellipsis => c.text = cs!"Ellipsis"
  | .str => strKind c.text = .str
  | .bytes => strKind c.text = .bytes
  | .int => wordNum c.text = [.num c.text] ∧ numKind c.text = .int ∧ (match c.text with | '-' :: _ => False | _ => True)
  | .float => wordNum c.text = [.num c.text] ∧ numKind c.text = .float ∧ (match c.text with | '-' :: _ => False | _ => True)
      ∧ Str.replace cs!"inf" AstGen.infStr c.text = c.text
  | .complex => wordNum c.text = [.num c.text] ∧ numKind c.text = .complex ∧ (match c.text with | '-' :: _ => False | _ => True)
      ∧ Str.replace cs!"inf" AstGen.infStr c.text = c.text

mutual
/-- well-formed and supported: the trees for which regeneration is claimed to be faithful -/
def WF : PyExpr → Prop
  | .name id => IdentOK id
  | .const c => ConstOK c
  | .boolOp op vs => (op = cs!"And" ∨ op = cs!"Or") ∧ 2 ≤ vs.length ∧ WFL vs ∧ vs.all isExpr = true
  | .binOp l op r => (lookup AstGen.binaryOperators op).isSome = true ∧ WF l ∧ WF r ∧ isExpr l = true ∧ isExpr r = true
  | .unaryOp op e => (lookup AstGen.unaryOperators op).isSome = true ∧ WF e ∧ isExpr e = true
  | .lambda po ar va ko ka body =>
      WFL po ∧ WFL ar ∧ WFO va ∧ WFL ko ∧ WFO ka ∧ WF body ∧ isExpr body = true
        ∧ po.all isPlainParam = true ∧ ar.all isPlainParam = true ∧ ko.all isPlainParam = true
        ∧ (∀ v, va = some v → isVarParam v = true) ∧ (∀ v, ka = some v → isVarParam v = true)
  | .ifExp t b o => WF t ∧ WF b ∧ WF o ∧ isExpr t = true ∧ isExpr b = true ∧ isExpr o = true
  | .dict items => WFL items ∧ items.all isDItem = true
  | .listComp elt gens => WF elt ∧ isExpr elt = true ∧ WFL gens ∧ gens ≠ [] ∧ gens.all isComp = true
  | .genExp elt gens => WF elt ∧ isExpr elt = true ∧ WFL gens ∧ gens ≠ [] ∧ gens.all isComp = true
  | .yield_ v => WFO v ∧ exprO v = true
  | .compare l rest => WF l ∧ isExpr l = true ∧ WFL rest ∧ rest ≠ [] ∧ rest.all isCmp = true
  | .call f args kws => WF f ∧ isExpr f = true ∧ WFL args ∧ args.all isElt = true ∧ WFL kws ∧ kws.all isKw = true
  | .attribute v a => WF v ∧ isExpr v = true ∧ IdentOK a ∧ isIntConst v = false
  | .subscript v s => WF v ∧ isExpr v = true ∧ WF s ∧ (isExpr s = true ∨ isSlice s = true)
  | .slice l u st => WFO l ∧ WFO u ∧ WFO st ∧ exprO l = true ∧ exprO u = true ∧ exprO st = true
  | .starred e => WF e ∧ isExpr e = true
  | .list elts => WFL elts ∧ elts.all isElt = true
  | .tuple elts => WFL elts ∧ elts.all isElt = true
  | .unsupported _ => False
  | .keyword n v => (∀ s, n = some s → IdentOK s) ∧ WF v ∧ isExpr v = true
  | .comp t it ifs _ => WF t ∧ isExpr t = true ∧ WF it ∧ isExpr it = true ∧ WFL ifs ∧ ifs.all isExpr = true
  | .param n ann d => IdentOK n ∧ WFO ann ∧ WFO d ∧ exprO ann = true ∧ exprO d = true
  | .dictItem k v => WFO k ∧ exprO k = true ∧ WF v ∧ isExpr v = true
  | .cmpRhs op e => (lookup AstGen.comparisonOperators op).isSome = true ∧ WF e ∧ isExpr e = true
def WFL : List PyExpr → Prop
  | [] => True
  | e :: es => WF e ∧ WFL es
def WFO : Option PyExpr → Prop
  | none => True
  | some e => WF e
end

/-- `Supported e`: an expression (not a helper node) that is well-formed -/
def Supported (e : PyExpr) : Prop := WF e ∧ isExpr e = true

/-! ### fuel -/

mutual
def sz : PyExpr → Nat
  | .name _ => 1
  | .const _ => 1
  | .boolOp _ vs => 1 + szL vs
  | .binOp l _ r => 1 + sz l + sz r
  | .unaryOp _ e => 1 + sz e
  | .lambda po ar va ko ka body => 9 + szL po + szL ar + szO va + szL ko + szO ka + sz body
  | .ifExp t b o => 1 + sz t + sz b + sz o
  | .dict items => 1 + szL items
  | .listComp elt gens => 1 + sz elt + szL gens
  | .genExp elt gens => 1 + sz elt + szL gens
  | .yield_ v => 1 + szO v
  | .compare l rest => 1 + sz l + szL rest
  | .call f args kws => 1 + sz f + szL args + szL kws
  | .attribute v _ => 1 + sz v
  | .subscript v s => 1 + sz v + sz s
  | .slice l u st => 1 + szO l + szO u + szO st
  | .starred e => 1 + sz e
  | .list elts => 1 + szL elts
  | .tuple elts => 1 + szL elts
  | .unsupported _ => 1
  | .keyword _ v => 1 + sz v
  | .comp t it ifs _ => 1 + sz t + sz it + szL ifs
  | .param _ ann d => 1 + szO ann + szO d
  | .dictItem k v => 1 + szO k + sz v
  | .cmpRhs _ e => 1 + sz e
def szL : List PyExpr → Nat
  | [] => 0
  | e :: es => 1 + sz e + szL es
def szO : Option PyExpr → Nat
  | none => 0
  | some e => 1 + sz e
end

/-- fuel that suffices to parse the regenerated tokens of `e` -/
def need (e : PyExpr) : Nat := 8 * sz e

/-- length of the trailer spine (attribute / call / subscript applications at the top) -/
def cS : PyExpr → Nat
  | .attribute v _ => cS v + 1
  | .call f _ _ => cS f + 1
  | .subscript v _ => cS v + 1
  | _ => 0

theorem sz_pos (e : PyExpr) : 1 ≤ sz e := by cases e <;> simp [sz] <;> omega

theorem cS_lt_sz (e : PyExpr) : cS e < sz e := by
  induction e using PyExpr.rec (motive_2 := fun _ => True) (motive_3 := fun _ => True) <;>
    simp_all [cS, sz] <;> omega

/-! ### table facts -/

theorem lookup_mem {tbl : List (Str × Str)} {k v : Str} (h : lookup tbl k = some v) : (k, v) ∈ tbl := by
  induction tbl with
  | nil => simp [lookup] at h
  | cons p r ih =>
    obtain ⟨a, b⟩ := p
    simp only [lookup] at h
    split at h
    · rename_i heq; cases h; subst heq; simp
    · simp [ih h]

/-- every operator-like visitor of the code under test parenthesises its output -/
theorem parens_all :
    parenthesised cs!"BoolOp" = true ∧ parenthesised cs!"BinOp" = true ∧ parenthesised cs!"UnaryOp" = true
    ∧ parenthesised cs!"Lambda" = true ∧ parenthesised cs!"IfExp" = true ∧ parenthesised cs!"Yield" = true
    ∧ parenthesised cs!"Compare" = true := by decide

/-- the binary operator table of the generator agrees with the grammar of the running CPython:
    the text is one operator token, `**` is `Pow`, every other text has a level and the same class -/
theorem binTable_ok :
    ∀ p ∈ AstGen.binaryOperators,
      symToks p.2 = [Tok.op p.2] ∧ stopsTrailer [Tok.op p.2] = true ∧
      ((p.2 = ['*', '*'] ∧ p.1 = cs!"Pow") ∨
       (p.2 ≠ ['*', '*'] ∧ (binLevel? p.2 Astgrammar.binLevels).map (·.1) = some p.1)) := by decide

theorem unTable_ok :
    ∀ p ∈ AstGen.unaryOperators,
      (p.1 = cs!"Not" ∧ symToks p.2 = [Tok.name cs!"not"]) ∨
      (p.1 ≠ cs!"Not" ∧ symToks p.2 = [Tok.op p.2] ∧ unarySym? p.2 Astgrammar.unaryOps = some p.1) := by decide

theorem boolTable_ok :
    opToks AstGen.boolOperators cs!"And" = [kw cs!"and"] ∧ opToks AstGen.boolOperators cs!"Or" = [kw cs!"or"] := by
  decide

end Genshi.Py

/-
  C11: the loader's cache of prepared templates only grows — by a preparation (successful or failed part-way),
  by a load, by replaying loads.
-/
import Genshi.Lemmas.InclIll
namespace Genshi.Incl

/-- every template prepared in `c` is prepared in `c'` -/
def Sub (c c' : Cache) : Prop := ∀ n, n ∈ c.map (·.1) → n ∈ c'.map (·.1)

theorem Sub.refl (c : Cache) : Sub c c := fun _ h => h
theorem Sub.trans {a b c : Cache} (h1 : Sub a b) (h2 : Sub b c) : Sub a c := fun n h => h2 n (h1 n h)
theorem Sub.cons (c : Cache) (e : Name × List Node) : Sub c (e :: c) := fun n h => by
  simp only [List.map_cons, List.mem_cons]; exact .inr h

def PJGrows (J : PJ) : Prop := ∀ inl name c r, J inl name c = .ok r → Sub c r.2

mutual
theorem prepN_grows (files : Files) {J : PJ} (hJ : PJGrows J) (inl : List Name) :
    ∀ (n : Node) (c : Cache) (r : List Node × Cache), prepN files J inl n c = .ok r → Sub c r.2
  | .text s, c, r, h => by cases h; exact Sub.refl _
  | .var x, c, r, h => by cases h; exact Sub.refl _
  | .call m, c, r, h => by cases h; exact Sub.refl _
  | .select, c, r, h => by cases h; exact Sub.refl _
  | .elem t b, c, r, h => by
    rw [prepN_elem] at h; obtain ⟨r0, h0, he⟩ := bind_wrap_ok (g := fun b' => [.elem t b']) h
    rw [he]; exact prepLg files hJ inl b c r0 h0
  | .cond cd b, c, r, h => by
    rw [prepN_cond] at h; obtain ⟨r0, h0, he⟩ := bind_wrap_ok (g := fun b' => [.cond cd b']) h
    rw [he]; exact prepLg files hJ inl b c r0 h0
  | .loop x xs b, c, r, h => by
    rw [prepN_loop] at h; obtain ⟨r0, h0, he⟩ := bind_wrap_ok (g := fun b' => [.loop x xs b']) h
    rw [he]; exact prepLg files hJ inl b c r0 h0
  | .defn m b, c, r, h => by
    rw [prepN_defn] at h; obtain ⟨r0, h0, he⟩ := bind_wrap_ok (g := fun b' => [.defn m b']) h
    rw [he]; exact prepLg files hJ inl b c r0 h0
  | .matchT t b, c, r, h => by
    rw [prepN_matchT] at h; obtain ⟨r0, h0, he⟩ := bind_wrap_ok (g := fun b' => [.matchT t b']) h
    rw [he]; exact prepLg files hJ inl b c r0 h0
  | .inlined b, c, r, h => by
    rw [prepN_inlined] at h; obtain ⟨r0, h0, he⟩ := bind_wrap_ok (g := fun b' => [.inlined b']) h
    rw [he]; exact prepLg files hJ inl b c r0 h0
  | .include (.dyn ps) cls hasFb fb pos, c, r, h => by
    rw [prepN_dyn] at h
    obtain ⟨r0, h0, he⟩ := bind_wrap_ok (g := fun b' => [.include (.dyn ps) cls hasFb b' pos]) h
    rw [he]; exact prepLg files hJ inl fb c r0 h0
  | .include (.static hh) cls hasFb fb pos, c, r, h => by
    rw [prepN_static] at h
    cases hres : resolve pos hh with
    | none => simp [hres] at h
    | some name =>
      simp only [hres] at h
      cases hfind : files.find name with
      | none =>
        simp only [hfind] at h
        cases hasFb with
        | true =>
          simp only [if_true] at h
          exact prepLg files hJ inl fb c r h
        | false =>
          simp only [Bool.false_eq_true, if_false] at h
          obtain ⟨r0, h0, he⟩ := bind_wrap_ok (g := fun b' => [.include (.static hh) cls false b' pos]) h
          rw [he]; exact prepLg files hJ inl fb c r0 h0
      | some f =>
        simp only [hfind] at h
        by_cases hk : f.kind = cls
        · simp only [hk, ne_eq, not_true_eq_false, if_false] at h
          cases hb : f.body with
          | none => simp [hb] at h
          | some body =>
            simp only [hb] at h
            by_cases hin : name ∈ inl
            · simp only [hin, if_true] at h
              obtain ⟨r0, h0, he⟩ := bind_wrap_ok (g := fun b' => [.include (.static hh) cls hasFb b' pos]) h
              rw [he]; exact prepLg files hJ inl fb c r0 h0
            · simp only [hin, if_false] at h
              obtain ⟨r0, h0, he⟩ := bind_wrap_ok (g := fun b' => [.inlined b']) h
              rw [he]; exact hJ _ _ _ _ h0
        · simp [hk] at h
termination_by structural n => n
theorem prepLg (files : Files) {J : PJ} (hJ : PJGrows J) (inl : List Name) :
    ∀ (ns : List Node) (c : Cache) (r : List Node × Cache), prepL files J inl ns c = .ok r → Sub c r.2
  | [], c, r, h => by cases h; exact Sub.refl _
  | n :: ns, c, r, h => by
    rw [prepL_cons] at h
    cases hn : prepN files J inl n c with
    | fuel => simp [hn] at h
    | err e => simp [hn] at h
    | ok r1 =>
      simp only [hn, Res.bind_ok] at h
      obtain ⟨r0, h0, he⟩ := bind_wrap_ok (g := fun b' => r1.1 ++ b') h
      rw [he]
      exact (prepN_grows files hJ inl n c r1 hn).trans (prepLg files hJ inl ns r1.2 r0 h0)
termination_by structural ns => ns
end

theorem prepT_grows (files : Files) : ∀ f : Nat, PJGrows (prepT files f)
  | 0 => by intro inl name c r h; simp [prepT] at h
  | f + 1 => by
    intro inl name c r h
    simp only [prepT] at h
    cases hl : c.lookup name with
    | some b => simp only [hl] at h; cases h; exact Sub.refl _
    | none =>
      simp only [hl] at h
      cases hfind : files.find name with
      | none => simp [hfind] at h
      | some ff =>
        obtain ⟨k, fb⟩ := ff
        cases fb with
        | none => simp [hfind] at h
        | some body =>
          simp only [hfind] at h
          cases hx : prepL files (prepT files f) inl body c with
          | fuel => simp [hx] at h
          | err e => simp [hx] at h
          | ok r0 =>
            simp only [hx, Res.bind_ok, Res.ok.injEq] at h
            rw [← h]
            exact (prepLg files (prepT_grows files f) inl body c r0 hx).trans (Sub.cons _ _)

def PCJGrows (JC : PCJ) : Prop := ∀ inl name c, Sub c (JC inl name c)

mutual
theorem pcN_grows (files : Files) {J : PJ} {JC : PCJ} (hJ : PJGrows J) (hJC : PCJGrows JC) (inl : List Name) :
    ∀ (n : Node) (c : Cache), Sub c (pcN files J JC inl n c)
  | .text _, c => Sub.refl _
  | .var _, c => Sub.refl _
  | .call _, c => Sub.refl _
  | .select, c => Sub.refl _
  | .elem t b, c => by rw [pcN_elem]; exact pcL_grows files hJ hJC inl b c
  | .cond cd b, c => by rw [pcN_cond]; exact pcL_grows files hJ hJC inl b c
  | .loop x xs b, c => by rw [pcN_loop]; exact pcL_grows files hJ hJC inl b c
  | .defn m b, c => by rw [pcN_defn]; exact pcL_grows files hJ hJC inl b c
  | .matchT t b, c => by rw [pcN_matchT]; exact pcL_grows files hJ hJC inl b c
  | .inlined b, c => by rw [pcN_inlined]; exact pcL_grows files hJ hJC inl b c
  | .include (.dyn ps) cls hasFb fb pos, c => by rw [pcN_dyn]; exact pcL_grows files hJ hJC inl fb c
  | .include (.static hh) cls hasFb fb pos, c => by
    rw [pcN_static]
    cases resolve pos hh with
    | none => exact Sub.refl _
    | some name =>
      simp only
      cases files.find name with
      | none => exact pcL_grows files hJ hJC inl fb c
      | some f =>
        simp only
        by_cases hk : f.kind = cls
        · simp only [hk, ne_eq, not_true_eq_false, if_false]
          cases f.body with
          | none => exact Sub.refl _
          | some body =>
            simp only
            by_cases hin : name ∈ inl
            · simp only [hin, if_true]; exact pcL_grows files hJ hJC inl fb c
            · simp only [hin, if_false]; exact hJC _ _ _
        · simp only [ne_eq, hk, not_false_eq_true, if_true]; exact Sub.refl _
termination_by structural n => n
theorem pcL_grows (files : Files) {J : PJ} {JC : PCJ} (hJ : PJGrows J) (hJC : PCJGrows JC) (inl : List Name) :
    ∀ (ns : List Node) (c : Cache), Sub c (pcL files J JC inl ns c)
  | [], c => Sub.refl _
  | n :: ns, c => by
    rw [pcL_cons]
    cases hn : prepN files J inl n c with
    | fuel => exact pcN_grows files hJ hJC inl n c
    | err e => exact pcN_grows files hJ hJC inl n c
    | ok r1 => exact (prepN_grows files hJ inl n c r1 hn).trans (pcL_grows files hJ hJC inl ns r1.2)
termination_by structural ns => ns
end

theorem pcT_grows (files : Files) : ∀ f : Nat, PCJGrows (pcT files f)
  | 0 => fun _ _ c => Sub.refl c
  | f + 1 => by
    intro inl name c
    simp only [pcT]
    cases c.lookup name with
    | some b => exact Sub.refl _
    | none =>
      simp only
      cases files.find name with
      | none => exact Sub.refl _
      | some ff =>
        obtain ⟨k, fb⟩ := ff
        cases fb with
        | none => exact Sub.refl _
        | some body =>
          simp only
          cases hx : prepL files (prepT files f) inl body c with
          | fuel => exact pcL_grows files (prepT_grows files f) (pcT_grows files f) inl body c
          | err e => exact pcL_grows files (prepT_grows files f) (pcT_grows files f) inl body c
          | ok r0 => exact (prepLg files (prepT_grows files f) inl body c r0 hx).trans (Sub.cons _ _)

theorem loadInl_grows (files : Files) (name : Name) (cls : Kind) (c : Cache) (r : List Node × Cache)
    (h : loadInl files name cls c = .ok r) : Sub c r.2 := by
  simp only [loadInl] at h
  cases hfind : files.find name with
  | none => simp [hfind] at h
  | some f =>
    simp only [hfind] at h
    by_cases hk : f.kind = cls
    · simp only [hk, ne_eq, not_true_eq_false, if_false] at h
      cases hb : f.body with
      | none => simp [hb] at h
      | some body =>
        simp only [hb] at h
        exact prepT_grows files _ _ _ _ _ h
    · simp [hk] at h

theorem loadInlC_grows (files : Files) (name : Name) (cls : Kind) (c : Cache) : Sub c (loadInlC files name cls c) := by
  simp only [loadInlC]
  cases files.find name with
  | none => exact Sub.refl _
  | some f =>
    simp only
    by_cases hk : f.kind = cls
    · simp only [hk, ne_eq, not_true_eq_false, if_false]
      cases f.body with
      | none => exact Sub.refl _
      | some body => exact pcT_grows files _ _ _ _
    · simp only [ne_eq, hk, not_false_eq_true, if_true]; exact Sub.refl _

theorem replayLoads_grows (files : Files) : ∀ (t : List Load) (c : Cache), Sub c (replayLoads files c t)
  | [], c => Sub.refl c
  | a :: t, c => by
    simp only [replayLoads]
    cases hx : loadInl files a.1 a.2 c with
    | fuel => exact (loadInlC_grows files a.1 a.2 c).trans (replayLoads_grows files t _)
    | err e => exact (loadInlC_grows files a.1 a.2 c).trans (replayLoads_grows files t _)
    | ok r => exact (loadInl_grows files a.1 a.2 c r hx).trans (replayLoads_grows files t _)

end Genshi.Incl

/-
  C01 — `py:attrs`: what `Attrs.__or__` does with the stripped values.
-/
import Genshi.Lemmas.SubstTmpl
namespace Genshi.Subst
open Genshi.Escape Genshi.Str

section
variable {α : Type}

theorem mem_gUpsert_self (n : Name) (v : α) (acc : List (Name × α)) : (n, v) ∈ gUpsert n v acc := by
  induction acc with
  | nil => simp [gUpsert]
  | cons q qs ih =>
    obtain ⟨k, w⟩ := q
    simp only [gUpsert]
    split
    · simp
    · exact List.mem_cons_of_mem _ ih

theorem mem_gUpsert_other (n k : Name) (v w : α) (acc : List (Name × α)) (h : (n, v) ∈ acc) (hk : k ≠ n) :
    (n, v) ∈ gUpsert k w acc := by
  induction acc with
  | nil => cases h
  | cons q qs ih =>
    obtain ⟨k', w'⟩ := q
    simp only [gUpsert]
    split
    · rename_i hkk
      rcases List.mem_cons.mp h with h' | h'
      · simp only [Prod.mk.injEq] at h'
        exact absurd (hkk ▸ h'.1.symm) hk
      · exact List.mem_cons_of_mem _ h'
    · rcases List.mem_cons.mp h with h' | h'
      · rw [h']; simp
      · exact List.mem_cons_of_mem _ (ih h')

theorem gNew_keep (self : List (Name × α)) (remove : List Name) (n : Name) (v : α)
    (items : List (Name × Option α)) (hne : ∀ p ∈ items, p.1 ≠ n) :
    ∀ acc, (n, v) ∈ acc → (n, v) ∈ items.foldl (gNewStep self remove) acc := by
  induction items with
  | nil => intro acc h; exact h
  | cons p ps ih =>
    intro acc h
    simp only [List.foldl_cons]
    apply ih (fun q hq => hne q (List.mem_cons_of_mem _ hq))
    unfold gNewStep
    split
    · split
      · exact h
      · exact mem_gUpsert_other n p.1 v _ acc h (hne p (by simp))
    · exact h

theorem gNew_add (self : List (Name × α)) (remove : List Name) (n : Name) (v : α)
    (hs : hasName self n = false) (hr : remove.contains n = false)
    (items : List (Name × Option α)) (hmem : (n, some v) ∈ items) (hnd : (items.map (·.1)).Nodup) :
    ∀ acc, (n, v) ∈ items.foldl (gNewStep self remove) acc := by
  induction items with
  | nil => cases hmem
  | cons p ps ih =>
    intro acc
    simp only [List.map_cons, List.nodup_cons] at hnd
    simp only [List.foldl_cons]
    rcases List.mem_cons.mp hmem with h | h
    · subst h
      apply gNew_keep self remove n v ps
      · intro q hq hqn
        exact hnd.1 (List.mem_map.mpr ⟨q, hq, hqn⟩)
      · simp only [gNewStep, hs, hr, Bool.or_self, Bool.false_eq_true, ↓reduceIte]
        exact mem_gUpsert_self n v acc
    · exact ih h hnd.2 _

theorem gLastVal_unique (n : Name) (v : α) (l : List (Name × α)) (hmem : (n, v) ∈ l)
    (hnd : (l.map (·.1)).Nodup) : gLastVal n l = some v := by
  induction l with
  | nil => cases hmem
  | cons p ps ih =>
    obtain ⟨k, w⟩ := p
    simp only [List.map_cons, List.nodup_cons] at hnd
    simp only [gLastVal]
    rcases List.mem_cons.mp hmem with h | h
    · simp only [Prod.mk.injEq] at h
      obtain ⟨rfl, rfl⟩ := h
      have : gLastVal n ps = none := by
        have hno : ∀ q ∈ ps, q.1 ≠ n := fun q hq hqn => hnd.1 (List.mem_map.mpr ⟨q, hq, hqn⟩)
        clear ih hmem hnd
        induction ps with
        | nil => rfl
        | cons q qs ih2 =>
          obtain ⟨k2, w2⟩ := q
          simp only [gLastVal]
          rw [ih2 fun r hr => hno r (List.mem_cons_of_mem _ hr)]
          have : k2 ≠ n := hno (k2, w2) (by simp)
          simp [this]
      simp [this]
    · rw [ih h hnd.2]

theorem gLastVal_none (n : Name) (l : List (Name × α)) (hno : ∀ q ∈ l, q.1 ≠ n) : gLastVal n l = none := by
  induction l with
  | nil => rfl
  | cons q qs ih =>
    obtain ⟨k, w⟩ := q
    simp only [gLastVal]
    rw [ih fun r hr => hno r (List.mem_cons_of_mem _ hr)]
    have : k ≠ n := hno (k, w) (by simp)
    simp [this]

theorem hasName_iff (a : List (Name × α)) (n : Name) : hasName a n = true ↔ ∃ p ∈ a, p.1 = n := by
  simp [hasName]

theorem filterMap_names_nodup {β γ : Type} (f : Name × β → Option (Name × γ))
    (hf : ∀ p q, f p = some q → q.1 = p.1) (l : List (Name × β)) (h : (l.map (·.1)).Nodup) :
    ((l.filterMap f).map (·.1)).Nodup := by
  induction l with
  | nil => simp
  | cons x xs ih =>
    simp only [List.map_cons, List.nodup_cons] at h
    simp only [List.filterMap_cons]
    cases hx : f x with
    | none => exact ih h.2
    | some q =>
      simp only [List.map_cons, List.nodup_cons]
      refine ⟨?_, ih h.2⟩
      intro hmem
      simp only [List.mem_map, List.mem_filterMap] at hmem
      obtain ⟨r, ⟨y, hy, hyr⟩, hrq⟩ := hmem
      apply h.1
      rw [← hf x q hx, ← hrq, hf y r hyr]
      exact List.mem_map.mpr ⟨y, hy, rfl⟩

theorem nodup_fst_unique {β : Type} (l : List (Name × β)) (h : (l.map (·.1)).Nodup) (p q : Name × β)
    (hp : p ∈ l) (hq : q ∈ l) (hpq : p.1 = q.1) : p = q := by
  induction l with
  | nil => cases hp
  | cons x xs ih =>
    simp only [List.map_cons, List.nodup_cons] at h
    rcases List.mem_cons.mp hp with rfl | hp' <;> rcases List.mem_cons.mp hq with rfl | hq'
    · rfl
    · exact absurd (List.mem_map.mpr ⟨q, hq', hpq.symm⟩) h.1
    · exact absurd (List.mem_map.mpr ⟨p, hp', hpq⟩) h.1
    · exact ih h.2 hp' hq'

/-- a name given a value ends up with exactly that value -/
theorem gOr_sets (self : List (Name × α)) (items : List (Name × Option α)) (n : Name) (v : α)
    (hmem : (n, some v) ∈ items) (hnd : (items.map (·.1)).Nodup) : (n, v) ∈ gOr self items := by
  have hnotrem : (gRemove items).contains n = false := by
    simp only [gRemove, List.contains_eq_mem, List.mem_filterMap, decide_eq_false_iff_not, not_exists, not_and]
    intro p hp hpn
    split at hpn
    · simp only [Option.some.injEq] at hpn
      -- p = (n, none) and (n, some v) both in items: the names are not distinct
      obtain ⟨k, w⟩ := p
      simp only at hpn
      subst hpn
      rename_i hnone
      simp only [Option.isNone_iff_eq_none] at hnone
      subst hnone
      have : (k, (none : Option α)) = (k, some v) := nodup_fst_unique items hnd _ _ hp hmem rfl
      cases this
    · cases hpn
  unfold gOr
  by_cases hs : hasName self n = true
  · apply List.mem_append_left
    obtain ⟨p, hp, hpn⟩ := (hasName_iff self n).mp hs
    simp only [gKept, List.mem_filterMap]
    refine ⟨p, hp, ?_⟩
    rw [hpn, hnotrem]
    simp only [Bool.false_eq_true, ↓reduceIte, Option.some.injEq, Prod.mk.injEq, true_and]
    have hrepl : (n, v) ∈ gRepl self items := by
      simp only [gRepl, List.mem_filterMap]
      exact ⟨(n, some v), hmem, by simp [hs]⟩
    have hrnd : ((gRepl self items).map (·.1)).Nodup := by
      apply filterMap_names_nodup _ _ items hnd
      intro p q hpq
      split at hpq
      · split at hpq
        · simp only [Option.some.injEq] at hpq; rw [← hpq]
        · cases hpq
      · cases hpq
    rw [gLastVal_unique n v _ hrepl hrnd]
    rfl
  · apply List.mem_append_right
    exact gNew_add self (gRemove items) n v (by simpa using hs) hnotrem items hmem hnd []

/-- a name given `None` is absent from the result -/
theorem gOr_removes (self : List (Name × α)) (items : List (Name × Option α)) (n : Name)
    (hmem : (n, none) ∈ items) : ∀ p ∈ gOr self items, p.1 ≠ n := by
  have hrem : (gRemove items).contains n = true := by
    simp only [gRemove, List.contains_eq_mem, List.mem_filterMap, decide_eq_true_eq]
    exact ⟨(n, none), hmem, by simp⟩
  intro p hp hpn
  unfold gOr at hp
  rcases List.mem_append.mp hp with h | h
  · simp only [gKept, List.mem_filterMap] at h
    obtain ⟨q, _, hq⟩ := h
    split at hq
    · cases hq
    · rename_i hc
      simp only [Option.some.injEq] at hq
      rw [← hq] at hpn
      simp only at hpn
      rw [hpn] at hc
      exact hc hrem
  · -- nothing in the removed set is ever added
    have key : ∀ (its : List (Name × Option α)) (acc : List (Name × α)),
        (∀ q ∈ acc, q.1 ≠ n) → ∀ q ∈ its.foldl (gNewStep self (gRemove items)) acc, q.1 ≠ n := by
      intro its
      induction its with
      | nil => intro acc hacc q hq; exact hacc q hq
      | cons i is ih =>
        intro acc hacc q hq
        simp only [List.foldl_cons] at hq
        apply ih _ _ q hq
        intro r hr
        unfold gNewStep at hr
        split at hr
        · split at hr
          · exact hacc r hr
          · rename_i hcond
            rcases gUpsert_names _ _ _ _ hr with h' | h'
            · intro hrn
              rw [hrn] at h'
              simp only [Bool.or_eq_true, not_or, Bool.not_eq_true] at hcond
              rw [← h', hrem] at hcond
              exact absurd hcond.2 (by simp)
            · exact hacc r h'
        · exact hacc r hr
    exact key items [] (by simp) p h hpn

/-- attributes the expression does not mention keep their value (and nothing else carries their name) -/
theorem gOr_untouched (self : List (Name × α)) (items : List (Name × Option α)) (n : Name) (v : α)
    (hno : ∀ p ∈ items, p.1 ≠ n) : (n, v) ∈ gOr self items ↔ (n, v) ∈ self := by
  have hnotrem : (gRemove items).contains n = false := by
    simp only [gRemove, List.contains_eq_mem, List.mem_filterMap, decide_eq_false_iff_not, not_exists, not_and]
    intro p hp hpn
    split at hpn
    · simp only [Option.some.injEq] at hpn; exact hno p hp hpn
    · cases hpn
  have hlv : gLastVal n (gRepl self items) = none := by
    apply gLastVal_none
    intro q hq
    simp only [gRepl, List.mem_filterMap] at hq
    obtain ⟨p, hp, hpq⟩ := hq
    split at hpq
    · split at hpq
      · simp only [Option.some.injEq] at hpq; rw [← hpq]; exact hno p hp
      · cases hpq
    · cases hpq
  unfold gOr
  constructor
  · intro h
    rcases List.mem_append.mp h with h | h
    · simp only [gKept, List.mem_filterMap] at h
      obtain ⟨q, hq, hqv⟩ := h
      split at hqv
      · cases hqv
      · simp only [Option.some.injEq, Prod.mk.injEq] at hqv
        obtain ⟨h1, h2⟩ := hqv
        rw [h1, hlv] at h2
        simp only [Option.getD_none] at h2
        have : q = (n, v) := by rw [← h1, ← h2]
        rw [← this]; exact hq
    · rcases gNew_names self (gRemove items) items [] (n, v) h with h' | ⟨q, hq, hqn⟩
      · cases h'
      · exact absurd hqn (hno q hq)
  · intro h
    apply List.mem_append_left
    simp only [gKept, List.mem_filterMap]
    have hnr : n ∉ gRemove items := by simpa using hnotrem
    exact ⟨(n, v), h, by simp [hnr, hlv]⟩

end

end Genshi.Subst

/-
  C15 — the refinement proof of `LRUCache`: the concrete linked structure
  (`Genshi/Model/Lru.lean`) represents a recency list, and every operation of the class
  acts on it like the abstract bounded LRU map.
-/
import Genshi.Model.Lru
namespace Genshi.Lru
set_option linter.unusedSectionVars false
variable {K V : Type} [DecidableEq K]

/-! ### heap updates -/

@[simp] theorem setPrv_same (h : Id → Node K V) (i : Id) (p : Option Id) :
    setPrv h i p i = { h i with prv := p } := by simp [setPrv]
@[simp] theorem setPrv_ne (h : Id → Node K V) {i j : Id} (p : Option Id) (hne : j ≠ i) :
    setPrv h i p j = h j := by simp [setPrv, hne]
@[simp] theorem setNxt_same (h : Id → Node K V) (i : Id) (p : Option Id) :
    setNxt h i p i = { h i with nxt := p } := by simp [setNxt]
@[simp] theorem setNxt_ne (h : Id → Node K V) {i j : Id} (p : Option Id) (hne : j ≠ i) :
    setNxt h i p j = h j := by simp [setNxt, hne]

@[simp] theorem setPrv_key (h : Id → Node K V) (i j : Id) (p : Option Id) :
    (setPrv h i p j).key = (h j).key := by
  by_cases hj : j = i <;> simp [setPrv, hj]
@[simp] theorem setPrv_val (h : Id → Node K V) (i j : Id) (p : Option Id) :
    (setPrv h i p j).val = (h j).val := by
  by_cases hj : j = i <;> simp [setPrv, hj]
@[simp] theorem setPrv_nxt (h : Id → Node K V) (i j : Id) (p : Option Id) :
    (setPrv h i p j).nxt = (h j).nxt := by
  by_cases hj : j = i <;> simp [setPrv, hj]
@[simp] theorem setNxt_key (h : Id → Node K V) (i j : Id) (p : Option Id) :
    (setNxt h i p j).key = (h j).key := by
  by_cases hj : j = i <;> simp [setNxt, hj]
@[simp] theorem setNxt_val (h : Id → Node K V) (i j : Id) (p : Option Id) :
    (setNxt h i p j).val = (h j).val := by
  by_cases hj : j = i <;> simp [setNxt, hj]
@[simp] theorem setNxt_prv (h : Id → Node K V) (i j : Id) (p : Option Id) :
    (setNxt h i p j).prv = (h j).prv := by
  by_cases hj : j = i <;> simp [setNxt, hj]
@[simp] theorem setVal_key (h : Id → Node K V) (i j : Id) (v : V) :
    (setVal h i v j).key = (h j).key := by
  by_cases hj : j = i <;> simp [setVal, hj]
@[simp] theorem setVal_prv (h : Id → Node K V) (i j : Id) (v : V) :
    (setVal h i v j).prv = (h j).prv := by
  by_cases hj : j = i <;> simp [setVal, hj]
@[simp] theorem setVal_nxt (h : Id → Node K V) (i j : Id) (v : V) :
    (setVal h i v j).nxt = (h j).nxt := by
  by_cases hj : j = i <;> simp [setVal, hj]
@[simp] theorem setVal_same (h : Id → Node K V) (i : Id) (v : V) :
    (setVal h i v i).val = v := by simp [setVal]
@[simp] theorem setVal_ne (h : Id → Node K V) {i j : Id} (v : V) (hne : j ≠ i) :
    setVal h i v j = h j := by simp [setVal, hne]
@[simp] theorem setNode_same (h : Id → Node K V) (i : Id) (n : Node K V) :
    setNode h i n i = n := by simp [setNode]
@[simp] theorem setNode_ne (h : Id → Node K V) {i j : Id} (n : Node K V) (hne : j ≠ i) :
    setNode h i n j = h j := by simp [setNode, hne]

/-! ### doubly linked segments -/

/-- the nodes `ids` form a doubly linked segment: the first one's `prv` is `p`, each one's
    `nxt` is its successor and the last one's is `q`, each one's `prv` its predecessor -/
def Seg (h : Id → Node K V) : Option Id → List Id → Option Id → Prop
  | _, [], _ => True
  | p, i :: rest, q => (h i).prv = p ∧ (h i).nxt = rest.head?.or q ∧ Seg h (some i) rest q

theorem Seg.frame {h h' : Id → Node K V} {ids : List Id} {p q : Option Id}
    (hs : Seg h p ids q) (heq : ∀ i ∈ ids, (h' i).prv = (h i).prv ∧ (h' i).nxt = (h i).nxt) :
    Seg h' p ids q := by
  induction ids generalizing p with
  | nil => trivial
  | cons i rest ih =>
    obtain ⟨h1, h2, h3⟩ := hs
    have := heq i (by simp)
    exact ⟨by rw [this.1, h1], by rw [this.2, h2],
           ih h3 (fun j hj => heq j (List.mem_cons_of_mem _ hj))⟩

theorem head?_append_or (xs ys : List Id) (q : Option Id) :
    (xs ++ ys).head?.or q = xs.head?.or (ys.head?.or q) := by
  cases xs <;> simp

theorem getLast?_cons_or (i : Id) (r : List Id) (p : Option Id) :
    (i :: r).getLast?.or p = r.getLast?.or (some i) := by
  cases r with
  | nil => simp
  | cons j r' => simp [List.getLast?_cons]

theorem Seg.append {h : Id → Node K V} {xs ys : List Id} {p q : Option Id} :
    Seg h p (xs ++ ys) q ↔ Seg h p xs (ys.head?.or q) ∧ Seg h (xs.getLast?.or p) ys q := by
  induction xs generalizing p with
  | nil => simp [Seg]
  | cons i r ih =>
    simp only [List.cons_append, Seg, ih, head?_append_or, getLast?_cons_or]
    constructor
    · rintro ⟨a, b, c, d⟩; exact ⟨⟨a, b, c⟩, d⟩
    · rintro ⟨⟨a, b, c⟩, d⟩; exact ⟨a, b, c, d⟩

/-- rewrite the `nxt` of the last node of a segment -/
theorem Seg.setLastNxt {h : Id → Node K V} {xs : List Id} {p q : Option Id} {a : Id}
    (hs : Seg h p xs q) (hnd : xs.Nodup) (hl : xs.getLast? = some a) (q' : Option Id) :
    Seg (setNxt h a q') p xs q' := by
  induction xs generalizing p with
  | nil => trivial
  | cons i r ih =>
    obtain ⟨h1, h2, h3⟩ := hs
    cases r with
    | nil =>
      simp at hl; subst hl
      exact ⟨by simp [h1], by simp, trivial⟩
    | cons j r' =>
      have hl' : (j :: r').getLast? = some a := by simpa [List.getLast?_cons_cons] using hl
      have hmem : a ∈ j :: r' := List.mem_of_getLast? hl'
      have hia : i ≠ a := by
        intro e; subst e; exact (List.nodup_cons.mp hnd).1 hmem
      refine ⟨by simp [hia, h1], ?_, ih h3 (List.nodup_cons.mp hnd).2 hl'⟩
      simpa [hia] using h2

/-- rewrite the `prv` of the first node of a segment -/
theorem Seg.setFirstPrv {h : Id → Node K V} {j : Id} {r : List Id} {p q : Option Id}
    (hs : Seg h p (j :: r) q) (hj : j ∉ r) (p' : Option Id) :
    Seg (setPrv h j p') p' (j :: r) q := by
  obtain ⟨_, h2, h3⟩ := hs
  refine ⟨by simp, by simpa using h2, h3.frame ?_⟩
  intro i hi
  have : i ≠ j := fun e => hj (e ▸ hi)
  simp [this]


/-! ### the representation invariant -/

/-- `head … tail` is the doubly linked list of the nodes `ids`, each once -/
structure ListOK (c : CLru K V) (ids : List Id) : Prop where
  seg : Seg c.heap none ids none
  head : c.head = ids.head?
  tail : c.tail = ids.getLast?
  nodup : ids.Nodup

/-- `_dict` maps exactly the keys of the listed nodes to them; `len(_dict)` is their number -/
structure DictOK (c : CLru K V) (ids : List Id) : Prop where
  fwd : ∀ i ∈ ids, c.dict (c.heap i).key = some i
  bwd : ∀ k i, c.dict k = some i → i ∈ ids ∧ (c.heap i).key = k
  size : c.size = ids.length

structure Repr (c : CLru K V) (ids : List Id) : Prop where
  list : ListOK c ids
  dict : DictOK c ids
  fresh : ∀ i ∈ ids, i < c.fresh

/-- what an operation on the links leaves alone -/
def SameData (c c' : CLru K V) : Prop :=
  (∀ j, (c'.heap j).key = (c.heap j).key ∧ (c'.heap j).val = (c.heap j).val) ∧
  c'.dict = c.dict ∧ c'.size = c.size ∧ c'.cap = c.cap ∧ c'.fresh = c.fresh

theorem SameData.refl (c : CLru K V) : SameData c c := ⟨fun _ => ⟨rfl, rfl⟩, rfl, rfl, rfl, rfl⟩

theorem linkFront_ok {c : CLru K V} {ids : List Id} {i : Id}
    (hl : ListOK c ids) (hi : i ∉ ids) :
    ListOK (linkFront c i) (i :: ids) ∧ SameData c (linkFront c i) := by
  obtain ⟨hseg, hhead, htail, hnd⟩ := hl
  cases ids with
  | nil =>
    simp at hhead htail
    refine ⟨⟨?_, ?_, ?_, by simp⟩, ?_⟩
    · simp [linkFront, hhead, Seg]
    · simp [linkFront, hhead]
    · simp [linkFront, hhead]
    · simp [linkFront, hhead, SameData]
  | cons j r =>
    simp at hhead
    have hij : i ≠ j := fun e => hi (by simp [e])
    have hji : j ≠ i := fun e => hij e.symm
    have hjr : j ∉ r := (List.nodup_cons.mp hnd).1
    refine ⟨⟨?_, ?_, ?_, List.nodup_cons.mpr ⟨hi, hnd⟩⟩, ?_⟩
    · simp only [linkFront, hhead, Seg]
      refine ⟨by simp [hij], by simp [hij], ?_⟩
      have h2 : Seg (setNxt (setPrv c.heap i none) i (some j)) none (j :: r) none := by
        apply hseg.frame
        intro x hx
        have : x ≠ i := fun e => hi (e ▸ hx)
        simp [this]
      exact h2.setFirstPrv hjr (some i)
    · simp [linkFront, hhead]
    · simp [linkFront, hhead, htail, List.getLast?_cons_cons]
    · simp [linkFront, hhead, SameData]


theorem getLast?_append_cons (xs : List Id) (y : Id) (ys : List Id) :
    (xs ++ y :: ys).getLast? = (y :: ys).getLast? := by
  rw [List.getLast?_append]; simp [List.getLast?_cons]

theorem updateItem_ok {c : CLru K V} {pre post : List Id} {i : Id}
    (hl : ListOK c (pre ++ i :: post)) :
    ∃ c', updateItem c i = some c' ∧ ListOK c' (i :: (pre ++ post)) ∧ SameData c c' := by
  obtain ⟨hseg, hhead, htail, hnd⟩ := hl
  cases pre with
  | nil =>
    simp at hhead
    exact ⟨c, by simp [updateItem, hhead], ⟨hseg, by simpa using hhead, htail, hnd⟩, SameData.refl c⟩
  | cons hd pre' =>
    -- the list is hd :: pre' ++ i :: post ; `a` is the node before `i`
    have hhead' : c.head = some hd := by simpa using hhead
    have hnd' := hnd
    rw [List.nodup_append] at hnd'
    obtain ⟨hndpre, hndip, hdisj⟩ := hnd'
    have hipost : i ∉ post := (List.nodup_cons.mp hndip).1
    have hndpost : post.Nodup := (List.nodup_cons.mp hndip).2
    have hipre : i ∉ hd :: pre' := fun hm => hdisj i hm i (by simp) rfl
    have hhdi : hd ≠ i := fun e => hipre (by simp [e])
    have hprepost : ∀ x ∈ hd :: pre', x ∉ post := fun x hx hp => hdisj x hx x (by simp [hp]) rfl
    obtain ⟨a, ha⟩ : ∃ a, (hd :: pre').getLast? = some a := ⟨_, List.getLast?_cons⟩
    have hapre : a ∈ hd :: pre' := List.mem_of_getLast? ha
    have hai : a ≠ i := fun e => hipre (e ▸ hapre)
    have hapost : a ∉ post := hprepost a hapre
    rw [Seg.append] at hseg
    obtain ⟨hsegpre, hsegi⟩ := hseg
    simp only [List.head?_cons, Option.some_or, ha] at hsegpre hsegi
    obtain ⟨hiprv, hinxt, hsegpost⟩ := hsegi
    simp only [Option.or_none] at hinxt
    -- step 1: prv.nxt = item.nxt
    have s1 : Seg (setNxt c.heap a post.head?) none (hd :: pre') post.head? :=
      hsegpre.setLastNxt hndpre ha _
    have hheadne : c.head ≠ some i := by rw [hhead']; simpa using hhdi
    cases post with
    | nil =>
      have hupd : updateItem c i = some { c with
          heap := setPrv (setNxt (setPrv (setNxt c.heap a none) i none) i (some hd)) hd (some i),
          head := some i, tail := some a } := by
        simp only [updateItem, hiprv, hinxt, List.head?_nil, hhead']
        simp [hai.symm, hinxt, hhdi]
      refine ⟨_, hupd, ⟨?_, ?_, ?_, ?_⟩, ?_⟩
      · simp only [List.append_nil, Seg]
        refine ⟨by simp [hhdi.symm], by simp [hhdi.symm], ?_⟩
        have s2 : Seg (setNxt (setPrv (setNxt c.heap a none) i none) i (some hd)) none (hd :: pre') none := by
          apply s1.frame
          intro x hx
          have : x ≠ i := fun e => hipre (e ▸ hx)
          simp [this]
        exact s2.setFirstPrv (List.nodup_cons.mp hndpre).1 (some i)
      · simp
      · simp [List.getLast?_cons_cons, ha]
      · simp only [List.append_nil]; exact List.nodup_cons.mpr ⟨hipre, hndpre⟩
      · simp [SameData]
    | cons n r =>
      have hni : n ≠ i := fun e => hipost (by simp [e])
      have hnpre : n ∉ hd :: pre' := fun hm => hprepost n hm (by simp)
      have hna : n ≠ a := fun e => hnpre (e ▸ hapre)
      have hnr : n ∉ r := (List.nodup_cons.mp hndpost).1
      have hhdn : hd ≠ n := fun e => hnpre (by simp [e])
      simp only [List.head?_cons] at hinxt s1
      have hupd : updateItem c i = some { c with
          heap := setPrv (setNxt (setPrv (setPrv (setNxt c.heap a (some n)) n (some a)) i none) i (some hd)) hd (some i),
          head := some i, tail := c.tail } := by
        simp only [updateItem, hiprv, hinxt, hhead']
        simp [hai.symm, hinxt, hhdi]
      refine ⟨_, hupd, ⟨?_, ?_, ?_, ?_⟩, ?_⟩
      · simp only [Seg]
        refine ⟨by simp [hhdi.symm], by simp [hhdi.symm], ?_⟩
        rw [Seg.append]
        simp only [List.head?_cons, Option.some_or, ha]
        constructor
        · have s2 : Seg (setNxt (setPrv (setPrv (setNxt c.heap a (some n)) n (some a)) i none) i (some hd))
              none (hd :: pre') (some n) := by
            apply s1.frame
            intro x hx
            have h1 : x ≠ i := fun e => hipre (e ▸ hx)
            have h2 : x ≠ n := fun e => hnpre (e ▸ hx)
            simp [h1, h2]
          exact s2.setFirstPrv (List.nodup_cons.mp hndpre).1 (some i)
        · have s3 : Seg (setNxt c.heap a (some n)) (some i) (n :: r) none := by
            apply hsegpost.frame
            intro x hx
            have : x ≠ a := fun e => hapost (e ▸ hx)
            simp [this]
          have s4 := s3.setFirstPrv hnr (some a)
          apply s4.frame
          intro x hx
          have h1 : x ≠ i := fun e => hipost (e ▸ hx)
          have h2 : x ≠ hd := fun e => hprepost hd (by simp) (e ▸ hx)
          simp [h1, h2]
      · simp
      · rw [htail]
        simp only [List.cons_append, List.getLast?_cons_cons]
        rw [← List.cons_append, ← List.cons_append, getLast?_append_cons, getLast?_append_cons,
          List.getLast?_cons_cons]
      · refine List.nodup_cons.mpr ⟨?_, ?_⟩
        · simp only [List.mem_append, not_or]; exact ⟨hipre, hipost⟩
        · rw [List.nodup_append]
          exact ⟨hndpre, hndpost, fun x hx y hy => hdisj x hx y (List.mem_cons_of_mem _ hy)⟩
      · simp [SameData]


/-- keys and values of all nodes, the capacity and the identity counter are untouched -/
def SameKV (c c' : CLru K V) : Prop :=
  (∀ j, (c'.heap j).key = (c.heap j).key ∧ (c'.heap j).val = (c.heap j).val) ∧
  c'.cap = c.cap ∧ c'.fresh = c.fresh

theorem SameKV.refl (c : CLru K V) : SameKV c c := ⟨fun _ => ⟨rfl, rfl⟩, rfl, rfl⟩
theorem SameKV.trans {c c' c'' : CLru K V} (h1 : SameKV c c') (h2 : SameKV c' c'') : SameKV c c'' :=
  ⟨fun j => ⟨(h2.1 j).1.trans (h1.1 j).1, (h2.1 j).2.trans (h1.1 j).2⟩,
   h2.2.1.trans h1.2.1, h2.2.2.trans h1.2.2⟩
theorem SameData.kv {c c' : CLru K V} (h : SameData c c') : SameKV c c' :=
  ⟨h.1, h.2.2.2.1, h.2.2.2.2⟩

/-- different listed nodes carry different keys -/
theorem Repr.key_inj {c : CLru K V} {ids : List Id} (hr : Repr c ids) {i j : Id}
    (hi : i ∈ ids) (hj : j ∈ ids) (hk : (c.heap i).key = (c.heap j).key) : i = j := by
  have h1 := hr.dict.fwd i hi
  have h2 := hr.dict.fwd j hj
  rw [hk, h2] at h1
  exact (Option.some.inj h1).symm

theorem evictOne_ok {c : CLru K V} {pre : List Id} {t : Id} (hr : Repr c (pre ++ [t])) :
    ∃ c', evictOne c = some c' ∧ Repr c' pre ∧ SameKV c c' := by
  obtain ⟨⟨hseg, hhead, htail, hnd⟩, ⟨hfwd, hbwd, hsize⟩, hfresh⟩ := hr
  have htail' : c.tail = some t := by rw [htail]; simp
  have hdt : c.dict (c.heap t).key = some t := hfwd t (by simp)
  have htpre : t ∉ pre := by
    rw [List.nodup_append] at hnd
    intro hm; exact hnd.2.2 t hm t (by simp) rfl
  have hndpre : pre.Nodup := (List.nodup_append.mp hnd).1
  have hkeyne : ∀ i ∈ pre, (c.heap i).key ≠ (c.heap t).key := by
    intro i hi hk
    have h1 := hfwd i (by simp [hi])
    rw [hk, hdt] at h1
    exact htpre ((Option.some.inj h1) ▸ hi)
  cases pre with
  | nil =>
    have hhead' : c.head = some t := by simpa using hhead
    refine ⟨{ c with dict := dictDel c.dict (c.heap t).key, size := c.size - 1, head := none, tail := none },
      ?_, ⟨⟨trivial, rfl, rfl, by simp⟩, ⟨by simp, ?_, ?_⟩, by simp⟩, ?_⟩
    · simp [evictOne, htail', hdt, hhead']
    · intro k i hk
      simp only [dictDel] at hk
      split at hk
      · simp at hk
      · rename_i hne
        obtain ⟨hm, hkey⟩ := hbwd k i hk
        simp at hm; subst hm; exact absurd hkey.symm hne
    · simp at hsize; simp [hsize]
    · exact ⟨fun _ => ⟨rfl, rfl⟩, rfl, rfl⟩
  | cons hd pre' =>
    have hhead' : c.head = some hd := by simpa using hhead
    have hhdt : hd ≠ t := fun e => htpre (by simp [e])
    obtain ⟨a, ha⟩ : ∃ a, (hd :: pre').getLast? = some a := ⟨_, List.getLast?_cons⟩
    have hapre : a ∈ hd :: pre' := List.mem_of_getLast? ha
    rw [Seg.append] at hseg
    obtain ⟨hsegpre, hsegt⟩ := hseg
    simp only [List.head?_cons, Option.some_or, ha] at hsegpre hsegt
    obtain ⟨htprv, _, _⟩ := hsegt
    refine ⟨{ c with dict := dictDel c.dict (c.heap t).key, size := c.size - 1, tail := some a,
                     heap := setNxt c.heap a none },
      ?_, ⟨⟨?_, ?_, ?_, hndpre⟩, ⟨?_, ?_, ?_⟩, ?_⟩, ?_⟩
    · simp [evictOne, htail', hdt, hhead', hhdt.symm, htprv]
    · exact hsegpre.setLastNxt hndpre ha none
    · simp [hhead']
    · simp [ha]
    · intro i hi
      simp only [setNxt_key, dictDel, hkeyne i hi, ↓reduceIte]
      exact hfwd i (by simp only [List.mem_append]; exact Or.inl hi)
    · intro k i hk
      simp only [dictDel] at hk
      split at hk
      · simp at hk
      · rename_i hne
        obtain ⟨hm, hkey⟩ := hbwd k i hk
        simp only [setNxt_key]
        refine ⟨?_, hkey⟩
        simp only [List.mem_append, List.mem_singleton] at hm
        rcases hm with hm | hm
        · exact hm
        · subst hm; exact absurd hkey.symm hne
    · simp at hsize; simp [hsize]
    · intro i hi; exact hfresh i (by simp only [List.mem_append]; exact Or.inl hi)
    · exact ⟨fun j => ⟨by simp, by simp⟩, rfl, rfl⟩

theorem manageSizeLoop_ok (fuel : Nat) : ∀ {c : CLru K V} {ids : List Id}, Repr c ids →
    ids.length - c.cap ≤ fuel →
    ∃ c', manageSizeLoop fuel c = some c' ∧ Repr c' (ids.take c.cap) ∧ SameKV c c' := by
  induction fuel with
  | zero =>
    intro c ids hr hf
    have hle : ids.length ≤ c.cap := by omega
    refine ⟨c, ?_, ?_, SameKV.refl c⟩
    · have : ¬ c.size > c.cap := by rw [hr.dict.size]; omega
      simp [manageSizeLoop, this]
    · rw [List.take_of_length_le hle]; exact hr
  | succ n ih =>
    intro c ids hr hf
    by_cases hgt : c.size > c.cap
    · have hlen : ids.length > c.cap := by rw [← hr.dict.size]; exact hgt
      have hne : ids ≠ [] := by intro e; subst e; simp at hlen
      obtain ⟨pre, t, rfl⟩ : ∃ pre t, ids = pre ++ [t] :=
        ⟨ids.dropLast, ids.getLast hne, (List.dropLast_concat_getLast hne).symm⟩
      obtain ⟨c1, he, hr1, hkv1⟩ := evictOne_ok hr
      have hcap : c1.cap = c.cap := hkv1.2.1
      simp only [List.length_append, List.length_singleton] at hf hlen
      obtain ⟨c', hm, hr', hkv'⟩ := ih hr1 (by rw [hcap]; omega)
      refine ⟨c', ?_, ?_, hkv1.trans hkv'⟩
      · simp [manageSizeLoop, hgt, he, hm]
      · rw [hcap] at hr'
        rw [List.take_append_of_le_length (by omega)]
        exact hr'
    · refine ⟨c, by simp [manageSizeLoop, hgt], ?_, SameKV.refl c⟩
      have hle : ids.length ≤ c.cap := by rw [← hr.dict.size]; omega
      rw [List.take_of_length_le hle]; exact hr

theorem manageSize_ok {c : CLru K V} {ids : List Id} (hr : Repr c ids) :
    ∃ c', manageSize c = some c' ∧ Repr c' (ids.take c.cap) ∧ SameKV c c' :=
  manageSizeLoop_ok c.size hr (by rw [hr.dict.size]; omega)


/-! ### what the structure represents -/

def kvOf (c : CLru K V) (ids : List Id) : List (K × V) :=
  ids.map fun i => ((c.heap i).key, (c.heap i).val)

def absOf (c : CLru K V) (ids : List Id) : ALru K V := ⟨c.cap, kvOf c ids⟩

theorem kvOf_congr {c c' : CLru K V} {ids : List Id}
    (h : ∀ i ∈ ids, (c'.heap i).key = (c.heap i).key ∧ (c'.heap i).val = (c.heap i).val) :
    kvOf c' ids = kvOf c ids := by
  unfold kvOf
  apply List.map_congr_left
  intro i hi
  rw [(h i hi).1, (h i hi).2]

theorem kvOf_sameKV {c c' : CLru K V} (h : SameKV c c') (ids : List Id) : kvOf c' ids = kvOf c ids :=
  kvOf_congr fun i _ => h.1 i

theorem walkNxt_seg {h : Id → Node K V} {ids : List Id} {p : Option Id} (fuel : Nat)
    (hs : Seg h p ids none) (hf : ids.length ≤ fuel) : walkNxt h fuel ids.head? = some ids := by
  induction ids generalizing p fuel with
  | nil => cases fuel <;> simp [walkNxt]
  | cons i r ih =>
    cases fuel with
    | zero => simp at hf
    | succ n =>
      obtain ⟨_, h2, h3⟩ := hs
      simp only [Option.or_none] at h2
      simp only [List.head?_cons, walkNxt, h2]
      rw [ih n h3 (by simpa using hf)]
      rfl

theorem walkPrv_rev {h : Id → Node K V} {xs : List Id} {q : Option Id} (fuel : Nat)
    (hs : Seg h none xs.reverse q) (hf : xs.length ≤ fuel) :
    walkPrv h fuel xs.head? = some xs := by
  induction xs generalizing q fuel with
  | nil => cases fuel <;> simp [walkPrv]
  | cons i r ih =>
    cases fuel with
    | zero => simp at hf
    | succ n =>
      rw [List.reverse_cons, Seg.append] at hs
      obtain ⟨h1, h2, _, _⟩ := hs
      simp only [Option.or_none, List.getLast?_reverse] at h2
      simp only [List.head?_cons, walkPrv, h2]
      rw [ih n h1 (by simpa using hf)]
      rfl

theorem walkPrv_seg {h : Id → Node K V} {ids : List Id} {q : Option Id} (fuel : Nat)
    (hs : Seg h none ids q) (hf : ids.length ≤ fuel) :
    walkPrv h fuel ids.getLast? = some ids.reverse := by
  have := walkPrv_rev (xs := ids.reverse) (q := q) fuel (by simpa using hs) (by simpa using hf)
  simpa using this

theorem Repr.toIds {c : CLru K V} {ids : List Id} (hr : Repr c ids) : toIds c = some ids := by
  unfold Lru.toIds
  rw [hr.list.head]
  exact walkNxt_seg _ hr.list.seg (by rw [hr.dict.size]; omega)

theorem Repr.abs {c : CLru K V} {ids : List Id} (hr : Repr c ids) : abs c = some (absOf c ids) := by
  simp [Lru.abs, hr.toIds, absOf, kvOf]

/-! ### association-list facts -/

theorem alookup_none {l : List (K × V)} {k : K} (h : ∀ p ∈ l, p.1 ≠ k) : alookup k l = none := by
  induction l with
  | nil => rfl
  | cons p r ih =>
    obtain ⟨k', v⟩ := p
    have : k' ≠ k := h (k', v) (by simp)
    simp only [alookup, this, ↓reduceIte]
    exact ih fun q hq => h q (List.mem_cons_of_mem _ hq)

theorem alookup_mid {pre post : List (K × V)} {k : K} {v : V} (h : ∀ p ∈ pre, p.1 ≠ k) :
    alookup k (pre ++ (k, v) :: post) = some v := by
  induction pre with
  | nil => simp [alookup]
  | cons p r ih =>
    obtain ⟨k', v'⟩ := p
    have : k' ≠ k := h (k', v') (by simp)
    simp only [List.cons_append, alookup, this, ↓reduceIte]
    exact ih fun q hq => h q (List.mem_cons_of_mem _ hq)

theorem aerase_none {l : List (K × V)} {k : K} (h : ∀ p ∈ l, p.1 ≠ k) : aerase k l = l := by
  unfold aerase
  rw [List.filter_eq_self]
  intro p hp
  simpa using h p hp

theorem aerase_mid {pre post : List (K × V)} {k : K} {v : V}
    (h1 : ∀ p ∈ pre, p.1 ≠ k) (h2 : ∀ p ∈ post, p.1 ≠ k) :
    aerase k (pre ++ (k, v) :: post) = pre ++ post := by
  induction pre with
  | nil =>
    have : aerase k ((k, v) :: post) = aerase k post := by simp [aerase]
    simp only [List.nil_append, this, aerase_none h2]
  | cons p r ih =>
    have hp : p.1 ≠ k := h1 p (by simp)
    have : aerase k (p :: (r ++ (k, v) :: post)) = p :: aerase k (r ++ (k, v) :: post) := by
      simp [aerase, hp]
    simp only [List.cons_append, this, ih fun q hq => h1 q (List.mem_cons_of_mem _ hq)]


theorem kvOf_append (c : CLru K V) (xs ys : List Id) : kvOf c (xs ++ ys) = kvOf c xs ++ kvOf c ys := by
  simp [kvOf]

theorem kvOf_cons (c : CLru K V) (i : Id) (xs : List Id) :
    kvOf c (i :: xs) = ((c.heap i).key, (c.heap i).val) :: kvOf c xs := rfl

theorem kvOf_keys_ne {c : CLru K V} {xs : List Id} {k : K} (h : ∀ j ∈ xs, (c.heap j).key ≠ k) :
    ∀ p ∈ kvOf c xs, p.1 ≠ k := by
  intro p hp
  simp only [kvOf, List.mem_map] at hp
  obtain ⟨j, hj, rfl⟩ := hp
  exact h j hj

theorem DictOK.transfer {c c' : CLru K V} {ids ids' : List Id} (hd : DictOK c ids)
    (hdict : c'.dict = c.dict) (hkey : ∀ j, (c'.heap j).key = (c.heap j).key)
    (hsize : c'.size = c.size) (hmem : ∀ j, j ∈ ids' ↔ j ∈ ids) (hlen : ids'.length = ids.length) :
    DictOK c' ids' := by
  refine ⟨?_, ?_, ?_⟩
  · intro i hi; rw [hdict, hkey]; exact hd.fwd i ((hmem i).mp hi)
  · intro k i hk; rw [hdict] at hk
    obtain ⟨h1, h2⟩ := hd.bwd k i hk
    exact ⟨(hmem i).mpr h1, by rw [hkey]; exact h2⟩
  · rw [hsize, hlen]; exact hd.size

/-- moving a listed node to the front keeps the representation -/
theorem Repr.moveFront {c c' : CLru K V} {pre post : List Id} {i : Id}
    (hr : Repr c (pre ++ i :: post)) (hl : ListOK c' (i :: (pre ++ post)))
    (hdict : c'.dict = c.dict) (hkey : ∀ j, (c'.heap j).key = (c.heap j).key)
    (hsize : c'.size = c.size) (hfresh : c'.fresh = c.fresh) : Repr c' (i :: (pre ++ post)) := by
  have hmem : ∀ j, j ∈ i :: (pre ++ post) ↔ j ∈ pre ++ i :: post := by
    intro j; simp only [List.mem_cons, List.mem_append]
    constructor
    · rintro (h | h | h)
      · exact Or.inr (Or.inl h)
      · exact Or.inl h
      · exact Or.inr (Or.inr h)
    · rintro (h | h | h)
      · exact Or.inr (Or.inl h)
      · exact Or.inl h
      · exact Or.inr (Or.inr h)
  refine ⟨hl, hr.dict.transfer hdict hkey hsize hmem (by simp; omega), ?_⟩
  intro j hj; rw [hfresh]; exact hr.fresh j ((hmem j).mp hj)

/-- in a represented list the keys of the nodes other than `i` differ from `i`'s -/
theorem Repr.keys_ne {c : CLru K V} {pre post : List Id} {i : Id} (hr : Repr c (pre ++ i :: post)) :
    (∀ j ∈ pre, (c.heap j).key ≠ (c.heap i).key) ∧ (∀ j ∈ post, (c.heap j).key ≠ (c.heap i).key) := by
  have hnd := hr.list.nodup
  rw [List.nodup_append] at hnd
  obtain ⟨_, hip, hdisj⟩ := hnd
  constructor
  · intro j hj hk
    have := hr.key_inj (i := j) (j := i) (by simp [hj]) (by simp) hk
    exact hdisj j hj i (by simp) this
  · intro j hj hk
    have := hr.key_inj (i := j) (j := i) (by simp [hj]) (by simp) hk
    subst this
    exact (List.nodup_cons.mp hip).1 hj

theorem Repr.lookup_none {c : CLru K V} {ids : List Id} (hr : Repr c ids) {k : K}
    (hk : c.dict k = none) : ∀ j ∈ ids, (c.heap j).key ≠ k := by
  intro j hj he
  have := hr.dict.fwd j hj
  rw [he, hk] at this
  exact absurd this (by simp)

theorem getItem_refines {c : CLru K V} {ids : List Id} (hr : Repr c ids) (k : K) :
    ∃ c' ids', cstep c (.get k) = some (c', (astep (absOf c ids) (.get k)).2) ∧ Repr c' ids' ∧
      absOf c' ids' = (astep (absOf c ids) (.get k)).1 := by
  cases hk : c.dict k with
  | none =>
    have hno := alookup_none (kvOf_keys_ne (hr.lookup_none hk))
    refine ⟨c, ids, ?_, hr, ?_⟩
    · simp [cstep, getItem, hk, astep, absOf, hno]
    · simp [astep, absOf, hno]
  | some i =>
    obtain ⟨himem, hikey⟩ := hr.dict.bwd k i hk
    obtain ⟨pre, post, rfl⟩ := List.append_of_mem himem
    obtain ⟨c', hupd, hl', hsd⟩ := updateItem_ok hr.list
    obtain ⟨hne1, hne2⟩ := hr.keys_ne
    rw [hikey] at hne1 hne2
    have hlook : alookup k (kvOf c (pre ++ i :: post)) = some (c.heap i).val := by
      rw [kvOf_append, kvOf_cons, hikey]
      exact alookup_mid (kvOf_keys_ne hne1)
    have herase : aerase k (kvOf c (pre ++ i :: post)) = kvOf c (pre ++ post) := by
      rw [kvOf_append, kvOf_cons, hikey, kvOf_append]
      exact aerase_mid (kvOf_keys_ne hne1) (kvOf_keys_ne hne2)
    refine ⟨c', i :: (pre ++ post), ?_, hr.moveFront hl' hsd.2.1 (fun j => (hsd.1 j).1) hsd.2.2.1 hsd.2.2.2.2, ?_⟩
    · simp [cstep, getItem, hk, hupd, astep, absOf, hlook, (hsd.1 i).2]
    · simp only [astep, absOf, hlook, herase, hsd.2.2.2.1]
      rw [kvOf_sameKV hsd.kv, kvOf_cons, hikey]


theorem setItem_refines {c : CLru K V} {ids : List Id} (hr : Repr c ids) (k : K) (v : V) :
    ∃ c' ids', cstep c (.set k v) = some (c', (astep (absOf c ids) (.set k v)).2) ∧ Repr c' ids' ∧
      absOf c' ids' = (astep (absOf c ids) (.set k v)).1 := by
  cases hk : c.dict k with
  | none =>
    -- a new item
    have hkeys := hr.lookup_none hk
    have hfr : c.fresh ∉ ids := fun hm => Nat.lt_irrefl _ (hr.fresh _ hm)
    let c1 : CLru K V := { c with heap := setNode c.heap c.fresh ⟨none, none, k, v⟩, fresh := c.fresh + 1,
                                  dict := dictSet c.dict k c.fresh, size := c.size + 1 }
    have hl1 : ListOK c1 ids := by
      refine ⟨hr.list.seg.frame ?_, hr.list.head, hr.list.tail, hr.list.nodup⟩
      intro i hi
      have : i ≠ c.fresh := fun e => hfr (e ▸ hi)
      simp [c1, this]
    obtain ⟨hl2, hsd2⟩ := linkFront_ok hl1 hfr
    have hkey2 : ∀ j, (linkFront c1 c.fresh |>.heap j).key = (c1.heap j).key := fun j => (hsd2.1 j).1
    have hr2 : Repr (linkFront c1 c.fresh) (c.fresh :: ids) := by
      refine ⟨hl2, ⟨?_, ?_, ?_⟩, ?_⟩
      · intro i hi
        rw [hsd2.2.1, hkey2]
        simp only [List.mem_cons] at hi
        rcases hi with rfl | hi
        · simp [c1, dictSet]
        · have hne : i ≠ c.fresh := fun e => hfr (e ▸ hi)
          simp only [c1, setNode_ne _ _ hne, dictSet, hkeys i hi, ↓reduceIte]
          exact hr.dict.fwd i hi
      · intro k' i hk'
        rw [hsd2.2.1] at hk'
        rw [hkey2]
        simp only [c1, dictSet] at hk'
        split at hk'
        · rename_i e
          simp at hk'; subst hk'; subst e
          simp [c1]
        · obtain ⟨h1, h2⟩ := hr.dict.bwd k' i hk'
          have hne : i ≠ c.fresh := fun e => hfr (e ▸ h1)
          exact ⟨List.mem_cons_of_mem _ h1, by simp [c1, setNode_ne _ _ hne, h2]⟩
      · rw [hsd2.2.2.1]; simp [c1, hr.dict.size]
      · intro i hi
        rw [hsd2.2.2.2.2]
        simp only [List.mem_cons] at hi
        rcases hi with rfl | hi
        · simp [c1]
        · have := hr.fresh i hi
          exact Nat.lt_succ_of_lt this
    obtain ⟨c3, hm, hr3, hkv3⟩ := manageSize_ok hr2
    have hcap2 : (linkFront c1 c.fresh).cap = c.cap := by rw [hsd2.2.2.2.1]
    refine ⟨c3, (c.fresh :: ids).take c.cap, ?_, by rw [← hcap2]; exact hr3, ?_⟩
    · simp [cstep, setItem, hk, insertItem, c1, hm, astep] at *
    · have e1 : aerase k (kvOf c ids) = kvOf c ids := aerase_none (kvOf_keys_ne hkeys)
      simp only [astep, absOf, e1]
      have hcap3 : c3.cap = c.cap := by rw [hkv3.2.1, hcap2]
      rw [hcap3]
      congr 1
      rw [kvOf_sameKV hkv3, kvOf_sameKV hsd2.kv]
      unfold kvOf
      rw [List.map_take]
      congr 1
      simp only [List.map_cons, c1, setNode_same]
      congr 1
      apply List.map_congr_left
      intro i hi
      have hne : i ≠ c.fresh := fun e => hfr (e ▸ hi)
      simp [setNode_ne _ _ hne]
  | some i =>
    obtain ⟨himem, hikey⟩ := hr.dict.bwd k i hk
    obtain ⟨pre, post, rfl⟩ := List.append_of_mem himem
    let c1 : CLru K V := { c with heap := setVal c.heap i v }
    have hl1 : ListOK c1 (pre ++ i :: post) :=
      ⟨hr.list.seg.frame (fun j _ => by simp [c1]), hr.list.head, hr.list.tail, hr.list.nodup⟩
    have hr1 : Repr c1 (pre ++ i :: post) :=
      ⟨hl1, hr.dict.transfer rfl (fun j => by simp [c1]) rfl (fun _ => Iff.rfl) rfl, hr.fresh⟩
    obtain ⟨c2, hupd, hl2, hsd2⟩ := updateItem_ok hl1
    have hr2 : Repr c2 (i :: (pre ++ post)) :=
      hr1.moveFront hl2 hsd2.2.1 (fun j => (hsd2.1 j).1) hsd2.2.2.1 hsd2.2.2.2.2
    obtain ⟨c3, hm, hr3, hkv3⟩ := manageSize_ok hr2
    have hcap2 : c2.cap = c.cap := by rw [hsd2.2.2.2.1]
    obtain ⟨hne1, hne2⟩ := hr.keys_ne
    rw [hikey] at hne1 hne2
    have herase : aerase k (kvOf c (pre ++ i :: post)) = kvOf c (pre ++ post) := by
      rw [kvOf_append, kvOf_cons, hikey, kvOf_append]
      exact aerase_mid (kvOf_keys_ne hne1) (kvOf_keys_ne hne2)
    have hipp : i ∉ pre ++ post := by
      have hnd := hr.list.nodup
      rw [List.nodup_append] at hnd
      simp only [List.mem_append, not_or]
      exact ⟨fun h => hnd.2.2 i h i (by simp) rfl, (List.nodup_cons.mp hnd.2.1).1⟩
    refine ⟨c3, (i :: (pre ++ post)).take c.cap, ?_, by rw [← hcap2]; exact hr3, ?_⟩
    · simp [cstep, setItem, hk, c1, hupd, hm, astep] at *
    · simp only [astep, absOf, herase]
      have hcap3 : c3.cap = c.cap := by rw [hkv3.2.1, hcap2]
      rw [hcap3]
      congr 1
      rw [kvOf_sameKV hkv3, kvOf_sameKV hsd2.kv]
      unfold kvOf
      rw [List.map_take]
      congr 1
      simp only [List.map_cons, c1, setVal_key, setVal_same, hikey]
      congr 1
      apply List.map_congr_left
      intro j hj
      have hne : j ≠ i := fun e => hipp (e ▸ hj)
      simp [setVal_ne _ _ hne]


theorem Repr.lookup {c : CLru K V} {ids : List Id} (hr : Repr c ids) (k : K) :
    (c.dict k).isSome = (alookup k (kvOf c ids)).isSome := by
  cases hk : c.dict k with
  | none => simp [alookup_none (kvOf_keys_ne (hr.lookup_none hk))]
  | some i =>
    obtain ⟨himem, hikey⟩ := hr.dict.bwd k i hk
    obtain ⟨pre, post, rfl⟩ := List.append_of_mem himem
    obtain ⟨hne1, _⟩ := hr.keys_ne
    rw [hikey] at hne1
    rw [kvOf_append, kvOf_cons, hikey, alookup_mid (kvOf_keys_ne hne1)]
    rfl

/-- every operation of the class, from a represented state, succeeds, yields a represented
    state, and acts on the represented recency list like the abstract LRU map -/
theorem cstep_refines {c : CLru K V} {ids : List Id} (hr : Repr c ids) (op : Op K V) :
    ∃ c' ids', cstep c op = some (c', (astep (absOf c ids) op).2) ∧ Repr c' ids' ∧
      absOf c' ids' = (astep (absOf c ids) op).1 := by
  cases op with
  | get k => exact getItem_refines hr k
  | set k v => exact setItem_refines hr k v
  | contains k =>
    exact ⟨c, ids, by simp [cstep, astep, contains, absOf, hr.lookup k], hr, rfl⟩
  | len =>
    exact ⟨c, ids, by simp [cstep, astep, len, absOf, kvOf, hr.dict.size], hr, rfl⟩
  | iter =>
    exact ⟨c, ids, by simp [cstep, astep, iter, hr.toIds, absOf, kvOf], hr, rfl⟩

theorem crun_refines {c : CLru K V} {ids : List Id} (hr : Repr c ids) (ops : List (Op K V)) :
    ∃ c' ids', crun c ops = some (c', (arun (absOf c ids) ops).2) ∧ Repr c' ids' ∧
      absOf c' ids' = (arun (absOf c ids) ops).1 := by
  induction ops generalizing c ids with
  | nil => exact ⟨c, ids, rfl, hr, rfl⟩
  | cons op ops ih =>
    obtain ⟨c1, ids1, hs, hr1, ha1⟩ := cstep_refines hr op
    obtain ⟨c2, ids2, hs2, hr2, ha2⟩ := ih hr1
    refine ⟨c2, ids2, ?_, hr2, ?_⟩
    · simp only [crun, hs, hs2, arun, ha1, Option.map_some]
    · simp only [arun, ← ha1, ha2]

theorem empty_repr (cap : Nat) (d : Node K V) : Repr (empty cap d) [] :=
  ⟨⟨trivial, rfl, rfl, List.nodup_nil⟩, ⟨by simp, by simp [empty], rfl⟩, by simp⟩

/-- well-formedness of the concrete structure: it represents some list of nodes -/
def Wf (c : CLru K V) : Prop := ∃ ids, Repr c ids

theorem nodup_map_of_inj_on {α β : Type} (f : α → β) {l : List α} (hn : l.Nodup)
    (hinj : ∀ i ∈ l, ∀ j ∈ l, f i = f j → i = j) : (l.map f).Nodup := by
  induction l with
  | nil => simp
  | cons a r ih =>
    obtain ⟨ha, hr⟩ := List.nodup_cons.mp hn
    simp only [List.map_cons, List.nodup_cons, List.mem_map, not_exists, not_and]
    refine ⟨?_, ih hr fun i hi j hj => hinj i (List.mem_cons_of_mem _ hi) j (List.mem_cons_of_mem _ hj)⟩
    intro x hx he
    have := hinj x (List.mem_cons_of_mem _ hx) a (by simp) he
    exact ha (this ▸ hx)

/-- what `Wf` says in terms of the executable walks -/
theorem Repr.meaning {c : CLru K V} {ids : List Id} (hr : Repr c ids) :
    walkNxt c.heap (c.size + 1) c.head = some ids ∧
    walkPrv c.heap (c.size + 1) c.tail = some ids.reverse ∧
    ids.Nodup ∧ (ids.map fun i => (c.heap i).key).Nodup ∧ c.size = ids.length ∧
    (∀ i ∈ ids, c.dict (c.heap i).key = some i) ∧
    (∀ k i, c.dict k = some i → i ∈ ids ∧ (c.heap i).key = k) := by
  refine ⟨hr.toIds, ?_, hr.list.nodup, ?_, hr.dict.size, hr.dict.fwd, hr.dict.bwd⟩
  · rw [hr.list.tail]
    exact walkPrv_seg _ hr.list.seg (by rw [hr.dict.size]; omega)
  · exact nodup_map_of_inj_on _ hr.list.nodup fun i hi j hj he => hr.key_inj hi hj he

/-- the executable check accepts every well-formed structure -/
theorem Repr.wfCheck {c : CLru K V} {ids : List Id} (hr : Repr c ids) (keys : List K) :
    wfCheck c keys = true := by
  obtain ⟨h1, h2, h3, _, h5, h6, h7⟩ := hr.meaning
  unfold Lru.wfCheck
  rw [h1, h2]
  simp only [List.reverse_reverse, beq_self_eq_true, Bool.true_and, Bool.and_eq_true,
    List.all_eq_true, beq_iff_eq, decide_eq_true_eq]
  refine ⟨⟨⟨⟨h5.symm, h3⟩, fun i hi => hr.fresh i hi⟩, fun i hi => h6 i hi⟩, ?_⟩
  intro k _
  cases hk : c.dict k with
  | none => rfl
  | some i =>
    obtain ⟨hm, hkey⟩ := h7 k i hk
    simp [hm, hkey]

end Genshi.Lru

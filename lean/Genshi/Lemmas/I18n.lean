/-
  Helper lemmas for C19: `str.replace` with the pattern itself, the translation pass under
  the identity catalogue, the pass as a tree homomorphism (skip counter invariant).
-/
import Genshi.Lemmas.Escape
import Genshi.Model.I18nTranslate
namespace Genshi.I18n
open Genshi Genshi.Str

/-! ### `s.replace(p, p) = s` -/

theorem replaceGo_self (p : Char) (ps : List Char) :
    ∀ (n : Nat) (s : List Char), s.length ≤ n → replaceGo (p :: ps) (p :: ps) 0 s = s := by
  intro n
  induction n with
  | zero => intro s h; cases s <;> simp_all [replaceGo]
  | succ n ih =>
    intro s h
    cases s with
    | nil => simp [replaceGo]
    | cons c cs =>
      simp only [replaceGo]
      by_cases hp : (p :: ps).isPrefixOf (c :: cs) = true
      · simp only [hp, ↓reduceIte]
        obtain ⟨t, ht⟩ := List.isPrefixOf_iff_prefix.mp hp
        have hc : c = p ∧ cs = ps ++ t := by
          simp only [List.cons_append, List.cons.injEq] at ht
          exact ⟨ht.1.symm, ht.2.symm⟩
        obtain ⟨rfl, rfl⟩ := hc
        simp only [List.length_cons, Nat.add_sub_cancel]
        rw [Genshi.Escape.replaceGo_skip]
        rw [ih t (by simp at h; omega)]
        simp
      · simp only [hp, Bool.false_eq_true, ↓reduceIte, List.cons.injEq, true_and]
        exact ih cs (by simp at h; omega)

theorem replace_self (pat s : List Char) : Str.replace pat pat s = s := by
  unfold Str.replace
  cases pat with
  | nil => simp
  | cons p ps => simp; exact replaceGo_self p ps s.length s (Nat.le_refl _)

/-! ### the pass under the identity catalogue -/

theorem gettextOf_id (ctx : Ctx) : gettextOf Catalog.id ctx = fun s => s := by
  funext s; simp [gettextOf, Catalog.id]

theorem trText_id (s : Str) : trText (fun x => x) s = s := by
  unfold trText; split <;> simp [replace_self]

/-- an attribute the identity catalogue leaves alone: interpolated, not included, blank, or
    without white space at its edges (else: finding C19-attr-space) -/
def attrStripped (cfg : Cfg) (p : QName × AVal) : Bool :=
  match p.2 with
  | .str v => !cfg.includeAttrs.contains p.1.text || (strip v).isEmpty || strip v == v
  | .parts _ => true

theorem trAttr_id (cfg : Cfg) (ta : Bool) (p : QName × AVal) (h : attrStripped cfg p = true) :
    trAttr cfg (fun x => x) ta p = p := by
  obtain ⟨n, v⟩ := p
  cases v with
  | parts ps => simp [trAttr]
  | str v =>
    simp only [trAttr]
    split
    · rename_i hc
      simp only [attrStripped, Bool.or_eq_true, Bool.not_eq_true', beq_iff_eq] at h
      simp only [Bool.and_eq_true, Bool.not_eq_true'] at hc
      rcases h with (h | h) | h
      · simp_all
      · simp_all
      · rw [h]
    · rfl

theorem trAttrs_id (cfg : Cfg) (ta : Bool) (a : TAttrs) (h : a.all (attrStripped cfg) = true) :
    trAttrs cfg (fun x => x) ta a = a := by
  unfold trAttrs
  induction a with
  | nil => rfl
  | cons p ps ih =>
    simp only [List.all_cons, Bool.and_eq_true] at h
    simp [List.map_cons, trAttr_id cfg ta p h.1, ih h.2]

/-! ### directive re-ordering is a permutation -/

theorem listInsert_perm {α} (l : List α) (i : Nat) (x : α) : (listInsert l i x).Perm (x :: l) := by
  unfold listInsert
  have h : (x :: l).Perm (x :: (l.take i ++ l.drop i)) := by simp
  refine List.Perm.trans ?_ h.symm
  exact List.perm_middle

theorem eraseIdx_perm {α} (l : List α) (i : Nat) (x : α) (h : l[i]? = some x) :
    (x :: l.eraseIdx i).Perm l := by
  induction l generalizing i with
  | nil => simp at h
  | cons y ys ih =>
    cases i with
    | zero => simp at h; subst h; simp
    | succ i =>
      simp only [List.getElem?_cons_succ] at h
      simp only [List.eraseIdx_cons_succ]
      exact (List.Perm.swap y x _).trans ((ih i h).cons y)

theorem reorderGo_perm (fuel idx : Nat) (r : Reorder) :
    (reorderGo fuel idx r).dirs.Perm r.dirs := by
  induction fuel generalizing idx r with
  | zero => simp [reorderGo]
  | succ fuel ih =>
    simp only [reorderGo]
    cases hget : r.dirs[idx]? with
    | none => simp
    | some dir =>
      simp only
      refine (ih _ _).trans ?_
      cases dir with
      | domain d => simpa using eraseIdx_perm r.dirs idx _ hget
      | ctxt c =>
          simp only
          exact (listInsert_perm _ _ _).trans (eraseIdx_perm r.dirs idx _ hget)
      | _ => simp

theorem reorder_perm (ds : List Dir) : (reorder ds).dirs.Perm ds := reorderGo_perm _ _ _

/-! ### equality of template streams up to the order of the directives of SUB events -/

mutual
  def sameEv : TEvent → TEvent → Bool
    | .sub d b, .sub d' b' => d.isPerm d' && sameList b b'
    | .sub _ _, _ => false
    | e, e' => e = e'
  def sameList : List TEvent → List TEvent → Bool
    | [], [] => true
    | e :: es, e' :: es' => sameEv e e' && sameList es es'
    | _, _ => false
end


mutual
  theorem sameEv_refl : ∀ e : TEvent, sameEv e e = true
    | .sub d b => by
        simp only [sameEv, Bool.and_eq_true]
        exact ⟨List.isPerm_iff.mpr (List.Perm.refl d), sameList_refl b⟩
    | .start _ _ => by simp [sameEv]
    | .end_ _ => by simp [sameEv]
    | .text _ => by simp [sameEv]
    | .expr _ _ => by simp [sameEv]
    | .exec _ => by simp [sameEv]
    | .other _ => by simp [sameEv]
  theorem sameList_refl : ∀ s : List TEvent, sameList s s = true
    | [] => by simp [sameList]
    | e :: es => by simp [sameList, sameEv_refl e, sameList_refl es]
end

mutual
  /-- every included plain attribute value of the stream is free of edge white space -/
  def cleanEv (cfg : Cfg) : TEvent → Bool
    | .start _ a => a.all (attrStripped cfg)
    | .sub _ b => cleanList cfg b
    | _ => true
  def cleanList (cfg : Cfg) : List TEvent → Bool
    | [] => true
    | e :: es => cleanEv cfg e && cleanList cfg es
end

mutual
  theorem trSub_id_same (cfg : Cfg) (ctx : Ctx) (ta : Bool) :
      ∀ e : TEvent, cleanEv cfg e = true → sameEv e (trSub cfg Catalog.id ctx ta e) = true
    | .sub d b, h => by
        simp only [trSub, sameEv, Bool.and_eq_true]
        refine ⟨List.isPerm_iff.mpr (reorder_perm d).symm, ?_⟩
        exact trList_id_same cfg _ _ _ 0 b (by simpa [cleanEv] using h)
    | .start _ _, _ => by simp [trSub, sameEv]
    | .end_ _, _ => by simp [trSub, sameEv]
    | .text _, _ => by simp [trSub, sameEv]
    | .expr _ _, _ => by simp [trSub, sameEv]
    | .exec _, _ => by simp [trSub, sameEv]
    | .other _, _ => by simp [trSub, sameEv]
  theorem trList_id_same (cfg : Cfg) (ctx : Ctx) (tt ta : Bool) :
      ∀ (skip : Nat) (s : List TEvent), cleanList cfg s = true →
        sameList s (trList cfg Catalog.id ctx tt ta skip s) = true
    | _, [], _ => by simp [trList, sameList]
    | skip + 1, e :: es, h => by
        simp only [cleanList, Bool.and_eq_true] at h
        simp only [trList, sameList, Bool.and_eq_true]
        exact ⟨sameEv_refl e, trList_id_same cfg ctx tt ta _ es h.2⟩
    | 0, .start tag attrs :: es, h => by
        simp only [cleanList, cleanEv, Bool.and_eq_true] at h
        simp only [trList]
        split
        · simp only [sameList, Bool.and_eq_true]
          exact ⟨sameEv_refl _, trList_id_same cfg ctx tt ta _ es h.2⟩
        · rw [gettextOf_id, trAttrs_id cfg ta attrs h.1]
          simp only [sameList, Bool.and_eq_true]
          exact ⟨sameEv_refl _, trList_id_same cfg ctx tt ta _ es h.2⟩
    | 0, .text s :: es, h => by
        simp only [cleanList, Bool.and_eq_true] at h
        simp only [trList, gettextOf_id, trText_id, ite_self, sameList, Bool.and_eq_true]
        exact ⟨sameEv_refl _, trList_id_same cfg ctx tt ta _ es h.2⟩
    | 0, .sub d b :: es, h => by
        simp only [cleanList, Bool.and_eq_true] at h
        simp only [trList, sameList, Bool.and_eq_true]
        exact ⟨trSub_id_same cfg ctx ta _ h.1, trList_id_same cfg ctx tt ta _ es h.2⟩
    | 0, .end_ t :: es, h => by
        simp only [cleanList, Bool.and_eq_true] at h
        simp only [trList, sameList, Bool.and_eq_true]
        exact ⟨sameEv_refl _, trList_id_same cfg ctx tt ta _ es h.2⟩
    | 0, .expr i m :: es, h => by
        simp only [cleanList, Bool.and_eq_true] at h
        simp only [trList, sameList, Bool.and_eq_true]
        exact ⟨sameEv_refl _, trList_id_same cfg ctx tt ta _ es h.2⟩
    | 0, .exec m :: es, h => by
        simp only [cleanList, Bool.and_eq_true] at h
        simp only [trList, sameList, Bool.and_eq_true]
        exact ⟨sameEv_refl _, trList_id_same cfg ctx tt ta _ es h.2⟩
    | 0, .other l :: es, h => by
        simp only [cleanList, Bool.and_eq_true] at h
        simp only [trList, sameList, Bool.and_eq_true]
        exact ⟨sameEv_refl _, trList_id_same cfg ctx tt ta _ es h.2⟩
end


/-! ### with `extract_text = False` (or both flags off) the pass only re-orders directives -/

theorem trAttrs_off (cfg : Cfg) (gt : Str → Str) (a : TAttrs) : trAttrs cfg gt false a = a := by
  unfold trAttrs
  induction a with
  | nil => rfl
  | cons p ps ih =>
    obtain ⟨n, v⟩ := p
    cases v <;> simp [trAttr, ih]

mutual
  theorem trSub_off_same (cfg : Cfg) (cat : Catalog) (ctx : Ctx) (hx : cfg.extractText = false) (ta : Bool) :
      ∀ e : TEvent, sameEv e (trSub cfg cat ctx ta e) = true
    | .sub d b => by
        simp only [trSub, sameEv, Bool.and_eq_true, hx, Bool.false_and]
        exact ⟨List.isPerm_iff.mpr (reorder_perm d).symm, trList_off_same cfg cat _ hx 0 b⟩
    | .start _ _ => by simp [trSub, sameEv]
    | .end_ _ => by simp [trSub, sameEv]
    | .text _ => by simp [trSub, sameEv]
    | .expr _ _ => by simp [trSub, sameEv]
    | .exec _ => by simp [trSub, sameEv]
    | .other _ => by simp [trSub, sameEv]
  theorem trList_off_same (cfg : Cfg) (cat : Catalog) (ctx : Ctx) (hx : cfg.extractText = false) :
      ∀ (skip : Nat) (s : List TEvent), sameList s (trList cfg cat ctx false false skip s) = true
    | _, [] => by simp [trList, sameList]
    | skip + 1, e :: es => by
        simp only [trList, sameList, Bool.and_eq_true]
        exact ⟨sameEv_refl e, trList_off_same cfg cat ctx hx _ es⟩
    | 0, .start tag attrs :: es => by
        simp only [trList]
        split
        · simp only [sameList, Bool.and_eq_true]
          exact ⟨sameEv_refl _, trList_off_same cfg cat ctx hx _ es⟩
        · rw [trAttrs_off]
          simp only [sameList, Bool.and_eq_true]
          exact ⟨sameEv_refl _, trList_off_same cfg cat ctx hx _ es⟩
    | 0, .text s :: es => by
        simp only [trList, Bool.false_eq_true, ↓reduceIte, sameList, Bool.and_eq_true]
        exact ⟨sameEv_refl _, trList_off_same cfg cat ctx hx _ es⟩
    | 0, .sub d b :: es => by
        simp only [trList, sameList, Bool.and_eq_true]
        exact ⟨trSub_off_same cfg cat ctx hx false _, trList_off_same cfg cat ctx hx _ es⟩
    | 0, .end_ t :: es => by
        simp only [trList, sameList, Bool.and_eq_true]
        exact ⟨sameEv_refl _, trList_off_same cfg cat ctx hx _ es⟩
    | 0, .expr i m :: es => by
        simp only [trList, sameList, Bool.and_eq_true]
        exact ⟨sameEv_refl _, trList_off_same cfg cat ctx hx _ es⟩
    | 0, .exec m :: es => by
        simp only [trList, sameList, Bool.and_eq_true]
        exact ⟨sameEv_refl _, trList_off_same cfg cat ctx hx _ es⟩
    | 0, .other l :: es => by
        simp only [trList, sameList, Bool.and_eq_true]
        exact ⟨sameEv_refl _, trList_off_same cfg cat ctx hx _ es⟩
end

end Genshi.I18n

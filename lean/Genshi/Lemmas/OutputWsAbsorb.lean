/-
  Helper lemmas for C09: the white-space normal form of a whole text absorbs the
  normal form of any part of it:
      wsNorm (A ++ wsNorm R ++ B) = wsNorm (A ++ R ++ B).
-/
import Genshi.Model.OutputWs
namespace Genshi.Output
open Genshi

/-! ### trim -/

theorem trimGo_blanks (q : Str) (hq : q.all isBlank = true) : ∀ (p Y : Str), trimGo p (q ++ Y) = trimGo (p ++ q) Y := by
  induction q with
  | nil => intro p Y; simp
  | cons c cs ih =>
    intro p Y
    simp only [List.all_cons, Bool.and_eq_true] at hq
    simp only [List.cons_append, trimGo, hq.1, ↓reduceIte]
    rw [ih hq.2]; simp

/-- trimming a part first changes nothing -/
theorem trimGo_inner (R : Str) : ∀ (p q B : Str), q.all isBlank = true →
    trimGo p (trimGo q R ++ B) = trimGo (p ++ q) (R ++ B) := by
  induction R with
  | nil => intro p q B hq; simp only [trimGo, List.nil_append]; exact trimGo_blanks q hq p B
  | cons c cs ih =>
    intro p q B hq
    by_cases hb : isBlank c = true
    · simp only [trimGo, hb, ↓reduceIte, List.cons_append]
      rw [ih p (q ++ [c]) B (by simp [hq, hb])]; simp
    · by_cases hn : (c == '\n') = true
      · have hc : c = '\n' := by simpa using hn
        subst hc
        have hbn : isBlank '\n' = false := by decide
        simp only [trimGo, hbn, Bool.false_eq_true, ↓reduceIte, BEq.rfl, List.cons_append]
        rw [ih [] [] B (by simp)]; simp
      · simp only [trimGo, hb, hn, Bool.false_eq_true, ↓reduceIte, List.cons_append, List.append_assoc]
        rw [trimGo_blanks q hq]
        simp only [trimGo, hb, hn, Bool.false_eq_true, ↓reduceIte]
        rw [ih [] [] B (by simp)]; simp

theorem trimGo_absorb (A : Str) : ∀ (p R B : Str), trimGo p (A ++ (trimGo [] R ++ B)) = trimGo p (A ++ (R ++ B)) := by
  induction A with
  | nil => intro p R B; simpa using trimGo_inner R p [] B (by simp)
  | cons c cs ih =>
    intro p R B
    simp only [List.cons_append, trimGo]
    split
    · exact ih _ R B
    · split
      · rw [ih [] R B]
      · rw [ih [] R B]

/-- the part of the trimmed text in front of a line feed (pending blanks dropped) -/
def trimPre : Str → Str → Str
  | _, [] => []
  | p, c :: cs =>
      if isBlank c then trimPre (p ++ [c]) cs
      else if c == '\n' then '\n' :: trimPre [] cs
      else p ++ c :: trimPre [] cs

theorem trimGo_nl (X : Str) : ∀ (p Z : Str), trimGo p (X ++ '\n' :: Z) = trimPre p X ++ '\n' :: trimGo [] Z := by
  induction X with
  | nil => intro p Z; simp [trimGo, trimPre, isBlank]
  | cons c cs ih =>
    intro p Z
    simp only [List.cons_append, trimGo, trimPre]
    split
    · exact ih _ Z
    · split
      · rw [ih [] Z]; simp
      · rw [ih [] Z]; simp

/-! ### collapse -/

theorem collapseGo_dup (U : Str) : ∀ (b : Bool) (V : Str),
    collapseGo b (U ++ '\n' :: '\n' :: V) = collapseGo b (U ++ '\n' :: V) := by
  induction U with
  | nil => intro b V; cases b <;> simp [collapseGo]
  | cons c cs ih =>
    intro b V
    simp only [List.cons_append, collapseGo]
    split
    · split <;> rw [ih]
    · rw [ih]

/-- a line feed directly behind a line feed does not matter -/
theorem wsNorm_dup (X Y : Str) : wsNorm (X ++ '\n' :: '\n' :: Y) = wsNorm (X ++ '\n' :: Y) := by
  simp only [wsNorm, trim, collapse]
  rw [trimGo_nl X [] ('\n' :: Y), trimGo_nl X [] Y]
  have : trimGo [] ('\n' :: Y) = '\n' :: trimGo [] Y := by simp [trimGo, isBlank]
  rw [this]
  exact collapseGo_dup _ false _

theorem wsNorm_collapse_inner (S : Str) : ∀ (b : Bool) (A B : Str), (b = true → ∃ A', A = A' ++ ['\n']) →
    wsNorm (A ++ (collapseGo b S ++ B)) = wsNorm (A ++ (S ++ B)) := by
  induction S with
  | nil => intro b A B _; simp [collapseGo]
  | cons c cs ih =>
    intro b A B hb
    by_cases hn : (c == '\n') = true
    · have hc : c = '\n' := by simpa using hn
      subst hc
      cases b with
      | true =>
        obtain ⟨A', hA⟩ := hb rfl
        simp only [collapseGo, BEq.rfl, ↓reduceIte]
        rw [ih true A B (fun _ => ⟨A', hA⟩)]
        subst hA
        simp only [List.append_assoc, List.singleton_append, List.cons_append]
        exact (wsNorm_dup A' (cs ++ B)).symm
      | false =>
        simp only [collapseGo, BEq.rfl, ↓reduceIte, Bool.false_eq_true, List.cons_append]
        have := ih true (A ++ ['\n']) B (fun _ => ⟨A, rfl⟩)
        simpa using this
    · simp only [collapseGo, hn, Bool.false_eq_true, ↓reduceIte, List.cons_append]
      have := ih false (A ++ [c]) B (by intro h; cases h)
      simpa using this

/-- THE absorption lemma -/
theorem wsNorm_absorb (A R B : Str) : wsNorm (A ++ (wsNorm R ++ B)) = wsNorm (A ++ (R ++ B)) := by
  have h1 : wsNorm (A ++ (wsNorm R ++ B)) = wsNorm (A ++ (trim R ++ B)) := by
    simp only [wsNorm]
    exact wsNorm_collapse_inner (trim R) false A B (by intro h; cases h)
  rw [h1]
  simp only [wsNorm, trim]
  rw [trimGo_absorb A [] R B]

end Genshi.Output

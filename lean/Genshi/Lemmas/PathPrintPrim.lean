/-
  C05 `parse ∘ print = id`, part 2: primary expressions — name tests, literals, numbers,
  variables, function calls — as `_primary_expr` / `_function_call` / `_node_test` read them.
-/
import Genshi.Lemmas.PathPrintCore
namespace Genshi.Path
namespace Print
open Genshi

/-- "the parser function of level `k` reads `e` back", for every fuel from `B` on -/
def SP (ts : List Str) (k : Nat) (e : Expr) (B : Nat) : Prop :=
  ∀ f pos t0 rest, ts.drop pos = toksAt k e ++ t0 :: rest → Follow k t0 → B ≤ f →
    ∃ q, parseAt k ts f pos = .ok (e, q) ∧ ts.drop q = t0 :: rest

theorem toksAt_zero (e : Expr) : toksAt 0 e = toks e := by simp [toksAt, paren]

theorem exists_cons_append {α : Type} (l : List α) (x : α) (r : List α) : ∃ y r', l ++ x :: r = y :: r' := by
  cases l with
  | nil => exact ⟨x, r, rfl⟩
  | cons y l => exact ⟨y, l ++ x :: r, rfl⟩

/-! ## names -/

theorem nameChar_facts (c : Char) (h : isNameChar c = true) :
    c ≠ '$' ∧ c ≠ '@' ∧ c ≠ '(' ∧ c ≠ '.' ∧ c ≠ '[' ∧ c ≠ '|' ∧ c ≠ '/' ∧ c ≠ ':' ∧ c ≠ ')' ∧ c ≠ ']' ∧ c ≠ ',' := by
  refine ⟨?_, ?_, ?_, ?_, ?_, ?_, ?_, ?_, ?_, ?_, ?_⟩ <;> (rintro rfl; revert h; decide)

theorem nameOk_cons (n : Str) (h : nameOk n = true) :
    ∃ c cs, n = c :: cs ∧ XNum.isDigit c = false ∧ isNameChar c = true ∧ c ≠ '"' ∧ c ≠ '\'' ∧ c ≠ '*' := by
  cases n with
  | nil => simp [nameOk] at h
  | cons c cs =>
    simp only [nameOk, List.all_cons, Bool.and_eq_true, Bool.not_eq_true', bne_iff_ne, ne_eq, isQuoteChar,
      Bool.or_eq_false_iff, beq_eq_false_iff_ne] at h
    exact ⟨c, cs, rfl, h.1, h.2.1.1.1, h.2.1.1.2.1, h.2.1.1.2.2, h.2.1.2⟩

/-- what `_primary_expr`, `_node_test` and `_location_step` ask of a token at a name position -/
theorem nameOk_facts (n : Str) (h : nameOk n = true) :
    isQuoted n = false ∧ (n.head?.map XNum.isDigit).getD false = false ∧ (n.head? == some '.') = false ∧
    n ≠ ['$'] ∧ n ≠ ['@'] ∧ n ≠ ['('] ∧ n ≠ ['*'] ∧ n ≠ ['.'] ∧ (n.head? == some '(') = false ∧
    n ≠ ['['] ∧ n ≠ ['|'] ∧ startsWithSlash n = false ∧ n ≠ ['.', '.'] := by
  obtain ⟨c, cs, rfl, hd, hn, hq1, hq2, hs⟩ := nameOk_cons n h
  obtain ⟨f1, f2, f3, f4, f5, f6, f7, f8, f9, f10, f11⟩ := nameChar_facts c hn
  refine ⟨?_, ?_, ?_, ?_, ?_, ?_, ?_, ?_, ?_, ?_, ?_, ?_, ?_⟩
  · simp only [isQuoted, List.head?_cons]
    cases (c :: cs).getLast? <;> simp [hq1, hq2]
  · simp [hd]
  · simp [f4]
  · simp [f1]
  · simp [f2]
  · simp [f3]
  · simp [hs]
  · simp [f4]
  · simp [f3]
  · simp [f5]
  · simp [f6]
  · simp [startsWithSlash, f7]
  · simp [f4]

/-- the name-test part of a node test, without the `@` -/
def coreToks : NodeTest → List Str
  | .principal _ => [['*']]
  | .qprincipal _ p => [p, [':'], ['*']]
  | .localName _ n => [n]
  | .qname _ p n => [p, [':'], n]
  | _ => []

def withAttr (a : Bool) : NodeTest → NodeTest
  | .principal _ => .principal a
  | .qprincipal _ p => .qprincipal a p
  | .localName _ n => .localName a n
  | .qname _ p n => .qname a p n
  | t => t

/-- `_node_test` on a name test that is followed by a token `t0` which is none of `(`, `()`, `:` -/
theorem nodeTest_core (ts : List Str) (t : NodeTest) (attr : Bool) (ht : testOk t = true)
    (p : Nat) (t0 : Str) (rest : List Str) (h : ts.drop p = coreToks t ++ t0 :: rest)
    (h1 : t0 ≠ [':']) (h2 : t0 ≠ ['(']) (h3 : t0 ≠ ['(', ')']) :
    ∃ q, nodeTest ts p attr = .ok (withAttr attr t, q) ∧ ts.drop q = t0 :: rest := by
  cases t with
  | principal a =>
    simp only [coreToks, List.cons_append, List.nil_append] at h
    refine ⟨p + 1, ?_, drop_succ h⟩
    simp [nodeTest, peek_drop_two h, cur_drop h, atEnd_drop_two h, next_drop h, h1, h2, h3, withAttr,
      bind, Except.bind, pure, Except.pure]
  | localName a n =>
    simp only [coreToks, List.cons_append, List.nil_append] at h
    obtain ⟨_, _, _, _, _, _, g7, g8, _⟩ := nameOk_facts n (by simpa [testOk] using ht)
    refine ⟨p + 1, ?_, drop_succ h⟩
    simp [nodeTest, peek_drop_two h, cur_drop h, atEnd_drop_two h, next_drop h, h1, h2, h3, g7, g8, withAttr,
      bind, Except.bind, pure, Except.pure]
  | qprincipal a pf =>
    simp only [coreToks, List.cons_append, List.nil_append] at h
    have hd1 := drop_succ h
    have hd2 := drop_succ hd1
    refine ⟨p + 1 + 1 + 1, ?_, drop_succ hd2⟩
    simp [nodeTest, peek_drop_two h, cur_drop h, next_drop h, next_drop hd1, next_drop hd2, atEnd_drop_two hd2,
      withAttr, bind, Except.bind, pure, Except.pure]
  | qname a pf n =>
    simp only [coreToks, List.cons_append, List.nil_append] at h
    have hd1 := drop_succ h
    have hd2 := drop_succ hd1
    have hn : nameOk n = true := by
      simp only [testOk, Bool.and_eq_true] at ht; exact ht.2
    obtain ⟨_, _, _, _, _, _, g7, _⟩ := nameOk_facts n hn
    refine ⟨p + 1 + 1 + 1, ?_, drop_succ hd2⟩
    simp [nodeTest, peek_drop_two h, cur_drop h, next_drop h, next_drop hd1, next_drop hd2, atEnd_drop_two hd2,
      g7, withAttr, bind, Except.bind, pure, Except.pure]
  | _ => simp [testOk] at ht

/-- the first token of a name test, as `_primary_expr` sees it -/
def PlainTok (t : Str) : Prop :=
  (decide (t.length > 1) && isQuoted t) = false ∧ ((t.head?.map XNum.isDigit).getD false || t.head? == some '.') = false ∧
  (t == ['$']) = false ∧ (t == ['(']) = false ∧ (t.head? == some '(') = false

theorem plain_star : PlainTok ['*'] := by
  refine ⟨?_, ?_, ?_, ?_, ?_⟩ <;> decide

theorem plain_name (n : Str) (h : nameOk n = true) : PlainTok n := by
  obtain ⟨g1, g2, g3, g4, g5, g6, g7, g8, g9, _⟩ := nameOk_facts n h
  refine ⟨by simp [g1], by simp [g2, g3], by simpa using g4, by simpa using g6, g9⟩

/-- `_sub_expr` hands everything that does not start with `(` to `_primary_expr` -/
theorem subExpr_prim (ts : List Str) (f pos : Nat) (t : Str) (r : List Str) (h : ts.drop pos = t :: r)
    (hp : (t == ['(']) = false) : subExpr ts (f + 1) pos = primaryExpr ts f pos := by
  have : (t != ['(']) = true := by simp [bne, hp]
  simp [subExpr, cur_drop h, this, bind, Except.bind]

/-- a name test in a predicate -/
theorem prim_test (ts : List Str) (t : NodeTest) (ht : testOk t = true) (f pos : Nat) (t0 : Str) (rest : List Str)
    (k : Nat) (hf : Follow k t0) (h : ts.drop pos = testToks t ++ t0 :: rest) :
    ∃ q, subExpr ts (f + 2) pos = .ok (.test t, q) ∧ ts.drop q = t0 :: rest := by
  obtain ⟨h1, h2, h3, h4, _⟩ := hf.plain
  -- the attribute flag and the first token of the core
  have hcore : ∃ a, testToks t = atToks a ++ coreToks t ∧ withAttr a t = t ∧
      ∃ c cr, coreToks t = c :: cr ∧ PlainTok c ∧ (c == ['@']) = false ∧
        ∀ y r', cr ++ t0 :: rest = y :: r' → (y.head? == some '(') = false := by
    have e1 : ∀ y r', [] ++ t0 :: rest = y :: r' → (y.head? == some '(') = false := by
      intro y r' hy; simp at hy; rw [← hy.1]; exact h4
    have e2 : ∀ (x : Str) y r', [[':'], x] ++ t0 :: rest = y :: r' → (y.head? == some '(') = false := by
      intro x y r' hy; simp at hy; rw [← hy.1]; rfl
    have na : ∀ n, nameOk n = true → (n == ['@']) = false := by
      intro n hn; simpa using (nameOk_facts n hn).2.2.2.2.1
    cases t with
    | principal a => exact ⟨a, rfl, rfl, _, _, rfl, plain_star, rfl, e1⟩
    | qprincipal a p =>
      have hp : nameOk p = true := by simpa [testOk] using ht
      exact ⟨a, rfl, rfl, _, _, rfl, plain_name p hp, na p hp, e2 _⟩
    | localName a n =>
      have hp : nameOk n = true := by simpa [testOk] using ht
      exact ⟨a, rfl, rfl, _, _, rfl, plain_name n hp, na n hp, e1⟩
    | qname a p n =>
      have hp : nameOk p = true := by
        simp only [testOk, Bool.and_eq_true] at ht; exact ht.1
      exact ⟨a, rfl, rfl, _, _, rfl, plain_name p hp, na p hp, e2 _⟩
    | _ => simp [testOk] at ht
  obtain ⟨a, hta, hwa, c, cr, hc, ⟨p1, p2, p3, p4, p5⟩, hca, hsec⟩ := hcore
  rw [hta] at h
  cases a with
  | false =>
    simp only [atToks, Bool.false_eq_true, if_false, List.nil_append] at h
    obtain ⟨q, hq, hd⟩ := nodeTest_core ts t false ht pos t0 rest h h1 h2 h3
    refine ⟨q, ?_, hd⟩
    have h' : ts.drop pos = c :: (cr ++ t0 :: rest) := by rw [h, hc]; rfl
    obtain ⟨y, r', hy⟩ := exists_cons_append cr t0 rest
    have hyh := hsec y r' hy
    rw [hy] at h'
    rw [subExpr_prim ts (f + 1) pos c _ h' p4]
    simp [primaryExpr, cur_drop h', p1, p2, p3, atEnd_drop_two h', peek_drop_two h', hyh, hca, hq, hwa,
      bind, Except.bind, pure, Except.pure]
  | true =>
    simp only [atToks, if_true, List.cons_append, List.nil_append] at h
    have hd1 := drop_succ h
    obtain ⟨q, hq, hd⟩ := nodeTest_core ts t true ht (pos + 1) t0 rest hd1 h1 h2 h3
    refine ⟨q, ?_, hd⟩
    have h' : ts.drop pos = ['@'] :: c :: (cr ++ t0 :: rest) := by rw [h, hc]; rfl
    rw [subExpr_prim ts (f + 1) pos ['@'] _ h' (by decide)]
    have hch : (c.head? == some '(') = false := p5
    have hdg : XNum.isDigit '@' = false := by decide
    simp [primaryExpr, cur_drop h', atEnd_drop_two h', peek_drop_two h', next_drop h', hch, hq, hwa, isQuoted, hdg,
      bind, Except.bind, pure, Except.pure]

/-! ## literals, numbers, variables -/

theorem getLast_q (q : Char) (s : List Char) : (q :: (s ++ [q])).getLast? = some q := by
  have : q :: (s ++ [q]) = (q :: s) ++ [q] := rfl
  rw [this, List.getLast?_append]
  simp

theorem quoteTok_facts (s : Str) :
    (decide ((quoteTok s).length > 1) && isQuoted (quoteTok s)) = true ∧ unquote (quoteTok s) = s ∧
    (quoteTok s == ['(']) = false := by
  unfold quoteTok
  split <;> simp [isQuoted, unquote, getLast_q]

theorem prim_str (ts : List Str) (s : Str) (f pos : Nat) (t0 : Str) (rest : List Str)
    (h : ts.drop pos = quoteTok s :: t0 :: rest) :
    ∃ q, subExpr ts (f + 2) pos = .ok (.str s, q) ∧ ts.drop q = t0 :: rest := by
  obtain ⟨g1, g2, g3⟩ := quoteTok_facts s
  refine ⟨pos + 1, ?_, drop_succ h⟩
  rw [subExpr_prim ts (f + 1) pos _ _ h g3]
  simp only [Bool.and_eq_true, decide_eq_true_eq] at g1
  simp [primaryExpr, cur_drop h, g1.1, g1.2, g2, next_drop h, bind, Except.bind, pure, Except.pure]

theorem digit_facts (d : Char) (h : XNum.isDigit d = true) : d ≠ '"' ∧ d ≠ '\'' ∧ d ≠ '(' := by
  refine ⟨?_, ?_, ?_⟩ <;> (rintro rfl; revert h; decide)

theorem numShape_cons (t : Str) (h : numShape t = true) : ∃ d r, t = d :: r ∧ XNum.isDigit d = true := by
  cases t with
  | nil => simp [numShape] at h
  | cons d r =>
    by_cases hd : XNum.isDigit d = true
    · exact ⟨d, r, rfl, hd⟩
    · simp [numShape, List.takeWhile, hd] at h

theorem prim_num (ts : List Str) (x : XNum) (hx : numOk x = true) (f pos : Nat) (t0 : Str) (rest : List Str)
    (h : ts.drop pos = numTok x :: t0 :: rest) :
    ∃ q, subExpr ts (f + 2) pos = .ok (.num x, q) ∧ ts.drop q = t0 :: rest := by
  cases x with
  | nan => simp [numOk] at hx
  | dec neg m e =>
    cases neg with
    | true => simp [numOk] at hx
    | false =>
      simp only [numOk, Bool.and_eq_true, decide_eq_true_eq] at hx
      obtain ⟨d, r, hdr, hd⟩ := numShape_cons _ hx.1
      obtain ⟨d1, d2, d3⟩ := digit_facts d hd
      have hpar := hx.2
      rw [hdr] at h hpar
      refine ⟨pos + 1, ?_, drop_succ h⟩
      have hq : isQuoted (d :: r) = false := by
        simp only [isQuoted, List.head?_cons]
        cases (d :: r).getLast? <;> simp [d1, d2]
      rw [subExpr_prim ts (f + 1) pos _ _ h (by simp [d3])]
      simp [primaryExpr, cur_drop h, hq, hd, next_drop h, hpar, bind, Except.bind, pure, Except.pure]

theorem prim_var (ts : List Str) (n : Str) (f pos : Nat) (t0 : Str) (rest : List Str)
    (h : ts.drop pos = ['$'] :: n :: t0 :: rest) :
    ∃ q, subExpr ts (f + 2) pos = .ok (.var n, q) ∧ ts.drop q = t0 :: rest := by
  have hd1 := drop_succ h
  refine ⟨pos + 1 + 1, ?_, drop_succ hd1⟩
  rw [subExpr_prim ts (f + 1) pos _ _ h (by decide)]
  have hdg : XNum.isDigit '$' = false := by decide
  simp [primaryExpr, cur_drop h, next_drop h, next_drop hd1, isQuoted, hdg, bind, Except.bind, pure, Except.pure]

/-! ## function calls -/

/-- `, a1 , a2 …` -/
def moreArgs : List Expr → List Str
  | [] => []
  | a :: r => comma :: (toks a ++ moreArgs r)

theorem moreArgs_length (as : List Expr) : as.length ≤ (moreArgs as).length := by
  induction as with
  | nil => simp [moreArgs]
  | cons a r ih => simp [moreArgs]; omega

theorem moreArgs_mem_length (as : List Expr) (a : Expr) (h : a ∈ as) :
    (toks a).length + as.length ≤ (moreArgs as).length := by
  induction as with
  | nil => cases h
  | cons b r ih =>
    have := moreArgs_length r
    rcases List.mem_cons.mp h with rfl | h'
    · simp [moreArgs]; omega
    · have := ih h'
      simp [moreArgs]; omega

/-- what follows the arguments: `,` or `)` -/
theorem moreArgs_head (as : List Expr) (x : Str) (r : List Str) :
    ∃ y r', moreArgs as ++ rpar :: x :: r = y :: r' ∧ Follow 0 y := by
  cases as with
  | nil => exact ⟨_, _, rfl, .rpar 0⟩
  | cons a as => exact ⟨_, _, rfl, .comma 0⟩

/-- the `while self.cur_token == ','` loop of `_function_call` -/
theorem argLoop_spec (ts : List Str) : ∀ (as : List Expr) (f q : Nat) (acc : List Expr) (t0 : Str) (rest : List Str),
    (∀ a ∈ as, SP ts 0 a (12 * (toks a).length + 8)) →
    ts.drop q = moreArgs as ++ rpar :: t0 :: rest →
    (∀ a ∈ as, 12 * (toks a).length + 8 + as.length + 1 ≤ f) → as.length + 1 ≤ f →
    ∃ q', argLoop ts f q acc = .ok (acc ++ as, q') ∧ ts.drop q' = rpar :: t0 :: rest := by
  intro as
  induction as with
  | nil =>
    intro f q acc t0 rest _ h _ hf
    obtain ⟨f', rfl⟩ : ∃ f', f = f' + 1 := ⟨f - 1, by simp at hf; omega⟩
    simp only [moreArgs, List.nil_append] at h
    refine ⟨q, ?_, h⟩
    have : (rpar == [',']) = false := by decide
    simp [argLoop, cur_drop h, this, bind, Except.bind, pure, Except.pure]
  | cons a as ih =>
    intro f q acc t0 rest hsp h hfa hf
    obtain ⟨f', rfl⟩ : ∃ f', f = f' + 1 := ⟨f - 1, by simp at hf; omega⟩
    simp only [moreArgs, List.cons_append, List.append_assoc] at h
    obtain ⟨y, r', hy, hfy⟩ := moreArgs_head as t0 rest
    obtain ⟨z, zr, hz⟩ := exists_cons_append (toks a) y r'
    have h' : ts.drop q = comma :: z :: zr := by rw [h, hy, hz]
    have hd1 : ts.drop (q + 1) = toksAt 0 a ++ y :: r' := by
      rw [toksAt_zero, drop_succ h, hy]
    have ha := hfa a List.mem_cons_self
    obtain ⟨q1, hq1, hdq1⟩ := hsp a List.mem_cons_self f' (q + 1) y r' hd1 hfy (by simp at ha; omega)
    rw [← hy] at hdq1
    obtain ⟨q', hq', hdq'⟩ := ih f' q1 (acc ++ [a]) t0 rest
      (fun x hx => hsp x (List.mem_cons_of_mem _ hx)) hdq1
      (fun x hx => by have := hfa x (List.mem_cons_of_mem _ hx); simp at this ⊢; omega)
      (by simp at hf ⊢; omega)
    refine ⟨q', ?_, hdq'⟩
    simp only [parseAt] at hq1
    rw [argLoop]
    simp only [cur_drop h', next_drop h', comma, bind, Except.bind, pure, Except.pure, beq_self_eq_true, if_true, hq1]
    rw [hq']
    simp

/-- a token `_primary_expr` takes for the name of a function when `(` or `()` follows -/
def FnTok (t : Str) : Prop :=
  (decide (t.length > 1) && isQuoted t) = false ∧ ((t.head?.map XNum.isDigit).getD false || t.head? == some '.') = false ∧
  (t == ['$']) = false ∧ (t == ['(']) = false

/-- `name ( a , … )` -/
theorem call_spec (ts : List Str) (name : Str) (hn : FnTok name) (a : Expr) (as : List Expr) (f pos : Nat)
    (t0 : Str) (rest : List Str)
    (h : ts.drop pos = name :: lpar :: (toks a ++ (moreArgs as ++ rpar :: t0 :: rest)))
    (hsp : ∀ x ∈ a :: as, SP ts 0 x (12 * (toks x).length + 8))
    (hfa : ∀ x ∈ a :: as, 12 * (toks x).length + 8 + as.length + 1 ≤ f) (hf : as.length + 1 ≤ f)
    (e : Expr) (he : functionOf name (a :: as) = .ok e) :
    ∃ q, subExpr ts (f + 3) pos = .ok (e, q) ∧ ts.drop q = t0 :: rest := by
  obtain ⟨n1, n2, n3, n4⟩ := hn
  obtain ⟨y, r', hy, hfy⟩ := moreArgs_head as t0 rest
  obtain ⟨z, zr, hz⟩ := exists_cons_append (toks a) y r'
  have hd1 := drop_succ h
  have hd2 : ts.drop (pos + 1 + 1) = toksAt 0 a ++ y :: r' := by rw [toksAt_zero, drop_succ hd1, hy]
  have hd1' : ts.drop (pos + 1) = lpar :: z :: zr := by rw [hd1, hy, hz]
  obtain ⟨q1, hq1, hdq1⟩ := hsp a List.mem_cons_self f (pos + 1 + 1) y r' hd2 hfy
    (by have := hfa a List.mem_cons_self; omega)
  rw [← hy] at hdq1
  obtain ⟨q', hq', hdq'⟩ := argLoop_spec ts as f q1 [a] t0 rest
    (fun x hx => hsp x (List.mem_cons_of_mem _ hx)) hdq1
    (fun x hx => hfa x (List.mem_cons_of_mem _ hx)) hf
  refine ⟨q' + 1, ?_, drop_succ hdq'⟩
  rw [subExpr_prim ts (f + 2) pos _ _ h n4]
  simp only [parseAt] at hq1
  have hl : (lpar.head? == some '(') = true := by decide
  have hl2 : (lpar == ['(', ')']) = false := by decide
  have hr : (rpar != [')']) = false := by decide
  rw [primaryExpr]
  simp only [cur_drop h, n1, n2, n3, atEnd_drop_two h, peek_drop_two h, hl, bind, Except.bind, pure, Except.pure,
    Bool.false_eq_true, if_false, Option.map_some, Option.getD_some, if_true]
  rw [functionCall]
  simp only [cur_drop h, next_drop h, hl2, next_drop hd1', hq1, hq', cur_drop hdq', hr, next_drop hdq', he,
    bind, Except.bind, pure, Except.pure, Bool.false_eq_true, if_false, List.cons_append, List.nil_append]

/-- `name()` -/
theorem call0_spec (ts : List Str) (name : Str) (hn : FnTok name) (f pos : Nat) (t0 : Str) (rest : List Str)
    (h : ts.drop pos = name :: ['(', ')'] :: t0 :: rest) (e : Expr) (he : functionOf name [] = .ok e) :
    ∃ q, subExpr ts (f + 3) pos = .ok (e, q) ∧ ts.drop q = t0 :: rest := by
  obtain ⟨n1, n2, n3, n4⟩ := hn
  have hd1 := drop_succ h
  refine ⟨pos + 1 + 1, ?_, drop_succ hd1⟩
  rw [subExpr_prim ts (f + 2) pos _ _ h n4]
  have hl : ((['(', ')'] : Str).head? == some '(') = true := by decide
  rw [primaryExpr]
  simp only [cur_drop h, n1, n2, n3, atEnd_drop_two h, peek_drop_two h, hl, bind, Except.bind, pure, Except.pure,
    Bool.false_eq_true, if_false, Option.map_some, Option.getD_some, if_true]
  rw [functionCall]
  simp [cur_drop h, next_drop h, next_drop hd1, he, bind, Except.bind, pure, Except.pure]

end Print
end Genshi.Path

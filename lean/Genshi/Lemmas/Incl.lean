/-
  C11 helper lemmas: one-step unfoldings of the render / prepare functions, the relation
  "prepared stream of a raw stream" (`PrepL`), the state and result relations of the simulation.
-/
import Genshi.Model.Incl
namespace Genshi.Incl

/-! ## `Res` -/

@[simp] theorem Res.bind_fuel {α β : Type} (k : α → Res β) : (Res.fuel : Res α).bind k = .fuel := rfl
@[simp] theorem Res.bind_err {α β : Type} (e : Err) (k : α → Res β) : (Res.err e : Res α).bind k = .err e := rfl
@[simp] theorem Res.bind_ok {α β : Type} (a : α) (k : α → Res β) : (Res.ok a).bind k = k a := rfl
@[simp] theorem Res.map_fuel {α β : Type} (f : α → β) : (Res.fuel : Res α).map f = .fuel := rfl
@[simp] theorem Res.map_err {α β : Type} (e : Err) (f : α → β) : (Res.err e : Res α).map f = .err e := rfl
@[simp] theorem Res.map_ok {α β : Type} (a : α) (f : α → β) : (Res.ok a).map f = .ok (f a) := rfl

theorem Res.bind_assoc {α β γ : Type} (x : Res α) (k : α → Res β) (h : β → Res γ) :
    (x.bind k).bind h = x.bind fun a => (k a).bind h := by
  cases x <;> rfl

/-! ## one-step unfoldings -/

section unfold
variable (inl : Mode) (files : Files) (J : RJ) (rng : Rng) (st : St)

theorem renderL_nil : renderL inl files J rng [] st = .ok ([], st) := rfl

theorem renderL_cons (n : Node) (ns : List Node) :
    renderL inl files J rng (n :: ns) st =
      (renderN inl files J rng n st).bind fun r1 =>
        (renderL inl files J rng ns r1.2).bind fun r2 => .ok (r1.1 ++ r2.1, r2.2) := rfl

theorem renderN_text (s : List Char) : renderN inl files J rng (.text s) st = .ok ([.text s], st) := rfl

theorem renderN_var (x : Name) :
    renderN inl files J rng (.var x) st =
      match st.lookup x with
      | none => .err .undefined
      | some v => match v.text? with
        | none => .err .unmodelled
        | some s => .ok ([.text s], st) := rfl

theorem renderN_elem (tag : Name) (body : List Node) :
    renderN inl files J rng (.elem tag body) st =
      match firstMatch st.mts rng tag with
      | none =>
        (renderL inl files J rng body st).bind fun r => .ok (.start tag :: r.1 ++ [.stop tag], r.2)
      | some (idx, mb) =>
        (renderL inl files J ⟨rng.lo, some (idx + 1), false⟩ body st).bind fun r =>
          (J ⟨idx + 1, rng.hi, false⟩ mb { r.2 with sel := r.1 :: r.2.sel }).bind fun r' =>
            .ok (r'.1, { r'.2 with sel := r'.2.sel.tail }) := rfl

theorem renderN_select :
    renderN inl files J rng .select st =
      match st.sel with
      | [] => .err .undefined
      | c :: _ => J rng (evsToNodes c) st := rfl

theorem renderN_cond (c : Cond) (body : List Node) :
    renderN inl files J rng (.cond c body) st =
      (evalCond st c).bind fun b => if b then renderL inl files J rng body st else .ok ([], st) := rfl

theorem renderN_loop (x xs : Name) (body : List Node) :
    renderN inl files J rng (.loop x xs body) st =
      match st.lookup xs with
      | none => .err .undefined
      | some v => loopItems (fun st' => renderL inl files J rng body st') x v.items st := rfl

theorem renderN_defn (m : Name) (body : List Node) :
    renderN inl files J rng (.defn m body) st = .ok ([], { st with macros := (m, body) :: st.macros }) := rfl

theorem renderN_call (m : Name) :
    renderN inl files J rng (.call m) st =
      match st.macros.lookup m with
      | some body => J rng body st
      | none => match st.lookup m with
        | none => .err .undefined
        | some _ => .err .unmodelled := rfl

theorem renderN_matchT (tag : Name) (body : List Node) :
    renderN inl files J rng (.matchT tag body) st = .ok ([], { st with mts := st.mts ++ [(tag, body)] }) := rfl

theorem renderN_include (href : Href) (cls : Kind) (hasFb : Bool) (fb : List Node) (pos : Name) :
    renderN inl files J rng (.include href cls hasFb fb pos) st =
      (evalHref st href).bind fun h =>
        match resolve pos h with
        | none => .err .unmodelled
        | some name =>
          match loadT inl files name cls st with
          | .ok (body, st1) => J (.ofKind cls) body st1
          | .err .notFound => if hasFb then renderL inl files J rng.fresh fb st else .err .notFound
          | .err e => .err e
          | .fuel => .fuel := rfl

theorem renderN_inlined (body : List Node) :
    renderN inl files J rng (.inlined body) st = J rng body st := rfl

theorem renderL_append (a b : List Node) :
    renderL inl files J rng (a ++ b) st =
      (renderL inl files J rng a st).bind fun r1 =>
        (renderL inl files J rng b r1.2).bind fun r2 => .ok (r1.1 ++ r2.1, r2.2) := by
  induction a generalizing st with
  | nil =>
    simp only [List.nil_append, renderL_nil, Res.bind_ok]
    cases renderL inl files J rng b st <;> simp
  | cons n ns ih =>
    simp only [List.cons_append, renderL_cons]
    cases hn : renderN inl files J rng n st with
    | fuel => simp
    | err e => simp
    | ok r1 =>
      simp only [Res.bind_ok]
      rw [ih]
      cases hs : renderL inl files J rng ns r1.2 with
      | fuel => simp
      | err e => simp
      | ok r2 =>
        simp only [Res.bind_ok]
        cases renderL inl files J rng b r2.2 <;> simp [List.append_assoc]

end unfold

theorem render_zero (inl : Mode) (files : Files) (rng : Rng) (ns : List Node) (st : St) :
    render inl files 0 rng ns st = .fuel := rfl

theorem render_succ (inl : Mode) (files : Files) (f : Nat) (rng : Rng) (ns : List Node) (st : St) :
    render inl files (f + 1) rng ns st = renderL inl files (render inl files f) rng ns st := rfl

/-! ## "`p` is a prepared form of the raw stream `r`"

`zone = true` inside an element that a match template may rewrite (tag in `T`) and inside match
template bodies: there the match window is restricted and a run-time include restarts it.  A
statically named include may have been replaced by the (prepared, marked) stream of its target,
or by its prepared fallback when the target does not exist; inside a zone only when what was
inlined does not depend on the window (`winfreeL`). -/
inductive PrepL (T : List Name) (files : Files) : Bool → List Node → List Node → Prop
  | nil {z} : PrepL T files z [] []
  | text {z s r r'} : PrepL T files z r r' → PrepL T files z (.text s :: r) (.text s :: r')
  | var {z x r r'} : PrepL T files z r r' → PrepL T files z (.var x :: r) (.var x :: r')
  | call {m r r'} : PrepL T files false r r' → PrepL T files false (.call m :: r) (.call m :: r')
  | select {z r r'} : PrepL T files z r r' → PrepL T files z (.select :: r) (.select :: r')
  | elem {z t b b' r r'} : PrepL T files (z || decide (t ∈ T)) b b' → PrepL T files z r r' →
      PrepL T files z (.elem t b :: r) (.elem t b' :: r')
  | cond {z c b b' r r'} : PrepL T files z b b' → PrepL T files z r r' →
      PrepL T files z (.cond c b :: r) (.cond c b' :: r')
  | loop {z x xs b b' r r'} : PrepL T files z b b' → PrepL T files z r r' →
      PrepL T files z (.loop x xs b :: r) (.loop x xs b' :: r')
  | defn {z m b b' r r'} : PrepL T files false b b' → PrepL T files z r r' →
      PrepL T files z (.defn m b :: r) (.defn m b' :: r')
  | matchT {z t b b' r r'} : t ∈ T → PrepL T files true b b' → PrepL T files z r r' →
      PrepL T files z (.matchT t b :: r) (.matchT t b' :: r')
  | inlined {z b b' r r'} : PrepL T files z b b' → PrepL T files z r r' →
      PrepL T files z (.inlined b :: r) (.inlined b' :: r')
  | keep {z h c hf fb fb' p r r'} : PrepL T files false fb fb' → PrepL T files z r r' →
      PrepL T files z (.include h c hf fb p :: r) (.include h c hf fb' p :: r')
  | inlineFound {z h c hf fb p name body body' r r'} :
      resolve p h = some name → files.find name = some ⟨c, some body⟩ →
      (z = true → winfreeL T body = true) →
      PrepL T files false body body' → PrepL T files z r r' →
      PrepL T files z (.include (.static h) c hf fb p :: r) (.inlined body' :: r')
  | inlineMissing {z h c fb fb' p name r r'} :
      resolve p h = some name → files.find name = none →
      (z = true → winfreeL T fb = true) →
      PrepL T files false fb fb' → PrepL T files z r r' →
      PrepL T files z (.include (.static h) c true fb p :: r) (fb' ++ r')

theorem PrepL.append {T files z a a' b b'} (ha : PrepL T files z a a') (hb : PrepL T files z b b') :
    PrepL T files z (a ++ b) (a' ++ b') := by
  induction ha with
  | nil => simpa using hb
  | text _ ih => exact .text (ih hb)
  | var _ ih => exact .var (ih hb)
  | call _ ih => exact .call (ih hb)
  | select _ ih => exact .select (ih hb)
  | elem h1 _ _ ih => exact .elem h1 (ih hb)
  | cond h1 _ _ ih => exact .cond h1 (ih hb)
  | loop h1 _ _ ih => exact .loop h1 (ih hb)
  | defn h1 _ _ ih => exact .defn h1 (ih hb)
  | matchT ht h1 _ _ ih => exact .matchT ht h1 (ih hb)
  | inlined h1 _ _ ih => exact .inlined h1 (ih hb)
  | keep h1 _ _ ih => exact .keep h1 (ih hb)
  | inlineFound hr hf hw h1 _ _ ih => exact .inlineFound hr hf hw h1 (ih hb)
  | inlineMissing hr hf hw h1 _ _ ih =>
    rw [List.cons_append, List.append_assoc]
    exact .inlineMissing hr hf hw h1 (ih hb)



mutual
def plainN : Node → Bool
  | .text _ => true
  | .elem _ b => plainL b
  | _ => false
termination_by structural n => n
def plainL : List Node → Bool
  | [] => true
  | n :: ns => plainN n && plainL ns
termination_by structural l => l
end

theorem plainL_append {a b : List Node} (ha : plainL a = true) (hb : plainL b = true) : plainL (a ++ b) = true := by
  induction a with
  | nil => exact hb
  | cons n ns ih =>
    simp only [plainL, Bool.and_eq_true] at ha
    simp only [List.cons_append, plainL, Bool.and_eq_true]
    exact ⟨ha.1, ih ha.2⟩

theorem plainL_reverse {a : List Node} (ha : plainL a = true) : plainL a.reverse = true := by
  induction a with
  | nil => rfl
  | cons n ns ih =>
    simp only [plainL, Bool.and_eq_true] at ha
    rw [List.reverse_cons]
    exact plainL_append (ih ha.2) (by simp [plainL, ha.1])

theorem evsToNodesAux_plain : ∀ (es : List Ev) (acc : List Node) (st : List (List Node)),
    plainL acc = true → (∀ l ∈ st, plainL l = true) → plainL (evsToNodesAux es acc st) = true
  | [], acc, _, ha, _ => plainL_reverse ha
  | .text s :: es, acc, st, ha, hs => evsToNodesAux_plain es _ st (by simp [plainL, plainN, ha]) hs
  | .start _ :: es, acc, st, ha, hs =>
    evsToNodesAux_plain es [] (acc :: st) rfl (by intro l hl; rcases List.mem_cons.mp hl with rfl | h; exact ha; exact hs l h)
  | .stop t :: es, acc, parent :: st, ha, hs =>
    evsToNodesAux_plain es _ st
      (by simp only [plainL, plainN, Bool.and_eq_true]; exact ⟨plainL_reverse ha, hs parent (by simp)⟩)
      (fun l hl => hs l (List.mem_cons_of_mem _ hl))
  | .stop _ :: es, acc, [], ha, hs => evsToNodesAux_plain es acc [] ha hs

theorem evsToNodes_plain (es : List Ev) : plainL (evsToNodes es) = true :=
  evsToNodesAux_plain es [] [] rfl (by intro l hl; simp at hl)

mutual
theorem prepL_of_plainN {T : List Name} {files : Files} : ∀ (n : Node) (z : Bool) (r : List Node),
    plainN n = true → PrepL T files z r r → PrepL T files z (n :: r) (n :: r)
  | .text _, _, _, _, hr => .text hr
  | .elem t b, z, _, h, hr => .elem (prepL_of_plainL b _ (by simpa [plainN] using h)) hr
  | .var _, _, _, h, _ => by simp [plainN] at h
  | .cond _ _, _, _, h, _ => by simp [plainN] at h
  | .loop _ _ _, _, _, h, _ => by simp [plainN] at h
  | .defn _ _, _, _, h, _ => by simp [plainN] at h
  | .call _, _, _, h, _ => by simp [plainN] at h
  | .matchT _ _, _, _, h, _ => by simp [plainN] at h
  | .select, _, _, h, _ => by simp [plainN] at h
  | .include _ _ _ _ _, _, _, h, _ => by simp [plainN] at h
  | .inlined _, _, _, h, _ => by simp [plainN] at h
termination_by structural n => n
theorem prepL_of_plainL {T : List Name} {files : Files} : ∀ (ns : List Node) (z : Bool),
    plainL ns = true → PrepL T files z ns ns
  | [], _, _ => .nil
  | n :: ns, z, h => by
    simp only [plainL, Bool.and_eq_true] at h
    exact prepL_of_plainN n z ns h.1 (prepL_of_plainL ns z h.2)
termination_by structural ns => ns
end


/-! ## the simulation relations -/

/-- pointwise relation of two lists (core has no `Forall₂`) -/
inductive All2 {α β : Type} (P : α → β → Prop) : List α → List β → Prop
  | nil : All2 P [] []
  | cons {a b as bs} : P a b → All2 P as bs → All2 P (a :: as) (b :: bs)

theorem All2.snoc {α β : Type} {P : α → β → Prop} {as bs a b} (h : All2 P as bs) (hab : P a b) :
    All2 P (as ++ [a]) (bs ++ [b]) := by
  induction h with
  | nil => exact .cons hab .nil
  | cons h1 _ ih => exact .cons h1 ih

/-- every prepared stream in the loader's cache is a prepared form of its file's raw stream -/
def CacheInv (T : List Name) (files : Files) (c : Cache) : Prop :=
  ∀ name b', (name, b') ∈ c → ∃ k body, files.find name = some ⟨k, some body⟩ ∧ PrepL T files false body b'

/-- run-time-mode context vs inline-mode context: the same data; macros and match templates
registered so far have raw vs prepared bodies -/
structure StRel (T : List Name) (files : Files) (s s' : St) : Prop where
  frames : s.frames = s'.frames
  data : s.data = s'.data
  macros : All2 (fun a b => a.1 = b.1 ∧ PrepL T files false a.2 b.2) s.macros s'.macros
  mts : All2 (fun a b => a.1 = b.1 ∧ a.1 ∈ T ∧ PrepL T files true a.2 b.2) s.mts s'.mts
  cache : CacheInv T files s'.cache
  sel : s.sel = s'.sel

def RRel (T : List Name) (files : Files) : R → R → Prop
  | .fuel, .fuel => True
  | .err e, .err e' => e = e'
  | .ok r, .ok r' => r.1 = r'.1 ∧ StRel T files r.2 r'.2
  | _, _ => False

theorem RRel.bind {T files} {x x' : R} {k k' : List Ev × St → R} (hx : RRel T files x x')
    (hk : ∀ r r', r.1 = r'.1 → StRel T files r.2 r'.2 → RRel T files (k r) (k' r')) :
    RRel T files (x.bind k) (x'.bind k') := by
  cases x with
  | fuel => cases x' <;> simp_all [RRel]
  | err e => cases x' <;> simp_all [RRel]
  | ok r =>
    cases x' with
    | fuel => simp [RRel] at hx
    | err e => simp [RRel] at hx
    | ok r' =>
      simp only [RRel] at hx
      exact hk r r' hx.1 hx.2

theorem StRel.lookup {T files s s'} (h : StRel T files s s') (x : Name) : s.lookup x = s'.lookup x := by
  simp [St.lookup, h.frames, h.data]

theorem evalCond_rel {T files s s'} (h : StRel T files s s') (c : Cond) : evalCond s c = evalCond s' c := by
  cases c <;> simp [evalCond, h.lookup]

theorem evalParts_rel {T files s s'} (h : StRel T files s s') (ps : List Part) : evalParts s ps = evalParts s' ps := by
  induction ps with
  | nil => rfl
  | cons p ps ih => cases p <;> simp [evalParts, h.lookup, ih]

theorem evalHref_rel {T files s s'} (h : StRel T files s s') (hr : Href) : evalHref s hr = evalHref s' hr := by
  cases hr <;> simp [evalHref, evalParts_rel h]

theorem firstMatchFrom_rel {T files rng tag} {ms ms' : List (Name × List Node)}
    (h : All2 (fun a b => a.1 = b.1 ∧ a.1 ∈ T ∧ PrepL T files true a.2 b.2) ms ms') (i : Nat) :
    (firstMatchFrom rng tag ms i = none ∧ firstMatchFrom rng tag ms' i = none) ∨
    ∃ idx mb mb', firstMatchFrom rng tag ms i = some (idx, mb) ∧ firstMatchFrom rng tag ms' i = some (idx, mb') ∧
      tag ∈ T ∧ PrepL T files true mb mb' := by
  induction h generalizing i with
  | nil => exact .inl ⟨rfl, rfl⟩
  | @cons a b as bs hab _ ih =>
    obtain ⟨t, mb⟩ := a
    obtain ⟨t', mb'⟩ := b
    obtain ⟨ht, hT, hp⟩ := hab
    simp only at ht hT hp
    subst ht
    simp only [firstMatchFrom]
    by_cases hc : (rng.contains i && decide (t = tag)) = true
    · simp only [hc, if_true]
      simp only [Bool.and_eq_true, decide_eq_true_eq] at hc
      exact .inr ⟨i, mb, mb', rfl, rfl, hc.2 ▸ hT, hp⟩
    · simp only [hc, if_false]
      exact ih (i + 1)

theorem lookup_rel {T files} {ms ms' : List (Name × List Node)}
    (h : All2 (fun a b => a.1 = b.1 ∧ PrepL T files false a.2 b.2) ms ms') (m : Name) :
    (ms.lookup m = none ∧ ms'.lookup m = none) ∨
    ∃ b b', ms.lookup m = some b ∧ ms'.lookup m = some b' ∧ PrepL T files false b b' := by
  induction h with
  | nil => exact .inl ⟨rfl, rfl⟩
  | @cons a b as bs hab _ ih =>
    obtain ⟨t, mb⟩ := a
    obtain ⟨t', mb'⟩ := b
    obtain ⟨ht, hp⟩ := hab
    simp only at ht hp
    subst ht
    simp only [List.lookup]
    cases hm : (m == t) with
    | true => exact .inr ⟨mb, mb', rfl, rfl, hp⟩
    | false => exact ih

theorem loopItems_rel {T files} {k k' : St → R} (x : Name)
    (hk : ∀ s s', StRel T files s s' → RRel T files (k s) (k' s')) :
    ∀ (vs : List Value) s s', StRel T files s s' → RRel T files (loopItems k x vs s) (loopItems k' x vs s') := by
  intro vs
  induction vs with
  | nil => intro s s' h; exact ⟨rfl, h⟩
  | cons v vs ih =>
    intro s s' h
    simp only [loopItems]
    apply RRel.bind
    · apply hk
      exact { h with frames := by simp [h.frames] }
    · intro r1 r1' ho hs
      apply RRel.bind
      · apply ih
        exact { hs with frames := by simp [hs.frames] }
      · intro r2 r2' ho2 hs2
        exact ⟨by rw [ho, ho2], hs2⟩

/-- what the simulation needs from the loader in inline mode: a found template comes back as a
prepared form of its file (proved from the hypothesis `inH` in `Lemmas/InclPrep.lean`) -/
def LoadOK (T : List Name) (files : Files) : Prop :=
  ∀ name cls c, CacheInv T files c →
    match loadRaw files name cls with
    | .ok body => ∃ body' c', loadInl files name cls c = .ok (body', c') ∧
        PrepL T files false body body' ∧ CacheInv T files c'
    | .err e => loadInl files name cls c = .err e
    | .fuel => False

/-- how the match windows of the two runs are coupled.  Either both runs are in the same markup
pipeline with the same window, which is the full one outside zones; or the stream does not depend
on the window (`winfreeL`: e.g. a text template, or a fragment without matchable elements): then
the run-time run may be in the included template's own pipeline while the inline run, the
template having been inlined, still is under the includer's window -/
def Coup (T : List Name) (z : Bool) (rngR rngI : Rng) (raw : List Node) : Prop :=
  (rngR = rngI ∧ rngR.nomt = false ∧ (z = false → rngR = .full)) ∨ winfreeL T raw = true

mutual
theorem winfreeN_of_textual (T : List Name) : ∀ n : Node, textualN n = true → winfreeN T n = true
  | .text _, _ => rfl
  | .var _, _ => rfl
  | .call _, h => by simp [textualN] at h
  | .select, h => by simp [textualN] at h
  | .elem _ _, h => by simp [textualN] at h
  | .matchT _ _, h => by simp [textualN] at h
  | .cond _ b, h => by simp only [textualN] at h; simp only [winfreeN]; exact winfreeL_of_textual T b h
  | .loop _ _ b, h => by simp only [textualN] at h; simp only [winfreeN]; exact winfreeL_of_textual T b h
  | .inlined b, h => by simp only [textualN] at h; simp only [winfreeN]; exact winfreeL_of_textual T b h
  | .defn _ _, _ => rfl
  | .include (.static _) cls _ fb _, h => by
    simp only [textualN, Bool.and_eq_true] at h
    simp only [winfreeN, Bool.and_eq_true]
    exact ⟨h.1, winfreeL_of_textual T fb h.2⟩
  | .include (.dyn _) cls _ fb _, h => by
    simp only [textualN, Bool.and_eq_true] at h
    simp only [winfreeN]
    exact winfreeL_of_textual T fb h.2
termination_by structural n => n
theorem winfreeL_of_textual (T : List Name) : ∀ ns : List Node, textualL ns = true → winfreeL T ns = true
  | [], _ => rfl
  | n :: ns, h => by
    simp only [textualL, Bool.and_eq_true] at h
    simp only [winfreeL, Bool.and_eq_true]
    exact ⟨winfreeN_of_textual T n h.1, winfreeL_of_textual T ns h.2⟩
termination_by structural ns => ns
end

/-- text templates are textual (from `inH`) -/
def TextOK (files : Files) : Prop :=
  ∀ name body, files.find name = some ⟨.text, some body⟩ → textualL body = true

/-- entering a stream at lower fuel preserves the relation (induction hypothesis on fuel) -/
def JRel (T : List Name) (files : Files) (J J' : RJ) : Prop :=
  ∀ z rngR rngI raw prep s s', PrepL T files z raw prep → Coup T z rngR rngI raw → StRel T files s s' →
    RRel T files (J rngR raw s) (J' rngI prep s')

theorem Coup.full {T : List Name} {raw : List Node} : Coup T false .full .full raw := .inl ⟨rfl, rfl, fun _ => rfl⟩

/-- the windows after entering a target of class `cls`, whose body is textual when `cls` is text -/
theorem Coup.ofKind {T : List Name} {z : Bool} {cls : Kind} {rngI : Rng} {body : List Node}
    (ht : cls = .text → textualL body = true) (hm : cls = .markup → rngI = .full ∨ winfreeL T body = true) :
    Coup T z (.ofKind cls) rngI body := by
  cases cls with
  | markup =>
    rcases hm rfl with h | h
    · rw [h]; exact .inl ⟨rfl, rfl, fun _ => rfl⟩
    · exact .inr h
  | text => exact .inr (winfreeL_of_textual T body (ht rfl))

theorem loadRaw_text {files : Files} (htx : TextOK files) {name : Name} {cls : Kind} {body : List Node}
    (h : loadRaw files name cls = .ok body) : cls = .text → textualL body = true := by
  intro hc
  subst hc
  simp only [loadRaw] at h
  cases hf : files.find name with
  | none => simp [hf] at h
  | some f =>
    obtain ⟨fk, fb⟩ := f
    simp only [hf] at h
    by_cases hk : fk = .text
    · subst hk
      cases fb with
      | none => simp at h
      | some b => simp at h; subst h; exact htx name b hf
    · simp [hk] at h

theorem seq_rel {T files} {x x' : R} {k k' : St → R}
    (hx : RRel T files x x') (hk : ∀ s s', StRel T files s s' → RRel T files (k s) (k' s')) :
    RRel T files (x.bind fun r1 => (k r1.2).bind fun r2 => .ok (r1.1 ++ r2.1, r2.2))
      (x'.bind fun r1 => (k' r1.2).bind fun r2 => .ok (r1.1 ++ r2.1, r2.2)) := by
  apply RRel.bind hx
  intro r1 r1' ho hs
  apply RRel.bind (hk _ _ hs)
  intro r2 r2' ho2 hs2
  exact ⟨by rw [ho, ho2], hs2⟩

theorem Coup.tail {T z rR rI n r} (h : Coup T z rR rI (n :: r)) : Coup T z rR rI r := by
  rcases h with h | ht
  · exact .inl h
  · simp only [winfreeL, Bool.and_eq_true] at ht
    exact .inr ht.2

theorem Coup.head_w {T z rR rI n r} (h : Coup T z rR rI (n :: r)) (hn : winfreeN T n = false) :
    rR = rI ∧ rR.nomt = false ∧ (z = false → rR = .full) := by
  rcases h with h | ht
  · exact h
  · simp [winfreeL, hn] at ht

theorem Coup.sub {T z z' rR rI n r b} (h : Coup T z rR rI (n :: r)) (hz : z' = false → z = false)
    (hb : winfreeN T n = true → winfreeL T b = true) : Coup T z' rR rI b := by
  rcases h with ⟨he, hn, hf⟩ | ht
  · exact .inl ⟨he, hn, fun h' => hf (hz h')⟩
  · simp only [winfreeL, Bool.and_eq_true] at ht
    exact .inr (hb ht.1)

theorem Rng.fresh_of_nomt {r : Rng} (h : r.nomt = false) : r.fresh = .full := by
  simp [Rng.fresh, Rng.full, h]

theorem Coup.fresh {T z rR rI n r fb} (h : Coup T z rR rI (n :: r)) (hb : winfreeN T n = true → winfreeL T fb = true) :
    Coup T false rR.fresh rI.fresh fb := by
  rcases h with ⟨he, hn, _⟩ | ht
  · subst he
    rw [Rng.fresh_of_nomt hn]; exact .full
  · simp only [winfreeL, Bool.and_eq_true] at ht
    exact .inr (hb ht.1)

theorem firstMatchFrom_none_of_notin {T files rng rng' tag} {ms ms' : List (Name × List Node)}
    (h : All2 (fun a b => a.1 = b.1 ∧ a.1 ∈ T ∧ PrepL T files true a.2 b.2) ms ms') (ht : tag ∉ T) (i : Nat) :
    firstMatchFrom rng tag ms i = none ∧ firstMatchFrom rng' tag ms' i = none := by
  induction h generalizing i with
  | nil => exact ⟨rfl, rfl⟩
  | @cons a b as bs hab _ ih =>
    obtain ⟨t, mb⟩ := a
    obtain ⟨t', mb'⟩ := b
    obtain ⟨he, hT, _⟩ := hab
    simp only at he hT
    subst he
    have hne : t ≠ tag := fun h => ht (h ▸ hT)
    simp only [firstMatchFrom, hne, decide_false, Bool.and_false, Bool.false_eq_true, if_false]
    exact ih (i + 1)

theorem simL {T files} (hload : LoadOK T files) (htx : TextOK files) {J J' : RJ} (hJ : JRel T files J J') :
    ∀ {z raw prep}, PrepL T files z raw prep → ∀ rR rI s s', Coup T z rR rI raw → StRel T files s s' →
      RRel T files (renderL .runtime files J rR raw s) (renderL .inlineM files J' rI prep s') := by
  intro z raw prep hp
  induction hp with
  | nil => intro rR rI s s' _ h; exact ⟨rfl, h⟩
  | text _ ih =>
    intro rR rI s s' hc h
    rw [renderL_cons, renderL_cons]
    exact seq_rel (by rw [renderN_text, renderN_text]; exact ⟨rfl, h⟩) (fun s1 s1' h1 => ih rR rI s1 s1' hc.tail h1)
  | @var z x r r' _ ih =>
    intro rR rI s s' hc h
    rw [renderL_cons, renderL_cons]
    refine seq_rel ?_ (fun s1 s1' h1 => ih rR rI s1 s1' hc.tail h1)
    rw [renderN_var, renderN_var, ← h.lookup]
    cases s.lookup x with
    | none => exact rfl
    | some v =>
      dsimp only
      cases v.text? with
      | none => exact rfl
      | some t => exact ⟨rfl, h⟩
  | @call m r r' _ ih =>
    intro rR rI s s' hc h
    rw [renderL_cons, renderL_cons]
    refine seq_rel ?_ (fun s1 s1' h1 => ih rR rI s1 s1' hc.tail h1)
    obtain ⟨he, hn, hf⟩ := hc.head_w (by simp [winfreeN])
    subst he
    rw [renderN_call, renderN_call]
    rcases lookup_rel h.macros m with ⟨h1, h2⟩ | ⟨b, b', h1, h2, hb⟩
    · rw [h1, h2, ← h.lookup]
      cases s.lookup m <;> rfl
    · rw [h1, h2]
      exact hJ false rR rR b b' s s' hb (.inl ⟨rfl, hn, hf⟩) h
  | @select z r r' _ ih =>
    intro rR rI s s' hc h
    rw [renderL_cons, renderL_cons]
    refine seq_rel ?_ (fun s1 s1' h1 => ih rR rI s1 s1' hc.tail h1)
    obtain ⟨he, hn, hf⟩ := hc.head_w (by simp [winfreeN])
    subst he
    rw [renderN_select, renderN_select, ← h.sel]
    cases s.sel with
    | nil => rfl
    | cons c _ =>
      exact hJ z rR rR _ _ s s' (prepL_of_plainL _ z (evsToNodes_plain c)) (.inl ⟨rfl, hn, hf⟩) h
  | @elem z t b b' r r' _ _ ihb ih =>
    intro rR rI s s' hc h
    rw [renderL_cons, renderL_cons]
    refine seq_rel ?_ (fun s1 s1' h1 => ih rR rI s1 s1' hc.tail h1)
    rw [renderN_elem, renderN_elem]
    by_cases htT : t ∈ T
    · -- a matchable element: both runs are under the same window
      obtain ⟨he, hn, hf⟩ := hc.head_w (by simp [winfreeN, htT])
      subst he
      rcases firstMatchFrom_rel (rng := rR) (tag := t) h.mts 0 with ⟨h1, h2⟩ | ⟨idx, mb, mb', h1, h2, hT, hmb⟩
      · simp only [firstMatch, h1, h2]
        apply RRel.bind
        · apply ihb rR rR s s' _ h
          exact .inl ⟨rfl, hn, fun hzz => by simp [htT] at hzz⟩
        · intro r1 r1' ho hs
          exact ⟨by rw [ho], hs⟩
      · simp only [firstMatch, h1, h2]
        apply RRel.bind
        · apply ihb _ _ s s' _ h
          exact .inl ⟨rfl, rfl, fun hzz => by simp [hT] at hzz⟩
        · intro r1 r1' ho hs
          apply RRel.bind
          · exact hJ true _ _ mb mb' _ _ hmb (.inl ⟨rfl, rfl, fun hzz => by cases hzz⟩)
              { hs with sel := by simp [ho, hs.sel] }
          · intro r2 r2' ho2 hs2
            exact ⟨ho2, { hs2 with sel := by simp [hs2.sel] }⟩
    · -- no match template is written for this tag: the windows are not consulted
      obtain ⟨h1, h2⟩ := firstMatchFrom_none_of_notin (rng := rR) (rng' := rI) h.mts htT 0
      simp only [firstMatch, h1, h2]
      apply RRel.bind
      · apply ihb rR rI s s' _ h
        exact hc.sub (by intro hz; simpa [htT] using hz) (by intro hw; simp only [winfreeN, Bool.and_eq_true] at hw; exact hw.2)
      · intro r1 r1' ho hs
        exact ⟨by rw [ho], hs⟩
  | @cond z c b b' r r' _ _ ihb ih =>
    intro rR rI s s' hc h
    rw [renderL_cons, renderL_cons]
    refine seq_rel ?_ (fun s1 s1' h1 => ih rR rI s1 s1' hc.tail h1)
    rw [renderN_cond, renderN_cond, ← evalCond_rel h]
    cases evalCond s c with
    | fuel => trivial
    | err e => rfl
    | ok bb =>
      cases bb with
      | true => exact ihb rR rI s s' (hc.sub id (by simp [winfreeN])) h
      | false => exact ⟨rfl, h⟩
  | @loop z x xs b b' r r' _ _ ihb ih =>
    intro rR rI s s' hc h
    rw [renderL_cons, renderL_cons]
    refine seq_rel ?_ (fun s1 s1' h1 => ih rR rI s1 s1' hc.tail h1)
    rw [renderN_loop, renderN_loop, ← h.lookup]
    cases s.lookup xs with
    | none => rfl
    | some v => exact loopItems_rel x (fun s1 s1' h1 => ihb rR rI s1 s1' (hc.sub id (by simp [winfreeN])) h1) _ s s' h
  | @defn z m b b' r r' hb _ _ ih =>
    intro rR rI s s' hc h
    rw [renderL_cons, renderL_cons]
    refine seq_rel ?_ (fun s1 s1' h1 => ih rR rI s1 s1' hc.tail h1)
    rw [renderN_defn, renderN_defn]
    exact ⟨rfl, { h with macros := .cons ⟨rfl, hb⟩ h.macros }⟩
  | @matchT z t b b' r r' hT hb _ _ ih =>
    intro rR rI s s' hc h
    rw [renderL_cons, renderL_cons]
    refine seq_rel ?_ (fun s1 s1' h1 => ih rR rI s1 s1' hc.tail h1)
    rw [renderN_matchT, renderN_matchT]
    exact ⟨rfl, { h with mts := h.mts.snoc ⟨rfl, hT, hb⟩ }⟩
  | @inlined z b b' r r' hb _ _ ih =>
    intro rR rI s s' hc h
    rw [renderL_cons, renderL_cons]
    refine seq_rel ?_ (fun s1 s1' h1 => ih rR rI s1 s1' hc.tail h1)
    rw [renderN_inlined, renderN_inlined]
    exact hJ z rR rI b b' s s' hb (hc.sub id (by simp [winfreeN])) h
  | @keep z hr c hf fb fb' p r r' _ _ ihfb ih =>
    intro rR rI s s' hc h
    rw [renderL_cons, renderL_cons]
    refine seq_rel ?_ (fun s1 s1' h1 => ih rR rI s1 s1' hc.tail h1)
    rw [renderN_include, renderN_include, ← evalHref_rel h]
    cases evalHref s hr with
    | fuel => trivial
    | err e => rfl
    | ok hh =>
      simp only [Res.bind_ok]
      cases resolve p hh with
      | none => rfl
      | some name =>
        simp only [loadT]
        have hl := hload name c s'.cache h.cache
        cases hraw : loadRaw files name c with
        | fuel => simp [hraw] at hl
        | err e =>
          simp only [hraw] at hl
          simp only [hl, Res.map_err]
          cases e with
          | notFound =>
            cases hf with
            | true =>
              refine ihfb _ _ s s' (hc.fresh ?_) h
              intro hw
              cases hr <;> simp only [winfreeN, Bool.and_eq_true] at hw
              · exact hw.2
              · exact hw
            | false => rfl
          | syntaxErr => rfl
          | undefined => rfl
          | unmodelled => rfl
        | ok body =>
          simp only [hraw] at hl
          obtain ⟨body', c', hli, hpb, hc'⟩ := hl
          simp only [hli, Res.map_ok]
          refine hJ false _ _ body body' _ _ hpb (Coup.ofKind (loadRaw_text htx hraw) ?_) { h with cache := hc' }
          intro hk; subst hk; exact .inl rfl
  | @inlineFound z hh c hf fb p name body body' r r' hres hfind hw hb _ _ ih =>
    intro rR rI s s' hc h
    rw [renderL_cons, renderL_cons]
    refine seq_rel ?_ (fun s1 s1' h1 => ih rR rI s1 s1' hc.tail h1)
    rw [renderN_include, renderN_inlined]
    simp only [evalHref, Res.bind_ok, hres, loadT, loadRaw, hfind,
      ne_eq, not_true_eq_false, Res.map_ok]
    refine hJ false _ _ body body' s s' hb (Coup.ofKind ?_ ?_) h
    · intro hk; subst hk; exact htx name body hfind
    · intro hk
      subst hk
      cases z with
      | true => exact .inr (hw rfl)
      | false =>
        rcases hc with ⟨he, _, hfull⟩ | ht
        · exact .inl (he ▸ hfull rfl)
        · simp [winfreeL, winfreeN] at ht
  | @inlineMissing z hh c fb fb' p name r r' hres hfind hw _ _ ihfb ih =>
    intro rR rI s s' hc h
    rw [renderL_cons, renderL_append]
    refine seq_rel ?_ (fun s1 s1' h1 => ih rR rI s1 s1' hc.tail h1)
    rw [renderN_include]
    simp only [evalHref, Res.bind_ok, hres, loadT, loadRaw, hfind,
      Res.map_err, if_true]
    refine ihfb _ _ s s' ?_ h
    cases z with
    | true => exact .inr (hw rfl)
    | false =>
      rcases hc with ⟨he, hn, hfull⟩ | ht
      · subst he
        rw [Rng.fresh_of_nomt hn, hfull rfl]; exact .full
      · simp only [winfreeL, winfreeN, Bool.and_eq_true] at ht
        exact .inr ht.1.2

end Genshi.Incl

/-
  Helper lemmas for C08: the round trips over forests that MIX namespaces (XHTML elements with
  un-namespaced children and the like): every element whose namespace differs from the default
  namespace in scope carries an `xmlns` declaration (`xmlns=""` included); html drops it, the XML
  tokenizer sees it as the first attribute.  Mathlib-free.
-/
import Genshi.Lemmas.OutputTreeMixed
import Genshi.Lemmas.ReaderTreeNs
namespace Genshi.Reader
open Genshi Genshi.Output

/-- html drops the namespace declaration -/
theorem htmlAttrToks_declM (cur v : Str) (a : FAttrs) :
    htmlAttrToks (declM cur v ++ a) = htmlAttrToks a := by
  unfold declM
  by_cases hd : v = cur
  · simp [hd]
  · simp only [hd, ↓reduceIte, List.singleton_append, htmlAttrToks, List.flatMap_cons]
    have h1 : htmlAttrTok ((xmlns, v) :: a) (xmlns, v) = [] := by
      have hb : inTable (booleanAttrs .html) xmlns = false := by decide
      have hc : (xmlns.any (· == ':')) = false := by decide
      simp [htmlAttrTok, hb, hc]
    have h2 : ∀ p, htmlAttrTok ((xmlns, v) :: a) p = htmlAttrTok a p := by
      intro p
      have hl : hasAttr ((xmlns, v) :: a) lang = hasAttr a lang := by
        have : (xmlns == lang) = false := by decide
        simp [hasAttr, this]
      simp [htmlAttrTok, hl]
    rw [h1]
    have h3 : htmlAttrTok ((xmlns, v) :: a) = htmlAttrTok a := funext h2
    simp [h3]

mutual
  /-- html pieces of a tree that mixes namespaces: as for a namespace-free tree -/
  theorem pieces_treeM : ∀ (cur : Str) (n : Node), (treeFm cur n).flatMap evPieces = treePieces n
    | cur, .elem t a ks => by
        cases ks with
        | nil =>
          simp only [treeFm, List.isEmpty_nil, ↓reduceIte, List.flatMap_cons, List.flatMap_nil, List.append_nil,
            evPieces, treePieces, htmlAttrToks_declM]
          split <;> simp
        | cons k ks' =>
          simp only [treeFm, List.isEmpty_cons, Bool.false_eq_true, ↓reduceIte, List.flatMap_cons, List.flatMap_append,
            List.flatMap_nil, List.append_nil, evPieces, treePieces, pieces_forestM t.ns (k :: ks'), htmlAttrToks_declM]
          simp
    | cur, .leaf e => by cases e <;> simp [treeFm, leafF, treePieces, evPieces]
  theorem pieces_forestM : ∀ (cur : Str) (ns : List Node), (forestFm cur ns).flatMap evPieces = forestPieces ns
    | cur, [] => by simp [forestFm, forestPieces]
    | cur, n :: ns => by
        simp [forestFm, forestPieces, List.flatMap_append, pieces_treeM cur n, pieces_forestM cur ns]
end

theorem declM_names (cur v : Str) : ∀ p ∈ declM cur v, NameOk p.1 := by
  intro p hp
  unfold declM at hp
  split at hp
  · simp at hp
  · simp at hp; subst hp; exact nameOk_xmlns

theorem rawKids_okM (cur : Str) (ks : List Node) (h : rawKidsOk ks = true) :
    HtmlOkAll true (forestFm cur ks) ∧ rawEnd true (forestFm cur ks) = true := by
  induction ks with
  | nil => simp [forestFm, HtmlOkAll, rawEnd]
  | cons k ks' ih =>
    cases k with
    | elem t a kk => simp [rawKidsOk] at h
    | leaf e =>
      cases e with
      | text x f =>
        simp only [rawKidsOk, Bool.and_eq_true, Bool.not_eq_true'] at h
        obtain ⟨⟨hf, hs⟩, hr⟩ := h
        have ih' := ih hr
        subst hf
        simp only [forestFm, treeFm, leafF, Option.toList_some, List.singleton_append, HtmlOkAll, HtmlOk, rawAfter,
          true_and, rawEnd, List.foldl_cons]
        exact ⟨⟨fun _ => hs, ih'.1⟩, ih'.2⟩
      | _ => simp [rawKidsOk] at h

mutual
  theorem htmlOk_treeM : ∀ (cur : Str) (n : Node), htmlTreeOk n = true →
      HtmlOkAll false (treeFm cur n) ∧ rawEnd false (treeFm cur n) = false
    | cur, .elem t a ks, h => by
        simp only [htmlTreeOk, Bool.and_eq_true] at h
        obtain ⟨⟨ht, ha⟩, hk⟩ := h
        have hT := nameOk_of_B ht
        have hA : ∀ p ∈ declM cur t.ns ++ fAttrs a, NameOk p.1 := by
          intro p hp
          rcases List.mem_append.mp hp with h1 | h1
          · exact declM_names cur t.ns p h1
          · exact nameOk_of_B (List.all_eq_true.mp ha p h1)
        cases ks with
        | nil =>
          simp only [treeFm, List.isEmpty_nil, ↓reduceIte]
          exact ⟨⟨⟨rfl, hT, hA⟩, trivial⟩, rfl⟩
        | cons k ks' =>
          simp only [treeFm, List.isEmpty_cons, Bool.false_eq_true, ↓reduceIte]
          rw [show XEv.start t.loc (declM cur t.ns ++ fAttrs a) :: (forestFm t.ns (k :: ks') ++ [XEv.end_ t.loc]) =
                [XEv.start t.loc (declM cur t.ns ++ fAttrs a)] ++ (forestFm t.ns (k :: ks') ++ [XEv.end_ t.loc]) by rfl]
          by_cases hr : rawTextElems.contains t.loc = true
          · simp only [hr, ↓reduceIte] at hk
            have hkids := rawKids_okM t.ns (k :: ks') hk
            refine ⟨?_, ?_⟩
            · have hre : rawEnd false [XEv.start t.loc (declM cur t.ns ++ fAttrs a)] = true := by
                show rawTextElems.contains t.loc = true; exact hr
              rw [htmlOkAll_append, htmlOkAll_append, hre]
              exact ⟨⟨⟨rfl, hT, hA⟩, trivial⟩, hkids.1, ⟨hT, trivial⟩⟩
            · simp [rawEnd_append, rawEnd, rawAfter]
          · simp only [hr, Bool.false_eq_true, ↓reduceIte] at hk
            have hkids := htmlOk_forestM t.ns (k :: ks') hk
            have hr' : rawTextElems.contains t.loc = false := by simpa using hr
            refine ⟨?_, ?_⟩
            · have hre : rawEnd false [XEv.start t.loc (declM cur t.ns ++ fAttrs a)] = false := by
                show rawTextElems.contains t.loc = false; exact hr'
              rw [htmlOkAll_append, htmlOkAll_append, hre]
              exact ⟨⟨⟨rfl, hT, hA⟩, trivial⟩, hkids.1, ⟨hT, trivial⟩⟩
            · simp [rawEnd_append, rawEnd, rawAfter]
    | cur, .leaf e, h => by
        cases e <;> simp [htmlTreeOk] at h <;>
          simp [treeFm, leafF, HtmlOkAll, HtmlOk, rawAfter, rawEnd, h]
  theorem htmlOk_forestM : ∀ (cur : Str) (ns : List Node), htmlForestOk ns = true →
      HtmlOkAll false (forestFm cur ns) ∧ rawEnd false (forestFm cur ns) = false
    | cur, [], _ => by simp [forestFm, HtmlOkAll, rawEnd]
    | cur, n :: ns, h => by
        simp only [htmlForestOk, Bool.and_eq_true] at h
        have h1 := htmlOk_treeM cur n h.1
        have h2 := htmlOk_forestM cur ns h.2
        simp only [forestFm]
        refine ⟨?_, ?_⟩
        · rw [htmlOkAll_append]; exact ⟨h1.1, by rw [h1.2]; exact h2.1⟩
        · rw [rawEnd_append, h1.2, h2.2]
end

/-! ### xhtml, tokenizer level -/

/-- the XML tokenizer sees the declaration as an ordinary attribute in front of the others -/
theorem xhtmlAttrToks_declM (cur v : Str) (a : FAttrs) :
    xhtmlAttrToks (declM cur v ++ a) = (declM cur v).map (fun p => (p.1, some p.2)) ++ xhtmlAttrToks a := by
  unfold declM
  by_cases hd : v = cur
  · simp [hd]
  · simp only [hd, ↓reduceIte, List.singleton_append, xhtmlAttrToks, List.flatMap_cons,
      List.map_cons, List.map_nil]
    have hb : inTable (booleanAttrs .xhtml) xmlns = false := by decide
    have h1 : xhtmlAttrTok ((xmlns, v) :: a) (xmlns, v) = [(xmlns, some v)] := by
      have hl : (xmlns == xmlLang) = false := by decide
      have hs : (xmlns == xmlSpace) = false := by decide
      simp [xhtmlAttrTok, hb, hl, hs]
    have h2 : xhtmlAttrTok ((xmlns, v) :: a) = xhtmlAttrTok a := by
      funext p
      have hl : hasAttr ((xmlns, v) :: a) lang = hasAttr a lang := by
        have : (xmlns == lang) = false := by decide
        simp [hasAttr, this]
      simp [xhtmlAttrTok, hl]
    rw [h1, h2]; simp

mutual
  /-- xhtml pieces of a tree that mixes namespaces: an element whose namespace differs from the
      default namespace in scope (`cur`) carries `xmlns="…"` (possibly `xmlns=""`) as first attribute -/
  def treePiecesXM (cur : Str) : Node → List Piece
    | .elem t a ks =>
        let at_ := (declM cur t.ns).map (fun p => (p.1, some p.2)) ++ xhtmlAttrToks (fAttrs a)
        if ks.isEmpty then
          (if inTable (emptyElems .xhtml) t.loc then [.tok (.start t.loc at_ true)]
           else [.tok (.start t.loc at_ false), .tok (.end_ t.loc)])
        else .tok (.start t.loc at_ false) :: (forestPiecesXM t.ns ks ++ [.tok (.end_ t.loc)])
    | .leaf (.text x _) => [.chars x]
    | .leaf (.comment x) => [.tok (.comment x)]
    | .leaf _ => []
  def forestPiecesXM (cur : Str) : List Node → List Piece
    | [] => []
    | n :: ns => treePiecesXM cur n ++ forestPiecesXM cur ns
end

mutual
  theorem piecesX_treeM : ∀ (cur : Str) (n : Node), (treeFm cur n).flatMap evPiecesX = treePiecesXM cur n
    | cur, .elem t a ks => by
        cases ks with
        | nil =>
          simp only [treeFm, List.isEmpty_nil, ↓reduceIte, List.flatMap_cons, List.flatMap_nil, List.append_nil,
            evPiecesX, treePiecesXM, xhtmlAttrToks_declM]
        | cons k ks' =>
          simp only [treeFm, List.isEmpty_cons, Bool.false_eq_true, ↓reduceIte, List.flatMap_cons, List.flatMap_append,
            List.flatMap_nil, List.append_nil, evPiecesX, treePiecesXM, piecesX_forestM t.ns (k :: ks'),
            xhtmlAttrToks_declM]
          simp
    | cur, .leaf e => by cases e <;> simp [treeFm, leafF, treePiecesXM, evPiecesX]
  theorem piecesX_forestM : ∀ (cur : Str) (ns : List Node),
      (forestFm cur ns).flatMap evPiecesX = forestPiecesXM cur ns
    | cur, [] => by simp [forestFm, forestPiecesXM]
    | cur, n :: ns => by
        simp [forestFm, forestPiecesXM, List.flatMap_append, piecesX_treeM cur n, piecesX_forestM cur ns]
end

mutual
  /-- every element namespace can stand in an attribute value (no LF / TAB / CR) -/
  def nsValsOk : Node → Bool
    | .elem t _ ks => attrValOkB t.ns && forestNsValsOk ks
    | .leaf _ => true
  def forestNsValsOk : List Node → Bool
    | [] => true
    | n :: ns => nsValsOk n && forestNsValsOk ns
end

theorem declM_ok (cur v : Str) (hv : attrValOkB v = true) : XAttrsOk (declM cur v) := by
  intro p hp
  unfold declM at hp
  split at hp
  · simp at hp
  · simp at hp; subst hp; exact ⟨nameOk_xmlns, fun _ => hv⟩

mutual
  theorem xhtmlOk_treeM (o : Opts) : ∀ (cur : Str) (n : Node),
      xhtmlTreeOk n = true → nsValsOk n = true → ∀ ev ∈ treeFm cur n, XhtmlOk o ev
    | cur, .elem t a ks, h, hv => by
        simp only [xhtmlTreeOk, Bool.and_eq_true] at h
        simp only [nsValsOk, Bool.and_eq_true] at hv
        obtain ⟨⟨ht, ha⟩, hk⟩ := h
        have hT := nameOk_of_B ht
        have hA : XAttrsOk (declM cur t.ns ++ fAttrs a) := by
          intro p hp
          rcases List.mem_append.mp hp with h1 | h1
          · exact declM_ok cur t.ns hv.1 p h1
          · have := List.all_eq_true.mp ha p h1
            simp only [Bool.and_eq_true] at this
            exact ⟨nameOk_of_B this.1, fun _ => this.2⟩
        intro ev hev
        cases ks with
        | nil =>
          simp only [treeFm, List.isEmpty_nil, ↓reduceIte, List.mem_singleton] at hev
          subst hev; exact ⟨hT, hA⟩
        | cons k ks' =>
          simp only [treeFm, List.isEmpty_cons, Bool.false_eq_true, ↓reduceIte, List.mem_cons, List.mem_append,
            List.mem_singleton, List.not_mem_nil, or_false] at hev
          rcases hev with h1 | h1 | h1
          · subst h1; exact ⟨hT, hA⟩
          · exact xhtmlOk_forestM o t.ns (k :: ks') hk hv.2 ev h1
          · subst h1; exact hT
    | cur, .leaf e, h, _ => by
        intro ev hev
        cases e <;> simp [xhtmlTreeOk] at h <;> simp [treeFm, leafF] at hev <;> subst hev <;>
          simp [XhtmlOk, h]
  theorem xhtmlOk_forestM (o : Opts) : ∀ (cur : Str) (ns : List Node),
      xhtmlForestOk ns = true → forestNsValsOk ns = true → ∀ ev ∈ forestFm cur ns, XhtmlOk o ev
    | cur, [], _, _ => by simp [forestFm]
    | cur, n :: ns, h, hv => by
        simp only [xhtmlForestOk, Bool.and_eq_true] at h
        simp only [forestNsValsOk, Bool.and_eq_true] at hv
        intro ev hev
        simp only [forestFm, List.mem_append] at hev
        rcases hev with h1 | h1
        · exact xhtmlOk_treeM o cur n h.1 hv.1 ev h1
        · exact xhtmlOk_forestM o cur ns h.2 hv.2 ev h1
end

end Genshi.Reader

/-
  Helper lemmas for C08: how the tokenizer state machine of `Model/Reader.lean`
  consumes what the serializers write (escaped character data, escaped attribute
  values, raw text, tags).
-/
import Genshi.Model.Reader
import Genshi.Model.Escape
import Genshi.Lemmas.Escape
namespace Genshi.Reader
open Genshi Genshi.Escape

theorem feed_append (xml : Bool) (a b : Str) : ∀ st : RSt, feed xml st (a ++ b) = feed xml (feed xml st a) b := by
  induction a with
  | nil => intro st; rfl
  | cons c cs ih => intro st; simp [feed, ih]

theorem feed_cons (xml : Bool) (st : RSt) (c : Char) (cs : Str) :
    feed xml st (c :: cs) = feed xml (step xml st c) cs := rfl

theorem feed_nil (xml : Bool) (st : RSt) : feed xml st [] = st := rfl

/-! ### character data -/

/-- one escaped character of text read in `data` mode is appended, decoded, to the buffer -/
theorem feed_data_escC (xml : Bool) (st : RSt) (h : st.mode = .data) (he : st.ebuf = []) (c : Char) :
    feed xml st (escC false c) = { st with buf := st.buf ++ [c] } := by
  obtain ⟨mode, buf, name, attrs, aname, aval, ebuf, toks⟩ := st
  simp only at h he; subst h; subst he
  by_cases h1 : c = '&'
  · subst h1; simp [escC, amp, feed, step, decodeEnt]
  by_cases h2 : c = '<'
  · subst h2; simp [escC, lt, feed, step, decodeEnt]
  by_cases h3 : c = '>'
  · subst h3; simp [escC, gt, feed, step, decodeEnt]
  by_cases h4 : c = '"'
  · subst h4; simp [escC, feed, step]
  simp [escC, h1, h2, h3, h4, feed, step]

/-- text round trip: escaped character data is read back verbatim -/
theorem feed_data_escaped (xml : Bool) (s : Str) :
    ∀ st : RSt, st.mode = .data → st.ebuf = [] →
      feed xml st (escapeSpec false s) = { st with buf := st.buf ++ s } := by
  induction s with
  | nil => intro st _ _; simp [escapeSpec, feed]
  | cons c cs ih =>
    intro st h he
    have : escapeSpec false (c :: cs) = escC false c ++ escapeSpec false cs := by simp [escapeSpec]
    rw [this, feed_append, feed_data_escC xml st h he c, ih _ (by simp [h]) (by simp [he])]
    simp

/-! ### attribute values -/

/-- characters XML attribute-value normalisation replaces by a blank -/
def attrWs (c : Char) : Bool := c == '\n' || c == '\t' || c == '\r'

theorem feed_attrVal_escC (xml : Bool) (st : RSt) (h : st.mode = .attrVal) (he : st.ebuf = []) (c : Char)
    (hw : xml = true → attrWs c = false) :
    feed xml st (escC true c) = { st with aval := st.aval ++ [c] } := by
  obtain ⟨mode, buf, name, attrs, aname, aval, ebuf, toks⟩ := st
  simp only at h he; subst h; subst he
  by_cases h1 : c = '&'
  · subst h1; simp [escC, amp, feed, step, decodeEnt]
  by_cases h2 : c = '<'
  · subst h2; simp [escC, lt, feed, step, decodeEnt]
  by_cases h3 : c = '>'
  · subst h3; simp [escC, gt, feed, step, decodeEnt]
  by_cases h4 : c = '"'
  · subst h4; simp [escC, qt, feed, step, decodeEnt]
  cases xml with
  | false => simp [escC, h1, h2, h3, h4, feed, step]
  | true =>
    have hw' := hw rfl
    simp only [attrWs, Bool.or_eq_false_iff] at hw'
    simp [escC, h1, h2, h3, h4, feed, step, hw'.1.1, hw'.1.2, hw'.2]

/-- the hypothesis of the attribute round trip under XML: no LF, TAB, CR in the value -/
def AttrValOk (xml : Bool) (v : Str) : Prop := xml = true → v.all (fun c => !attrWs c) = true

/-- attribute round trip: an escaped value (quotes included) is read back verbatim -/
theorem feed_attrVal_escaped (xml : Bool) (v : Str) :
    ∀ st : RSt, st.mode = .attrVal → st.ebuf = [] → AttrValOk xml v →
      feed xml st (escapeSpec true v) = { st with aval := st.aval ++ v } := by
  induction v with
  | nil => intro st _ _ _; simp [escapeSpec, feed]
  | cons c cs ih =>
    intro st h he hv
    have : escapeSpec true (c :: cs) = escC true c ++ escapeSpec true cs := by simp [escapeSpec]
    have hc : xml = true → attrWs c = false := by
      intro hx; have := hv hx; simp only [List.all_cons, Bool.and_eq_true] at this; simpa using this.1
    have hcs : AttrValOk xml cs := by
      intro hx; have := hv hx; simp only [List.all_cons, Bool.and_eq_true] at this; exact this.2
    rw [this, feed_append, feed_attrVal_escC xml st h he c hc, ih _ (by simp [h]) (by simp [he]) hcs]
    simp

/-! ### names -/

/-- characters that may occur in a tag or attribute name of the output language -/
def nameChar (c : Char) : Bool :=
  !(isSpace c || c == '>' || c == '/' || c == '=' || c == '"' || c == '<' || c == '!' || c == '?' || c == '&')

def NameOk (n : Str) : Prop := n ≠ [] ∧ n.all nameChar = true

instance (n : Str) : Decidable (NameOk n) := by unfold NameOk; infer_instance

/-- a clean state: only mode, pending character data and tokens -/
def mk (mode : Mode) (buf : Str) (toks : List Tok) : RSt := ⟨mode, buf, [], [], [], [], [], toks⟩

theorem nameChar_facts {c : Char} (h : nameChar c = true) :
    isSpace c = false ∧ (c == '>') = false ∧ (c == '/') = false ∧ (c == '=') = false ∧
    (c == '"') = false ∧ (c == '<') = false ∧ (c == '!') = false ∧ (c == '?') = false ∧ (c == '&') = false := by
  simp only [nameChar, Bool.not_eq_true', Bool.or_eq_false_iff] at h
  obtain ⟨⟨⟨⟨⟨⟨⟨⟨h1, h2⟩, h3⟩, h4⟩, h5⟩, h6⟩, h7⟩, h8⟩, h9⟩ := h
  exact ⟨h1, h2, h3, h4, h5, h6, h7, h8, h9⟩

theorem feed_tagName (xml : Bool) (n : Str) :
    ∀ st : RSt, st.mode = .tagName → n.all nameChar = true → feed xml st n = { st with name := st.name ++ n } := by
  induction n with
  | nil => intro st _ _; simp [feed]
  | cons c cs ih =>
    intro st h hn
    simp only [List.all_cons, Bool.and_eq_true] at hn
    obtain ⟨f1, f2, f3, _⟩ := nameChar_facts hn.1
    have : step xml st c = { st with name := st.name ++ [c] } := by simp [step, h, f1, f2, f3]
    rw [feed_cons, this, ih _ (by simp [h]) hn.2]; simp

theorem feed_endName (xml : Bool) (n : Str) :
    ∀ st : RSt, st.mode = .endName → n.all nameChar = true → feed xml st n = { st with name := st.name ++ n } := by
  induction n with
  | nil => intro st _ _; simp [feed]
  | cons c cs ih =>
    intro st h hn
    simp only [List.all_cons, Bool.and_eq_true] at hn
    obtain ⟨f1, f2, _, _, _, f6, _⟩ := nameChar_facts hn.1
    have : step xml st c = { st with name := st.name ++ [c] } := by simp [step, h, f1, f2, f6]
    rw [feed_cons, this, ih _ (by simp [h]) hn.2]; simp

theorem feed_attrName (xml : Bool) (n : Str) :
    ∀ st : RSt, st.mode = .attrName → n.all nameChar = true → feed xml st n = { st with aname := st.aname ++ n } := by
  induction n with
  | nil => intro st _ _; simp [feed]
  | cons c cs ih =>
    intro st h hn
    simp only [List.all_cons, Bool.and_eq_true] at hn
    obtain ⟨f1, f2, f3, f4, _⟩ := nameChar_facts hn.1
    have : step xml st c = { st with aname := st.aname ++ [c] } := by simp [step, h, f1, f2, f3, f4]
    rw [feed_cons, this, ih _ (by simp [h]) hn.2]; simp

/-! ### inside a start tag -/

/-- a minimised attribute still being read counts as read -/
def closeAttr (st : RSt) : RSt :=
  if st.mode = .attrName then { st with attrs := (st.aname, none) :: st.attrs } else st

def InTag (st : RSt) : Prop :=
  (st.mode = .tagName ∨ st.mode = .tagSpace ∨ st.mode = .attrName) ∧ st.ebuf = []

theorem step_space_inTag (xml : Bool) (st : RSt) (h : InTag st) :
    step xml st ' ' = { closeAttr st with mode := .tagSpace } := by
  obtain ⟨mode, buf, name, attrs, aname, aval, ebuf, toks⟩ := st
  rcases h.1 with h | h | h <;> simp only at h <;> subst h <;> simp [step, closeAttr, isSpace]

theorem step_gt_inTag (xml : Bool) (st : RSt) (h : InTag st) :
    step xml st '>' = emitStart xml (closeAttr st) false := by
  obtain ⟨mode, buf, name, attrs, aname, aval, ebuf, toks⟩ := st
  rcases h.1 with h | h | h <;> simp only at h <;> subst h <;> simp [step, closeAttr, isSpace, emitStart]

/-- ` name` (a minimised attribute): the name is being read -/
theorem feed_minAttr (xml : Bool) (st : RSt) (h : InTag st) (n : Str) (hn : NameOk n) :
    feed xml st (' ' :: n) = { closeAttr st with mode := .attrName, aname := n } := by
  obtain ⟨hne, hall⟩ := hn
  cases n with
  | nil => exact absurd rfl hne
  | cons c cs =>
    simp only [List.all_cons, Bool.and_eq_true] at hall
    obtain ⟨f1, f2, f3, f4, f5, _⟩ := nameChar_facts hall.1
    rw [feed_cons, step_space_inTag xml st h, feed_cons]
    have : step xml { closeAttr st with mode := .tagSpace } c =
        { closeAttr st with mode := .attrName, aname := [c] } := by
      simp [step, f1, f2, f3, f4, f5]
    rw [this, feed_attrName xml cs _ rfl hall.2]
    simp

/-- ` name="escaped value"` -/
theorem feed_attrOut (xml : Bool) (st : RSt) (h : InTag st) (n v : Str) (hn : NameOk n) (hv : AttrValOk xml v) :
    feed xml st (' ' :: n ++ ['=', '"'] ++ escapeSpec true v ++ ['"']) =
      { closeAttr st with mode := .tagSpace, attrs := (n, some v) :: (closeAttr st).attrs, aname := n, aval := [] } := by
  have he : (closeAttr st).ebuf = [] := by
    unfold closeAttr; split <;> simp [h.2]
  rw [show ' ' :: n ++ ['=', '"'] ++ escapeSpec true v ++ ['"'] =
        (' ' :: n) ++ (['=', '"'] ++ (escapeSpec true v ++ ['"'])) by simp]
  rw [feed_append, feed_minAttr xml st h n hn]
  simp only [List.cons_append, List.nil_append, feed_cons]
  have s1 : step xml { closeAttr st with mode := .attrName, aname := n } '=' =
      { closeAttr st with mode := .attrEq, aname := n } := by simp [step]
  rw [s1]
  have s2 : step xml { closeAttr st with mode := .attrEq, aname := n } '"' =
      { closeAttr st with mode := .attrVal, aname := n, aval := [] } := by simp [step]
  rw [s2, feed_append, feed_attrVal_escaped xml v _ rfl (by simpa using he) hv]
  simp [feed, step]

/-- the reader is inside the start tag of `name`, has read `attrs` (reversed), and `toks` before it -/
structure TagSt (st : RSt) (name : Str) (attrs : List (Str × Option Str)) (toks : List Tok) : Prop where
  inTag : InTag st
  attrs_eq : (closeAttr st).attrs = attrs
  name_eq : st.name = name
  toks_eq : st.toks = toks
  buf_eq : st.buf = []

def flushToks (buf : Str) (toks : List Tok) : List Tok := if buf.isEmpty then toks else .text buf :: toks

theorem flush_mk (mode : Mode) (buf : Str) (toks : List Tok) :
    flush (mk mode buf toks) = mk mode [] (flushToks buf toks) := by
  unfold flush flushToks mk
  by_cases h : buf.isEmpty = true
  · have : buf = [] := by simpa using h
    simp [this]
  · simp [h]

theorem flush_eq (mode : Mode) (buf name : Str) (attrs : List (Str × Option Str)) (aname aval ebuf : Str)
    (toks : List Tok) :
    flush ⟨mode, buf, name, attrs, aname, aval, ebuf, toks⟩ =
      ⟨mode, [], name, attrs, aname, aval, ebuf, flushToks buf toks⟩ := by
  unfold flush flushToks
  by_cases h : buf.isEmpty = true
  · have : buf = [] := by simpa using h
    simp [this]
  · simp [h]

/-- `<name` read from character data: pending text is flushed, the tag is open -/
theorem tagSt_open (xml : Bool) (buf : Str) (toks : List Tok) (t : Str) (ht : NameOk t) :
    TagSt (feed xml (mk .data buf toks) ('<' :: t)) t [] (flushToks buf toks) := by
  obtain ⟨hne, hall⟩ := ht
  cases t with
  | nil => exact absurd rfl hne
  | cons c cs =>
    simp only [List.all_cons, Bool.and_eq_true] at hall
    obtain ⟨f1, f2, f3, _, _, _, f7, f8, _⟩ := nameChar_facts hall.1
    have s1 : step xml (mk .data buf toks) '<' = ⟨.lt, buf, [], [], [], [], [], toks⟩ := by simp [step, mk]
    have s2 : step xml ⟨.lt, buf, [], [], [], [], [], toks⟩ c =
        ⟨.tagName, [], [c], [], [], [], [], flushToks buf toks⟩ := by
      simp [step, f1, f2, f3, f7, f8, flush_eq]
    rw [feed_cons, s1, feed_cons, s2, feed_tagName xml cs _ rfl hall.2]
    exact ⟨⟨Or.inl rfl, rfl⟩, by simp [closeAttr], by simp, by simp, by simp⟩

theorem tagSt_min (xml : Bool) {st : RSt} {nm : Str} {at_ : List (Str × Option Str)} {tk : List Tok}
    (h : TagSt st nm at_ tk) (n : Str) (hn : NameOk n) :
    TagSt (feed xml st (' ' :: n)) nm ((n, none) :: at_) tk := by
  rw [feed_minAttr xml st h.inTag n hn]
  have hc : (closeAttr st).ebuf = [] ∧ (closeAttr st).name = st.name ∧ (closeAttr st).toks = st.toks ∧
      (closeAttr st).buf = st.buf := by
    unfold closeAttr; split <;> simp [h.inTag.2]
  refine ⟨⟨Or.inr (Or.inr rfl), by simpa using hc.1⟩, ?_, by simpa [hc.2.1] using h.name_eq,
    by simpa [hc.2.2.1] using h.toks_eq, by simpa [hc.2.2.2] using h.buf_eq⟩
  rw [← h.attrs_eq]; simp [closeAttr]

theorem tagSt_quoted (xml : Bool) {st : RSt} {nm : Str} {at_ : List (Str × Option Str)} {tk : List Tok}
    (h : TagSt st nm at_ tk) (n v : Str) (hn : NameOk n) (hv : AttrValOk xml v) :
    TagSt (feed xml st (' ' :: n ++ ['=', '"'] ++ escapeSpec true v ++ ['"'])) nm ((n, some v) :: at_) tk := by
  rw [feed_attrOut xml st h.inTag n v hn hv]
  have hc : (closeAttr st).ebuf = [] ∧ (closeAttr st).name = st.name ∧ (closeAttr st).toks = st.toks ∧
      (closeAttr st).buf = st.buf := by
    unfold closeAttr; split <;> simp [h.inTag.2]
  refine ⟨⟨Or.inr (Or.inl rfl), by simpa using hc.1⟩, ?_, by simpa [hc.2.1] using h.name_eq,
    by simpa [hc.2.2.1] using h.toks_eq, by simpa [hc.2.2.2] using h.buf_eq⟩
  rw [← h.attrs_eq]; simp [closeAttr]

theorem tagSt_nil (xml : Bool) {st : RSt} {nm : Str} {at_ : List (Str × Option Str)} {tk : List Tok}
    (h : TagSt st nm at_ tk) : TagSt (feed xml st []) nm at_ tk := h

/-- `>` ends the start tag -/
theorem tagSt_gt (xml : Bool) {st : RSt} {nm : Str} {at_ : List (Str × Option Str)} {tk : List Tok}
    (h : TagSt st nm at_ tk) :
    step xml st '>' =
      mk (if !xml && rawTextElems.contains nm then .raw else .data) [] (.start nm at_.reverse false :: tk) := by
  rw [step_gt_inTag xml st h.inTag]
  have hc : (closeAttr st).ebuf = [] ∧ (closeAttr st).name = st.name ∧ (closeAttr st).toks = st.toks := by
    unfold closeAttr; split <;> simp [h.inTag.2]
  simp [emitStart, mk, h.attrs_eq, hc.1, hc.2.1, hc.2.2, h.name_eq, h.toks_eq]

/-- ` />` ends the start tag of an empty element -/
theorem tagSt_selfClose (xml : Bool) {st : RSt} {nm : Str} {at_ : List (Str × Option Str)} {tk : List Tok}
    (h : TagSt st nm at_ tk) :
    feed xml st [' ', '/', '>'] = mk .data [] (.start nm at_.reverse true :: tk) := by
  have hc : (closeAttr st).ebuf = [] ∧ (closeAttr st).name = st.name ∧ (closeAttr st).toks = st.toks := by
    unfold closeAttr; split <;> simp [h.inTag.2]
  rw [feed_cons, step_space_inTag xml st h.inTag]
  simp [feed, step, emitStart, mk, h.attrs_eq, hc.1, hc.2.1, hc.2.2, h.name_eq, h.toks_eq]

/-- `</name>` read from character data or raw text -/
theorem feed_endTag (xml : Bool) (mode : Mode) (hm : mode = .data ∨ mode = .raw) (buf : Str) (toks : List Tok)
    (t : Str) (ht : t.all nameChar = true) :
    feed xml (mk mode buf toks) (['<', '/'] ++ t ++ ['>']) = mk .data [] (.end_ t :: flushToks buf toks) := by
  have s12 : feed xml (mk mode buf toks) ['<', '/'] = ⟨.endName, [], [], [], [], [], [], flushToks buf toks⟩ := by
    rcases hm with h | h <;> subst h <;> simp [feed, step, mk, flush_eq]
  rw [show ['<', '/'] ++ t ++ ['>'] = ['<', '/'] ++ (t ++ ['>']) by simp, feed_append, s12, feed_append,
    feed_endName xml t _ rfl ht]
  simp [feed, step, mk]

end Genshi.Reader

/-
  The element-only and mark-only transformations on `Good` streams: each keeps
  the event stream balanced the same way and keeps the stream `Good`.
-/
import Genshi.Lemmas.TfSelect
namespace Genshi.Tf

/-- no ENTER / EXIT marks (the interior of a bracket) -/
def Inner (l : MStream) : Prop := ∀ p ∈ l, p.1 ≠ some .enter ∧ p.1 ≠ some .exit

theorem Inner.tail {p : MItem} {l : MStream} (h : Inner (p :: l)) : Inner l :=
  fun q hq => h q (by simp [hq])

theorem Inner.append {a b : MStream} (ha : Inner a) (hb : Inner b) : Inner (a ++ b) := by
  intro p hp
  rcases List.mem_append.mp hp with h | h
  · exact ha p h
  · exact hb p h

theorem Inner.ofUniform {m : Mark} {blk : MStream} (hne : m ≠ .enter) (hnx : m ≠ .exit)
    (hu : Uniform m blk) : Inner blk := by
  intro p hp
  rw [hu p hp]
  exact ⟨fun h => hne (by injection h), fun h => hnx (by injection h)⟩

theorem Inner.ofNone {l : MStream} (h : NoneMarked l) : Inner l := by
  intro p hp; rw [h p hp]; simp

theorem Flat.inner {l : MStream} (h : Flat l) : Inner l := by
  induction h with
  | nil => intro p hp; simp at hp
  | plain x _ ih =>
    intro p hp
    rcases List.mem_cons.mp hp with rfl | hp
    · simp
    · exact ih p hp
  | block m blk hne hnx hu _ _ ih => exact (Inner.ofUniform hne hnx hu).append ih

theorem Flat.append {a b : MStream} (ha : Flat a) (hb : Flat b) : Flat (a ++ b) := by
  induction ha with
  | nil => exact hb
  | plain x _ ih => exact Flat.plain x ih
  | block m blk hne hnx hu hbal _ ih =>
    rw [List.append_assoc]; exact Flat.block m blk hne hnx hu hbal ih

theorem Flat.good_append {a s : MStream} (ha : Flat a) (hs : Good s) : Good (a ++ s) := by
  induction ha with
  | nil => exact hs
  | plain x _ ih => exact Good.plain x ih
  | block m blk hne hnx hu hbal _ ih =>
    rw [List.append_assoc]; exact Good.block m blk hne hnx hu hbal ih

theorem inj_noneMarked (c : List MEv) : NoneMarked (inj c) := by
  intro p hp; simp [inj] at hp; obtain ⟨_, _, rfl⟩ := hp; rfl

/-! ### unwrap -/

theorem unwrap_inner {l : MStream} (h : Inner l) : unwrap l = l := by
  unfold unwrap
  rw [List.filter_eq_self]
  intro p hp
  obtain ⟨h1, h2⟩ := h p hp
  obtain ⟨m, x⟩ := p
  simp at h1 h2 ⊢
  exact ⟨h1, h2⟩

theorem unwrap_append (a b : MStream) : unwrap (a ++ b) = unwrap a ++ unwrap b := by
  simp [unwrap]

theorem unwrap_elem (e x : MEv) (mid s : MStream) (h : Inner mid) :
    unwrap ((some .enter, e) :: (mid ++ (some .exit, x) :: s)) = mid ++ unwrap s := by
  have : unwrap ((some Mark.enter, e) :: (mid ++ (some Mark.exit, x) :: s)) =
      unwrap (mid ++ (some Mark.exit, x) :: s) := by simp [unwrap]
  rw [this, unwrap_append, unwrap_inner h]
  simp [unwrap]

theorem unwrap_balance {s : MStream} (hg : Good s) :
    ∀ st, balance st (unmark (unwrap s)) = balance st (unmark s) := by
  induction hg with
  | nil => intro st; rfl
  | @plain x s' _ ih =>
    intro st
    have : unwrap ((none, x) :: s') = (none, x) :: unwrap s' := by simp [unwrap]
    rw [this]
    cases x with
    | ev e => simp only [unmark]; exact balance_cons_congr e ih st
    | attr t a => simp only [unmark]; exact ih st
    | brk => simp only [unmark]; exact ih st
  | @block m blk s' hne hnx hu hb _ ih =>
    intro st
    rw [unwrap_append, unwrap_inner (Inner.ofUniform hne hnx hu)]
    simp only [unmark_append]
    rw [balance_bal st hb, balance_bal st hb, ih st]
  | @elem t a mid s' hf hb _ ih =>
    intro st
    rw [unwrap_elem _ _ mid s' hf.inner, unmark_append, balance_bal st hb, ih st, unmark_elem,
      balance_bal st (bal_elem t a hb)]

theorem unwrap_good {s : MStream} (hg : Good s) : Good (unwrap s) := by
  induction hg with
  | nil => exact Good.nil
  | @plain x s' _ ih =>
    have : unwrap ((none, x) :: s') = (none, x) :: unwrap s' := by simp [unwrap]
    rw [this]; exact Good.plain x ih
  | @block m blk s' hne hnx hu hb _ ih =>
    rw [unwrap_append, unwrap_inner (Inner.ofUniform hne hnx hu)]
    exact Good.block m blk hne hnx hu hb ih
  | @elem t a mid s' hf hb _ ih =>
    rw [unwrap_elem _ _ mid s' hf.inner]
    exact hf.good_append ih

/-! ### empty -/

theorem emptyGo_inner (l s : MStream) (h : Inner l) :
    emptyGo false (l ++ s) = l ++ emptyGo false s := by
  induction l with
  | nil => rfl
  | cons p l ih =>
    obtain ⟨m, x⟩ := p
    have h1 : m ≠ some .enter := (h (m, x) (by simp)).1
    simp [emptyGo, h1, ih h.tail]

theorem emptyGo_skip (l : MStream) (x : MEv) (s : MStream) (h : Inner l) :
    emptyGo true (l ++ (some .exit, x) :: s) = (some .exit, x) :: emptyGo false s := by
  induction l with
  | nil => simp [emptyGo]
  | cons p l ih =>
    obtain ⟨m, y⟩ := p
    have h1 : m ≠ some .exit := (h (m, y) (by simp)).2
    simp [emptyGo, h1, ih h.tail]

theorem empty_elem (e x : MEv) (mid s : MStream) (h : Inner mid) :
    emptyGo false ((some .enter, e) :: (mid ++ (some .exit, x) :: s)) =
      (some .enter, e) :: ([] ++ (some .exit, x) :: emptyGo false s) := by
  simp [emptyGo, emptyGo_skip mid x s h]

theorem empty_balance {s : MStream} (hg : Good s) :
    ∀ st, balance st (unmark (empty s)) = balance st (unmark s) := by
  unfold empty
  induction hg with
  | nil => intro st; rfl
  | @plain x s' _ ih =>
    intro st
    have : emptyGo false ((none, x) :: s') = (none, x) :: emptyGo false s' := by simp [emptyGo]
    rw [this]
    cases x with
    | ev e => simp only [unmark]; exact balance_cons_congr e ih st
    | attr t a => simp only [unmark]; exact ih st
    | brk => simp only [unmark]; exact ih st
  | @block m blk s' hne hnx hu hb _ ih =>
    intro st
    rw [emptyGo_inner blk s' (Inner.ofUniform hne hnx hu)]
    simp only [unmark_append]
    rw [balance_bal st hb, balance_bal st hb, ih st]
  | @elem t a mid s' hf hb _ ih =>
    intro st
    rw [empty_elem _ _ mid s' hf.inner, unmark_elem, unmark_elem,
      balance_bal st (bal_elem t a hb), balance_bal st (bal_elem t a (by exact Bal.nil)), ih st]

theorem empty_good {s : MStream} (hg : Good s) : Good (empty s) := by
  unfold empty
  induction hg with
  | nil => exact Good.nil
  | @plain x s' _ ih =>
    have : emptyGo false ((none, x) :: s') = (none, x) :: emptyGo false s' := by simp [emptyGo]
    rw [this]; exact Good.plain x ih
  | @block m blk s' hne hnx hu hb _ ih =>
    rw [emptyGo_inner blk s' (Inner.ofUniform hne hnx hu)]
    exact Good.block m blk hne hnx hu hb ih
  | @elem t a mid s' hf hb _ ih =>
    rw [empty_elem _ _ mid s' hf.inner]
    exact Good.elem t a [] Flat.nil Bal.nil ih


/-! ### prepend / append -/

/-- events of an injected content -/
def evsOf : List MEv → Stream
  | [] => []
  | .ev e :: l => e :: evsOf l
  | _ :: l => evsOf l

theorem unmark_inj (c : List MEv) : unmark (inj c) = evsOf c := by
  induction c with
  | nil => rfl
  | cons x c ih => cases x <;> simp_all [inj, unmark, evsOf]

theorem prepend_inner (c : List MEv) (l s : MStream) (h : Inner l) :
    prepend c (l ++ s) = l ++ prepend c s := by
  induction l with
  | nil => rfl
  | cons p l ih =>
    obtain ⟨m, x⟩ := p
    have h1 : m ≠ some .enter := (h (m, x) (by simp)).1
    simp [prepend, h1, ih h.tail]

theorem prepend_elem (c : List MEv) (e x : MEv) (mid s : MStream) (h : Inner mid) :
    prepend c ((some .enter, e) :: (mid ++ (some .exit, x) :: s)) =
      (some .enter, e) :: ((inj c ++ mid) ++ (some .exit, x) :: prepend c s) := by
  simp [prepend, prepend_inner c mid _ h]

theorem prepend_balance (c : List MEv) (hc : Bal (evsOf c)) {s : MStream} (hg : Good s) :
    ∀ st, balance st (unmark (prepend c s)) = balance st (unmark s) := by
  induction hg with
  | nil => intro st; rfl
  | @plain x s' _ ih =>
    intro st
    have : prepend c ((none, x) :: s') = (none, x) :: prepend c s' := by simp [prepend]
    rw [this]
    cases x with
    | ev e => simp only [unmark]; exact balance_cons_congr e ih st
    | attr t a => simp only [unmark]; exact ih st
    | brk => simp only [unmark]; exact ih st
  | @block m blk s' hne hnx hu hb _ ih =>
    intro st
    rw [prepend_inner c blk s' (Inner.ofUniform hne hnx hu)]
    simp only [unmark_append]
    rw [balance_bal st hb, balance_bal st hb, ih st]
  | @elem t a mid s' hf hb _ ih =>
    intro st
    have hb' : Bal (unmark (inj c ++ mid)) := by
      rw [unmark_append, unmark_inj]; exact hc.append hb
    rw [prepend_elem c _ _ mid s' hf.inner, unmark_elem, unmark_elem,
      balance_bal st (bal_elem t a hb), balance_bal st (bal_elem t a hb'), ih st]

theorem prepend_good (c : List MEv) (hc : Bal (evsOf c)) {s : MStream} (hg : Good s) :
    Good (prepend c s) := by
  induction hg with
  | nil => exact Good.nil
  | @plain x s' _ ih =>
    have : prepend c ((none, x) :: s') = (none, x) :: prepend c s' := by simp [prepend]
    rw [this]; exact Good.plain x ih
  | @block m blk s' hne hnx hu hb _ ih =>
    rw [prepend_inner c blk s' (Inner.ofUniform hne hnx hu)]
    exact Good.block m blk hne hnx hu hb ih
  | @elem t a mid s' hf hb _ ih =>
    rw [prepend_elem c _ _ mid s' hf.inner]
    exact Good.elem t a _ (Flat.append_plain (inj_noneMarked c) hf)
      (by rw [unmark_append, unmark_inj]; exact hc.append hb) ih

theorem appendGo_inner (c : List MEv) (l s : MStream) (h : Inner l) :
    appendGo c none (l ++ s) = l ++ appendGo c none s := by
  induction l with
  | nil => rfl
  | cons p l ih =>
    obtain ⟨m, x⟩ := p
    have h1 : m ≠ some .enter := (h (m, x) (by simp)).1
    simp [appendGo, h1, ih h.tail]

theorem appendGo_mid (c : List MEv) (last : MItem) (l : MStream) (x : MEv) (s : MStream) (h : Inner l) :
    appendGo c (some last) (l ++ (some .exit, x) :: s) =
      l ++ (inj c ++ (some .exit, x) :: appendGo c none s) := by
  induction l generalizing last with
  | nil => simp [appendGo]
  | cons p l ih =>
    obtain ⟨m, y⟩ := p
    have h1 : m ≠ some .exit := (h (m, y) (by simp)).2
    simp [appendGo, h1, ih _ h.tail]

theorem append_elem (c : List MEv) (e x : MEv) (mid s : MStream) (h : Inner mid) :
    appendGo c none ((some .enter, e) :: (mid ++ (some .exit, x) :: s)) =
      (some .enter, e) :: ((mid ++ inj c) ++ (some .exit, x) :: appendGo c none s) := by
  simp [appendGo, appendGo_mid c _ mid x s h]

theorem append_balance (c : List MEv) (hc : Bal (evsOf c)) {s : MStream} (hg : Good s) :
    ∀ st, balance st (unmark (append c s)) = balance st (unmark s) := by
  unfold append
  induction hg with
  | nil => intro st; rfl
  | @plain x s' _ ih =>
    intro st
    have : appendGo c none ((none, x) :: s') = (none, x) :: appendGo c none s' := by simp [appendGo]
    rw [this]
    cases x with
    | ev e => simp only [unmark]; exact balance_cons_congr e ih st
    | attr t a => simp only [unmark]; exact ih st
    | brk => simp only [unmark]; exact ih st
  | @block m blk s' hne hnx hu hb _ ih =>
    intro st
    rw [appendGo_inner c blk s' (Inner.ofUniform hne hnx hu)]
    simp only [unmark_append]
    rw [balance_bal st hb, balance_bal st hb, ih st]
  | @elem t a mid s' hf hb _ ih =>
    intro st
    have hb' : Bal (unmark (mid ++ inj c)) := by
      rw [unmark_append, unmark_inj]; exact hb.append hc
    rw [append_elem c _ _ mid s' hf.inner, unmark_elem, unmark_elem,
      balance_bal st (bal_elem t a hb), balance_bal st (bal_elem t a hb'), ih st]

theorem append_good (c : List MEv) (hc : Bal (evsOf c)) {s : MStream} (hg : Good s) :
    Good (append c s) := by
  unfold append
  induction hg with
  | nil => exact Good.nil
  | @plain x s' _ ih =>
    have : appendGo c none ((none, x) :: s') = (none, x) :: appendGo c none s' := by simp [appendGo]
    rw [this]; exact Good.plain x ih
  | @block m blk s' hne hnx hu hb _ ih =>
    rw [appendGo_inner c blk s' (Inner.ofUniform hne hnx hu)]
    exact Good.block m blk hne hnx hu hb ih
  | @elem t a mid s' hf hb _ ih =>
    rw [append_elem c _ _ mid s' hf.inner]
    refine Good.elem t a _ (hf.append (Flat.append_plain (inj_noneMarked c) Flat.nil |> fun h => by simpa using h))
      (by rw [unmark_append, unmark_inj]; exact hb.append hc) ih


/-! ### maps that keep marks and the START/END skeleton (attr, map, substitute) -/

/-- what an item does to the stack of open elements -/
def eff : MEv → Option (Bool × QName)
  | .ev (.start t _) => some (true, t)
  | .ev (.end_ t) => some (false, t)
  | _ => none

def effStep : Option (Bool × QName) → List QName → Option (List QName)
  | none, st => some st
  | some (true, t), st => some (t :: st)
  | some (false, t), t' :: st => if t = t' then some st else none
  | some (false, _), [] => none

theorem balance_unmark_cons (m : Option Mark) (x : MEv) (l : MStream) (st : List QName) :
    balance st (unmark ((m, x) :: l)) = (effStep (eff x) st).bind fun st' => balance st' (unmark l) := by
  cases x with
  | attr t a => simp [unmark, eff, effStep]
  | brk => simp [unmark, eff, effStep]
  | ev e =>
    cases e with
    | start t a => simp [unmark, eff, effStep, balance]
    | end_ t =>
      cases st with
      | nil => simp [unmark, eff, effStep, balance]
      | cons t' st => by_cases h : t = t' <;> simp [unmark, eff, effStep, balance, h]
    | _ => cases st <;> simp [unmark, eff, effStep, balance]

/-- a per-item map that keeps the mark and the stack effect -/
def EffPres (f : MItem → MItem) : Prop := ∀ p, (f p).1 = p.1 ∧ eff (f p).2 = eff p.2

theorem map_balance {f : MItem → MItem} (hf : EffPres f) (s : MStream) :
    ∀ st, balance st (unmark (s.map f)) = balance st (unmark s) := by
  induction s with
  | nil => intro st; rfl
  | cons p s ih =>
    intro st
    obtain ⟨m, x⟩ := p
    have h := hf (m, x)
    rw [List.map_cons, show f (m, x) = ((f (m, x)).1, (f (m, x)).2) from rfl,
      balance_unmark_cons, balance_unmark_cons, h.2]
    cases effStep (eff x) st with
    | none => rfl
    | some st' => simp [ih st']

theorem map_uniform {f : MItem → MItem} (hf : EffPres f) {m : Mark} {blk : MStream}
    (hu : Uniform m blk) : Uniform m (blk.map f) := by
  intro p hp
  obtain ⟨q, hq, rfl⟩ := List.mem_map.mp hp
  rw [(hf q).1]; exact hu q hq

theorem map_bal {f : MItem → MItem} (hf : EffPres f) {l : MStream} (h : Bal (unmark l)) :
    Bal (unmark (l.map f)) := by
  unfold Bal; rw [map_balance hf l []]; exact h

theorem map_flat {f : MItem → MItem} (hf : EffPres f) {l : MStream} (h : Flat l) : Flat (l.map f) := by
  induction h with
  | nil => exact Flat.nil
  | @plain x s' _ ih =>
    have h := hf (none, x)
    rw [List.map_cons, show f (none, x) = ((f (none, x)).1, (f (none, x)).2) from rfl, h.1]
    exact Flat.plain _ ih
  | @block m blk s' hne hnx hu hb _ ih =>
    rw [List.map_append]
    exact Flat.block m _ hne hnx (map_uniform hf hu) (map_bal hf hb) ih

/-- an effect-preserving map sends ENTER-marked START events to ENTER-marked START events
    with the same tag (and likewise EXIT/END) -/
theorem effPres_start {f : MItem → MItem} (hf : EffPres f) (m : Option Mark) (t : QName) (a : AttrList) :
    ∃ a', f (m, .ev (.start t a)) = (m, .ev (.start t a')) := by
  have h := hf (m, .ev (.start t a))
  generalize hq : f (m, .ev (.start t a)) = q at h
  obtain ⟨m', y⟩ := q
  simp only at h
  obtain ⟨h1, h2⟩ := h
  subst h1
  cases y with
  | attr t a => simp [eff] at h2
  | brk => simp [eff] at h2
  | ev e =>
    cases e <;> simp [eff] at h2
    subst h2
    exact ⟨_, rfl⟩

theorem effPres_end {f : MItem → MItem} (hf : EffPres f) (m : Option Mark) (t : QName) :
    f (m, .ev (.end_ t)) = (m, .ev (.end_ t)) := by
  have h := hf (m, .ev (.end_ t))
  generalize hq : f (m, .ev (.end_ t)) = q at h
  obtain ⟨m', y⟩ := q
  simp only at h
  obtain ⟨h1, h2⟩ := h
  subst h1
  cases y with
  | attr t a => simp [eff] at h2
  | brk => simp [eff] at h2
  | ev e =>
    cases e <;> simp [eff] at h2
    subst h2
    rfl

theorem map_good {f : MItem → MItem} (hf : EffPres f) {s : MStream} (h : Good s) : Good (s.map f) := by
  induction h with
  | nil => exact Good.nil
  | @plain x s' _ ih =>
    have h := hf (none, x)
    rw [List.map_cons, show f (none, x) = ((f (none, x)).1, (f (none, x)).2) from rfl, h.1]
    exact Good.plain _ ih
  | @block m blk s' hne hnx hu hb _ ih =>
    rw [List.map_append]
    exact Good.block m _ hne hnx (map_uniform hf hu) (map_bal hf hb) ih
  | @elem t a mid s' hfl hb _ ih =>
    obtain ⟨a', ha'⟩ := effPres_start hf (some .enter) t a
    rw [List.map_cons, List.map_append, List.map_cons, ha', effPres_end hf]
    exact Good.elem t a' _ (map_flat hf hfl) (map_bal hf hb) ih

theorem attrEv_effPres (n : QName) (v : Option Str) : EffPres (attrEv n v) := by
  rintro ⟨_ | m, x⟩
  · exact ⟨rfl, rfl⟩
  · cases m <;> cases x <;> (try (rename_i e; cases e)) <;> exact ⟨rfl, rfl⟩

theorem attrFnEv_effPres (n : QName) (f : QName → AttrList → Option Str) : EffPres (attrFnEv n f) := by
  rintro ⟨_ | m, x⟩
  · exact ⟨rfl, rfl⟩
  · cases m <;> cases x <;> (try (rename_i e; cases e)) <;> exact ⟨rfl, rfl⟩

theorem mapBangEv_effPres (all : Bool) : EffPres (mapBangEv all) := by
  rintro ⟨_ | m, x⟩
  · exact ⟨rfl, rfl⟩
  · cases x with
    | ev e => cases e <;> first | exact ⟨rfl, rfl⟩ | (cases all <;> exact ⟨rfl, rfl⟩)
    | _ => exact ⟨rfl, rfl⟩

theorem mapTextEv_effPres (f : Str → Bool → Str × Bool) : EffPres (mapTextEv f) := by
  rintro ⟨_ | m, x⟩
  · exact ⟨rfl, rfl⟩
  · cases x with
    | ev e => cases e <;> exact ⟨rfl, rfl⟩
    | _ => exact ⟨rfl, rfl⟩

theorem substEv_effPres (pat rep : Str) (count : Nat) : EffPres (substEv pat rep count) := by
  rintro ⟨_ | m, x⟩
  · exact ⟨rfl, rfl⟩
  · cases x with
    | ev e => cases e <;> exact ⟨rfl, rfl⟩
    | _ => exact ⟨rfl, rfl⟩

/-! ### rename -/

theorem rename_inner (n : QName) {l : MStream} (h : Inner l) : rename n l = l := by
  unfold rename
  induction l with
  | nil => rfl
  | cons p l ih =>
    obtain ⟨m, x⟩ := p
    obtain ⟨h1, h2⟩ := h (m, x) (by simp)
    have : renameEv n (m, x) = (m, x) := by
      rcases m with _ | m
      · rfl
      · cases m <;> first | rfl | exact absurd rfl h1 | exact absurd rfl h2
    rw [List.map_cons, this, ih h.tail]

theorem rename_elem (n t : QName) (a : AttrList) (mid s : MStream) (h : Inner mid) :
    rename n ((some .enter, .ev (.start t a)) :: (mid ++ (some .exit, .ev (.end_ t)) :: s)) =
      (some .enter, .ev (.start n a)) :: (mid ++ (some .exit, .ev (.end_ n)) :: rename n s) := by
  have := rename_inner n h
  unfold rename at *
  simp [renameEv, this]

theorem rename_balance (n : QName) {s : MStream} (hg : Good s) :
    ∀ st, balance st (unmark (rename n s)) = balance st (unmark s) := by
  induction hg with
  | nil => intro st; rfl
  | @plain x s' _ ih =>
    intro st
    have : rename n ((none, x) :: s') = (none, x) :: rename n s' := by simp [rename, renameEv]
    rw [this]
    cases x with
    | ev e => simp only [unmark]; exact balance_cons_congr e ih st
    | attr t a => simp only [unmark]; exact ih st
    | brk => simp only [unmark]; exact ih st
  | @block m blk s' hne hnx hu hb _ ih =>
    intro st
    have : rename n (blk ++ s') = rename n blk ++ rename n s' := by simp [rename]
    rw [this, rename_inner n (Inner.ofUniform hne hnx hu)]
    simp only [unmark_append]
    rw [balance_bal st hb, balance_bal st hb, ih st]
  | @elem t a mid s' hf hb _ ih =>
    intro st
    rw [rename_elem n t a mid s' hf.inner, unmark_elem, unmark_elem,
      balance_bal st (bal_elem t a hb), balance_bal st (bal_elem n a hb), ih st]

theorem rename_good (n : QName) {s : MStream} (hg : Good s) : Good (rename n s) := by
  induction hg with
  | nil => exact Good.nil
  | @plain x s' _ ih =>
    have : rename n ((none, x) :: s') = (none, x) :: rename n s' := by simp [rename, renameEv]
    rw [this]; exact Good.plain x ih
  | @block m blk s' hne hnx hu hb _ ih =>
    have : rename n (blk ++ s') = rename n blk ++ rename n s' := by simp [rename]
    rw [this, rename_inner n (Inner.ofUniform hne hnx hu)]
    exact Good.block m blk hne hnx hu hb ih
  | @elem t a mid s' hf hb _ ih =>
    rw [rename_elem n t a mid s' hf.inner]
    exact Good.elem n a mid hf hb ih


/-! ### remove -/

theorem removeGo_noneMarked (names : List QName) (s : MStream) : NoneMarked (removeGo names s) := by
  induction s generalizing names with
  | nil => intro p hp; simp [removeGo] at hp
  | cons q s ih =>
    obtain ⟨m, x⟩ := q
    rcases m with _ | m
    · simp only [removeGo]
      split
      · intro p hp
        rcases List.mem_cons.mp hp with rfl | hp
        · rfl
        · exact ih [] p hp
      · intro p hp
        rcases List.mem_cons.mp hp with rfl | hp
        · rfl
        · exact ih names p hp
    · cases m <;> simp only [removeGo] <;> exact ih _

theorem removeGo_block {m : Mark} {blk : MStream} (hu : Uniform m blk) (names : List QName) (r : MStream) :
    ∃ names', removeGo names (blk ++ r) = removeGo names' r := by
  induction blk generalizing names with
  | nil => exact ⟨names, rfl⟩
  | cons p blk ih =>
    obtain ⟨m', x⟩ := p
    have hm : m' = some m := hu (m', x) (by simp)
    have hu' : Uniform m blk := fun q hq => hu q (by simp [hq])
    subst hm
    cases m <;> simp only [List.cons_append, removeGo] <;> exact ih hu' _

theorem eff_stripAttrs (names : List QName) (x : MEv) : eff (stripAttrs names x) = eff x := by
  cases x with
  | ev e => cases e <;> rfl
  | _ => rfl

theorem balance_unmark_cons_app (m : Option Mark) (x : MEv) (l : MStream) (R : Stream) (st : List QName) :
    balance st (unmark ((m, x) :: l) ++ R) =
      (effStep (eff x) st).bind fun st' => balance st' (unmark l ++ R) := by
  cases x with
  | attr t a => simp [unmark, eff, effStep]
  | brk => simp [unmark, eff, effStep]
  | ev e =>
    cases e with
    | start t a => simp [unmark, eff, effStep, balance]
    | end_ t =>
      cases st with
      | nil => simp [unmark, eff, effStep, balance]
      | cons t' st => by_cases h : t = t' <;> simp [unmark, eff, effStep, balance, h]
    | _ => cases st <;> simp [unmark, eff, effStep, balance]

theorem removeGo_plain_balance (names : List QName) (x : MEv) (l : MStream) (R : Stream)
    (h : ∀ names st, balance st (unmark (removeGo names l)) = balance st R) (st : List QName) :
    balance st (unmark (removeGo names ((none, x) :: l))) =
      (effStep (eff x) st).bind fun st' => balance st' R := by
  simp only [removeGo]
  split
  · rw [balance_unmark_cons, eff_stripAttrs]
    cases effStep (eff x) st with
    | none => rfl
    | some st' => simp [h]
  · rw [balance_unmark_cons]
    cases effStep (eff x) st with
    | none => rfl
    | some st' => simp [h]

theorem removeGo_flat {mid : MStream} (hf : Flat mid) (rest : MStream) (R : Stream)
    (hr : ∀ names st, balance st (unmark (removeGo names rest)) = balance st R) :
    ∀ names st, balance st (unmark (removeGo names (mid ++ rest))) = balance st (unmark mid ++ R) := by
  induction hf with
  | nil => simpa [unmark] using hr
  | @plain x s' _ ih =>
    intro names st
    rw [List.cons_append, removeGo_plain_balance names x _ _ ih st, balance_unmark_cons_app]
  | @block m blk s' hne hnx hu hb _ ih =>
    intro names st
    obtain ⟨names', h⟩ := removeGo_block hu names (s' ++ rest)
    rw [List.append_assoc, h, ih names' st, unmark_append, List.append_assoc, balance_bal st hb]

theorem remove_balance {s : MStream} (hg : Good s) :
    ∀ names st, balance st (unmark (removeGo names s)) = balance st (unmark s) := by
  induction hg with
  | nil => intro names st; rfl
  | @plain x s' _ ih =>
    intro names st
    rw [removeGo_plain_balance names x _ _ ih st, balance_unmark_cons]
  | @block m blk s' hne hnx hu hb _ ih =>
    intro names st
    obtain ⟨names', h⟩ := removeGo_block hu names s'
    rw [h, ih names' st, unmark_append, balance_bal st hb]
  | @elem t a mid s' hf hb _ ih =>
    intro names st
    have h1 : removeGo names ((some Mark.enter, MEv.ev (.start t a)) :: (mid ++ (some Mark.exit, MEv.ev (.end_ t)) :: s')) =
        removeGo names (mid ++ (some Mark.exit, MEv.ev (.end_ t)) :: s') := by simp [removeGo]
    have hr : ∀ names st, balance st (unmark (removeGo names ((some Mark.exit, MEv.ev (.end_ t)) :: s'))) =
        balance st (unmark s') := by
      intro names st; simp only [removeGo]; exact ih names st
    rw [h1, removeGo_flat hf _ _ hr names st, balance_bal st hb, unmark_elem,
      balance_bal st (bal_elem t a hb)]

theorem remove_good (s : MStream) : Good (remove s) := by
  have := Good.append_plain (removeGo_noneMarked [] s) Good.nil
  simpa [remove] using this

/-! ### copy, invert, end -/

theorem copyGo_spec (s : MStream) :
    copyGo .idle [] s = s ∧ (∀ pend, copyGo .inEnter pend s = pend ++ s) ∧
    (∀ m pend, copyGo (.inRun m) pend s = pend ++ s) := by
  induction s with
  | nil => simp [copyGo]
  | cons p s ih =>
    obtain ⟨m, x⟩ := p
    obtain ⟨h0, h1, h2⟩ := ih
    have hidle : copyGo .idle [] ((m, x) :: s) = (m, x) :: s := by
      rcases m with _ | m
      · simp [copyGo, h0]
      · simp only [copyGo, startSt]
        split
        · rw [h1]; rfl
        · rw [h2]; rfl
    refine ⟨hidle, ?_, ?_⟩
    · intro pend
      simp only [copyGo]
      split
      · simp [h0]
      · rw [h1]; simp
    · intro m0 pend
      by_cases hm : m = some m0
      · simp [copyGo, hm, h2]
      · rcases m with _ | m
        · simp [copyGo, h0]
        · have hm' : m ≠ m0 := fun h => hm (by rw [h])
          by_cases he : m = .enter
          · subst he
            have : ¬ Mark.enter = m0 := hm'
            simp [copyGo, this, startSt, h1]
          · simp [copyGo, hm', startSt, he, h2]

theorem copy_id (s : MStream) : copy s = s := (copyGo_spec s).1

theorem unmark_invert (s : MStream) : unmark (invert s) = unmark s := by
  unfold invert
  exact unmark_map_mark (fun p => if p.1.isSome then none else some Mark.outside) s

theorem unmark_endSel (s : MStream) : unmark (endSel s) = unmark s := by
  unfold endSel
  exact unmark_map_mark (fun _ => some Mark.outside) s

theorem endSel_good {s : MStream} (h : WellNested (unmark s)) : Good (endSel s) := by
  have := Good.block .outside (endSel s) (by decide) (by decide)
    (by intro p hp; simp [endSel] at hp; obtain ⟨_, _, _, rfl⟩ := hp; rfl)
    (by rw [unmark_endSel]; exact h) Good.nil
  simpa using this

theorem markAll_good {s : Stream} (h : WellNested s) : Good (markAll s) := by
  have := Good.block .outside (markAll s) (by decide) (by decide)
    (by intro p hp; simp [markAll] at hp; obtain ⟨_, _, rfl⟩ := hp; rfl)
    (by rw [unmark_markAll]; exact h) Good.nil
  simpa using this

end Genshi.Tf
